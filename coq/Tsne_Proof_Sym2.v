(* Tsne_Proof_Sym2.v — proofs about Tsne_Sym_Model.v (TSNE::symmetrizeMatrix), part 2:
   on a well-formed CSR input (Tsne_Spec.wf_csr: N+1 non-decreasing row pointers from 0 to
   nnz, columns < N, distinct columns per row)
     A. every read of the first pass is in range and row_counts[x] is the number of entries
        the symmetric matrix has in row x (count_pass_ok);
     B. the second pass advances offset[x] exactly row_counts[x] times in total (counting
        lemma SC_eq_SF): the number of emissions equals the number of counted entries;
     C. hence every store sym_*_P[sym_row_P[x] + offset[x]] is below sym_row_P[x+1], nothing
        is out of range, no slot is left unwritten: symmetrize returns Ok (symmetrize_safe). *)
From Coq Require Import List Arith Bool Lia Permutation.
From TK Require Import Tsne_Sym_Model Tsne_Spec Tsne_Proof_Sym.
Import ListNotations.

(* ---------- generic list facts ---------- *)
Lemma skipn_cons_nth : forall {T} (l : list T) d lo, lo < length l ->
  skipn lo l = nth lo l d :: skipn (S lo) l.
Proof.
  intros T l d. induction l as [|x r IH]; intros lo H; [cbn in H; lia|].
  destruct lo as [|lo]; [reflexivity|]. cbn [length] in H. cbn [skipn nth].
  rewrite (IH lo) by lia. reflexivity.
Qed.

Lemma seg_map_nth : forall {T} (l : list T) d len lo, lo + len <= length l ->
  firstn len (skipn lo l) = map (fun i => nth i l d) (seq lo len).
Proof.
  intros T l d. induction len as [|len IH]; intros lo H; [reflexivity|].
  rewrite (skipn_cons_nth l d lo) by lia. cbn [firstn seq map]. f_equal. apply IH. lia.
Qed.

Lemma nth_error_nth_lt : forall {T} (l : list T) d i, i < length l -> nth_error l i = Some (nth i l d).
Proof. intros T l d i H. now apply nth_error_nth'. Qed.

Lemma rd_ok : forall {T} a (l : list T) d i, i < length l -> rd a l i = Ok (nth i l d).
Proof. intros T a l d i H. unfold rd. now rewrite (nth_error_nth_lt l d i H). Qed.

Lemma nth_upd : forall {T} (l : list T) i x d j,
  nth j (upd l i x) d = if (j =? i) && (i <? length l) then x else nth j l d.
Proof.
  intros T l. induction l as [|y r IH]; intros i x d j.
  - cbn [upd length]. destruct i, j; cbn; try reflexivity; now rewrite ?andb_false_r.
  - destruct i as [|i]; destruct j as [|j]; cbn [upd nth length]; try reflexivity.
    rewrite IH. cbn [Nat.eqb]. replace (S i <? S (length r)) with (i <? length r); [reflexivity|].
    destruct (Nat.ltb_spec i (length r)), (Nat.ltb_spec (S i) (S (length r))); try reflexivity; lia.
Qed.

Lemma nth_error_upd : forall {T} (l : list T) i x j,
  nth_error (upd l i x) j = if (j =? i) && (i <? length l) then Some x else nth_error l j.
Proof.
  intros T l. induction l as [|y r IH]; intros i x j.
  - cbn [upd length]. destruct i, j; cbn; try reflexivity; now rewrite ?andb_false_r.
  - destruct i as [|i]; destruct j as [|j]; cbn [upd nth_error length]; try reflexivity.
    rewrite IH. cbn [Nat.eqb]. replace (S i <? S (length r)) with (i <? length r); [reflexivity|].
    destruct (Nat.ltb_spec i (length r)), (Nat.ltb_spec (S i) (S (length r))); try reflexivity; lia.
Qed.

Definition nsum (l : list nat) : nat := fold_right Nat.add 0 l.

Lemma nsum_app : forall a b, nsum (a ++ b) = nsum a + nsum b.
Proof. induction a as [|x a IH]; intros b; cbn [app nsum fold_right]; [reflexivity|]. fold (nsum (a ++ b)). fold (nsum a). rewrite IH. lia. Qed.

Lemma fold_left_add_nsum : forall l a, fold_left Nat.add l a = a + nsum l.
Proof.
  induction l as [|x l IH]; intros a; cbn [fold_left nsum fold_right]; [lia|].
  fold (nsum l). rewrite IH. lia.
Qed.

(* ---------- incr ---------- *)
Lemma incr_ok : forall a l i, i < length l ->
  exists l', incr a l i = Ok l' /\ length l' = length l /\
             forall x, nth x l' 0 = nth x l 0 + (if x =? i then 1 else 0).
Proof.
  intros a l i H. unfold incr. rewrite (rd_ok a l 0 i H). cbn [bind]. unfold wr.
  destruct (Nat.ltb_spec i (length l)) as [_|C]; [|lia].
  eexists. split; [reflexivity|]. split; [apply upd_length|].
  intros x. rewrite nth_upd. destruct (Nat.eqb_spec x i) as [->|NE]; cbn [andb].
  - destruct (Nat.ltb_spec i (length l)); lia.
  - lia.
Qed.

(* a loop all of whose iterations add a known contribution to a vector of counters *)
Lemma forM_count : forall {S} (xs : list S) (contrib : S -> nat -> nat)
    (body : S -> list nat -> res (list nat)) L,
  (forall s l, In s xs -> length l = L ->
     exists l', body s l = Ok l' /\ length l' = L /\ forall x, nth x l' 0 = nth x l 0 + contrib s x) ->
  forall l, length l = L ->
  exists l', forM xs l body = Ok l' /\ length l' = L /\
             forall x, nth x l' 0 = nth x l 0 + nsum (map (fun s => contrib s x) xs).
Proof.
  intros S xs contrib body L. induction xs as [|s xs IH]; intros Hb l Hl.
  - exists l. split; [reflexivity|]. split; [assumption|]. intros x. cbn. lia.
  - destruct (Hb s l (or_introl eq_refl) Hl) as (l1 & E1 & L1 & C1).
    destruct (IH (fun s0 l0 Hin => Hb s0 l0 (or_intror Hin)) l1 L1) as (l2 & E2 & L2 & C2).
    exists l2. cbn [forM]. rewrite E1. cbn [bind]. split; [exact E2|]. split; [exact L2|].
    intros x. rewrite C2, C1. cbn [map nsum fold_right]. fold (nsum (map (fun s0 => contrib s0 x) xs)). lia.
Qed.

Lemma forM_ext : forall {S T} (xs : list S) (f g : S -> T -> res T) st,
  (forall x s, In x xs -> f x s = g x s) -> forM xs st f = forM xs st g.
Proof.
  intros S T xs f g. induction xs as [|x xs IH]; intros st H; [reflexivity|].
  cbn [forM]. rewrite (H x st (or_introl eq_refl)). destruct (g x st); cbn [bind]; try reflexivity.
  apply IH. intros y s Hy. apply H. now right.
Qed.

Lemma forM_app : forall {S T} (xs ys : list S) (f : S -> T -> res T) st,
  forM (xs ++ ys) st f = bind (forM xs st f) (fun st' => forM ys st' f).
Proof.
  intros S T xs ys f. induction xs as [|x xs IH]; intros st; cbn [app forM]; [reflexivity|].
  destruct (f x st); cbn [bind]; try reflexivity. apply IH.
Qed.

Lemma forM_map : forall {S S' T} (h : S -> S') (xs : list S) (f : S' -> T -> res T) st,
  forM (map h xs) st f = forM xs st (fun x => f (h x)).
Proof.
  intros S S' T h xs f. induction xs as [|x xs IH]; intros st; cbn [map forM]; [reflexivity|].
  destruct (f (h x) st); cbn [bind]; try reflexivity. apply IH.
Qed.

Lemma forM_flat_map : forall {S S' T} (g : S -> list S') (xs : list S) (f : S' -> T -> res T) st,
  forM (flat_map g xs) st f = forM xs st (fun x st' => forM (g x) st' f).
Proof.
  intros S S' T g xs f. induction xs as [|x xs IH]; intros st; cbn [flat_map forM]; [reflexivity|].
  rewrite forM_app. destruct (forM (g x) st f); cbn [bind]; try reflexivity. apply IH.
Qed.

Lemma existsb_find : forall {T} (f : T -> bool) l,
  existsb f l = match find f l with Some _ => true | None => false end.
Proof.
  intros T f l. induction l as [|x l IH]; [reflexivity|]. cbn [existsb find].
  destruct (f x); [reflexivity | exact IH].
Qed.

Lemma nth_error_skipn_add : forall {T} (l : list T) lo j, nth_error (skipn lo l) j = nth_error l (lo + j).
Proof.
  intros T l lo. revert l. induction lo as [|lo IH]; intros l j; [reflexivity|].
  destruct l as [|a l]; cbn [skipn Nat.add nth_error]; [now destruct j | apply IH].
Qed.

Lemma nth_error_firstn_lt : forall {T} (l : list T) len j, j < len -> nth_error (firstn len l) j = nth_error l j.
Proof.
  intros T l len. revert l. induction len as [|len IH]; intros l j H; [lia|].
  destruct l as [|a l]; [now destruct j|]. destruct j as [|j]; cbn [firstn nth_error]; [reflexivity|].
  apply IH. lia.
Qed.

Lemma nth_error_seg : forall {T} (l : list T) lo len j, j < len ->
  nth_error (firstn len (skipn lo l)) j = nth_error l (lo + j).
Proof. intros T l lo len j H. rewrite nth_error_firstn_lt by assumption. apply nth_error_skipn_add. Qed.

Lemma find_combine : forall {T} (cs : list nat) (vs : list T) y j a,
  NoDup cs -> nth_error cs j = Some y -> nth_error vs j = Some a ->
  option_map snd (find (fun e => Nat.eqb (fst e) y) (combine cs vs)) = Some a.
Proof.
  intros T cs. induction cs as [|c cs IH]; intros vs y j a Hnd Hc Hv; [now destruct j|].
  destruct vs as [|v vs]; [now destruct j|]. inversion Hnd as [|? ? Hnin Hnd']; subst.
  cbn [combine find fst]. destruct j as [|j]; cbn [nth_error] in Hc, Hv.
  - inversion Hc; inversion Hv; subst. now rewrite Nat.eqb_refl.
  - destruct (Nat.eqb_spec c y) as [->|NE].
    + exfalso. apply Hnin. eapply nth_error_In. exact Hc.
    + now apply (IH vs y j a).
Qed.

Lemma find_combine_none : forall {T} (cs : list nat) (vs : list T) y,
  ~ In y cs -> option_map snd (find (fun e => Nat.eqb (fst e) y) (combine cs vs)) = None.
Proof.
  intros T cs. induction cs as [|c cs IH]; intros vs y H; [reflexivity|].
  destruct vs as [|v vs]; [reflexivity|]. cbn [combine find fst].
  destruct (Nat.eqb_spec c y) as [->|NE]; [exfalso; apply H; now left|]. apply IH. intros Hin. apply H. now right.
Qed.

Section Sym2.
Variable V : Type.
Variable vadd : V -> V -> V.
Variable vhalf : V -> V.
Variable p : csr V.
Variable N : nat.
Hypothesis WF : wf_csr N p.

Notation R := (rowp p).
Definition cA (i : nat) : nat := nth i (col_P p) 0.

Lemma WF_len : length (row_P p) = N + 1. Proof. apply WF. Qed.
Lemma WF_R0 : R 0 = 0. Proof. apply WF. Qed.
Lemma WF_step : forall n, n < N -> R n <= R (n + 1). Proof. apply WF. Qed.
Lemma WF_RN : R N = length (col_P p). Proof. apply WF. Qed.
Lemma WF_val : length (val_P p) = length (col_P p). Proof. apply WF. Qed.
Lemma WF_col : forall c, In c (col_P p) -> c < N. Proof. apply WF. Qed.
Lemma WF_nodup : forall n, n < N -> NoDup (row_cols p n). Proof. apply WF. Qed.

Lemma R_mono : forall a b, a <= b -> b <= N -> R a <= R b.
Proof.
  intros a b Hab. induction Hab as [|b Hab IH]; intros HN; [lia|].
  specialize (IH ltac:(lia)). pose proof (WF_step b ltac:(lia)) as Hs.
  replace (b + 1) with (S b) in Hs by lia. lia.
Qed.

Lemma R_le_len : forall n, n <= N -> R n <= length (col_P p).
Proof. intros n Hn. rewrite <- WF_RN. apply R_mono; lia. Qed.

Lemma rd_row : forall n, n <= N -> rd A_row_P (row_P p) n = Ok (R n).
Proof. intros n Hn. unfold rowp. apply rd_ok. rewrite WF_len. lia. Qed.

Lemma rd_col : forall i, i < length (col_P p) -> rd A_col_P (col_P p) i = Ok (cA i).
Proof. intros i Hi. unfold cA. now apply rd_ok. Qed.

Lemma cA_lt : forall i, i < length (col_P p) -> cA i < N.
Proof. intros i Hi. apply WF_col. unfold cA. now apply nth_In. Qed.

Lemma range_In : forall lo hi i, In i (range lo hi) <-> lo <= i < hi.
Proof. intros lo hi i. unfold range. rewrite in_seq. lia. Qed.

Lemma row_cols_eq : forall n, n < N -> row_cols p n = map cA (range (R n) (R (n + 1))).
Proof.
  intros n Hn. unfold row_cols, seg, range.
  apply (seg_map_nth (col_P p) 0).
  pose proof (WF_step n Hn). pose proof (R_le_len (n + 1) ltac:(lia)). lia.
Qed.

Lemma row_idx_lt : forall n i, n < N -> In i (range (R n) (R (n + 1))) -> i < length (col_P p).
Proof.
  intros n i Hn Hi. apply range_In in Hi. pose proof (R_le_len (n + 1) ltac:(lia)). lia.
Qed.

(* ---------- present ---------- *)
Definition presentb (n c : nat) : bool :=
  existsb (fun m => Nat.eqb (cA m) n) (range (R c) (R (c + 1))).

Lemma presentb_spec : forall n c, c < N -> presentb n c = true <-> In n (row_cols p c).
Proof.
  intros n c Hc. unfold presentb. rewrite existsb_exists, (row_cols_eq c Hc), in_map_iff. split.
  - intros (m & Hm & E). apply Nat.eqb_eq in E. now exists m.
  - intros (m & E & Hm). exists m. split; [assumption|]. now apply Nat.eqb_eq.
Qed.

Lemma present_scan_ok : forall n c, c < N -> present_scan V p n c = Ok (presentb n c).
Proof.
  intros n c Hc. unfold present_scan. rewrite (rd_row c) by lia. cbn [bind].
  rewrite (rd_row (c + 1)) by lia. cbn [bind]. unfold presentb.
  assert (G : forall l b, (forall m, In m l -> m < length (col_P p)) ->
    forM l b (fun m present => do cm <- rd A_col_P (col_P p) m; Ok (if Nat.eqb cm n then true else present))
    = Ok (b || existsb (fun m => Nat.eqb (cA m) n) l)).
  { induction l as [|m l IH]; intros b Hl; cbn [forM existsb]; [now rewrite orb_false_r|].
    rewrite (rd_col m) by (apply Hl; now left). cbn [bind].
    rewrite IH by (intros m' Hm'; apply Hl; now right).
    f_equal. destruct (Nat.eqb (cA m) n), b; reflexivity. }
  rewrite G; [reflexivity|]. intros m Hm. now apply (row_idx_lt c).
Qed.

(* ---------- first pass ---------- *)
Definition d1 (a b : nat) : nat := if Nat.eqb a b then 1 else 0.

(* contribution of entry (n, c) to row_counts[x] *)
Definition cC (n c x : nat) : nat := d1 x n + (if presentb n c then 0 else d1 x c).

Lemma count_entry_ok : forall n i rc, n < N -> In i (range (R n) (R (n + 1))) -> length rc = N ->
  exists rc', count_entry V p n i rc = Ok rc' /\ length rc' = N /\
              forall x, nth x rc' 0 = nth x rc 0 + cC n (cA i) x.
Proof.
  intros n i rc Hn Hi Hl. unfold count_entry.
  pose proof (row_idx_lt n i Hn Hi) as Hil. rewrite (rd_col i Hil). cbn [bind].
  pose proof (cA_lt i Hil) as Hc. rewrite (present_scan_ok n (cA i) Hc). cbn [bind].
  unfold cC. destruct (presentb n (cA i)).
  - destruct (incr_ok A_row_counts rc n ltac:(lia)) as (l1 & E1 & L1 & C1).
    exists l1. split; [exact E1|]. split; [lia|]. intros x. rewrite C1. unfold d1. lia.
  - destruct (incr_ok A_row_counts rc n ltac:(lia)) as (l1 & E1 & L1 & C1).
    destruct (incr_ok A_row_counts l1 (cA i) ltac:(lia)) as (l2 & E2 & L2 & C2).
    exists l2. rewrite E1. cbn [bind]. split; [exact E2|]. split; [lia|].
    intros x. rewrite C2, C1. unfold d1. lia.
Qed.

(* row_counts[x] after the first pass *)
Definition SC (x : nat) : nat :=
  nsum (map (fun n => nsum (map (fun i => cC n (cA i) x) (range (R n) (R (n + 1))))) (seq 0 N)).

Theorem count_pass_ok :
  exists rc, count_pass V p N = Ok rc /\ length rc = N /\ forall x, nth x rc 0 = SC x.
Proof.
  unfold count_pass.
  destruct (forM_count (seq 0 N)
              (fun n x => nsum (map (fun i => cC n (cA i) x) (range (R n) (R (n + 1)))))
              (fun n rc => do lo <- rd A_row_P (row_P p) n; do hi <- rd A_row_P (row_P p) (n + 1);
                           forM (range lo hi) rc (fun i rc => count_entry V p n i rc)) N)
    with (l := repeat 0 N) as (rc & E & L & C).
  - intros n l Hn Hl. apply in_seq in Hn.
    rewrite (rd_row n) by lia. cbn [bind]. rewrite (rd_row (n + 1)) by lia. cbn [bind].
    apply (forM_count (range (R n) (R (n + 1))) (fun i x => cC n (cA i) x)); [|exact Hl].
    intros i l0 Hi Hl0. apply count_entry_ok; [lia | exact Hi | exact Hl0].
  - apply repeat_length.
  - exists rc. split; [exact E|]. split; [exact L|]. intros x. rewrite C. unfold SC.
    assert (Z : nth x (repeat 0 N) 0 = 0).
    { clear. revert x. induction N as [|k IH]; intros [|x]; cbn; auto. }
    rewrite Z. reflexivity.
Qed.

(* ---------- second pass: how often offset[x] is advanced ---------- *)
Definition active (n c : nat) : bool := negb (presentb n c) || (n <=? c).
Definition cF (n c x : nat) : nat :=
  if active n c then d1 x n + (if Nat.eqb c n then 0 else d1 x c) else 0.

Definition SF (x : nat) : nat :=
  nsum (map (fun n => nsum (map (fun i => cF n (cA i) x) (range (R n) (R (n + 1))))) (seq 0 N)).

Definition memb (x : nat) (l : list nat) : bool := existsb (Nat.eqb x) l.

Lemma memb_In : forall x l, memb x l = true <-> In x l.
Proof.
  intros x l. unfold memb. rewrite existsb_exists. split.
  - intros (y & Hy & E). apply Nat.eqb_eq in E. now subst.
  - intros H. exists x. split; [assumption | apply Nat.eqb_refl].
Qed.

Lemma presentb_memb : forall n c, c < N -> presentb n c = memb n (row_cols p c).
Proof.
  intros n c Hc. destruct (memb n (row_cols p c)) eqn:E.
  - apply presentb_spec; [assumption|]. now apply memb_In.
  - destruct (presentb n c) eqn:E2; [|reflexivity].
    apply presentb_spec in E2; [|assumption]. apply memb_In in E2. congruence.
Qed.

Lemma nsum_ext : forall {S} (f g : S -> nat) l, (forall s, In s l -> f s = g s) ->
  nsum (map f l) = nsum (map g l).
Proof.
  intros S f g l. induction l as [|s l IH]; intros H; [reflexivity|].
  cbn [map nsum fold_right]. fold (nsum (map f l)). fold (nsum (map g l)).
  rewrite (H s (or_introl eq_refl)), IH; [reflexivity|]. intros s' Hs'. apply H. now right.
Qed.

Lemma nsum_add : forall {S} (f g : S -> nat) l,
  nsum (map (fun s => f s + g s) l) = nsum (map f l) + nsum (map g l).
Proof.
  intros S f g l. induction l as [|s l IH]; [reflexivity|].
  cbn [map nsum fold_right]. fold (nsum (map (fun s0 => f s0 + g s0) l)).
  fold (nsum (map f l)). fold (nsum (map g l)). rewrite IH. lia.
Qed.

Lemma nsum_zero : forall {S} (f : S -> nat) l, (forall s, In s l -> f s = 0) -> nsum (map f l) = 0.
Proof.
  intros S f l H. induction l as [|s l IH]; [reflexivity|].
  cbn [map nsum fold_right]. fold (nsum (map f l)). rewrite (H s (or_introl eq_refl)), IH; [reflexivity|].
  intros s' Hs'. apply H. now right.
Qed.

(* in a duplicate-free list the value x is met at most once *)
Lemma nsum_indicator_eq : forall (f : nat -> bool) x l, NoDup l ->
  nsum (map (fun c => if Nat.eqb c x && f c then 1 else 0) l) = if memb x l && f x then 1 else 0.
Proof.
  intros f x l Hnd. induction Hnd as [|c l Hnin Hnd IH]; [reflexivity|].
  cbn [map nsum fold_right]. fold (nsum (map (fun c0 => if Nat.eqb c0 x && f c0 then 1 else 0) l)).
  rewrite IH. unfold memb. cbn [existsb]. fold (memb x l).
  destruct (Nat.eqb_spec c x) as [->|NE].
  - rewrite Nat.eqb_refl. cbn [orb andb].
    assert (E : memb x l = false).
    { destruct (memb x l) eqn:E; [|reflexivity]. apply memb_In in E. contradiction. }
    rewrite E. cbn [andb]. destruct (f x); reflexivity.
  - destruct (Nat.eqb_spec x c) as [E|_]; [congruence|]. cbn [orb andb]. lia.
Qed.

Lemma nsum_single_seq : forall (g : nat -> nat) x len, x < len ->
  nsum (map (fun n => if Nat.eqb n x then g n else 0) (seq 0 len)) = g x.
Proof.
  intros g x len Hx.
  assert (G : forall len s, nsum (map (fun n => if Nat.eqb n x then g n else 0) (seq s len))
                            = if (s <=? x) && (x <? s + len) then g x else 0).
  { clear. induction len as [|len IH]; intros s; cbn [seq map nsum fold_right].
    - destruct (Nat.leb_spec s x), (Nat.ltb_spec x (s + 0)); cbn [andb]; try reflexivity; lia.
    - fold (nsum (map (fun n => if Nat.eqb n x then g n else 0) (seq (S s) len))). rewrite IH.
      destruct (Nat.eqb_spec s x) as [->|NE].
      + destruct (Nat.leb_spec (S x) x); [lia|]. cbn [andb].
        destruct (Nat.leb_spec x x); [|lia]. destruct (Nat.ltb_spec x (x + S len)); [|lia]. cbn [andb]. lia.
      + destruct (Nat.leb_spec (S s) x), (Nat.ltb_spec x (S s + len)), (Nat.leb_spec s x),
          (Nat.ltb_spec x (s + S len)); cbn [andb]; try reflexivity; lia. }
  rewrite G. destruct (Nat.leb_spec 0 x); [|lia]. destruct (Nat.ltb_spec x (0 + len)); [|lia]. reflexivity.
Qed.

Lemma nsum_indicator_length : forall (f : nat -> bool) l,
  nsum (map (fun c => if f c then 1 else 0) l) = length (filter f l).
Proof.
  intros f l. induction l as [|c l IH]; [reflexivity|].
  cbn [map nsum fold_right filter]. fold (nsum (map (fun c0 => if f c0 then 1 else 0) l)).
  rewrite IH. destruct (f c); cbn [length]; lia.
Qed.

(* counting over a duplicate-free list of indices below N = counting over 0..N-1 *)
Lemma count_nodup_seq : forall (f : nat -> bool) l, NoDup l -> (forall c, In c l -> c < N) ->
  nsum (map (fun c => if f c then 1 else 0) l)
  = nsum (map (fun c => if memb c l && f c then 1 else 0) (seq 0 N)).
Proof.
  intros f l Hnd Hlt. rewrite !nsum_indicator_length. apply Permutation_length.
  apply NoDup_Permutation.
  - now apply NoDup_filter.
  - apply NoDup_filter, seq_NoDup.
  - intros c. rewrite !filter_In, in_seq, andb_true_iff, memb_In. split.
    + intros [Hin Hf]. split; [|now split]. specialize (Hlt c Hin). lia.
    + intros [_ [Hin Hf]]. now split.
Qed.

Lemma row_sum_cols : forall (F : nat -> nat) n, n < N ->
  nsum (map (fun i => F (cA i)) (range (R n) (R (n + 1)))) = nsum (map F (row_cols p n)).
Proof. intros F n Hn. rewrite (row_cols_eq n Hn), map_map. reflexivity. Qed.

Lemma row_cols_lt : forall n c, n < N -> In c (row_cols p n) -> c < N.
Proof.
  intros n c Hn Hc. rewrite (row_cols_eq n Hn) in Hc. apply in_map_iff in Hc.
  destruct Hc as (i & <- & Hi). apply cA_lt. now apply (row_idx_lt n).
Qed.

(* the two correction terms *)
Definition corrA (n c x : nat) : nat := if presentb n c && (n <? c) && Nat.eqb c x then 1 else 0.
Definition corrB (n c x : nat) : nat := if presentb n c && (c <? n) && Nat.eqb n x then 1 else 0.

Lemma entry_balance : forall n c x, n < N -> In c (row_cols p n) ->
  cC n c x + corrA n c x = cF n c x + corrB n c x.
Proof.
  intros n c x Hn Hc.
  assert (Hcn : presentb n c = false -> c <> n).
  { intros Pr ->. assert (presentb n n = true) by (apply presentb_spec; assumption). congruence. }
  unfold cC, cF, corrA, corrB, active, d1.
  destruct (presentb n c) eqn:Pr; [clear Hcn | specialize (Hcn eq_refl)];
    destruct (Nat.leb_spec n c); destruct (Nat.ltb_spec n c); destruct (Nat.ltb_spec c n);
    destruct (Nat.eqb_spec c n); destruct (Nat.eqb_spec x n); destruct (Nat.eqb_spec x c);
    destruct (Nat.eqb_spec c x); destruct (Nat.eqb_spec n x); cbn [negb orb andb]; lia.
Qed.

Lemma SC_SF_balance : forall x,
  SC x + nsum (map (fun n => nsum (map (fun c => corrA n c x) (row_cols p n))) (seq 0 N))
  = SF x + nsum (map (fun n => nsum (map (fun c => corrB n c x) (row_cols p n))) (seq 0 N)).
Proof.
  intros x. unfold SC, SF. rewrite <- !nsum_add. apply nsum_ext. intros n Hn. apply in_seq in Hn.
  rewrite (row_sum_cols (fun c => cC n c x) n) by lia.
  rewrite (row_sum_cols (fun c => cF n c x) n) by lia.
  rewrite <- !nsum_add. apply nsum_ext. intros c Hc. apply entry_balance; [lia | assumption].
Qed.

Definition pairb (a x : nat) : bool := memb x (row_cols p a) && memb a (row_cols p x) && (a <? x).

Lemma corrA_total : forall x, x < N ->
  nsum (map (fun n => nsum (map (fun c => corrA n c x) (row_cols p n))) (seq 0 N))
  = nsum (map (fun a => if pairb a x then 1 else 0) (seq 0 N)).
Proof.
  intros x Hx. apply nsum_ext. intros n Hn. apply in_seq in Hn.
  rewrite (nsum_ext (fun c => corrA n c x)
                    (fun c => if Nat.eqb c x && (memb n (row_cols p x) && (n <? x)) then 1 else 0)).
  - rewrite nsum_indicator_eq with (f := fun _ => memb n (row_cols p x) && (n <? x)) by (apply WF_nodup; lia).
    unfold pairb. destruct (memb x (row_cols p n)), (memb n (row_cols p x)), (n <? x); reflexivity.
  - intros c Hc. unfold corrA. pose proof (row_cols_lt n c ltac:(lia) Hc) as Hcl.
    rewrite (presentb_memb n c Hcl).
    destruct (Nat.eqb_spec c x) as [->|NE]; cbn [andb].
    + rewrite andb_true_r. reflexivity.
    + rewrite andb_false_r. reflexivity.
Qed.

Lemma corrB_total : forall x, x < N ->
  nsum (map (fun n => nsum (map (fun c => corrB n c x) (row_cols p n))) (seq 0 N))
  = nsum (map (fun a => if pairb a x then 1 else 0) (seq 0 N)).
Proof.
  intros x Hx.
  rewrite (nsum_ext (fun n => nsum (map (fun c => corrB n c x) (row_cols p n)))
                    (fun n => if Nat.eqb n x
                              then nsum (map (fun c => if memb x (row_cols p c) && (c <? x) then 1 else 0) (row_cols p n))
                              else 0)).
  - rewrite (nsum_single_seq (fun n => nsum (map (fun c => if memb x (row_cols p c) && (c <? x) then 1 else 0)
                                                 (row_cols p n))) x N Hx).
    rewrite (count_nodup_seq (fun c => memb x (row_cols p c) && (c <? x)) (row_cols p x)
               (WF_nodup x Hx) (fun c Hc => row_cols_lt x c Hx Hc)).
    apply nsum_ext. intros a _. unfold pairb.
    destruct (memb a (row_cols p x)), (memb x (row_cols p a)), (a <? x); reflexivity.
  - intros n Hn. apply in_seq in Hn. destruct (Nat.eqb_spec n x) as [->|NE].
    + apply nsum_ext. intros c Hc. unfold corrB. rewrite Nat.eqb_refl, andb_true_r.
      rewrite (presentb_memb x c (row_cols_lt x c Hx Hc)). reflexivity.
    + apply nsum_zero. intros c _. unfold corrB.
      destruct (Nat.eqb_spec n x) as [E|_]; [contradiction|]. now rewrite andb_false_r.
Qed.

(* B. the second pass advances offset[x] exactly row_counts[x] times *)
Theorem SC_eq_SF : forall x, x < N -> SC x = SF x.
Proof.
  intros x Hx. pose proof (SC_SF_balance x) as Hb.
  rewrite (corrA_total x Hx), (corrB_total x Hx) in Hb. lia.
Qed.

(* ---------- second pass, one entry ---------- *)
Section Loop.
Variable srow : list nat.
Hypothesis srow_len : length srow = N + 1.
Notation Sx x := (nth x srow 0).

Lemma rd_srow : forall x, x <= N -> rd A_sym_row_P srow x = Ok (Sx x).
Proof. intros x Hx. apply rd_ok. lia. Qed.

Definition stored (st : fill_state V) (a1 a2 n c : nat) (v : V) : fill_state V :=
  mkFill V (upd (upd (s_col V st) a1 (Some c)) a2 (Some n))
           (upd (upd (s_val V st) a1 (Some v)) a2 (Some v)) (s_off V st).

Lemma store4_ok : forall n c v st, n < N -> c < N -> length (s_off V st) = N ->
  length (s_val V st) = length (s_col V st) ->
  Sx n + nth n (s_off V st) 0 < length (s_col V st) ->
  Sx c + nth c (s_off V st) 0 < length (s_col V st) ->
  store4 V srow n c v st
  = Ok (stored st (Sx n + nth n (s_off V st) 0) (Sx c + nth c (s_off V st) 0) n c v).
Proof.
  intros n c v st Hn Hc Hoff Hval H1 H2. unfold store4.
  rewrite (rd_srow n) by lia. cbn [bind]. rewrite (rd_ok A_offset (s_off V st) 0 n) by lia. cbn [bind].
  unfold wr at 1. destruct (Nat.ltb_spec (Sx n + nth n (s_off V st) 0) (length (s_col V st))) as [_|C]; [|lia].
  cbn [bind]. rewrite (rd_srow c) by lia. cbn [bind]. rewrite (rd_ok A_offset (s_off V st) 0 c) by lia. cbn [bind].
  unfold wr at 1. rewrite upd_length.
  destruct (Nat.ltb_spec (Sx c + nth c (s_off V st) 0) (length (s_col V st))) as [_|C]; [|lia]. cbn [bind].
  unfold wr at 1. destruct (Nat.ltb_spec (Sx n + nth n (s_off V st) 0) (length (s_val V st))) as [_|C]; [|lia].
  cbn [bind]. unfold wr. rewrite upd_length.
  destruct (Nat.ltb_spec (Sx c + nth c (s_off V st) 0) (length (s_val V st))) as [_|C]; [|lia]. cbn [bind].
  reflexivity.
Qed.

Definition scan_body (n c i : nat) (m : nat) (ps : bool * fill_state V) : res (bool * fill_state V) :=
  let (present, st) := ps in
  do cm <- rd A_col_P (col_P p) m;
  if Nat.eqb cm n then
    if n <=? c then
      do vi <- rd A_val_P (val_P p) i;
      do vm <- rd A_val_P (val_P p) m;
      do st' <- store4 V srow n c (vadd vi vm) st;
      Ok (true, st')
    else Ok (true, st)
  else Ok (present, st).

Lemma scan_nomatch : forall n c i l ps,
  (forall m, In m l -> m < length (col_P p) /\ cA m <> n) -> forM l ps (scan_body n c i) = Ok ps.
Proof.
  intros n c i l. induction l as [|m l IH]; intros [b st] H; [reflexivity|].
  cbn [forM]. unfold scan_body at 1. destruct (H m (or_introl eq_refl)) as [Hm Hne].
  rewrite (rd_col m Hm). cbn [bind]. destruct (Nat.eqb_spec (cA m) n) as [E|_]; [contradiction|].
  cbn [bind]. apply IH. intros m' Hm'. apply H. now right.
Qed.

Lemma scan_match : forall n c i l1 m0 l2 b st,
  (forall m, In m (l1 ++ m0 :: l2) -> m < length (col_P p)) ->
  cA m0 = n -> (forall m, In m (l1 ++ l2) -> cA m <> n) ->
  forM (l1 ++ m0 :: l2) (b, st) (scan_body n c i)
  = if n <=? c then
      do vi <- rd A_val_P (val_P p) i;
      do vm <- rd A_val_P (val_P p) m0;
      do st' <- store4 V srow n c (vadd vi vm) st;
      Ok (true, st')
    else Ok (true, st).
Proof.
  intros n c i l1 m0 l2 b st Hlt Hm0 Hne. rewrite forM_app.
  rewrite scan_nomatch.
  2:{ intros m Hm. split; [apply Hlt; apply in_or_app; now left | apply Hne; apply in_or_app; now left]. }
  cbn [bind forM]. unfold scan_body at 1.
  rewrite (rd_col m0) by (apply Hlt; apply in_or_app; right; now left). cbn [bind].
  rewrite Hm0, Nat.eqb_refl.
  assert (Hrest : forall ps, forM l2 ps (scan_body n c i) = Ok ps).
  { intros ps. apply scan_nomatch. intros m Hm. split.
    - apply Hlt. apply in_or_app. right. now right.
    - apply Hne. apply in_or_app. now right. }
  destruct (n <=? c).
  - destruct (rd A_val_P (val_P p) i); cbn [bind]; try reflexivity.
    destruct (rd A_val_P (val_P p) m0); cbn [bind]; try reflexivity.
    destruct (store4 V srow n c (vadd x x0) st); cbn [bind]; try reflexivity. apply Hrest.
  - cbn [bind]. apply Hrest.
Qed.

Lemma NoDup_map_split : forall (l1 l2 : list nat) m0,
  NoDup (map cA (l1 ++ m0 :: l2)) -> forall m, In m (l1 ++ l2) -> cA m <> cA m0.
Proof.
  intros l1 l2 m0 H m Hm E. rewrite map_app in H. cbn [map] in H.
  apply NoDup_remove_2 in H. apply H. rewrite <- map_app, <- E. now apply in_map.
Qed.

(* the value the entry (n, i) stores *)
Definition Val (n i : nat) (v : V) : Prop :=
  exists vi, nth_error (val_P p) i = Some vi /\
    if presentb n (cA i)
    then exists m vm, In m (range (R (cA i)) (R (cA i + 1))) /\ cA m = n /\
                      nth_error (val_P p) m = Some vm /\ v = vadd vi vm
    else v = vi.

Lemma rd_val : forall i, i < length (col_P p) -> exists vi, nth_error (val_P p) i = Some vi /\ rd A_val_P (val_P p) i = Ok vi.
Proof.
  intros i Hi. destruct (nth_error (val_P p) i) as [vi|] eqn:E.
  - exists vi. split; [reflexivity|]. unfold rd. now rewrite E.
  - apply nth_error_None in E. rewrite WF_val in E. lia.
Qed.

Lemma fill_entry_ok : forall n i st, n < N -> In i (range (R n) (R (n + 1))) ->
  length (s_val V st) = length (s_col V st) -> length (s_off V st) = N ->
  (active n (cA i) = true ->
     Sx n + nth n (s_off V st) 0 < length (s_col V st) /\
     Sx (cA i) + nth (cA i) (s_off V st) 0 < length (s_col V st)) ->
  if active n (cA i)
  then exists v off', Val n i v /\
         fill_entry V vadd p srow n i st
         = Ok (mkFill V (s_col V (stored st (Sx n + nth n (s_off V st) 0) (Sx (cA i) + nth (cA i) (s_off V st) 0) n (cA i) v))
                        (s_val V (stored st (Sx n + nth n (s_off V st) 0) (Sx (cA i) + nth (cA i) (s_off V st) 0) n (cA i) v))
                        off') /\
         length off' = N /\ forall x, nth x off' 0 = nth x (s_off V st) 0 + cF n (cA i) x
  else fill_entry V vadd p srow n i st = Ok st.
Proof.
  intros n i st Hn Hi Hval Hoff Hroom.
  pose proof (row_idx_lt n i Hn Hi) as Hil. pose proof (cA_lt i Hil) as Hc.
  set (c := cA i) in *.
  destruct (rd_val i Hil) as (vi & Evi & Rvi).
  unfold fill_entry. rewrite (rd_col i Hil). fold c. cbn [bind].
  rewrite (rd_row c) by lia. cbn [bind]. rewrite (rd_row (c + 1)) by lia. cbn [bind].
  change (forM (range (R c) (R (c + 1))) (false, st) _) with
         (forM (range (R c) (R (c + 1))) (false, st) (scan_body n c i)).
  assert (Hrl : forall m, In m (range (R c) (R (c + 1))) -> m < length (col_P p)).
  { intros m Hm. now apply (row_idx_lt c). }
  unfold cF.
  destruct (presentb n c) eqn:Pr.
  - (* (c, n) is present *)
    pose proof Pr as Pr'. apply presentb_spec in Pr'; [|assumption]. rewrite (row_cols_eq c Hc) in Pr'.
    apply in_map_iff in Pr'. destruct Pr' as (m0 & Em0 & Hm0). apply in_split in Hm0.
    destruct Hm0 as (l1 & l2 & El).
    assert (Hnd : NoDup (map cA (l1 ++ m0 :: l2))).
    { rewrite <- El, <- (row_cols_eq c Hc). now apply WF_nodup. }
    rewrite El. rewrite (scan_match n c i l1 m0 l2 false st); [| rewrite <- El; exact Hrl | exact Em0 |].
    2:{ intros m Hm. rewrite <- Em0. now apply (NoDup_map_split l1 l2 m0 Hnd). }
    unfold active in *. rewrite Pr in *. cbn [negb orb andb] in *.
    destruct (Nat.leb_spec n c) as [Hle|Hgt].
    + (* active: stored once, inside the scan *)
      destruct (rd_val m0) as (vm & Evm & Rvm); [apply Hrl; rewrite El; apply in_or_app; right; now left|].
      rewrite Rvi. cbn [bind]. rewrite Rvm. cbn [bind].
      destruct Hroom as [H1 H2]; [reflexivity|].
      rewrite store4_ok by (try assumption; lia). cbn [bind negb].
      set (st1 := stored st _ _ n c (vadd vi vm)).
      destruct (incr_ok A_offset (s_off V st1) n ltac:(unfold st1, stored; cbn [s_off]; lia)) as (o1 & E1 & L1 & C1).
      cbn [andb orb]. rewrite E1. cbn [bind].
      exists (vadd vi vm).
      destruct (Nat.eqb_spec c n) as [Ecn|Ncn].
      * cbn [negb]. exists o1. split.
        { exists vi. split; [exact Evi|]. fold c. rewrite Pr. exists m0, vm.
          split; [rewrite El; apply in_or_app; right; now left|]. repeat split; assumption. }
        split; [reflexivity|]. split; [unfold st1, stored in L1; cbn [s_off] in L1; lia|].
        intros x. rewrite C1. unfold st1, stored. cbn [s_off]. unfold d1. lia.
      * cbn [negb].
        destruct (incr_ok A_offset o1 c ltac:(unfold st1, stored in L1; cbn [s_off] in L1; lia)) as (o2 & E2 & L2 & C2).
        rewrite E2. cbn [bind]. exists o2. split.
        { exists vi. split; [exact Evi|]. fold c. rewrite Pr. exists m0, vm.
          split; [rewrite El; apply in_or_app; right; now left|]. repeat split; assumption. }
        split; [reflexivity|]. split; [unfold st1, stored in L1; cbn [s_off] in L1; lia|].
        intros x. rewrite C2, C1. unfold st1, stored. cbn [s_off]. unfold d1. lia.
    + (* not active: nothing happens *)
      cbn [bind negb andb orb]. reflexivity.
  - (* (c, n) is absent: stored after the scan *)
    assert (Hno : forall m, In m (range (R c) (R (c + 1))) -> cA m <> n).
    { intros m Hm E. assert (presentb n c = true); [|congruence].
      unfold presentb. apply existsb_exists. exists m. split; [assumption | now apply Nat.eqb_eq]. }
    rewrite scan_nomatch by (intros m Hm; split; [now apply Hrl | now apply Hno]).
    unfold active in *. rewrite Pr in *. cbn [bind negb orb andb] in *. rewrite Rvi. cbn [bind].
    destruct Hroom as [H1 H2]; [reflexivity|].
    rewrite store4_ok by (try assumption; lia). cbn [bind].
    set (st1 := stored st _ _ n c vi).
    destruct (incr_ok A_offset (s_off V st1) n ltac:(unfold st1, stored; cbn [s_off]; lia)) as (o1 & E1 & L1 & C1).
    rewrite E1. cbn [bind]. exists vi.
    assert (Ncn : c <> n).
    { intros E. rewrite E in Pr. assert (presentb n n = true); [|congruence].
      apply presentb_spec; [assumption|]. rewrite (row_cols_eq n Hn). apply in_map_iff. exists i. split; [|assumption].
      unfold c in E. exact E. }
    destruct (Nat.eqb_spec c n) as [E|_]; [contradiction|]. cbn [negb].
    destruct (incr_ok A_offset o1 c ltac:(unfold st1, stored in L1; cbn [s_off] in L1; lia)) as (o2 & E2 & L2 & C2).
    rewrite E2. cbn [bind]. exists o2. split.
    { exists vi. split; [exact Evi|]. fold c. rewrite Pr. reflexivity. }
    split; [reflexivity|]. split; [unfold st1, stored in L1; cbn [s_off] in L1; lia|].
    intros x. rewrite C2, C1. unfold st1, stored. cbn [s_off]. unfold d1. lia.
Qed.

(* ---------- second pass, the whole loop ---------- *)
Variable rc : list nat.
Hypothesis rc_len : length rc = N.
Hypothesis rc_SF : forall x, x < N -> nth x rc 0 = SF x.
Hypothesis srow_0 : Sx 0 = 0.
Hypothesis srow_step : forall x, x < N -> Sx (x + 1) = Sx x + nth x rc 0.
Notation K := (Sx N).

Lemma S_mono : forall a b, a <= b -> b <= N -> Sx a <= Sx b.
Proof.
  intros a b Hab. induction Hab as [|b Hab IH]; intros HN; [lia|].
  specialize (IH ltac:(lia)). pose proof (srow_step b ltac:(lia)) as Hs.
  replace (b + 1) with (S b) in Hs by lia. lia.
Qed.

Lemma region_lt : forall x j, x < N -> j < nth x rc 0 -> Sx x + j < K.
Proof.
  intros x j Hx Hj. pose proof (srow_step x Hx). pose proof (S_mono (x + 1) N ltac:(lia) ltac:(lia)). lia.
Qed.

Lemma region_disj : forall x x' j j', x < N -> x' < N -> x <> x' ->
  j < nth x rc 0 -> j' < nth x' rc 0 -> Sx x + j <> Sx x' + j'.
Proof.
  intros x x' j j' Hx Hx' Hne Hj Hj'.
  pose proof (srow_step x Hx). pose proof (srow_step x' Hx').
  destruct (Nat.lt_ge_cases x x') as [L|G].
  - pose proof (S_mono (x + 1) x' ltac:(lia) ltac:(lia)). lia.
  - pose proof (S_mono (x' + 1) x ltac:(lia) ltac:(lia)). lia.
Qed.

Lemma find_region : forall s, s < K -> exists x, x < N /\ Sx x <= s < Sx (x + 1).
Proof.
  intros s Hs.
  assert (G : forall n, n <= N -> s < Sx n -> exists x, x < n /\ Sx x <= s < Sx (x + 1)).
  { induction n as [|n IH]; intros Hn Hlt; [rewrite srow_0 in Hlt; lia|].
    destruct (Nat.lt_ge_cases s (Sx n)) as [L|G].
    - destruct (IH ltac:(lia) L) as (x & Hx & Hr). exists x. split; [lia | exact Hr].
    - exists n. split; [lia|]. replace (n + 1) with (S n) by lia. lia. }
  destruct (G N (le_n N) Hs) as (x & Hx & Hr). now exists x.
Qed.

Definition ents : list (nat * nat) :=
  flat_map (fun n => map (pair n) (range (R n) (R (n + 1)))) (seq 0 N).

Lemma ents_In : forall n i, In (n, i) ents <-> n < N /\ In i (range (R n) (R (n + 1))).
Proof.
  intros n i. unfold ents. rewrite in_flat_map. split.
  - intros (n' & Hn' & Hin). apply in_map_iff in Hin. destruct Hin as (i' & E & Hi'). inversion E; subst.
    apply in_seq in Hn'. split; [lia | assumption].
  - intros [Hn Hi]. exists n. split; [apply in_seq; lia|]. apply in_map_iff. now exists i.
Qed.

Lemma NoDup_app_gen : forall {A} (l1 l2 : list A),
  NoDup l1 -> NoDup l2 -> (forall x, In x l1 -> ~ In x l2) -> NoDup (l1 ++ l2).
Proof.
  intros A l1. induction l1 as [|a r IH]; intros l2 H1 H2 Hd; cbn [app]; [assumption|].
  inversion H1; subst. constructor.
  - rewrite in_app_iff. intros [Ha|Ha]; [contradiction|]. apply (Hd a); [now left | assumption].
  - apply IH; try assumption. intros x Hx. apply Hd. now right.
Qed.

Lemma ents_NoDup : NoDup ents.
Proof.
  unfold ents.
  assert (G : forall l, NoDup l -> NoDup (flat_map (fun n => map (pair n) (range (R n) (R (n + 1)))) l)).
  { induction l as [|n l IH]; intros Hnd; cbn [flat_map]; [constructor|].
    inversion Hnd as [|? ? Hnin Hnd']; subst. apply NoDup_app_gen.
    - apply FinFun.Injective_map_NoDup; [intros a b E; now inversion E | apply seq_NoDup].
    - now apply IH.
    - intros [n' i'] H1 H2. apply in_map_iff in H1. destruct H1 as (i0 & E & _). inversion E; subst.
      apply in_flat_map in H2. destruct H2 as (n2 & Hn2 & Hin). apply in_map_iff in Hin.
      destruct Hin as (i2 & E2 & _). inversion E2; subst. contradiction. }
  apply G. apply seq_NoDup.
Qed.

Lemma nsum_flat_map : forall {S S'} (f : S' -> nat) (g : S -> list S') xs,
  nsum (map f (flat_map g xs)) = nsum (map (fun x => nsum (map f (g x))) xs).
Proof.
  intros S S' f g xs. induction xs as [|x xs IH]; [reflexivity|].
  cbn [flat_map map nsum fold_right]. rewrite map_app, nsum_app, IH. reflexivity.
Qed.

Definition ecF (e : nat * nat) (x : nat) : nat := cF (fst e) (cA (snd e)) x.

Lemma SF_ents : forall x, SF x = nsum (map (fun e => ecF e x) ents).
Proof.
  intros x. unfold SF, ents. rewrite nsum_flat_map. apply nsum_ext. intros n _.
  rewrite map_map. reflexivity.
Qed.

(* same row, same column => same position (distinct columns per row) *)
Lemma ents_inj : forall n i i', In (n, i) ents -> In (n, i') ents -> cA i = cA i' -> i = i'.
Proof.
  intros n i i' H H' E. apply ents_In in H. apply ents_In in H'. destruct H as [Hn Hi]. destruct H' as [_ Hi'].
  pose proof (WF_nodup n Hn) as Hnd. rewrite (row_cols_eq n Hn) in Hnd.
  assert (G : forall l, NoDup (map cA l) -> In i l -> In i' l -> i = i').
  { induction l as [|a l IH]; [intros _ []|]. intros Hd [->|Ha] [->|Hb]; try reflexivity.
    - cbn [map] in Hd. inversion Hd; subst. exfalso. apply H1. rewrite E. now apply in_map.
    - cbn [map] in Hd. inversion Hd; subst. exfalso. apply H1. rewrite <- E. now apply in_map.
    - cbn [map] in Hd. inversion Hd; subst. now apply IH. }
  now apply (G _ Hnd).
Qed.

(* two active entries (n -> c) and (c -> n) are the same diagonal entry *)
Lemma ents_cross : forall n i n' i', In (n, i) ents -> In (n', i') ents ->
  active n (cA i) = true -> active n' (cA i') = true -> n' = cA i -> cA i' = n -> n = cA i.
Proof.
  intros n i n' i' H H' A A' E1 E2. apply ents_In in H. apply ents_In in H'.
  destruct H as [Hn Hi]. destruct H' as [Hn' Hi'].
  assert (P1 : presentb n (cA i) = true).
  { apply presentb_spec; [lia|]. rewrite <- E1, (row_cols_eq n' Hn'). apply in_map_iff. now exists i'. }
  assert (P2 : presentb n' (cA i') = true).
  { rewrite E2. apply presentb_spec; [lia|]. rewrite E1, (row_cols_eq n Hn). apply in_map_iff. now exists i. }
  unfold active in A, A'. rewrite P1 in A. rewrite P2 in A'. cbn [negb orb] in *.
  apply Nat.leb_le in A. apply Nat.leb_le in A'. lia.
Qed.

(* ---------- the loop invariant ---------- *)
Definition SrcC (pre : list (nat * nat)) (x y : nat) : Prop :=
  exists n i, In (n, i) pre /\ active n (cA i) = true /\
              ((x = n /\ y = cA i) \/ (x = cA i /\ y = n)).

Definition Src (pre : list (nat * nat)) (x y : nat) (v : V) : Prop :=
  exists n i, In (n, i) pre /\ active n (cA i) = true /\ Val n i v /\
              ((x = n /\ y = cA i) \/ (x = cA i /\ y = n)).

Lemma Src_SrcC : forall pre x y v, Src pre x y v -> SrcC pre x y.
Proof. intros pre x y v (n & i & H1 & H2 & _ & H3). now exists n, i. Qed.

Lemma Src_mono : forall pre pre' x y v, incl pre pre' -> Src pre x y v -> Src pre' x y v.
Proof. intros pre pre' x y v Hi (n & i & H1 & H2). exists n, i. split; [now apply Hi | exact H2]. Qed.

Lemma no_prior : forall pre n i, incl pre ents -> In (n, i) ents -> ~ In (n, i) pre ->
  active n (cA i) = true ->
  ~ SrcC pre n (cA i) /\ (cA i <> n -> ~ SrcC pre (cA i) n).
Proof.
  intros pre n i Hsub Hin Hnot A. split.
  - intros (n' & i' & Hp & A' & [[E1 E2]|[E1 E2]]).
    + subst n'. assert (i' = i) by (apply (ents_inj n); [now apply Hsub | assumption | now symmetry]).
      subst. contradiction.
    + pose proof (ents_cross n i n' i' Hin (Hsub _ Hp) A A' (eq_sym E2) (eq_sym E1)) as E.
      assert (Hn' : n' = n) by congruence. rewrite Hn' in Hp.
      assert (i' = i) by (apply (ents_inj n); [now apply Hsub | assumption | congruence]).
      subst i'. contradiction.
  - intros Hcn (n' & i' & Hp & A' & [[E1 E2]|[E1 E2]]).
    + apply Hcn. symmetry. apply (ents_cross n i n' i' Hin (Hsub _ Hp) A A'); congruence.
    + subst n'. assert (i' = i) by (apply (ents_inj n); [now apply Hsub | assumption | congruence]).
      subst. contradiction.
Qed.

Record Inv (pre post : list (nat * nat)) (st : fill_state V) : Prop := {
  inv_col : length (s_col V st) = K;
  inv_val : length (s_val V st) = K;
  inv_off : length (s_off V st) = N;
  inv_budget : forall x, x < N ->
      nth x (s_off V st) 0 + nsum (map (fun e => ecF e x) post) = nth x rc 0;
  inv_slot : forall x j, x < N -> j < nth x (s_off V st) 0 ->
      exists y v, nth_error (s_col V st) (Sx x + j) = Some (Some y) /\
                  nth_error (s_val V st) (Sx x + j) = Some (Some v) /\ Src pre x y v;
  inv_distinct : forall x j1 j2 y, x < N ->
      j1 < nth x (s_off V st) 0 -> j2 < nth x (s_off V st) 0 ->
      nth_error (s_col V st) (Sx x + j1) = Some (Some y) ->
      nth_error (s_col V st) (Sx x + j2) = Some (Some y) -> j1 = j2 }.

Lemma stored_other : forall st a1 a2 n c v s, s <> a1 -> s <> a2 ->
  nth_error (s_col V (stored st a1 a2 n c v)) s = nth_error (s_col V st) s /\
  nth_error (s_val V (stored st a1 a2 n c v)) s = nth_error (s_val V st) s.
Proof.
  intros st a1 a2 n c v s H1 H2. unfold stored. cbn [s_col s_val]. rewrite !nth_error_upd.
  destruct (Nat.eqb_spec s a2) as [E|_]; [contradiction|].
  destruct (Nat.eqb_spec s a1) as [E|_]; [contradiction|]. cbn [andb]. split; reflexivity.
Qed.

Lemma stored_new : forall st a1 a2 n c v,
  a1 < length (s_col V st) -> a2 < length (s_col V st) -> length (s_val V st) = length (s_col V st) ->
  (a1 = a2 -> n = c) ->
  nth_error (s_col V (stored st a1 a2 n c v)) a1 = Some (Some c) /\
  nth_error (s_val V (stored st a1 a2 n c v)) a1 = Some (Some v) /\
  nth_error (s_col V (stored st a1 a2 n c v)) a2 = Some (Some n) /\
  nth_error (s_val V (stored st a1 a2 n c v)) a2 = Some (Some v).
Proof.
  intros st a1 a2 n c v H1 H2 HL Hd. unfold stored. cbn [s_col s_val]. rewrite !nth_error_upd, !upd_length.
  rewrite !Nat.eqb_refl. rewrite HL.
  destruct (Nat.ltb_spec a1 (length (s_col V st))) as [_|C]; [|lia].
  destruct (Nat.ltb_spec a2 (length (s_col V st))) as [_|C]; [|lia]. cbn [andb].
  destruct (Nat.eqb_spec a1 a2) as [E|NE]; cbn [andb].
  - rewrite (Hd E). repeat split; reflexivity.
  - repeat split; reflexivity.
Qed.

Lemma fill_step : forall pre n i post st,
  ents = pre ++ (n, i) :: post -> Inv pre ((n, i) :: post) st ->
  exists st', fill_entry V vadd p srow n i st = Ok st' /\ Inv (pre ++ [(n, i)]) post st'.
Proof.
  intros pre n i post st Hents HI.
  assert (Hin : In (n, i) ents) by (rewrite Hents; apply in_or_app; right; now left).
  pose proof Hin as Hin'. apply ents_In in Hin'. destruct Hin' as [Hn Hi].
  pose proof (row_idx_lt n i Hn Hi) as Hil. pose proof (cA_lt i Hil) as Hc.
  assert (Hnot : ~ In (n, i) pre).
  { pose proof ents_NoDup as Hnd. rewrite Hents in Hnd. apply NoDup_remove_2 in Hnd.
    intros H. apply Hnd. apply in_or_app. now left. }
  assert (Hsub : incl pre ents) by (intros e He; rewrite Hents; apply in_or_app; now left).
  assert (Hsub' : incl pre (pre ++ [(n, i)])) by (intros e He; apply in_or_app; now left).
  destruct HI as [Lc Lv Lo Bud Slot Dist].
  assert (Bud' : forall x, x < N ->
            nth x (s_off V st) 0 + cF n (cA i) x + nsum (map (fun e => ecF e x) post) = nth x rc 0).
  { intros x Hx. specialize (Bud x Hx). cbn [map nsum fold_right] in Bud.
    fold (nsum (map (fun e => ecF e x) post)) in Bud. unfold ecF at 1 in Bud. cbn [fst snd] in Bud. lia. }
  pose proof (fill_entry_ok n i st Hn Hi ltac:(lia) Lo) as FE.
  destruct (active n (cA i)) eqn:A.
  - (* an active entry: two stores, two offsets *)
    assert (HcF : forall x, cF n (cA i) x = d1 x n + (if Nat.eqb (cA i) n then 0 else d1 x (cA i))).
    { intros x. unfold cF. now rewrite A. }
    assert (Rn : nth n (s_off V st) 0 < nth n rc 0).
    { specialize (Bud' n Hn). rewrite HcF in Bud'. unfold d1 in Bud'. rewrite Nat.eqb_refl in Bud'. lia. }
    assert (Rc : nth (cA i) (s_off V st) 0 < nth (cA i) rc 0).
    { destruct (Nat.eq_dec (cA i) n) as [E|NE]; [rewrite E; exact Rn|].
      specialize (Bud' (cA i) Hc). rewrite HcF in Bud'. unfold d1 in Bud'.
      destruct (Nat.eqb_spec (cA i) n); [contradiction|]. rewrite Nat.eqb_refl in Bud'. lia. }
    set (a1 := Sx n + nth n (s_off V st) 0) in *.
    set (a2 := Sx (cA i) + nth (cA i) (s_off V st) 0) in *.
    assert (Ha1 : a1 < K) by (apply region_lt; assumption).
    assert (Ha2 : a2 < K) by (apply region_lt; assumption).
    destruct FE as (v & off' & HVal & Efe & Loff & Coff); [intros _; rewrite Lc; split; assumption|].
    eexists. split; [exact Efe|].
    assert (Hdiag : a1 = a2 -> n = cA i).
    { intros E. destruct (Nat.eq_dec n (cA i)) as [|NE]; [assumption|]. exfalso.
      apply (region_disj n (cA i) _ _ Hn Hc NE Rn Rc). exact E. }
    destruct (stored_new st a1 a2 n (cA i) v ltac:(lia) ltac:(lia) ltac:(lia) Hdiag) as (N1 & N2 & N3 & N4).
    assert (HsrcN : Src (pre ++ [(n, i)]) n (cA i) v).
    { exists n, i. split; [apply in_or_app; right; now left|]. split; [exact A|].
      split; [exact HVal|]. left. now split. }
    assert (HsrcC : Src (pre ++ [(n, i)]) (cA i) n v).
    { exists n, i. split; [apply in_or_app; right; now left|]. split; [exact A|].
      split; [exact HVal|]. right. now split. }
    destruct (no_prior pre n i Hsub Hin Hnot A) as [NP1 NP2].
    assert (Old : forall x j, x < N -> j < nth x (s_off V st) 0 ->
              nth_error (s_col V (stored st a1 a2 n (cA i) v)) (Sx x + j) = nth_error (s_col V st) (Sx x + j) /\
              nth_error (s_val V (stored st a1 a2 n (cA i) v)) (Sx x + j) = nth_error (s_val V st) (Sx x + j)).
    { intros x j Hx Hj. apply stored_other.
      - unfold a1. destruct (Nat.eq_dec x n) as [->|NE]; [lia|].
        apply region_disj; try assumption. specialize (Bud' x Hx). lia.
      - unfold a2. destruct (Nat.eq_dec x (cA i)) as [->|NE]; [lia|].
        apply region_disj; try assumption. specialize (Bud' x Hx). lia. }
    assert (New : forall x j, x < N -> j < nth x off' 0 -> ~ j < nth x (s_off V st) 0 ->
              j = nth x (s_off V st) 0 /\
              ((x = n /\ Sx x + j = a1) \/ (x = cA i /\ x <> n /\ Sx x + j = a2))).
    { intros x j Hx Hj Hnj. rewrite Coff, HcF in Hj. unfold d1 in Hj. unfold a1, a2.
      destruct (Nat.eqb_spec x n) as [->|NE].
      - destruct (Nat.eqb_spec (cA i) n) as [E|NE2].
        + split; [lia|]. left. split; [reflexivity | lia].
        + destruct (Nat.eqb_spec n (cA i)) as [E|_]; [congruence|]. split; [lia|]. left. split; [reflexivity | lia].
      - destruct (Nat.eqb_spec (cA i) n) as [E|NE2]; [lia|].
        destruct (Nat.eqb_spec x (cA i)) as [->|NE3]; [|lia].
        split; [lia|]. right. split; [reflexivity|]. split; [assumption | lia]. }
    constructor; cbn [s_col s_val s_off].
    + unfold stored. cbn [s_col]. now rewrite !upd_length.
    + unfold stored. cbn [s_val]. now rewrite !upd_length.
    + exact Loff.
    + intros x Hx. rewrite Coff. specialize (Bud' x Hx). lia.
    + intros x j Hx Hj. destruct (lt_dec j (nth x (s_off V st) 0)) as [Lt|Nlt].
      * destruct (Old x j Hx Lt) as [O1 O2]. rewrite O1, O2.
        destruct (Slot x j Hx Lt) as (y & w & S1 & S2 & S3). exists y, w.
        split; [exact S1|]. split; [exact S2|]. now apply (Src_mono pre).
      * destruct (New x j Hx Hj Nlt) as (Ej & [[-> Es]|[-> [Hne Es]]]); rewrite Es.
        -- exists (cA i), v. split; [exact N1|]. split; [exact N2 | exact HsrcN].
        -- exists n, v. split; [exact N3|]. split; [exact N4 | exact HsrcC].
    + intros x j1 j2 y Hx H1 H2 C1 C2.
      destruct (lt_dec j1 (nth x (s_off V st) 0)) as [Lt1|Nlt1];
        destruct (lt_dec j2 (nth x (s_off V st) 0)) as [Lt2|Nlt2].
      * destruct (Old x j1 Hx Lt1) as [O1 _]. destruct (Old x j2 Hx Lt2) as [O2 _].
        rewrite O1 in C1. rewrite O2 in C2. now apply (Dist x j1 j2 y).
      * exfalso. destruct (Old x j1 Hx Lt1) as [O1 _]. rewrite O1 in C1.
        destruct (Slot x j1 Hx Lt1) as (y' & w & S1 & _ & S3). rewrite S1 in C1. inversion C1; subst y'.
        apply Src_SrcC in S3.
        destruct (New x j2 Hx H2 Nlt2) as (Ej & [[-> Es]|[-> [Hne Es]]]); rewrite Es in C2.
        -- rewrite N1 in C2. inversion C2; subst y. now apply NP1.
        -- rewrite N3 in C2. inversion C2; subst y. now apply NP2.
      * exfalso. destruct (Old x j2 Hx Lt2) as [O2 _]. rewrite O2 in C2.
        destruct (Slot x j2 Hx Lt2) as (y' & w & S1 & _ & S3). rewrite S1 in C2. inversion C2; subst y'.
        apply Src_SrcC in S3.
        destruct (New x j1 Hx H1 Nlt1) as (Ej & [[-> Es]|[-> [Hne Es]]]); rewrite Es in C1.
        -- rewrite N1 in C1. inversion C1; subst y. now apply NP1.
        -- rewrite N3 in C1. inversion C1; subst y. now apply NP2.
      * destruct (New x j1 Hx H1 Nlt1) as (E1 & _). destruct (New x j2 Hx H2 Nlt2) as (E2 & _). lia.
  - (* an inactive entry changes nothing *)
    exists st. split; [apply FE; discriminate|].
    assert (Z : forall x, cF n (cA i) x = 0) by (intros x; unfold cF; now rewrite A).
    constructor; try assumption.
    + intros x Hx. specialize (Bud' x Hx). rewrite Z in Bud'. lia.
    + intros x j Hx Hj. destruct (Slot x j Hx Hj) as (y & w & S1 & S2 & S3). exists y, w.
      split; [exact S1|]. split; [exact S2|]. now apply (Src_mono pre).
Qed.

Lemma fill_loop : forall post pre st, ents = pre ++ post -> Inv pre post st ->
  exists st', forM post st (fun e st0 => fill_entry V vadd p srow (fst e) (snd e) st0) = Ok st' /\
              Inv ents [] st'.
Proof.
  induction post as [|[n i] post IH]; intros pre st He HI.
  - exists st. split; [reflexivity|]. rewrite app_nil_r in He. now rewrite He.
  - destruct (fill_step pre n i post st He HI) as (st1 & E1 & HI1). cbn [forM fst snd]. rewrite E1. cbn [bind].
    apply (IH (pre ++ [(n, i)])); [|exact HI1]. rewrite <- app_assoc. exact He.
Qed.

Lemma fill_pass_flat : forall k,
  fill_pass V vadd p N srow k
  = forM ents (mkFill V (repeat None k) (repeat None k) (repeat 0 N))
         (fun e st0 => fill_entry V vadd p srow (fst e) (snd e) st0).
Proof.
  intros k. unfold fill_pass, ents. rewrite forM_flat_map. apply forM_ext. intros n st Hn. apply in_seq in Hn.
  rewrite (rd_row n) by lia. cbn [bind]. rewrite (rd_row (n + 1)) by lia. cbn [bind].
  rewrite forM_map. reflexivity.
Qed.

Lemma nth_repeat0 : forall x n, nth x (repeat 0 n) 0 = 0.
Proof. intros x n. revert x. induction n as [|k IH]; intros [|x]; cbn; auto. Qed.

Lemma fill_final :
  exists st', fill_pass V vadd p N srow K = Ok st' /\
    length (s_col V st') = K /\ length (s_val V st') = K /\
    (forall x j, x < N -> j < nth x rc 0 ->
       exists y v, nth_error (s_col V st') (Sx x + j) = Some (Some y) /\
                   nth_error (s_val V st') (Sx x + j) = Some (Some v) /\ Src ents x y v) /\
    (forall x j1 j2 y, x < N -> j1 < nth x rc 0 -> j2 < nth x rc 0 ->
       nth_error (s_col V st') (Sx x + j1) = Some (Some y) ->
       nth_error (s_col V st') (Sx x + j2) = Some (Some y) -> j1 = j2) /\
    (forall s, s < K -> exists y v, nth_error (s_col V st') s = Some (Some y) /\
                                     nth_error (s_val V st') s = Some (Some v)).
Proof.
  rewrite fill_pass_flat.
  destruct (fill_loop ents [] (mkFill V (repeat None K) (repeat None K) (repeat 0 N)) eq_refl)
    as (st' & E & HI).
  { constructor; cbn [s_col s_val s_off]; try apply repeat_length.
    - intros x Hx. rewrite nth_repeat0, <- SF_ents, <- rc_SF by assumption. reflexivity.
    - intros x j _ Hj. rewrite nth_repeat0 in Hj. lia.
    - intros x j1 j2 y _ Hj. rewrite nth_repeat0 in Hj. lia. }
  exists st'. split; [exact E|]. destruct HI as [Lc Lv Lo Bud Slot Dist].
  assert (Off : forall x, x < N -> nth x (s_off V st') 0 = nth x rc 0).
  { intros x Hx. specialize (Bud x Hx). cbn in Bud. lia. }
  split; [exact Lc|]. split; [exact Lv|]. split; [|split].
  - intros x j Hx Hj. apply Slot; [assumption|]. now rewrite Off.
  - intros x j1 j2 y Hx H1 H2. apply Dist; try assumption; now rewrite Off.
  - intros s Hs. destruct (find_region s Hs) as (x & Hx & Hr). rewrite (srow_step x Hx) in Hr.
    destruct (Slot x (s - Sx x) Hx ltac:(rewrite Off by assumption; lia)) as (y & v & S1 & S2 & _).
    replace (Sx x + (s - Sx x)) with s in * by lia. now exists y, v.
Qed.

End Loop.

(* ---------- the hand-over loops ---------- *)
Lemma finish_cols_ok : forall l i,
  (forall s, s < length l -> exists c, nth_error l s = Some (Some c)) ->
  exists r, finish_cols i l = Ok r /\ length r = length l /\
            forall s c, nth_error l s = Some (Some c) -> nth_error r s = Some c.
Proof.
  induction l as [|a l IH]; intros i H.
  - exists []. split; [reflexivity|]. split; [reflexivity|]. intros [|s] c E; discriminate.
  - destruct (H 0 ltac:(cbn; lia)) as (c0 & E0). cbn in E0. inversion E0; subst a.
    destruct (IH (S i)) as (r & Er & Lr & Cr).
    { intros s Hs. apply (H (S s)). cbn [length]. lia. }
    exists (c0 :: r). cbn [finish_cols]. rewrite Er. cbn [bind]. split; [reflexivity|].
    split; [cbn [length]; lia|]. intros [|s] c E; cbn [nth_error] in *; [now inversion E | now apply Cr].
Qed.

Lemma finish_vals_ok : forall l i,
  (forall s, s < length l -> exists v, nth_error l s = Some (Some v)) ->
  exists r, finish_vals V vhalf i l = Ok r /\ length r = length l /\
            forall s v, nth_error l s = Some (Some v) -> nth_error r s = Some (vhalf v).
Proof.
  induction l as [|a l IH]; intros i H.
  - exists []. split; [reflexivity|]. split; [reflexivity|]. intros [|s] c E; discriminate.
  - destruct (H 0 ltac:(cbn; lia)) as (c0 & E0). cbn in E0. inversion E0; subst a.
    destruct (IH (S i)) as (r & Er & Lr & Cr).
    { intros s Hs. apply (H (S s)). cbn [length]. lia. }
    exists (vhalf c0 :: r). cbn [finish_vals]. rewrite Er. cbn [bind]. split; [reflexivity|].
    split; [cbn [length]; lia|]. intros [|s] c E; cbn [nth_error] in *; [now inversion E | now apply Cr].
Qed.

(* C. on a well-formed input nothing is read or written out of range, every slot of the new
   arrays is written, and every stored entry (x, y, v/2) comes from an active input entry *)
Theorem symmetrize_ok :
  exists rc s, count_pass V p N = Ok rc /\ length rc = N /\ (forall x, x < N -> nth x rc 0 = SC x) /\
    symmetrize V vadd vhalf p N = Ok s /\ row_P s = prefix_sums 0 rc /\
    length (col_P s) = rowp s N /\ length (val_P s) = rowp s N /\
    (forall x j, x < N -> j < nth x rc 0 ->
       exists y v, nth_error (col_P s) (rowp s x + j) = Some y /\
                   nth_error (val_P s) (rowp s x + j) = Some (vhalf v) /\ Src ents x y v) /\
    (forall x j1 j2 y, x < N -> j1 < nth x rc 0 -> j2 < nth x rc 0 ->
       nth_error (col_P s) (rowp s x + j1) = Some y ->
       nth_error (col_P s) (rowp s x + j2) = Some y -> j1 = j2).
Proof.
  destruct count_pass_ok as (rc & Erc & Lrc & Crc).
  set (srow := prefix_sums 0 rc).
  assert (Hlen : length srow = N + 1) by (unfold srow; rewrite prefix_sums_length; lia).
  assert (H0 : nth 0 srow 0 = 0) by (unfold srow; rewrite prefix_sums_nth by lia; reflexivity).
  assert (Hstep : forall x, x < N -> nth (x + 1) srow 0 = nth x srow 0 + nth x rc 0).
  { intros x Hx. unfold srow. apply prefix_sums_step. lia. }
  assert (HSF : forall x, x < N -> nth x rc 0 = SF x).
  { intros x Hx. rewrite Crc. now apply SC_eq_SF. }
  assert (HK : fold_left Nat.add rc 0 = nth N srow 0).
  { unfold srow. rewrite prefix_sums_nth by lia. rewrite <- Lrc, firstn_all. reflexivity. }
  destruct (fill_final srow Hlen rc Lrc HSF H0 Hstep) as (st & Est & Lc & Lv & Slot & Dist & All).
  destruct (finish_vals_ok (s_val V st) 0) as (vals & Ev & Lvals & Cv).
  { intros s Hs. rewrite Lv in Hs. destruct (All s Hs) as (y & v & _ & S2). now exists v. }
  destruct (finish_cols_ok (s_col V st) 0) as (cols & Ec & Lcols & Cc).
  { intros s Hs. rewrite Lc in Hs. destruct (All s Hs) as (y & v & S1 & _). now exists y. }
  exists rc, (mkCsr srow cols vals).
  split; [exact Erc|]. split; [exact Lrc|]. split; [intros x _; apply Crc|].
  split.
  { unfold symmetrize. rewrite Erc. cbn [bind]. fold srow. rewrite HK, Est. cbn [bind].
    rewrite Ev. cbn [bind]. rewrite Ec. cbn [bind]. reflexivity. }
  cbn [row_P col_P val_P]. unfold rowp. cbn [row_P].
  split; [reflexivity|]. split; [congruence|]. split; [congruence|]. split.
  - intros x j Hx Hj. destruct (Slot x j Hx Hj) as (y & v & S1 & S2 & S3). exists y, v.
    split; [now apply Cc|]. split; [now apply Cv | exact S3].
  - intros x j1 j2 y Hx H1 H2 C1 C2.
    destruct (Slot x j1 Hx H1) as (y1 & v1 & S1 & _). destruct (Slot x j2 Hx H2) as (y2 & v2 & S2 & _).
    pose proof (Cc _ _ S1) as D1. pose proof (Cc _ _ S2) as D2.
    rewrite D1 in C1. rewrite D2 in C2. inversion C1; inversion C2; subst.
    now apply (Dist x j1 j2 y).
Qed.

Corollary symmetrize_safe : exists s, symmetrize V vadd vhalf p N = Ok s.
Proof. destruct symmetrize_ok as (rc & s & _ & _ & _ & E & _). now exists s. Qed.

(* ---------- D. the result represents (P + P^T)/2 ---------- *)

(* how many entries row r of the symmetric matrix has: all y with P(r,y) or P(y,r) stored *)
Definition targetb (r y : nat) : bool := memb y (row_cols p r) || memb r (row_cols p y).
Definition T (r : nat) : list nat := filter (targetb r) (seq 0 N).

Lemma SC_target : forall r, r < N -> SC r = length (T r).
Proof.
  intros r Hr. unfold SC, T. rewrite <- nsum_indicator_length.
  (* split cC into its two summands *)
  rewrite (nsum_ext _ (fun n => nsum (map (fun c => d1 r n) (row_cols p n))
                               + nsum (map (fun c => if presentb n c then 0 else d1 r c) (row_cols p n)))).
  2:{ intros n Hn. apply in_seq in Hn. rewrite (row_sum_cols (fun c => cC n c r) n) by lia.
      unfold cC. now rewrite nsum_add. }
  rewrite nsum_add.
  (* first summand: |row r| = #{y : y in row r} *)
  rewrite (nsum_ext (fun n => nsum (map (fun _ => d1 r n) (row_cols p n)))
                    (fun n => if Nat.eqb n r then nsum (map (fun _ => 1) (row_cols p n)) else 0)).
  2:{ intros n _. unfold d1. destruct (Nat.eqb_spec r n) as [->|NE].
      - now rewrite Nat.eqb_refl.
      - destruct (Nat.eqb_spec n r) as [E|_]; [congruence|]. apply nsum_zero. reflexivity. }
  rewrite (nsum_single_seq (fun n => nsum (map (fun _ => 1) (row_cols p n))) r N Hr).
  rewrite (count_nodup_seq (fun _ => true) (row_cols p r) (WF_nodup r Hr) (fun c Hc => row_cols_lt r c Hr Hc)).
  (* second summand: #{n : r in row n, n not in row r} *)
  rewrite (nsum_ext (fun n => nsum (map (fun c => if presentb n c then 0 else d1 r c) (row_cols p n)))
                    (fun n => if memb r (row_cols p n) && negb (memb n (row_cols p r)) then 1 else 0)).
  2:{ intros n Hn. apply in_seq in Hn.
      rewrite (nsum_ext _ (fun c => if Nat.eqb c r && negb (memb n (row_cols p r)) then 1 else 0)).
      - now rewrite nsum_indicator_eq with (f := fun _ => negb (memb n (row_cols p r))) by (apply WF_nodup; lia).
      - intros c Hc. rewrite (presentb_memb n c (row_cols_lt n c ltac:(lia) Hc)). unfold d1.
        destruct (Nat.eqb_spec c r) as [->|NE].
        + rewrite Nat.eqb_refl. cbn [andb]. destruct (memb n (row_cols p r)); reflexivity.
        + destruct (Nat.eqb_spec r c) as [E|_]; [congruence|]. cbn [andb]. destruct (memb n (row_cols p c)); reflexivity. }
  rewrite <- nsum_add. apply nsum_ext. intros y _. unfold targetb.
  destruct (memb y (row_cols p r)), (memb r (row_cols p y)); reflexivity.
Qed.

(* lookups in the INPUT matrix *)
Lemma lookup_p_in : forall r i a, r < N -> In i (range (R r) (R (r + 1))) ->
  nth_error (val_P p) i = Some a -> lookup p r (cA i) = Some a.
Proof.
  intros r i a Hr Hi Ha. unfold lookup, row_entries, row_cols, row_vals, seg.
  apply range_In in Hi. pose proof (row_idx_lt r i Hr (proj2 (range_In _ _ _) Hi)) as Hil.
  apply (find_combine _ _ (cA i) (i - R r) a).
  - apply (WF_nodup r Hr).
  - rewrite nth_error_seg by lia. replace (R r + (i - R r)) with i by lia.
    unfold cA. now apply nth_error_nth'.
  - rewrite nth_error_seg by lia. replace (R r + (i - R r)) with i by lia. exact Ha.
Qed.

Lemma lookup_p_none : forall r y, memb y (row_cols p r) = false -> lookup p r y = None.
Proof.
  intros r y H. unfold lookup, row_entries. apply find_combine_none. intros Hin.
  apply memb_In in Hin. congruence.
Qed.

Theorem symmetrize_represents :
  exists s, symmetrize V vadd vhalf p N = Ok s /\ sym_spec vadd vhalf N p s.
Proof.
  destruct symmetrize_ok as (rc & s & Erc & Lrc & Crc & Es & Erow & Lcol & Lval & Slot & Dist).
  exists s. split; [exact Es|].
  set (srow := prefix_sums 0 rc) in *.
  assert (HS : forall x, rowp s x = nth x srow 0) by (intros x; unfold rowp; now rewrite Erow).
  assert (Hlen : length srow = N + 1) by (unfold srow; rewrite prefix_sums_length; lia).
  assert (H0 : nth 0 srow 0 = 0) by (unfold srow; rewrite prefix_sums_nth by lia; reflexivity).
  assert (Hstep : forall x, x < N -> nth (x + 1) srow 0 = nth x srow 0 + nth x rc 0).
  { intros x Hx. unfold srow. apply prefix_sums_step. lia. }
  pose proof (S_mono srow Hlen rc Lrc H0 Hstep) as Hmono.
  assert (Hreg : forall x, x < N -> rowp s x + nth x rc 0 <= length (col_P s)).
  { intros x Hx. rewrite Lcol, !HS, <- Hstep by assumption. apply Hmono; lia. }
  (* row x of s as lists *)
  assert (Hcols : forall x j, x < N -> j < nth x rc 0 ->
            nth_error (row_cols s x) j = nth_error (col_P s) (rowp s x + j)).
  { intros x j Hx Hj. unfold row_cols, seg. rewrite nth_error_seg; [reflexivity|].
    rewrite !HS, Hstep by assumption. lia. }
  assert (Hvals : forall x j, x < N -> j < nth x rc 0 ->
            nth_error (row_vals s x) j = nth_error (val_P s) (rowp s x + j)).
  { intros x j Hx Hj. unfold row_vals, seg. rewrite nth_error_seg; [reflexivity|].
    rewrite !HS, Hstep by assumption. lia. }
  assert (Hclen : forall x, x < N -> length (row_cols s x) = nth x rc 0).
  { intros x Hx. unfold row_cols, seg. rewrite firstn_length, skipn_length.
    pose proof (Hreg x Hx). rewrite !HS, Hstep by assumption. rewrite HS in H. lia. }
  assert (Hnd : forall x, x < N -> NoDup (row_cols s x)).
  { intros x Hx. apply NoDup_nth_error. intros j1 j2 Hj1 E. rewrite (Hclen x Hx) in Hj1.
    destruct (Slot x j1 Hx Hj1) as (y & v & S1 & _). rewrite (Hcols x j1 Hx Hj1), S1 in E.
    assert (Hj2 : j2 < nth x rc 0).
    { rewrite <- (Hclen x Hx). apply nth_error_Some. rewrite <- E. discriminate. }
    rewrite (Hcols x j2 Hx Hj2) in E. symmetry in E. now apply (Dist x j1 j2 y). }
  (* what a provenance record says about the input *)
  assert (HsrcT : forall x y v, x < N -> Src (ents) x y v -> y < N /\ targetb x y = true).
  { intros x y v Hx (n & i & Hin & _ & _ & Hxy).
    apply (ents_In srow Hlen rc Lrc H0) in Hin. destruct Hin as [Hn Hi].
    pose proof (row_idx_lt n i Hn Hi) as Hil. pose proof (cA_lt i Hil) as Hc.
    assert (Hmem : memb (cA i) (row_cols p n) = true).
    { apply memb_In. rewrite (row_cols_eq n Hn). apply in_map_iff. now exists i. }
    unfold targetb. destruct Hxy as [[-> ->]|[-> ->]].
    - split; [assumption|]. now rewrite Hmem.
    - split; [assumption|]. rewrite Hmem. apply orb_true_r. }
  assert (Hincl : forall x, x < N -> incl (row_cols s x) (T x)).
  { intros x Hx y Hy. apply In_nth_error in Hy. destruct Hy as (j & Ej).
    assert (Hj : j < nth x rc 0) by (rewrite <- (Hclen x Hx); apply nth_error_Some; rewrite Ej; discriminate).
    destruct (Slot x j Hx Hj) as (y' & v & S1 & _ & S3). rewrite (Hcols x j Hx Hj), S1 in Ej. inversion Ej; subst y'.
    destruct (HsrcT x y v Hx S3) as [Hy Ht]. unfold T. apply filter_In. split; [apply in_seq; lia | exact Ht]. }
  assert (Hincl' : forall x, x < N -> incl (T x) (row_cols s x)).
  { intros x Hx. apply NoDup_length_incl; [now apply Hnd | | now apply Hincl].
    rewrite (Hclen x Hx), (Crc x Hx), (SC_target x Hx). lia. }
  split.
  - (* well-formedness of the result *)
    unfold wf_csr. rewrite Erow. fold srow.
    split; [exact Hlen|]. split; [rewrite HS; exact H0|].
    split; [intros n Hn; rewrite !HS, Hstep by assumption; lia|].
    split; [now rewrite Lcol|]. split; [congruence|]. split.
    + intros c Hc. apply In_nth_error in Hc. destruct Hc as (k & Ek).
      assert (Hk : k < nth N srow 0) by (rewrite <- HS, <- Lcol; apply nth_error_Some; rewrite Ek; discriminate).
      destruct (find_region srow Hlen rc Lrc H0 k Hk) as (x & Hx & Hr). rewrite (Hstep x Hx) in Hr.
      destruct (Slot x (k - nth x srow 0) Hx ltac:(lia)) as (y & v & S1 & _ & S3).
      rewrite HS in S1. replace (nth x srow 0 + (k - nth x srow 0)) with k in S1 by lia.
      rewrite S1 in Ek. inversion Ek; subst y. now destruct (HsrcT x c v Hx S3).
    + exact Hnd.
  - (* entries *)
    intros r y Hr Hy. destruct (targetb r y) eqn:Ht.
    + assert (HyT : In y (T r)) by (unfold T; apply filter_In; split; [apply in_seq; lia | exact Ht]).
      apply (Hincl' r Hr) in HyT. apply In_nth_error in HyT. destruct HyT as (j & Ej).
      assert (Hj : j < nth r rc 0) by (rewrite <- (Hclen r Hr); apply nth_error_Some; rewrite Ej; discriminate).
      destruct (Slot r j Hr Hj) as (y' & v & S1 & S2 & S3).
      pose proof Ej as Ej'. rewrite (Hcols r j Hr Hj), S1 in Ej'. inversion Ej'; subst y'.
      assert (Ls : lookup s r y = Some (vhalf v)).
      { unfold lookup, row_entries. apply (find_combine _ _ y j); [now apply Hnd | exact Ej|].
        now rewrite (Hvals r j Hr Hj). }
      rewrite Ls. symmetry.
      destruct S3 as (n & i & Hin & A & (vi & Evi & HV) & Hxy).
      pose proof Hin as Hin0.
      apply (ents_In srow Hlen rc Lrc H0) in Hin. destruct Hin as [Hn Hi].
      pose proof (row_idx_lt n i Hn Hi) as Hil. pose proof (cA_lt i Hil) as Hc.
      pose proof (lookup_p_in n i vi Hn Hi Evi) as L1.
      unfold sym_entry. unfold active in A.
      destruct Hxy as [[-> ->]|[-> ->]].
      * (* the entry's own row *)
        rewrite L1. destruct (presentb n (cA i)) eqn:Pr.
        -- destruct HV as (m & vm & Hm & Em & Evm & ->).
           pose proof (lookup_p_in (cA i) m vm Hc Hm Evm) as L2. rewrite Em in L2. rewrite L2.
           cbn [negb orb] in A. now rewrite A.
        -- subst v. rewrite (presentb_memb n (cA i) Hc) in Pr. now rewrite (lookup_p_none (cA i) n Pr).
      * (* the mirrored entry *)
        rewrite L1. destruct (presentb n (cA i)) eqn:Pr.
        -- destruct HV as (m & vm & Hm & Em & Evm & ->).
           pose proof (lookup_p_in (cA i) m vm Hc Hm Evm) as L2. rewrite Em in L2. rewrite L2.
           cbn [negb orb] in A. apply Nat.leb_le in A.
           destruct (Nat.leb_spec (cA i) n) as [Hle|Hgt]; [|reflexivity].
           assert (Ecn : cA i = n) by lia.
           assert (m = i).
           { apply (ents_inj srow Hlen rc Lrc H0 n); [| exact Hin0 | congruence].
             apply (ents_In srow Hlen rc Lrc H0). split; [assumption|]. now rewrite <- Ecn. }
           subst m. rewrite Evi in Evm. inversion Evm; subst vm. reflexivity.
        -- subst v. rewrite (presentb_memb n (cA i) Hc) in Pr. now rewrite (lookup_p_none (cA i) n Pr).
    + (* neither P(r,y) nor P(y,r) is stored *)
      assert (Hnot : ~ In y (row_cols s r)).
      { intros Hin. apply (Hincl r Hr) in Hin. unfold T in Hin. apply filter_In in Hin. destruct Hin as [_ E]. congruence. }
      unfold lookup at 1. unfold row_entries. rewrite (find_combine_none _ _ y Hnot).
      unfold targetb in Ht. apply orb_false_iff in Ht. destruct Ht as [T1 T2].
      unfold sym_entry. now rewrite (lookup_p_none r y T1), (lookup_p_none y r T2).
Qed.

End Sym2.

(* non-vacuity: a well-formed input *)
Example wf_csr_example : wf_csr 3 (mkCsr [0; 1; 2; 3] [1; 2; 0] [1; 2; 3]).
Proof.
  unfold wf_csr, rowp, row_cols, seg. cbn [row_P col_P val_P].
  split; [reflexivity|]. split; [reflexivity|]. split.
  { intros n Hn. destruct n as [|[|[|n]]]; cbn; lia. }
  split; [reflexivity|]. split; [reflexivity|]. split.
  { intros c Hc. cbn in Hc. lia. }
  intros n Hn. destruct n as [|[|[|n]]]; cbn; try lia; repeat constructor; intros [].
Qed.
