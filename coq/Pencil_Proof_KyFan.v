(* ====================================================================== *)
(*  Pencil_Proof_KyFan.v — property C10, "for the target_dimension         *)
(*  smallest eigenvalues": the generalised Ky Fan inequality.              *)
(*                                                                         *)
(*  If the solver's answer is a FULL decomposition of the pencil (A, B)    *)
(*       A V = B V diag(lam),  V^T B V = I,  V (V^T B) = I,  lam ascending *)
(*  then for EVERY D x d matrix Q with B-orthonormal columns               *)
(*       lam_0 + ... + lam_{d-1}  <=  tr (Q^T A Q)                         *)
(*  and the columns 0..d-1 of V (what select_cols returns) attain the      *)
(*  bound.  Reduction to Spectral_KyFan.ky_fan_min by the change of        *)
(*  variables C = V^T B Q (Q = V C, C^T C = I, Q^T A Q = C^T diag(lam) C). *)
(*  Every D, d, every ordered field; no symmetry of A or B is needed.      *)
(* ====================================================================== *)

From Coq Require Import Field Ring Arith Lia List Bool.
From TK Require Import Mat_Sums Mat_Core Spectral_KyFan Pencil_Model Pencil_Spec Pencil_Proof.

Section GenKyFan.
  Context {F : Type} {Fo : FieldOps F} {Ff : IsField F} {Fle : OrderedField F}.
  Add Field GenKyFanField : (@Fth F Fo Ff).
  Local Open Scope nat_scope.
  Local Open Scope F_scope.

  Definition tr (d : nat) (M : mat F) : F := sumn d (fun c => M c c).

  Lemma tr_meq d (M M' : mat F) : meq d d M M' -> tr d M = tr d M'.
  Proof. intros H. unfold tr. apply sumn_ext. intros c Hc. apply H; assumption. Qed.

  Lemma quad_as_trace n d (M Q : mat F) :
    quad n d M Q = tr d (mmul n (mtrans Q) (mmul n M Q)).
  Proof.
    unfold quad, tr, mmul, mtrans. apply sumn_ext. intros c _. apply sumn_ext. intros i _.
    rewrite <- sumn_mul_l. apply sumn_ext. intros j _. ring.
  Qed.

  Lemma mtrans_meq n m (A A' : mat F) : meq n m A A' -> meq m n (mtrans A) (mtrans A').
  Proof. intros H i j Hi Hj. unfold mtrans. apply H; assumption. Qed.

  Lemma mmul_assoc_meq n m k l (A B C : mat F) :
    meq n m (mmul k (mmul l A B) C) (mmul l A (mmul k B C)).
  Proof. intros i j _ _. apply mmul_assoc. Qed.

  Lemma mtrans_mmul_meq n m k (A B : mat F) :
    meq n m (mtrans (mmul k A B)) (mmul k (mtrans B) (mtrans A)).
  Proof. intros i j _ _. apply mtrans_mmul. Qed.

  Lemma mmul_I_l_meq n m (A : mat F) : meq n m (mmul n mI A) A.
  Proof. intros i j Hi _. apply mmul_I_l. assumption. Qed.

  (* the solver's answer as a full decomposition *)
  Definition full_contract (D : nat) (A B V : mat F) (lam : vec F) : Prop :=
    meq D D (mmul D A V) (mmul D (mmul D B V) (mdiag lam)) /\
    meq D D (mmul D (mtrans V) (mmul D B V)) mI /\
    meq D D (mmul D V (mmul D (mtrans V) B)) mI.

  Section Change.
    Variables (D d : nat) (A B V Q : mat F) (lam : vec F).
    Hypothesis Hc : full_contract D A B V lam.
    Hypothesis HQ : meq d d (mmul D (mtrans Q) (mmul D B Q)) mI.

    Definition coords : mat F := mmul D (mtrans V) (mmul D B Q).

    (* Q = V C *)
    Lemma Q_is_VC : meq D d (mmul D V coords) Q.
    Proof.
      destruct Hc as [_ [_ H3]]. unfold coords.
      apply meq_trans with (mmul D V (mmul D (mmul D (mtrans V) B) Q)).
      { apply (mmul_meq D D d); [apply meq_refl|]. apply meq_sym. apply mmul_assoc_meq. }
      apply meq_trans with (mmul D (mmul D V (mmul D (mtrans V) B)) Q).
      { apply meq_sym. apply mmul_assoc_meq. }
      apply meq_trans with (mmul D mI Q).
      { apply (mmul_meq D D d); [exact H3|apply meq_refl]. }
      apply mmul_I_l_meq.
    Qed.

    (* C^T C = I_d *)
    Lemma coords_orthonormal : meq d d (mmul D (mtrans coords) coords) mI.
    Proof.
      (* C^T C = ((BQ)^T V) C = (BQ)^T (V C) = (BQ)^T Q = (Q^T (B Q))^T = I *)
      apply meq_trans with (mmul D (mmul D (mtrans (mmul D B Q)) V) coords).
      { apply (mmul_meq d D d); [|apply meq_refl]. unfold coords.
        eapply meq_trans; [apply mtrans_mmul_meq|]. apply meq_refl. }
      apply meq_trans with (mmul D (mtrans (mmul D B Q)) (mmul D V coords)).
      { apply mmul_assoc_meq. }
      apply meq_trans with (mmul D (mtrans (mmul D B Q)) Q).
      { apply (mmul_meq d D d); [apply meq_refl|apply Q_is_VC]. }
      intros a b Ha Hb. rewrite <- (mI_sym d b a Hb Ha). rewrite <- (HQ b a Hb Ha).
      unfold mmul at 1 3. apply sumn_ext. intros t _. unfold mtrans. ring.
    Qed.

    (* Q^T A Q = C^T diag(lam) C *)
    Lemma form_in_coords :
      meq d d (mmul D (mtrans Q) (mmul D A Q)) (mmul D (mtrans coords) (mmul D (mdiag lam) coords)).
    Proof.
      destruct Hc as [H1 [H2 _]].
      (* A Q = A (V C) = (A V) C = ((B V) L) C = (B V) (L C) *)
      assert (EAQ : meq D d (mmul D A Q) (mmul D (mmul D B V) (mmul D (mdiag lam) coords))).
      { apply meq_trans with (mmul D A (mmul D V coords)).
        { apply (mmul_meq D D d); [apply meq_refl|apply meq_sym; apply Q_is_VC]. }
        apply meq_trans with (mmul D (mmul D A V) coords).
        { apply meq_sym. apply mmul_assoc_meq. }
        apply meq_trans with (mmul D (mmul D (mmul D B V) (mdiag lam)) coords).
        { apply (mmul_meq D D d); [exact H1|apply meq_refl]. }
        apply mmul_assoc_meq. }
      (* Q^T = (V C)^T = C^T V^T *)
      assert (EQt : meq d D (mtrans Q) (mmul D (mtrans coords) (mtrans V))).
      { apply meq_trans with (mtrans (mmul D V coords)).
        { apply mtrans_meq. apply meq_sym. apply Q_is_VC. }
        apply mtrans_mmul_meq. }
      apply meq_trans with (mmul D (mmul D (mtrans coords) (mtrans V))
                                  (mmul D (mmul D B V) (mmul D (mdiag lam) coords))).
      { apply (mmul_meq d D d); assumption. }
      apply meq_trans with (mmul D (mtrans coords)
                                  (mmul D (mtrans V) (mmul D (mmul D B V) (mmul D (mdiag lam) coords)))).
      { apply mmul_assoc_meq. }
      apply (mmul_meq d D d); [apply meq_refl|].
      apply meq_trans with (mmul D (mmul D (mtrans V) (mmul D B V)) (mmul D (mdiag lam) coords)).
      { apply meq_sym. apply mmul_assoc_meq. }
      apply meq_trans with (mmul D mI (mmul D (mdiag lam) coords)).
      { apply (mmul_meq D D d); [exact H2|apply meq_refl]. }
      apply mmul_I_l_meq.
    Qed.

    Lemma quad_in_coords : quad D d A Q = quad D d (mdiag lam) coords.
    Proof. rewrite !quad_as_trace. apply tr_meq. apply form_in_coords. Qed.
  End Change.

  Lemma mdiag_eigen D (lam : vec F) :
    meq D D (mmul D (mdiag lam) mI) (mmul D mI (mdiag lam)).
  Proof.
    intros i j Hi Hj. rewrite mmul_I_r, mmul_I_l by assumption. reflexivity.
  Qed.

  Lemma mI_orth D : meq D D (mmul D (mtrans (@mI F Fo)) mI) mI /\ meq D D (mmul D (@mI F Fo) (mtrans mI)) mI.
  Proof.
    split; intros i j Hi Hj.
    - rewrite mmul_I_r by assumption. unfold mtrans, mI. apply delta_sym.
    - rewrite mmul_I_l by assumption. unfold mtrans, mI. apply delta_sym.
  Qed.

  (* the selected eigenvalues bound the cost of every B-orthonormal d-frame from below *)
  Theorem gen_ky_fan_min D d (A B V Q : mat F) (lam : vec F) :
    (d <= D)%nat -> full_contract D A B V lam -> ascending D lam ->
    meq d d (mmul D (mtrans Q) (mmul D B Q)) mI ->
    fle (sumn d lam) (quad D d A Q).
  Proof.
    intros Hd Hc Hasc HQ.
    rewrite (quad_in_coords D d A B V Q lam Hc).
    destruct (mI_orth D) as [HI1 HI2].
    apply (ky_fan_min D d (mdiag lam) mI (coords D B V Q) lam Hd HI1 HI2 (mdiag_eigen D lam) Hasc).
    apply (coords_orthonormal D d A B V Q lam Hc HQ).
  Qed.

  (* ... and the frame returned by the column selection attains the bound *)
  Theorem selected_attains D d (A B V P : mat F) (lam : vec F) :
    (d <= D)%nat -> full_contract D A B V lam -> select_cols D d V = Ok P ->
    quad D d A P = sumn d lam.
  Proof.
    intros Hd [H1 [H2 H3]] Hsel.
    assert (Hs : gen_eig_solution D d A B P lam).
    { apply (selected_solves D d A B V P lam Hd); [split; assumption|assumption]. }
    destruct Hs as [S1 S2].
    rewrite quad_as_trace. unfold tr. apply sumn_ext. intros c Hc.
    transitivity (mmul D (mtrans P) (mmul d (mmul D B P) (mdiag lam)) c c).
    { apply mmul_ext_r. intros t Ht. apply S1; assumption. }
    transitivity (mmul D (mtrans P) (mmul D B P) c c * lam c).
    { transitivity (sumn D (fun t => mtrans P c t * mmul D B P t c * lam c)).
      - unfold mmul at 1. apply sumn_ext. intros t _.
        rewrite mmul_diag_r by assumption. ring.
      - rewrite sumn_mul_r. reflexivity. }
    rewrite (S2 c c Hc Hc). unfold mI. rewrite delta_eq. ring.
  Qed.

  (* optimality of what the methods return, in one statement *)
  Theorem selected_is_optimal D d (A B V P Q : mat F) (lam : vec F) :
    (d <= D)%nat -> full_contract D A B V lam -> ascending D lam ->
    select_cols D d V = Ok P ->
    meq d d (mmul D (mtrans Q) (mmul D B Q)) mI ->
    fle (quad D d A P) (quad D d A Q).
  Proof.
    intros Hd Hc Hasc Hsel HQ. rewrite (selected_attains D d A B V P lam Hd Hc Hsel).
    apply (gen_ky_fan_min D d A B V Q lam); assumption.
  Qed.

  (* transfer along what the solver reads of the returned tables *)
  Lemma full_contract_meq D (A A' B B' V : mat F) lam :
    meq D D A A' -> meq D D B B' -> full_contract D A B V lam -> full_contract D A' B' V lam.
  Proof.
    intros HA HB [H1 [H2 H3]]. repeat split.
    - apply meq_trans with (mmul D A V).
      { apply (mmul_meq D D D); [apply meq_sym; assumption|apply meq_refl]. }
      apply meq_trans with (mmul D (mmul D B V) (mdiag lam)); [assumption|].
      apply (mmul_meq D D D); [|apply meq_refl].
      apply (mmul_meq D D D); [assumption|apply meq_refl].
    - apply meq_trans with (mmul D (mtrans V) (mmul D B V)); [|assumption].
      apply (mmul_meq D D D); [apply meq_refl|].
      apply (mmul_meq D D D); [apply meq_sym; assumption|apply meq_refl].
    - apply meq_trans with (mmul D V (mmul D (mtrans V) B)); [|assumption].
      apply (mmul_meq D D D); [apply meq_refl|].
      apply (mmul_meq D D D); [apply meq_refl|apply meq_sym; assumption].
  Qed.

  Theorem optimal_via_seen D d (A B : mat F) (p : pencil F) (V P Q : mat F) lam :
    solver_sees D A B p -> (d <= D)%nat ->
    full_contract D (p_lhs (seen p)) (p_rhs (seen p)) V lam -> ascending D lam ->
    select_cols D d V = Ok P ->
    meq d d (mmul D (mtrans Q) (mmul D B Q)) mI ->
    quad D d A P = sumn d lam /\ fle (quad D d A P) (quad D d A Q).
  Proof.
    intros [HA HB] Hd Hc Hasc Hsel HQ.
    pose proof (full_contract_meq D _ A _ B V lam HA HB Hc) as Hc'.
    split.
    - apply (selected_attains D d A B V P lam); assumption.
    - apply (selected_is_optimal D d A B V P Q lam); assumption.
  Qed.

End GenKyFan.
