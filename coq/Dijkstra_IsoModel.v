(* Dijkstra_IsoModel.v — the matrix Isomap hands to the eigensolver.
   include/tapkee/methods/isomap.hpp, embed():
       shortest_distances_matrix = shortest_distances_matrix.array().square();
       centerMatrix(shortest_distances_matrix);            // utils/matrix.hpp
       shortest_distances_matrix.array() *= -0.5;
       eigendecomposition_via(LargestEigenvalues, shortest_distances_matrix, d)
   over the abstract field of the shared matrix library (Mat_Sums/Mat_Core; executed and
   closed at Qc).  `center_matrix` of Mat_Core is centerMatrix statement by statement
   (column means subtracted along BOTH axes); `double_center n M = J (M J)` is the
   mathematical double centring.  No proofs in this file. *)
From Coq Require Import List ZArith Arith.
From TK Require Import Mat_Sums Mat_Core.
Import ListNotations.

Section Iso.
  Context {F : Type} {Fo : FieldOps F}.
  Local Open Scope F_scope.

  Definition sq_mat (G : mat F) : mat F := fun i j => G i j * G i j.
  Definition neg_half : F := - (1 / two).

  (* as shipped *)
  Definition iso_shipped (n : nat) (G : mat F) : mat F :=
    mscale neg_half (center_matrix n (sq_mat G)).

  (* after fixes/F23_isomap_symmetrise.patch: the squared geodesics are averaged with
     their transpose before centring *)
  Definition iso_fixed (n : nat) (G : mat F) : mat F :=
    mscale neg_half (center_matrix n (sym_avg (sq_mat G))).

  (* classical MDS of the geodesics: -1/2 J S J,  S = (G.^2 + (G.^2)^T)/2 *)
  Definition mds_ref (n : nat) (G : mat F) : mat F :=
    mscale neg_half (double_center n (sym_avg (sq_mat G))).

  (* eigendecomposition_impl_dense works on (M + M^T)/2 *)
  Definition seen_by_dense (M : mat F) : mat F := sym_avg M.
End Iso.
