(* Knn_Wrapper_Proof.v — the contract of the dispatcher find_neighbors (Knn_Wrapper_Model.v).

   wrapper_exact_lemma        for EVERY callback d (no metric assumption), every tree result, every admissible nth_element
                              answer per row: the call succeeds; if the fallback fired (or the method is Brute) every row
                              of the returned table is a set of k nearest other samples of d as it is; if it did not
                              fire the table is the tree's own (so: exact whenever the tree rows are, i.e. for a metric).
   wrapper_fired_exact_lemma  the first half alone, in the wording of the wave-4 brief.
   wrapper_rowwise_refuted_lemma  the variant that recomputes only the rows of the wrong size returns, on a fired
                              fallback, a table with a row that is NOT a k-nearest set. *)
From Coq Require Import List ZArith Bool Lia Permutation.
From TK Require Import Knn_Spec Knn_Brute_Model Knn_Brute_Proof Knn_Wrapper_Model.
Import ListNotations.
Local Open Scope Z_scope.

Definition sels_ok (d : dist) (N k : nat) (sels : Z -> list drec) : Prop :=
  forall q, 0 <= q < Z.of_nat N -> nth_ok k (brute_dists_fixed d N q) (sels q).

Definition rows_exact (d : dist) (N k : nat) (rows : nrows) : Prop :=
  Forall2 (fun q l => is_knn d N q k l) (samples N) rows.

Lemma brute_rows_spec : forall (P : Z -> list Z -> Prop) sels k qs,
  (forall q, In q qs -> exists l, brute_row_fixed (sels q) k = Some l /\ P q l) ->
  exists rows, brute_rows sels k qs = Some rows /\ Forall2 P qs rows.
Proof.
  intros P sels k qs. induction qs as [|q r IH]; intros H.
  - exists []. split; [reflexivity | constructor].
  - destruct (H q (or_introl eq_refl)) as [l [Hl HP]].
    destruct IH as [rest [Hr HF]]; [intros q' Hq'; apply H; now right|].
    exists (l :: rest). cbn [brute_rows]. rewrite Hl, Hr. split; [reflexivity | now constructor].
Qed.

Lemma brute_rows_exact : forall d N k sels,
  (k < N)%nat -> sels_ok d N k sels ->
  exists rows, brute_rows sels k (samples N) = Some rows /\ rows_exact d N k rows.
Proof.
  intros d N k sels Hk Hs. apply brute_rows_spec. intros q Hq.
  apply samples_In in Hq. apply brute_exact_lemma; [assumption | assumption | now apply Hs].
Qed.

Lemma fn_clamp_lt : forall N k, (1 <= N)%nat -> (fn_clamp N k < N)%nat.
Proof.
  intros N k HN. unfold fn_clamp. destruct (Nat.ltb_spec (N - 1) k); lia.
Qed.

Lemma fn_clamp_id : forall N k, (k < N)%nat -> fn_clamp N k = k.
Proof.
  intros N k Hk. unfold fn_clamp. destruct (Nat.ltb_spec (N - 1) k); lia.
Qed.

Lemma fn_incomplete_false : forall k rows,
  fn_incomplete k rows = false <-> Forall (fun r => length r = k) rows.
Proof.
  intros k rows. induction rows as [|r rest IH]; cbn [fn_incomplete].
  - split; [constructor | reflexivity].
  - destruct (Nat.eqb_spec (length r) k) as [He|Hne].
    + rewrite IH. split; [now constructor | now inversion 1].
    + split; [discriminate | inversion 1; contradiction].
Qed.

(* the whole contract; k0 is the k asked for, fn_clamp N k0 the k used *)
Lemma wrapper_exact_lemma : forall m d N k0 tree_rows sels,
  (1 <= N)%nat -> sels_ok d N (fn_clamp N k0) sels ->
  exists fired rows,
    find_neighbors_core m tree_rows sels N k0 = Some (fired, rows) /\
    (fired = negb (is_brute m) && fn_incomplete (fn_clamp N k0) tree_rows) /\
    (is_brute m || fired = true -> rows_exact d N (fn_clamp N k0) rows) /\
    (is_brute m || fired = false -> rows = tree_rows /\ Forall (fun r => length r = fn_clamp N k0) rows).
Proof.
  intros m d N k0 tree_rows sels HN Hs.
  pose proof (fn_clamp_lt N k0 HN) as Hk.
  destruct (brute_rows_exact d N (fn_clamp N k0) sels Hk Hs) as [brows [Hb Hex]].
  unfold find_neighbors_core. destruct (is_brute m) eqn:Hm.
  - rewrite Hb. exists false, brows. cbn.
    split; [reflexivity|]. split; [reflexivity|]. split; [intros _; exact Hex|]. intros H; discriminate H.
  - destruct (fn_incomplete (fn_clamp N k0) tree_rows) eqn:Hi.
    + rewrite Hb. exists true, brows. cbn.
      split; [reflexivity|]. split; [reflexivity|]. split; [intros _; exact Hex|]. intros H; discriminate H.
    + exists false, tree_rows. cbn.
      split; [reflexivity|]. split; [reflexivity|]. split; [intros H; discriminate H|].
      intros _. split; [reflexivity|]. now apply fn_incomplete_false.
Qed.

(* "whenever the fallback fires, EVERY returned row is an exact k-NN row of the callback values as they are" *)
Lemma wrapper_fired_exact_lemma : forall m d N k tree_rows sels rows,
  (k < N)%nat -> sels_ok d N k sels ->
  find_neighbors_core m tree_rows sels N k = Some (true, rows) ->
  rows_exact d N k rows.
Proof.
  intros m d N k tree_rows sels rows Hk Hs Hc.
  assert (HN : (1 <= N)%nat) by lia.
  pose proof (fn_clamp_id N k Hk) as Hid.
  assert (Hs' : sels_ok d N (fn_clamp N k) sels) by now rewrite Hid.
  destruct (wrapper_exact_lemma m d N k tree_rows sels HN Hs') as [f [r [Hr [_ [Hex _]]]]].
  rewrite Hc in Hr. injection Hr as <- <-. rewrite Hid in Hex. apply Hex. now rewrite orb_true_r.
Qed.

(* "whenever it does not fire and the tree rows are exact (callback a metric: vptree_wrapper_exact,
   covertree_pipeline_exact), likewise" - in one statement with the fired case *)
Lemma wrapper_all_exact_lemma : forall m d N k tree_rows sels,
  (k < N)%nat -> sels_ok d N k sels ->
  (fn_incomplete k tree_rows = false -> rows_exact d N k tree_rows) ->
  exists fired rows, find_neighbors_core m tree_rows sels N k = Some (fired, rows) /\ rows_exact d N k rows.
Proof.
  intros m d N k tree_rows sels Hk Hs Ht.
  assert (HN : (1 <= N)%nat) by lia.
  pose proof (fn_clamp_id N k Hk) as Hid.
  assert (Hs' : sels_ok d N (fn_clamp N k) sels) by now rewrite Hid.
  destruct (wrapper_exact_lemma m d N k tree_rows sels HN Hs') as [f [r [Hr [Hf [Hex Hno]]]]].
  rewrite Hid in *. exists f, r. split; [assumption|].
  destruct (is_brute m) eqn:Hm; [now apply Hex|].
  destruct f; [now apply Hex|].
  destruct (Hno eq_refl) as [-> _]. apply Ht.
  cbn in Hf. now symmetry.
Qed.

(* the decision procedure on a whole table *)
Lemma all_knn_b_spec : forall d N k qs rows,
  all_knn_b d N k qs rows = true <-> Forall2 (fun q l => is_knn d N q k l) qs rows.
Proof.
  intros d N k qs. induction qs as [|q qr IH]; intros [|r rr]; cbn [all_knn_b].
  - split; [constructor | reflexivity].
  - split; [discriminate | inversion 1].
  - split; [discriminate | inversion 1].
  - rewrite andb_true_iff, IH, is_knn_b_spec. split.
    + intros [H1 H2]. now constructor.
    + inversion 1; subst. now split.
Qed.

Lemma sels_ref_ok : forall d N k, sels_ok d N k (sels_ref d N).
Proof. intros d N k q _. apply nth_element_ref_ok. Qed.

(* ---- the row-wise variant is wrong: N = 3, k = 1, d(1,2) = 1 < d(1,0) = 5; the tree left row 0 empty and answered
        row 1 with the farther sample 0.  The fallback fires, row 0 is repaired, row 1 is kept. ---- *)
Definition rw_d : dist := fun a b =>
  if (a =? b) then 0 else if ((a + b) =? 1) then 5 else if ((a + b) =? 2) then 4 else 1.
Definition rw_tree_rows : nrows := [ []; [0]; [1] ].

Lemma wrapper_rowwise_refuted_lemma :
  exists m d N k tree_rows sels rows,
    (k < N)%nat /\ sels_ok d N k sels /\
    find_neighbors_rowwise m tree_rows sels N k = Some (true, rows) /\
    Forall (fun r => length r = k) rows /\
    ~ rows_exact d N k rows /\
    (* the committed wrapper on the same input is exact *)
    exists rows', find_neighbors_core m tree_rows sels N k = Some (true, rows') /\ rows_exact d N k rows'.
Proof.
  exists MCoverTree, rw_d, 3%nat, 1%nat, rw_tree_rows, (sels_ref rw_d 3).
  exists [ [2]; [0]; [1] ].
  split; [lia|]. split; [apply sels_ref_ok|]. split; [vm_compute; reflexivity|].
  split; [repeat constructor|]. split.
  - intros H. apply all_knn_b_spec in H. vm_compute in H. discriminate.
  - exists [ [2]; [2]; [1] ]. split; [vm_compute; reflexivity|].
    apply all_knn_b_spec. vm_compute. reflexivity.
Qed.

(* an exact table is complete: on a metric (where the tree theorems give exact rows) the fallback does not fire and the
   tree's table is returned unchanged *)
Lemma rows_exact_complete : forall d N k qs rows,
  Forall2 (fun q l => is_knn d N q k l) qs rows -> fn_incomplete k rows = false.
Proof.
  intros d N k qs rows H. apply fn_incomplete_false.
  induction H as [|q l qs rows Hk _ IH]; constructor; [|exact IH].
  destruct Hk as [_ [Hl _]]. exact Hl.
Qed.

Lemma wrapper_tree_exact_unchanged_lemma : forall m d N k tree_rows sels,
  (k < N)%nat -> is_brute m = false -> rows_exact d N k tree_rows ->
  find_neighbors_core m tree_rows sels N k = Some (false, tree_rows).
Proof.
  intros m d N k tree_rows sels Hk Hm Hex. unfold find_neighbors_core.
  rewrite Hm, (fn_clamp_id N k Hk), (rows_exact_complete d N k _ _ Hex). reflexivity.
Qed.

(* the VP-tree method through the dispatcher, callback a metric: the table of the modelled wrapper rows is returned
   unchanged, no fallback, every row exact *)
From TK Require Import Knn_VpTree_Model Knn_VpTree_Proof.

Lemma wrapper_vptree_metric_lemma : forall d N t k tree_rows sels,
  metric_on (in_range N) d -> vp_inv d t -> Permutation (items t) (samples N) -> (k < N)%nat ->
  Forall2 (fun q l => vp_row_fixed d t q k = Some l) (samples N) tree_rows ->
  find_neighbors_core MVpTree tree_rows sels N k = Some (false, tree_rows) /\ rows_exact d N k tree_rows.
Proof.
  intros d N t k tree_rows sels Hm Hinv Hp Hk Hrows.
  assert (Hex : rows_exact d N k tree_rows).
  { unfold rows_exact.
    assert (Hin : forall q, In q (samples N) -> in_range N q) by (intros q Hq; now apply samples_In).
    remember (samples N) as qs0 eqn:Eqs. rewrite Eqs in Hp. clear Eqs.
    revert Hin. induction Hrows as [|q l qs rows Hq _ IH]; intros Hin; constructor.
    - destruct (vptree_wrapper_exact_lemma d N t q k Hm (Hin q (or_introl eq_refl)) Hinv Hp Hk) as [l' [Hl' Hk']].
      rewrite Hq in Hl'. injection Hl' as <-. exact Hk'.
    - apply IH. intros q' Hq'. apply Hin. now right. }
  split; [|exact Hex]. now apply (wrapper_tree_exact_unchanged_lemma MVpTree d N k).
Qed.
