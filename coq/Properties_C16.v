(* Properties_C16.v — property C16: the Fibonacci heap is a correct indexed min-priority queue
   under every history.  Only statements; every proof is `exact <lemma>`.

   Model: FibHeap_Model.v (executable, pointer order of fibonacci_heap.hpp; `dn` = size of A[]
   is a parameter read from the real constructor by the correspondence run).
   Spec:  the association-list map of FibHeap_Model.v (spec_insert / spec_decrease /
   spec_extract_ok) and its executable acceptance test FibHeap_SpecExec.spec_run_b, which the
   C16 check also runs on the outputs of the real heap. *)
From Coq Require Import List ZArith.
From TK Require Import FibHeap_Model FibHeap_Dn FibHeap_SpecExec FibHeap_Proof_Basics
  FibHeap_Proof_Degree FibHeap_Proof_Decrease FibHeap_Proof_Extract FibHeap_Proof_Main
  FibHeap_Proof_Refuted FibHeap_State HeapState FibHeap_Proof_Many FibHeap_Proof_Drain.
Import ListNotations.
Local Open Scope Z_scope.

(* T1 refinement: for every capacity, every size dn of A[] and every operation list, a history
   that completes ends in a state satisfying the invariant (distinct in-range indices, heap
   order, min_root minimal, counters exact, degree invariant) and every output (extract_min's
   (index,key) or -1, get_num_nodes, empty) is one the finite-map specification allows. *)
Theorem fh_refines_map : forall cap dn ops h' xs, 0 <= cap ->
  run (empty_heap cap dn) ops = Ok (h', xs) ->
  Inv h' /\ spec_run_b cap [] ops xs 0 = None.
Proof. exact FibHeap_Proof_Main.fh_refines_map. Qed.
Print Assumptions fh_refines_map.

(* what an accepted extract_min answer means: the returned index is stored with exactly that
   key, the key is minimal among the stored ones, and only that index is removed *)
Theorem fh_extract_accept_sound : forall m r m1, NoDup (map fst m) -> spec_extract_b m r = Some m1 ->
  spec_extract_ok m r m1.
Proof. exact FibHeap_Proof_Main.spec_extract_b_sound. Qed.
Print Assumptions fh_extract_accept_sound.

(* one step, from any state related to a spec map (not only from the empty heap) *)
Theorem fh_step : forall h m o, 0 <= h_cap h -> R h m ->
  match step h o with
  | Ok (h', x) => h_cap h' = h_cap h /\ h_dn h' = h_dn h /\
                  exists m', spec_step_b (h_cap h) m o x = Some m' /\ R h' m'
  | OOB d s => s = h_dn h /\ (h_dn h <= d)%nat /\ (Z.of_nat (fib (d + 2)) < h_cap h)
  | OutOfFuel => False
  end.
Proof. exact FibHeap_Proof_Main.step_spec. Qed.
Print Assumptions fh_step.

(* guards: inserting a stored or out-of-range index, decreasing an absent index or to a larger
   key leave the whole heap state (not only its abstraction) unchanged *)
Theorem fh_guards_noop : forall h i k, Inv h ->
  ((h_cap h <= i \/ i < 0 \/ (exists k0, a_get i (abs h) = Some k0)) -> insert i k h = h) /\
  ((h_cap h <= i \/ i < 0 \/ a_get i (abs h) = None \/ (exists k0, a_get i (abs h) = Some k0 /\ k0 < k)) ->
   decrease_key i k h = h).
Proof. exact FibHeap_Proof_Main.fh_guards_noop. Qed.
Print Assumptions fh_guards_noop.

(* T2 size bound: a well-formed tree of rank r has at least fib (r+2) nodes *)
Theorem fh_size_fib : forall t, wf t -> (fib (t_rank t + 2) <= tree_size t)%nat.
Proof. exact FibHeap_Proof_Degree.size_fib. Qed.
Print Assumptions fh_size_fib.

(* T3 memory safety of A[]: the only out-of-range access the model can make is A[d] with
   dn <= d < dn_req cap; so none at all once dn >= dn_req cap = least r with fib (r+2) > cap *)
Theorem fh_oob_only_below_req : forall cap dn ops d s, 0 <= cap ->
  run (empty_heap cap dn) ops = OOB d s -> s = dn /\ (dn <= d < dn_req cap)%nat.
Proof. exact FibHeap_Proof_Main.fh_oob_only_below_req. Qed.
Print Assumptions fh_oob_only_below_req.

Theorem fh_no_oob : forall cap dn ops, 0 <= cap -> (dn_req cap <= dn)%nat ->
  exists h' xs, run (empty_heap cap dn) ops = Ok (h', xs).
Proof. exact FibHeap_Proof_Main.fh_no_oob. Qed.
Print Assumptions fh_no_oob.

Theorem dn_req_least : forall cap,
  (cap < Z.of_nat (fib (dn_req cap + 2)))%Z /\
  (forall r, (r < dn_req cap)%nat -> (Z.of_nat (fib (r + 2)) <= cap)%Z).
Proof. exact FibHeap_Proof_Degree.dn_req_spec. Qed.
Print Assumptions dn_req_least.

(* T4 the constructor as it is in /repo now (integer Fibonacci loop, commit 5c47b41): every
   history completes — never OOB, never out of fuel *)
Theorem fh_fixed_no_oob : forall cap ops, 0 <= cap ->
  exists h' xs, run (empty_heap cap (dn_fixed cap)) ops = Ok (h', xs).
Proof. exact FibHeap_Proof_Main.fh_fixed_no_oob. Qed.
Print Assumptions fh_fixed_no_oob.

(* T5 regression theorems about the OLD constructor Dn = 1 + floor(log2 cap): it is below the
   bound from capacity 8 on, and a concrete history at capacity 31 leaves A[] *)
Theorem fh_log2_dn_below_req : forall cap, (8 <= cap)%Z -> (dn_shipped cap < dn_req cap)%nat.
Proof. exact FibHeap_Proof_Degree.dn_shipped_lt_req. Qed.
Print Assumptions fh_log2_dn_below_req.

Theorem fh_log2_dn_refuted : exists cap ops d s, 0 <= cap /\ run (empty_heap cap (dn_shipped cap)) ops = OOB d s.
Proof. exact FibHeap_Proof_Refuted.log2_dn_refuted. Qed.
Print Assumptions fh_log2_dn_refuted.

(* non-vacuity: a non-trivial history at capacity 8 completes, with cuts, cascading cuts and
   consolidation, and satisfies the hypotheses of the theorems above *)
Example fh_nonvacuous : exists h xs,
  run (empty_heap 8 (dn_fixed 8))
      [Insert 0 5; Insert 1 3; Insert 2 9; Insert 3 7; Insert 4 8; Insert 5 6; Insert 6 4; ExtractMin;
       Decrease 2 1; Decrease 4 0; ExtractMin; Insert 7 2; Insert 7 1; Decrease 9 0; ExtractMin; ExtractMin]
  = Ok (h, xs) /\ h_num_nodes h = 4 /\ (1 < length (h_roots h) + forest_size (h_roots h))%nat.
Proof. eexists; eexists; vm_compute; repeat split; auto with arith. Qed.
Print Assumptions fh_nonvacuous.

(* T6 the heap keeps its state in its own object.  coq/gen/HeapState.v is the table translate/t_heapstate.py
   reads from utils/fibonacci_heap.hpp on every run (data members of the two records, objects with static
   storage duration).  The obligation: no static storage at all, and the data members are exactly the ones
   the abstraction / the structural dump of the correspondence run accounts for.  That is what lets
   fh_refines_map, a theorem about one heap value, speak about a program in which several heaps are alive
   at the same time (one per thread in compute_shortest_distances_matrix). *)
Theorem fh_state_is_own_record : heap_state_ok HeapState.heap_fields HeapState.heap_statics = true.
Proof. vm_compute. reflexivity. Qed.
Print Assumptions fh_state_is_own_record.

Theorem fh_state_ok_means : forall fields statics, heap_state_ok fields statics = true ->
  statics = [] /\
  (forall r m t, In (r, m, t) fields -> In (r, m) accounted) /\
  (forall r m, In (r, m) accounted -> exists t, In (r, m, t) fields).
Proof. exact FibHeap_State.heap_state_ok_sound. Qed.
Print Assumptions fh_state_ok_means.

(* T7 several heaps alive at once (one per thread in compute_shortest_distances_matrix): a family of heaps driven by
   operations tagged with the heap they address, in ANY interleaving.  Each heap goes through exactly the history
   addressed to it and sees exactly the outputs it would see alone (fh_many_projects); if every heap completes its own
   history every interleaving completes (fh_many_completes); hence every heap of the family refines the finite map
   (fh_many_refine).  The lift of `step` to the family (one operation touches one member only) is what
   fh_state_is_own_record licenses for the C++ and what the concurrent stream of the check (harness command P)
   observes. *)
Theorem fh_many_projects : forall ops f f' xs, run_many f ops = Ok (f', xs) ->
  forall j, run (f j) (proj j ops) = Ok (f' j, proj j xs).
Proof. exact FibHeap_Proof_Many.many_projects. Qed.
Print Assumptions fh_many_projects.

Theorem fh_many_completes : forall ops f, (forall j, exists r, run (f j) (proj j ops) = Ok r) ->
  exists r, run_many f ops = Ok r.
Proof. exact FibHeap_Proof_Many.many_completes. Qed.
Print Assumptions fh_many_completes.

Theorem fh_many_refine : forall ops cap dn f' xs, (forall j, 0 <= cap j) ->
  run_many (fun j => empty_heap (cap j) (dn j)) ops = Ok (f', xs) ->
  forall j, Inv (f' j) /\ spec_run_b (cap j) [] (proj j ops) (proj j xs) 0 = None.
Proof. exact FibHeap_Proof_Many.many_refine. Qed.
Print Assumptions fh_many_refine.

Example fh_many_nonvacuous : exists f' xs,
  run_many (fun j => empty_heap (if Nat.eqb j 0 then 4 else 8) 4)
           [(0%nat, Insert 0 5); (1%nat, Insert 3 2); (0%nat, Insert 1 3); (1%nat, Insert 0 9); (1%nat, ExtractMin);
            (0%nat, ExtractMin); (1%nat, Decrease 0 1); (0%nat, ExtractMin); (1%nat, ExtractMin); (0%nat, ExtractMin)]
  = Ok (f', xs) /\ length (proj 0 xs) = 5%nat /\ length (proj 1 xs) = 5%nat.
Proof. exact FibHeap_Proof_Many.many_nonvacuous. Qed.

(* T8 the use Dijkstra makes of the queue: after ANY completed history (any capacity, any A[] size), n further
   extract_min calls return keys in nondecreasing order and never return the same index twice.  Corollary of the
   finite-map refinement; quantifies over the preceding history, which a test can only sample. *)
Theorem fh_drain_sorted : forall cap dn ops n h' xs, 0 <= cap ->
  run (empty_heap cap dn) (ops ++ repeat ExtractMin n) = Ok (h', xs) ->
  Sorted.Sorted Z.le (drain_keys (skipn (length ops) xs)) /\
  NoDup (map fst (drain_pairs (skipn (length ops) xs))).
Proof. exact FibHeap_Proof_Drain.fh_drain_sorted. Qed.
Print Assumptions fh_drain_sorted.

(* T8' the same statement for ANY output list the specification accepts — this is what applies to the REAL heap:
   the C16 check runs spec_run_b on the real heap's outputs, so on every history it accepts the real extract_min
   answers of a trailing drain are sorted and index-distinct *)
Theorem fh_accepted_drain_sorted : forall cap ops n xs,
  spec_run_b cap [] (ops ++ repeat ExtractMin n) xs 0 = None ->
  Sorted.Sorted Z.le (drain_keys (skipn (length ops) xs)) /\
  NoDup (map fst (drain_pairs (skipn (length ops) xs))).
Proof. exact FibHeap_Proof_Drain.accepted_drain_sorted. Qed.
Print Assumptions fh_accepted_drain_sorted.

Example fh_drain_nonvacuous : exists h' xs,
  run (empty_heap 8 5) ([Insert 0 5; Insert 3 2; Insert 1 3; Insert 6 9; ExtractMin; Decrease 6 1; Insert 2 7]
                        ++ repeat ExtractMin 5) = Ok (h', xs) /\
  drain_keys (skipn 7 xs) = [1; 3; 5; 7].
Proof. eexists; eexists; split; [vm_compute; reflexivity | vm_compute; reflexivity]. Qed.
