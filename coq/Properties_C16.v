(* placeholder until the proof files land; replaced by the real property theorems *)
From TK Require Import FibHeap_Model.
From Coq Require Import List ZArith. Import ListNotations. Local Open Scope Z_scope.
Example fh_smoke : exists h outs, run (empty_heap 8 4) [Insert 0 5; Insert 1 3; ExtractMin] = Ok (h, outs).
Proof. eexists; eexists; vm_compute; reflexivity. Qed.
Print Assumptions fh_smoke.
