(* FibHeap_Model.v — executable model of tapkee_internal::fibonacci_heap
   (include/tapkee/utils/fibonacci_heap.hpp).  No proofs in this file.

   Pointers are tree positions: nodes are preallocated per index, so a node is
   identified by its index; NULL is the empty list / None.  Every sibling list
   is kept in exactly the circular order of the `right` pointers, starting at
   the node the owner points at (`min_root` for the root list, `x->child` for a
   child list).  Keys are integers: the heap only ever compares keys, so any
   finite set of finite doubles order-embeds (NaN excluded).

   `dn` (the size of the scratch array A) is a field of the state so that the
   same model describes the shipped formula, a repaired one, or a mutated one;
   consolidate returns OOB as soon as it would touch A[d] with d >= dn. *)
From Coq Require Import List ZArith Bool.
Import ListNotations.
Local Open Scope Z_scope.

Inductive tree : Type :=
  Node (idx : Z) (key : Z) (marked : bool) (children : list tree).

Definition t_idx (t : tree) : Z := match t with Node i _ _ _ => i end.
Definition t_key (t : tree) : Z := match t with Node _ k _ _ => k end.
Definition t_marked (t : tree) : bool := match t with Node _ _ m _ => m end.
Definition t_children (t : tree) : list tree := match t with Node _ _ _ c => c end.
Definition t_rank (t : tree) : nat := length (t_children t).
Definition set_marked (b : bool) (t : tree) : tree :=
  match t with Node i k _ c => Node i k b c end.
Definition set_key (k : Z) (t : tree) : tree :=
  match t with Node i _ m c => Node i k m c end.

Record heap : Type := mkHeap {
  h_cap : Z;             (* max_num_nodes *)
  h_dn : nat;            (* Dn, size of A *)
  h_roots : list tree;   (* root list from min_root rightwards; [] = NULL *)
  h_num_nodes : Z;
  h_num_trees : Z }.

Definition empty_heap (cap : Z) (dn : nat) : heap := mkHeap cap dn [] 0 0.

(* Result of an operation: a new heap, or the first out-of-range access to A. *)
Inductive res (A : Type) : Type :=
| Ok (a : A)
| OOB (d : nat) (size : nat)     (* A[d] touched with d >= size *)
| OutOfFuel.
Arguments Ok {A} a.
Arguments OOB {A} d size.
Arguments OutOfFuel {A}.

(* ---------- queries over the forest ---------- *)
Fixpoint tree_find (i : Z) (t : tree) : option tree :=
  match t with
  | Node j k m cs =>
    if Z.eqb i j then Some t
    else (fix go (l : list tree) : option tree :=
            match l with
            | [] => None
            | c :: l' => match tree_find i c with Some r => Some r | None => go l' end
            end) cs
  end.

Fixpoint forest_find (i : Z) (f : list tree) : option tree :=
  match f with
  | [] => None
  | t :: f' => match tree_find i t with Some r => Some r | None => forest_find i f' end
  end.

Definition stored (i : Z) (h : heap) : bool :=
  match forest_find i (h_roots h) with Some _ => true | None => false end.

Fixpoint tree_size (t : tree) : nat :=
  match t with
  | Node _ _ _ cs => S ((fix go (l : list tree) : nat :=
                           match l with [] => O | c :: l' => (tree_size c + go l')%nat end) cs)
  end.
Fixpoint forest_size (f : list tree) : nat :=
  match f with [] => O | t :: f' => (tree_size t + forest_size f')%nat end.

(* all (idx,key) pairs, preorder *)
Fixpoint tree_items (t : tree) : list (Z * Z) :=
  match t with
  | Node i k _ cs => (i, k) :: (fix go (l : list tree) : list (Z * Z) :=
                                  match l with [] => [] | c :: l' => tree_items c ++ go l' end) cs
  end.
Fixpoint forest_items (f : list tree) : list (Z * Z) :=
  match f with [] => [] | t :: f' => tree_items t ++ forest_items f' end.

(* ---------- add_to_roots ---------- *)
(* insert right of min_root; a strictly smaller key becomes min_root, i.e. the
   cycle is re-read starting from the new node. *)
Definition add_root_list (u : tree) (rs : list tree) : list tree :=
  match rs with
  | [] => [u]
  | m :: rest => if Z.ltb (t_key u) (t_key m) then u :: rest ++ [m] else m :: u :: rest
  end.

Definition add_to_roots (u : tree) (h : heap) : heap :=
  mkHeap (h_cap h) (h_dn h) (add_root_list u (h_roots h)) (h_num_nodes h) (h_num_trees h + 1).

(* ---------- insert ---------- *)
Definition insert (i k : Z) (h : heap) : heap :=
  if (Z.leb (h_cap h) i) || (Z.ltb i 0) then h
  else if stored i h then h
  else let h' := add_to_roots (Node i k false []) h in
       mkHeap (h_cap h') (h_dn h') (h_roots h') (h_num_nodes h' + 1) (h_num_trees h').

(* ---------- link_nodes(y, x): y becomes a child of x, right of x->child ---------- *)
Definition link (y x : tree) : tree :=
  match x with
  | Node i k m cs =>
    let y' := set_marked false y in
    Node i k m (match cs with [] => [y'] | c :: rest => c :: y' :: rest end)
  end.

(* ---------- consolidate ---------- *)
Fixpoint set_nth {A : Type} (n : nat) (v : A) (l : list A) : list A :=
  match l, n with
  | [], _ => []
  | _ :: l', O => v :: l'
  | a :: l', S n' => a :: set_nth n' v l'
  end.

(* inner while (A[d] != NULL) loop, then A[d] = x *)
Fixpoint cons_place (fuel : nat) (x : tree) (d : nat) (A : list (option tree))
  : res (list (option tree)) :=
  match fuel with
  | O => OutOfFuel
  | S fuel' =>
    match nth_error A d with
    | None => OOB d (length A)
    | Some None => Ok (set_nth d (Some x) A)
    | Some (Some y) =>
      let '(x1, y1) := if Z.ltb (t_key y) (t_key x) then (y, x) else (x, y) in
      cons_place fuel' (link y1 x1) (S d) (set_nth d None A)
    end
  end.

Fixpoint cons_walk (ws : list tree) (A : list (option tree)) : res (list (option tree)) :=
  match ws with
  | [] => Ok A
  | w :: ws' =>
    match cons_place (S (length A)) w (t_rank w) A with
    | Ok A' => cons_walk ws' A'
    | OOB d s => OOB d s
    | OutOfFuel => OutOfFuel
    end
  end.

Fixpoint cons_collect (A : list (option tree)) (rs : list tree) : list tree :=
  match A with
  | [] => rs
  | None :: A' => cons_collect A' rs
  | Some t :: A' => cons_collect A' (add_root_list (set_marked false t) rs)
  end.

Definition consolidate_roots (dn : nat) (ws : list tree) : res (list tree) :=
  match cons_walk ws (repeat None dn) with
  | Ok A => Ok (cons_collect A [])
  | OOB d s => OOB d s
  | OutOfFuel => OutOfFuel
  end.

(* ---------- extract_min ---------- *)
(* split the cycle at the node with index i: returns the cycle read from the
   node's right neighbour, without the node. *)
Fixpoint split_at_idx (i : Z) (pre : list tree) (l : list tree) : option (list tree) :=
  match l with
  | [] => None
  | t :: l' => if Z.eqb (t_idx t) i then Some (l' ++ rev pre) else split_at_idx i (t :: pre) l'
  end.

Definition extract_min (h : heap) : res (heap * option (Z * Z)) :=
  if Z.eqb (h_num_nodes h) 0 then Ok (h, None)
  else match h_roots h with
  | [] => Ok (h, None)
  | Node i k m cs :: rest =>
    (* children are moved to the root list one by one, left to right *)
    let rl := fold_left (fun rs c => add_root_list c rs) cs (Node i k m [] :: rest) in
    let nt := h_num_trees h + Z.of_nat (length cs) - 1 in
    match split_at_idx i [] rl with
    | None => Ok (h, None) (* unreachable: the node is in the list *)
    | Some [] => Ok (mkHeap (h_cap h) (h_dn h) [] (h_num_nodes h - 1) nt, Some (i, k))
    | Some ws =>
      match consolidate_roots (h_dn h) ws with
      | Ok rs => Ok (mkHeap (h_cap h) (h_dn h) rs (h_num_nodes h - 1) (Z.of_nat (length rs)),
                     Some (i, k))
      | OOB d s => OOB d s
      | OutOfFuel => OutOfFuel
      end
    end
  end.

(* ---------- decrease_key ---------- *)
(* Result of looking for index i strictly below a node. *)
Inductive dk : Type :=
| DkNone                                        (* i is not in this subtree *)
| DkDone (t : tree) (cuts : list tree) (lost : bool).
   (* t: the subtree afterwards; cuts: subtrees handed to add_to_roots, in call
      order; lost: the root of t has just lost a child (cascading_cut(t) is
      the caller's next step). *)

(* scan the child list cs of a node whose key is pk *)
Fixpoint dk_tree (i nk : Z) (t : tree) : dk :=
  match t with
  | Node j k m cs =>
    match
      (fix scan (pre : list tree) (l : list tree) : option (list tree * list tree * bool) :=
         match l with
         | [] => None
         | c :: l' =>
           if Z.eqb (t_idx c) i then
             (* nodes[index] found, its parent is t *)
             if Z.ltb nk k
             then Some (rev pre ++ l', [set_marked false (set_key nk c)], true)   (* cut *)
             else Some (rev pre ++ set_key nk c :: l', [], false)
           else
             match dk_tree i nk c with
             | DkNone => scan (c :: pre) l'
             | DkDone c' cuts lost =>
               if lost then
                 (* cascading_cut(c'), whose parent is t *)
                 if t_marked c'
                 then Some (rev pre ++ l', cuts ++ [set_marked false c'], true)
                 else Some (rev pre ++ set_marked true c' :: l', cuts, false)
               else Some (rev pre ++ c' :: l', cuts, false)
             end
         end) [] cs
    with
    | None => DkNone
    | Some (cs', cuts, lost) => DkDone (Node j k m cs') cuts lost
    end
  end.

(* scan the root list *)
Fixpoint dk_roots (i nk : Z) (pre : list tree) (l : list tree)
  : option (list tree * list tree) :=
  match l with
  | [] => None
  | r :: l' =>
    if Z.eqb (t_idx r) i then Some (rev pre ++ set_key nk r :: l', [])
    else match dk_tree i nk r with
         | DkNone => dk_roots i nk (r :: pre) l'
         | DkDone r' cuts _ => Some (rev pre ++ r' :: l', cuts)  (* cascading_cut of a root: no-op *)
         end
  end.

(* min_root = nodes[index] when it is a root: re-read the cycle from it *)
Fixpoint rotate_to (i : Z) (pre : list tree) (l : list tree) : option (list tree) :=
  match l with
  | [] => None
  | t :: l' => if Z.eqb (t_idx t) i then Some (t :: l' ++ rev pre) else rotate_to i (t :: pre) l'
  end.

Definition decrease_key (i nk : Z) (h : heap) : heap :=
  if (Z.leb (h_cap h) i) || (Z.ltb i 0) then h
  else match forest_find i (h_roots h) with
  | None => h
  | Some n =>
    if Z.ltb (t_key n) nk then h
    else match dk_roots i nk [] (h_roots h) with
    | None => h
    | Some (rs, cuts) =>
      let rs1 := fold_left (fun rs c => add_root_list c rs) cuts rs in
      let rs2 := match rs1 with
                 | [] => rs1
                 | m :: _ => if Z.ltb nk (t_key m)
                             then match rotate_to i [] rs1 with Some r => r | None => rs1 end
                             else rs1
                 end in
      mkHeap (h_cap h) (h_dn h) rs2 (h_num_nodes h) (h_num_trees h + Z.of_nat (length cuts))
    end
  end.

(* ---------- clear ---------- *)
Definition clear (h : heap) : heap := mkHeap (h_cap h) (h_dn h) [] 0 0.

(* ---------- operations and runs ---------- *)
Inductive op : Type :=
| Insert (i k : Z)
| Decrease (i k : Z)
| ExtractMin
| Clear.

(* Observable output of one operation: extract_min's (index,key) or -1,
   then get_num_nodes() and empty(). *)
Record out : Type := mkOut { o_ext : option (option (Z * Z)); o_n : Z; o_empty : bool }.

Definition step (h : heap) (o : op) : res (heap * out) :=
  let fin (h' : heap) (e : option (option (Z * Z))) :=
      Ok (h', mkOut e (h_num_nodes h') (Z.eqb (h_num_nodes h') 0)) in
  match o with
  | Insert i k => fin (insert i k h) None
  | Decrease i k => fin (decrease_key i k h) None
  | Clear => fin (clear h) None
  | ExtractMin =>
    match extract_min h with
    | Ok (h', r) => fin h' (Some r)
    | OOB d s => OOB d s
    | OutOfFuel => OutOfFuel
    end
  end.

Fixpoint run (h : heap) (ops : list op) : res (heap * list out) :=
  match ops with
  | [] => Ok (h, [])
  | o :: ops' =>
    match step h o with
    | Ok (h', x) =>
      match run h' ops' with
      | Ok (h'', xs) => Ok (h'', x :: xs)
      | OOB d s => OOB d s
      | OutOfFuel => OutOfFuel
      end
    | OOB d s => OOB d s
    | OutOfFuel => OutOfFuel
    end
  end.

(* The shipped constructor: Dn = 1 + (int)(log(cap)/log(2.)) = 1 + floor(log2 cap)
   for the capacities where the double quotient is exact enough (checked at run
   time against the real constructor by the correspondence harness). *)
Definition dn_shipped (cap : Z) : nat := S (Z.to_nat (Z.log2 cap)).

(* ---------- abstract specification: a finite map index -> key ---------- *)
Definition amap := list (Z * Z).   (* association list, no duplicate indices *)

Fixpoint a_get (i : Z) (m : amap) : option Z :=
  match m with [] => None | (j, k) :: m' => if Z.eqb i j then Some k else a_get i m' end.
Fixpoint a_remove (i : Z) (m : amap) : amap :=
  match m with [] => [] | (j, k) :: m' => if Z.eqb i j then a_remove i m' else (j, k) :: a_remove i m' end.
Definition a_set (i k : Z) (m : amap) : amap := (i, k) :: a_remove i m.

Definition spec_insert (cap i k : Z) (m : amap) : amap :=
  if (Z.leb cap i) || (Z.ltb i 0) then m
  else match a_get i m with Some _ => m | None => a_set i k m end.
Definition spec_decrease (cap i k : Z) (m : amap) : amap :=
  if (Z.leb cap i) || (Z.ltb i 0) then m
  else match a_get i m with
       | None => m
       | Some k0 => if Z.ltb k0 k then m else a_set i k m
       end.
(* extract_min may return ANY index whose key is minimal *)
Definition spec_extract_ok (m : amap) (r : option (Z * Z)) (m' : amap) : Prop :=
  match r with
  | None => m = [] /\ m' = []
  | Some (i, k) => a_get i m = Some k /\ (forall j kj, a_get j m = Some kj -> k <= kj)
                   /\ (forall j, a_get j m' = if Z.eqb j i then None else a_get j m)
  end.
