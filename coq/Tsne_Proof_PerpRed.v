(* Tsne_Proof_PerpRed.v — the reduced perplexity search (Tsne_PerpRed_Model.v, the one the check
   runs through extraction) computes the same thing as Tsne_Model.perp_loop (the one the theorems of
   Tsne_Proof_Perp.v are about): same `found`, and the row left in memory agrees component by
   component up to Qeq — for every exp/log oracle that is a function of the value of its argument. *)
From Coq Require Import List Arith Bool ZArith QArith Lqa Lia Morphisms Setoid.
From TK Require Import Tsne_Model Tsne_PerpRed_Model.
Import ListNotations.
Local Open Scope Q_scope.

(* kernel conversion hint (as in Tsne_Proof_Perp.v): unfold the searches, not the 200-step fixpoints *)
Strategy expand [perp_search perp_search_r].

Lemma red2_pos_correct : forall n d,
  (Zpos n * Zpos (snd (red2_pos n d)) = Zpos (fst (red2_pos n d)) * Zpos d)%Z.
Proof.
  induction n as [n IH|n IH|]; intros d; cbn [red2_pos fst snd]; try reflexivity.
  destruct d as [d|d|]; cbn [fst snd]; try reflexivity.
  specialize (IH d). rewrite (Pos2Z.inj_xO n), (Pos2Z.inj_xO d). lia.
Qed.

Lemma Qred2_correct : forall q, Qred2 q == q.
Proof.
  intros [n d]. unfold Qred2, Qeq. cbn [Qnum Qden]. destruct n as [|n|n].
  - reflexivity.
  - pose proof (red2_pos_correct n d) as H. destruct (red2_pos n d) as [n' d']. cbn [Qnum Qden fst snd] in *. lia.
  - pose proof (red2_pos_correct n d) as H. destruct (red2_pos n d) as [n' d']. cbn [Qnum Qden fst snd] in *.
    rewrite <- !Pos2Z.opp_pos. lia.
Qed.

Definition ev_eq (a b : evalr) : Prop :=
  e_beta a == e_beta b /\ Forall2 Qeq (e_row a) (e_row b) /\ e_sum a == e_sum b /\ e_H a == e_H b.

Definition oq_eq (a b : option Q) : Prop :=
  match a, b with None, None => True | Some x, Some y => x == y | _, _ => False end.

Definition st_eq (s t : bstate) : Prop :=
  fst (fst s) == fst (fst t) /\ oq_eq (snd (fst s)) (snd (fst t)) /\ oq_eq (snd s) (snd t).

Definition oev_eq (a b : option evalr) : Prop :=
  match a, b with None, None => True | Some x, Some y => ev_eq x y | _, _ => False end.

Definition res_eq (r s : bool * option evalr) : Prop := fst r = fst s /\ oev_eq (snd r) (snd s).

Section Equiv.
  Variable expf logf : Q -> Q.
  Variable dbl_min tol : Q.
  Hypothesis expf_proper : forall x y, x == y -> expf x == expf y.
  Hypothesis logf_proper : forall x y, x == y -> logf x == logf y.

  Lemma kernel_from_eq : forall dd i self b b', b == b' ->
    Forall2 Qeq (kernel_from expf dbl_min i self b dd) (kernel_from expf dbl_min i self b' dd).
  Proof.
    induction dd as [|x r IH]; intros i self b b' Hb; cbn [kernel_from]; constructor.
    - destruct self as [s|].
      + destruct (Nat.eqb s i); [reflexivity|]. apply expf_proper. rewrite Hb. reflexivity.
      + apply expf_proper. rewrite Hb. reflexivity.
    - apply IH. exact Hb.
  Qed.

  Lemma sum_eq : forall P P', Forall2 Qeq P P' -> forall a a', a == a' ->
    fold_left (fun a p => Qred2 (a + p)) P a == fold_left Qplus P' a'.
  Proof.
    induction 1 as [|p p' P P' Hp HF IH]; intros a a' Ha; cbn [fold_left]; [exact Ha|].
    apply IH. rewrite Qred2_correct, Hp, Ha. reflexivity.
  Qed.

  Lemma H0_eq : forall dd P P', Forall2 Qeq P P' -> forall b b' h h', b == b' -> h == h' ->
    fold_left (fun h xp => Qred2 (h + b * (fst xp * snd xp))) (combine dd P) h
    == fold_left (fun h xp => h + b' * (fst xp * snd xp)) (combine dd P') h'.
  Proof.
    induction dd as [|x r IH]; intros P P' HF b b' h h' Hb Hh; cbn [combine fold_left]; [exact Hh|].
    destruct HF as [|p p' P P' Hp HF]; cbn [combine fold_left]; [exact Hh|].
    apply IH; [exact HF | exact Hb |]. cbn [fst snd]. rewrite Qred2_correct, Hb, Hh, Hp. reflexivity.
  Qed.

  Lemma evaluate_r_eq : forall self dd b b', b == b' ->
    ev_eq (evaluate_r expf logf dbl_min self dd b) (evaluate expf logf dbl_min self dd b').
  Proof.
    intros self dd b b' Hb. unfold evaluate_r, evaluate, ev_eq. cbn [e_beta e_row e_sum e_H].
    pose proof (kernel_from_eq dd 0 self b b' Hb) as HK. fold (kernel_row expf dbl_min self b dd) in HK.
    fold (kernel_row expf dbl_min self b' dd) in HK.
    set (P := kernel_row expf dbl_min self b dd) in *. set (P' := kernel_row expf dbl_min self b' dd) in *.
    assert (HS : fold_left (fun a p => Qred2 (a + p)) P (Qred2 dbl_min) == fold_left Qplus P' dbl_min)
      by (apply sum_eq; [exact HK | apply Qred2_correct]).
    assert (HH : fold_left (fun h xp => Qred2 (h + b * (fst xp * snd xp))) (combine dd P) 0
                 == fold_left (fun h xp => h + b' * (fst xp * snd xp)) (combine dd P') 0)
      by (apply H0_eq; [exact HK | exact Hb | reflexivity]).
    split; [exact Hb|]. split; [exact HK|]. split; [exact HS|].
    rewrite Qred2_correct, HH, (logf_proper _ _ HS), HS. reflexivity.
  Qed.

  Lemma good_eq : forall lp ev ev', ev_eq ev ev' -> good tol lp ev = good tol lp ev'.
  Proof.
    intros lp ev ev' (_ & _ & _ & HH). unfold good. cbv zeta. unfold Qltb. rewrite HH. reflexivity.
  Qed.

  Lemma next_eq : forall lp ev ev' st st', ev_eq ev ev' -> st_eq st st' ->
    st_eq (next_r lp ev st) (next lp ev' st').
  Proof.
    intros lp ev ev' [[b mn] mx] [[b' mn'] mx'] (_ & _ & _ & HH) (Hb & Hmn & Hmx). cbn [fst snd] in *.
    unfold next_r, next.
    assert (E : Qltb 0 (e_H ev - lp) = Qltb 0 (e_H ev' - lp)) by (unfold Qltb; rewrite HH; reflexivity).
    rewrite E. destruct (Qltb 0 (e_H ev' - lp)).
    - destruct mx as [m|], mx' as [m'|]; cbn [oq_eq] in Hmx; try contradiction;
        unfold st_eq; cbn [fst snd oq_eq]; (split; [|split]); try assumption; try exact I.
      + rewrite Qred2_correct, Hb, Hmx. reflexivity.
      + rewrite Qred2_correct, Hb. reflexivity.
    - destruct mn as [m|], mn' as [m'|]; cbn [oq_eq] in Hmn; try contradiction;
        unfold st_eq; cbn [fst snd oq_eq]; (split; [|split]); try assumption; try exact I.
      + rewrite Qred2_correct, Hb, Hmn. reflexivity.
      + rewrite Qred2_correct, Hb. reflexivity.
  Qed.

  Theorem perp_loop_r_equiv : forall fuel self dd perp st st' last last',
    st_eq st st' -> oev_eq last last' ->
    res_eq (perp_loop_r expf logf dbl_min tol fuel self dd perp st last)
           (perp_loop expf logf dbl_min tol fuel self dd perp st' last').
  Proof.
    induction fuel as [|f IH]; intros self dd perp st st' last last' Hst Hl; cbn [perp_loop_r perp_loop].
    - split; [reflexivity | exact Hl].
    - cbv zeta. pose proof (evaluate_r_eq self dd _ _ (proj1 Hst)) as HE.
      rewrite (good_eq _ _ _ HE).
      destruct (good tol (logf perp) (evaluate expf logf dbl_min self dd (fst (fst st')))).
      + split; [reflexivity | exact HE].
      + apply IH; [apply next_eq; assumption | exact HE].
  Qed.

  Theorem perp_search_r_equiv_thm : forall self dd perp,
    res_eq (perp_search_r expf logf dbl_min tol self dd perp) (perp_search expf logf dbl_min tol self dd perp).
  Proof.
    intros self dd perp.
    assert (Hst : st_eq (1, None, None) (1, None, None)) by (unfold st_eq; cbn [fst snd oq_eq]; repeat split; reflexivity).
    exact (perp_loop_r_equiv 200 self dd perp (1, None, None) (1, None, None) None None Hst I).
  Qed.

  (* what the driver prints: found, beta and the normalised row — against Tsne_Model.perp_row *)
  Theorem perp_row_r_equiv_thm : forall self dd perp,
    fst (perp_row_r expf logf dbl_min tol self dd perp) = fst (perp_search expf logf dbl_min tol self dd perp) /\
    match snd (perp_row_r expf logf dbl_min tol self dd perp), perp_row expf logf dbl_min tol self dd perp with
    | Some (_, r), Some r' => Forall2 Qeq r r'
    | None, None => True
    | _, _ => False
    end.
  Proof.
    intros self dd perp.
    pose proof (perp_search_r_equiv_thm self dd perp) as H.
    unfold perp_row_r, perp_row.
    set (r := perp_search_r expf logf dbl_min tol self dd perp) in *.
    set (r' := perp_search expf logf dbl_min tol self dd perp) in *.
    clearbody r r'. destruct r as [b o], r' as [b' o']. destruct H as (Hf & Ho). cbn [fst snd] in *.
    split; [exact Hf|].
    destruct o as [ev|], o' as [ev'|]; cbn [oev_eq option_map] in *; try contradiction; [|exact I].
    destruct Ho as (_ & HR & HS & _). unfold normalised.
    induction HR as [|p p' P P' Hp HF IHF]; cbn [map]; constructor; [|exact IHF].
    rewrite Qred2_correct, Hp, HS. reflexivity.
  Qed.
End Equiv.

(* non-vacuity: oracles that respect Qeq exist (constants do; so do the binary64 oracles of the driver) *)
Example perp_red_oracles_nonvacuous :
  (forall x y : Q, x == y -> (fun _ : Q => 1) x == (fun _ : Q => 1) y) /\
  (forall x y : Q, x == y -> (fun _ : Q => 0) x == (fun _ : Q => 0) y).
Proof. split; intros; reflexivity. Qed.
