(* ====================================================================== *)
(*  Mds_Spec.v — what C05 claims, against the mathematical object          *)
(*   - eigen-oracle contract (DESIGN 1.3) as a predicate                   *)
(*   - factor_spec: Y^T Y = diag(lam)  and  B Y = Y diag(lam)              *)
(*   - dist_reproduced: |y_i - y_j|^2 = D2_ij                              *)
(*   - boolean decision procedures over Qc (exact and with tolerance),     *)
(*     run by the check on the implementation's own outputs                *)
(* ====================================================================== *)
Require Import Arith Lia List Bool ZArith QArith Qcanon.
From TK Require Import Mat_Sums Mat_Core Mat_Qc.
Import ListNotations.

Section MdsSpec.
  Context {F : Type} {Fo : FieldOps F}.
  Local Open Scope nat_scope.
  Local Open Scope F_scope.

  (* squared Euclidean distance between rows i and j of an n x D table *)
  Definition sqdist (D : nat) (X : mat F) (i j : nat) : F :=
    sumn D (fun t => (X i t - X j t) * (X i t - X j t)).

  (* row i of X minus the column means: the centred sample *)
  Definition centered (n : nat) (X : mat F) : mat F :=
    fun i t => X i t - colmean n X t.

  (* oracle contract for a symmetric eigen-solver answer restricted to d columns:
     Vs is n x d with orthonormal columns, B Vs = Vs diag(lam) *)
  Definition eig_contract (n d : nat) (B Vs : mat F) (lam : vec F) : Prop :=
    meq d d (mmul n (mtrans Vs) Vs) mI /\
    meq n d (mmul n B Vs) (mmul d Vs (mdiag lam)).

  (* the property's core clause: columns mutually orthogonal, squared norm = eigenvalue,
     and each column is an eigenvector of B for that eigenvalue *)
  Definition factor_spec (n d : nat) (B Y : mat F) (lam : vec F) : Prop :=
    meq d d (mmul n (mtrans Y) Y) (mdiag lam) /\
    meq n d (mmul n B Y) (mmul d Y (mdiag lam)).

  Definition dist_reproduced (n d : nat) (Y D2 : mat F) : Prop :=
    forall i j, i < n -> j < n -> sqdist d Y i j = D2 i j.

End MdsSpec.

(* ---------------- decision procedures over Qc ---------------- *)
Local Open Scope nat_scope.
Definition qleb (x y : Qc) : bool :=
  match (x ?= y)%Qc with Gt => false | _ => true end.
Definition qabs (x : Qc) : Qc := if qleb (Q2Qc 0) x then x else (- x)%Qc.

Lemma qleb_ok x y : qleb x y = true <-> (x <= y)%Qc.
Proof.
  unfold qleb, Qcle, Qccompare. rewrite Qle_alt.
  destruct (this x ?= this y)%Q; split; intros H; try reflexivity; try discriminate.
  exfalso. apply H. reflexivity.
Qed.

(* every entry of A - B inside the n x m box is at most tol in absolute value *)
Definition within_b (n m : nat) (tol : Qc) (A B : mat Qc) : bool :=
  forallb (fun i => forallb (fun j => qleb (qabs (A i j - B i j)%Qc) tol) (seq 0 m)) (seq 0 n).

Definition within (n m : nat) (tol : Qc) (A B : mat Qc) : Prop :=
  forall i j, i < n -> j < m -> (qabs (A i j - B i j) <= tol)%Qc.

Lemma within_b_ok n m tol A B : within_b n m tol A B = true <-> within n m tol A B.
Proof.
  unfold within_b, within. rewrite forallb_forall. split.
  - intros H i j Hi Hj. apply qleb_ok.
    assert (Hin : In i (seq 0 n)) by (apply in_seq; lia).
    specialize (H i Hin). rewrite forallb_forall in H. apply H. apply in_seq. lia.
  - intros H i Hi. apply in_seq in Hi. rewrite forallb_forall. intros j Hj.
    apply in_seq in Hj. apply qleb_ok. apply H; lia.
Qed.

(* factor_spec up to tol (tol = 0: exactly) on list inputs; None = ill-formed input *)
Definition factor_spec_tol_b (n d : nat) (tol : Qc)
           (B Y : list (list Qc)) (lam : list Qc) : option bool :=
  if wf_matb n n B && wf_matb n d Y && Nat.eqb (length lam) d then
    let Bm := mof B in let Ym := mof Y in let l := vof lam in
    let BY := mtab n d (mmul n Bm Ym) in
    Some (within_b d d tol (mmul n (mtrans Ym) Ym) (mdiag l) &&
          within_b n d tol (mof BY) (mmul d Ym (mdiag l)))
  else None.

Definition factor_spec_tol (n d : nat) (tol : Qc) (B Y : mat Qc) (lam : vec Qc) : Prop :=
  within d d tol (mmul n (mtrans Y) Y) (mdiag lam) /\
  within n d tol (mmul n B Y) (mmul d Y (mdiag lam)).

(* pairwise squared distances of the rows of Y against D2, up to tol *)
Definition dist_reproduced_tol_b (n d : nat) (tol : Qc)
           (Y D2 : list (list Qc)) : option bool :=
  if wf_matb n d Y && wf_matb n n D2 then
    Some (within_b n n tol (sqdist d (mof Y)) (mof D2))
  else None.

(* ascending order of a reference spectrum and "the selected ones are the top d" *)
Definition ascending (n : nat) (lam : vec Qc) : Prop :=
  forall a b, a <= b -> b < n -> (lam a <= lam b)%Qc.

(* ---------------- clamping at zero (Qc) ----------------
   The best positive semi-definite rank-d approximation keeps max(lambda, 0): an eigenvalue
   that is negative (non-Euclidean dissimilarities, or a zero eigenvalue that rounding made
   -1e-17) contributes nothing.  The methods compute sqrt(max(lambda, 0)). *)
Definition qmax0 (x : Qc) : Qc := if qleb (Q2Qc 0) x then x else Q2Qc 0.
Definition clamp0 (lam : vec Qc) : vec Qc := fun c => qmax0 (lam c).

(* the mathematical object, executably: J M J by two matrix products (memoised) *)
Definition jmj_exec (n : nat) (L : list (list Qc)) : list (list Qc) :=
  let MJ := mtab n n (mmul n (mof L) (Jn n)) in
  mtab n n (mmul n (Jn n) (mof MJ)).
(* -1/2 J D2 J from a (symmetric) table of distances *)
Definition spec_mds_exec (n : nat) (L : list (list Qc)) : list (list Qc) :=
  let D2 := mtab n n (fun i j => (mof L i j * mof L i j)%Qc) in
  let C := jmj_exec n D2 in
  mtab n n (fun i j => (mof C i j * - (1 / two))%F).
Definition spec_kpca_exec (n : nat) (L : list (list Qc)) : list (list Qc) := jmj_exec n L.
