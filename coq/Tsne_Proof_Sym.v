(* Tsne_Proof_Sym.v — proofs about Tsne_Sym_Model.v (TSNE::symmetrizeMatrix), part 1:
   shape of whatever the routine returns, for EVERY input (well-formed or not):
   the new row pointer array has N + 1 entries, starts at 0, is non-decreasing and ends at
   no_elem, which is the length of both new arrays.  (Part 2, Tsne_Proof_Sym2.v: on
   well-formed input there is no out-of-range access, no slot is left unwritten and the
   result represents (P + P^T)/2.) *)
From Coq Require Import List Arith Bool Lia.
From TK Require Import Tsne_Sym_Model.
Import ListNotations.

(* ---------- generic facts about the little monad ---------- *)
Lemma bind_Ok : forall {S T} (r : res S) (f : S -> res T) y,
  bind r f = Ok y -> exists x, r = Ok x /\ f x = Ok y.
Proof. intros S T [x|a i|i] f y H; cbn [bind] in H; try discriminate. now exists x. Qed.

Lemma forM_inv : forall {S T} (I : T -> Prop) (xs : list S) (body : S -> T -> res T) st st',
  (forall x s s', In x xs -> I s -> body x s = Ok s' -> I s') ->
  I st -> forM xs st body = Ok st' -> I st'.
Proof.
  intros S T I xs body. induction xs as [|x r IH]; intros st st' Hb HI H; cbn [forM] in H.
  - now inversion H; subst.
  - apply bind_Ok in H. destruct H as (s1 & H1 & H2).
    apply (IH s1 st'); [|eapply Hb; [now left | exact HI | exact H1] | exact H2].
    intros y s s' Hy. apply Hb. now right.
Qed.

Lemma upd_length : forall {T} (l : list T) i x, length (upd l i x) = length l.
Proof.
  intros T l. induction l as [|y r IH]; intros i x; [destruct i; reflexivity|].
  destruct i as [|j]; cbn [upd length]; [reflexivity | now rewrite IH].
Qed.

Lemma wr_length : forall {T} a (l : list T) i x l', wr a l i x = Ok l' -> length l' = length l.
Proof.
  intros T a l i x l' H. unfold wr in H. destruct (i <? length l); [|discriminate].
  inversion H; subst. apply upd_length.
Qed.

Lemma incr_length : forall a l i l', incr a l i = Ok l' -> length l' = length l.
Proof.
  intros a l i l' H. unfold incr in H. apply bind_Ok in H. destruct H as (x & _ & H).
  eapply wr_length; exact H.
Qed.

(* ---------- prefix sums ---------- *)
Lemma prefix_sums_length : forall c a, length (prefix_sums a c) = S (length c).
Proof. induction c as [|x r IH]; intros a; cbn [prefix_sums length]; [reflexivity | now rewrite IH]. Qed.

Lemma prefix_sums_nth : forall c a n, n <= length c ->
  nth n (prefix_sums a c) 0 = a + fold_left Nat.add (firstn n c) 0.
Proof.
  induction c as [|x r IH]; intros a n Hn.
  - cbn [length] in Hn. assert (n = 0) by lia. subst. cbn. lia.
  - destruct n as [|n]; cbn [prefix_sums nth firstn fold_left]; [lia|].
    cbn [length] in Hn. rewrite IH by lia.
    assert (Hf : forall l b, fold_left Nat.add l b = b + fold_left Nat.add l 0).
    { induction l as [|y l IHl]; intros b; cbn [fold_left]; [lia|].
      rewrite (IHl (b + y)), (IHl (0 + y)). lia. }
    rewrite (Hf (firstn n r) (0 + x)). lia.
Qed.

Lemma prefix_sums_step : forall c a n, n < length c ->
  nth (n + 1) (prefix_sums a c) 0 = nth n (prefix_sums a c) 0 + nth n c 0.
Proof.
  induction c as [|x r IH]; intros a n Hn; [cbn in Hn; lia|].
  destruct n as [|n]; cbn [prefix_sums nth Nat.add].
  - destruct r; cbn [prefix_sums nth]; lia.
  - cbn [length] in Hn. apply IH. lia.
Qed.

Section Shape.
Variable V : Type.
Variable vadd : V -> V -> V.
Variable vhalf : V -> V.

Notation csr := (csr V).

Lemma count_entry_length : forall (p : csr) n i rc rc',
  count_entry V p n i rc = Ok rc' -> length rc' = length rc.
Proof.
  intros p n i rc rc' H. unfold count_entry in H.
  apply bind_Ok in H. destruct H as (c & _ & H).
  apply bind_Ok in H. destruct H as (pr & _ & H). destruct pr.
  - eapply incr_length; exact H.
  - apply bind_Ok in H. destruct H as (rc1 & H1 & H2).
    rewrite (incr_length _ _ _ _ H2). eapply incr_length; exact H1.
Qed.

Lemma count_pass_length : forall (p : csr) N rc, count_pass V p N = Ok rc -> length rc = N.
Proof.
  intros p N rc H. unfold count_pass in H.
  apply (forM_inv (fun l => length l = N) _ _ _ _ ) in H; [exact H | | apply repeat_length].
  intros n s s' _ Hs Hb.
  apply bind_Ok in Hb. destruct Hb as (lo & _ & Hb). apply bind_Ok in Hb. destruct Hb as (hi & _ & Hb).
  apply (forM_inv (fun l => length l = N) _ _ _ _) in Hb; [exact Hb | | exact Hs].
  intros i t t' _ Ht Hc. rewrite (count_entry_length _ _ _ _ _ Hc). exact Ht.
Qed.

Definition fill_lens (k : nat) (st : fill_state V) : Prop :=
  length (s_col V st) = k /\ length (s_val V st) = k.

Lemma store4_lens : forall k srow n c v st st',
  fill_lens k st -> store4 V srow n c v st = Ok st' -> fill_lens k st'.
Proof.
  intros k srow n c v st st' [H1 H2] H. unfold store4 in H.
  repeat (apply bind_Ok in H; destruct H as (? & ? & H)).
  inversion H; subst. unfold fill_lens. cbn [s_col s_val].
  repeat match goal with E : wr _ _ _ _ = Ok _ |- _ => apply wr_length in E end. split; congruence.
Qed.

Lemma fill_entry_lens : forall k (p : csr) srow n i st st',
  fill_lens k st -> fill_entry V vadd p srow n i st = Ok st' -> fill_lens k st'.
Proof.
  intros k p srow n i st st' HL H. unfold fill_entry in H.
  apply bind_Ok in H. destruct H as (c & _ & H).
  apply bind_Ok in H. destruct H as (lo & _ & H).
  apply bind_Ok in H. destruct H as (hi & _ & H).
  apply bind_Ok in H. destruct H as ([pr st1] & Hscan & H).
  assert (HL1 : fill_lens k st1).
  { apply (forM_inv (fun ps : bool * fill_state V => fill_lens k (snd ps)) _ _ _ _) in Hscan;
      [exact Hscan | | exact HL].
    intros m [b s] s' _ Hs Hb. cbn [snd] in Hs.
    apply bind_Ok in Hb. destruct Hb as (cm & _ & Hb). destruct (Nat.eqb cm n).
    - destruct (n <=? c).
      + apply bind_Ok in Hb. destruct Hb as (vi & _ & Hb).
        apply bind_Ok in Hb. destruct Hb as (vm & _ & Hb).
        apply bind_Ok in Hb. destruct Hb as (s2 & Hst & Hb). inversion Hb; subst. cbn [snd].
        eapply store4_lens; eassumption.
      + inversion Hb; subst. exact Hs.
    - inversion Hb; subst. exact Hs. }
  apply bind_Ok in H. destruct H as (st2 & H2 & H).
  assert (HL2 : fill_lens k st2).
  { destruct (negb pr).
    - apply bind_Ok in H2. destruct H2 as (vi & _ & H2). eapply store4_lens; eassumption.
    - inversion H2; subst. exact HL1. }
  destruct (negb pr || pr && (n <=? c)).
  - apply bind_Ok in H. destruct H as (o1 & _ & H). apply bind_Ok in H. destruct H as (o2 & _ & H).
    inversion H; subst. exact HL2.
  - inversion H; subst. exact HL2.
Qed.

Lemma fill_pass_lens : forall (p : csr) N srow k st,
  fill_pass V vadd p N srow k = Ok st -> fill_lens k st.
Proof.
  intros p N srow k st H. unfold fill_pass in H.
  apply (forM_inv (fill_lens k) _ _ _ _) in H; [exact H | |].
  - intros n s s' _ Hs Hb.
    apply bind_Ok in Hb. destruct Hb as (lo & _ & Hb). apply bind_Ok in Hb. destruct Hb as (hi & _ & Hb).
    apply (forM_inv (fill_lens k) _ _ _ _) in Hb; [exact Hb | | exact Hs].
    intros i t t' _ Ht Hc. eapply fill_entry_lens; eassumption.
  - unfold fill_lens. cbn [s_col s_val]. now rewrite !repeat_length.
Qed.

Lemma finish_vals_length : forall l i r, finish_vals V vhalf i l = Ok r -> length r = length l.
Proof.
  induction l as [|[v|] l IH]; intros i r H; cbn [finish_vals] in H.
  - now inversion H.
  - apply bind_Ok in H. destruct H as (r' & H1 & H2). inversion H2; subst.
    cbn [length]. f_equal. eapply IH; exact H1.
  - discriminate.
Qed.

Lemma finish_cols_length : forall l i r, finish_cols i l = Ok r -> length r = length l.
Proof.
  induction l as [|[v|] l IH]; intros i r H; cbn [finish_cols] in H.
  - now inversion H.
  - apply bind_Ok in H. destruct H as (r' & H1 & H2). inversion H2; subst.
    cbn [length]. f_equal. eapply IH; exact H1.
  - discriminate.
Qed.

(* whatever symmetrizeMatrix returns has well-formed row pointers and array lengths *)
Theorem symmetrize_shape_thm : forall (p : csr) N s,
  symmetrize V vadd vhalf p N = Ok s ->
  length (row_P s) = N + 1 /\ nth 0 (row_P s) 0 = 0 /\
  (forall n, n < N -> nth n (row_P s) 0 <= nth (n + 1) (row_P s) 0) /\
  nth N (row_P s) 0 = length (col_P s) /\ length (val_P s) = length (col_P s).
Proof.
  intros p N s H. unfold symmetrize in H.
  apply bind_Ok in H. destruct H as (rc & Hrc & H).
  apply bind_Ok in H. destruct H as (st & Hst & H).
  apply bind_Ok in H. destruct H as (vals & Hv & H).
  apply bind_Ok in H. destruct H as (cols & Hc & H). inversion H; subst. cbn [row_P col_P val_P].
  pose proof (count_pass_length _ _ _ Hrc) as Hlen.
  destruct (fill_pass_lens _ _ _ _ _ Hst) as [L1 L2].
  apply finish_vals_length in Hv. apply finish_cols_length in Hc.
  split; [rewrite prefix_sums_length; lia|].
  split; [rewrite prefix_sums_nth by lia; reflexivity|].
  split; [intros n Hn; rewrite prefix_sums_step by lia; lia|].
  split.
  - rewrite prefix_sums_nth by lia. rewrite <- Hlen, firstn_all. cbn [Nat.add]. congruence.
  - congruence.
Qed.
End Shape.
