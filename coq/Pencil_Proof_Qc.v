(* ====================================================================== *)
(*  Pencil_Proof_Qc.v — property C10 at the executable instance Qc:        *)
(*   * the extracted decision procedure spec_construct_b is sound (what    *)
(*     it accepts is, for the lower-triangle reader, the pencil the        *)
(*     property names) and accepts every output of the model of the        *)
(*     current routines (VF42);                                            *)
(*   * concrete witnesses: the routines before F9 (`*_shipped`) and the    *)
(*     LLTSA routine before F25 (`lltsa_repaired`) do NOT produce that     *)
(*     pencil.                                                             *)
(* ====================================================================== *)

Require Import Field Ring Arith Lia List Bool ZArith QArith Qcanon.
From TK Require Import Mat_Sums Mat_Core Mat_Qc Mat_EigSelect Spectral_KyFan
     Pencil_Model Pencil_Spec Pencil_Proof_Sums Pencil_Proof Pencil_Proof_Rot Pencil_Proof_KyFan
     Pencil_Proof_Unique.
Import ListNotations.

Local Open Scope F_scope.

(* ---------------- the reference pair as matrices ---------------- *)
Definition ref_lhs (m : method) (N : nat) (X : mat Qc) (W : sparse Qc) : mat Qc :=
  match m with NPE => npe_lhs N X W | LLTSA => lltsa_lhs N X W | LPP => lpp_lhs N X W end.
Definition ref_rhs (m : method) (N : nat) (X : mat Qc) (dv : vec Qc) : mat Qc :=
  match m with NPE => npe_rhs N X | LLTSA => lltsa_rhs N X | LPP => lpp_rhs N X dv end.

Lemma ref_pencil_tables m N D Xl W dvl :
  ref_pencil m N D Xl W dvl =
  (mtab D D (ref_lhs m N (mof Xl) W), mtab D D (ref_rhs m N (mof Xl) (vof dvl))).
Proof.
  assert (E : forall (X : mat Qc) i j, XMXt N X (sym2 (mof (mtab N N (dense_of W)))) i j
                          = XMXt N X (sym2 (dense_of W)) i j).
  { intros X i j. apply XMXt_ext. intros s t Hs Ht. unfold sym2, madd, mtrans.
    rewrite !mof_mtab by assumption. reflexivity. }
  unfold ref_pencil. destruct m; cbn [ref_lhs ref_rhs]; f_equal;
    try (apply mtab_ext; intros i j _ _; apply E); try reflexivity.
  apply mtab_ext. intros i j Hi Hj. rewrite E. unfold lltsa_lhs.
  apply XMXt_ext_rows; intros s Hs; apply mof_mtab; assumption.
Qed.

Lemma indices_ok_of_bad_index N (W : sparse Qc) : bad_index N W = None -> indices_ok N W.
Proof.
  induction W as [|[[r c] v] W IH]; intros H; [constructor|].
  cbn [bad_index] in H.
  destruct (Nat.ltb r N) eqn:Er; [|discriminate].
  destruct (Nat.ltb c N) eqn:Ec; [|discriminate].
  apply Nat.ltb_lt in Er. apply Nat.ltb_lt in Ec.
  constructor; [split; assumption|apply IH; assumption].
Qed.

(* ---------------- soundness of the extracted decision procedure ---------------- *)
Theorem spec_construct_b_sound m N D Xl W dvl lhs rhs :
  spec_construct_b m N D Xl W dvl lhs rhs = true ->
  wf_mat D D lhs /\ wf_mat D D rhs /\
  solver_sees D (ref_lhs m N (mof Xl) W) (ref_rhs m N (mof Xl) (vof dvl))
              {| p_lhs := mof lhs; p_rhs := mof rhs |}.
Proof.
  unfold spec_construct_b, tables_seen_b, seen_tables. rewrite ref_pencil_tables.
  cbn [fst snd]. rewrite !andb_true_iff. intros [[H1 H2] [H3 H4]].
  apply wf_matb_ok in H1. apply wf_matb_ok in H2.
  apply mlist_eqb_ok in H3. apply mlist_eqb_ok in H4.
  split; [assumption|]. split; [assumption|].
  split; cbn [seen p_lhs p_rhs]; apply mtab_inj; assumption.
Qed.

(* ---------------- the model of the repaired routines always passes it ---------------- *)
Lemma read_lower_mof_mtab D (A : mat Qc) :
  meq D D (read_lower (mof (mtab D D A))) (read_lower A).
Proof.
  intros i j Hi Hj. unfold read_lower.
  destruct (Nat.leb j i); apply mof_mtab; assumption.
Qed.

Lemma model_tables_pass D (A B : mat Qc) (p : pencil Qc) :
  solver_sees D A B p ->
  tables_seen_b D (mtab D D A) (mtab D D B) (mtab D D (p_lhs p)) (mtab D D (p_rhs p)) = true.
Proof.
  intros [HA HB]. unfold tables_seen_b, seen_tables. cbn [fst snd].
  rewrite andb_true_iff. split; apply mlist_eqb_ok; apply mtab_ext.
  - eapply meq_trans; [apply read_lower_mof_mtab|exact HA].
  - eapply meq_trans; [apply read_lower_mof_mtab|exact HB].
Qed.

Lemma wf_matb_mtab D (A : mat Qc) : wf_matb D D (mtab D D A) = true.
Proof. apply wf_matb_ok. apply mtab_wf. Qed.

Theorem model_meets_spec m N D Xl W dvl lhs rhs :
  run_construct VF42 m N D Xl W dvl = Ok (lhs, rhs) ->
  spec_construct_b m N D Xl W dvl lhs rhs = true.
Proof.
  unfold run_construct.
  destruct (negb (wf_matb D N Xl)); [discriminate|].
  destruct (bad_index N W) eqn:Eb; [discriminate|].
  apply indices_ok_of_bad_index in Eb.
  unfold spec_construct_b. rewrite ref_pencil_tables. cbn [fst snd].
  destruct m.
  - intros H. injection H as <- <-. rewrite !wf_matb_mtab. cbn [andb].
    exact (model_tables_pass D (npe_lhs N (mof Xl) W) (npe_rhs N (mof Xl))
             (npe_repaired (mof Xl) N W) (npe_seen_gen D N (mof Xl) W Eb)).
  - destruct (Nat.eqb N 0) eqn:EN; [discriminate|]. apply Nat.eqb_neq in EN.
    intros H. injection H as <- <-. rewrite !wf_matb_mtab. cbn [andb].
    exact (model_tables_pass D (lltsa_lhs N (mof Xl) W) (lltsa_rhs N (mof Xl))
             (lltsa_centred (mof Xl) N W)
             (lltsa_seen_gen D N (mof Xl) W (Qc_of_nat_neq0 N EN) Eb)).
  - destruct (negb (Nat.eqb (length dvl) N)); [discriminate|].
    intros H. injection H as <- <-. rewrite !wf_matb_mtab. cbn [andb].
    exact (model_tables_pass D (lpp_lhs N (mof Xl) W) (lpp_rhs N (mof Xl) (vof dvl))
             (lpp_repaired (mof Xl) N W (vof dvl)) (lpp_seen_gen D N (mof Xl) W (vof dvl) Eb)).
Qed.

(* the model never leaves its buffers on well-formed inputs *)
Theorem model_in_range v m N D Xl W dvl :
  wf_mat D N Xl -> indices_ok N W -> N <> 0%nat -> length dvl = N ->
  exists t, run_construct v m N D Xl W dvl = Ok t.
Proof.
  intros Hwf Hok HN Hdv. unfold run_construct.
  apply wf_matb_ok in Hwf. rewrite Hwf. cbn [negb].
  assert (Eb : bad_index N W = None).
  { induction W as [|[[r c] x] W IH]; [reflexivity|].
    pose proof (Forall_inv Hok) as Hrc. cbv beta iota in Hrc. destruct Hrc as [Hr Hc].
    cbn [bad_index]. apply Nat.ltb_lt in Hr. apply Nat.ltb_lt in Hc. rewrite Hr, Hc.
    apply IH. exact (Forall_inv_tail Hok). }
  rewrite Eb. apply Nat.eqb_neq in HN. rewrite HN.
  apply Nat.eqb_eq in Hdv. rewrite Hdv. cbn [negb].
  destruct m; eexists; reflexivity.
Qed.

(* ---------------- witnesses ---------------- *)
Definition wX : mat Qc := mof [[qz 1; qz 1]; [qz 0; qz 1]].     (* samples (1,0) and (1,1) *)
Definition wX2 : mat Qc := mof [[qz 1; qz 2]; [qz 0; qz 1]].    (* samples (1,0) and (2,1) *)
Definition wW : sparse Qc := [(0%nat, 1%nat, qz 1)].
Definition wdv : vec Qc := vof [qz 1; qz 1].

Lemma Qc_neq_by_compute (x y : Qc) : qeqb x y = false -> x <> y.
Proof. intros H E. apply qeqb_ok in E. rewrite E in H. discriminate. Qed.

Lemma wW_ok : indices_ok 2 wW.
Proof. repeat constructor. Qed.

(* before F9: the solver did not see the pencil the property names *)
Theorem npe_seen_refuted_w :
  indices_ok 2 wW /\ ~ solver_sees 2 (npe_lhs 2 wX wW) (npe_rhs 2 wX) (npe_shipped wX 2 wW).
Proof.
  split; [exact wW_ok|]. intros [HA _]. specialize (HA 1%nat 0%nat).
  revert HA. cbn [seen p_lhs]. intros HA.
  refine (Qc_neq_by_compute _ _ _ (HA _ _)); [vm_compute; reflexivity|lia|lia].
Qed.

Theorem lltsa_seen_refuted_w :
  indices_ok 2 wW /\ ~ solver_sees 2 (lltsa_lhs_f9 2 wX2 wW) (lltsa_rhs 2 wX2) (lltsa_shipped wX2 2 wW).
Proof.
  split; [exact wW_ok|]. intros [HA _]. specialize (HA 1%nat 0%nat).
  revert HA. cbn [seen p_lhs]. intros HA.
  refine (Qc_neq_by_compute _ _ _ (HA _ _)); [vm_compute; reflexivity|lia|lia].
Qed.

Theorem lpp_seen_refuted_w :
  indices_ok 2 wW /\ ~ solver_sees 2 (lpp_lhs 2 wX wW) (lpp_rhs 2 wX wdv) (lpp_shipped wX 2 wW wdv).
Proof.
  split; [exact wW_ok|]. intros [_ HB]. specialize (HB 1%nat 0%nat).
  revert HB. cbn [seen p_rhs]. intros HB.
  refine (Qc_neq_by_compute _ _ _ (HB _ _)); [vm_compute; reflexivity|lia|lia].
Qed.

(* F25: one feature, two samples, both at 1; alignment matrix [[1,-1],[-1,1]] (rows and columns sum to zero).  The property's lhs is 0,
   the routine after F9 returns -2. *)
Definition aX : mat Qc := mof [[qz 1; qz 1]].
Definition aW : sparse Qc :=
  [(0%nat, 0%nat, qz 1); (0%nat, 1%nat, qz (-1)); (1%nat, 0%nat, qz (-1)); (1%nat, 1%nat, qz 1)].

Lemma aW_ok : indices_ok 2 aW.
Proof. repeat constructor. Qed.

Lemma aW_zero_sums : zero_sums 2 (dense_of aW).
Proof.
  split; intros s Hs; destruct s as [|[|s]]; try lia;
    apply qeqb_ok; vm_compute; reflexivity.
Qed.

Theorem lltsa_f9_refuted_w :
  indices_ok 2 aW /\ zero_sums 2 (dense_of aW) /\
  ~ is_pencil 1 (lltsa_lhs 2 aX aW) (lltsa_rhs 2 aX) (lltsa_repaired aX 2 aW).
Proof.
  split; [exact aW_ok|]. split; [exact aW_zero_sums|].
  intros [HA _]. specialize (HA 0%nat 0%nat).
  refine (Qc_neq_by_compute _ _ _ (HA _ _)); [vm_compute; reflexivity|lia|lia].
Qed.

(* F42: same two samples, W = e_0 e_0^T (a nullspace shift lives on the diagonal): the routine
   between F25 and F42 returns lhs = 2, the pencil on centred features has lhs = 0 *)
Definition sW : sparse Qc := [(0%nat, 0%nat, qz 1)].

Lemma sW_ok : indices_ok 2 sW.
Proof. repeat constructor. Qed.

Theorem lltsa_f25_refuted_w :
  indices_ok 2 sW /\
  ~ is_pencil 1 (lltsa_lhs 2 aX sW) (lltsa_rhs 2 aX) (lltsa_fixed aX 2 sW).
Proof.
  split; [exact sW_ok|].
  intros [HA _]. specialize (HA 0%nat 0%nat).
  refine (Qc_neq_by_compute _ _ _ (HA _ _)); [vm_compute; reflexivity|lia|lia].
Qed.

Theorem lltsa_f25_translation_refuted_w :
  exists c : vec Qc,
    p_lhs (lltsa_fixed (shift_by aX c) 2 sW) 0%nat 0%nat <>
    p_lhs (lltsa_fixed aX 2 sW) 0%nat 0%nat.
Proof.
  exists (fun _ => qz (-1)). apply Qc_neq_by_compute. vm_compute. reflexivity.
Qed.

(* the same data moved by c = -1 (i.e. centred): the routine after F9 returns something else,
   although nothing the property names has changed *)
Theorem lltsa_f9_translation_refuted_w :
  exists c : vec Qc,
    p_lhs (lltsa_repaired (shift_by aX c) 2 aW) 0%nat 0%nat <>
    p_lhs (lltsa_repaired aX 2 aW) 0%nat 0%nat.
Proof.
  exists (fun _ => qz (-1)). apply Qc_neq_by_compute. vm_compute. reflexivity.
Qed.

(* ---------------- non-vacuity material ---------------- *)
(* a rotation with rational entries *)
Definition rR : mat Qc := mof [[qfrac 3 5; qfrac (-4) 5]; [qfrac 4 5; qfrac 3 5]].

Lemma rR_orthogonal : orthogonal 2 rR.
Proof. apply meq_by_compute. vm_compute. reflexivity. Qed.

(* X = I, W = diag(1,2): pencil (diag(2,4), I); V = I, lam = (2,4) is what a solver returns *)
Definition eX : mat Qc := mof [[qz 1; qz 0]; [qz 0; qz 1]].
Definition eW : sparse Qc := [(0%nat, 0%nat, qz 1); (1%nat, 1%nat, qz 2)].
Definition eV : mat Qc := mof [[qz 1; qz 0]; [qz 0; qz 1]].
Definition elam : vec Qc := vof [qz 2; qz 4].

Lemma eW_ok : indices_ok 2 eW.
Proof. repeat constructor. Qed.

Lemma e_contract :
  oracle_contract 2 (p_lhs (seen (npe_repaired eX 2 eW))) (p_rhs (seen (npe_repaired eX 2 eW))) eV elam.
Proof. split; apply meq_by_compute; vm_compute; reflexivity. Qed.

(* LLTSA: one feature, four samples 1,-1,1,-1 (X J X^T = 4), W = e_0 e_0^T: pencil (2, 4) *)
Definition lX : mat Qc := mof [[qz 1; qz (-1); qz 1; qz (-1)]].
Definition lW : sparse Qc := [(0%nat, 0%nat, qz 1)].
Definition lV : mat Qc := mof [[qfrac 1 2]].
Definition llam : vec Qc := vof [qfrac 1 2].

Lemma lW_ok : indices_ok 4 lW.
Proof. repeat constructor. Qed.

Lemma e_contract_lltsa :
  oracle_contract 1 (p_lhs (seen (lltsa_centred lX 4 lW))) (p_rhs (seen (lltsa_centred lX 4 lW))) lV llam.
Proof. split; apply meq_by_compute; vm_compute; reflexivity. Qed.

Lemma e_contract_lpp :
  oracle_contract 2 (p_lhs (seen (lpp_repaired eX 2 eW wdv))) (p_rhs (seen (lpp_repaired eX 2 eW wdv))) eV elam.
Proof. split; apply meq_by_compute; vm_compute; reflexivity. Qed.

Lemma e_solution : gen_eig_solution 2 1 (npe_lhs 2 eX eW) (npe_rhs 2 eX) eV elam.
Proof. split; apply meq_by_compute; vm_compute; reflexivity. Qed.

Lemma e_run :
  exists lhs rhs, run_construct VF42 NPE 2 2 [[qz 1; qz 1]; [qz 0; qz 1]] wW [] = Ok (lhs, rhs).
Proof. eexists. eexists. vm_compute. reflexivity. Qed.

(* ---------------- non-vacuity of the optimality theorem ---------------- *)
Lemma e_full_contract :
  full_contract 2 (p_lhs (seen (npe_repaired eX 2 eW))) (p_rhs (seen (npe_repaired eX 2 eW))) eV elam.
Proof. repeat split; apply meq_by_compute; vm_compute; reflexivity. Qed.

Lemma e_ascending : ascending 2 elam.
Proof.
  intros a b Hab Hb.
  destruct a as [|[|a]]; destruct b as [|[|b]]; try lia; vm_compute; discriminate.
Qed.

(* a competing B-orthonormal 1-frame: the second eigenvector *)
Definition eQ : mat Qc := mof [[qz 0]; [qz 1]].
Lemma eQ_orthonormal : meq 1 1 (mmul 2 (mtrans eQ) (mmul 2 (npe_rhs 2 eX) eQ)) mI.
Proof. apply meq_by_compute. vm_compute. reflexivity. Qed.

(* ---------------- compute_mean + project on lists (exact stream J) ---------------- *)
Theorem run_project_spec N D d Xl Pl ml Yl :
  run_project N D d Xl Pl = Ok (ml, Yl) ->
  N <> 0%nat /\
  ml = vtab D (compute_mean (mof Xl) N) /\
  Yl = mtab N d (fun s j => dot D (mcol (mof Pl) j) (vsub (fvec (mof Xl) s) (compute_mean (mof Xl) N))) /\
  (forall j, (j < d)%nat -> sumn N (fun s => mof Yl s j) = 0).
Proof.
  unfold run_project.
  destruct (negb (wf_matb D N Xl)); [discriminate|].
  destruct (negb (wf_matb D d Pl)); [discriminate|].
  destruct (Nat.eqb N 0) eqn:EN; [discriminate|]. apply Nat.eqb_neq in EN.
  intros H. injection H as <- <-.
  assert (EY : meq N d (project D (mof Pl) (vof (vtab D (compute_mean (mof Xl) N))) (mof Xl))
                   (project D (mof Pl) (compute_mean (mof Xl) N) (mof Xl))).
  { intros s j _ _. apply project_ext_mean. intros f Hf. apply vof_vtab. assumption. }
  split; [assumption|]. split; [reflexivity|]. split.
  - apply mtab_ext. exact EY.
  - intros j Hj.
    rewrite (sumn_ext N _ (fun s => project D (mof Pl) (compute_mean (mof Xl) N) (mof Xl) s j)).
    + apply embedding_columns_sum_to_zero. apply Qc_of_nat_neq0. assumption.
    + intros s Hs. rewrite mof_mtab by assumption. apply EY; assumption.
Qed.

Lemma e_full_contract0 : full_contract0 2 (npe_lhs 2 eX eW) (npe_rhs 2 eX) eV elam.
Proof. repeat split; apply meq_by_compute; vm_compute; reflexivity. Qed.

Lemma e_simple : forall t, (t < 2)%nat -> t <> 0%nat -> elam t <> elam 0%nat.
Proof.
  intros t Ht Hne. destruct t as [|[|t]]; try lia.
  apply Qc_neq_by_compute. vm_compute. reflexivity.
Qed.

Lemma e_run_project :
  exists ml Yl, run_project 2 2 1 [[qz 1; qz 3]; [qz 2; qz (-1)]] [[qfrac 1 2]; [qz 4]] = Ok (ml, Yl).
Proof. eexists. eexists. vm_compute. reflexivity. Qed.
