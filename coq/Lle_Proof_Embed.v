(* ====================================================================== *)
(*  Lle_Proof_Embed.v — from the eigen-solver contract to the embedding    *)
(*  clauses of C08, and the affine-null-space clause                       *)
(*    select_smallest_entry  leftCols(d+skip).rightCols(d) = cols skip..   *)
(*    embed_orthonormal      Y^T Y = I_d                                   *)
(*    embed_cost             tr(Y^T M Y) = lam_skip + ... + lam_skip+d-1   *)
(*    eigvec_orth_const      M symmetric, M 1 = mu 1, M y = l y, l <> mu   *)
(*                           -> 1^T y = 0                                  *)
(*    embed_centred          the columns sum to zero whenever the selected *)
(*                           eigenvalues differ from the constant vector's *)
(*    local_sum_kills / affine_local_kill / ltsa_affine_null /             *)
(*    hlle_affine_null       if every local matrix annihilates 1 and the   *)
(*                           local coordinates, every affine function of   *)
(*                           the coordinates is an eigenvector of the      *)
(*                           assembled matrix for shift (resp. 0)          *)
(* ====================================================================== *)
Require Import Field Ring Arith Lia List Bool Permutation.
From TK Require Import Mat_Sums Mat_Core Lle_Model Lle_Spec Lle_Proof_Triplets Lle_Proof_Lle
                       Lle_Proof_Ltsa.
Import ListNotations.

Section EmbedProof.
  Context {F : Type} {Fo : FieldOps F} {Ff : IsField F}.
  Add Field EmbedProofField : (@Fth F Fo Ff).
  Local Open Scope F_scope.
  Local Notation vec := (Mat_Core.vec F).
  Local Notation mat := (Mat_Core.mat F).

  Lemma select_smallest_entry skip d (E : mat) a c :
    select_smallest skip d E a c = E a (skip + c)%nat.
  Proof. unfold select_smallest, right_cols, left_cols. f_equal. lia. Qed.

  Lemma delta_shift s i j : @delta F Fo (s + i) (s + j) = delta i j.
  Proof.
    unfold delta. destruct (Nat.eqb i j) eqn:E.
    - apply Nat.eqb_eq in E. subst. rewrite Nat.eqb_refl. reflexivity.
    - apply Nat.eqb_neq in E.
      assert (E' : Nat.eqb (s + i) (s + j) = false) by (apply Nat.eqb_neq; lia).
      rewrite E'. reflexivity.
  Qed.

  Theorem embed_orthonormal N d skip (M E : mat) (lam : vec) :
    eig_contract N M E lam -> skip + d <= N ->
    orthonormal_cols N d (select_smallest skip d E).
  Proof.
    intros [Ho _] Hd i j Hi Hj. unfold mmul, mtrans.
    rewrite (sumn_ext N _ (fun t => mtrans E (skip + i)%nat t * E t (skip + j)%nat)).
    2:{ intros t _. rewrite !select_smallest_entry. reflexivity. }
    change (mmul N (mtrans E) E (skip + i)%nat (skip + j)%nat = mI i j).
    rewrite Ho by lia. unfold mI. apply delta_shift.
  Qed.

  Lemma eig_column N (M E : mat) (lam : vec) c i :
    eig_contract N M E lam -> c < N -> i < N ->
    mv N M (mcol E c) i = E i c * lam c.
  Proof.
    intros [_ He] Hc Hi. change (mv N M (mcol E c) i) with (mmul N M E i c).
    rewrite He by assumption. apply mmul_diag_r. assumption.
  Qed.

  Theorem embed_cost N d skip (M E : mat) (lam : vec) :
    eig_contract N M E lam -> skip + d <= N ->
    cost N d M (select_smallest skip d E) = sumn d (fun c => lam (skip + c)%nat).
  Proof.
    intros HC Hd. unfold cost. apply sumn_ext. intros c Hc.
    rewrite (dot_ext N _ (mcol E (skip + c)%nat) _ (fun i => E i (skip + c)%nat * lam (skip + c)%nat)).
    - unfold dot, mcol.
      rewrite (sumn_ext N _ (fun t => (mtrans E (skip + c)%nat t * E t (skip + c)%nat) * lam (skip + c)%nat))
        by (intros; unfold mtrans; ring).
      rewrite sumn_mul_r.
      change (sumn N (fun t => mtrans E (skip + c)%nat t * E t (skip + c)%nat))
        with (mmul N (mtrans E) E (skip + c)%nat (skip + c)%nat).
      destruct HC as [Ho _]. rewrite Ho by lia. unfold mI. rewrite delta_eq. ring.
    - intros i _. unfold mcol. apply select_smallest_entry.
    - intros i Hi.
      rewrite <- (eig_column N M E lam (skip + c)%nat i HC) by (try assumption; lia).
      unfold mv. apply sumn_ext. intros t _. unfold mcol. rewrite select_smallest_entry. reflexivity.
  Qed.

  (* eigenvectors for an eigenvalue other than the constant vector's are centred *)
  Theorem eigvec_orth_const N (M : mat) (y : vec) l mu :
    msym N M -> const_vector N M mu ->
    (forall i, i < N -> mv N M y i = l * y i) ->
    l <> mu -> sumn N y = 0.
  Proof.
    intros Hs Hc He Hl.
    assert (H : (l - mu) * sumn N y = 0).
    { replace ((l - mu) * sumn N y) with (l * sumn N y - mu * sumn N y) by ring.
      rewrite <- !sumn_mul_l.
      rewrite (sumn_ext N (fun i => l * y i) (fun i => mv N M y i))
        by (intros; symmetry; apply He; assumption).
      unfold mv. rewrite sumn_swap. rewrite <- sumn_sub. apply sumn_zero'. intros t Ht.
      rewrite sumn_mul_r.
      rewrite (sumn_ext N (fun i => M i t) (fun i => M t i * 1))
        by (intros i Hi; rewrite (Hs i t) by assumption; ring).
      change (sumn N (fun i => M t i * 1)) with (mv N M (fun _ => 1) t).
      rewrite Hc by assumption. ring. }
    assert (Hne : l - mu <> 0).
    { intros K. apply Hl. replace l with (l - mu + mu) by ring. rewrite K. ring. }
    replace (sumn N y) with (/ (l - mu) * ((l - mu) * sumn N y)) by (field; assumption).
    rewrite H. ring.
  Qed.

  Theorem embed_centred N d skip (M E : mat) (lam : vec) mu :
    msym N M -> const_vector N M mu -> eig_contract N M E lam -> skip + d <= N ->
    (forall c, c < d -> lam (skip + c)%nat <> mu) ->
    centred_cols N d (select_smallest skip d E).
  Proof.
    intros Hs Hc HC Hd Hl c Hcd.
    rewrite (sumn_ext N _ (mcol E (skip + c)%nat))
      by (intros; unfold mcol; apply select_smallest_entry).
    apply (eigvec_orth_const N M (mcol E (skip + c)%nat) (lam (skip + c)%nat) mu);
      try assumption; [|apply Hl; assumption].
    intros i Hi. rewrite (eig_column N M E lam) by (try assumption; lia). unfold mcol. ring.
  Qed.

  (* ---------------- affine functions of the coordinates ---------------- *)
  Lemma local_sum_kills N k nbr (A : nat -> mat) (y : vec) r :
    (forall i a, i < N -> a < k -> nbr i a < N) ->
    (forall i a, i < N -> a < k -> sumn k (fun b => A i a b * y (nbr i b)) = 0) ->
    mv N (fun r c => sumn N (fun i => local_term k (sel (nbr i)) (A i) r c)) y r = 0.
  Proof.
    intros Hn HA. unfold mv.
    rewrite (sumn_ext N _ (fun c => sumn N (fun i => local_term k (sel (nbr i)) (A i) r c * y c)))
      by (intros; rewrite sumn_mul_r; reflexivity).
    rewrite sumn_swap. apply sumn_zero'. intros i Hi.
    rewrite (sumn_ext N _ (fun c =>
        sumn k (fun a => sumn k (fun b => delta r (nbr i a) * A i a b * (delta c (nbr i b) * y c))))).
    2:{ intros c _. rewrite local_term_entry. rewrite <- sumn_mul_r. apply sumn_ext. intros a _.
        rewrite <- sumn_mul_r. apply sumn_ext. intros b _. ring. }
    rewrite sumn_swap. apply sumn_zero'. intros a Ha.
    rewrite sumn_swap.
    rewrite (sumn_ext k _ (fun b => delta r (nbr i a) * (A i a b * y (nbr i b)))).
    2:{ intros b Hb. rewrite sumn_mul_l.
        rewrite (sumn_ext N _ (fun c => y c * delta c (nbr i b))) by (intros; ring).
        rewrite sumn_delta_r by (apply Hn; assumption). ring. }
    rewrite sumn_mul_l, HA by assumption. ring.
  Qed.

  Lemma affine_local_kill N k d nb (A X : mat) (y : vec) a :
    (forall b, b < k -> nb b < N) ->
    (forall a, a < k -> sumn k (fun b => A a b) = 0) ->
    (forall t a, t < d -> a < k -> sumn k (fun b => A a b * X (nb b) t) = 0) ->
    affine_in N d X y -> a < k ->
    sumn k (fun b => A a b * y (nb b)) = 0.
  Proof.
    intros Hn H1 HX [al [be Hy]] Ha.
    rewrite (sumn_ext k _ (fun b => al * A a b + sumn d (fun t => be t * (A a b * X (nb b) t)))).
    2:{ intros b Hb. rewrite Hy by (apply Hn; assumption).
        replace (A a b * (al + sumn d (fun t => X (nb b) t * be t)))
          with (al * A a b + A a b * sumn d (fun t => X (nb b) t * be t)) by ring.
        f_equal. rewrite <- sumn_mul_l. apply sumn_ext. intros; ring. }
    rewrite sumn_add, sumn_mul_l, H1 by assumption.
    rewrite sumn_swap. rewrite sumn_zero'; [ring|].
    intros t Ht. rewrite sumn_mul_l, HX by assumption. ring.
  Qed.

  (* KLTSA: affine functions of coordinates that every local (I - G G^T) annihilates are
     eigenvectors of the alignment matrix for the eigenvalue shift (its smallest) *)
  Theorem ltsa_affine_null N k d nbr (P : nat -> mat) shift (X : mat) (y : vec) r :
    (forall i a, i < N -> a < k -> nbr i a < N) ->
    (forall i a, i < N -> a < k -> sumn k (fun b => msub mI (P i) a b) = 0) ->
    (forall i t a, i < N -> t < d -> a < k ->
                   sumn k (fun b => msub mI (P i) a b * X (nbr i b) t) = 0) ->
    affine_in N d X y -> r < N ->
    mv N (ltsa_M_spec N k nbr P shift) y r = shift * y r.
  Proof.
    intros Hn H1 HX Hy Hr.
    pose proof (local_sum_kills N k nbr (fun i => msub mI (P i)) y r Hn) as HK.
    unfold mv in *. unfold ltsa_M_spec.
    rewrite (sumn_ext N _ (fun c =>
       sumn N (fun i => local_term k (sel (nbr i)) (msub mI (P i)) r c) * y c
       + shift * (delta r c * y c))) by (intros; ring).
    rewrite sumn_add, sumn_mul_l, sumn_delta_l by assumption.
    rewrite HK; [ring|].
    intros i a Hi Ha. apply (affine_local_kill N k d (nbr i) (msub mI (P i)) X y a); try assumption.
    - intros b Hb. apply Hn; assumption.
    - intros a' Ha'. apply H1; assumption.
    - intros t a' Ht Ha'. apply HX; assumption.
  Qed.

  Theorem hlle_affine_null N k d nbr (P : nat -> mat) (X : mat) (y : vec) r :
    (forall i a, i < N -> a < k -> nbr i a < N) ->
    (forall i a, i < N -> a < k -> sumn k (fun b => P i a b) = 0) ->
    (forall i t a, i < N -> t < d -> a < k -> sumn k (fun b => P i a b * X (nbr i b) t) = 0) ->
    affine_in N d X y -> r < N ->
    mv N (hlle_M_spec N k nbr P) y r = 0.
  Proof.
    intros Hn H1 HX Hy Hr.
    apply (local_sum_kills N k nbr P y r Hn).
    intros i a Hi Ha. apply (affine_local_kill N k d (nbr i) (P i) X y a); try assumption.
    - intros b Hb. apply Hn; assumption.
    - intros a' Ha'. apply H1; assumption.
    - intros t a' Ht Ha'. apply HX; assumption.
  Qed.
End EmbedProof.
