(* ====================================================================== *)
(*  Landmark_Proof_Trace.v — selection and the write trace of triangulate  *)
(*  (C11): landmarks are a duplicate-free prefix of the shuffle; every row *)
(*  of the embedding is written exactly once; landmark rows are copies;    *)
(*  the other rows are the triangulation formula; no out-of-range access   *)
(*  when the shapes agree (and LOOB when target_dimension > #landmarks).   *)
(* ====================================================================== *)
Require Import Field Ring Arith Lia List Bool Permutation.
From TK Require Import Mat_Sums Mat_Core Landmark_Model Landmark_Spec.
Import ListNotations.

(* ---------------- lists ---------------- *)
Lemma NoDup_firstn_lm {A} (l : list A) n : NoDup l -> NoDup (firstn n l).
Proof.
  revert n. induction l as [|a r IH]; intros n H; destruct n; cbn [firstn]; try constructor.
  - inversion H as [|x l' Hn Hr]; subst. intros Hin. apply Hn.
    rewrite <- (firstn_skipn n r). apply in_or_app. left. assumption.
  - inversion H; subst. apply IH. assumption.
Qed.

Lemma Forall_firstn_lm {A} (P : A -> Prop) (l : list A) n : Forall P l -> Forall P (firstn n l).
Proof.
  intros H. apply Forall_forall. intros x Hx. rewrite Forall_forall in H. apply H.
  rewrite <- (firstn_skipn n l). apply in_or_app. left. assumption.
Qed.

Lemma nth_repeat_true x N : x < N -> nth x (repeat true N) false = true.
Proof.
  revert x. induction N as [|N IH]; intros x Hx; [lia|].
  destruct x; cbn [repeat nth]; [reflexivity|]. apply IH. lia.
Qed.

Lemma nth_repeat_ge x N : N <= x -> nth x (repeat true N) false = false.
Proof. intros H. apply nth_overflow. rewrite repeat_length. assumption. Qed.

Lemma set_nth_length {A} i (x : A) l : i < length l -> length (set_nth i x l) = length l.
Proof.
  intros Hi. unfold set_nth. rewrite app_length, firstn_length. cbn [length].
  rewrite skipn_length. lia.
Qed.

Lemma nth_skipn_lm {A} (l : list A) : forall i m d, nth m (skipn i l) d = nth (i + m) l d.
Proof.
  induction l as [|a r IH]; intros i m d.
  - rewrite skipn_nil. destruct m, i; reflexivity.
  - destruct i; [reflexivity|]. cbn [skipn Nat.add nth]. apply IH.
Qed.

Lemma nth_set_nth {A} i (x : A) l j d :
  i < length l -> nth j (set_nth i x l) d = if Nat.eqb j i then x else nth j l d.
Proof.
  intros Hi. unfold set_nth.
  assert (Hf : length (firstn i l) = i) by (rewrite firstn_length; lia).
  destruct (Nat.eqb j i) eqn:E.
  - apply Nat.eqb_eq in E. subst j. rewrite app_nth2 by lia. rewrite Hf, Nat.sub_diag. reflexivity.
  - apply Nat.eqb_neq in E. destruct (Nat.lt_ge_cases j i) as [Hlt|Hge].
    + rewrite app_nth1 by lia. rewrite <- (firstn_skipn i l) at 2. rewrite app_nth1 by lia. reflexivity.
    + rewrite app_nth2 by lia. rewrite Hf.
      destruct (j - i) as [|m] eqn:Em; [lia|]. cbn [nth].
      rewrite nth_skipn_lm. f_equal. lia.
Qed.

(* ---------------- selection ---------------- *)
Theorem landmarks_prefix_of_perm_lemma (shuffled : list nat) (N count : nat) :
  Permutation shuffled (seq 0 N) ->
  (count <= N ->
     select_landmarks shuffled count = LOk (firstn count shuffled) /\
     landmarks_ok N count (firstn count shuffled)) /\
  (N < count -> exists a b c, select_landmarks shuffled count = LOOB a b c).
Proof.
  intros HP.
  assert (Hlen : length shuffled = N) by (rewrite (Permutation_length HP); apply seq_length).
  assert (Hnd : NoDup shuffled).
  { apply (Permutation_NoDup (Permutation_sym HP)). apply seq_NoDup. }
  assert (Hlt : Forall (fun l => l < N) shuffled).
  { apply Forall_forall. intros x Hx. apply (Permutation_in _ HP) in Hx. apply in_seq in Hx. lia. }
  unfold select_landmarks. rewrite Hlen. split.
  - intros Hc. apply Nat.leb_le in Hc. rewrite Hc. split; [reflexivity|].
    unfold landmarks_ok. split; [apply NoDup_firstn_lm; assumption|].
    split; [apply Forall_firstn_lm; assumption|].
    rewrite firstn_length. apply Nat.leb_le in Hc. lia.
  - intros Hc. apply Nat.leb_gt in Hc. rewrite Hc. eexists. eexists. eexists. reflexivity.
Qed.

Section Trace.
  Context {F : Type} {Fo : FieldOps F}.
  Local Open Scope nat_scope.

  (* the writes of phase 1: (landmarks[k+i], first.row(k+i)) *)
  Definition copy_writes (E : @eig_result F) (k : nat) (lm : list nat) : list (nat * vec F) :=
    map (fun p => (snd p, mrow (er_first E) (fst p))) (combine (seq k (length lm)) lm).

  Lemma copy_writes_fst E k lm : map fst (copy_writes E k lm) = lm.
  Proof.
    unfold copy_writes. revert k. induction lm as [|l r IH]; intros k; [reflexivity|].
    cbn [length seq combine map fst snd]. f_equal. apply IH.
  Qed.

  Lemma tri_copy_inv N d (E : @eig_result F) lm : forall k tp tp' ws,
    length tp = N ->
    tri_copy N d E lm k tp = LOk (tp', ws) ->
    Forall (fun l => l < N) lm /\
    (lm <> [] -> er_cols E = d /\ k + length lm <= er_rows E) /\
    ws = copy_writes E k lm /\
    length tp' = N /\
    (forall x, nth x tp' false = if existsb (Nat.eqb x) lm then false else nth x tp false).
  Proof.
    induction lm as [|l r IH]; intros k tp tp' ws Htp H.
    - cbn [tri_copy] in H. inversion H; subst tp' ws.
      split; [constructor|]. split; [intros Hne; contradiction|].
      split; [reflexivity|]. split; [assumption|]. intros x. reflexivity.
    - cbn [tri_copy] in H.
      destruct (Nat.ltb l N) eqn:E1; cbn [negb] in H; [|discriminate].
      destruct (Nat.ltb k (er_rows E)) eqn:E2; cbn [negb] in H; [|discriminate].
      destruct (Nat.eqb (er_cols E) d) eqn:E3; cbn [negb] in H; [|discriminate].
      destruct (tri_copy N d E r (S k) (set_nth l false tp)) as [[tp1 w1]|] eqn:E4; [|discriminate].
      inversion H; subst tp' ws. clear H.
      apply Nat.ltb_lt in E1. apply Nat.ltb_lt in E2. apply Nat.eqb_eq in E3.
      assert (Hl : length (set_nth l false tp) = N) by (rewrite set_nth_length; lia).
      destruct (IH _ _ _ _ Hl E4) as [Hf [Hc [Hw [Hlen Hnth]]]].
      split; [constructor; assumption|].
      split.
      { intros _. split; [assumption|]. cbn [length]. destruct r as [|r0 rr].
        - cbn [length]. lia.
        - assert (Hne : r0 :: rr <> []) by discriminate. destruct (Hc Hne) as [_ Hle].
          cbn [length] in *. lia. }
      split.
      { subst w1. unfold copy_writes. cbn [length seq combine map fst snd]. reflexivity. }
      split; [assumption|].
      intros x. rewrite Hnth. cbn [existsb].
      rewrite nth_set_nth by lia.
      destruct (Nat.eqb x l) eqn:Ex; cbn [orb].
      + destruct (existsb (Nat.eqb x) r); reflexivity.
      + reflexivity.
  Qed.

  Lemma tri_copy_total N d (E : @eig_result F) lm : forall k tp,
    length tp = N -> Forall (fun l => l < N) lm ->
    er_cols E = d -> k + length lm <= er_rows E ->
    exists tp', tri_copy N d E lm k tp = LOk (tp', copy_writes E k lm).
  Proof.
    induction lm as [|l r IH]; intros k tp Htp Hf Hc Hr.
    - exists tp. reflexivity.
    - pose proof (Forall_inv Hf) as Hl. pose proof (Forall_inv_tail Hf) as Hf'.
      cbv beta in Hl. cbn [tri_copy length] in *.
      assert (E1 : Nat.ltb l N = true) by (apply Nat.ltb_lt; assumption).
      assert (E2 : Nat.ltb k (er_rows E) = true) by (apply Nat.ltb_lt; lia).
      assert (E3 : Nat.eqb (er_cols E) d = true) by (apply Nat.eqb_eq; assumption).
      rewrite E1, E2, E3. cbn [negb].
      destruct (IH (S k) (set_nth l false tp)) as [tp' Ht]; try assumption; try lia.
      { rewrite set_nth_length; lia. }
      rewrite Ht. exists tp'. reflexivity.
  Qed.

  Lemma tri_rest_filter xs tp (row : nat -> vec F) :
    tri_rest xs tp row = map (fun x => (x, row x)) (filter (fun x => nth x tp false) xs).
  Proof.
    induction xs as [|x r IH]; [reflexivity|]. cbn [tri_rest filter].
    destruct (nth x tp false); cbn [map]; rewrite IH; reflexivity.
  Qed.

  (* ---------------- last_write ---------------- *)
  Lemma last_write_app (w1 w2 : list (nat * vec F)) x :
    last_write (w1 ++ w2) x =
    match last_write w2 x with Some v => Some v | None => last_write w1 x end.
  Proof.
    induction w1 as [|[y v] r IH]; cbn [app last_write].
    - destruct (last_write w2 x); reflexivity.
    - rewrite IH. destruct (last_write w2 x); [reflexivity|]. reflexivity.
  Qed.

  Lemma last_write_notin (ws : list (nat * vec F)) x :
    ~ In x (map fst ws) -> last_write ws x = None.
  Proof.
    induction ws as [|[y v] r IH]; intros H; [reflexivity|]. cbn [last_write map fst In] in *.
    rewrite IH by tauto. destruct (Nat.eqb x y) eqn:E; [|reflexivity].
    apply Nat.eqb_eq in E. subst. tauto.
  Qed.

  Lemma last_write_map (row : nat -> vec F) l x :
    last_write (map (fun x => (x, row x)) l) x = if existsb (Nat.eqb x) l then Some (row x) else None.
  Proof.
    induction l as [|y r IH]; [reflexivity|]. cbn [map last_write existsb]. rewrite IH.
    destruct (existsb (Nat.eqb x) r); cbn [orb].
    - rewrite orb_true_r. reflexivity.
    - rewrite orb_false_r. destruct (Nat.eqb x y) eqn:E; [|reflexivity].
      apply Nat.eqb_eq in E. subst. reflexivity.
  Qed.

  Lemma last_write_copy (E : @eig_result F) lm : forall k i,
    NoDup lm -> i < length lm ->
    last_write (copy_writes E k lm) (nth i lm 0) = Some (mrow (er_first E) (k + i)).
  Proof.
    induction lm as [|l r IH]; intros k i Hnd Hi; [cbn [length] in Hi; lia|].
    inversion Hnd as [|x l' Hn Hr]; subst.
    change (copy_writes E k (l :: r)) with ((l, mrow (er_first E) k) :: copy_writes E (S k) r).
    cbn [last_write]. destruct i as [|i]; cbn [nth].
    - rewrite last_write_notin by (rewrite copy_writes_fst; assumption).
      rewrite Nat.eqb_refl, Nat.add_0_r. reflexivity.
    - cbn [length] in Hi. rewrite (IH (S k) i) by (try assumption; lia).
      f_equal. f_equal. lia.
  Qed.

  Lemma existsb_eqb_In x l : existsb (Nat.eqb x) l = true <-> In x l.
  Proof.
    rewrite existsb_exists. split.
    - intros [y [Hy E]]. apply Nat.eqb_eq in E. subst. assumption.
    - intros H. exists x. split; [assumption|apply Nat.eqb_refl].
  Qed.

  Lemma existsb_eqb_notIn x l : existsb (Nat.eqb x) l = false <-> ~ In x l.
  Proof.
    rewrite <- existsb_eqb_In. destruct (existsb (Nat.eqb x) l); split; intros H;
      try reflexivity; try discriminate; try (intros H'; discriminate). exfalso. apply H. reflexivity.
  Qed.

  (* ---------------- the trace of triangulate ---------------- *)
  Definition tri_math_row (keep : nat -> bool) (lm : list nat) (dist : mat F) (mu : vec F)
             (E : @eig_result F) (d : nat) (x : nat) : vec F :=
    tri_row (length lm) (tri_divide d keep E) (tri_delta lm dist mu x).

  Lemma triangulate_shape N d keep lm dist mu_size mu (E : @eig_result F) ws :
    triangulate N d keep lm dist mu_size mu E = LOk ws ->
    Forall (fun l => l < N) lm /\
    (lm <> [] -> er_cols E = d /\ length lm <= er_rows E) /\
    d <= er_cols E /\ d <= er_size E /\
    ws = copy_writes E 0 lm ++
         map (fun x => (x, tri_math_row keep lm dist mu E d x))
             (filter (fun x => negb (existsb (Nat.eqb x) lm)) (seq 0 N)) /\
    ((exists x, x < N /\ ~ In x lm) -> mu_size = length lm /\ er_rows E = length lm).
  Proof.
    unfold triangulate. intros H.
    destruct (tri_copy N d E lm 0 (repeat true N)) as [[tp w1]|] eqn:E0; [|discriminate].
    destruct (Nat.leb d (er_cols E)) eqn:E1; cbn [negb] in H; [|discriminate].
    destruct (Nat.leb d (er_size E)) eqn:E2; cbn [negb] in H; [|discriminate].
    destruct (existsb (fun b : bool => b) tp &&
              negb (Nat.eqb mu_size (length lm) && Nat.eqb (er_rows E) (length lm))) eqn:E3;
      [discriminate|].
    inversion H; subst ws. clear H.
    apply Nat.leb_le in E1. apply Nat.leb_le in E2.
    destruct (tri_copy_inv N d E lm 0 (repeat true N) tp w1 (repeat_length _ _) E0)
      as [Hf [Hc [Hw [Hlen Hnth]]]].
    split; [assumption|]. split; [exact Hc|]. split; [assumption|]. split; [assumption|].
    assert (Hfilter : filter (fun x => nth x tp false) (seq 0 N) =
                      filter (fun x => negb (existsb (Nat.eqb x) lm)) (seq 0 N)).
    { apply filter_ext_in. intros x Hx. apply in_seq in Hx. rewrite Hnth.
      rewrite nth_repeat_true by lia. destruct (existsb (Nat.eqb x) lm); reflexivity. }
    split.
    { rewrite tri_rest_filter, Hfilter, Hw. reflexivity. }
    intros [x [Hx Hnin]].
    assert (Et : existsb (fun b : bool => b) tp = true).
    { apply existsb_exists. exists true. split; [|reflexivity].
      assert (Hx' : nth x tp false = true).
      { rewrite Hnth. apply existsb_eqb_notIn in Hnin. rewrite Hnin.
        apply nth_repeat_true. assumption. }
      rewrite <- Hx'. apply nth_In. lia. }
    rewrite Et in E3. cbn [andb] in E3. apply negb_false_iff in E3.
    apply andb_true_iff in E3. destruct E3 as [Ea Eb].
    apply Nat.eqb_eq in Ea. apply Nat.eqb_eq in Eb. split; assumption.
  Qed.

  Lemma count_occ_NoDup_lm (l : list nat) x :
    NoDup l -> count_occ Nat.eq_dec l x = if existsb (Nat.eqb x) l then 1 else 0.
  Proof.
    intros Hnd. destruct (existsb (Nat.eqb x) l) eqn:E.
    - apply existsb_eqb_In in E. apply NoDup_count_occ'; assumption.
    - apply existsb_eqb_notIn in E. apply count_occ_not_In. assumption.
  Qed.

  (* every row index < N is written exactly once; nothing else is written;
     landmark rows are copies of first.row(position); the others carry the triangulation *)
  Theorem triangulate_trace N d keep lm dist mu_size mu (E : @eig_result F) ws :
    NoDup lm ->
    triangulate N d keep lm dist mu_size mu E = LOk ws ->
    (forall x, x < N -> count_occ Nat.eq_dec (map fst ws) x = 1) /\
    (forall x, In x (map fst ws) -> x < N) /\
    (forall i, i < length lm -> last_write ws (lmk lm i) = Some (mrow (er_first E) i)) /\
    (forall x, x < N -> ~ In x lm ->
       last_write ws x = Some (tri_math_row keep lm dist mu E d x)).
  Proof.
    intros Hnd H. destruct (triangulate_shape _ _ _ _ _ _ _ _ _ H) as [Hf [Hc [Hd1 [Hd2 [Hw _]]]]].
    set (rest := filter (fun x => negb (existsb (Nat.eqb x) lm)) (seq 0 N)) in *.
    assert (Hfst : map fst ws = lm ++ rest).
    { rewrite Hw, map_app, copy_writes_fst, map_map. cbn [fst]. rewrite map_id. reflexivity. }
    assert (Hrest_nd : NoDup rest) by (apply NoDup_filter; apply seq_NoDup).
    assert (Hrest_in : forall x, In x rest <-> x < N /\ ~ In x lm).
    { intros x. unfold rest. rewrite filter_In, in_seq, negb_true_iff, existsb_eqb_notIn.
      split; intros [Ha Hb]; split; try assumption; lia. }
    split.
    { intros x Hx. rewrite Hfst, count_occ_app, !count_occ_NoDup_lm by assumption.
      destruct (existsb (Nat.eqb x) lm) eqn:Ex.
      - assert (Er : existsb (Nat.eqb x) rest = false).
        { apply existsb_eqb_notIn. rewrite Hrest_in. apply existsb_eqb_In in Ex. tauto. }
        rewrite Er. reflexivity.
      - assert (Er : existsb (Nat.eqb x) rest = true).
        { apply existsb_eqb_In. rewrite Hrest_in. apply existsb_eqb_notIn in Ex. tauto. }
        rewrite Er. reflexivity. }
    split.
    { intros x Hx. rewrite Hfst in Hx. apply in_app_or in Hx. destruct Hx as [Hx|Hx].
      - rewrite Forall_forall in Hf. apply Hf. assumption.
      - apply Hrest_in in Hx. tauto. }
    split.
    { intros i Hi. rewrite Hw, last_write_app, last_write_map.
      assert (Hin : In (lmk lm i) lm) by (apply nth_In; assumption).
      assert (Er : existsb (Nat.eqb (lmk lm i)) rest = false).
      { apply existsb_eqb_notIn. rewrite Hrest_in. tauto. }
      rewrite Er. unfold lmk. rewrite last_write_copy by assumption. reflexivity. }
    intros x Hx Hnin. rewrite Hw, last_write_app, last_write_map.
    assert (Er : existsb (Nat.eqb x) rest = true).
    { apply existsb_eqb_In. rewrite Hrest_in. tauto. }
    rewrite Er. reflexivity.
  Qed.

  (* no out-of-range access when the shapes agree *)
  Theorem triangulate_total N d keep lm dist mu (E : @eig_result F) :
    Forall (fun l => l < N) lm ->
    er_rows E = length lm -> er_cols E = d -> d <= er_size E ->
    exists ws, triangulate N d keep lm dist (length lm) mu E = LOk ws.
  Proof.
    intros Hf Hr Hc Hs. unfold triangulate.
    destruct (tri_copy_total N d E lm 0 (repeat true N)) as [tp Ht];
      try assumption; try (rewrite repeat_length; reflexivity); try lia.
    rewrite Ht.
    assert (E1 : Nat.leb d (er_cols E) = true) by (apply Nat.leb_le; lia).
    assert (E2 : Nat.leb d (er_size E) = true) by (apply Nat.leb_le; lia).
    rewrite E1, E2, Hr, !Nat.eqb_refl. cbn [negb andb]. rewrite andb_false_r.
    eexists. reflexivity.
  Qed.
End Trace.

Section TraceField.
  Context {F : Type} {Fo : FieldOps F} {Ff : IsField F}.
  Add Field LandmarkTraceField : (@Fth F Fo Ff).
  Local Open Scope nat_scope.
  Local Open Scope F_scope.

  Lemma fdiv_def (p q : F) : p / q = p * / q.
  Proof. exact (Fdiv_def (@Fth F Fo Ff) p q). Qed.

  (* the row the code computes: for a kept column it IS -1/2 pinv(Y_L) (delta - mu), with
     Y_L = first (scaled eigenvectors) and lam = second (no hypothesis on lam is needed for this
     algebraic identity); for a dropped column (null eigenvalue) it is 0 *)
  Lemma tri_math_row_spec keep lm dist mu (E : @eig_result F) d x c :
    c < d ->
    tri_math_row keep lm dist mu E d x c =
      if keep c then tri_spec_row (length lm) lm dist mu (er_first E) (er_second E) x c else 0.
  Proof.
    intros Hc. unfold tri_math_row, tri_row, tri_divide, tri_delta, tri_spec_row.
    apply Nat.ltb_lt in Hc. rewrite Hc. destruct (keep c).
    - rewrite fdiv_def, <- sumn_mul_l, <- sumn_mul_r. apply sumn_ext. intros t _.
      rewrite fdiv_def. ring.
    - apply sumn_zero'. intros t _. ring.
  Qed.

  (* the code before 7bdf733 divides every selected column by its eigenvalue, null or not *)
  Lemma tri_divide_old_divides (E : @eig_result F) d r c :
    c < d -> tri_divide d keep_all E r c = er_first E r c / er_second E c.
  Proof. intros Hc. unfold tri_divide, keep_all. apply Nat.ltb_lt in Hc. rewrite Hc. reflexivity. Qed.
End TraceField.
