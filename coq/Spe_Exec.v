(* Spe_Exec.v — the Qc instances of the field-generic models that the OCaml driver runs
   (definitions only; the theorems of Properties_C19.v are about the generic functions these unfold to) *)
Require Import List Arith ZArith QArith Qcanon.
From TK Require Import Mat_Sums Mat_Core Mat_Qc Spe_Model Spe_Spec.
Import ListNotations.

(* samples come as a list of rows (one row per sample) *)
Definition rp_embed_qc (s : Qc) (n D d : nat) (g : list Qc) (X : list (list Qc)) : res (list (list Qc)) :=
  @rp_embed Qc QcOps s n D d g (mof X).

(* one batched SPE iteration on exact rationals; Y as a list of points; returns the new points *)
Definition spe_step_qc (dim N : nat) (lam tol : Qc) (ps : list (nat * nat)) (Rt Dn : list Qc)
           (Y : list (list Qc)) : list (list Qc) :=
  mtab N dim (@spe_step Qc QcOps lam tol ps Rt Dn (fun i => mof Y i)).

Definition qc_of (num : Z) (den : positive) : Qc := Q2Qc (num # den).
Definition qc_num (q : Qc) : Z := Qnum (this q).
Definition qc_den (q : Qc) : positive := Qden (this q).

(* the same on a range: `pool` = feature vectors by sample id (row id = sample id), `range` = the ids handed
   to embed() *)
From TK Require Import Spe_Des_Model.
Definition rp_embed_des_qc (s : Qc) (D d : nat) (g : list Qc) (pool : list (list Qc)) (range : list nat)
  : res (list (list Qc)) :=
  @rp_embed_des Qc QcOps s D d g (fun id => mof pool id) range.
