(* Conn_Proof_Dfs.v — the depth-first search loop of Conn_Model decides
   "every sample is reachable from sample 0", never reads out of range on a
   well-formed graph, and terminates within the fuel the model gives it. *)
From Coq Require Import List Arith Bool ZArith Lia.
From TK Require Import Conn_Model Conn_Spec Conn_Proof_Graph.
Import ListNotations.

Fixpoint count_true (l : list bool) : nat :=
  match l with
  | [] => 0
  | b :: t => (if b then 1 else 0) + count_true t
  end.

(* potential: total length of the lists of the samples not yet visited *)
Fixpoint pot (visited : list bool) (g : graph) : nat :=
  match visited, g with
  | v :: vs, r :: rs => (if v then 0 else length r) + pot vs rs
  | _, _ => 0
  end.

Lemma count_true_le : forall l, count_true l <= length l.
Proof. induction l as [|b t IH]; cbn; [lia|]. destruct b; lia. Qed.

Lemma count_true_all : forall l,
  (forall v, v < length l -> nth_error l v = Some true) -> count_true l = length l.
Proof.
  induction l as [|b t IH]; intros H; cbn; auto.
  assert (Hb : b = true). { specialize (H 0). cbn in H. assert (Some b = Some true) by (apply H; lia). congruence. }
  subst b. rewrite IH; auto.
  intros v Hv. specialize (H (S v)). cbn in H. apply H. lia.
Qed.

Lemma count_true_full : forall l, count_true l = length l ->
  forall v, v < length l -> nth_error l v = Some true.
Proof.
  induction l as [|b t IH]; intros H v Hv; cbn in *; [lia|].
  pose proof (count_true_le t) as Hle.
  destruct b; [|lia].
  destruct v; cbn; auto. apply IH; lia.
Qed.

Lemma count_true_set : forall l c, nth_error l c = Some false ->
  count_true (set_nth l c true) = S (count_true l).
Proof.
  induction l as [|b t IH]; intros c H; destruct c; cbn in *; try discriminate.
  - inversion H; subst. reflexivity.
  - rewrite IH by auto. lia.
Qed.

Lemma count_true_repeat_false : forall n, count_true (repeat false n) = 0.
Proof. induction n; cbn; auto. Qed.

Lemma pot_set : forall visited g c row,
  nth_error visited c = Some false -> nth_error g c = Some row ->
  pot (set_nth visited c true) g + length row = pot visited g.
Proof.
  induction visited as [|b t IH]; intros g c row Hv Hg; destruct c; cbn in Hv; try discriminate.
  - inversion Hv; subst. destruct g as [|r rs]; cbn in Hg; [discriminate|]. inversion Hg; subst.
    cbn. lia.
  - destruct g as [|r rs]; cbn in Hg; [discriminate|]. cbn.
    rewrite <- (IH rs c row Hv Hg). lia.
Qed.

Lemma pot_le_total : forall visited g, pot visited g <= total_len g.
Proof.
  induction visited as [|b t IH]; intros g; destruct g as [|r rs]; cbn; try lia.
  specialize (IH rs). unfold total_len in IH. destruct b; lia.
Qed.

(* ------------------------------------------------------------ the inner loop *)
Lemma push_unvisited_spec : forall visited cands stack,
  (forall x, In x cands -> x < length visited) ->
  exists st, push_unvisited visited cands stack = COk st /\
    (forall x, In x st <-> In x stack \/ (In x cands /\ nth_error visited x = Some false)) /\
    length st <= length stack + length cands.
Proof.
  intros visited cands. induction cands as [|c cs IH]; intros stack Hlt; cbn.
  - exists stack. split; auto. split; [|lia]. intros x. split; auto. intros [H|[[] _]]; auto.
  - assert (Hc : c < length visited) by (apply Hlt; left; auto).
    destruct (nth_error_lt_Some _ _ _ Hc) as [b Eb]. rewrite Eb.
    assert (Hlt' : forall x, In x cs -> x < length visited) by (intros; apply Hlt; right; auto).
    destruct b.
    + destruct (IH stack Hlt') as [st [E [Hin Hlen]]]. exists st. split; auto. split; [|lia].
      intros x. rewrite Hin. split.
      * intros [H|[H1 H2]]; auto.
      * intros [H|[[H1|H1] H2]]; auto. subst. congruence.
    + destruct (IH (c :: stack) Hlt') as [st [E [Hin Hlen]]]. exists st. split; auto.
      split; [|cbn in Hlen; lia].
      intros x. rewrite Hin. cbn. split.
      * intros [[H|H]|[H1 H2]]; auto. subst. auto.
      * intros [H|[[H1|H1] H2]]; auto.
Qed.

(* ------------------------------------------------------------ the while loop *)
Section Dfs.
Variable sel : list nat -> cres (list nat).
Variable N : nat.
Variable adj : graph.
Hypothesis HN : 0 < N.
Hypothesis Hwf : wf_graph N adj.
Hypothesis Hsel : forall row, In row adj -> sel row = COk row.

Record inv (stack : list nat) (visited : list bool) (nv : nat) : Prop := mk_inv {
  inv_len : length visited = N;
  inv_cnt : nv = count_true visited;
  inv_lt : nv < N;
  inv_stack : forall v, In v stack -> v < N /\ reach adj 0 v;
  inv_vis : forall v, nth_error visited v = Some true -> reach adj 0 v;
  inv_closed : forall u v, nth_error visited u = Some true -> edge adj u v ->
                           nth_error visited v = Some true \/ In v stack;
  inv_root : nth_error visited 0 = Some true \/ In 0 stack }.

Lemma closed_visits_all : forall visited,
  (forall u v, nth_error visited u = Some true -> edge adj u v -> nth_error visited v = Some true) ->
  forall u v, reach adj u v -> nth_error visited u = Some true -> nth_error visited v = Some true.
Proof.
  intros visited Hc u v H. induction H as [|i j l He Hr IH]; auto.
  intros Hi. apply IH. eapply Hc; eauto.
Qed.

Lemma dfs_loop_correct : forall fuel stack visited nv,
  inv stack visited nv -> length stack + pot visited adj + 1 <= fuel ->
  exists b, dfs_loop sel N adj fuel stack visited nv = COk b /\
            (b = true <-> all_from_first N adj).
Proof.
  induction fuel as [|fuel IH]; intros stack visited nv Hinv Hfuel; [lia|].
  destruct Hinv as [Hlen Hcnt Hlt Hst Hvis Hcl Hroot].
  destruct stack as [|c stack']; cbn [dfs_loop].
  - (* empty stack: nvisited < N, and the visited set is closed, so something is unreachable *)
    exists false. split.
    + f_equal. apply Nat.eqb_neq. lia.
    + split; [discriminate|]. intros Hall. exfalso.
      destruct Hroot as [H0|[]].
      assert (Hc' : forall u v, nth_error visited u = Some true -> edge adj u v ->
                                 nth_error visited v = Some true).
      { intros u v Hu He. destruct (Hcl u v Hu He) as [H|[]]; auto. }
      assert (count_true visited = length visited).
      { apply count_true_all. intros v Hv. eapply closed_visits_all; eauto.
        apply Hall. lia. }
      lia.
  - assert (Hc : c < N /\ reach adj 0 c) by (apply Hst; left; auto).
    destruct Hc as [HcN Hc0].
    assert (Hcl' : c < length visited) by lia.
    destruct (nth_error_lt_Some _ _ _ Hcl') as [b Eb]. rewrite Eb.
    destruct b.
    + (* already visited: continue *)
      apply IH.
      * constructor; auto.
        -- intros v Hv. apply Hst. right; auto.
        -- intros u v Hu He. destruct (Hcl u v Hu He) as [H|[H|H]]; auto. subst; auto.
        -- destruct Hroot as [H|[H|H]]; auto. subst; auto.
      * cbn [length] in Hfuel. lia.
    + (* first visit *)
      set (visited' := set_nth visited c true).
      assert (Hlen' : length visited' = N) by (unfold visited'; rewrite set_nth_length; auto).
      assert (Hcnt' : S nv = count_true visited').
      { unfold visited'. rewrite count_true_set; auto. }
      assert (Hvc : nth_error visited' c = Some true).
      { unfold visited'. apply nth_error_set_nth_eq; auto. }
      assert (Hvo : forall v, v <> c -> nth_error visited' v = nth_error visited v).
      { intros v Hv. unfold visited'. apply nth_error_set_nth_neq; auto. }
      assert (Hmono : forall v, nth_error visited v = Some true -> nth_error visited' v = Some true).
      { intros v Hv. destruct (Nat.eq_dec v c) as [->|Hne]; auto. rewrite Hvo; auto. }
      assert (Hvis' : forall v, nth_error visited' v = Some true -> reach adj 0 v).
      { intros v Hv. destruct (Nat.eq_dec v c) as [->|Hne]; auto. rewrite Hvo in Hv; auto. }
      destruct (S nv =? N) eqn:EN.
      * (* break: everything is visited, hence reachable *)
        apply Nat.eqb_eq in EN. exists true. split; [reflexivity|].
        split; [|reflexivity]. intros _ j Hj. apply Hvis'.
        apply count_true_full; lia.
      * apply Nat.eqb_neq in EN.
        destruct Hwf as [Hwl Hwr].
        assert (Hca : c < length adj) by lia.
        destruct (nth_error_lt_Some _ _ _ Hca) as [row Erow]. rewrite Erow.
        assert (Hrin : In row adj) by (eapply nth_error_In; eauto).
        rewrite (Hsel row Hrin).
        assert (Hrlt : forall x, In x row -> x < length visited').
        { intros x Hx. rewrite Hlen'. eapply Hwr; eauto. }
        destruct (push_unvisited_spec visited' row stack' Hrlt) as [st [Est [Hin Hstlen]]].
        rewrite Est. apply IH.
        -- constructor; auto.
           ++ lia.
           ++ intros v Hv. apply Hin in Hv. destruct Hv as [Hv|[Hv1 Hv2]].
              ** apply Hst. right; auto.
              ** split; [eapply Hwr; eauto|].
                 eapply reach_step_r; eauto. eapply edge_of_nth_error; eauto.
           ++ intros u v Hu He.
              destruct (Nat.eq_dec u c) as [->|Hne].
              ** (* edges out of the vertex just visited *)
                 apply edge_inv in He. destruct He as [row' [Erow' Hv]].
                 rewrite Erow in Erow'. inversion Erow'; subst row'.
                 assert (HvN : v < length visited') by (apply Hrlt; auto).
                 destruct (nth_error_lt_Some _ _ _ HvN) as [bv Ebv].
                 destruct bv; auto. right. apply Hin. right. auto.
              ** rewrite Hvo in Hu by auto.
                 destruct (Hcl u v Hu He) as [H|[H|H]]; auto.
                 --- subst; auto.
                 --- right. apply Hin. left; auto.
           ++ destruct Hroot as [H|[H|H]]; auto.
              ** subst; auto.
              ** right. apply Hin. left; auto.
        -- pose proof (pot_set visited adj c row Eb Erow) as Hpot.
           fold visited' in Hpot. cbn [length] in Hfuel. lia.
Qed.

Lemma inv_init : inv [0] (repeat false N) 0.
Proof.
  constructor.
  - apply repeat_length.
  - rewrite count_true_repeat_false; auto.
  - exact HN.
  - intros v [<-|[]]. split; auto. apply reach_refl.
  - intros v Hv. apply nth_error_In in Hv. apply repeat_spec in Hv. discriminate.
  - intros u v Hu. apply nth_error_In in Hu. apply repeat_spec in Hu. discriminate.
  - right. left. reflexivity.
Qed.

Lemma dfs_from_first : forall fuel, total_len adj + 2 <= fuel ->
  exists b, dfs_loop sel N adj fuel [0] (repeat false N) 0 = COk b /\
            (b = true <-> all_from_first N adj).
Proof.
  intros fuel Hf. apply dfs_loop_correct; [apply inv_init|].
  pose proof (pot_le_total (repeat false N) adj). cbn [length]. lia.
Qed.

End Dfs.

(* ------------------------------------------------------------ shipped is_connected *)
Lemma sel_first_k_uniform : forall nb, uniform nb ->
  forall row, In row nb -> sel_first_k (length (nth 0 nb [])) row = COk row.
Proof.
  intros nb Hu row Hr. unfold sel_first_k. rewrite <- (Hu row Hr).
  rewrite Nat.ltb_irrefl. rewrite firstn_all. reflexivity.
Qed.

Lemma is_connected_correct : forall N nb, 0 < N -> wf_graph N nb -> uniform nb ->
  exists b, is_connected N nb = COk b /\ (b = true <-> all_from_first N nb).
Proof.
  intros N nb HN Hwf Hu. unfold is_connected.
  destruct Hwf as [Hl Hr].
  assert (H0 : 0 < length nb) by lia.
  destruct (nth_error_lt_Some _ _ _ H0) as [row0 E0]. rewrite E0.
  assert (Ek : length row0 = length (nth 0 nb [])).
  { erewrite nth_error_nth_default; eauto. }
  cbv zeta. rewrite Ek.
  apply dfs_from_first; auto.
  - split; auto.
  - apply sel_first_k_uniform; auto.
  - rewrite (total_len_uniform (length (nth 0 nb [])) nb) by (apply Hu). rewrite Hl.
    nia.
Qed.

(* ------------------------------------------------------------ the helper of the repair *)
Lemma all_reachable_from_first_correct : forall N adj, 0 < N -> wf_graph N adj ->
  exists b, all_reachable_from_first N adj = COk b /\ (b = true <-> all_from_first N adj).
Proof.
  intros N adj HN Hwf. unfold all_reachable_from_first.
  apply dfs_from_first; auto.
Qed.
