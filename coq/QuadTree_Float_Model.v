(* QuadTree_Float_Model.v — the BOX ARITHMETIC of tsne::QuadTree / tsne::Cell in binary64, bit for bit
   (include/tapkee/external/barnes_hut_sne/quadtree.hpp: Cell::containsPoint, the four `new QuadTree(this, data,
   boundary.x -/+ .5 * boundary.hw, boundary.y -/+ .5 * boundary.hh, .5 * boundary.hw, .5 * boundary.hh)` of
   subdivide(), and the order NW, NE, SW, SE in which insert() / subdivide() try the children).
   No proofs in this file.

   Numbers: Coq's primitive floats = IEEE 754 binary64, round to nearest even (`From Coq Require Import Floats`);
   they evaluate under vm_compute.  ScalarType of tapkee is double; g++ on x86-64 (SSE2, no x87 excess precision;
   no FMA without -march flags, and .5 * hw is exact anyway) computes exactly these operations.
   What is NOT here: the tree itself (leaves, cum_size, centre of mass, duplicates) - that is QuadTree_Model.v over
   exact rationals.  This file is the part of the code where binary64 and exact arithmetic differ in a way that
   matters for the property (known finding F25): the rounded child boxes.

   Comparisons: the C++ writes `if (x - hw > point[0]) return false;`; `a > b` is `b < a` (PrimFloat.ltb), false
   when either side is NaN, exactly like the C++ operator. *)
From Coq Require Import Floats ZArith List Bool.
Import ListNotations.
Local Open Scope float_scope.

Record fcell : Type := mkFCell { fcx : float; fcy : float; fchw : float; fchh : float }.
Definition fpt : Type := (float * float)%type.
Definition fcell0 : fcell := mkFCell 0 0 0 0.

(* Cell::containsPoint *)
Definition fcontains (c : fcell) (p : fpt) : bool :=
  if fst p <? fcx c - fchw c then false           (* x - hw > point[0] *)
  else if fcx c + fchw c <? fst p then false      (* x + hw < point[0] *)
  else if snd p <? fcy c - fchh c then false      (* y - hh > point[1] *)
  else if fcy c + fchh c <? snd p then false      (* y + hh < point[1] *)
  else true.

(* subdivide(): the four child boxes, in the order they are created and tried *)
Definition fhalf : float := 0.5.
Definition fnwc (c : fcell) : fcell :=
  mkFCell (fcx c - fhalf * fchw c) (fcy c - fhalf * fchh c) (fhalf * fchw c) (fhalf * fchh c).
Definition fnec (c : fcell) : fcell :=
  mkFCell (fcx c + fhalf * fchw c) (fcy c - fhalf * fchh c) (fhalf * fchw c) (fhalf * fchh c).
Definition fswc (c : fcell) : fcell :=
  mkFCell (fcx c - fhalf * fchw c) (fcy c + fhalf * fchh c) (fhalf * fchw c) (fhalf * fchh c).
Definition fsec (c : fcell) : fcell :=
  mkFCell (fcx c + fhalf * fchw c) (fcy c + fhalf * fchh c) (fhalf * fchw c) (fhalf * fchh c).

Definition fchildren (c : fcell) : list fcell := [fnwc c; fnec c; fswc c; fsec c].

(* which child: 0 = NW, 1 = NE, 2 = SW, 3 = SE (anything else: the cell itself) *)
Definition fchild (k : nat) (c : fcell) : fcell :=
  match k with
  | 0%nat => fnwc c | 1%nat => fnec c | 2%nat => fswc c | 3%nat => fsec c
  | _ => c
  end.

(* the cell reached from `c` by a sequence of child choices *)
Fixpoint fdescend (path : list nat) (c : fcell) : fcell :=
  match path with
  | [] => c
  | k :: rest => fdescend rest (fchild k c)
  end.

(* "the cell accepts the point and none of its four children does": what makes insert() of a point that the cell
   has already counted (cum_size++, centre of mass updated) come back with `return false`, and what makes
   subdivide() lose the stored point (it ignores `success`) *)
Definition fcrack (c : fcell) (p : fpt) : bool :=
  fcontains c p && negb (existsb (fun k => fcontains k p) (fchildren c)).

(* the first child, in the order the code tries them, whose box accepts the point *)
Definition ffirst_child (c : fcell) (p : fpt) : option nat :=
  if fcontains (fnwc c) p then Some 0%nat
  else if fcontains (fnec c) p then Some 1%nat
  else if fcontains (fswc c) p then Some 2%nat
  else if fcontains (fsec c) p then Some 3%nat
  else None.

(* ---- bit-exact interface with the check (checks/c18.py writes a .v file with hex float literals) ---- *)

(* equality of doubles as bit patterns, up to the sign of zero and with NaN = NaN (the dump prints %a) *)
Definition fsame (a b : float) : bool :=
  match PrimFloat.compare a b with
  | FEq => true
  | FNotComparable => PrimFloat.is_nan a && PrimFloat.is_nan b
  | _ => false
  end.
Definition fcell_same (a b : fcell) : bool :=
  fsame (fcx a) (fcx b) && fsame (fcy a) (fcy b) && fsame (fchw a) (fchw b) && fsame (fchh a) (fchh b).

(* the four dumped children of a dumped internal cell are what the model computes from the dumped parent box *)
Definition fchildren_same (parent : fcell) (kids : list fcell) : bool :=
  match kids with
  | [a; b; c; d] => fcell_same (fnwc parent) a && fcell_same (fnec parent) b &&
                    fcell_same (fswc parent) c && fcell_same (fsec parent) d
  | _ => false
  end.

(* one record per internal cell of a real dump: (parent box, the four dumped child boxes) *)
Definition fnode : Type := (fcell * list fcell)%type.

(* per case: are all children boxes the model's; the (cell number, point number) pairs that are cracks;
   the containment matrix row by row (cells x points) as the harness prints it *)
Definition fcase_children_ok (nodes : list fnode) : bool :=
  forallb (fun n => fchildren_same (fst n) (snd n)) nodes.

Fixpoint findices {A} (f : A -> bool) (l : list A) (k : nat) : list nat :=
  match l with
  | [] => []
  | a :: r => if f a then k :: findices f r (S k) else findices f r (S k)
  end.

Definition fcase_cracks (nodes : list fnode) (pts : list fpt) : list (nat * list nat) :=
  filter (fun r => negb (match snd r with [] => true | _ => false end))
         (combine (seq 0 (length nodes)) (map (fun n => findices (fcrack (fst n)) pts 0) nodes)).

Definition fcase_contains (cells : list fcell) (pts : list fpt) : list (list nat) :=
  map (fun c => findices (fcontains c) pts 0) cells.
