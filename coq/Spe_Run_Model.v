(* Spe_Run_Model.v — the coordinate side of the whole main loop of spe_embedding (definitions only):
   iteration t takes the pairs chosen by the index bookkeeping (Spe_Model.spe_indices) and the norms
   D[j] (value oracles), forms Rt[j] = alpha * distance(pair j), applies the batched update
   Spe_Model.spe_step with the current lambda and then decays lambda. *)
Require Import List Arith.
From TK Require Import Mat_Sums Mat_Core Spe_Model.
Import ListNotations.

Section Run.
  Context {F : Type} {Fo : FieldOps F} {Ff : IsField F}.
  Local Open Scope F_scope.

  Record step_in := { s_pairs : list (nat * nat); s_norms : list F }.

  (* Rt.fill(alpha) (global) / Rt.fill(1) (local); Rt[j] *= callback.distance(ind1[j], ind2[j]) *)
  Definition targets (alpha : F) (R : nat -> nat -> F) (ps : list (nat * nat)) : list F :=
    map (fun p => alpha * R (fst p) (snd p)) ps.

  Fixpoint spe_coords (T : nat) (tol alpha : F) (R : nat -> nat -> F) (steps : list step_in)
           (lam : F) (Y : pts) : pts :=
    match steps with
    | [] => Y
    | s :: rest =>
      spe_coords T tol alpha R rest (lambda_next T lam)
                 (spe_step lam tol (s_pairs s) (targets alpha R (s_pairs s)) (s_norms s) Y)
    end.

  (* the run of spe_embedding after initialisation: indices from the index model, norms from the oracle *)
  Definition spe_embedding_run (old global : bool) (nbrs : list (list nat)) (nupd N : nat)
             (its : list iter_in) (norms : list (list F)) (tol alpha : F) (R : nat -> nat -> F)
             (Y0 : pts) : res pts :=
    bind (spe_indices old global nbrs nupd N its) (fun outs =>
    Ok (spe_coords (length its) tol alpha R
                   (map (fun on => {| s_pairs := o_pairs (fst on); s_norms := snd on |}) (combine outs norms))
                   fone Y0)).
End Run.
