(* ====================================================================== *)
(*  Equiv_Proof_Exec.v — C12:                                              *)
(*   1. the list-level (extracted) entry points of Equiv_Model.v compute   *)
(*      the tables of the functions the theorems are about;                *)
(*   2. soundness of the boolean relation checkers of Equiv_SpecExec.v     *)
(*      and of the permutation check perm_list_b;                          *)
(*   3. witnesses at Qc: NPE and LPP are NOT translation invariant (every  *)
(*      valid oracle answer gives different embedding distances); the      *)
(*      `neighbors[0].size()` consumer depends on the sample order when    *)
(*      the lists have unequal lengths (pre-F1/F2 hazard); the pre-F8      *)
(*      covariance matrix is not rotation covariant;                       *)
(*   4. satisfiability of the hypotheses used in Properties_C12.v.         *)
(* ====================================================================== *)
Require Import Field Ring Arith Lia List Bool ZArith QArith Qcanon Permutation.
From TK Require Import Mat_Sums Mat_Core Mat_Qc Equiv_Model Equiv_Spec Equiv_SpecExec
                       Equiv_Proof_Perm Equiv_Proof_Rigid Equiv_Proof_Spectral Equiv_Proof_Affine.
Import ListNotations.
Local Open Scope nat_scope.

(* ====================================================================== *)
(* 1. exec bridges (any field)                                             *)
(* ====================================================================== *)
Section Bridges.
  Context {F : Type} {Fo : FieldOps F} {Ff : IsField F}.
  Add Field EquivExecField : (@Fth F Fo Ff).
  Local Open Scope F_scope.

  Lemma center_exec_ok n (L : list (list F)) :
    center_exec n L = mtab n n (center_matrix n (mof L)).
  Proof.
    unfold center_exec. apply mtab_ext. intros i j Hi Hj. unfold center_matrix.
    rewrite !vof_vtab by assumption. reflexivity.
  Qed.

  Lemma mds_matrix_exec_ok n (Ld : list (list F)) :
    mds_matrix_exec n Ld = mtab n n (mds_matrix n (mof Ld)).
  Proof.
    unfold mds_matrix_exec. apply mtab_ext. intros i j Hi Hj. unfold mds_matrix.
    rewrite !vof_vtab by assumption.
    rewrite <- (center_matrix_meq n _ _ (mof_mtab_meq n n (dist_sq_matrix (mof Ld))) i j Hi Hj).
    reflexivity.
  Qed.

  Lemma kpca_matrix_exec_ok n (Lk : list (list F)) :
    kpca_matrix_exec n Lk = mtab n n (kpca_matrix n (mof Lk)).
  Proof.
    unfold kpca_matrix_exec. rewrite center_exec_ok. apply mtab_ext. unfold kpca_matrix.
    apply center_matrix_meq. apply mof_mtab_meq.
  Qed.

  Lemma isomap_matrix_exec_ok n (LG : list (list F)) :
    isomap_matrix_exec n LG = mtab n n (isomap_matrix n (mof LG)).
  Proof.
    unfold isomap_matrix_exec. apply mtab_ext. intros i j Hi Hj. unfold isomap_matrix.
    rewrite !vof_vtab by assumption.
    rewrite <- (center_matrix_meq n _ _ (mof_mtab_meq n n (sym_avg (geo_sq (mof LG)))) i j Hi Hj).
    reflexivity.
  Qed.

  Lemma mean_exec_ok n D (LX : list (list F)) :
    mean_exec n D LX = vtab D (mean_vec n (mof LX)).
  Proof. reflexivity. Qed.

  Lemma cov_upper_exec_ok n D (LX : list (list F)) :
    cov_upper_exec n D LX = mtab D D (cov_upper n (mof LX)).
  Proof.
    unfold cov_upper_exec. apply mtab_ext. intros a b Ha Hb. rewrite cov_upper_entry.
    rewrite !vof_vtab by assumption. destruct (Nat.leb a b); [reflexivity|].
    rewrite (Fdiv_def Fth). ring.
  Qed.

  Lemma cov_exec_ok n D (LX : list (list F)) :
    cov_exec n D LX = mtab D D (sym_from_upper (cov_upper n (mof LX))).
  Proof.
    unfold cov_exec. rewrite cov_upper_exec_ok. apply mtab_ext. intros a b Ha Hb.
    unfold sym_from_upper, read_upper. destruct (Nat.leb a b); apply mof_mtab; assumption.
  Qed.

  (* ... which is the covariance matrix, and also what the dense solver sees after its
     own (M + M^T)/2 *)
  Lemma cov_exec_is_cov_full n D (LX : list (list F)) :
    of_nat n <> 0 -> cov_exec n D LX = mtab D D (cov_full n (mof LX)).
  Proof.
    intros Hn. rewrite cov_exec_ok. apply mtab_ext. intros a b _ _.
    unfold sym_from_upper. apply read_upper_cov_upper. exact Hn.
  Qed.

  Lemma project_exec_ok n D d LP Lm (LX : list (list F)) :
    project_exec n D d LP Lm LX = mtab n d (project D (mof LP) (vof Lm) (mof LX)).
  Proof. reflexivity. Qed.

  Lemma lin_kernel_exec_ok n D (LX : list (list F)) :
    lin_kernel_exec n D LX = mtab n n (lin_kernel D (mof LX)).
  Proof. reflexivity. Qed.
End Bridges.

(* ====================================================================== *)
(* 2. the permutation check and the relation checkers                      *)
(* ====================================================================== *)
Lemma index_of_nth_in x l : In x l -> index_of x l < length l /\ nth (index_of x l) l x = x.
Proof.
  induction l as [|y r IH]; intros Hin; [destruct Hin|].
  cbn [index_of]. destruct (Nat.eqb x y) eqn:E.
  - apply Nat.eqb_eq in E. subst y. cbn. split; [lia|reflexivity].
  - destruct Hin as [->|Hin]; [rewrite Nat.eqb_refl in E; discriminate|].
    destruct (IH Hin) as [H1 H2]. cbn [length nth]. split; [lia|exact H2].
Qed.

Theorem perm_list_b_sound n l :
  perm_list_b n l = true -> is_bij n (perm_inv_fun l) (qfun l).
Proof.
  unfold perm_list_b. rewrite andb_true_iff, Nat.eqb_eq, forallb_forall.
  intros [Hlen Hall].
  assert (Hq : forall i, i < n -> qfun l i < n /\ index_of (qfun l i) l = i).
  { intros i Hi. assert (Hin : In i (seq 0 n)) by (apply in_seq; lia).
    specialize (Hall i Hin). apply andb_true_iff in Hall. destruct Hall as [H1 H2].
    apply Nat.ltb_lt in H1. apply Nat.eqb_eq in H2.
    unfold qfun. rewrite (nth_indep l i n) by lia. split; assumption. }
  assert (Hnd : NoDup l).
  { apply (NoDup_nth l n). intros i j Hi Hj E. rewrite Hlen in Hi, Hj.
    destruct (Hq i Hi) as [_ Ei]. destruct (Hq j Hj) as [_ Ej].
    unfold qfun in Ei, Ej. rewrite (nth_indep l i n) in Ei by lia.
    rewrite (nth_indep l j n) in Ej by lia. rewrite E in Ei. lia. }
  assert (Hperm : Permutation l (seq 0 n)).
  { apply NoDup_Permutation_bis; [exact Hnd|rewrite seq_length; lia|].
    intros x Hx. apply (In_nth l x n) in Hx. destruct Hx as (i & Hi & <-).
    rewrite Hlen in Hi. destruct (Hq i Hi) as [H1 _]. unfold qfun in H1.
    rewrite (nth_indep l i n) in H1 by lia. apply in_seq. lia. }
  assert (Hin : forall j, j < n -> In j l).
  { intros j Hj. apply (Permutation_in j (Permutation_sym Hperm)). apply in_seq. lia. }
  unfold is_bij. split; [|split; [|split]].
  - intros j Hj. unfold perm_inv_fun. destruct (index_of_nth_in j l (Hin j Hj)) as [H1 _]. lia.
  - intros i Hi. apply Hq. exact Hi.
  - intros j Hj. unfold perm_inv_fun, qfun.
    destruct (index_of_nth_in j l (Hin j Hj)) as [H1 H2].
    rewrite (nth_indep l _ j) by exact H1. exact H2.
  - intros i Hi. unfold perm_inv_fun. apply Hq. exact Hi.
Qed.

Lemma rel_perm_tab_b_sound n ql M M' :
  rel_perm_tab_b n ql M M' = true -> meq n n (mof M') (pact (qfun ql) (mof M)).
Proof. apply meq_by_compute. Qed.

Lemma rel_perm_rows_b_sound n d ql Y Y' :
  rel_perm_rows_b n d ql Y Y' = true -> rows_permuted n d (qfun ql) (mof Y) (mof Y').
Proof. intros H i c Hi Hc. exact (meq_by_compute n d _ _ H i c Hi Hc). Qed.

Lemma rel_eq_tab_b_sound n m M M' :
  rel_eq_tab_b n m M M' = true -> meq n m (mof M') (mof M).
Proof. apply meq_by_compute. Qed.

Lemma rel_scale_tab_b_sound n m c M M' :
  rel_scale_tab_b n m c M M' = true -> meq n m (mof M') (mscale c (mof M)).
Proof. apply meq_by_compute. Qed.

Lemma rel_conj_tab_b_sound D R C C' :
  rel_conj_tab_b D R C C' = true -> meq D D (mof C') (conj_R D (mof R) (mof C)).
Proof.
  intros H a b Ha Hb. rewrite (meq_by_compute D D _ _ H a b Ha Hb). symmetry. apply conj_R_mmul.
Qed.

Lemma orth_b_sound D R : orth_b D R = true -> orthogonal D (mof R).
Proof. apply meq_by_compute. Qed.

(* ====================================================================== *)
(* 3. witnesses                                                             *)
(* ====================================================================== *)
Section OneDim.
  Context {F : Type} {Fo : FieldOps F} {Ff : IsField F}.
  Add Field EquivOneDimField : (@Fth F Fo Ff).
  Local Open Scope F_scope.

  (* one feature, one target dimension: the normalisation P^T B P = I pins P^2 *)
  Lemma geig_1d (A B P : mat F) lam :
    geig_answer 1 1 A B P lam -> P 0%nat 0%nat * P 0%nat 0%nat * B 0%nat 0%nat = 1.
  Proof.
    intros (_ & Hn). specialize (Hn 0%nat 0%nat (Nat.lt_0_1) (Nat.lt_0_1)).
    unfold mmul, mtrans, mI, delta in Hn. cbn [sumn Nat.eqb] in Hn. rewrite <- Hn. ring.
  Qed.

  Lemma emb_1d (P : mat F) m (X : mat F) i j :
    emb_sq_dist 1 (project 1 P m X) i j =
    P 0%nat 0%nat * P 0%nat 0%nat * ((X i 0%nat - X j 0%nat) * (X i 0%nat - X j 0%nat)).
  Proof. unfold emb_sq_dist, project. cbn [sumn]. ring. Qed.

  (* if two valid answers gave the same embedding distance, the two right-hand sides
     would agree (distance * B = (x_i - x_j)^2 on both sides) *)
  Lemma one_dim_distance_pins_rhs (A B A' B' P P' : mat F) lam lam' m m' (X X' : mat F) i j :
    geig_answer 1 1 A B P lam -> geig_answer 1 1 A' B' P' lam' ->
    X' i 0%nat - X' j 0%nat = X i 0%nat - X j 0%nat ->
    emb_sq_dist 1 (project 1 P' m' X') i j = emb_sq_dist 1 (project 1 P m X) i j ->
    (X i 0%nat - X j 0%nat) * (X i 0%nat - X j 0%nat) * B 0%nat 0%nat
    = (X i 0%nat - X j 0%nat) * (X i 0%nat - X j 0%nat) * B' 0%nat 0%nat.
  Proof.
    intros Ha Ha' Hd He. rewrite !emb_1d, Hd in He.
    pose proof (geig_1d _ _ _ _ Ha) as H1. pose proof (geig_1d _ _ _ _ Ha') as H2.
    set (dx := (X i 0%nat - X j 0%nat) * (X i 0%nat - X j 0%nat)) in *.
    transitivity (dx * B 0%nat 0%nat * (P' 0%nat 0%nat * P' 0%nat 0%nat * B' 0%nat 0%nat)).
    - rewrite H2. ring.
    - transitivity ((P' 0%nat 0%nat * P' 0%nat 0%nat * dx) * B 0%nat 0%nat * B' 0%nat 0%nat); [ring|].
      rewrite He.
      transitivity (dx * B' 0%nat 0%nat * (P 0%nat 0%nat * P 0%nat 0%nat * B 0%nat 0%nat)); [ring|].
      rewrite H1. ring.
  Qed.
End OneDim.

Local Open Scope F_scope.
Ltac qc := first [ apply (proj1 (qeqb_ok _ _)); vm_compute; reflexivity | vm_compute; reflexivity ].

(* two samples 3 and 4 on a line, moved by t = 17 to 20 and 21:
   sum x^2 = 25 = 5^2  before,  841 = 29^2  after *)
Definition w_X : mat Qc := fun i _ => match i with 0%nat => qz 3 | _ => qz 4 end.
Definition w_t : vec Qc := fun _ => qz 17.
Definition w_W0 : mat Qc := fun _ _ => 0.
Definition w_P (v : Qc) : mat Qc := fun _ _ => v.
Definition w_lam (v : Qc) : vec Qc := fun _ => v.

Lemma Qc_neq_by_compute (x y : Qc) : Qc_eq_bool x y = false -> x <> y.
Proof.
  intros H E. subst y. unfold Qc_eq_bool in H. destruct (Qc_eq_dec x x) as [_|N]; [discriminate|].
  apply N. reflexivity.
Qed.

Theorem npe_translation_refuted_Qc :
  exists (n D d : nat) (W X : mat Qc) (t : vec Qc),
    zero_row_col_sums n W /\
    (exists P lam, geig_answer D d (pencil_lhs n W X) (npe_rhs n X) P lam) /\
    (exists P' lam', geig_answer D d (pencil_lhs n W (translate t X)) (npe_rhs n (translate t X)) P' lam') /\
    forall P lam P' lam',
      geig_answer D d (pencil_lhs n W X) (npe_rhs n X) P lam ->
      geig_answer D d (pencil_lhs n W (translate t X)) (npe_rhs n (translate t X)) P' lam' ->
      emb_sq_dist d (project D P' (mean_vec n (translate t X)) (translate t X)) 0 1
      <> emb_sq_dist d (project D P (mean_vec n X) X) 0 1.
Proof.
  exists 2%nat, 1%nat, 1%nat, w_W0, w_X, w_t. split; [|split; [|split]].
  - split; intros r _; qc.
  - exists (w_P (qfrac 1 5)), (w_lam 0). split.
    + intros a c Ha Hc. assert (a = 0%nat) by lia. assert (c = 0%nat) by lia. subst.
      qc.
    + intros a c Ha Hc. assert (a = 0%nat) by lia. assert (c = 0%nat) by lia. subst.
      qc.
  - exists (w_P (qfrac 1 29)), (w_lam 0). split.
    + intros a c Ha Hc. assert (a = 0%nat) by lia. assert (c = 0%nat) by lia. subst.
      qc.
    + intros a c Ha Hc. assert (a = 0%nat) by lia. assert (c = 0%nat) by lia. subst.
      qc.
  - intros P lam P' lam' Ha Ha' He.
    assert (Hd : translate w_t w_X 0%nat 0%nat - translate w_t w_X 1%nat 0%nat
                 = w_X 0%nat 0%nat - w_X 1%nat 0%nat) by qc.
    pose proof (one_dim_distance_pins_rhs _ _ _ _ _ _ _ _ _ _ w_X (translate w_t w_X) 0%nat 1%nat
                  Ha Ha' Hd He) as Hc.
    revert Hc. apply Qc_neq_by_compute. qc.
Qed.

(* LPP: the graph with the single edge {0,1} of heat weight 1: Laplacian L = [[1,-1],[-1,1]],
   degrees D = (1,1); rhs = sum_i D_i x_i x_i^T is not centred either *)
Definition w_L : mat Qc := fun i j => if Nat.eqb i j then 1 else - (1).
Definition w_Dg : vec Qc := fun _ => 1.

Theorem lpp_translation_refuted_Qc :
  exists (n D d : nat) (L X : mat Qc) (Dg t : vec Qc),
    zero_row_col_sums n L /\
    (exists P lam, geig_answer D d (pencil_lhs n L X) (lpp_rhs n Dg X) P lam) /\
    (exists P' lam', geig_answer D d (pencil_lhs n L (translate t X)) (lpp_rhs n Dg (translate t X)) P' lam') /\
    forall P lam P' lam',
      geig_answer D d (pencil_lhs n L X) (lpp_rhs n Dg X) P lam ->
      geig_answer D d (pencil_lhs n L (translate t X)) (lpp_rhs n Dg (translate t X)) P' lam' ->
      emb_sq_dist d (project D P' (mean_vec n (translate t X)) (translate t X)) 0 1
      <> emb_sq_dist d (project D P (mean_vec n X) X) 0 1.
Proof.
  exists 2%nat, 1%nat, 1%nat, w_L, w_X, w_Dg, w_t. split; [|split; [|split]].
  - split; intros r Hr; destruct r as [|[|r]]; try lia; qc.
  - exists (w_P (qfrac 1 5)), (w_lam (qfrac 2 25)). split.
    + intros a c Ha Hc. assert (a = 0%nat) by lia. assert (c = 0%nat) by lia. subst.
      qc.
    + intros a c Ha Hc. assert (a = 0%nat) by lia. assert (c = 0%nat) by lia. subst.
      qc.
  - exists (w_P (qfrac 1 29)), (w_lam (qfrac 2 841)). split.
    + intros a c Ha Hc. assert (a = 0%nat) by lia. assert (c = 0%nat) by lia. subst.
      qc.
    + intros a c Ha Hc. assert (a = 0%nat) by lia. assert (c = 0%nat) by lia. subst.
      qc.
  - intros P lam P' lam' Ha Ha' He.
    assert (Hd : translate w_t w_X 0%nat 0%nat - translate w_t w_X 1%nat 0%nat
                 = w_X 0%nat 0%nat - w_X 1%nat 0%nat) by qc.
    pose proof (one_dim_distance_pins_rhs _ _ _ _ _ _ _ _ _ _ w_X (translate w_t w_X) 0%nat 1%nat
                  Ha Ha' Hd He) as Hc.
    revert Hc. apply Qc_neq_by_compute. qc.
Qed.

(* the `k = neighbors[0].size()` consumer: lists of unequal length (what the searches
   returned before F1/F2 when many samples coincide): in one order every row is long
   enough, in the other order a row is indexed past its end *)
Definition w_nb : nat -> list nat :=
  fun a => match a with 0%nat => [1%nat] | 1%nat => [0%nat; 2%nat] | _ => [1%nat; 0%nat] end.
Definition w_swap : nat -> nat := fun i => match i with 0%nat => 1%nat | 1%nat => 0%nat | _ => i end.

Theorem laplacian_first_row_order_refuted :
  exists n nb p q, is_bij n p q /\ rows_in_range n nb /\
    rows_in_bounds n nb = true /\ rows_in_bounds n (pnbrs p q nb) = false.
Proof.
  exists 3%nat, w_nb, w_swap, w_swap. split; [|split; [|split]].
  - unfold is_bij. repeat split; intros i Hi; destruct i as [|[|[|i]]]; cbn; lia.
  - intros a b Ha Hb. destruct a as [|[|[|a]]]; try lia; cbn in Hb; intuition lia.
  - qc.
  - qc.
Qed.

(* pre-F8 covariance (off-diagonals halved) is not covariant under the reflection
   R = I - (1/2) 1 1^T of R^4 *)
Definition w_R4 : mat Qc := fun a b => (if Nat.eqb a b then 1 else 0) - qfrac 1 2.
Definition w_X4 : mat Qc := fun i a => match a with 0%nat => (match i with 0%nat => 1 | _ => - (1) end) | _ => 0 end.

Theorem pca_pre_f8_orthogonal_refuted :
  exists n D (R X : mat Qc) a b, orthogonal D R /\ a < D /\ b < D /\
    pca_matrix_shipped n (rotate D R X) a b <> conj_R D R (pca_matrix_shipped n X) a b.
Proof.
  exists 2%nat, 4%nat, w_R4, w_X4, 0%nat, 1%nat. split; [|split; [lia|split; [lia|]]].
  - apply meq_by_compute. qc.
  - apply Qc_neq_by_compute. qc.
Qed.

(* ... while the current matrix is (instance of cov_full_rotate, shown on the same data) *)
Example pca_current_orthogonal_on_witness :
  meq 4 4 (pca_matrix_fixed 2 (rotate 4 w_R4 w_X4)) (conj_R 4 w_R4 (pca_matrix_fixed 2 w_X4)).
Proof. apply meq_by_compute. qc. Qed.

(* LLTSA: before F25lltsa the left-hand side carried -(1/n) s s^T; at 51d934e it still carries
   eps X X^T from the nullspace shift on the diagonal of the alignment matrix: in both cases the
   pencil handed to the solver moves under a translation although the right-hand side does not.
   Witness: three samples 0, 1, 3 on a line moved by 10, alignment matrix 0, eps = 1. *)
Definition w_X3 : mat Qc := fun i _ => match i with 0%nat => 0 | 1%nat => 1 | _ => qz 3 end.
Definition w_t10 : vec Qc := fun _ => qz 10.

Theorem lltsa_pre_f25_pencil_moves :
  exists n (W X : mat Qc) (t : vec Qc), zero_row_col_sums n W /\
    lltsa_lhs_shipped n W (translate t X) 0%nat 0%nat <> lltsa_lhs_shipped n W X 0%nat 0%nat /\
    lltsa_rhs n (translate t X) 0%nat 0%nat = lltsa_rhs n X 0%nat 0%nat.
Proof.
  exists 3%nat, w_W0, w_X3, w_t10. split; [|split].
  - split; intros r _; qc.
  - apply Qc_neq_by_compute. vm_compute. reflexivity.
  - qc.
Qed.

Theorem lltsa_f25_shift_pencil_moves :
  exists n (eps : Qc) (W X : mat Qc) (t : vec Qc), zero_row_col_sums n W /\
    lltsa_lhs_f25 n eps W (translate t X) 0%nat 0%nat <> lltsa_lhs_f25 n eps W X 0%nat 0%nat /\
    lltsa_rhs n (translate t X) 0%nat 0%nat = lltsa_rhs n X 0%nat 0%nat /\
    lltsa_lhs_f42 n (shift_diag eps W) (translate t X) 0%nat 0%nat
      = lltsa_lhs_f42 n (shift_diag eps W) X 0%nat 0%nat.
Proof.
  exists 3%nat, 1, w_W0, w_X3, w_t10. split; [|split; [|split]].
  - split; intros r _; qc.
  - apply Qc_neq_by_compute. vm_compute. reflexivity.
  - qc.
  - qc.
Qed.

(* ====================================================================== *)
(* 4. the hypotheses of the positive theorems are satisfiable               *)
(* ====================================================================== *)
Example nv_bij : is_bij 4 (perm_inv_fun [2;0;3;1]%nat) (qfun [2;0;3;1]%nat).
Proof. apply perm_list_b_sound. qc. Qed.

Example nv_orthogonal : orthogonal 4 w_R4 /\ w_R4 0%nat 1%nat <> 0.
Proof.
  split; [apply meq_by_compute; qc|].
  apply Qc_neq_by_compute. qc.
Qed.

(* a valid oracle answer: G = diag(4,1,0), d = 2: V = (e0 e1), lam = (4,1); sqrt values 2, 1 *)
Definition w_G : mat Qc := fun i j => if Nat.eqb i j then (match i with 0%nat => qz 4 | 1%nat => 1 | _ => 0 end) else 0.
Definition w_V : mat Qc := fun i c => if Nat.eqb i c then 1 else 0.
Definition w_ev : vec Qc := fun c => match c with 0%nat => qz 4 | _ => 1 end.
Definition w_sq : vec Qc := fun c => match c with 0%nat => qz 2 | _ => 1 end.

Example nv_eig_answer :
  eig_answer 3 2 w_G w_V w_ev /\ (forall k, k < 2 -> w_sq k * w_sq k = w_ev k).
Proof.
  split; [split|].
  - intros i c Hi Hc. destruct i as [|[|[|i]]]; try lia; destruct c as [|[|c]]; try lia;
      qc.
  - apply meq_by_compute. qc.
  - intros k Hk. destruct k as [|[|k]]; try lia; qc.
Qed.

Example nv_uniform_rows :
  uniform_rows 3 2 (fun a => match a with 0%nat => [1;2] | 1%nat => [0;2] | _ => [1;0] end)%nat /\
  rows_in_range 3 (fun a => match a with 0%nat => [1;2] | 1%nat => [0;2] | _ => [1;0] end)%nat.
Proof.
  split.
  - intros a Ha. destruct a as [|[|[|a]]]; try lia; reflexivity.
  - intros a b Ha Hb. destruct a as [|[|[|a]]]; try lia; cbn in Hb; intuition lia.
Qed.

Example nv_sizes : @of_nat Qc QcOps 8 <> 0 /\ @two Qc QcOps <> 0.
Proof. split; [apply Qc_of_nat_neq0; lia|apply Qc_two_neq0]. Qed.
