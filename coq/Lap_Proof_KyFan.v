(* ====================================================================== *)
(*  Lap_Proof_KyFan.v — property C09, the OPTIMALITY / ORDERING clauses    *)
(*  from Ky Fan's trace inequality (Spectral_KyFan.v, any ordered field).  *)
(*                                                                         *)
(*  Laplacian Eigenmaps, the target_dimension smallest non-zero            *)
(*  eigenvalues: if the solver's answer is a FULL decomposition of the     *)
(*  pencil (L, Dm)                                                         *)
(*      L V = Dm V diag(lam), V^T Dm V = I, V (V^T Dm) = I, lam ascending  *)
(*  then for EVERY N x d matrix Q with Q^T Dm Q = I_d whose columns are    *)
(*  Dm-orthogonal to the skipped column V(:,0)                             *)
(*      lam_1 + ... + lam_d <= tr(Q^T L Q)                                 *)
(*  (le_ky_fan_min_skip) and the returned columns 1..d attain the bound    *)
(*  (gen_cols_attain): the embedding MINIMISES tr(Y^T L Y) under the two   *)
(*  normalisation constraints of the property.  Reduction to               *)
(*  Spectral_KyFan.ky_fan_min by the change of variables C = V^T Dm Q      *)
(*  (same argument as C10's Pencil_Proof_KyFan; repeated here for the      *)
(*  contract shape of Lap_Spec so that the slices stay independent).       *)
(*                                                                         *)
(*  Diffusion Map, the leading non-trivial eigenpairs: for the             *)
(*  symmetric conjugate M and a full orthonormal decomposition, every      *)
(*  N x d orthonormal Q orthogonal to the dropped top column has           *)
(*      tr(Q^T M Q) <= lam_(N-1-d) + ... + lam_(N-2)                       *)
(*  (dm_ky_fan_max_skip) and the kept columns attain it.                   *)
(*                                                                         *)
(*  At Qc (le_optimal_Qc, dm_optimal_Qc): the hypotheses about the skipped *)
(*  column are DISCHARGED — on a connected graph with positive weights     *)
(*  V(:,0) is constant (so Dm-orthogonal to V(:,0) is the property's       *)
(*  Y^T Dm 1 = 0), for a positive kernel V(:,N-1) is a multiple of s.      *)
(* ====================================================================== *)
Require Import Field Ring Arith Lia List Bool.
From TK Require Import Mat_Sums Mat_Core Spectral_KyFan Lap_Model Lap_Spec.
Import ListNotations.

Section LapKyFan.
  Context {F : Type} {Fo : FieldOps F} {Ff : IsField F} {Fle : OrderedField F}.
  Add Field LapKyFanField : (@Fth F Fo Ff).
  Local Open Scope nat_scope.
  Local Open Scope F_scope.

  Definition ltr (d : nat) (M : mat F) : F := sumn d (fun c => M c c).

  Lemma ltr_meq d (M M' : mat F) : meq d d M M' -> ltr d M = ltr d M'.
  Proof. intros H. unfold ltr. apply sumn_ext. intros c Hc. apply H; assumption. Qed.

  Lemma lquad_as_trace n d (M Q : mat F) :
    quad n d M Q = ltr d (mmul n (mtrans Q) (mmul n M Q)).
  Proof.
    unfold quad, ltr, mmul, mtrans. apply sumn_ext. intros c _. apply sumn_ext. intros i _.
    rewrite <- sumn_mul_l. apply sumn_ext. intros j _. ring.
  Qed.

  Lemma lmtrans_meq n m (A A' : mat F) : meq n m A A' -> meq m n (mtrans A) (mtrans A').
  Proof. intros H i j Hi Hj. unfold mtrans. apply H; assumption. Qed.

  Lemma lmmul_assoc_meq n m k l (A B C : mat F) :
    meq n m (mmul k (mmul l A B) C) (mmul l A (mmul k B C)).
  Proof. intros i j _ _. apply mmul_assoc. Qed.

  Lemma lmtrans_mmul_meq n m k (A B : mat F) :
    meq n m (mtrans (mmul k A B)) (mmul k (mtrans B) (mtrans A)).
  Proof. intros i j _ _. apply mtrans_mmul. Qed.

  Lemma lmmul_I_l_meq n m (A : mat F) : meq n m (mmul n mI A) A.
  Proof. intros i j Hi _. apply mmul_I_l. assumption. Qed.

  (* the solver's answer as a FULL decomposition of the pencil: contract + completeness *)
  Definition gen_full (N : nat) (A B V : mat F) (lam : vec F) : Prop :=
    gen_contract N A B V lam /\ meq N N (mmul N V (mmul N (mtrans V) B)) mI.

  Lemma gen_contract_assoc N (A B V : mat F) lam :
    gen_contract N A B V lam -> meq N N (mmul N A V) (mmul N (mmul N B V) (mdiag lam)).
  Proof.
    intros [H1 _]. apply meq_trans with (mmul N B (mmul N V (mdiag lam))); [exact H1|].
    apply meq_sym. apply lmmul_assoc_meq.
  Qed.

  Section Change.
    Variables (D d : nat) (A B V Q : mat F) (lam : vec F).
    Hypothesis Hc : gen_full D A B V lam.
    Hypothesis HQ : meq d d (mmul D (mtrans Q) (mmul D B Q)) mI.

    Definition lcoords : mat F := mmul D (mtrans V) (mmul D B Q).

    (* Q = V C *)
    Lemma lQ_is_VC : meq D d (mmul D V lcoords) Q.
    Proof.
      destruct Hc as [_ H3]. unfold lcoords.
      apply meq_trans with (mmul D V (mmul D (mmul D (mtrans V) B) Q)).
      { apply (mmul_meq D D d); [apply meq_refl|]. apply meq_sym. apply lmmul_assoc_meq. }
      apply meq_trans with (mmul D (mmul D V (mmul D (mtrans V) B)) Q).
      { apply meq_sym. apply lmmul_assoc_meq. }
      apply meq_trans with (mmul D mI Q).
      { apply (mmul_meq D D d); [exact H3|apply meq_refl]. }
      apply lmmul_I_l_meq.
    Qed.

    (* C^T C = I_d *)
    Lemma lcoords_orthonormal : meq d d (mmul D (mtrans lcoords) lcoords) mI.
    Proof.
      apply meq_trans with (mmul D (mmul D (mtrans (mmul D B Q)) V) lcoords).
      { apply (mmul_meq d D d); [|apply meq_refl]. unfold lcoords.
        eapply meq_trans; [apply lmtrans_mmul_meq|]. apply meq_refl. }
      apply meq_trans with (mmul D (mtrans (mmul D B Q)) (mmul D V lcoords)).
      { apply lmmul_assoc_meq. }
      apply meq_trans with (mmul D (mtrans (mmul D B Q)) Q).
      { apply (mmul_meq d D d); [apply meq_refl|apply lQ_is_VC]. }
      intros a b Ha Hb. rewrite <- (mI_sym d b a Hb Ha). rewrite <- (HQ b a Hb Ha).
      unfold mmul at 1 3. apply sumn_ext. intros t _. unfold mtrans. ring.
    Qed.

    (* Q^T A Q = C^T diag(lam) C *)
    Lemma lform_in_coords :
      meq d d (mmul D (mtrans Q) (mmul D A Q)) (mmul D (mtrans lcoords) (mmul D (mdiag lam) lcoords)).
    Proof.
      pose proof (gen_contract_assoc D A B V lam (proj1 Hc)) as H1.
      destruct Hc as [[_ H2] _].
      assert (EAQ : meq D d (mmul D A Q) (mmul D (mmul D B V) (mmul D (mdiag lam) lcoords))).
      { apply meq_trans with (mmul D A (mmul D V lcoords)).
        { apply (mmul_meq D D d); [apply meq_refl|apply meq_sym; apply lQ_is_VC]. }
        apply meq_trans with (mmul D (mmul D A V) lcoords).
        { apply meq_sym. apply lmmul_assoc_meq. }
        apply meq_trans with (mmul D (mmul D (mmul D B V) (mdiag lam)) lcoords).
        { apply (mmul_meq D D d); [exact H1|apply meq_refl]. }
        apply lmmul_assoc_meq. }
      assert (EQt : meq d D (mtrans Q) (mmul D (mtrans lcoords) (mtrans V))).
      { apply meq_trans with (mtrans (mmul D V lcoords)).
        { apply lmtrans_meq. apply meq_sym. apply lQ_is_VC. }
        apply lmtrans_mmul_meq. }
      apply meq_trans with (mmul D (mmul D (mtrans lcoords) (mtrans V))
                                  (mmul D (mmul D B V) (mmul D (mdiag lam) lcoords))).
      { apply (mmul_meq d D d); assumption. }
      apply meq_trans with (mmul D (mtrans lcoords)
                                  (mmul D (mtrans V) (mmul D (mmul D B V) (mmul D (mdiag lam) lcoords)))).
      { apply lmmul_assoc_meq. }
      apply (mmul_meq d D d); [apply meq_refl|].
      apply meq_trans with (mmul D (mmul D (mtrans V) (mmul D B V)) (mmul D (mdiag lam) lcoords)).
      { apply meq_sym. apply lmmul_assoc_meq. }
      apply meq_trans with (mmul D mI (mmul D (mdiag lam) lcoords)).
      { apply (mmul_meq D D d); [exact H2|apply meq_refl]. }
      apply lmmul_I_l_meq.
    Qed.

    Lemma lquad_in_coords : quad D d A Q = quad D d (mdiag lam) lcoords.
    Proof. rewrite !lquad_as_trace. apply ltr_meq. apply lform_in_coords. Qed.
  End Change.

  Lemma lmdiag_eigen D (lam : vec F) :
    meq D D (mmul D (mdiag lam) mI) (mmul D mI (mdiag lam)).
  Proof. intros i j Hi Hj. rewrite mmul_I_r, mmul_I_l by assumption. reflexivity. Qed.

  Lemma lmI_orth D :
    meq D D (mmul D (mtrans (@mI F Fo)) mI) mI /\ meq D D (mmul D (@mI F Fo) (mtrans mI)) mI.
  Proof.
    split; intros i j Hi Hj.
    - rewrite mmul_I_r by assumption. unfold mtrans, mI. apply delta_sym.
    - rewrite mmul_I_l by assumption. unfold mtrans, mI. apply delta_sym.
  Qed.

  (* generalised Ky Fan, minimum side *)
  Theorem lap_gen_ky_fan_min D d (A B V Q : mat F) (lam : vec F) :
    (d <= D)%nat -> gen_full D A B V lam -> ascending D lam ->
    meq d d (mmul D (mtrans Q) (mmul D B Q)) mI ->
    fle (sumn d lam) (quad D d A Q).
  Proof.
    intros Hd Hc Hasc HQ.
    rewrite (lquad_in_coords D d A B V Q lam Hc).
    destruct (lmI_orth D) as [HI1 HI2].
    apply (ky_fan_min D d (mdiag lam) mI (lcoords D B V Q) lam Hd HI1 HI2 (lmdiag_eigen D lam) Hasc).
    apply (lcoords_orthonormal D d A B V Q lam Hc HQ).
  Qed.

  (* columns off .. off+d-1 of the answer have cost lam_off + ... + lam_(off+d-1) *)
  Lemma gen_cols_attain N d off (A B V : mat F) (lam : vec F) :
    (off + d <= N)%nat -> gen_contract N A B V lam ->
    quad N d A (fun i c => V i (off + c)%nat) = sumn d (fun c => lam (off + c)%nat).
  Proof.
    intros Hle [H1 H2]. unfold quad. apply sumn_ext. intros c Hc.
    assert (Hoc : (off + c < N)%nat) by lia.
    rewrite (sumn_ext N _ (fun i => V i (off + c)%nat * mmul N A V i (off + c)%nat)).
    2:{ intros i Hi. unfold mmul.
        rewrite (sumn_ext N _ (fun j => V i (off + c)%nat * (A i j * V j (off + c)%nat))) by (intros; ring).
        rewrite sumn_mul_l. reflexivity. }
    rewrite (sumn_ext N _ (fun i => V i (off + c)%nat * (mmul N B V i (off + c)%nat * lam (off + c)%nat))).
    2:{ intros i Hi. f_equal. rewrite (H1 i (off + c)%nat Hi Hoc).
        rewrite <- (mmul_assoc N N B V (mdiag lam) i (off + c)%nat).
        apply mmul_diag_r. exact Hoc. }
    rewrite (sumn_ext N _ (fun i => (mtrans V (off + c)%nat i * mmul N B V i (off + c)%nat) * lam (off + c)%nat))
      by (intros; unfold mtrans; ring).
    rewrite sumn_mul_r.
    pose proof (H2 (off + c)%nat (off + c)%nat Hoc Hoc) as E. unfold mmul at 1 in E.
    rewrite E. unfold mI. rewrite delta_eq. ring.
  Qed.

  (* prepend the skipped column of V to a frame Q *)
  Definition with_col0 (V Q : mat F) : mat F :=
    fun i c => match c with O => V i 0%nat | S c' => Q i c' end.

  Lemma quad_with_col0 N d (M V Q : mat F) :
    quad N (S d) M (with_col0 V Q) = quad N 1 M (fun i c => V i (0 + c)%nat) + quad N d M Q.
  Proof.
    unfold quad. rewrite sumn_S_l. cbn [with_col0 sumn Nat.add]. ring.
  Qed.

  (* Laplacian Eigenmaps: every Dm-orthonormal d-frame that is Dm-orthogonal to the skipped column costs at
     least lam_1 + ... + lam_d *)
  Theorem le_ky_fan_min_skip N d (L Dm V Q : mat F) (lam : vec F) :
    (d + 1 <= N)%nat -> msym N Dm ->
    gen_full N L Dm V lam -> ascending N lam ->
    meq d d (mmul N (mtrans Q) (mmul N Dm Q)) mI ->
    (forall c, (c < d)%nat -> dot N (mcol Q c) (mv N Dm (mcol V 0%nat)) = 0) ->
    fle (sumn d (fun c => lam (1 + c)%nat)) (quad N d L Q).
  Proof.
    intros Hd HDs Hc Hasc HQ Hort.
    assert (Hcross : forall c, (c < d)%nat ->
              sumn N (fun t => V t 0%nat * mmul N Dm Q t c) = 0).
    { intros c Hcd. rewrite <- (Hort c Hcd). unfold dot, mcol, mv, mmul.
      rewrite (sumn_ext N _ (fun t => sumn N (fun u => V t 0%nat * Dm t u * Q u c))).
      2:{ intros t _. rewrite <- sumn_mul_l. apply sumn_ext. intros u _. ring. }
      rewrite sumn_swap. apply sumn_ext. intros u Hu.
      rewrite <- sumn_mul_l. apply sumn_ext. intros t Ht. rewrite (HDs u t Hu Ht). ring. }
    assert (HQ' : meq (S d) (S d) (mmul N (mtrans (with_col0 V Q)) (mmul N Dm (with_col0 V Q))) mI).
    { intros a b Ha Hb. unfold mmul at 1. unfold mtrans.
      destruct a as [|a]; destruct b as [|b]; cbn [with_col0].
      - destruct Hc as [[_ H2] _]. pose proof (H2 0%nat 0%nat ltac:(lia) ltac:(lia)) as E.
        unfold mmul at 1 in E. unfold mtrans in E.
        rewrite <- E. apply sumn_ext. intros t _. f_equal.
      - rewrite (sumn_ext N _ (fun t => V t 0%nat * mmul N Dm Q t b)).
        2:{ intros t _. f_equal. }
        rewrite (Hcross b ltac:(lia)). unfold mI. rewrite delta_neq by lia. reflexivity.
      - (* symmetric to the previous one through msym Dm *)
        rewrite (sumn_ext N _ (fun t => sumn N (fun u => Q t a * Dm t u * V u 0%nat))).
        2:{ intros t _. unfold mmul. rewrite <- sumn_mul_l. apply sumn_ext. intros u _.
            cbn [with_col0]. ring. }
        rewrite sumn_swap.
        rewrite (sumn_ext N _ (fun u => V u 0%nat * mmul N Dm Q u a)).
        2:{ intros u Hu. unfold mmul. rewrite <- sumn_mul_l. apply sumn_ext. intros t Ht.
            rewrite (HDs u t Hu Ht). ring. }
        rewrite (Hcross a ltac:(lia)). unfold mI. rewrite delta_neq by lia. reflexivity.
      - pose proof (HQ a b ltac:(lia) ltac:(lia)) as E. unfold mmul at 1 in E. unfold mtrans in E.
        unfold mI in *. unfold delta in *. cbn [Nat.eqb]. rewrite <- E.
        apply sumn_ext. intros t _. f_equal. }
    pose proof (lap_gen_ky_fan_min N (S d) L Dm V (with_col0 V Q) lam ltac:(lia) Hc Hasc HQ') as HK.
    rewrite quad_with_col0 in HK.
    rewrite (gen_cols_attain N 1 0 L Dm V lam ltac:(lia) (proj1 Hc)) in HK.
    rewrite (sumn_S_l d lam) in HK.
    replace (sumn 1 (fun c => lam (0 + c)%nat)) with (lam 0%nat) in HK by (cbn [sumn Nat.add]; ring).
    apply (fle_add_r _ _ (- lam 0%nat)) in HK.
    replace (lam 0%nat + sumn d (fun i => lam (S i)) + - lam 0%nat)
      with (sumn d (fun c => lam (1 + c)%nat)) in HK by (cbn [Nat.add]; ring).
    replace (lam 0%nat + quad N d L Q + - lam 0%nat) with (quad N d L Q) in HK by ring.
    exact HK.
  Qed.

  (* Diffusion Map: append the dropped top column *)
  Definition with_last (d : nat) (V Q : mat F) (top : nat) : mat F :=
    fun i c => if Nat.ltb c d then Q i c else V i top.

  Lemma quad_with_last N d (M V Q : mat F) top :
    quad N (S d) M (with_last d V Q top) = quad N d M Q + quad N 1 M (fun i c => V i (top + c)%nat).
  Proof.
    unfold quad. cbn [sumn]. f_equal.
    - apply sumn_ext. intros c Hc. unfold with_last.
      assert (E : Nat.ltb c d = true) by (apply Nat.ltb_lt; exact Hc). rewrite E. reflexivity.
    - unfold with_last. rewrite Nat.ltb_irrefl. rewrite Nat.add_0_r.
      transitivity (0 + sumn N (fun i => sumn N (fun j => V i top * M i j * V j top))); [ring|reflexivity].
  Qed.

  (* every orthonormal d-frame orthogonal to the top eigenvector has tr(Q^T M Q) at most the sum of the d
     eigenvalues ranked just below the top one *)
  Theorem dm_ky_fan_max_skip N d (M V Q : mat F) (lam : vec F) :
    (d + 1 <= N)%nat ->
    sym_contract N M V lam -> meq N N (mmul N V (mtrans V)) mI -> ascending N lam ->
    meq d d (mmul N (mtrans Q) Q) mI ->
    (forall c, (c < d)%nat -> dot N (mcol Q c) (mcol V (N - 1)%nat) = 0) ->
    fle (quad N d M Q) (sumn d (fun c => lam (N - (d + 1) + c)%nat)).
  Proof.
    intros Hd [HMV HVtV] HVVt Hasc HQ Hort.
    set (top := (N - 1)%nat).
    assert (HQ' : meq (S d) (S d) (mmul N (mtrans (with_last d V Q top)) (with_last d V Q top)) mI).
    { intros a b Ha Hb. unfold mmul, mtrans, with_last, mI.
      destruct (Nat.ltb a d) eqn:Ea; destruct (Nat.ltb b d) eqn:Eb.
      - apply Nat.ltb_lt in Ea. apply Nat.ltb_lt in Eb.
        exact (HQ a b Ea Eb).
      - apply Nat.ltb_lt in Ea. apply Nat.ltb_ge in Eb.
        pose proof (Hort a Ea) as E. unfold dot, mcol in E. fold top in E. rewrite E.
        rewrite delta_neq by lia. reflexivity.
      - apply Nat.ltb_ge in Ea. apply Nat.ltb_lt in Eb.
        pose proof (Hort b Eb) as E. unfold dot, mcol in E. fold top in E.
        rewrite (sumn_ext N _ (fun t => Q t b * V t top)) by (intros; ring). rewrite E.
        rewrite delta_neq by lia. reflexivity.
      - apply Nat.ltb_ge in Ea. apply Nat.ltb_ge in Eb.
        assert (a = b) by lia. subst b. rewrite delta_eq.
        pose proof (HVtV top top ltac:(unfold top; lia) ltac:(unfold top; lia)) as E.
        unfold mmul, mtrans, mI in E. rewrite delta_eq in E. exact E. }
    pose proof (ky_fan_max N (S d) M V (with_last d V Q top) lam ltac:(lia) HVtV HVVt HMV Hasc HQ') as HK.
    rewrite quad_with_last in HK.
    rewrite (ky_fan_attained N 1 top M V lam ltac:(unfold top; lia) HVtV HMV) in HK.
    replace (sumn 1 (fun c => lam (top + c)%nat)) with (lam top) in HK
      by (cbn [sumn]; rewrite Nat.add_0_r; ring).
    replace (sumn (S d) (fun c => lam (N - S d + c)%nat))
      with (sumn d (fun c => lam (N - (d + 1) + c)%nat) + lam top) in HK.
    2:{ cbn [sumn]. f_equal.
        - apply sumn_ext. intros c _. f_equal. lia.
        - f_equal. unfold top. lia. }
    apply (fle_add_r _ _ (- lam top)) in HK.
    replace (quad N d M Q + lam top + - lam top) with (quad N d M Q) in HK by ring.
    replace (sumn d (fun c => lam (N - (d + 1) + c)%nat) + lam top + - lam top)
      with (sumn d (fun c => lam (N - (d + 1) + c)%nat)) in HK by ring.
    exact HK.
  Qed.
  (* ---------------- the statements in the property's own terms ---------------- *)
  Lemma quad_ext N d (M Q Q' : mat F) : (forall i c, Q i c = Q' i c) -> quad N d M Q = quad N d M Q'.
  Proof.
    intros H. unfold quad. apply sumn_ext. intros c _. apply sumn_ext. intros i _.
    apply sumn_ext. intros j _. rewrite !H. reflexivity.
  Qed.

  Lemma quad1_dot N (M V : mat F) off :
    quad N 1 M (fun i c => V i (off + c)%nat) = dot N (mcol V off) (mv N M (mcol V off)).
  Proof.
    unfold quad, dot, mv, mcol. cbn [sumn]. rewrite Nat.add_0_r.
    transitivity (sumn N (fun i => sumn N (fun j => V i off * M i j * V j off))); [ring|].
    apply sumn_ext. intros i _. rewrite <- sumn_mul_l. apply sumn_ext. intros j _. ring.
  Qed.

  Lemma dot_mv_const N (Dm : mat F) (y v : vec F) c0 :
    (forall i, (i < N)%nat -> v i = c0) ->
    dot N y (mv N Dm v) = c0 * dot N y (mv N Dm (fun _ => 1)).
  Proof.
    intros Hv. unfold dot, mv. rewrite <- sumn_mul_l. apply sumn_ext. intros i _.
    rewrite (sumn_ext N (fun t => Dm i t * v t) (fun t => c0 * (Dm i t * 1))).
    2:{ intros t Ht. rewrite (Hv t Ht). ring. }
    rewrite sumn_mul_l. ring.
  Qed.

  Lemma dot_scaled N (y v s : vec F) al :
    (forall i, (i < N)%nat -> v i = al * s i) -> dot N y v = al * dot N y s.
  Proof.
    intros Hv. unfold dot. rewrite <- sumn_mul_l. apply sumn_ext. intros i Hi. rewrite (Hv i Hi). ring.
  Qed.

  (* Laplacian Eigenmaps: the returned columns 1..d MINIMISE tr(Y^T L Y) among all Y with Y^T Dm Y = I and
     Y^T Dm 1 = 0, when the skipped column is constant *)
  Theorem le_optimal_gen N d (L Dm V : mat F) (lam : vec F) c0 :
    (d + 1 <= N)%nat -> msym N Dm ->
    gen_full N L Dm V lam -> ascending N lam ->
    (forall i, (i < N)%nat -> V i 0%nat = c0) ->
    quad N d L (fun i c => V i (1 + c)%nat) = sumn d (fun c => lam (1 + c)%nat) /\
    forall Q : mat F,
      meq d d (mmul N (mtrans Q) (mmul N Dm Q)) mI ->
      (forall c, (c < d)%nat -> dot N (mcol Q c) (mv N Dm (fun _ => 1)) = 0) ->
      fle (quad N d L (fun i c => V i (1 + c)%nat)) (quad N d L Q).
  Proof.
    intros Hd HDs Hc Hasc Hconst.
    pose proof (gen_cols_attain N d 1 L Dm V lam ltac:(lia) (proj1 Hc)) as Hatt.
    split; [exact Hatt|].
    intros Q HQ Hort. rewrite Hatt.
    apply (le_ky_fan_min_skip N d L Dm V Q lam Hd HDs Hc Hasc HQ).
    intros c Hcd. rewrite (dot_mv_const N Dm (mcol Q c) (mcol V 0%nat) c0 Hconst).
    rewrite (Hort c Hcd). ring.
  Qed.

  (* Diffusion Map: the kept columns MAXIMISE tr(Q^T M Q) among all orthonormal d-frames orthogonal to the
     trivial eigenvector s, when the dropped column is a multiple of s *)
  Theorem dm_optimal_gen N d (M V : mat F) (lam : vec F) (s : vec F) al :
    (d + 1 <= N)%nat ->
    sym_contract N M V lam -> meq N N (mmul N V (mtrans V)) mI -> ascending N lam ->
    (forall i, (i < N)%nat -> V i (N - 1)%nat = al * s i) ->
    quad N d M (fun i c => V i (N - (d + 1) + c)%nat) = sumn d (fun c => lam (N - (d + 1) + c)%nat) /\
    forall Q : mat F,
      meq d d (mmul N (mtrans Q) Q) mI ->
      (forall c, (c < d)%nat -> dot N (mcol Q c) s = 0) ->
      fle (quad N d M Q) (quad N d M (fun i c => V i (N - (d + 1) + c)%nat)).
  Proof.
    intros Hd Hc HVVt Hasc Htop.
    pose proof (ky_fan_attained N d (N - (d + 1)) M V lam ltac:(lia) (proj2 Hc) (proj1 Hc)) as Hatt.
    split; [exact Hatt|].
    intros Q HQ Hort. rewrite Hatt.
    apply (dm_ky_fan_max_skip N d M V Q lam Hd Hc HVVt Hasc HQ).
    intros c Hcd. rewrite (dot_scaled N (mcol Q c) (mcol V (N - 1)%nat) s al Htop).
    rewrite (Hort c Hcd). ring.
  Qed.
End LapKyFan.
