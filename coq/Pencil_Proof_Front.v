(* ====================================================================== *)
(*  Pencil_Proof_Front.v — property C10 (Wave 2): the dispatch of          *)
(*  generalized_eigendecomposition as the three methods call it            *)
(*  (Pencil_Model.embed_front).  Whatever eigen_method / computation       *)
(*  strategy is requested, the front end EITHER refuses                    *)
(*  (unsupported_method_error) OR runs the dense branch, whose answer is   *)
(*  the property's solution (embed_body_correct): it never returns an      *)
(*  answer computed any other way.                                         *)
(* ====================================================================== *)
From Coq Require Import Field Ring Arith Lia List Bool.
From TK Require Import Mat_Sums Mat_Core Mat_EigSelect Spectral_KyFan Pencil_Model Pencil_Spec
     Pencil_Proof_Sums Pencil_Proof Pencil_Proof_KyFan Pencil_Proof_Embed.

Section Front.
  Context {F : Type} {Fo : FieldOps F} {Ff : IsField F} {Fle : OrderedField F}.
  Local Open Scope nat_scope.

  (* an answer is produced exactly for Dense on the CPU with SmallestEigenvalues, and it is embed_body's *)
  Theorem embed_front_answers em cs es oracle (p : pencil F) D d N (X : mat F) r :
    embed_front em cs es oracle p D d N X = Answer r <->
    em = EMDense /\ cs = CSHomogeneousCPU /\ es = ESSmallest /\ embed_body oracle p D d N X = r.
  Proof.
    unfold embed_front. split.
    - destruct em; [|discriminate]. destruct cs; [|discriminate]. destruct es; try discriminate.
      intros H. injection H as <-. repeat split.
    - intros [-> [-> [-> <-]]]. reflexivity.
  Qed.

  Theorem embed_front_refuses em cs es oracle (p : pencil F) D d N (X : mat F) :
    (em <> EMDense \/ cs <> CSHomogeneousCPU \/ es <> ESSmallest) ->
    exists site, embed_front em cs es oracle p D d N X = Refused site.
  Proof.
    unfold embed_front. intros H.
    destruct em; [|eexists; reflexivity]. destruct cs; [|eexists; reflexivity].
    destruct es; try (eexists; reflexivity).
    exfalso. destruct H as [H|[H|H]]; apply H; reflexivity.
  Qed.

  (* every answer the front end gives is the property's solution *)
  Theorem embed_front_correct em cs es D d N (X A B : mat F) (p : pencil F) oracle V lam r :
    solver_sees D A B p -> d <= D -> oracle (seen p) = (V, lam) ->
    full_contract D (p_lhs (seen p)) (p_rhs (seen p)) V lam -> ascending D lam ->
    embed_front em cs es oracle p D d N X = Answer r ->
    exists e, r = Ok e /\ embed_correct D d N X A B e.
  Proof.
    intros Hs Hd Ho Hc Ha Hf. apply embed_front_answers in Hf. destruct Hf as [_ [_ [_ Hb]]].
    destruct (embed_body_correct D d N X A B p oracle V lam Hs Hd Ho Hc Ha) as [e [He Hcor]].
    exists e. split; [|assumption]. rewrite <- Hb. assumption.
  Qed.

End Front.
