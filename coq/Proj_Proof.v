(* ====================================================================== *)
(*  Proj_Proof.v — proofs for C07 (projection reproduces the embedding     *)
(*  and is affine).  Generic over every field; no order needed.            *)
(* ====================================================================== *)
Require Import Field Ring Arith Lia List Bool.
From TK Require Import Mat_Sums Mat_Core Proj_Model Proj_Spec.
Import ListNotations.

Section ProjProof.
  Context {F : Type} {Fo : FieldOps F} {Ff : IsField F}.
  Add Field ProjProofField : (@Fth F Fo Ff).
  Local Open Scope nat_scope.
  Local Open Scope F_scope.

  (* ---------------- list plumbing ---------------- *)
  Lemma list_eq_tab (l : list F) n (f : nat -> F) :
    length l = n -> (forall t, t < n -> nth t l 0 = f t) -> l = tab n f.
  Proof.
    intros Hl H. rewrite <- (tab_nth_id l 0). rewrite Hl. apply tab_ext. exact H.
  Qed.

  Lemma nth_map_lt (g : F -> F) (l : list F) t d d' :
    t < length l -> nth t (map g l) d = g (nth t l d').
  Proof.
    intros Ht. rewrite (nth_indep _ d (g d')) by (rewrite map_length; assumption).
    apply map_nth.
  Qed.

  Lemma zip_add_length (a b : list F) : length (zip_add a b) = Nat.min (length a) (length b).
  Proof.
    revert b. induction a as [|x a IH]; intros [|y b]; cbn [zip_add length Nat.min]; try reflexivity.
    rewrite IH. reflexivity.
  Qed.

  Lemma zip_sub_length (a b : list F) : length (zip_sub a b) = Nat.min (length a) (length b).
  Proof.
    revert b. induction a as [|x a IH]; intros [|y b]; cbn [zip_sub length Nat.min]; try reflexivity.
    rewrite IH. reflexivity.
  Qed.

  Lemma zip_add_nth (a b : list F) t :
    t < length a -> t < length b -> nth t (zip_add a b) 0 = nth t a 0 + nth t b 0.
  Proof.
    revert b t. induction a as [|x a IH]; intros [|y b] t Ha Hb; cbn [length] in *; try lia.
    destruct t as [|t]; cbn [zip_add nth]; [reflexivity|]. apply IH; lia.
  Qed.

  Lemma zip_sub_nth (a b : list F) t :
    t < length a -> t < length b -> nth t (zip_sub a b) 0 = nth t a 0 - nth t b 0.
  Proof.
    revert b t. induction a as [|x a IH]; intros [|y b] t Ha Hb; cbn [length] in *; try lia.
    destruct t as [|t]; cbn [zip_sub nth]; [reflexivity|]. apply IH; lia.
  Qed.

  Lemma mof_cons_0 (x : list F) r t : mof (x :: r) 0%nat t = nth t x 0.
  Proof. reflexivity. Qed.
  Lemma mof_cons_S (x : list F) r i t : mof (x :: r) (S i) t = mof r i t.
  Proof. reflexivity. Qed.

  (* ---------------- compute_mean: the loop computes the arithmetic mean ---------------- *)
  Lemma mean_acc_ok D (Xs : list (list F)) : forall acc,
    length acc = D -> Forall (fun r => length r = D) Xs ->
    exists s, mean_acc D acc Xs = POk s /\ length s = D /\
      forall t, t < D -> nth t s 0 = nth t acc 0 + sumn (length Xs) (fun i => mof Xs i t).
  Proof.
    induction Xs as [|x r IH]; intros acc Hacc HX.
    - exists acc. split; [reflexivity|]. split; [assumption|]. intros t _. cbn [length sumn]. ring.
    - apply Forall_cons_iff in HX. destruct HX as [Hx Hr]. cbn [mean_acc]. rewrite Hx, Nat.eqb_refl.
      destruct (IH (zip_add acc x)) as [s [Hs [Hl Hn]]].
      + rewrite zip_add_length, Hacc, Hx. apply Nat.min_id.
      + assumption.
      + exists s. split; [assumption|]. split; [assumption|]. intros t Ht.
        rewrite Hn by assumption. rewrite zip_add_nth by lia.
        cbn [length]. rewrite sumn_S_l. rewrite mof_cons_0.
        rewrite (sumn_ext (length r) (fun i => mof (x :: r) (S i) t) (fun i => mof r i t))
          by (intros; apply mof_cons_S).
        ring.
  Qed.

  Theorem compute_mean_exec_ok N D (Xs : list (list F)) :
    wf_mat N D Xs -> compute_mean_exec D Xs = POk (vtab D (mean_vec N (mof Xs))).
  Proof.
    intros [HN HD]. unfold compute_mean_exec.
    destruct (mean_acc_ok D Xs (repeat 0 D)) as [s [Hs [Hl Hn]]];
      [apply repeat_length|assumption|].
    rewrite Hs. f_equal. unfold vtab. apply list_eq_tab.
    - rewrite map_length. assumption.
    - intros t Ht. unfold mean_vec.
      rewrite (nth_map_lt _ s t 0 0) by lia. rewrite Hn by assumption. rewrite nth_repeat. rewrite HN.
      f_equal. ring.
  Qed.

  (* a size mismatch is reported, never papered over *)
  Lemma mean_acc_dim D (Xs : list (list F)) : forall acc s,
    mean_acc D acc Xs = POk s -> Forall (fun r => length r = D) Xs.
  Proof.
    induction Xs as [|x r IH]; intros acc s H; [constructor|].
    cbn [mean_acc] in H. destruct (Nat.eqb (length x) D) eqn:E; [|discriminate].
    apply Nat.eqb_eq in E. constructor; [assumption|]. eapply IH. exact H.
  Qed.

  Theorem compute_mean_exec_dim D (Xs : list (list F)) m :
    compute_mean_exec D Xs = POk m -> wf_mat (length Xs) D Xs.
  Proof.
    unfold compute_mean_exec. destruct (mean_acc D (repeat 0 D) Xs) as [s|a b c] eqn:E; [|discriminate].
    intros _. split; [reflexivity|]. eapply mean_acc_dim. exact E.
  Qed.

  Theorem mean_is_training_mean N D (X : mat F) :
    of_nat N <> 0 -> training_mean N D X (mean_vec N X).
  Proof.
    intros HN t _. unfold mean_vec. field. assumption.
  Qed.

  (* and it is the only vector with that property *)
  Theorem training_mean_unique N D (X : mat F) m :
    of_nat N <> 0 -> training_mean N D X m -> veq D m (mean_vec N X).
  Proof.
    intros HN H t Ht. unfold mean_vec. rewrite <- (H t Ht). field. assumption.
  Qed.

  (* ---------------- project / MatrixProjectionImplementation ---------------- *)
  Lemma ptrans_mul_ok D d (P : list (list F)) (m x : list F) :
    length x = D -> length m = D ->
    ptrans_mul D d P (zip_sub x m) = vtab d (mpi_project D (mof P) (vof m) (vof x)).
  Proof.
    intros Hx Hm. unfold ptrans_mul, vtab. apply tab_ext. intros c _.
    unfold mpi_project. apply sumn_ext. intros t Ht. unfold vof.
    rewrite zip_sub_nth by lia. reflexivity.
  Qed.

  Theorem mpi_project_exec_ok D d (P : list (list F)) (m x : list F) :
    wf_mat D d P -> length m = D -> length x = D ->
    mpi_project_exec D d P m x = POk (vtab d (mpi_project D (mof P) (vof m) (vof x))).
  Proof.
    intros HP Hm Hx. unfold mpi_project_exec.
    apply wf_matb_ok in HP. rewrite HP. rewrite Hm, Hx, Nat.eqb_refl. cbn [negb].
    rewrite ptrans_mul_ok by assumption. reflexivity.
  Qed.

  Lemma project_rows_ok D d (P : list (list F)) (m : list F) (Xs : list (list F)) :
    Forall (fun r => length r = D) Xs ->
    project_rows D d P m Xs = POk (map (fun x => ptrans_mul D d P (zip_sub x m)) Xs).
  Proof.
    induction Xs as [|x r IH]; intros H; [reflexivity|].
    apply Forall_cons_iff in H. destruct H as [Hx Hr]. cbn [project_rows map]. rewrite Hx.
    rewrite Nat.eqb_refl. cbn [negb]. rewrite IH by assumption. reflexivity.
  Qed.

  Lemma project_rows_dim D d (P : list (list F)) (m : list F) (Xs : list (list F)) Y :
    project_rows D d P m Xs = POk Y -> Forall (fun r => length r = D) Xs.
  Proof.
    revert Y. induction Xs as [|x r IH]; intros Y H; [constructor|].
    cbn [project_rows] in H. destruct (Nat.eqb (length x) D) eqn:E; cbn [negb] in H; [|discriminate].
    apply Nat.eqb_eq in E. destruct (project_rows D d P m r) as [rows|a b c] eqn:E2; [|discriminate].
    constructor; [assumption|]. eapply IH. reflexivity.
  Qed.

  Theorem project_exec_ok N D d (P : list (list F)) (m : list F) (Xs : list (list F)) :
    wf_mat D d P -> length m = D -> wf_mat N D Xs ->
    project_exec D d P m Xs = POk (mtab N d (project_mat D (mof P) (vof m) (mof Xs))).
  Proof.
    intros HP Hm [HN HX]. unfold project_exec.
    apply wf_matb_ok in HP. rewrite HP, Hm, Nat.eqb_refl. cbn [negb].
    rewrite project_rows_ok by assumption. f_equal.
    (* rows: map over Xs  vs  tab N *)
    rewrite <- (tab_nth_id Xs nil) at 1. rewrite HN. unfold tab at 1. rewrite map_map.
    unfold mtab, tab at 1. apply map_ext_in. intros i Hi. apply in_seq in Hi.
    assert (Hl : length (nth i Xs []) = D).
    { rewrite Forall_forall in HX. apply HX. apply nth_In. lia. }
    rewrite ptrans_mul_ok by assumption.
    unfold vtab. apply tab_ext. intros c _. unfold mpi_project, project_mat.
    apply sumn_ext. intros t _. reflexivity.
  Qed.

  (* THE C07 core: row i of the embedding is what the returned function computes on sample i *)
  Theorem embedding_row_is_projection N D d (P : list (list F)) (m : list F) (Xs Y : list (list F)) :
    wf_mat D d P -> length m = D -> wf_mat N D Xs ->
    project_exec D d P m Xs = POk Y ->
    forall i, i < N ->
      mpi_project_exec D d P m (nth i Xs []) = POk (nth i Y []) /\
      nth i Y [] = vtab d (mpi_project D (mof P) (vof m) (mof Xs i)).
  Proof.
    intros HP Hm HX HY i Hi.
    rewrite (project_exec_ok N D d P m Xs HP Hm HX) in HY. inversion HY; subst Y; clear HY.
    destruct HX as [HN HX].
    assert (Hl : length (nth i Xs []) = D).
    { rewrite Forall_forall in HX. apply HX. apply nth_In. lia. }
    rewrite mpi_project_exec_ok by assumption.
    assert (E : nth i (mtab N d (project_mat D (mof P) (vof m) (mof Xs))) [] =
                vtab d (mpi_project D (mof P) (vof m) (mof Xs i))).
    { unfold mtab. rewrite nth_tab by assumption. unfold vtab. apply tab_ext. intros c _.
      reflexivity. }
    rewrite E. split; [|reflexivity]. f_equal.
  Qed.

  (* function level: the two C++ expressions denote the same vector *)
  Theorem project_mat_row D (P : mat F) (m : vec F) (X : mat F) i c :
    project_mat D P m X i c = mpi_project D P m (X i) c.
  Proof. reflexivity. Qed.

  Theorem project_is_projection D d (P : mat F) (m x : vec F) :
    is_projection_of D d P m x (mpi_project D P m x).
  Proof. intros c _. reflexivity. Qed.

  (* ---------------- affinity ---------------- *)
  Theorem project_affine D d (P : mat F) (m : vec F) : affine_on D d (mpi_project D P m).
  Proof.
    intros a x y c _. unfold mpi_project, vcomb.
    rewrite <- !sumn_mul_l, <- sumn_add. apply sumn_ext. intros t _. ring.
  Qed.

  (* general affine combinations: weights summing to one *)
  Theorem project_affine_general D (P : mat F) (m : vec F) k (w : nat -> F) (xs : nat -> vec F) c :
    sumn k w = 1 ->
    mpi_project D P m (fun t => sumn k (fun j => w j * xs j t)) c =
    sumn k (fun j => w j * mpi_project D P m (xs j) c).
  Proof.
    intros Hw. unfold mpi_project.
    rewrite (sumn_ext k _ (fun j => sumn D (fun t => w j * (P t c * (xs j t - m t))))).
    2:{ intros j _. rewrite sumn_mul_l. reflexivity. }
    rewrite sumn_swap. apply sumn_ext. intros t _.
    transitivity (P t c * (sumn k (fun j => w j * xs j t) - sumn k w * m t)).
    { rewrite Hw. ring. }
    rewrite <- sumn_mul_r, <- sumn_sub, <- sumn_mul_l. apply sumn_ext. intros j _. ring.
  Qed.

  (* linear part and fixed point: f x - f y = P^T (x - y),  f m = 0 *)
  Theorem project_linear_part D (P : mat F) (m x y : vec F) c :
    mpi_project D P m x c - mpi_project D P m y c = sumn D (fun t => P t c * (x t - y t)).
  Proof.
    unfold mpi_project. rewrite <- sumn_sub. apply sumn_ext. intros t _. ring.
  Qed.

  Theorem project_mean_zero D (P : mat F) (m : vec F) c : mpi_project D P m m c = 0.
  Proof. unfold mpi_project. apply sumn_zero'. intros t _. ring. Qed.

  (* with the training mean, the embedding columns sum to zero *)
  Theorem embedding_centered N D (P : mat F) (X : mat F) c :
    of_nat N <> 0 ->
    sumn N (fun i => project_mat D P (mean_vec N X) X i c) = 0.
  Proof.
    intros HN. unfold project_mat. rewrite sumn_swap.
    apply sumn_zero'. intros t _. rewrite sumn_mul_l.
    rewrite sumn_sub, sumn_const. unfold mean_vec.
    transitivity (P t c * 0); [|ring]. f_equal. field. assumption.
  Qed.

  (* ---------------- the value returned by a projecting method ---------------- *)
  Theorem projecting_embed_tail_ok N D d (P : list (list F)) (Xs : list (list F)) :
    wf_mat D d P -> wf_mat N D Xs ->
    exists Y m,
      projecting_embed_tail D d P Xs = POk (Y, PFMatrix P m) /\
      m = vtab D (mean_vec N (mof Xs)) /\
      Y = mtab N d (project_mat D (mof P) (vof m) (mof Xs)) /\
      (of_nat N <> 0 -> output_consistent N D d (mof Xs) (mof Y) (mof P) (vof m)) /\
      forall i, i < N -> pf_apply D d (PFMatrix P m) (nth i Xs []) = Some (POk (nth i Y [])).
  Proof.
    intros HP HX. unfold projecting_embed_tail.
    rewrite (compute_mean_exec_ok N D Xs HX).
    set (m := vtab D (mean_vec N (mof Xs))).
    assert (Hm : length m = D) by apply tab_length.
    rewrite (project_exec_ok N D d P m Xs HP Hm HX).
    exists (mtab N d (project_mat D (mof P) (vof m) (mof Xs))), m.
    split; [reflexivity|]. split; [reflexivity|]. split; [reflexivity|]. split.
    - intros HN. split.
      + intros t Ht. unfold m. rewrite vof_vtab by assumption.
        apply (mean_is_training_mean N D (mof Xs) HN t Ht).
      + intros i Hi c Hc. rewrite mof_mtab by assumption. reflexivity.
    - intros i Hi. cbn [pf_apply]. f_equal.
      apply (embedding_row_is_projection N D d P m Xs _ HP Hm HX).
      + apply project_exec_ok; assumption.
      + assumption.
  Qed.

  Theorem nonprojecting_embed_tail_empty (E : list (list F)) D d x :
    exists pf, nonprojecting_embed_tail E = POk (E, pf) /\ pf = PFNone /\ pf_apply D d pf x = None.
  Proof. exists PFNone. repeat split. Qed.

  (* packaged statements used by Properties_C07.v *)
  Theorem mean_is_training_mean_all N D (Xs : list (list F)) :
    wf_mat N D Xs ->
    compute_mean_exec D Xs = POk (vtab D (mean_vec N (mof Xs))) /\
    (of_nat N <> 0 -> training_mean N D (mof Xs) (mean_vec N (mof Xs))) /\
    (forall m, of_nat N <> 0 -> training_mean N D (mof Xs) m -> veq D m (mean_vec N (mof Xs))).
  Proof.
    intros H. split; [exact (compute_mean_exec_ok N D Xs H)|]. split.
    - intros HN. exact (mean_is_training_mean N D (mof Xs) HN).
    - intros m HN. exact (training_mean_unique N D (mof Xs) m HN).
  Qed.

  Theorem project_affine_all D d (P : mat F) (m : vec F) :
    affine_on D d (mpi_project D P m) /\
    (forall k (w : nat -> F) (xs : nat -> vec F) c, sumn k w = 1 ->
       mpi_project D P m (fun t => sumn k (fun j => w j * xs j t)) c =
       sumn k (fun j => w j * mpi_project D P m (xs j) c)) /\
    (forall x y c, mpi_project D P m x c - mpi_project D P m y c =
                   sumn D (fun t => P t c * (x t - y t))) /\
    (forall c, mpi_project D P m m c = 0).
  Proof.
    split; [exact (project_affine D d P m)|].
    split; [exact (project_affine_general D P m)|].
    split; [exact (project_linear_part D P m)|exact (project_mean_zero D P m)].
  Qed.

End ProjProof.

(* ---------------- soundness of the decision procedures (Qc) ---------------- *)
Require Import ZArith QArith Qcanon.
From TK Require Import Mat_Qc.
Local Open Scope nat_scope.

Lemma pq_abs_zero (x : Qc) : (pq_abs x <= Q2Qc 0)%Qc -> x = Q2Qc 0.
Proof.
  unfold pq_abs. destruct (pq_leb (Q2Qc 0) x) eqn:E; intros H.
  - apply pq_leb_ok in E. apply Qcle_antisym; assumption.
  - assert (Hx : (x <= Q2Qc 0)%Qc).
    { destruct (Qclt_le_dec (Q2Qc 0) x) as [Hlt|Hle]; [|assumption].
      apply Qclt_le_weak in Hlt. apply pq_leb_ok in Hlt. congruence. }
    assert (H2 : (Q2Qc 0 <= - x)%Qc).
    { apply Qcopp_le_compat in Hx. exact Hx. }
    assert (E2 : (- x)%Qc = Q2Qc 0) by (apply Qcle_antisym; assumption).
    rewrite <- (Qcopp_involutive x). rewrite E2. reflexivity.
Qed.

Lemma vwithin_zero n (x y : vec Qc) : vwithin n (Q2Qc 0) x y -> veq n x y.
Proof.
  intros H i Hi. specialize (H i Hi). apply pq_abs_zero in H.
  apply (f_equal (fun z => (z + y i)%Qc)) in H.
  rewrite Qcplus_0_l in H. rewrite <- H. unfold Qcminus. rewrite <- Qcplus_assoc.
  rewrite (Qcplus_comm (- y i)), Qcplus_opp_r, Qcplus_0_r. reflexivity.
Qed.

Lemma veq_vwithin n tol (x y : vec Qc) : (Q2Qc 0 <= tol)%Qc -> veq n x y -> vwithin n tol x y.
Proof.
  intros Ht H i Hi. rewrite (H i Hi). unfold Qcminus. rewrite Qcplus_opp_r.
  unfold pq_abs. assert (E : pq_leb (Q2Qc 0) (Q2Qc 0) = true) by (apply pq_leb_ok; apply Qcle_refl).
  rewrite E. assumption.
Qed.

(* exact mode (tol = 0): the boolean procedure decides the specification *)
Theorem is_projection_tol_b_exact D d (P : list (list Qc)) (m x y : list Qc) :
  is_projection_tol_b D d (Q2Qc 0) P m x y = Some true ->
  is_projection_of D d (mof P) (vof m) (vof x) (vof y).
Proof.
  unfold is_projection_tol_b.
  destruct (wf_matb D d P && Nat.eqb (length m) D && Nat.eqb (length x) D && Nat.eqb (length y) d);
    [|discriminate].
  intros H. inversion H as [H1]. apply vwithin_b_ok in H1. apply vwithin_zero in H1.
  intros c Hc. apply H1. assumption.
Qed.

Theorem training_mean_tol_b_exact N D (Xs : list (list Qc)) (m : list Qc) :
  training_mean_tol_b N D (Q2Qc 0) Xs m = Some true -> training_mean N D (mof Xs) (vof m).
Proof.
  unfold training_mean_tol_b.
  destruct (wf_matb N D Xs && Nat.eqb (length m) D); [|discriminate].
  intros H. inversion H as [H1]. apply vwithin_b_ok in H1. apply vwithin_zero in H1.
  intros t Ht. apply H1. assumption.
Qed.

Theorem output_consistent_tol_b_exact N D d (Xs Y P : list (list Qc)) (m : list Qc) :
  output_consistent_tol_b N D d (Q2Qc 0) Xs Y P m = Some true ->
  output_consistent N D d (mof Xs) (mof Y) (mof P) (vof m).
Proof.
  unfold output_consistent_tol_b.
  destruct (wf_matb N D Xs && wf_matb N d Y && wf_matb D d P && Nat.eqb (length m) D); [|discriminate].
  destruct (training_mean_tol_b N D (Q2Qc 0) Xs m) as [b|] eqn:E; [|discriminate].
  intros H. inversion H as [H1]. apply andb_true_iff in H1. destruct H1 as [Hb Hall]. subst b.
  split.
  - apply training_mean_tol_b_exact. assumption.
  - intros i Hi c Hc. rewrite forallb_forall in Hall.
    assert (Hin : In i (seq 0 N)) by (apply in_seq; lia).
    specialize (Hall i Hin). apply vwithin_b_ok in Hall. apply vwithin_zero in Hall.
    apply Hall. assumption.
Qed.

(* the model's own output passes the exact decision procedure (completeness on the model) *)
Theorem model_output_passes N D d (P Xs : list (list Qc)) Y m :
  N <> 0 -> wf_mat D d P -> wf_mat N D Xs ->
  projecting_embed_tail D d P Xs = POk (Y, PFMatrix P m) ->
  output_consistent_tol_b N D d (Q2Qc 0) Xs Y P m = Some true.
Proof.
  intros HN HP HX H.
  destruct (@projecting_embed_tail_ok Qc QcOps QcField N D d P Xs HP HX)
    as [Y' [m' [H' [Hm [HY [Hc _]]]]]].
  rewrite H in H'. injection H' as EY Em. rewrite <- EY in HY, Hc. rewrite <- Em in Hm, HY, Hc. clear EY Em.
  specialize (Hc (Qc_of_nat_neq0 N HN)). destruct Hc as [Hmean Hrows].
  unfold output_consistent_tol_b, training_mean_tol_b.
  assert (WY : wf_mat N d Y) by (rewrite HY; apply mtab_wf).
  assert (Wm : length m = D) by (rewrite Hm; apply tab_length).
  apply wf_matb_ok in HP. apply wf_matb_ok in HX. apply wf_matb_ok in WY.
  rewrite HP, HX, WY, Wm, Nat.eqb_refl. cbn [andb].
  f_equal. apply andb_true_iff. split.
  - apply vwithin_b_ok. apply veq_vwithin; [apply Qcle_refl|]. intros t Ht. apply Hmean. assumption.
  - apply forallb_forall. intros i Hi. apply in_seq in Hi.
    apply vwithin_b_ok. apply veq_vwithin; [apply Qcle_refl|]. intros c Hc.
    apply Hrows; [lia|assumption].
Qed.

Theorem projecting_output_Qc (N D d : nat) (P Xs : list (list Qc)) :
  N <> 0 -> wf_mat D d P -> wf_mat N D Xs ->
  exists Y m,
    projecting_embed_tail D d P Xs = POk (Y, PFMatrix P m) /\
    output_consistent N D d (mof Xs) (mof Y) (mof P) (vof m) /\
    output_consistent_tol_b N D d (Q2Qc 0) Xs Y P m = Some true.
Proof.
  intros HN HP HX.
  destruct (@projecting_embed_tail_ok Qc QcOps QcField N D d P Xs HP HX) as [Y [m [H1 [_ [_ [H4 _]]]]]].
  exists Y, m. split; [assumption|]. split; [apply H4; apply Qc_of_nat_neq0; assumption|].
  eapply model_output_passes; eassumption.
Qed.
