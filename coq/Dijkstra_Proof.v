(* Dijkstra_Proof.v — the theorems of property C04 about the geodesic matrices,
   assembled from Dijkstra_Proof_{PQ,Fib,Spec}.v. *)
From Coq Require Import List ZArith Bool Arith Lia.
From TK Require Import Dijkstra_Model Dijkstra_Spec Dijkstra_Proof_Base Dijkstra_Proof_Core
     Dijkstra_Proof_PQ Dijkstra_Proof_Fib Dijkstra_Proof_Spec.
Import ListNotations.
Local Open Scope Z_scope.

Lemma rows_equal : forall (a b : list (option Z)) n,
    length a = n -> length b = n ->
    (forall v, (v < n)%nat -> nth v a None = nth v b None) -> a = b.
Proof.
  intros a b n Ha Hb H. apply (nth_ext a b None None); [congruence|].
  intros v Hv. apply H. lia.
Qed.

Section Rows.
  Variable nbrs : list (list nat).
  Variable w : nat -> nat -> Z.
  Variables N K : nat.
  Hypothesis Hwf : wf_graph nbrs N K.
  Hypothesis Hnn : nonneg_w nbrs w.

  (* one row, priority-queue flavour: any admissible queue, any in-range flag index *)
  Theorem row_pq_eq_sp : forall pick k fidx, pick_ok pick -> (k < N)%nat -> (fidx < N)%nat ->
      row_pq nbrs w pick N K k fidx = DOk (sp_row nbrs w N k).
  Proof.
    intros pick k fidx Hp Hk Hf.
    destruct (row_pq_is_sp nbrs w pick N K k Hwf Hnn Hp Hk fidx Hf) as (row & E & HL & Hrow).
    rewrite E. f_equal. apply (rows_equal _ _ N); [assumption | |].
    - eapply sp_row_length; eassumption.
    - intros v Hv. destruct (Hrow v Hv) as [Hsp _].
      eapply is_sp_fun; [exact Hsp|]. apply (sp_char nbrs w N K k Hwf Hnn Hk v Hv).
  Qed.

  (* one row, Fibonacci flavour: the flag index must be the source *)
  Theorem row_fib_eq_sp : forall pick k, pick_ok pick -> (k < N)%nat ->
      row_fib nbrs w pick N K k k = DOk (sp_row nbrs w N k).
  Proof.
    intros pick k Hp Hk.
    destruct (row_fib_is_sp nbrs w pick N K k Hwf Hnn Hp Hk) as (row & E & HL & Hrow).
    rewrite E. f_equal. apply (rows_equal _ _ N); [assumption | |].
    - eapply sp_row_length; eassumption.
    - intros v Hv. destruct (Hrow v Hv) as [Hsp _].
      eapply is_sp_fun; [exact Hsp|]. apply (sp_char nbrs w N K k Hwf Hnn Hk v Hv).
  Qed.

  Lemma wf_first_row : (0 < N)%nat -> exists r0 rest, nbrs = r0 :: rest /\ length r0 = K.
  Proof.
    intros HN. destruct Hwf as [HL HF]. destruct nbrs as [|r0 rest]; [cbn in HL; lia|].
    exists r0, rest. split; [reflexivity|]. inversion HF; subst. tauto.
  Qed.

  Theorem full_matrix_correct : forall fl pick, pick_ok pick -> (0 < N)%nat ->
      full_matrix fl nbrs w pick N = DOk (sp_matrix nbrs w N).
  Proof.
    intros fl pick Hp HN. destruct (wf_first_row HN) as (r0 & rest & E & HK).
    unfold full_matrix, sp_matrix. rewrite E, HK, <- E.
    apply sequence_map_ok. intros k Hin. apply in_seq in Hin.
    destruct fl; cbn [row_fl].
    - apply row_pq_eq_sp; [assumption | lia | lia].
    - apply row_fib_eq_sp; [assumption | lia].
  Qed.

  Lemma sequence_map_lm : forall (f : nat -> dres (list (option Z))) lm,
      (forall r src, nth_error lm r = Some src -> f r = DOk (sp_row nbrs w N src)) ->
      sequence (map (fun r => f r) (seq 0 (length lm))) = DOk (sp_landmarks nbrs w N lm).
  Proof.
    intros f lm H. unfold sp_landmarks.
    assert (G : forall off l, (forall r src, nth_error l r = Some src ->
                                              f (off + r)%nat = DOk (sp_row nbrs w N src)) ->
                sequence (map (fun r => f r) (seq off (length l))) = DOk (map (sp_row nbrs w N) l)).
    { intros off l; revert off; induction l as [|a t IH]; intros off Hl; cbn; [reflexivity|].
      rewrite <- (Nat.add_0_r off) at 1. rewrite (Hl 0%nat a eq_refl).
      rewrite IH; [reflexivity|]. intros r src Hr.
      replace (S off + r)%nat with (off + S r)%nat by lia. apply Hl. exact Hr. }
    apply (G 0%nat lm). intros r src Hr. apply H. exact Hr.
  Qed.

  (* second overload as shipped, priority-queue flavour: f[] is write-only there, so the
     misplaced flag is harmless as long as the row index is a valid vertex index *)
  Theorem landmark_matrix_pq_correct : forall pick lm, pick_ok pick -> (0 < N)%nat ->
      Forall (fun v => (v < N)%nat) lm -> (length lm <= N)%nat ->
      landmark_matrix PQ nbrs w pick N lm = DOk (sp_landmarks nbrs w N lm).
  Proof.
    intros pick lm Hp HN Hlm Hlen. destruct (wf_first_row HN) as (r0 & rest & E & HK).
    unfold landmark_matrix. rewrite E, HK, <- E.
    apply (sequence_map_lm (fun r => match nth_error lm r with
                                     | None => DOOB site_landmark r
                                     | Some src => row_fl PQ nbrs w pick N K src r end)).
    intros r src Hr. rewrite Hr. cbn [row_fl].
    assert (Hr' : (r < length lm)%nat) by (apply nth_error_Some; congruence).
    rewrite Forall_forall in Hlm. apply row_pq_eq_sp; [assumption | | lia].
    apply Hlm. eapply nth_error_In; eauto.
  Qed.

  (* second overload after the repair `f[landmarks[k]] = true`: both flavours *)
  Theorem landmark_matrix_fixed_correct : forall fl pick lm, pick_ok pick -> (0 < N)%nat ->
      Forall (fun v => (v < N)%nat) lm ->
      landmark_matrix_fixed fl nbrs w pick N lm = DOk (sp_landmarks nbrs w N lm).
  Proof.
    intros fl pick lm Hp HN Hlm. destruct (wf_first_row HN) as (r0 & rest & E & HK).
    unfold landmark_matrix_fixed. rewrite E, HK, <- E.
    apply (sequence_map_lm (fun r => match nth_error lm r with
                                     | None => DOOB site_landmark r
                                     | Some src => row_fl fl nbrs w pick N K src src end)).
    intros r src Hr. rewrite Hr.
    rewrite Forall_forall in Hlm. assert (Hs : (src < N)%nat) by (apply Hlm; eapply nth_error_In; eauto).
    destruct fl; cbn [row_fl].
    - apply row_pq_eq_sp; assumption.
    - apply row_fib_eq_sp; assumption.
  Qed.

  (* ---------- clauses of the property, on sp ---------- *)
  Theorem sp_zero_diagonal : forall k, (k < N)%nat -> sp nbrs w N k k = Some 0.
  Proof.
    intros k Hk. pose proof (sp_char nbrs w N K k Hwf Hnn Hk k Hk) as H.
    destruct (sp nbrs w N k k) as [d|]; cbn in H.
    - destruct H as [[n HP] Hmin]. f_equal.
      pose proof (pathn_nonneg nbrs w Hnn _ _ _ _ HP).
      assert (d <= 0) by (apply Hmin; exists 0%nat; constructor). lia.
    - exfalso. apply (H 0). exists 0%nat. constructor.
  Qed.

  (* a neighbour is never farther than the direct edge *)
  Theorem sp_le_edge : forall i j, edge nbrs i j ->
      exists d, sp nbrs w N i j = Some d /\ d <= w i j.
  Proof.
    intros i j He. destruct (edge_lt nbrs N K Hwf i j He) as [Hi Hj].
    pose proof (sp_char nbrs w N K i Hwf Hnn Hi j Hj) as H.
    assert (HP : path nbrs w i j (0 + w i j)).
    { exists 1%nat. econstructor; [constructor | assumption]. }
    destruct (sp nbrs w N i j) as [d|]; cbn in H.
    - exists d. split; [reflexivity|]. destruct H as [_ Hmin]. specialize (Hmin _ HP). lia.
    - exfalso. eapply H; eauto.
  Qed.

  (* never below the direct distance, when the callback is a metric on the samples *)
  Theorem sp_ge_direct : metric_w w N -> forall i j d, (i < N)%nat -> (j < N)%nat ->
      sp nbrs w N i j = Some d -> w i j <= d.
  Proof.
    intros (M0 & Mnn & Mtri) i j d Hi Hj Hsp.
    pose proof (sp_char nbrs w N K i Hwf Hnn Hi j Hj) as H. rewrite Hsp in H. cbn in H.
    destruct H as [[n HP] _].
    assert (G : forall v W m, pathn nbrs w i v W m -> (v < N)%nat /\ w i v <= W).
    { intros v W m P; induction P as [|u v W m P [IHu IH] He].
      - split; [assumption|]. rewrite M0 by assumption. lia.
      - destruct (edge_lt nbrs N K Hwf u v He) as [Hu Hv]. split; [assumption|].
        specialize (Mtri i u v Hi Hu Hv). lia. }
    apply (G j d n HP).
  Qed.

  (* reachability: finite exactly when there is a walk *)
  Theorem sp_finite_iff_reach : forall k v, (k < N)%nat -> (v < N)%nat ->
      (sp nbrs w N k v <> None <-> exists W, path nbrs w k v W).
  Proof.
    intros k v Hk Hv. pose proof (sp_char nbrs w N K k Hwf Hnn Hk v Hv) as H.
    destruct (sp nbrs w N k v) as [d|]; cbn in H; split.
    - intros _. exists d. apply H.
    - intros _. discriminate.
    - intros C. exfalso. apply C. reflexivity.
    - intros [W HP]. exfalso. eapply H; eauto.
  Qed.
End Rows.

(* both back-ends, any two admissible queues: identical matrices *)
Theorem backends_agree : forall nbrs w N K pick1 pick2,
    wf_graph nbrs N K -> nonneg_w nbrs w -> pick_ok pick1 -> pick_ok pick2 -> (0 < N)%nat ->
    full_matrix PQ nbrs w pick1 N = full_matrix FIB nbrs w pick2 N.
Proof.
  intros. rewrite (full_matrix_correct nbrs w N K) by assumption.
  rewrite (full_matrix_correct nbrs w N K) by assumption. reflexivity.
Qed.

(* every landmark row equals the corresponding row of the full matrix *)
Theorem landmark_rows_are_full_rows : forall nbrs w N lm r src,
    nth_error lm r = Some src -> (src < N)%nat ->
    nth r (sp_landmarks nbrs w N lm) [] = nth src (sp_matrix nbrs w N) [].
Proof.
  intros nbrs w N lm r src Hr Hs. unfold sp_landmarks, sp_matrix.
  rewrite (nth_indep _ [] (sp_row nbrs w N 0)) by
      (rewrite map_length; apply nth_error_Some; congruence).
  rewrite (nth_indep (map _ (seq 0 N)) [] (sp_row nbrs w N 0)) by
      (rewrite map_length, seq_length; assumption).
  rewrite (map_nth (sp_row nbrs w N) lm 0%nat).
  rewrite (map_nth (sp_row nbrs w N) (seq 0 N) 0%nat).
  rewrite seq_nth by assumption. cbn. f_equal.
  apply nth_error_nth. assumption.
Qed.

(* ---------- defect F4: the shipped landmark overload under the Fibonacci heap ---------- *)
Definition f4_nbrs : list (list nat) := [[1]; [2]; [0]]%nat.
Definition f4_w : nat -> nat -> Z := table_w [[0; 1; 2]; [1; 0; 1]; [2; 1; 0]].
Definition f4_lm : list nat := [2; 0]%nat.

Lemma f4_wf : wf_graph f4_nbrs 3 1.
Proof.
  split; [reflexivity|]. repeat constructor.
Qed.

Lemma f4_nonneg : nonneg_w f4_nbrs f4_w.
Proof.
  intros u v He. destruct (edge_lt f4_nbrs 3 1 f4_wf u v He) as [Hu Hv].
  destruct u as [|[|[|u]]]; destruct v as [|[|[|v]]]; try lia; vm_compute; discriminate.
Qed.

Lemma pick_singleton : forall pick e, pick_ok pick -> pick [e] = Some e.
Proof.
  intros pick e Hp. destruct (Hp [e]) as (u & d & E & [Hin|[]] & _); [discriminate|].
  subst e. exact E.
Qed.

Theorem landmark_fib_wrong :
    exists nbrs w N K lm,
      wf_graph nbrs N K /\ nonneg_w nbrs w /\ Forall (fun v => (v < N)%nat) lm /\
      NoDup lm /\ (length lm <= N)%nat /\
      forall pick, pick_ok pick ->
        exists m, landmark_matrix FIB nbrs w pick N lm = DOk m /\
                  m <> sp_landmarks nbrs w N lm.
Proof.
  exists f4_nbrs, f4_w, 3%nat, 1%nat, f4_lm.
  split; [exact f4_wf|]. split; [exact f4_nonneg|].
  split; [repeat constructor|].
  split; [repeat constructor; cbn; intuition discriminate|].
  split; [cbn; lia|].
  intros pick Hp. exists [[Some 2; None; Some 0]; [Some 0; Some 1; None]]. split.
  - unfold landmark_matrix, f4_nbrs, f4_lm, row_fl, row_fib, row_of. cbn.
    repeat (rewrite (pick_singleton pick _ Hp); cbn). reflexivity.
  - vm_compute. discriminate.
Qed.

Lemma f4_metric : metric_w f4_w 3.
Proof.
  split; [|split].
  - intros u Hu. destruct u as [|[|[|u]]]; try lia; reflexivity.
  - intros u v Hu Hv. destruct u as [|[|[|u]]]; destruct v as [|[|[|v]]]; try lia;
      vm_compute; discriminate.
  - intros u v x Hu Hv Hx.
    destruct u as [|[|[|u]]]; destruct v as [|[|[|v]]]; destruct x as [|[|[|x]]]; try lia;
      vm_compute; discriminate.
Qed.

Lemma c04_hypotheses_satisfiable :
    wf_graph f4_nbrs 3 1 /\ nonneg_w f4_nbrs f4_w /\ metric_w f4_w 3 /\
    pick_ok pick_first_min /\ pick_ok pick_last_min /\
    Forall (fun v => (v < 3)%nat) f4_lm /\ (length f4_lm <= 3)%nat /\
    edge f4_nbrs 0 1 /\ (exists W, path f4_nbrs f4_w 0 2 W).
Proof.
  split; [exact f4_wf|]. split; [exact f4_nonneg|]. split; [exact f4_metric|].
  split; [exact pick_first_min_ok|]. split; [exact pick_last_min_ok|].
  split; [repeat constructor|]. split; [cbn; lia|]. split.
  - exists [1%nat]. split; [reflexivity | left; reflexivity].
  - exists (0 + f4_w 0 1 + f4_w 1 2), 2%nat.
    econstructor; [econstructor; [constructor|]|].
    + exists [1%nat]. split; [reflexivity | left; reflexivity].
    + exists [2%nat]. split; [reflexivity | left; reflexivity].
Qed.
