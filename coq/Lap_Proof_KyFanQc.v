(* ====================================================================== *)
(*  Lap_Proof_KyFanQc.v — C09 optimality at the ordered field Qc, with the *)
(*  hypotheses about the skipped / dropped column DISCHARGED:              *)
(*  le_optimal_Qc   connected graph, positive weights, full ascending      *)
(*      answer of the generalised solver  ->  the returned embedding Y     *)
(*      satisfies le_spec, tr(Y^T L Y) = lam_1 + ... + lam_d, and          *)
(*      tr(Y^T L Y) <= tr(Q^T L Q) for EVERY Q with Q^T Dm Q = I_d and     *)
(*      Q^T Dm 1 = 0  (V(:,0) is constant by lap_kernel_connected).        *)
(*  dm_optimal_Qc   positive symmetric kernel, full ascending answer of    *)
(*      the self-adjoint solver -> the d kept eigenvectors maximise        *)
(*      tr(Q^T M Q) over all orthonormal d-frames orthogonal to s = sqrt q *)
(*      (V(:,n-1) = alpha s by dm_top_is_trivial).                         *)
(* ====================================================================== *)
Require Import Arith Lia List Bool ZArith QArith Qcanon.
From TK Require Import Mat_Sums Mat_Core Mat_Qc Spectral_KyFan Lap_Model Lap_Spec Lap_Proof_Lap Lap_Proof_Embed
                       Lap_Proof_Order Lap_Proof_DmOrder Lap_Proof_KyFan.
Import ListNotations.
Local Open Scope list_scope.
Local Open Scope nat_scope.

Theorem le_optimal_Qc
        (heat : nat -> nat -> Qc) (n : nat) (nbrs : list (list nat)) (k d : nat)
        (Dm V : mat Qc) (lam : vec Qc) :
  d + 1 <= n ->
  (forall i q, i < n -> q < k -> nb_at nbrs i q < n) ->
  (forall i q, i < n -> q < k -> (0 < heat i (nb_at nbrs i q))%Qc) ->
  lconnected n nbrs k ->
  msym n Dm ->
  gen_contract n (matL heat k nbrs n) Dm V lam ->
  meq n n (mmul n V (mmul n (mtrans V) Dm)) mI ->
  (forall a b, a <= b -> b < n -> (lam a <= lam b)%Qc) ->
  exists Y, le_embedding n d V = Some Y /\
    le_spec n d (matL heat k nbrs n) Dm Y (fun c => lam (1 + c)) /\
    quad n d (matL heat k nbrs n) Y = sumn d (fun c => lam (1 + c)) /\
    forall Q : mat Qc,
      meq d d (mmul n (mtrans Q) (mmul n Dm Q)) mI ->
      (forall c, c < d -> dot n (mcol Q c) (mv n Dm (fun _ => 1%Qc)) = 0%Qc) ->
      (quad n d (matL heat k nbrs n) Y <= quad n d (matL heat k nbrs n) Q)%Qc.
Proof.
  intros Hd Hb Hpos Hconn HDs Hc Hcomp Hasc.
  destruct (le_smallest_nonzero heat n nbrs k d Dm V lam Hd Hb Hpos Hconn HDs Hc Hasc)
    as [_ [_ [[Y [HY [HYV HS]]] _]]].
  destruct (le_pencil_spectrum heat n nbrs k d Dm V lam Hd Hb Hpos Hconn HDs Hc Hcomp Hasc) as [Z0 _].
  assert (Hconst : forall i, i < n -> V i 0 = V 0 0).
  { apply (lap_kernel_connected heat n nbrs k Hb Hpos (mcol V 0) Hconn).
    rewrite <- (quad1_dot n (matL heat k nbrs n) V 0).
    rewrite (gen_cols_attain n 1 0 (matL heat k nbrs n) Dm V lam ltac:(lia) Hc).
    cbn [sumn Nat.add]. rewrite Z0. apply Qc_is_canon. reflexivity. }
  assert (Hasc' : ascending n lam) by (intros a b Hab Hb'; exact (Hasc a b Hab Hb')).
  destruct (le_optimal_gen n d (matL heat k nbrs n) Dm V lam (V 0 0) Hd HDs (conj Hc Hcomp) Hasc' Hconst)
    as [Hatt Hopt].
  exists Y. split; [exact HY|]. split; [exact HS|].
  rewrite (quad_ext n d (matL heat k nbrs n) Y (fun i c => V i (1 + c)) HYV).
  split; [exact Hatt|exact Hopt].
Qed.

Theorem dm_optimal_Qc
        (K : mat Qc) (n d : nat) (s : vec Qc) (V : mat Qc) (lam : vec Qc) :
  d + 1 <= n ->
  (forall i j, i < n -> j < n -> (0 < K i j)%Qc) ->
  (forall i j, i < n -> j < n -> K i j = K j i) ->
  (forall i, i < n -> (s i * s i)%F = dm_Q K n i) ->
  (forall i, i < n -> s i <> 0%Qc) ->
  sym_contract n (dm_sym K n s) V lam ->
  meq n n (mmul n V (mtrans V)) mI ->
  (forall a b, a <= b -> b < n -> (lam a <= lam b)%Qc) ->
  quad n d (dm_sym K n s) (fun i c => V i (n - (d + 1) + c)) = sumn d (fun c => lam (n - (d + 1) + c)) /\
  forall Q : mat Qc,
    meq d d (mmul n (mtrans Q) Q) mI ->
    (forall c, c < d -> dot n (mcol Q c) s = 0%Qc) ->
    (quad n d (dm_sym K n s) Q <= quad n d (dm_sym K n s) (fun i c => V i (n - (d + 1) + c)%nat))%Qc.
Proof.
  intros Hd HK HKs Hs Hs0 Hc HVVt Hasc.
  destruct (dm_top_is_trivial K n s V lam ltac:(lia) HK HKs Hs Hs0 Hc HVVt Hasc) as [_ [[al [Hal Htop]] _]].
  assert (Hasc' : ascending n lam) by (intros a b Hab Hb'; exact (Hasc a b Hab Hb')).
  exact (dm_optimal_gen n d (dm_sym K n s) V lam s al Hd Hc HVVt Hasc' Htop).
Qed.
