(* QuadTree_Proof_Bound.v — a quantitative form of "the Barnes-Hut sums deviate from the exact all-pairs sums by
   an error that vanishes as theta -> 0":  for point sets without coincident points, 0 <= theta, 8 theta^2 <= 1,
   with eps = 9 theta + 8 theta^2 and kap = eps (2 + eps) / 2, for every query point,

       | sum_Q(tree) - sum_Q(exact) |        <=  eps * sum_Q(exact)
       | neg_f[d](tree) - neg_f[d](exact) |  <=  kap * sum_Q(exact)          d = 0, 1.

   Proof idea (all over Q, no square roots): a summarised cell satisfies m^2 < theta^2 D (m = max(hh,hw),
   D = |p - com|^2).  Every point y routed into the cell and the centre of mass (a mean, hence in the box) differ
   by at most 2m per coordinate, so with u = com - y, v = p - com:  |p-y|^2 - D = 2 u.v + |u|^2,
   2 theta |u.v| <= |u|^2 + theta^2 D  (a square is non-negative)  and  |u|^2 <= 8 m^2 < 8 theta^2 D,  hence
   | |p-y|^2 - D | <= eps D,  | 1/(1+D) - 1/(1+|p-y|^2) | <= eps / (1+|p-y|^2),  and the force terms follow
   with |t| / (1 + t^2) <= 1/2.  For 8 theta^2 <= 1 a summarised cell cannot contain the query point, so no
   self-interaction is summarised.  Leaves are exact (theta-independent); unsummarised cells add the errors of
   their children. *)
From Coq Require Import List Arith Bool ZArith QArith Permutation Lia Lqa.
From TK Require Import QuadTree_Model QuadTree_Spec QuadTree_SpecExec QuadTree_Proof_Base
                       QuadTree_Proof_Insert QuadTree_Proof_Main QuadTree_Proof_Forces.
Import ListNotations.
Local Open Scope Q_scope.

Lemma sq_nonneg : forall x : Q, 0 <= x*x.
Proof. intro x. nra. Qed.

Lemma ab_close : forall ux uy vx vy m theta,
  0 < theta -> 0 <= m ->
  -(2*m) <= ux -> ux <= 2*m -> -(2*m) <= uy -> uy <= 2*m ->
  m*m < theta*theta*(vx*vx+vy*vy) ->
  let a := (vx+ux)*(vx+ux) + (vy+uy)*(vy+uy) in
  let b := vx*vx+vy*vy in
  let eps := 9*theta + 8*theta*theta in
  -(eps*b) <= a - b /\ a - b <= eps*b.
Proof.
  intros ux uy vx vy m theta Hth Hm Hx1 Hx2 Hy1 Hy2 Hc a b eps.
  assert (Ux : ux*ux <= 4*m*m).
  { assert (P : 0 <= (2*m - ux)*(2*m+ux)) by (apply Qmult_le_0_compat; lra).
    assert (E1 : (2*m - ux)*(2*m+ux) == 4*m*m - ux*ux) by ring. lra. }
  assert (Uy : uy*uy <= 4*m*m).
  { assert (P : 0 <= (2*m - uy)*(2*m+uy)) by (apply Qmult_le_0_compat; lra).
    assert (E1 : (2*m - uy)*(2*m+uy) == 4*m*m - uy*uy) by ring. lra. }
  set (U := ux*ux+uy*uy).
  assert (HU : U <= 8*m*m) by (unfold U; lra).
  set (dot := ux*vx+uy*vy).
  pose proof (sq_nonneg (ux - theta*vx)) as A1. pose proof (sq_nonneg (uy - theta*vy)) as A2.
  pose proof (sq_nonneg (ux + theta*vx)) as A3. pose proof (sq_nonneg (uy + theta*vy)) as A4.
  pose proof (sq_nonneg vx) as A5. pose proof (sq_nonneg vy) as A6.
  pose proof (sq_nonneg ux) as A7. pose proof (sq_nonneg uy) as A8.
  assert (D1 : theta*(2*dot) <= U + theta*theta*b) by (unfold dot, U, b; lra).
  assert (D2 : -(theta*(2*dot)) <= U + theta*theta*b) by (unfold dot, U, b; lra).
  assert (Hb : 0 <= b) by (unfold b; lra).
  assert (E : a - b == 2*dot + U) by (unfold a, b, dot, U; ring).
  assert (K1 : theta*(2*dot) <= theta*(9*theta*b)) by (fold b in Hc; nra).
  assert (K2 : -(theta*(2*dot)) <= theta*(9*theta*b)) by (fold b in Hc; nra).
  assert (L1 : 2*dot <= 9*theta*b).
  { apply (Qmult_le_l _ _ theta Hth). exact K1. }
  assert (L2 : -(2*dot) <= 9*theta*b).
  { apply (Qmult_le_l _ _ theta Hth). lra. }
  assert (HU2 : U <= 8*theta*theta*b) by (fold b in Hc; nra).
  assert (HU0 : 0 <= U) by (unfold U; nra).
  unfold eps. rewrite E. split; nra.
Qed.

Lemma qinv1_pos : forall a, 0 <= a -> 0 < 1/(1+a).
Proof. intros a Ha. apply Qlt_shift_div_l; lra. Qed.

Lemma q_close : forall a b eps, 0 <= a -> 0 <= b -> 0 <= eps ->
  -(eps*b) <= a - b -> a - b <= eps*b ->
  -(eps*(1/(1+a))) <= 1/(1+b) - 1/(1+a) /\ 1/(1+b) - 1/(1+a) <= eps*(1/(1+a)).
Proof.
  intros a b eps Ha Hb He L U.
  set (qa := 1/(1+a)). set (qb := 1/(1+b)).
  pose proof (qinv1_pos a Ha) as Pa. pose proof (qinv1_pos b Hb) as Pb. fold qa in Pa. fold qb in Pb.
  set (w := qa*qb).
  assert (Hw : 0 <= w) by (unfold w; apply Qmult_le_0_compat; lra).
  assert (X1 : (a-b)*w <= (eps*b)*w) by (apply Qmult_le_compat_r; assumption).
  assert (X2 : (-(eps*b))*w <= (a-b)*w) by (apply Qmult_le_compat_r; assumption).
  assert (Y : b*qb == 1 - qb) by (unfold qb; field; lra).
  assert (E : qb - qa == (a-b)*w) by (unfold w, qa, qb; field; lra).
  assert (Z : (eps*b)*w == eps*qa*(1-qb)) by (unfold w; rewrite <- Y; ring).
  assert (N : 0 <= eps*qa*qb).
  { apply Qmult_le_0_compat; [apply Qmult_le_0_compat|]; lra. }
  assert (Z2 : (-(eps*b))*w == -(eps*qa*(1-qb))) by (rewrite <- Z; ring).
  rewrite E. split; lra.
Qed.

Lemma abs_mul_bound : forall x y A B,
  -A <= x -> x <= A -> -B <= y -> y <= B -> -(A*B) <= x*y /\ x*y <= A*B.
Proof.
  intros x y A B H1 H2 H3 H4.
  assert (P1 : 0 <= (A-x)*(B-y)) by (apply Qmult_le_0_compat; lra).
  assert (P2 : 0 <= (A+x)*(B+y)) by (apply Qmult_le_0_compat; lra).
  assert (P3 : 0 <= (A-x)*(B+y)) by (apply Qmult_le_0_compat; lra).
  assert (P4 : 0 <= (A+x)*(B-y)) by (apply Qmult_le_0_compat; lra).
  assert (E1 : (A-x)*(B-y) == A*B - A*y - x*B + x*y) by ring.
  assert (E2 : (A+x)*(B+y) == A*B + A*y + x*B + x*y) by ring.
  assert (E3 : (A-x)*(B+y) == A*B + A*y - x*B - x*y) by ring.
  assert (E4 : (A+x)*(B-y) == A*B - A*y + x*B - x*y) by ring.
  split; lra.
Qed.

(* one force term: (qb^2 - qa^2) * d, with qa = 1/(1+a) and 2|d| <= 1 + a *)
Lemma f_close : forall a b eps d, 0 <= a -> 0 <= b -> 0 <= eps ->
  -(eps*(1/(1+a))) <= 1/(1+b) - 1/(1+a) -> 1/(1+b) - 1/(1+a) <= eps*(1/(1+a)) ->
  -(1+a) <= 2*d -> 2*d <= 1+a ->
  let qa := 1/(1+a) in let qb := 1/(1+b) in
  let kap := eps*(2+eps)*(1#2) in
  -(kap*qa) <= (qb*qb - qa*qa)*d /\ (qb*qb - qa*qa)*d <= kap*qa.
Proof.
  intros a b eps d Ha Hb He L U D1 D2 qa qb kap.
  pose proof (qinv1_pos a Ha) as Pa. pose proof (qinv1_pos b Hb) as Pb. fold qa in Pa, L, U. fold qb in Pb, L, U.
  assert (Hs1 : -((2+eps)*qa) <= qb + qa) by nra.
  assert (Hs2 : qb + qa <= (2+eps)*qa) by lra.
  destruct (abs_mul_bound (qb - qa) (qb + qa) (eps*qa) ((2+eps)*qa)) as (M1 & M2); try lra.
  assert (Hd1 : -((1+a)*(1#2)) <= d) by lra.
  assert (Hd2 : d <= (1+a)*(1#2)) by lra.
  destruct (abs_mul_bound ((qb - qa)*(qb + qa)) d ((eps*qa)*((2+eps)*qa)) ((1+a)*(1#2))) as (N1 & N2); try lra.
  assert (Eq : qa*(1+a) == 1) by (unfold qa; field; lra).
  assert (EA : (eps*qa)*((2+eps)*qa)*((1+a)*(1#2)) == kap*qa).
  { unfold kap. transitivity (eps*(2+eps)*(1#2)*qa*(qa*(1+a))); [ring|]. rewrite Eq. ring. }
  assert (EL : (qb*qb - qa*qa)*d == (qb - qa)*(qb + qa)*d) by ring.
  rewrite EL. split; lra.
Qed.


(* ---------- plain sums over an index list ---------- *)

Fixpoint esq (data : list pt) (p : pt) (l : list nat) : Q :=
  match l with [] => 0 | j :: r => qij p (pt_at data j) + esq data p r end.
Fixpoint ef (d : pt -> Q) (data : list pt) (p : pt) (l : list nat) : Q :=
  match l with
  | [] => 0
  | j :: r => qij p (pt_at data j) * qij p (pt_at data j) * (d p - d (pt_at data j)) + ef d data p r
  end.
Fixpoint sumd (d : pt -> Q) (data : list pt) (l : list nat) : Q :=
  match l with [] => 0 | j :: r => d (pt_at data j) + sumd d data r end.

Lemma sumd_fst : forall data l, sumd fst data l == sumx data l.
Proof. intros data l. induction l as [|a l IH]; cbn [sumd sumx]; [reflexivity | rewrite IH; reflexivity]. Qed.
Lemma sumd_snd : forall data l, sumd snd data l == sumy data l.
Proof. intros data l. induction l as [|a l IH]; cbn [sumd sumy]; [reflexivity | rewrite IH; reflexivity]. Qed.

Lemma qij_pos : forall p q, 0 < qij p q.
Proof.
  intros p q. unfold qij. apply qinv1_pos. unfold sqdist.
  pose proof (sq_nonneg (fst p - fst q)). pose proof (sq_nonneg (snd p - snd q)). lra.
Qed.

Lemma esq_nonneg : forall data p l, 0 <= esq data p l.
Proof.
  intros data p l. induction l as [|a l IH]; cbn [esq]; [lra|]. pose proof (qij_pos p (pt_at data a)). lra.
Qed.

Lemma exact_sums_notin : forall data p i l, ~ In i l ->
  feq (exact_sums data p i l) (ef fst data p l, ef snd data p l, esq data p l).
Proof.
  intros data p i l H. induction l as [|j l IH]; cbn [exact_sums ef esq].
  - apply feq_refl.
  - destruct (Nat.eqb_spec j i) as [->|Hne]; [exfalso; apply H; left; reflexivity|].
    assert (H' : ~ In i l) by (intro K; apply H; right; exact K).
    destruct (IH H') as (E1 & E2 & E3). unfold feq, fadd. cbn [fst snd] in *.
    rewrite E1, E2, E3. repeat split; reflexivity.
Qed.

(* ---------- one summarised cell ---------- *)

Definition epsf (theta : Q) : Q := 9*theta + 8*theta*theta.
Definition kapf (theta : Q) : Q := epsf theta * (2 + epsf theta) * (1#2).

Lemma epsf_nonneg : forall theta, 0 <= theta -> 0 <= epsf theta.
Proof. intros theta H. unfold epsf. pose proof (sq_nonneg theta). nra. Qed.

Section Cell.
  Variables (data : list pt) (p com : pt) (c : cell) (theta : Q).
  Hypothesis Hth : 0 < theta.
  Hypothesis Hcom : contains c com = true.
  Hypothesis Hcrit : qmax (chh c) (chw c) * qmax (chh c) (chw c) < theta * theta * sqdist p com.

  Let Qc := 1 / (1 + sqdist p com).

  Lemma sqdist_nonneg : forall a b, 0 <= sqdist a b.
  Proof. intros a b. unfold sqdist. pose proof (sq_nonneg (fst a - fst b)). pose proof (sq_nonneg (snd a - snd b)). lra. Qed.

  Lemma point_bounds : forall y, contains c y = true ->
    let a := sqdist p y in
    (-(epsf theta * qij p y) <= Qc - qij p y /\ Qc - qij p y <= epsf theta * qij p y) /\
    (forall d : pt -> Q, (d = fst \/ d = snd) ->
       -(kapf theta * qij p y) <= (Qc*Qc - qij p y * qij p y) * (d p - d y) /\
       (Qc*Qc - qij p y * qij p y) * (d p - d y) <= kapf theta * qij p y).
  Proof.
    intros y Hy a.
    apply contains_iff in Hy. pose proof Hcom as Hc'. apply contains_iff in Hc'.
    set (m := qmax (chh c) (chw c)) in *.
    pose proof (qmax_ge_l (chh c) (chw c)) as M1. pose proof (qmax_ge_r (chh c) (chw c)) as M2. fold m in M1, M2.
    assert (Hm : 0 <= m) by lra.
    set (ux := fst com - fst y). set (uy := snd com - snd y).
    set (vx := fst p - fst com). set (vy := snd p - snd com).
    assert (Ea : a == (vx+ux)*(vx+ux) + (vy+uy)*(vy+uy)) by (unfold a, sqdist, ux, uy, vx, vy; ring).
    assert (Eb : sqdist p com == vx*vx + vy*vy) by (unfold sqdist, vx, vy; ring).
    assert (Hc2 : m*m < theta*theta*(vx*vx+vy*vy)) by (rewrite <- Eb; exact Hcrit).
    assert (Bx1 : -(2*m) <= ux) by (unfold ux; lra). assert (Bx2 : ux <= 2*m) by (unfold ux; lra).
    assert (By1 : -(2*m) <= uy) by (unfold uy; lra). assert (By2 : uy <= 2*m) by (unfold uy; lra).
    destruct (ab_close ux uy vx vy m theta Hth Hm Bx1 Bx2 By1 By2 Hc2) as (L & U).
    cbv zeta in L, U. rewrite <- Ea, <- Eb in L, U.
    pose proof (sqdist_nonneg p y) as Na. fold a in Na. pose proof (sqdist_nonneg p com) as Nb.
    pose proof (epsf_nonneg theta (Qlt_le_weak _ _ Hth)) as Ne.
    destruct (q_close a (sqdist p com) (epsf theta) Na Nb Ne L U) as (QL & QU).
    split; [split; assumption|].
    intros d Hd.
    assert (D1 : -(1+a) <= 2*(d p - d y) /\ 2*(d p - d y) <= 1+a).
    { pose proof (sq_nonneg (d p - d y - 1)) as S1. pose proof (sq_nonneg (d p - d y + 1)) as S2.
      pose proof (sq_nonneg (fst p - fst y)) as S3. pose proof (sq_nonneg (snd p - snd y)) as S4.
      assert (Ed : (d p - d y)*(d p - d y) <= a).
      { unfold a, sqdist. destruct Hd as [-> | ->]; lra. }
      assert (E1 : (d p - d y - 1)*(d p - d y - 1) == (d p - d y)*(d p - d y) - 2*(d p - d y) + 1) by ring.
      assert (E2 : (d p - d y + 1)*(d p - d y + 1) == (d p - d y)*(d p - d y) + 2*(d p - d y) + 1) by ring.
      split; lra. }
    destruct D1 as (D1 & D2).
    apply (f_close a (sqdist p com) (epsf theta) (d p - d y) Na Nb Ne QL QU D1 D2).
  Qed.

  Lemma cell_sums : forall l,
    (forall j, In j l -> contains c (pt_at data j) = true) ->
    (-(epsf theta * esq data p l) <= Qn (length l) * Qc - esq data p l /\
     Qn (length l) * Qc - esq data p l <= epsf theta * esq data p l) /\
    (forall d : pt -> Q, (d = fst \/ d = snd) ->
       -(kapf theta * esq data p l) <= Qc*Qc*(Qn (length l) * d p - sumd d data l) - ef d data p l /\
       Qc*Qc*(Qn (length l) * d p - sumd d data l) - ef d data p l <= kapf theta * esq data p l).
  Proof.
    induction l as [|j l IH]; intro Hin.
    - cbn [length esq ef sumd]. split; [rewrite Qn_0; split; lra|]. intros d _. rewrite Qn_0. split; lra.
    - assert (Hin' : forall k, In k l -> contains c (pt_at data k) = true) by (intros k Hk; apply Hin; right; exact Hk).
      destruct (IH Hin') as ((A1 & A2) & B).
      destruct (point_bounds (pt_at data j) (Hin j (or_introl eq_refl))) as ((P1 & P2) & PB).
      cbn [length esq ef sumd].
      split; [rewrite Qn_S; split; lra|].
      intros d Hd. rewrite Qn_S. destruct (B d Hd) as (B1 & B2). destruct (PB d Hd) as (C1 & C2).
      set (qj := qij p (pt_at data j)) in *.
      assert (E : Qc*Qc*((Qn (length l) + 1) * d p - (d (pt_at data j) + sumd d data l))
                  - (qj*qj*(d p - d (pt_at data j)) + ef d data p l)
                  == (Qc*Qc*(Qn (length l) * d p - sumd d data l) - ef d data p l)
                     + (Qc*Qc - qj*qj)*(d p - d (pt_at data j))) by ring.
      rewrite E. split; lra.
  Qed.
End Cell.

(* ---------- the bound as a relation on result triples ---------- *)

Definition bound (theta : Q) (r e : facc) : Prop :=
  (-(epsf theta * snd e) <= snd r - snd e /\ snd r - snd e <= epsf theta * snd e) /\
  (-(kapf theta * snd e) <= fst (fst r) - fst (fst e) /\ fst (fst r) - fst (fst e) <= kapf theta * snd e) /\
  (-(kapf theta * snd e) <= snd (fst r) - snd (fst e) /\ snd (fst r) - snd (fst e) <= kapf theta * snd e) /\
  0 <= snd e.

Lemma kapf_nonneg : forall theta, 0 <= theta -> 0 <= kapf theta.
Proof.
  intros theta H. unfold kapf. pose proof (epsf_nonneg theta H) as E.
  assert (0 <= epsf theta * (2 + epsf theta)) by (apply Qmult_le_0_compat; lra). lra.
Qed.

Lemma bound_feq : forall theta r r' e e', feq r r' -> feq e e' -> bound theta r e -> bound theta r' e'.
Proof.
  intros theta [[r0 r1] rs] [[r0' r1'] rs'] [[e0 e1] es] [[e0' e1'] es'] (A & B & C) (D & E & F).
  unfold bound. cbn [fst snd] in *. rewrite <- A, <- B, <- C, <- D, <- E, <- F. tauto.
Qed.

Lemma bound_add : forall theta r1 r2 e1 e2,
  bound theta r1 e1 -> bound theta r2 e2 -> bound theta (fadd r1 r2) (fadd e1 e2).
Proof.
  intros theta [[a0 a1] as_] [[b0 b1] bs] [[c0 c1] cs] [[d0 d1] ds].
  unfold bound, fadd. cbn [fst snd].
  intros ((A1 & A2) & (A3 & A4) & (A5 & A6) & A7) ((B1 & B2) & (B3 & B4) & (B5 & B6) & B7).
  repeat split; lra.
Qed.

Lemma bound_same : forall theta e, 0 <= theta -> 0 <= snd e -> bound theta e e.
Proof.
  intros theta [[e0 e1] es] Ht He. unfold bound. cbn [fst snd] in *.
  pose proof (epsf_nonneg theta Ht) as E. pose proof (kapf_nonneg theta Ht) as K.
  assert (0 <= epsf theta * es) by (apply Qmult_le_0_compat; assumption).
  assert (0 <= kapf theta * es) by (apply Qmult_le_0_compat; assumption).
  repeat split; lra.
Qed.

(* ---------- the accumulator is only added to ---------- *)

Lemma add_summary_acc : forall p cum com a,
  feq (add_summary p cum com a) (fadd a (add_summary p cum com (0, 0, 0))).
Proof.
  intros p cum com [[f0 f1] sq]. unfold add_summary, feq, fadd. cbn [fst snd].
  rewrite !Qred_correct. repeat split; ring.
Qed.

Lemma forces_at_acc : forall p i theta t a,
  feq (forces_at p i theta t a) (fadd a (forces_at p i theta t (0, 0, 0))).
Proof.
  intros p i theta t. induction t as [c st cum com | c cum com nw IH1 ne IH2 sw IH3 se IH4]; intro a.
  - cbn [forces_at]. destruct (cum =? 0)%nat; [apply feq_sym, fadd_0_r|].
    destruct (match st with Some (j, _) => (j =? i)%nat | None => false end); [apply feq_sym, fadd_0_r|].
    apply add_summary_acc.
  - cbn [forces_at]. destruct (cum =? 0)%nat; [apply feq_sym, fadd_0_r|].
    destruct (summary_ok c theta (sqdist p com)); [apply add_summary_acc|].
    set (z := (0, 0, 0) : facc).
    set (n1 := forces_at p i theta nw z). set (n2 := forces_at p i theta ne z).
    set (n3 := forces_at p i theta sw z). set (n4 := forces_at p i theta se z).
    assert (L : forall x, feq (forces_at p i theta se (forces_at p i theta sw (forces_at p i theta ne (forces_at p i theta nw x))))
                             (fadd (fadd (fadd (fadd x n1) n2) n3) n4)).
    { intro x.
      eapply feq_trans; [apply IH4|]. apply fadd_feq; [|apply feq_refl].
      eapply feq_trans; [apply IH3|]. apply fadd_feq; [|apply feq_refl].
      eapply feq_trans; [apply IH2|]. apply fadd_feq; [|apply feq_refl].
      apply IH1. }
    eapply feq_trans; [apply L|].
    eapply feq_trans; [|apply fadd_feq; [apply feq_refl | apply feq_sym, L]].
    fold z. destruct a as [[a0 a1] a2], n1 as [[b0 b1] b2], n2 as [[c0 c1] c2], n3 as [[d0 d1] d2], n4 as [[e0 e1] e2].
    unfold feq, fadd, z. cbn [fst snd]. repeat split; ring.
Qed.

(* ---------- the centre of mass lies in the cell's box ---------- *)

Lemma sumd_box : forall (d : pt -> Q) data l lo hi,
  (forall j, In j l -> lo <= d (pt_at data j) /\ d (pt_at data j) <= hi) ->
  Qn (length l) * lo <= sumd d data l /\ sumd d data l <= Qn (length l) * hi.
Proof.
  intros d data l lo hi H. induction l as [|j l IH]; cbn [length sumd].
  - rewrite Qn_0. split; lra.
  - rewrite Qn_S. destruct (H j (or_introl eq_refl)). destruct IH; [intros k Hk; apply H; right; exact Hk|].
    split; lra.
Qed.

Lemma mean_in_box : forall data l cum com c,
  l <> [] -> agg_ok data l cum com ->
  (forall j, In j l -> contains c (pt_at data j) = true) -> contains c com = true.
Proof.
  intros data l cum com c Hne (Hc & Hx & Hy) Hin.
  assert (Hpos : 0 < Qn cum).
  { rewrite Hc. destruct l; [congruence|]. cbn [length]. apply Qn_S_pos. }
  destruct (sumd_box fst data l (cx c - chw c) (cx c + chw c)) as (X1 & X2).
  { intros j Hj. specialize (Hin j Hj). apply contains_iff in Hin. lra. }
  destruct (sumd_box snd data l (cy c - chh c) (cy c + chh c)) as (Y1 & Y2).
  { intros j Hj. specialize (Hin j Hj). apply contains_iff in Hin. lra. }
  rewrite sumd_fst, <- Hx, <- Hc in X1, X2. rewrite sumd_snd, <- Hy, <- Hc in Y1, Y2.
  apply contains_iff.
  repeat split; apply (Qmult_le_l _ _ (Qn cum) Hpos); assumption.
Qed.

(* ---------- the tree ---------- *)

Lemma summary_ok_true : forall c theta D, summary_ok c theta D = true ->
  qmax (chh c) (chw c) * qmax (chh c) (chw c) < theta * theta * D /\ 0 < D.
Proof.
  intros c theta D H. unfold summary_ok in H. apply andb_true_iff in H. destruct H as [H1 H2].
  apply Qltb_true in H1. apply Qltb_true in H2. auto.
Qed.

Lemma bound_Inv : forall data l t,
  Inv data l t -> NoCo data l ->
  forall theta, 0 <= theta -> 8 * (theta * theta) <= 1 ->
  forall p i, nth_error data i = Some p ->
    bound theta (forces_at p i theta t (0, 0, 0)) (exact_sums data p i l).
Proof.
  intros data l t H.
  induction H as [c com | c j cnt cum com l Hj Hco Hin Hcnt Hagg
                 | c cum com nw ne sw se l l1 l2 l3 l4 HP I1 IH1 I2 IH2 I3 IH3 I4 IH4 HG HF Hins H2 Hagg];
    intros HN theta Ht Ht8 p i Hp.
  - cbn [forces_at exact_sums Nat.eqb]. apply bound_same; [exact Ht | cbn; lra].
  - pose proof (NoCo_singleton data l j HN Hj Hco) as El. subst l.
    destruct Hagg as (Hc & Hx & Hy). cbn [length] in Hc. subst cum.
    cbn [forces_at exact_sums Nat.eqb].
    destruct (j =? i)%nat; [apply bound_same; [exact Ht | cbn; lra]|].
    destruct Hin as (pj & Hpj & _).
    cbn [sumx sumy] in Hx, Hy. rewrite (pt_at_nth_error _ _ _ Hpj) in *.
    assert (E : pt_eq com pj).
    { change (Qn 1) with 1 in Hx, Hy. split; lra. }
    set (term := (qij p pj * qij p pj * (fst p - fst pj), qij p pj * qij p pj * (snd p - snd pj), qij p pj)).
    apply (bound_feq theta (fadd (0, 0, 0) term) _ (fadd term (0, 0, 0))).
    + apply feq_sym. apply (add_summary_one p com pj (0, 0, 0) E).
    + apply feq_refl.
    + apply (bound_feq theta term _ term); [apply feq_sym, fadd_0_l | apply feq_sym, fadd_0_r|].
      apply bound_same; [exact Ht|]. unfold term. cbn [snd]. pose proof (qij_pos p pj). lra.
  - cbn [forces_at].
    pose proof (NoCo_perm _ _ _ HP HN) as HN'.
    pose proof (NoCo_app_l _ _ _ HN') as N1.
    pose proof (NoCo_app_r _ _ _ HN') as HN2.
    pose proof (NoCo_app_l _ _ _ HN2) as N2.
    pose proof (NoCo_app_r _ _ _ HN2) as HN3.
    pose proof (NoCo_app_l _ _ _ HN3) as N3.
    pose proof (NoCo_app_r _ _ _ HN3) as N4.
    destruct (cum =? 0)%nat eqn:Ecum.
    { apply Nat.eqb_eq in Ecum. destruct Hagg as (Hc & _). rewrite Ecum in Hc.
      destruct l; [|discriminate]. cbn [exact_sums]. apply bound_same; [exact Ht | cbn; lra]. }
    destruct (summary_ok c theta (sqdist p com)) eqn:Esum.
    + (* the cell is used as a summary *)
      destruct (summary_ok_true _ _ _ Esum) as (Hcrit & HD).
      assert (Hne : l <> []).
      { destruct H2 as (a & _ & Ha & _). intro E. subst l. destruct Ha. }
      assert (Hbox : forall k, In k l -> contains c (pt_at data k) = true).
      { intros k Hk. destruct (Hins k Hk) as (y & Hy & Hcy). rewrite (pt_at_nth_error _ _ _ Hy). exact Hcy. }
      pose proof (mean_in_box data l cum com c Hne Hagg Hbox) as Hcom.
      set (m := qmax (chh c) (chw c)) in *.
      pose proof (sq_nonneg m) as Hmm. pose proof (sq_nonneg theta) as Htt.
      assert (Hth : 0 < theta).
      { destruct (Qlt_le_dec 0 theta) as [K|K]; [exact K|exfalso].
        assert (Z : theta == 0) by lra. rewrite Z in Hcrit. lra. }
      assert (Hnot : ~ In i l).
      { intro Hi. destruct (Hins i Hi) as (y & Hy & Hcy). rewrite Hp in Hy. injection Hy as <-.
        apply contains_iff in Hcy. pose proof Hcom as Hc'. apply contains_iff in Hc'.
        pose proof (qmax_ge_l (chh c) (chw c)) as M1. pose proof (qmax_ge_r (chh c) (chw c)) as M2. fold m in M1, M2.
        assert (Hm : 0 <= m) by lra.
        set (vx := fst p - fst com). set (vy := snd p - snd com).
        assert (Vx : vx*vx <= 4*m*m).
        { assert (P : 0 <= (2*m - vx)*(2*m+vx)) by (apply Qmult_le_0_compat; unfold vx; lra).
          assert (E1 : (2*m - vx)*(2*m+vx) == 4*m*m - vx*vx) by ring. lra. }
        assert (Vy : vy*vy <= 4*m*m).
        { assert (P : 0 <= (2*m - vy)*(2*m+vy)) by (apply Qmult_le_0_compat; unfold vy; lra).
          assert (E1 : (2*m - vy)*(2*m+vy) == 4*m*m - vy*vy) by ring. lra. }
        assert (ED : sqdist p com == vx*vx + vy*vy) by (unfold sqdist, vx, vy; ring).
        assert (K1 : theta*theta*sqdist p com <= theta*theta*(8*(m*m))).
        { rewrite (Qmult_comm (theta*theta) (sqdist p com)), (Qmult_comm (theta*theta) (8*(m*m))).
          apply Qmult_le_compat_r; [lra | exact Htt]. }
        assert (K2 : (8*(theta*theta))*(m*m) <= 1*(m*m)) by (apply Qmult_le_compat_r; assumption).
        assert (K3 : theta*theta*(8*(m*m)) == (8*(theta*theta))*(m*m)) by ring.
        lra. }
      destruct (cell_sums data p com c theta Hth Hcom Hcrit l Hbox) as ((S1 & S2) & SB).
      destruct (SB fst (or_introl eq_refl)) as (F1 & F2). destruct (SB snd (or_intror eq_refl)) as (G1 & G2).
      destruct Hagg as (Hc & Hx & Hy).
      rewrite sumd_fst in F1, F2. rewrite sumd_snd in G1, G2. rewrite <- Hc in S1, S2, F1, F2, G1, G2.
      rewrite <- Hx in F1, F2. rewrite <- Hy in G1, G2.
      apply (bound_feq theta (add_summary p cum com (0, 0, 0)) _ (ef fst data p l, ef snd data p l, esq data p l));
        [apply feq_refl | apply feq_sym, exact_sums_notin; exact Hnot |].
      unfold bound, add_summary. cbn [fst snd]. rewrite !Qred_correct.
      set (q := 1 / (1 + sqdist p com)) in *.
      pose proof (esq_nonneg data p l) as He.
      assert (EA : 0 + Qn cum * q * q * (fst p - fst com) == q * q * (Qn cum * fst p - Qn cum * fst com)) by ring.
      assert (EB : 0 + Qn cum * q * q * (snd p - snd com) == q * q * (Qn cum * snd p - Qn cum * snd com)) by ring.
      assert (EC : 0 + Qn cum * q == Qn cum * q) by ring.
      rewrite EA, EB, EC. repeat split; assumption.
    + (* recursion into the four children *)
      set (z := (0, 0, 0) : facc).
      pose proof (IH1 N1 theta Ht Ht8 p i Hp) as B1. pose proof (IH2 N2 theta Ht Ht8 p i Hp) as B2.
      pose proof (IH3 N3 theta Ht Ht8 p i Hp) as B3. pose proof (IH4 N4 theta Ht Ht8 p i Hp) as B4.
      fold z in B1, B2, B3, B4.
      apply (bound_feq theta
               (fadd (fadd (fadd (forces_at p i theta nw z) (forces_at p i theta ne z)) (forces_at p i theta sw z))
                     (forces_at p i theta se z)) _
               (fadd (fadd (fadd (exact_sums data p i l1) (exact_sums data p i l2)) (exact_sums data p i l3))
                     (exact_sums data p i l4))).
      * apply feq_sym.
        eapply feq_trans; [apply forces_at_acc|]. apply fadd_feq; [|apply feq_refl].
        eapply feq_trans; [apply forces_at_acc|]. apply fadd_feq; [|apply feq_refl].
        eapply feq_trans; [apply forces_at_acc|]. apply fadd_feq; [|apply feq_refl].
        apply feq_refl.
      * apply feq_sym.
        eapply feq_trans; [apply (exact_sums_perm data p i _ _ HP)|].
        eapply feq_trans; [apply exact_sums_app|].
        eapply feq_trans; [apply fadd_feq; [apply feq_refl | apply exact_sums_app]|].
        eapply feq_trans; [apply fadd_feq; [apply feq_refl | apply fadd_feq; [apply feq_refl | apply exact_sums_app]]|].
        eapply feq_trans; [apply feq_sym, fadd_assoc|].
        eapply feq_trans; [apply feq_sym, fadd_assoc|].
        apply feq_refl.
      * apply bound_add; [apply bound_add; [apply bound_add|]|]; assumption.
Qed.

Theorem forces_error_bound_gen : forall fx fuel data order root ok t,
  (forall i, In i order -> inside data root i) ->
  NoCo data order ->
  fill_order fx fuel data order (init root) = Done ok t ->
  forall theta, 0 <= theta -> 8 * (theta * theta) <= 1 ->
  forall i p a, nth_error data i = Some p ->
    exists r r0, forces data i theta t a = FDone r /\ feq r (fadd a r0) /\
                 bound theta r0 (exact_sums data p i order).
Proof.
  intros fx fuel data order root ok t Hin HN E theta Ht Ht8 i p a Hi.
  assert (Hm : mode fx data order) by (right; exact HN).
  destruct (build_Inv fx fuel data order root Hin Hm) as [[E' _]|(t' & E' & I & Ec)]; rewrite E in E'.
  - discriminate.
  - injection E' as -> ->.
    exists (forces_at p i theta t' a), (forces_at p i theta t' (0, 0, 0)).
    split; [apply forces_forces_at; exact Hi|]. split; [apply forces_at_acc|].
    assert (HN' : NoCo data (rev order)) by (apply (NoCo_perm data order); [apply Permutation_rev | exact HN]).
    apply (bound_feq theta (forces_at p i theta t' (0, 0, 0)) _ (exact_sums data p i (rev order)));
      [apply feq_refl | apply exact_sums_perm; apply Permutation_sym, Permutation_rev |].
    apply (bound_Inv data (rev order) t' I HN' theta Ht Ht8 p i Hi).
Qed.
