(* Par_Team_Proof.v — property C15, wave 3: the iteration space of a region is covered exactly once by the team
   that RUNS it, for every team size 1..max — or it is not, and then the rows of the missing threads are never
   written.

   cyc_in                  the loop  for (k = first; k < n; k += step)  visits exactly first + q*step < n
   cyclic_valid            stride = team size: a valid assignment for EVERY n and EVERY team size >= 1
   cyclic_partial          stride >= team size: every iteration at most once
   cyclic_covered_iff      ... and iteration i is executed iff  i mod stride < team
   cyclic_max_refuted      stride > team size (omp_get_max_threads() read before the region, a smaller team runs
                           it): iteration `team` is executed by nobody
   orphan_partial / orphan_refuted / orphan_valid_iff
                           an orphaned worksharing loop: one call executes the caller's share only
   dist_ok_valid           accepted descriptor => valid assignment in every environment
   dist_max_refuted, dist_outside_refuted, dist_orphan_refuted      the rejected forms, for all n and environments
   region_team_bernstein   accepted footprints + accepted distribution => race-free and equal to the serial run for
                           every team size, every runtime schedule, every interleaving
   region_team_partial     accepted footprints + stride omp_get_max_threads(): every key written only by iterations
                           i with i mod max >= team keeps its INITIAL value when the region is done *)
From Coq Require Import List Arith Bool Lia ZArith.
Import ListNotations.
From TK Require Import Par_Model Par_Spec Par_Proof Par_Region_Model Par_Region_Proof Par_Team_Model.

(* ------------------------------------------------------------------ the hand-made loop *)
Lemma cyc_ge : forall fuel k step n i, In i (cyc fuel k step n) -> k <= i.
Proof.
  induction fuel as [|f IH]; intros k step n i Hin; [destruct Hin|].
  cbn [cyc] in Hin. destruct (k <? n); [|destruct Hin].
  destruct Hin as [->|Hin]; [lia|]. apply IH in Hin. lia.
Qed.

Lemma cyc_in : forall fuel k step n, 1 <= step -> n - k <= fuel ->
  forall i, In i (cyc fuel k step n) <-> (i < n /\ exists q, i = k + q * step).
Proof.
  induction fuel as [|f IH]; intros k step n Hs Hf i.
  - cbn. split; [intros []|]. intros (Hi & q & ->). nia.
  - cbn [cyc]. destruct (k <? n) eqn:E.
    + apply Nat.ltb_lt in E. cbn [In]. rewrite (IH (k + step) step n Hs ltac:(lia) i). split.
      * intros [<-|(Hi & q & ->)].
        -- split; [exact E|]. exists 0. lia.
        -- split; [exact Hi|]. exists (S q). lia.
      * intros (Hi & q & ->). destruct q as [|q]; [left; lia|].
        right. split; [exact Hi|]. exists q. lia.
    + apply Nat.ltb_ge in E. split; [intros []|]. intros (Hi & q & ->). nia.
Qed.

Lemma cyc_nodup : forall fuel k step n, 1 <= step -> NoDup (cyc fuel k step n).
Proof.
  induction fuel as [|f IH]; intros k step n Hs; [constructor|].
  cbn [cyc]. destruct (k <? n); [|constructor].
  constructor; [|apply IH; exact Hs].
  intros Hin. apply cyc_ge in Hin. lia.
Qed.

Lemma cyclic_in : forall team step n, 1 <= step -> forall t i,
  In i (cyclic_asg team step n t) <-> (t < team /\ i < n /\ exists q, i = t + q * step).
Proof.
  intros team step n Hs t i. unfold cyclic_asg. destruct (t <? team) eqn:E.
  - apply Nat.ltb_lt in E. rewrite (cyc_in n t step n Hs ltac:(lia) i). tauto.
  - apply Nat.ltb_ge in E. split; [intros []|]. intros (Ht & _). lia.
Qed.

Lemma add_mul_mod : forall t q step, t < step -> (t + q * step) mod step = t.
Proof.
  intros t q step Ht. rewrite Nat.mod_add by lia. apply Nat.mod_small. exact Ht.
Qed.

Theorem cyclic_partial : forall n team step, 1 <= step -> team <= step ->
  partial_asg n (cyclic_asg team step n).
Proof.
  intros n team step Hs Hts. repeat split.
  - intros t. unfold cyclic_asg. destruct (t <? team); [apply cyc_nodup; exact Hs|constructor].
  - intros t u i Ht Hu. apply (cyclic_in team step n Hs) in Ht. apply (cyclic_in team step n Hs) in Hu.
    destruct Ht as (Ht & _ & q & E1). destruct Hu as (Hu & _ & q' & E2).
    assert (A : i mod step = t) by (rewrite E1; apply add_mul_mod; lia).
    assert (B : i mod step = u) by (rewrite E2; apply add_mul_mod; lia).
    congruence.
  - intros t i Ht. apply (cyclic_in team step n Hs) in Ht. tauto.
Qed.

Theorem cyclic_covered_iff : forall n team step, 1 <= step -> team <= step ->
  forall i, i < n -> (covered (cyclic_asg team step n) i <-> i mod step < team).
Proof.
  intros n team step Hs Hts i Hi. split.
  - intros (t & Ht). apply (cyclic_in team step n Hs) in Ht. destruct Ht as (Ht & _ & q & ->).
    rewrite add_mul_mod by lia. exact Ht.
  - intros Hm. exists (i mod step). apply (cyclic_in team step n Hs). split; [exact Hm|]. split; [exact Hi|].
    exists (i / step). pose proof (Nat.div_mod i step ltac:(lia)). lia.
Qed.

(* stride = the size of the team that runs the region: every iteration exactly once, whatever the team size *)
Theorem cyclic_valid : forall n team, 1 <= team -> valid_asg n (cyclic_asg team team n).
Proof.
  intros n team Ht. destruct (cyclic_partial n team team Ht (le_n _)) as (A & B & C0).
  repeat split; try assumption.
  intros i Hi. apply (cyclic_covered_iff n team team Ht (le_n _) i Hi). apply Nat.mod_upper_bound. lia.
Qed.

(* stride larger than the team (omp_get_max_threads() when a smaller team runs the region): iteration number
   `team` — the first one of the first missing thread — is executed by nobody *)
Theorem cyclic_max_refuted : forall n team step, team < step -> team < n ->
  ~ covered (cyclic_asg team step n) team.
Proof.
  intros n team step Hts Hn Hc.
  apply (cyclic_covered_iff n team step ltac:(lia) ltac:(lia) team Hn) in Hc.
  rewrite Nat.mod_small in Hc by exact Hts. lia.
Qed.

(* ------------------------------------------------------------------ orphaned worksharing *)
Theorem orphan_partial : forall n sched tid, valid_asg n sched -> partial_asg n (orphan_asg sched tid).
Proof.
  intros n sched tid (A & B & C0 & _). unfold orphan_asg. repeat split.
  - intros t. destruct (t =? tid); [apply A|constructor].
  - intros t u i Ht Hu. destruct (t =? tid) eqn:E1; [|destruct Ht]. destruct (u =? tid) eqn:E2; [|destruct Hu].
    apply Nat.eqb_eq in E1, E2. congruence.
  - intros t i Ht. destruct (t =? tid); [exact (C0 tid i Ht)|destruct Ht].
Qed.

(* what the runtime gave to ANOTHER thread of the caller's team is not executed on this call's data *)
Theorem orphan_refuted : forall n sched tid u i, valid_asg n sched -> u <> tid -> In i (sched u) ->
  ~ covered (orphan_asg sched tid) i.
Proof.
  intros n sched tid u i (_ & B & _) Hne Hin (t & Ht). unfold orphan_asg in Ht.
  destruct (t =? tid); [|destruct Ht]. apply Hne. exact (B u tid i Hin Ht).
Qed.

(* an orphaned loop is complete exactly when the runtime gives every iteration to the calling thread
   (a caller's team of one thread: the routine is called from serial code) *)
Theorem orphan_valid_iff : forall n sched tid, valid_asg n sched ->
  (valid_asg n (orphan_asg sched tid) <-> forall u i, In i (sched u) -> u = tid).
Proof.
  intros n sched tid Hv. split.
  - intros (_ & _ & _ & D) u i Hin. destruct (Nat.eq_dec u tid) as [E|E]; [exact E|exfalso].
    assert (Hi : i < n) by (destruct Hv as (_ & _ & C0 & _); exact (C0 u i Hin)).
    exact (orphan_refuted n sched tid u i Hv E Hin (D i Hi)).
  - intros Hall. destruct (orphan_partial n sched tid Hv) as (A & B & C0). repeat split; try assumption.
    intros i Hi. destruct Hv as (_ & _ & _ & D). destruct (D i Hi) as (u & Hu).
    exists tid. unfold orphan_asg. rewrite Nat.eqb_refl. rewrite <- (Hall u i Hu). exact Hu.
Qed.

Lemma cyclic_partial_covered : forall n team step, 1 <= step -> team <= step ->
  partial_asg n (cyclic_asg team step n) /\
  forall i, i < n -> (covered (cyclic_asg team step n) i <-> i mod step < team).
Proof.
  intros n team step H1 H2. exact (conj (cyclic_partial n team step H1 H2) (cyclic_covered_iff n team step H1 H2)).
Qed.

Lemma orphan_all : forall n sched tid, valid_asg n sched ->
  partial_asg n (orphan_asg sched tid) /\
  (forall u i, u <> tid -> In i (sched u) -> ~ covered (orphan_asg sched tid) i) /\
  (valid_asg n (orphan_asg sched tid) <-> forall u i, In i (sched u) -> u = tid).
Proof.
  intros n sched tid H. exact (conj (orphan_partial n sched tid H)
    (conj (fun u i Hne Hin => orphan_refuted n sched tid u i H Hne Hin) (orphan_valid_iff n sched tid H))).
Qed.

(* ------------------------------------------------------------------ descriptors *)
Definition env_ok (e : env) (n : nat) : Prop :=
  1 <= e_team e /\ e_team e <= e_max e /\ 1 <= e_outer e /\ e_tid e < e_outer e /\ valid_asg n (e_sched e).

(* an accepted descriptor induces a valid assignment for every iteration count, every team size 1..max, every
   caller's team, every runtime schedule *)
Theorem dist_ok_valid : forall d, dist_ok d = true ->
  forall e n, env_ok e n -> valid_asg n (dist_asg d e n).
Proof.
  intros d Hd e n (Ht & _ & _ & _ & Hs).
  destruct d as [[|]|[|] [| | | |]|]; try discriminate Hd; cbn [dist_asg step_val].
  - exact Hs.
  - apply cyclic_valid. exact Ht.
Qed.

(* stride omp_get_max_threads(): whenever the team is smaller than that and there are more iterations than
   threads in the team, an iteration is lost *)
Theorem dist_max_refuted : forall e n, env_ok e n -> e_team e < e_max e -> e_team e < n ->
  partial_asg n (dist_asg (DCyclic FirstTid SrcMaxThreads) e n) /\
  ~ covered (dist_asg (DCyclic FirstTid SrcMaxThreads) e n) (e_team e) /\
  ~ valid_asg n (dist_asg (DCyclic FirstTid SrcMaxThreads) e n).
Proof.
  intros e n (Ht & Hm & _) Hlt Hn. cbn [dist_asg step_val].
  assert (Hu := cyclic_max_refuted n (e_team e) (e_max e) Hlt Hn).
  split; [apply cyclic_partial; lia|]. split; [exact Hu|].
  intros (_ & _ & _ & D). exact (Hu (D (e_team e) Hn)).
Qed.

(* stride omp_get_num_threads() evaluated OUTSIDE the region (the caller's team size): too small a stride runs
   iterations twice (two threads of the team then execute the same iteration: a race), too large loses some *)
Theorem dist_outside_refuted : forall e n, env_ok e n -> e_team e < e_outer e -> e_team e < n ->
  ~ valid_asg n (dist_asg (DCyclic FirstTid SrcOutside) e n).
Proof.
  intros e n (Ht & _ & Ho & _) Hlt Hn. cbn [dist_asg step_val].
  intros (_ & _ & _ & D). exact (cyclic_max_refuted n (e_team e) (e_outer e) Hlt Hn (D (e_team e) Hn)).
Qed.

Theorem dist_orphan_refuted : forall e n, env_ok e n ->
  partial_asg n (dist_asg (DWorkshare false) e n) /\
  (forall u i, u <> e_tid e -> In i (e_sched e u) -> ~ covered (dist_asg (DWorkshare false) e n) i) /\
  (valid_asg n (dist_asg (DWorkshare false) e n) <-> forall u i, In i (e_sched e u) -> u = e_tid e).
Proof.
  intros e n (_ & _ & _ & _ & Hs). cbn [dist_asg]. split; [exact (orphan_partial n _ _ Hs)|]. split.
  - intros u i Hne Hin. exact (orphan_refuted n _ _ u i Hs Hne Hin).
  - exact (orphan_valid_iff n _ _ Hs).
Qed.

(* ------------------------------------------------------------------ regions *)
(* footprints accepted by check_shared + distribution accepted by dist_ok: for EVERY environment (team size 1..max,
   any caller's team, any runtime schedule), every interleaving: no race, and the result of the serial run *)
Theorem region_team_bernstein : forall (V C : Type) (accs : list access) (d : dist) (n : nat)
    (body : nat -> prog key V C) (m0 : key -> V),
  check_shared accs = true -> dist_ok d = true ->
  (forall i, (i < n)%nat -> within (Ad accs i) (Wd accs i) (body i)) ->
  (forall i, (i < n)%nat -> reinit (fun _ => False) (body i)) ->
  forall e, env_ok e n ->
  forall p0 p0' sch qs st,
    run_sched key_eqb sch (init_queues body (dist_asg d e n), mkState m0 p0 []) = (qs, st) ->
    ~ race qs /\
    (done qs ->
       let sq := seq_run key_eqb body (seq 0 n) (mkState m0 p0' []) in
       (forall x, sh st x = sh sq x) /\ (forall i, proj i (clog st) = proj i (clog sq))).
Proof.
  intros V C accs d n body m0 Hc Hd Hw Hr e He p0 p0' sch qs st Hrun.
  exact (region_bernstein V C accs n body m0 Hc Hw Hr (dist_asg d e n) p0 p0' sch qs st
           (dist_ok_valid d Hd e n He) Hrun).
Qed.

(* the same footprints with the stride taken from omp_get_max_threads(): still no race, but when the region is
   done every key that only iterations i with  i mod max >= team  write still holds its INITIAL value (and the keys
   of the executed iterations hold what the serial run leaves there): "the rows of the missing threads are never
   written" *)
Theorem region_team_partial : forall (V C : Type) (accs : list access) (n : nat)
    (body : nat -> prog key V C) (m0 : key -> V) (pref : nat -> key -> V),
  check_shared accs = true ->
  (forall i, (i < n)%nat -> within (Ad accs i) (Wd accs i) (body i)) ->
  (forall i, (i < n)%nat -> reinit (fun _ => False) (body i)) ->
  forall e, env_ok e n ->
  forall p0 sch qs st,
    run_sched key_eqb sch (init_queues body (dist_asg (DCyclic FirstTid SrcMaxThreads) e n), mkState m0 p0 []) = (qs, st) ->
    ~ race qs /\
    (done qs ->
       (forall i x, i < n -> i mod e_max e < e_team e -> Wd accs i x ->
          sh st x = Final key key_eqb V C body m0 pref i x) /\
       (forall x, (forall i, i < n -> Wd accs i x -> e_team e <= i mod e_max e) -> sh st x = m0 x)).
Proof.
  intros V C accs n body m0 pref Hc Hw Hr e (Ht & Hm & _) p0 sch qs st Hrun.
  pose proof (region_fp_disjoint accs Hc n) as Hd.
  cbn [dist_asg step_val] in Hrun.
  assert (Hp : partial_asg n (cyclic_asg (e_team e) (e_max e) n)) by (apply cyclic_partial; lia).
  destruct (bernstein_partial key key_eqb key_eqb_spec V C n body (Ad accs) (Wd accs) Hd Hw Hr m0 pref
              _ p0 sch qs st Hp Hrun) as [Hnr Hdn].
  split; [exact Hnr|]. intros Hdone. destruct (Hdn Hdone) as (A & B & _). split.
  - intros i x Hi Hmod Hx. apply (A i x Hi); [|exact Hx].
    apply (cyclic_covered_iff n (e_team e) (e_max e) ltac:(lia) Hm i Hi). exact Hmod.
  - intros x Hx. apply B. intros i Hi HWi Hcov.
    apply (cyclic_covered_iff n (e_team e) (e_max e) ltac:(lia) Hm i Hi) in Hcov.
    specialize (Hx i Hi HWi). lia.
Qed.

(* ------------------------------------------------------------------ concrete instances (non-vacuity, witnesses) *)
From Coq Require Import String.
From TK Require Import Par_Fill_Model.

(* the hypotheses are satisfiable: the witness environment (a team of ONE thread inside a caller's team of 3,
   omp_get_max_threads() = 4) is a legal one *)
Example team_env_example : env_ok (witness_env 5) 5 /\ dist_ok (DWorkshare true) = true /\
  dist_ok (DCyclic FirstTid SrcTeam) = true /\ dist_ok (DCyclic FirstTid SrcMaxThreads) = false /\
  dist_ok (DWorkshare false) = false.
Proof.
  split; [|repeat split; reflexivity].
  unfold env_ok, witness_env; cbn [e_team e_max e_outer e_tid e_sched]. repeat split; try lia.
  - apply (cyclic_valid 5 3). lia.
  - apply (cyclic_valid 5 3). lia.
  - apply (cyclic_valid 5 3). lia.
  - apply (cyclic_valid 5 3). lia.
Qed.

(* 5 rows, stride 4 = omp_get_max_threads(), team of one: thread 0 runs rows 0 and 4, rows 1 2 3 are nobody's;
   the orphaned loop called by thread 0 of a team of three: rows 0 and 3 only *)
Example team_max_example :
  dist_asg (DCyclic FirstTid SrcMaxThreads) (witness_env 5) 5 0 = [0; 4] /\
  uncovered (dist_asg (DCyclic FirstTid SrcMaxThreads) (witness_env 5) 5) 8 5 = [1; 2; 3] /\
  uncovered (dist_asg (DCyclic FirstTid SrcTeam) (witness_env 5) 5) 8 5 = [] /\
  dist_asg (DWorkshare false) (witness_env 5) 5 0 = [0; 3] /\
  uncovered (dist_asg (DWorkshare false) (witness_env 5) 5) 8 5 = [1; 2; 4] /\
  uncovered (dist_asg (DWorkshare true) (witness_env 5) 5) 8 5 = [].
Proof. repeat split; vm_compute; reflexivity. Qed.

(* the symmetric fill of Par_Fill_Model as a PROGRAM under that distribution: the run completes, the executed rows
   hold the serial values, row 1 still holds the initial memory (-1) where the serial run leaves f(1,1) = 11 *)
Definition team_fx (i j : nat) : Z := Z.of_nat (10 * i + j).
Definition team_m0 : key -> Z := fun _ => (-1)%Z.
Definition team_final (d : dist) :=
  run_sched key_eqb (repeat 0 64)
    (init_queues (sym_body Z (list (Z * Z * Z)) "dm" team_fx 5) (dist_asg d (witness_env 5) 5),
     mkState team_m0 (fun _ _ => 0%Z) []).
Definition team_serial :=
  seq_run key_eqb (sym_body Z (list (Z * Z * Z)) "dm" team_fx 5) (seq 0 5) (mkState team_m0 (fun _ _ => 0%Z) []).

Example team_max_program_refuted :
  fst (team_final (DCyclic FirstTid SrcMaxThreads)) 0 = [] /\
  sh (snd (team_final (DCyclic FirstTid SrcMaxThreads))) (mkey "dm" 0 4) = 4%Z /\
  sh (snd (team_final (DCyclic FirstTid SrcMaxThreads))) (mkey "dm" 4 4) = 44%Z /\
  sh (snd (team_final (DCyclic FirstTid SrcMaxThreads))) (mkey "dm" 1 1) = (-1)%Z /\
  sh team_serial (mkey "dm" 1 1) = 11%Z /\
  sh (snd (team_final (DCyclic FirstTid SrcTeam))) (mkey "dm" 1 1) = 11%Z /\
  sh (snd (team_final (DWorkshare false))) (mkey "dm" 2 2) = (-1)%Z /\
  sh team_serial (mkey "dm" 2 2) = 22%Z.
Proof. repeat split; vm_compute; reflexivity. Qed.
