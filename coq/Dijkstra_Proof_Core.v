(* Dijkstra_Proof_Core.v — the part of Dijkstra's invariant that both queue
   flavours share, and what it yields when the queue is empty. *)
From Coq Require Import List ZArith Bool Arith Lia.
From TK Require Import Dijkstra_Model Dijkstra_Spec Dijkstra_Proof_Base.
Import ListNotations.
Local Open Scope Z_scope.

Definition D (st : dstate) (v : nat) : option Z := nth v (d_dist st) None.
Definition Sd (st : dstate) (v : nat) : bool := nth v (d_s st) false.
Definition Fd (st : dstate) (v : nat) : bool := nth v (d_f st) false.

Section Core.
  Variable nbrs : list (list nat).
  Variable w : nat -> nat -> Z.
  Variables N K : nat.
  Variable k : nat.                      (* the source of this row *)
  Hypothesis Hwf : wf_graph nbrs N K.
  Hypothesis Hnn : nonneg_w nbrs w.
  Hypothesis Hk : (k < N)%nat.

  (* `pend x v` : the edge x -> v of a settled x that the inner loop has not reached yet *)
  Record inv_core (pend : nat -> nat -> Prop) (st : dstate) : Prop := {
    ic_len_d : length (d_dist st) = N;
    ic_len_s : length (d_s st) = N;
    ic_src : D st k = Some 0;
    (* every tentative distance is the weight of a walk; the walk of a vertex uses
       at most as many edges as there are settled vertices (one fewer once settled) *)
    ic_sound : forall v d, D st v = Some d ->
        exists n, pathn nbrs w k v d n /\ (n + b2n (Sd st v) <= count_true (d_s st))%nat;
    ic_closed : forall u v du, Sd st u = true -> edge nbrs u v -> D st u = Some du ->
        pend u v \/ exists dv, D st v = Some dv /\ dv <= du + w u v;
    ic_fin : forall u, Sd st u = true -> exists du, D st u = Some du;
    ic_front : forall v d, (v < N)%nat -> Sd st v = false -> D st v = Some d ->
        In (v, d) (d_heap st);
    ic_mono : forall x dx y d, Sd st x = true -> D st x = Some dx ->
        In (y, d) (d_heap st) -> dx <= d }.

  Lemma inv_core_weaken : forall (P Q : nat -> nat -> Prop) st,
      (forall x v, P x v -> Q x v) -> inv_core P st -> inv_core Q st.
  Proof.
    intros P Q st HPQ [H1 H2 H3 H4 H5 H6 H7 H8]. constructor; auto.
    intros u v du Hs He Hd. destruct (H5 u v du Hs He Hd) as [Hp|Hr]; [left; auto | right; auto].
  Qed.

  Lemma D_lt : forall st v d, length (d_dist st) = N -> D st v = Some d -> (v < N)%nat.
  Proof.
    intros st v d HL Hd. unfold D in Hd. destruct (Nat.lt_ge_cases v N) as [H|H]; [assumption|].
    rewrite nth_overflow in Hd by lia. discriminate.
  Qed.

  Lemma Sd_lt : forall st v, length (d_s st) = N -> Sd st v = true -> (v < N)%nat.
  Proof.
    intros st v HL Hd. unfold Sd in Hd. destruct (Nat.lt_ge_cases v N) as [H|H]; [assumption|].
    rewrite nth_overflow in Hd by lia. discriminate.
  Qed.

  Lemma key_lemma : forall st, inv_core (fun _ _ => False) st ->
      forall v W n, pathn nbrs w k v W n ->
      (exists dv, D st v = Some dv /\ dv <= W /\ Sd st v = true) \/
      (exists x dx, (x < N)%nat /\ Sd st x = false /\ D st x = Some dx /\ dx <= W).
  Proof.
    intros st HI v W n HP. induction HP as [|u v W n HP IH He].
    - destruct (Sd st k) eqn:Es.
      + left. exists 0. split; [apply (ic_src _ _ HI) | split; [lia | reflexivity]].
      + right. exists k, 0. split; [assumption | split; [assumption | split; [apply (ic_src _ _ HI) | lia]]].
    - pose proof (Hnn u v He) as Hw.
      destruct IH as [(du & Hdu & Hle & Hsu) | (x & dx & Hx & Hsx & Hdx & Hle)].
      + destruct (ic_closed _ _ HI u v du Hsu He Hdu) as [[]|(dv & Hdv & Hle2)].
        destruct (Sd st v) eqn:Es.
        * left. exists dv. split; [assumption | split; [lia | reflexivity]].
        * right. exists v, dv. split; [apply (edge_lt nbrs N K Hwf u v He) |].
          split; [assumption | split; [assumption | lia]].
      + right. exists x, dx. split; [assumption | split; [assumption | split; [assumption | lia]]].
  Qed.

  (* when the queue is empty every row entry is the shortest-path weight *)
  Lemma final_core : forall st, inv_core (fun _ _ => False) st -> d_heap st = [] ->
      forall v, (v < N)%nat ->
        is_sp nbrs w k v (D st v) /\
        (forall d, D st v = Some d -> exists n, pathn nbrs w k v d n /\ (n <= N)%nat).
  Proof.
    intros st HI Hh v Hv.
    assert (Hkey : forall W n, pathn nbrs w k v W n ->
                               exists dv, D st v = Some dv /\ dv <= W).
    { intros W n HP. destruct (key_lemma st HI v W n HP)
        as [(dv & Hdv & Hle & _) | (x & dx & Hx & Hsx & Hdx & Hle)].
      - exists dv; auto.
      - pose proof (ic_front _ _ HI x dx Hx Hsx Hdx) as Hin. rewrite Hh in Hin. destruct Hin. }
    split.
    - destruct (D st v) as [d|] eqn:Ed; cbn.
      + split.
        * destruct (ic_sound _ _ HI v d Ed) as (n & HP & _). exists n; assumption.
        * intros W [n HP]. destruct (Hkey W n HP) as (dv & Hdv & Hle). congruence.
      + intros W [n HP]. destruct (Hkey W n HP) as (dv & Hdv & _). discriminate.
    - intros d Ed. destruct (ic_sound _ _ HI v d Ed) as (n & HP & Hn). exists n. split; [assumption|].
      pose proof (count_true_le (d_s st)) as Hc. rewrite (ic_len_s _ _ HI) in Hc. lia.
  Qed.

  (* the initial state satisfies the shared invariant, whatever f is *)
  Lemma init_core : forall f,
      inv_core (fun _ _ => False)
               (mkD (upd (repeat None N) k (Some 0)) (repeat false N) f [(k, 0)]).
  Proof.
    intros f.
    assert (HD : forall v d, D (mkD (upd (repeat None N) k (Some 0)) (repeat false N) f [(k, 0)]) v
                             = Some d -> v = k /\ d = 0).
    { intros v d. unfold D; cbn [d_dist]. destruct (Nat.eq_dec k v) as [->|Hne].
      - rewrite nth_upd_eq by (rewrite repeat_length; assumption). intros H; inversion H; auto.
      - rewrite nth_upd_neq by assumption. rewrite nth_repeat_any. discriminate. }
    assert (HS : forall v, Sd (mkD (upd (repeat None N) k (Some 0)) (repeat false N) f [(k, 0)]) v
                           = false).
    { intros v. unfold Sd; cbn [d_s]. apply nth_repeat_any. }
    constructor; cbn [d_dist d_s d_heap].
    - rewrite upd_length. apply repeat_length.
    - apply repeat_length.
    - unfold D; cbn [d_dist]. apply nth_upd_eq. rewrite repeat_length. assumption.
    - intros v d Hd. destruct (HD v d Hd) as [-> ->]. exists 0%nat. split; [constructor|].
      rewrite HS. cbn. lia.
    - intros u v du Hs. rewrite HS in Hs. discriminate.
    - intros u Hs. rewrite HS in Hs. discriminate.
    - intros v d _ _ Hd. destruct (HD v d Hd) as [-> ->]. left; reflexivity.
    - intros x dx y d Hs. rewrite HS in Hs. discriminate.
  Qed.
End Core.
