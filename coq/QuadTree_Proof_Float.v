(* QuadTree_Proof_Float.v — binary64 facts about the box arithmetic of quadtree.hpp (model: QuadTree_Float_Model.v,
   Coq primitive floats).  The exact-arithmetic theorem children_cover (Properties_C18) is FALSE in binary64:
   known finding F25-quadtree-binary64-crack-at-cell-edge.  Witnesses = corpus/C18/f25_crack_point_dropped.json and
   corpus/C18/f25_crack_phantom_mass.json (the real code is run on them on every check run and must agree with this
   model cell by cell). *)
From Coq Require Import Floats ZArith List Bool.
From TK Require Import QuadTree_Float_Model.
Import ListNotations.
Local Open Scope float_scope.

(* ---- face (a): a point the cell has accepted is rejected by all four children: dropped ---- *)
Definition f25a_root : fcell :=
  mkFCell 0x1.7183dddfa8010p-1 (-0x1.54b103e9d9c40p-5) 0x1.731faf7e87d08p-2 0x1.fd249a080ac22p+0.
Definition f25a_p : fpt := (0x1.6fe80c40c8319p-2, 0x1.e7d989c96d25fp-1).
Definition f25a_cell : fcell := fdescend [2%nat; 2%nat] f25a_root.      (* root -> SW -> SW *)

Lemma f25a_cell_value :
  fcell_same f25a_cell
    (mkFCell 0x1.ccaff8206a25ap-2 0x1.7335eb66b9438p+0 0x1.731faf7e87d08p-4 0x1.fd249a080ac22p-2) = true.
Proof. vm_compute. reflexivity. Qed.

Lemma children_cover_binary64_refuted_gen :
  exists (c : fcell) (p : fpt),
    fcontains c p = true /\
    fcontains (fnwc c) p = false /\ fcontains (fnec c) p = false /\
    fcontains (fswc c) p = false /\ fcontains (fsec c) p = false.
Proof. exists f25a_cell, f25a_p. vm_compute. repeat split. Qed.

(* the same witness from the root box: insert() routes the point root -> SW -> SW (at each level the first child,
   in the order NW NE SW SE, whose box accepts it), that cell accepts it, none of its children does *)
Lemma point_dropped_binary64_gen :
  exists (root : fcell) (p : fpt),
    fcontains root p = true /\
    ffirst_child root p = Some 2%nat /\
    ffirst_child (fchild 2 root) p = Some 2%nat /\
    fcontains (fdescend [2%nat; 2%nat] root) p = true /\
    ffirst_child (fdescend [2%nat; 2%nat] root) p = None /\
    fcrack (fdescend [2%nat; 2%nat] root) p = true.
Proof. exists f25a_root, f25a_p. vm_compute. repeat split. Qed.

(* ---- face (b): phantom mass.  Inside cell c: the NW child a accepts the point (cum_size++), a's only accepting
   child a/SE accepts it (cum_size++), all four children of a/SE reject it, so a/SE and then a `return false`;
   c then tries its NE child, whose box accepts the point too, and stores it there: a and a/SE keep a mass and a
   centre of mass contribution for a point that lives in their sibling. ---- *)
Definition f25b_root : fcell :=
  mkFCell 0x1.92fa306abbb98p-1 0x1.6ad32c882d3c0p-1 0x1.0035bfa35a56bp+1 0x1.7854306a5cc42p+1.
Definition f25b_p : fpt := (0x1.c9b2d7d8b8338p+0, 0x1.7193ae7945002p+0).
Definition f25b_cell : fcell := fsec f25b_root.

Lemma phantom_mass_binary64_refuted_gen :
  exists (c : fcell) (p : fpt),
    fcontains c p = true /\
    fcontains (fnwc c) p = true /\
    ffirst_child (fnwc c) p = Some 3%nat /\
    fcrack (fsec (fnwc c)) p = true /\
    fcontains (fnec c) p = true.
Proof. exists f25b_cell, f25b_p. vm_compute. repeat split. Qed.

(* two sibling boxes that both accept a point are normal on a shared edge in exact arithmetic too; what exact
   arithmetic excludes is the crack that sends the point back up after it was counted *)
