(* ====================================================================== *)
(*  Lle_Proof_Run.v — the checked entry points (what the correspondence    *)
(*  runs): index-in-range obligations and the HLLE routine as a whole      *)
(*    check_lists_none     well-formed neighbour table -> no OOB verdict   *)
(*    lle_run_in_range / ltsa_run_in_range / hlle_run_in_range             *)
(*        on a well-formed table (N lists, each with >= k = |first list|   *)
(*        entries, every used entry < N) and d <= k the model of the       *)
(*        routine never leaves a buffer (never returns OOB) -- for HLLE    *)
(*        only with the repaired column counter (F6)                       *)
(*    hlle_run_shipped_oob the shipped counter gives OOB at d = 3          *)
(*    hlle_model_correct   Ok T -> T assembles sum_i S_i P_i S_i^T with    *)
(*        P_i the sqrt-free local matrix, and no sample was degenerate     *)
(* ====================================================================== *)
Require Import Field Ring Arith Lia List Bool Permutation.
From TK Require Import Mat_Sums Mat_Core Lle_Model Lle_Spec Lle_Proof_Triplets Lle_Proof_Lle
                       Lle_Proof_Ltsa Lle_Proof_Hlle.
Import ListNotations.

Definition table_ok (N k : nat) (L : list (list nat)) : Prop :=
  N <= length L /\
  forall l, In l (firstn N L) -> k <= length l /\ forall x, In x (firstn k l) -> x < N.

Section RunProof.
  Context {F : Type} {Fo : FieldOps F} {Ff : IsField F}.
  Add Field RunProofField : (@Fth F Fo Ff).
  Local Open Scope F_scope.
  Local Notation vec := (Mat_Core.vec F).
  Local Notation mat := (Mat_Core.mat F).

  Lemma check_slots_none N k l a :
    k <= length l -> (forall x, In x (firstn k l) -> x < N) -> check_slots N k l a = None.
  Proof.
    revert l a. induction k as [|k IH]; intros l a Hl Hx; cbn [check_slots]; [reflexivity|].
    destruct l as [|x l]; [cbn [length] in Hl; lia|].
    assert (E : Nat.ltb x N = true) by (apply Nat.ltb_lt; apply Hx; left; reflexivity).
    rewrite E. apply IH; [cbn [length] in Hl; lia|]. intros y Hy. apply Hx. right. assumption.
  Qed.

  Lemma check_lists_none N k L n :
    n <= length L ->
    (forall l, In l (firstn n L) -> k <= length l /\ forall x, In x (firstn k l) -> x < N) ->
    check_lists N k L n = None.
  Proof.
    revert L. induction n as [|n IH]; intros L Hn H; [destruct L; reflexivity|].
    destruct L as [|l L]; [cbn [length] in Hn; lia|]. cbn [check_lists].
    destruct (H l (or_introl eq_refl)) as [Hl Hx].
    rewrite check_slots_none by assumption.
    apply IH; [cbn [length] in Hn; lia|]. intros l' Hl'. apply H. right. assumption.
  Qed.

  Lemma lle_all_weights_no_oob solve k kern ts nbr prev n s i m :
    lle_all_weights solve k kern ts nbr prev n <> OOB s i m.
  Proof.
    induction n as [|n IH]; cbn [lle_all_weights]; [discriminate|].
    destruct (lle_all_weights solve k kern ts nbr prev n) as [Ws|s' i' m'|j] eqn:E.
    - destruct (lle_sample_weights solve k kern ts (nbr n) n (prev n)); discriminate.
    - exact IH.
    - discriminate.
  Qed.

  Theorem lle_run_in_range solve N k (L : list (list nat)) (kern : mat) shift ts s i m :
    k_of L = Some k -> table_ok N k L ->
    lle_run solve N L kern shift ts <> OOB s i m.
  Proof.
    intros Hk [Hn HL]. unfold lle_run. rewrite Hk.
    rewrite check_lists_none by assumption.
    unfold lle_model.
    destruct (lle_all_weights solve k kern ts (nbrs_of L) (fun _ _ _ => 0) N) as [Ws|s' i' m'|j] eqn:E;
      try discriminate.
    exfalso. exact (lle_all_weights_no_oob _ _ _ _ _ _ _ _ _ _ E).
  Qed.

  Theorem ltsa_run_in_range N k d (L : list (list nat)) (E : nat -> mat) rsk shift :
    k_of L = Some k -> table_ok N k L -> d <= k ->
    ltsa_run N d L E rsk shift = Ok (ltsa_model N k d (nbrs_of L) E rsk shift).
  Proof.
    intros Hk [Hn HL] Hd. unfold ltsa_run. rewrite Hk.
    rewrite check_lists_none by assumption.
    apply Nat.leb_le in Hd. rewrite Hd. reflexivity.
  Qed.

  Lemma hlle_all_locals_no_oob fz sh k d V prev n s i m :
    hlle_all_locals fz sh k d V prev n <> OOB s i m.
  Proof.
    induction n as [|n IH]; cbn [hlle_all_locals]; [discriminate|].
    destruct (hlle_all_locals fz sh k d V prev n) as [Ps|s' i' m'|j] eqn:E.
    - cbv zeta. destruct (gs_degenerate fz (hlle_gs_sf sh k d (prev n) (V n))); discriminate.
    - exact IH.
    - discriminate.
  Qed.

  (* F6 repaired: no out-of-range column, for every d *)
  Theorem hlle_run_in_range fz N k d (L : list (list nat)) (V : nat -> mat) s i m :
    k_of L = Some k -> table_ok N k L -> d <= k ->
    hlle_run_sf fz false N d L V <> OOB s i m.
  Proof.
    intros Hk [Hn HL] Hd. unfold hlle_run_sf. rewrite Hk.
    rewrite check_lists_none by assumption.
    apply Nat.leb_le in Hd. rewrite Hd. rewrite hlle_first_oob_repaired.
    unfold hlle_model_sf.
    destruct (hlle_all_locals fz false k d V (fun _ _ _ => 0) N) as [Ps|s' i' m'|j] eqn:E; try discriminate.
    exfalso. exact (hlle_all_locals_no_oob _ _ _ _ _ _ _ _ _ _ E).
  Qed.

  (* F6 shipped: the model of the old code leaves the buffer Yi at d = 3 on every well-formed input *)
  Theorem hlle_run_shipped_oob fz N k (L : list (list nat)) (V : nat -> mat) :
    k_of L = Some k -> table_ok N k L -> 3 <= k ->
    hlle_run_sf fz true N 3 L V = OOB site_hlle_col 12 10.
  Proof.
    intros Hk [Hn HL] Hd. unfold hlle_run_sf. rewrite Hk.
    rewrite check_lists_none by assumption.
    apply Nat.leb_le in Hd. rewrite Hd. reflexivity.
  Qed.

  Lemma hlle_all_locals_spec fz sh k d V prev n Ps :
    hlle_all_locals fz sh k d V prev n = Ok Ps ->
    length Ps = n /\
    forall i, i < n ->
      nth i Ps [] = mtab k k (hlle_local_sf sh k d (prev i) (V i)) /\
      gs_degenerate fz (hlle_gs_sf sh k d (prev i) (V i)) = false.
  Proof.
    revert Ps. induction n as [|n IH]; intros Ps H; cbn [hlle_all_locals] in H.
    - inversion H. split; [reflexivity|]. intros; lia.
    - destruct (hlle_all_locals fz sh k d V prev n) as [Ps'| |] eqn:E; try discriminate.
      cbv zeta in H.
      destruct (gs_degenerate fz (hlle_gs_sf sh k d (prev n) (V n))) eqn:Eg; try discriminate.
      inversion H; subst Ps. destruct (IH Ps' eq_refl) as [Hl Hi].
      split; [rewrite app_length; cbn [length]; lia|].
      intros i Hlt. destruct (Nat.eq_dec i n) as [->|Hne].
      + rewrite app_nth2 by lia. rewrite Hl, Nat.sub_diag. cbn [nth]. split; [reflexivity|assumption].
      + rewrite app_nth1 by lia. apply Hi. lia.
  Qed.

  Theorem hlle_model_correct fz sh N k d nbr (V prev : nat -> mat) T :
    hlle_model_sf fz sh N k d nbr V prev = Ok T ->
    (forall r c, from_triplets T r c =
                 hlle_M_spec N k nbr (fun i => hlle_local_sf sh k d (prev i) (V i)) r c) /\
    (forall i, i < N -> gs_degenerate fz (hlle_gs_sf sh k d (prev i) (V i)) = false).
  Proof.
    intros H. unfold hlle_model_sf in H.
    destruct (hlle_all_locals fz sh k d V prev N) as [Ps| |] eqn:E; try discriminate.
    inversion H; subst T. destruct (hlle_all_locals_spec _ _ _ _ _ _ _ _ E) as [Hl Hi].
    split.
    - intros r c. rewrite (hlle_matrix N) by apply Permutation_refl.
      unfold hlle_M_spec. apply sumn_ext. intros i Hlt.
      apply local_term_ext. intros a b Ha Hb.
      rewrite (proj1 (Hi i Hlt)). apply mof_mtab; assumption.
    - intros i Hlt. apply (proj2 (Hi i Hlt)).
  Qed.
End RunProof.
