(* ====================================================================== *)
(*  Pencil_Proof_Sums.v — property C10: list sums, the bilinear form       *)
(*  X M X^T entrywise, and what the two accumulation loops of the          *)
(*  construct_*_eigenproblem routines leave in the UPPER triangle.         *)
(*                                                                         *)
(*    lsum l f                 sum of f over a list                        *)
(*    XMXt_entry               (X M X^T)_ij = sum_t sum_s X_is M_st X_jt   *)
(*    XMXt_madd/msub/mscale/mtrans/mI/mdiag/mconst/dense_of                *)
(*    acc_samples_upper        read_upper after the per-sample loop        *)
(*    acc_sparse_upper         read_upper after the per-stored-entry loop  *)
(*    acc_*_lower              both loops never write below the diagonal   *)
(*    feature_sum_eq           the running `sum +=` is the row sum of X    *)
(* ====================================================================== *)

Require Import Field Ring Arith Lia List Bool.
From TK Require Import Mat_Sums Mat_Core Pencil_Model Pencil_Spec.
Import ListNotations.

Section PencilSums.
  Context {F : Type} {Fo : FieldOps F} {Ff : IsField F}.
  Add Field PencilSumsField : (@Fth F Fo Ff).
  Local Open Scope F_scope.

  (* ---------------- sums over lists ---------------- *)
  Definition lsum {A : Type} (l : list A) (f : A -> F) : F :=
    fold_right (fun x acc => f x + acc) 0 l.

  Lemma lsum_nil {A} (f : A -> F) : lsum [] f = 0.
  Proof. reflexivity. Qed.

  Lemma lsum_cons {A} (x : A) l f : lsum (x :: l) f = f x + lsum l f.
  Proof. reflexivity. Qed.

  Lemma lsum_app {A} (l l' : list A) f : lsum (l ++ l') f = lsum l f + lsum l' f.
  Proof.
    induction l as [|x l IH]; cbn [app]; rewrite ?lsum_cons, ?lsum_nil; [ring|].
    rewrite IH. ring.
  Qed.

  Lemma lsum_ext {A} (l : list A) f g :
    (forall x, In x l -> f x = g x) -> lsum l f = lsum l g.
  Proof.
    induction l as [|x l IH]; intros H; [reflexivity|].
    rewrite !lsum_cons. rewrite (H x) by (left; reflexivity).
    rewrite IH by (intros y Hy; apply H; right; assumption). reflexivity.
  Qed.

  Lemma lsum_add {A} (l : list A) f g :
    lsum l (fun x => f x + g x) = lsum l f + lsum l g.
  Proof.
    induction l as [|x l IH]; rewrite ?lsum_cons, ?lsum_nil; [ring|]. rewrite IH. ring.
  Qed.

  Lemma lsum_seq n (f : nat -> F) : lsum (seq 0 n) f = sumn n f.
  Proof.
    induction n as [|n IH]; [reflexivity|].
    rewrite seq_S, lsum_app, IH. cbn [Nat.add sumn]. rewrite lsum_cons, lsum_nil. ring.
  Qed.

  (* ---------------- the bilinear form X M X^T ---------------- *)
  Lemma XMXt_entry N (X M : mat F) i j :
    XMXt N X M i j = sumn N (fun t => sumn N (fun s => X i s * M s t * X j t)).
  Proof.
    unfold XMXt, mmul, mtrans. apply sumn_ext. intros t _.
    rewrite <- (sumn_mul_r N (X j t) (fun s => X i s * M s t)). reflexivity.
  Qed.

  Lemma XMXt_ext N (X M M' : mat F) i j :
    meq N N M M' -> XMXt N X M i j = XMXt N X M' i j.
  Proof.
    intros H. rewrite !XMXt_entry. apply sumn_ext. intros t Ht. apply sumn_ext. intros s Hs.
    rewrite (H s t) by assumption. reflexivity.
  Qed.

  Lemma XMXt_madd N (X A B : mat F) i j :
    XMXt N X (madd A B) i j = XMXt N X A i j + XMXt N X B i j.
  Proof.
    rewrite !XMXt_entry. rewrite <- sumn_add. apply sumn_ext. intros t _.
    rewrite <- sumn_add. apply sumn_ext. intros s _. unfold madd. ring.
  Qed.

  Lemma XMXt_msub N (X A B : mat F) i j :
    XMXt N X (msub A B) i j = XMXt N X A i j - XMXt N X B i j.
  Proof.
    rewrite !XMXt_entry. rewrite <- sumn_sub. apply sumn_ext. intros t _.
    rewrite <- sumn_sub. apply sumn_ext. intros s _. unfold msub. ring.
  Qed.

  Lemma XMXt_mscale N (X A : mat F) c i j :
    XMXt N X (mscale c A) i j = c * XMXt N X A i j.
  Proof.
    rewrite !XMXt_entry. rewrite <- sumn_mul_l. apply sumn_ext. intros t _.
    rewrite <- sumn_mul_l. apply sumn_ext. intros s _. unfold mscale. ring.
  Qed.

  Lemma XMXt_mtrans N (X A : mat F) i j :
    XMXt N X (mtrans A) i j = XMXt N X A j i.
  Proof.
    rewrite !XMXt_entry. rewrite sumn_swap. apply sumn_ext. intros s _.
    apply sumn_ext. intros t _. unfold mtrans. ring.
  Qed.

  Lemma XMXt_sym2 N (X A : mat F) i j :
    XMXt N X (sym2 A) i j = XMXt N X A i j + XMXt N X A j i.
  Proof. unfold sym2. rewrite XMXt_madd, XMXt_mtrans. reflexivity. Qed.

  (* X X^T *)
  Lemma XMXt_mI N (X : mat F) i j :
    XMXt N X mI i j = sumn N (fun t => X i t * X j t).
  Proof.
    unfold XMXt. unfold mmul at 1. apply sumn_ext. intros t Ht.
    rewrite mmul_I_r by assumption. reflexivity.
  Qed.

  (* X diag(v) X^T *)
  Lemma XMXt_mdiag N (X : mat F) v i j :
    XMXt N X (mdiag v) i j = sumn N (fun t => v t * (X i t * X j t)).
  Proof.
    unfold XMXt. unfold mmul at 1. apply sumn_ext. intros t Ht.
    rewrite mmul_diag_r by assumption. unfold mtrans. ring.
  Qed.

  (* X (c 1 1^T) X^T = c (X 1)(X 1)^T *)
  Lemma XMXt_mconst N (X : mat F) c i j :
    XMXt N X (mconst c) i j = c * (sumn N (fun s => X i s) * sumn N (fun t => X j t)).
  Proof.
    rewrite XMXt_entry. rewrite sumn_mul_sumn, <- sumn_mul_l.
    rewrite sumn_swap. apply sumn_ext. intros s _. rewrite <- sumn_mul_l.
    apply sumn_ext. intros t _. unfold mconst. ring.
  Qed.

  (* one stored entry (r, c, v) *)
  Definition msingle (r c : nat) (v : F) : mat F := fun r' c' => delta r' r * delta c' c * v.

  Lemma XMXt_msingle N (X : mat F) r c v i j :
    r < N -> c < N -> XMXt N X (msingle r c v) i j = v * (X i r * X j c).
  Proof.
    intros Hr Hc. rewrite XMXt_entry.
    rewrite (sumn_ext N _ (fun t => (X i r * v * X j t) * delta t c)).
    - rewrite sumn_delta_r by assumption. ring.
    - intros t _. unfold msingle.
      rewrite (sumn_ext N _ (fun s => (X i s * (delta t c * v * X j t)) * delta s r))
        by (intros; ring).
      rewrite sumn_delta_r by assumption. ring.
  Qed.

  Lemma dense_of_cons r c v (W : sparse F) :
    dense_of ((r, c, v) :: W) = madd (msingle r c v) (dense_of W).
  Proof. reflexivity. Qed.

  Lemma XMXt_dense_of N (X : mat F) (W : sparse F) i j :
    indices_ok N W ->
    XMXt N X (dense_of W) i j =
    lsum W (fun e => match e with (r, c, v) => v * (X i r * X j c) end).
  Proof.
    induction W as [|[[r c] v] W IH]; intros Hok.
    - rewrite XMXt_entry. rewrite lsum_nil. apply sumn_zero'. intros t _.
      apply sumn_zero'. intros s _. unfold dense_of. cbn [fold_right]. ring.
    - pose proof (Forall_inv Hok) as Hrc. cbv beta iota in Hrc. destruct Hrc as [Hr Hc].
      pose proof (Forall_inv_tail Hok) as Hok'.
      rewrite dense_of_cons, XMXt_madd, lsum_cons, IH by assumption.
      rewrite XMXt_msingle by assumption. reflexivity.
  Qed.

  (* ---------------- the accumulation loops ---------------- *)
  Lemma fold_samples_upper (X : mat F) (a : nat -> F) l M0 i j :
    read_upper (fold_left (fun M s => rank_update_upper (a s) (fvec X s) M) l M0) i j =
    read_upper M0 i j + lsum l (fun s => a s * (X i s * X j s)).
  Proof.
    revert M0. induction l as [|s l IH]; intros M0; cbn [fold_left].
    - rewrite lsum_nil. ring.
    - rewrite IH, read_upper_rank_update_upper, lsum_cons. unfold fvec. ring.
  Qed.

  Lemma acc_samples_upper (X : mat F) N a M0 i j :
    read_upper (acc_samples X N a M0) i j =
    read_upper M0 i j + sumn N (fun s => a s * (X i s * X j s)).
  Proof. unfold acc_samples. rewrite fold_samples_upper, lsum_seq. reflexivity. Qed.

  Lemma acc_sparse_upper (X : mat F) (W : sparse F) M0 i j :
    read_upper (acc_sparse X W M0) i j =
    read_upper M0 i j +
    lsum W (fun e => match e with (r, c, v) => v * (X i r * X j c + X i c * X j r) end).
  Proof.
    unfold acc_sparse. revert M0. induction W as [|[[r c] v] W IH]; intros M0; cbn [fold_left].
    - rewrite lsum_nil. ring.
    - rewrite IH, read_upper_rank_update2_upper, lsum_cons. unfold fvec. ring.
  Qed.

  (* neither loop writes below the diagonal *)
  Lemma rank_update2_upper_keeps_lower a (u v : vec F) M i j :
    j < i -> rank_update2_upper a u v M i j = M i j.
  Proof. intros H. unfold rank_update2_upper. apply Nat.leb_gt in H. rewrite H. reflexivity. Qed.

  Lemma acc_samples_lower (X : mat F) N a M0 i j :
    j < i -> acc_samples X N a M0 i j = M0 i j.
  Proof.
    intros Hji. unfold acc_samples. generalize (seq 0 N). intros l. revert M0.
    induction l as [|s l IH]; intros M0; cbn [fold_left]; [reflexivity|].
    rewrite IH. apply rank_update_upper_keeps_lower. assumption.
  Qed.

  Lemma acc_sparse_lower (X : mat F) (W : sparse F) M0 i j :
    j < i -> acc_sparse X W M0 i j = M0 i j.
  Proof.
    intros Hji. unfold acc_sparse. revert M0.
    induction W as [|[[r c] v] W IH]; intros M0; cbn [fold_left]; [reflexivity|].
    rewrite IH. apply rank_update2_upper_keeps_lower. assumption.
  Qed.

  (* on and above the diagonal the table itself holds the accumulated value *)
  Lemma read_upper_self (M : mat F) i j : i <= j -> M i j = read_upper M i j.
  Proof. intros H. symmetry. apply read_upper_le. assumption. Qed.

  (* the stored-entry sum is the symmetrised bilinear form *)
  Lemma sparse_sum_is_sym2 N (X : mat F) (W : sparse F) i j :
    indices_ok N W ->
    lsum W (fun e => match e with (r, c, v) => v * (X i r * X j c + X i c * X j r) end) =
    XMXt N X (sym2 (dense_of W)) i j.
  Proof.
    intros Hok. rewrite XMXt_sym2, !XMXt_dense_of by assumption.
    rewrite <- lsum_add. apply lsum_ext. intros [[r c] v] _. ring.
  Qed.

  (* sum += x_s *)
  Lemma fold_feature_sum (X : mat F) l (acc : vec F) f :
    fold_left (fun a s => vadd a (fvec X s)) l acc f = acc f + lsum l (fun s => X f s).
  Proof.
    revert acc. induction l as [|s l IH]; intros acc; cbn [fold_left].
    - rewrite lsum_nil. ring.
    - rewrite IH, lsum_cons. unfold vadd, fvec. ring.
  Qed.

  Lemma feature_sum_eq (X : mat F) N f : feature_sum X N f = sumn N (fun s => X f s).
  Proof.
    unfold feature_sum. rewrite fold_feature_sum, lsum_seq. unfold vzero. ring.
  Qed.

  Lemma minus_inv_n_eq N : minus_inv_n N = - / of_nat N :> F.
  Proof. unfold minus_inv_n. rewrite (Fdiv_def Fth). ring. Qed.

End PencilSums.
