(* ====================================================================== *)
(*  Lap_Proof_NbOrder.v — the ORDER of a neighbour list is free (C09)      *)
(*                                                                         *)
(*  The three neighbour searches of tapkee list the k neighbours of a      *)
(*  sample in different orders (cover tree: nearest first, brute force:    *)
(*  std::nth_element order, VP-tree: farthest first).  The specification   *)
(*  (adjA / matW / degD / matL of Lap_Spec.v) is a sum over the entries of *)
(*  a list, so it cannot depend on that order; compute_laplacian, which    *)
(*  walks the list in the order given, therefore cannot either.            *)
(*    matL_order_free            spec: rows permuted -> same W, D, L        *)
(*    compute_laplacian_order_free  model: two successful runs on row-wise *)
(*                               permuted lists give the same matrix and   *)
(*                               the same degrees                          *)
(*  Regression variant compute_laplacian_brk (seeded change C09_4: leave   *)
(*  the inner loop at the first weight that is exactly zero):              *)
(*    brk_agrees     no used weight is zero -> the variant IS the routine  *)
(*    brk_refuted    Qc witness: two lists with the same entries, the      *)
(*                   variant gives different matrices (3 samples on a      *)
(*                   line, the far pair's weight is 0)                     *)
(* ====================================================================== *)
Require Import Arith Lia List Bool Field Ring Permutation.
From TK Require Import Mat_Sums Mat_Core Lap_Model Lap_Spec Lap_Proof_Lap.
Import ListNotations.

Lemma fold_left_ext_in {A B : Type} (f g : A -> B -> A) (l : list B) (a : A) :
  (forall a x, In x l -> f a x = g a x) -> fold_left f l a = fold_left g l a.
Proof.
  revert a. induction l as [|x l IH]; intros a H; [reflexivity|].
  cbn [fold_left]. rewrite (H a x) by (left; reflexivity).
  apply IH. intros a' y Hy. apply H. right. exact Hy.
Qed.

Lemma firstn_S_nth {A : Type} (l : list A) (k : nat) (d : A) :
  k < length l -> firstn (S k) l = firstn k l ++ [nth k l d].
Proof.
  revert k. induction l as [|a l IH]; intros k Hk; [cbn in Hk; lia|].
  destruct k as [|k]; [reflexivity|].
  cbn [length] in Hk. cbn [firstn nth app]. f_equal.
  change (firstn (S k) l = firstn k l ++ [nth k l d]). apply IH. lia.
Qed.

Section NbOrder.
  Context {F : Type} {Fo : FieldOps F} {Ff : IsField F}.
  Add Field NbOrderField : (@Fth F Fo Ff).
  Local Open Scope F_scope.

  Fixpoint lsum (l : list F) : F :=
    match l with [] => 0 | x :: r => x + lsum r end.

  Lemma lsum_app (a b : list F) : lsum (a ++ b) = lsum a + lsum b.
  Proof. induction a as [|x a IH]; cbn [app lsum]; [ring|]. rewrite IH. ring. Qed.

  Lemma lsum_perm (a b : list F) : Permutation a b -> lsum a = lsum b.
  Proof.
    induction 1 as [|x a b _ IH|x y a|a b c _ IH1 _ IH2].
    - reflexivity.
    - cbn [lsum]. rewrite IH. reflexivity.
    - cbn [lsum]. ring.
    - rewrite IH1. exact IH2.
  Qed.

  (* a sum over the first k positions of a list is the sum over the list firstn k *)
  Lemma sumn_nth_firstn (g : nat -> F) (l : list nat) (k : nat) :
    (k <= length l)%nat ->
    sumn k (fun p => g (nth p l 0%nat)) = lsum (map g (firstn k l)).
  Proof.
    induction k as [|k IH]; intros Hk; [reflexivity|].
    rewrite sumn_S, IH by lia.
    rewrite (firstn_S_nth l k 0%nat) by lia.
    rewrite map_app, lsum_app. cbn [map lsum]. ring.
  Qed.

  Variable heat : nat -> nat -> F.
  Variable k n : nat.
  Variable nbrs nbrs' : list (list nat).

  (* every sample's first k entries are the same neighbours, in any order (repetitions included) *)
  Definition same_neighbours : Prop :=
    forall i, (i < n)%nat ->
      (k <= length (nth i nbrs []))%nat /\
      Permutation (firstn k (nth i nbrs [])) (firstn k (nth i nbrs' [])).

  Hypothesis Hsame : same_neighbours.

  Lemma same_neighbours_len i : (i < n)%nat -> (k <= length (nth i nbrs' []))%nat.
  Proof.
    intros Hi. destruct (Hsame i Hi) as [Hl Hp].
    apply Permutation_length in Hp. rewrite !firstn_length in Hp. lia.
  Qed.

  Lemma adjA_order_free i j : (i < n)%nat -> adjA heat k nbrs i j = adjA heat k nbrs' i j.
  Proof.
    intros Hi. destruct (Hsame i Hi) as [Hl Hp].
    pose proof (same_neighbours_len i Hi) as Hl'.
    unfold adjA, nb_at.
    rewrite (sumn_nth_firstn (fun x => if Nat.eqb x j then heat i j else 0) _ k Hl).
    rewrite (sumn_nth_firstn (fun x => if Nat.eqb x j then heat i j else 0) _ k Hl').
    apply lsum_perm. apply Permutation_map. exact Hp.
  Qed.

  Lemma matW_order_free i j : (i < n)%nat -> (j < n)%nat -> matW heat k nbrs i j = matW heat k nbrs' i j.
  Proof. intros Hi Hj. unfold matW. rewrite (adjA_order_free i j Hi), (adjA_order_free j i Hj). reflexivity. Qed.

  Lemma degD_order_free i : (i < n)%nat -> degD heat k nbrs n i = degD heat k nbrs' n i.
  Proof. intros Hi. unfold degD. apply sumn_ext. intros j Hj. apply matW_order_free; assumption. Qed.

  Theorem matL_order_free r c :
    (r < n)%nat -> (c < n)%nat -> matL heat k nbrs n r c = matL heat k nbrs' n r c.
  Proof.
    intros Hr Hc. unfold matL, mdiag.
    rewrite (matW_order_free r c Hr Hc). destruct (Nat.eqb r c); [|reflexivity].
    rewrite (degD_order_free r Hr). reflexivity.
  Qed.
End NbOrder.

Section NbOrderModel.
  Context {F : Type} {Fo : FieldOps F} {Ff : IsField F}.
  Add Field NbOrderModelField : (@Fth F Fo Ff).
  Local Open Scope F_scope.

  Variable dist : nat -> nat -> F.
  Variable width : F.
  Variable expo : F -> F.

  (* the routine walks each list in the order given; its result does not depend on that order *)
  Theorem compute_laplacian_order_free (n : nat) (nbrs nbrs' : list (list nat))
          (ts ts' : list (@triplet F)) (D D' : list F) :
    length (hd [] nbrs) = length (hd [] nbrs') ->
    same_neighbours (length (hd [] nbrs)) n nbrs nbrs' ->
    compute_laplacian dist width expo n nbrs = LOk (ts, D) ->
    compute_laplacian dist width expo n nbrs' = LOk (ts', D') ->
    (forall r c, (r < n)%nat -> (c < n)%nat -> mat_of_triplets ts r c = mat_of_triplets ts' r c) /\
    (forall r, (r < n)%nat -> nth r D 0 = nth r D' 0).
  Proof.
    intros Hk Hsame H H'.
    destruct (compute_laplacian_spec_k dist width expo n nbrs _ ts D eq_refl H) as (_ & _ & _ & HL & HD).
    destruct (compute_laplacian_spec_k dist width expo n nbrs' _ ts' D' eq_refl H') as (_ & _ & _ & HL' & HD').
    rewrite <- Hk in HL', HD'.
    split.
    - intros r c Hr Hc. rewrite HL, HL' by assumption. apply matL_order_free; assumption.
    - intros r Hr. rewrite HD, HD' by assumption. apply degD_order_free; assumption.
  Qed.

  (* ---------------- the early-exit variant ---------------- *)
  Variable isz : F -> bool.

  Lemma edges_brk_no_zero i cur js a :
    (forall j nb, In j js -> nth_error cur j = Some nb -> isz (heat_of dist width expo i nb) = false) ->
    fold_left (edge_step_brk dist width expo isz i cur) js (a, false) =
    (fold_left (edge_step dist width expo i cur) js a, false).
  Proof.
    revert a. induction js as [|j js IH]; intros a H; [reflexivity|].
    cbn [fold_left].
    assert (E : edge_step_brk dist width expo isz i cur (a, false) j =
                (edge_step dist width expo i cur a j, false)).
    { unfold edge_step_brk. destruct a as [st|s x y]; [|reflexivity].
      destruct (nth_error cur j) as [nb|] eqn:En.
      - rewrite (H j nb (or_introl eq_refl) En). reflexivity.
      - unfold edge_step. rewrite En. reflexivity. }
    rewrite E. apply IH. intros j' nb Hj. apply H. right. exact Hj.
  Qed.

  (* when no weight that the routine uses is exactly zero the variant IS the routine *)
  Theorem brk_agrees (n : nat) (nbrs : list (list nat)) :
    (forall i q, (i < n)%nat -> (q < length (hd [] nbrs))%nat ->
       isz (heat_of dist width expo i (nb_at nbrs i q)) = false) ->
    compute_laplacian_brk dist width expo isz n nbrs = compute_laplacian dist width expo n nbrs.
  Proof.
    intros H. unfold compute_laplacian_brk, compute_laplacian.
    destruct nbrs as [|first rest] eqn:En; [reflexivity|]. rewrite <- En in *.
    assert (Hk : length first = length (hd [] nbrs)) by (rewrite En; reflexivity).
    rewrite (fold_left_ext_in (row_step_brk dist width expo isz (length first) nbrs)
                              (row_step dist width expo (length first) nbrs)); [reflexivity|].
    intros a i Hi. apply in_seq in Hi.
    unfold row_step_brk, row_step. destruct a as [st|s x y]; [|reflexivity].
    destruct (nth_error nbrs i) as [cur|] eqn:Ec; [|reflexivity].
    rewrite edges_brk_no_zero; [reflexivity|].
    intros j nb Hj Enb. apply in_seq in Hj.
    assert (Enb' : nb = nb_at nbrs i j).
    { unfold nb_at. rewrite (nth_error_nth nbrs i [] Ec). symmetry. apply nth_error_nth. exact Enb. }
    rewrite Enb'. apply H; lia.
  Qed.
End NbOrderModel.

(* ---------------------------------------------------------------------- *)
(*  witness at Qc: 3 samples on a line at 0, 1, 2; width 1; the weight of   *)
(*  the far pair (distance 2) is exactly 0, adjacent pairs have 1/2.        *)
(*  Sample 2 lists its neighbours farthest first [0; 1] (VP-tree order) or  *)
(*  nearest first [1; 0] (cover-tree order).                                *)
(* ---------------------------------------------------------------------- *)
From Coq Require Import ZArith QArith Qcanon.
From TK Require Import Mat_Qc.
Close Scope Qc_scope.
Close Scope Q_scope.
Close Scope Z_scope.

Definition brk_dist : nat -> nat -> Qc :=
  fun i j => qz (Z.of_nat (Nat.max i j - Nat.min i j)).
Definition brk_expo (x : Qc) : Qc :=
  if qeqb x (qz 0) then qz 1 else if qeqb x (qz (-1)) then qfrac 1 2 else qz 0.
Definition brk_isz (x : Qc) : bool := qeqb x (qz 0).
Definition brk_far_first : list (list nat) := [[2; 1]; [0; 2]; [0; 1]].
Definition brk_near_first : list (list nat) := [[1; 2]; [0; 2]; [1; 0]].

Lemma brk_same_neighbours : same_neighbours 2 3 brk_far_first brk_near_first.
Proof.
  intros i Hi. destruct i as [|[|[|i]]]; try lia; cbn; (split; [lia|]).
  - apply perm_swap.
  - apply Permutation_refl.
  - apply perm_swap.
Qed.

Lemma brk_refuted :
  exists (nbrs nbrs' : list (list nat)) (n : nat) (ts ts' : list (@triplet Qc)) (D D' : list Qc),
    length (hd [] nbrs) = length (hd [] nbrs') /\
    same_neighbours (length (hd [] nbrs)) n nbrs nbrs' /\
    compute_laplacian_brk brk_dist (qz 1) brk_expo brk_isz n nbrs = LOk (ts, D) /\
    compute_laplacian_brk brk_dist (qz 1) brk_expo brk_isz n nbrs' = LOk (ts', D') /\
    (exists r c, r < n /\ c < n /\ mat_of_triplets ts r c <> mat_of_triplets ts' r c) /\
    (exists r c, r < n /\ c < n /\
       mat_of_triplets ts r c <> matL (heat_of brk_dist (qz 1) brk_expo) (length (hd [] nbrs)) nbrs n r c) /\
    (forall r c, r < n -> c < n ->
       mat_of_triplets ts' r c = matL (heat_of brk_dist (qz 1) brk_expo) (length (hd [] nbrs)) nbrs n r c).
Proof.
  exists brk_far_first, brk_near_first, 3.
  destruct (compute_laplacian_brk brk_dist (qz 1) brk_expo brk_isz 3 brk_far_first) as [[ts D]|s a b] eqn:E;
    [|vm_compute in E; discriminate].
  destruct (compute_laplacian_brk brk_dist (qz 1) brk_expo brk_isz 3 brk_near_first) as [[ts' D']|s a b] eqn:E';
    [|vm_compute in E'; discriminate].
  exists ts, ts', D, D'.
  split; [reflexivity|]. split; [exact brk_same_neighbours|].
  split; [reflexivity|]. split; [reflexivity|].
  vm_compute in E. inversion E. subst ts D. clear E.
  vm_compute in E'. inversion E'. subst ts' D'. clear E'.
  split.
  { exists 2, 1. split; [lia|]. split; [lia|]. intros H. vm_compute in H. discriminate. }
  split.
  { exists 2, 1. split; [lia|]. split; [lia|]. intros H. vm_compute in H. discriminate. }
  intros r c Hr Hc.
  destruct r as [|[|[|r]]]; try lia; destruct c as [|[|[|c]]]; try lia;
    apply Qc_is_canon; vm_compute; reflexivity.
Qed.
