(* Par_Row_Model.v — property C15: the loop body of triangulate (landmarks.hpp) as a program of Par_Model. NO proofs here. *)
From Coq Require Import ZArith List String.
Import ListNotations.
From TK Require Import Par_Model Par_Region_Model Par_Fill_Model.

(* ------------------------------------------------------------------ triangulate: a row-owned result
   computed through a thread-private scratch vector

       if (!to_process[i]) continue;
       for (l < L) scratch(l) = g(i, l);                 // distances_to_landmarks, private, persistent
       embedding.row(i) = h(i, ., scratch);               // reads the whole scratch vector

   g, h are value oracles (callback distances, the matrix-vector product). *)
Section RowBody.
  Variable V C : Type.
  Variable evar svar : string.
  Variable g : nat -> nat -> V.
  Variable h : nat -> nat -> list V -> V.
  Variable skip : nat -> bool.

  Fixpoint wr_scratch (i : nat) (ls : list nat) (k : prog key V C) : prog key V C :=
    match ls with
    | [] => k
    | l :: ls' => Wr (Pr (mkey svar l 0)) (g i l) (wr_scratch i ls' k)
    end.

  Fixpoint rd_scratch (ls : list nat) (acc : list V) (k : list V -> prog key V C) : prog key V C :=
    match ls with
    | [] => k (rev acc)
    | l :: ls' => Rd (Pr (mkey svar l 0)) (fun v => rd_scratch ls' (v :: acc) k)
    end.

  Fixpoint wr_row (i : nat) (cs : list nat) (vals : list V) : prog key V C :=
    match cs with
    | [] => Ret
    | c :: cs' => Wr (Sh (mkey evar i c)) (h i c vals) (wr_row i cs' vals)
    end.

  Definition tri_body (L d i : nat) : prog key V C :=
    if skip i then Ret
    else wr_scratch i (seq 0 L) (rd_scratch (seq 0 L) [] (fun vals => wr_row i (seq 0 d) vals)).
End RowBody.

Definition row_accs (var : string) : list access := [ mkAcc var true false AElem (XIt 0) XAny ].
