(* ====================================================================== *)
(*  Cli_Proof_Argv.v — the abstract command line is what cxxopts' scanner  *)
(*  produces from its canonical spelling (scan_concretize), so the         *)
(*  theorems over `args` are theorems about real argv vectors; plus the    *)
(*  quirks of the scanner as closed examples.                              *)
(* ====================================================================== *)
From Coq Require Import String Ascii List ZArith QArith Bool Arith Lia.
From TK Require Import Cli_Model Cli_Spec Cli_Argv_Model.
Import ListNotations.
Local Close Scope Q_scope.
Local Open Scope string_scope.

Fixpoint all_name (s : string) : bool :=
  match s with EmptyString => true | String c r => is_name_char c && all_name r end.

Lemma span_name_all : forall s, all_name s = true -> span_name s = (s, EmptyString).
Proof.
  induction s as [|c r IH]; cbn; intro H; [reflexivity|].
  apply andb_true_iff in H. destruct H as [H1 H2]. rewrite H1. rewrite (IH H2). reflexivity.
Qed.

(* a spelling cxxopts can see: one alphanumeric character, or alnum followed by >= 1 name characters *)
Definition name_ok (n : string) : bool :=
  match n with
  | EmptyString => false
  | String c EmptyString => is_alnum c
  | String c r => is_alnum c && all_name r
  end.

Lemma alnum_not_dash : forall c, is_alnum c = true -> Ascii.eqb c dash = false.
Proof.
  intros c H. destruct (Ascii.eqb c dash) eqn:E; [|reflexivity].
  apply Ascii.eqb_eq in E. subst c. vm_compute in H. discriminate H.
Qed.

Lemma classify_short1 : forall c, is_alnum c = true ->
  classify (String dash (String c EmptyString)) = TShort (String c EmptyString).
Proof.
  intros c H. unfold classify. rewrite Ascii.eqb_refl. rewrite (alnum_not_dash c H). rewrite H. reflexivity.
Qed.

Lemma classify_long : forall c x r, is_alnum c = true -> all_name (String x r) = true ->
  classify (String dash (String dash (String c (String x r)))) = TLong (String c (String x r)) None.
Proof.
  intros c x r Hc Hn. unfold classify. rewrite !Ascii.eqb_refl. rewrite Hc.
  rewrite (span_name_all _ Hn). reflexivity.
Qed.

Section Concretize.
  Variable rd : string -> option Z * option Q.
  Variable ds : list odecl.

  Definition wf_arg (na : string * aval) : Prop :=
    exists d, find_decl (fst na) ds = Some d /\ name_ok (fst na) = true /\
              match snd na with
              | AFlag => is_flag d = true
              | AVal v zi qd => is_flag d = false /\ zi = fst (rd v) /\ qd = snd (rd v)
              end.

  Lemma scan_step : forall na rest acc, wf_arg na ->
    scan rd ds (spell na ++ rest) acc = scan rd ds rest (na :: acc).
  Proof.
    intros [n v] rest acc [d [Hd [Hn Hk]]]. cbn [fst snd] in *.
    destruct n as [|c [|x r]]; [discriminate Hn| |].
    - (* one letter *)
      cbn in Hn.
      destruct v as [|raw zi qd].
      + cbn [spell fst snd app]. cbn [scan]. rewrite (classify_short1 c Hn).
        destruct rest as [|nxt rest']; cbn [group]; rewrite Hd, Hk; reflexivity.
      + destruct Hk as [Hf [Hz Hq]]. subst zi qd.
        cbn [spell fst snd app]. cbn [scan]. rewrite (classify_short1 c Hn).
        cbn [group]. rewrite Hd, Hf. reflexivity.
    - (* long name *)
      cbn in Hn. apply andb_true_iff in Hn. destruct Hn as [Hc Hr].
      destruct v as [|raw zi qd].
      + cbn [spell fst snd app]. cbn [scan]. rewrite (classify_long c x r Hc Hr).
        rewrite Hd, Hk. reflexivity.
      + destruct Hk as [Hf [Hz Hq]]. subst zi qd.
        cbn [spell fst snd app]. cbn [scan]. rewrite (classify_long c x r Hc Hr).
        rewrite Hd, Hf. reflexivity.
  Qed.

  (* scanning the canonical spelling of an abstract command line gives it back *)
  Theorem scan_concretize : forall a, Forall wf_arg a ->
    forall acc, scan rd ds (concretize a) acc = Some (rev acc ++ a)%list.
  Proof.
    induction a as [|na a IH]; intros Hwf acc.
    - cbn. rewrite app_nil_r. reflexivity.
    - inversion Hwf as [|? ? Hna Ha]; subst.
      cbn [concretize flat_map]. rewrite scan_step by exact Hna.
      fold (concretize a). rewrite (IH Ha). cbn [rev]. rewrite <- app_assoc. reflexivity.
  Qed.

  Corollary decide_argv_concretize : forall T a, Forall wf_arg a ->
    cli_decide_argv rd ds T (concretize a) = cli_decide T a.
  Proof.
    intros T a H. unfold cli_decide_argv. rewrite (scan_concretize a H []). reflexivity.
  Qed.
End Concretize.

(* ------------------------- quirks, as closed facts ---------------------- *)
Definition rd0 (s : string) : option Z * option Q := (None, None).

(* `-td 0` is the group -t -d: there is no option t *)
Example argv_td_group : scan rd0 doc_options ["-td"; "0"] [] = None.
Proof. vm_compute. reflexivity. Qed.

(* `--td 0` is the documented alias *)
Example argv_td_long : scan rd0 doc_options ["--td"; "0"] [] = Some [("td", AVal "0" None None)].
Proof. vm_compute. reflexivity. Qed.

(* a one-letter name cannot be written with two dashes *)
Example argv_long_one_letter : scan rd0 doc_options ["--k"; "5"] [] = None.
Proof. vm_compute. reflexivity. Qed.

(* a value option takes the next argument whatever it looks like; `-k5` and `--gw=-0.5` work too *)
Example argv_values :
  scan rd0 doc_options ["--gw"; "-0.5"; "-k5"; "--gaussian-width=-1"] []
  = Some [("gw", AVal "-0.5" None None); ("k", AVal "5" None None); ("gaussian-width", AVal "-1" None None)].
Proof. vm_compute. reflexivity. Qed.

(* flags never swallow the next argument; the value after a missing-argument option is an error;
   positional arguments are ignored; `--` ends the options *)
Example argv_flags :
  scan rd0 doc_options ["--debug"; "stray"; "-h"; "--"; "--bogus"] [] = Some [("debug", AFlag); ("h", AFlag)] /\
  scan rd0 doc_options ["--spe-local"; "-k"] [] = None /\
  scan rd0 doc_options ["--bogus"] [] = None /\
  scan rd0 doc_options ["--debug=false"] [] = Some [("debug", AFlag)] /\
  scan rd0 doc_options ["--debug=maybe"] [] = None.
Proof. repeat split; vm_compute; reflexivity. Qed.

(* every declared spelling is one cxxopts can see *)
Lemma doc_names_ok : forallb (fun d => forallb name_ok (o_names d)) doc_options = true.
Proof. vm_compute. reflexivity. Qed.
