(* ====================================================================== *)
(*  Cli_Proof_Perm.v — the ORDER of the early-exit tests of run() does not *)
(*  matter when every exit (and main()'s handlers) returns the same code   *)
(*  and no test is uninterpretable: first_exit is invariant under          *)
(*  permutation.  With a boolean permutation checker, so that a source in  *)
(*  which two checks were swapped still meets the documented tables.       *)
(* ====================================================================== *)
From Coq Require Import String Ascii List ZArith QArith Bool Arith Lia Permutation.
From TK Require Import Cli_Model Cli_Spec.
Import ListNotations.
Local Close Scope Q_scope.
Local Open Scope string_scope.

(* ------------------------- decidable equality ------------------------- *)
Definition oty_eq_dec : forall x y : oty, {x = y} + {x <> y}.
Proof. decide equality. Defined.

Definition wexpr_eq_dec : forall x y : wexpr, {x = y} + {x <> y}.
Proof. decide equality; try apply string_dec; apply oty_eq_dec. Defined.

Definition cmp_eq_dec : forall x y : cmp, {x = y} + {x <> y}.
Proof. decide equality. Defined.

Definition Q_eq_dec : forall x y : Q, {x = y} + {x <> y}.
Proof. decide equality; [apply Pos.eq_dec|apply Z.eq_dec]. Defined.

Definition xtest_eq_dec : forall x y : xtest, {x = y} + {x <> y}.
Proof.
  decide equality; try apply string_dec; try apply wexpr_eq_dec; try apply cmp_eq_dec;
    try apply Z.eq_dec; apply Q_eq_dec.
Defined.

Definition xexit_eq_dec : forall x y : xexit, {x = y} + {x <> y}.
Proof. decide equality; [apply Z.eq_dec|apply xtest_eq_dec]. Defined.

(* ------------------------- permutation checker ------------------------ *)
Fixpoint remove1 (x : xexit) (l : list xexit) : option (list xexit) :=
  match l with
  | [] => None
  | y :: r => if xexit_eq_dec x y then Some r
              else match remove1 x r with Some r' => Some (y :: r') | None => None end
  end.

Fixpoint perm_b (l1 l2 : list xexit) : bool :=
  match l1 with
  | [] => match l2 with [] => true | _ => false end
  | x :: r => match remove1 x l2 with Some l2' => perm_b r l2' | None => false end
  end.

Lemma remove1_perm : forall x l l', remove1 x l = Some l' -> Permutation l (x :: l').
Proof.
  induction l as [|y r IH]; intros l' H; [discriminate H|].
  cbn in H. destruct (xexit_eq_dec x y) as [->|Hne].
  - injection H as <-. apply Permutation_refl.
  - destruct (remove1 x r) as [r'|]; [|discriminate H]. injection H as <-.
    eapply Permutation_trans; [apply perm_skip; apply IH; reflexivity|]. apply perm_swap.
Qed.

Lemma perm_b_sound : forall l1 l2, perm_b l1 l2 = true -> Permutation l1 l2.
Proof.
  induction l1 as [|x r IH]; intros l2 H.
  - destruct l2; [apply perm_nil|discriminate H].
  - cbn in H. destruct (remove1 x l2) as [l2'|] eqn:E; [|discriminate H].
    apply Permutation_sym. eapply Permutation_trans; [apply remove1_perm; exact E|].
    apply perm_skip. apply Permutation_sym. apply IH. exact H.
Qed.

(* ------------------------- order irrelevance -------------------------- *)
Section Order.
  Variable T : tables.
  Variable g : view.
  Let c := catch_code T.

  Definition uniform (xs : list xexit) : Prop :=
    Forall (fun x => x_code x = c /\ test_fires T g (x_test x) <> FStuck) xs.

  (* with uniform codes the result is: Exit c if some test fires or throws, None otherwise *)
  Lemma first_exit_uniform : forall xs, uniform xs ->
    first_exit T g xs = if existsb (fun x => match test_fires T g (x_test x) with
                                             | Passes => false | _ => true end) xs
                        then Some (Exit c) else None.
  Proof.
    induction xs as [|x xs IH]; intro H; [reflexivity|].
    inversion H as [|? ? [Hc Hs] Hxs]; subst.
    cbn [first_exit existsb].
    destruct (test_fires T g (x_test x)) eqn:E; cbn [orb].
    - rewrite Hc. reflexivity.
    - apply IH. exact Hxs.
    - reflexivity.
    - congruence.
  Qed.

  Lemma existsb_perm : forall (f : xexit -> bool) l1 l2, Permutation l1 l2 -> existsb f l1 = existsb f l2.
  Proof.
    intros f l1 l2 H. induction H; cbn.
    - reflexivity.
    - rewrite IHPermutation. reflexivity.
    - rewrite !orb_assoc. rewrite (orb_comm (f y) (f x)). reflexivity.
    - congruence.
  Qed.

  Lemma uniform_perm : forall l1 l2, Permutation l1 l2 -> uniform l1 -> uniform l2.
  Proof. intros l1 l2 H U. unfold uniform in *. eapply Permutation_Forall; eauto. Qed.

  Theorem first_exit_perm : forall l1 l2, Permutation l1 l2 -> uniform l1 ->
    first_exit T g l1 = first_exit T g l2.
  Proof.
    intros l1 l2 H U.
    rewrite (first_exit_uniform l1 U). rewrite (first_exit_uniform l2 (uniform_perm l1 l2 H U)).
    rewrite (existsb_perm _ l1 l2 H). reflexivity.
  Qed.
End Order.

(* tables that differ only in the order of the early exits *)
Definition with_exits (T : tables) (xs : list xexit) : tables :=
  {| t_options := t_options T; t_numfmt := t_numfmt T; t_maps := t_maps T; t_exits := xs;
     t_wiring := t_wiring T; t_io := t_io T; t_catch := t_catch T |}.

Lemma eval_with_exits : forall T xs g e, eval (with_exits T xs) g e = eval T g e.
Proof.
  intros T xs g e. induction e; cbn; try reflexivity.
  - rewrite IHe. reflexivity.
  - rewrite IHe1, IHe2. reflexivity.
  - rewrite IHe. reflexivity.
  - rewrite IHe. reflexivity.
Qed.

Lemma test_fires_with_exits : forall T xs g t, test_fires (with_exits T xs) g t = test_fires T g t.
Proof.
  intros T xs g t. destruct t; cbn [test_fires]; try reflexivity.
  - rewrite eval_with_exits. reflexivity.
  - change (eval (with_exits T xs) g (WName map e)) with (eval (with_exits T xs) g (WName map e)).
    rewrite eval_with_exits. reflexivity.
  - rewrite eval_with_exits. reflexivity.
  - rewrite eval_with_exits. reflexivity.
Qed.

Lemma first_exit_with_exits : forall T xs g l, first_exit (with_exits T xs) g l = first_exit T g l.
Proof.
  intros T xs g l. induction l as [|x l IH]; [reflexivity|].
  cbn [first_exit]. rewrite test_fires_with_exits. rewrite IH. reflexivity.
Qed.

Lemma eval_all_with_exits : forall T xs g l, eval_all (with_exits T xs) g l = eval_all T g l.
Proof.
  intros T xs g l. induction l as [|[k e] l IH]; [reflexivity|].
  cbn [eval_all]. rewrite eval_with_exits. rewrite IH. reflexivity.
Qed.

Theorem decide_view_exits_perm : forall T xs ok g,
  Permutation (t_exits T) xs -> uniform T g (t_exits T) ->
  decide_view (with_exits T xs) ok g = decide_view T ok g.
Proof.
  intros T xs ok g HP HU. unfold decide_view.
  change (catch_code (with_exits T xs)) with (catch_code T).
  change (t_exits (with_exits T xs)) with xs.
  change (t_wiring (with_exits T xs)) with (t_wiring T).
  change (t_io (with_exits T xs)) with (t_io T).
  rewrite first_exit_with_exits. rewrite !eval_all_with_exits.
  rewrite <- (first_exit_perm T g (t_exits T) xs HP HU). reflexivity.
Qed.

(* the documented exits are uniform for every command line *)
Arguments lookup_name : simpl never.
Arguments cmpZ : simpl never.
Arguments cmpQ : simpl never.
Arguments flag : simpl never.
Arguments str_of : simpl never.
Arguments int_of : simpl never.
Arguments dbl_of : simpl never.

Lemma doc_exits_uniform : forall g, uniform doc_tables g (t_exits doc_tables).
Proof.
  intro g. unfold uniform. cbn [t_exits doc_tables doc_exits].
  repeat (apply Forall_cons; [split; [reflexivity|]|]); try apply Forall_nil; cbn.
  - destruct (flag g ["h"; "help"]); discriminate.
  - destruct (str_of g ["m"; "method"] "locally_linear_embedding"); [|discriminate].
    destruct (lookup_name _ _); discriminate.
  - destruct (str_of g ["nm"; "neighbors-method"] "covertree"); [|discriminate].
    destruct (lookup_name _ _); discriminate.
  - destruct (str_of g ["em"; "eigen-method"] "dense"); [|discriminate].
    destruct (lookup_name _ _); discriminate.
  - destruct (str_of g ["cs"; "computation-strategy"] "cpu"); [|discriminate].
    destruct (lookup_name _ _); discriminate.
  - destruct (int_of g ["td"; "target-dimension"] 2); [|discriminate]. destruct (cmpZ _ _ _); discriminate.
  - destruct (int_of g ["k"; "num-neighbors"] 10); [|discriminate]. destruct (cmpZ _ _ _); discriminate.
  - destruct (dbl_of g ["gw"; "gaussian-width"] (1 # 1)); [|discriminate]. destruct (cmpQ _ _ _); discriminate.
  - destruct (int_of g ["timesteps"] 1); [|discriminate]. destruct (cmpZ _ _ _); discriminate.
Qed.
