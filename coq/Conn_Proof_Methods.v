(* Conn_Proof_Methods.v — find_neighbors(method, ..., check_connectivity = true) end to end for
   two of the three neighbour methods, by composing this slice's theorems with property C02's
   models and theorems (Knn_Brute_Model / Knn_VpTree_Model and their exactness lemmas):

     brute force : rows = brute_row_fixed of what std::nth_element left in `distances`
                   (oracle, contract nth_ok; one call per row and per k of the recursion);
     VP-tree     : a new tree is built for every k of the recursion (build with the oracles
                   piv = pivot draw, nth = nth_element, contracts piv_ok / nth_oracle_ok),
                   rows = vp_row_fixed.

   For every oracle answer meeting its contract the recursion terminates and returns
   k' = min(k*2^j, N-1) for the least j whose graph is strongly connected.  (The cover tree
   is not composed here: C02 proves its selection wrapper only, the batch query is an
   oracle there.) *)
From Coq Require Import List Arith Bool ZArith Lia Permutation.
From TK Require Import Conn_Model Conn_Spec Conn_Proof Conn_Proof_Main Conn_Proof_Knn.
From TK Require Knn_Spec Knn_Brute_Model Knn_Brute_Proof Knn_VpTree_Model Knn_VpTree_Proof
     Knn_CoverSel_Model Knn_CoverSel_Proof.
Import ListNotations.

Module KS := Knn_Spec.
Module BM := Knn_Brute_Model.
Module BP := Knn_Brute_Proof.
Module VM := Knn_VpTree_Model.
Module VP := Knn_VpTree_Proof.
Module CM := Knn_CoverSel_Model.
Module CP := Knn_CoverSel_Proof.

Definition row_or_nil (o : option (list Z)) : list Z := match o with Some l => l | None => [] end.

Lemma nth_map_seq : forall (A : Type) (f : nat -> A) N i (dflt : A), i < N ->
  nth i (map f (seq 0 N)) dflt = f i.
Proof.
  intros A f N i dflt Hi.
  rewrite (nth_indep _ dflt (f 0)) by (rewrite map_length, seq_length; auto).
  rewrite map_nth. rewrite seq_nth by auto. reflexivity.
Qed.

(* ------------------------------------------------------------ brute force *)
(* oracle k q = the content of `distances` after std::nth_element, for query q when k
   neighbours are asked for *)
Definition brute_search (N : nat) (oracle : nat -> nat -> list BM.drec) (k : nat) : list (list Z) :=
  map (fun q => row_or_nil (BM.brute_row_fixed (oracle k q) k)) (seq 0 N).

Lemma main_cc_brute : forall (d : KS.dist) N oracle,
  1 <= N ->
  (forall k q, k <= N - 1 -> q < N ->
     BM.nth_ok k (BM.brute_dists_fixed d N (Z.of_nat q)) (oracle k q)) ->
  forall k, 1 <= k ->
  exists j, find_neighbors is_connected_fixed (fun k => graph_of_Z (brute_search N oracle k)) N N k true
            = COk (kseq N k j, graph_of_Z (brute_search N oracle (kseq N k j))) /\
    strongly_connected N (graph_of_Z (brute_search N oracle (kseq N k j))) /\
    forall j', j' < j -> ~ strongly_connected N (graph_of_Z (brute_search N oracle (kseq N k j'))).
Proof.
  intros d N oracle HN Hor k Hk.
  apply (main_cc_from_c02 d N (brute_search N oracle) HN); auto.
  intros k0 Hk0. split.
  - unfold brute_search. rewrite map_length, seq_length. reflexivity.
  - intros i Hi. unfold brute_search. rewrite nth_map_seq by auto.
    destruct (BP.brute_exact_lemma d N (Z.of_nat i) k0 (oracle k0 i)) as [l [El Hl]].
    + lia.
    + lia.
    + apply Hor; auto.
    + rewrite El. exact Hl.
Qed.

(* ------------------------------------------------------------ VP-tree *)
Definition vptree_search (d : KS.dist) (N : nat)
           (piv : nat -> nat -> nat -> nat) (nth : nat -> nat -> nat -> Z -> list Z -> list Z)
           (k : nat) : list (list Z) :=
  match VM.build d (piv k) (nth k) (S N) 0 (KS.samples N) with
  | VM.Built t => map (fun q => row_or_nil (VM.vp_row_fixed d t (Z.of_nat q) k)) (seq 0 N)
  | _ => repeat [] N
  end.

Lemma samples_length : forall N, length (KS.samples N) = N.
Proof.
  intros N. unfold KS.samples. generalize 0%Z. induction N as [|N IH]; intros s; cbn; auto.
Qed.

Lemma main_cc_vptree : forall (d : KS.dist) N piv nth,
  1 <= N -> KS.metric_on (KS.in_range N) d ->
  (forall k, VP.piv_ok (piv k)) -> (forall k, VP.nth_oracle_ok d (nth k)) ->
  forall k, 1 <= k ->
  exists j, find_neighbors is_connected_fixed (fun k => graph_of_Z (vptree_search d N piv nth k)) N N k true
            = COk (kseq N k j, graph_of_Z (vptree_search d N piv nth (kseq N k j))) /\
    strongly_connected N (graph_of_Z (vptree_search d N piv nth (kseq N k j))) /\
    forall j', j' < j ->
      ~ strongly_connected N (graph_of_Z (vptree_search d N piv nth (kseq N k j'))).
Proof.
  intros d N piv nth HN Hm Hpiv Hnth k Hk.
  apply (main_cc_from_c02 d N (vptree_search d N piv nth) HN); auto.
  intros k0 Hk0. unfold vptree_search.
  destruct (VP.build_inv_lemma d (piv k0) (nth k0) (Hpiv k0) (Hnth k0) (S N) 0 (KS.samples N))
    as [t [Eb [Hinv Hperm]]].
  { rewrite samples_length. lia. }
  rewrite Eb. split.
  - rewrite map_length, seq_length. reflexivity.
  - intros i Hi. rewrite nth_map_seq by auto.
    destruct (VP.vptree_wrapper_exact_lemma d N t (Z.of_nat i) k0) as [l [El Hl]]; auto.
    + unfold KS.in_range. lia.
    + apply Permutation_sym. exact Hperm.
    + lia.
    + rewrite El. exact Hl.
Qed.

(* ------------------------------------------------------------ cover tree: the selection wrapper of
   find_neighbors_covertree_impl over the candidate lists returned by the batch query (oracle;
   contract cand_complete, which C02's check validates on every observed query — the batch query
   itself is not modelled, as in C02) *)
Definition covertree_search (d : KS.dist) (N : nat) (cands : nat -> nat -> list Z) (k : nat)
  : list (list Z) :=
  map (fun q => row_or_nil (CM.ct_select_fixed d (Z.of_nat q :: cands k q) k)) (seq 0 N).

Lemma main_cc_covertree_partial : forall (d : KS.dist) N cands,
  1 <= N ->
  (forall k q, k <= N - 1 -> q < N -> CM.cand_complete d N (Z.of_nat q) k (cands k q)) ->
  forall k, 1 <= k ->
  exists j, find_neighbors is_connected_fixed (fun k => graph_of_Z (covertree_search d N cands k)) N N k true
            = COk (kseq N k j, graph_of_Z (covertree_search d N cands (kseq N k j))) /\
    strongly_connected N (graph_of_Z (covertree_search d N cands (kseq N k j))) /\
    forall j', j' < j ->
      ~ strongly_connected N (graph_of_Z (covertree_search d N cands (kseq N k j'))).
Proof.
  intros d N cands HN Hc k Hk.
  apply (main_cc_from_c02 d N (covertree_search d N cands) HN); auto.
  intros k0 Hk0. split.
  - unfold covertree_search. rewrite map_length, seq_length. reflexivity.
  - intros i Hi. unfold covertree_search. rewrite nth_map_seq by auto.
    destruct (CP.ct_select_exact_lemma d N (Z.of_nat i) k0 (cands k0 i)) as [l [El Hl]].
    + unfold KS.in_range. lia.
    + lia.
    + apply Hc; auto.
    + rewrite El. exact Hl.
Qed.

(* ------------------------------------------------------------ non-vacuity: the reference
   oracles of C02 (stable sort for nth_element, first element as pivot) on |i - j| *)
Definition m_line_d : KS.dist := fun i j => Z.abs (i - j).

Lemma nv_methods :
  1 <= 5 /\ KS.metric_on (KS.in_range 5) m_line_d /\
  (forall k q, k <= 5 - 1 -> q < 5 ->
     BM.nth_ok k (BM.brute_dists_fixed m_line_d 5 (Z.of_nat q))
              (BM.nth_element_ref (BM.brute_dists_fixed m_line_d 5 (Z.of_nat q)))) /\
  (forall k : nat, VP.piv_ok VM.piv_first) /\
  (forall k : nat, VP.nth_oracle_ok m_line_d (VM.nth_sort m_line_d)).
Proof.
  split; [lia|]. split; [apply KS.metric_b_sound; vm_compute; reflexivity|].
  split; [intros k q _ _; apply BP.nth_element_ref_ok|].
  split; [intros _; exact VP.piv_first_ok|intros _; exact (VP.nth_sort_ok m_line_d)].
Qed.

Lemma nv_covertree :
  forall k q, k <= 5 - 1 -> q < 5 ->
    CM.cand_complete m_line_d 5 (Z.of_nat q) k (KS.others 5 (Z.of_nat q)).
Proof.
  intros k q Hk Hq.
  assert (Hq' : q = 0 \/ q = 1 \/ q = 2 \/ q = 3 \/ q = 4) by lia.
  assert (Hk' : k = 0 \/ k = 1 \/ k = 2 \/ k = 3 \/ k = 4) by lia.
  destruct Hq' as [-> | [-> | [-> | [-> | ->]]]];
    destruct Hk' as [-> | [-> | [-> | [-> | ->]]]];
    apply CP.cand_complete_b_sound; vm_compute; reflexivity.
Qed.
