(* ====================================================================== *)
(*  Mds_Spec_Wtol.v — C05, wave 2: the factor specification with a         *)
(*  tolerance PER ENTRY (per-column relative), its decision procedure and  *)
(*  how it relates to factor_spec / factor_spec_tol.                       *)
(* ====================================================================== *)
Require Import Arith Lia List Bool ZArith QArith Qcanon.
From TK Require Import Mat_Sums Mat_Core Mat_Qc Mds_Spec.
Import ListNotations.
Local Open Scope nat_scope.

(* ---------------- entrywise (per-column relative) tolerances — wave 2 ----------------
   factor_spec_tol has ONE tolerance for every entry, in practice a fraction of the top eigenvalue:
   a retained eigenvalue that is 10 decades below the top one is invisible to it (a zero column
   passes).  The check therefore runs the clauses with a tolerance PER ENTRY
     |(Y^T Y - diag lam)_ab| <= T1_ab        |(B Y - Y diag lam)_ic| <= T2_c
   (T1_ab ~ tau * sqrt(lam_a lam_b), T2_c ~ tau * lam_max * sqrt(lam_c), computed by the caller).
   With all tolerances 0 this is factor_spec; with all tolerances <= tol it implies factor_spec_tol. *)
Definition within_m_b (n m : nat) (Tol A B : mat Qc) : bool :=
  forallb (fun i => forallb (fun j => qleb (qabs (A i j - B i j)%Qc) (Tol i j)) (seq 0 m)) (seq 0 n).

Definition within_m (n m : nat) (Tol A B : mat Qc) : Prop :=
  forall i j, i < n -> j < m -> (qabs (A i j - B i j) <= Tol i j)%Qc.

Lemma within_m_b_ok n m Tol A B : within_m_b n m Tol A B = true <-> within_m n m Tol A B.
Proof.
  unfold within_m_b, within_m. rewrite forallb_forall. split.
  - intros H i j Hi Hj. apply qleb_ok.
    assert (Hin : In i (seq 0 n)) by (apply in_seq; lia).
    specialize (H i Hin). rewrite forallb_forall in H. apply H. apply in_seq. lia.
  - intros H i Hi. apply in_seq in Hi. rewrite forallb_forall. intros j Hj.
    apply in_seq in Hj. apply qleb_ok. apply H; lia.
Qed.

Definition factor_spec_wtol_b (n d : nat) (T1 : list (list Qc)) (T2 : list Qc)
           (B Y : list (list Qc)) (lam : list Qc) : option bool :=
  if wf_matb n n B && wf_matb n d Y && Nat.eqb (length lam) d &&
     wf_matb d d T1 && Nat.eqb (length T2) d then
    let Bm := mof B in let Ym := mof Y in let l := vof lam in
    let BY := mtab n d (mmul n Bm Ym) in
    Some (within_m_b d d (mof T1) (mmul n (mtrans Ym) Ym) (mdiag l) &&
          within_m_b n d (fun _ c => vof T2 c) (mof BY) (mmul d Ym (mdiag l)))
  else None.

Definition factor_spec_wtol (n d : nat) (T1 : mat Qc) (T2 : vec Qc) (B Y : mat Qc) (lam : vec Qc) : Prop :=
  within_m d d T1 (mmul n (mtrans Y) Y) (mdiag lam) /\
  within_m n d (fun _ c => T2 c) (mmul n B Y) (mmul d Y (mdiag lam)).

(* ---------------- the procedure decides the Prop ---------------- *)
Theorem factor_spec_wtol_b_ok n d (T1 : list (list Qc)) (T2 : list Qc) (B Y : list (list Qc)) (lam : list Qc) :
  factor_spec_wtol_b n d T1 T2 B Y lam = Some true ->
  factor_spec_wtol n d (mof T1) (vof T2) (mof B) (mof Y) (vof lam).
Proof.
  unfold factor_spec_wtol_b, factor_spec_wtol.
  destruct (wf_matb n n B && wf_matb n d Y && Nat.eqb (length lam) d &&
            wf_matb d d T1 && Nat.eqb (length T2) d); [|discriminate].
  intros H. injection H as H. apply andb_true_iff in H. destruct H as [H1 H2].
  apply within_m_b_ok in H1. apply within_m_b_ok in H2. split; [exact H1|].
  intros i c Hi Hc. specialize (H2 i c Hi Hc).
  rewrite (@mof_mtab Qc QcOps) in H2 by assumption. exact H2.
Qed.

(* entrywise tolerances that are all <= tol: the uniform specification follows *)
Theorem factor_spec_wtol_uniform n d tol (T1 : mat Qc) (T2 : vec Qc) (B Y : mat Qc) (lam : vec Qc) :
  (forall a b, a < d -> b < d -> (T1 a b <= tol)%Qc) ->
  (forall c, c < d -> (T2 c <= tol)%Qc) ->
  factor_spec_wtol n d T1 T2 B Y lam ->
  factor_spec_tol n d tol B Y lam.
Proof.
  intros HT1 HT2 [H1 H2]. split.
  - intros a b Ha Hb. eapply Qcle_trans; [apply H1; assumption|apply HT1; assumption].
  - intros i c Hi Hc. eapply Qcle_trans; [apply H2; assumption|apply HT2; assumption].
Qed.

Lemma qabs_le_zero_eq (x y : Qc) : (qabs (x - y) <= Q2Qc 0)%Qc -> x = y.
Proof.
  intros H. unfold qabs in H. destruct (qleb (Q2Qc 0) (x - y)%Qc) eqn:E.
  - apply qleb_ok in E.
    assert (K : (x - y = 0)%Qc) by (apply Qcle_antisym; assumption).
    apply (f_equal (fun z => (z + y)%Qc)) in K. ring_simplify in K. exact K.
  - assert (E' : ~ (0 <= x - y)%Qc) by (intros K; apply qleb_ok in K; rewrite K in E; discriminate).
    exfalso. apply E'. apply Qcopp_le_compat in H. rewrite Qcopp_involutive in H. exact H.
Qed.

(* all tolerances 0: factor_spec itself *)
Theorem factor_spec_wtol_exact n d (B Y : mat Qc) (lam : vec Qc) :
  factor_spec_wtol n d (fun _ _ => Q2Qc 0) (fun _ => Q2Qc 0) B Y lam ->
  factor_spec n d B Y lam.
Proof.
  intros [H1 H2]. split.
  - intros a b Ha Hb. apply qabs_le_zero_eq. apply H1; assumption.
  - intros i c Hi Hc. apply qabs_le_zero_eq. apply H2; assumption.
Qed.
