(* ====================================================================== *)
(*  Landmark_Proof_Main.v — theorems about the whole Landmark-MDS model    *)
(*  (lmds_embed / lmds): shape, landmark block = MDS of the subset,        *)
(*  triangulation of the rest, bounds (F21), Euclidean reproduction.       *)
(* ====================================================================== *)
Require Import Field Ring Arith Lia List Bool Permutation.
Require String.
From Coq Require Import Floats ZArith.
From TK Require Import Mat_Sums Mat_Core Landmark_Model Landmark_Float Landmark_Spec
                       Landmark_Proof_Trace Landmark_Proof_Euclid.
Import ListNotations.
Import String.StringSyntax.
Local Open Scope string_scope.

Lemma find_oob_none N lm :
  Forall (fun l => l < N) lm <-> find (fun l => negb (Nat.ltb l N)) lm = None.
Proof.
  induction lm as [|l r IH]; cbn [find].
  - split; [reflexivity|constructor].
  - destruct (Nat.ltb l N) eqn:E; cbn [negb].
    + apply Nat.ltb_lt in E. rewrite <- IH. split.
      * intros H. exact (Forall_inv_tail H).
      * intros H. constructor; assumption.
    + apply Nat.ltb_ge in E. split; [|discriminate].
      intros H. pose proof (Forall_inv H) as Hl. cbv beta in Hl. lia.
Qed.

Section Main.
  Context {F : Type} {Fo : FieldOps F} {Ff : IsField F}.
  Add Field LandmarkMainField : (@Fth F Fo Ff).
  Local Open Scope nat_scope.

  (* the d selected columns / values of a dense answer (W, w) of size L *)
  Definition sel_vecs (L d : nat) (W : mat F) : mat F := fun r c => W r (L - d + c).
  Definition sel_vals (L d : nat) (w : vec F) : vec F := fun c => w (L - d + c).

  Definition lmds_E (L d : nat) (W : mat F) (w s : vec F) : @eig_result F :=
    {| er_rows := L; er_cols := d; er_first := scale_by (sel_vecs L d W) s;
       er_size := d; er_second := sel_vals L d w |}.

  (* triangulate: write trace + formula (landmark rows copied BEFORE the in-place division,
     the others = -1/2 pinv(Y_L) (delta - mu)) *)
  Theorem triangulate_formula_lemma N d keep lm dist mu_size mu (E : @eig_result F) ws :
    NoDup lm ->
    triangulate N d keep lm dist mu_size mu E = LOk ws ->
    (forall x, x < N -> count_occ Nat.eq_dec (map fst ws) x = 1) /\
    (forall x, In x (map fst ws) -> x < N) /\
    (forall i, i < length lm -> last_write ws (lmk lm i) = Some (mrow (er_first E) i)) /\
    (forall x, x < N -> ~ In x lm ->
       exists v, last_write ws x = Some v /\
         forall c, c < d ->
           v c = if keep c then tri_spec_row (length lm) lm dist mu (er_first E) (er_second E) x c
                 else 0%F).
  Proof.
    intros Hnd H. destruct (triangulate_trace _ _ _ _ _ _ _ _ _ Hnd H) as [H1 [H2 [H3 H4]]].
    split; [exact H1|]. split; [exact H2|]. split; [exact H3|].
    intros x Hx Hnin. eexists. split; [apply H4; assumption|].
    intros c Hc. apply tri_math_row_spec. assumption.
  Qed.

  Lemma lmds_embed_inv N d keep lm dist W w s ws :
    lmds_embed N d keep lm dist W w s = LOk ws ->
    Forall (fun l => l < N) lm /\ d <= length lm /\
    triangulate N d keep lm dist (length lm)
                (landmark_mu (length lm) (landmark_dist_sq lm dist))
                (lmds_E (length lm) d W w s) = LOk ws.
  Proof.
    unfold lmds_embed. intros H.
    destruct (find (fun l => negb (Nat.ltb l N)) lm) eqn:Ef; [discriminate|].
    apply find_oob_none in Ef. split; [assumption|].
    unfold select_largest in H.
    destruct (Nat.leb d (length lm)) eqn:Ed; [|discriminate].
    apply Nat.leb_le in Ed. split; [assumption|]. exact H.
  Qed.

  (* target_dimension <= #landmarks: no out-of-range access, an embedding is produced *)
  Theorem lmds_embed_total N d keep lm dist W w s :
    Forall (fun l => l < N) lm -> d <= length lm ->
    exists ws, lmds_embed N d keep lm dist W w s = LOk ws.
  Proof.
    intros Hf Hd. unfold lmds_embed.
    pose proof (proj1 (find_oob_none N lm) Hf) as Ef. rewrite Ef.
    unfold select_largest. apply Nat.leb_le in Hd. rewrite Hd.
    apply triangulate_total; try assumption; try reflexivity.
  Qed.

  (* target_dimension > #landmarks (accepted by validation, F21): rightCols(d) leaves the
     L-column eigenvector matrix, whatever the solver answered *)
  Theorem lmds_embed_bounds N d keep lm dist W w s :
    Forall (fun l => l < N) lm -> length lm < d ->
    lmds_embed N d keep lm dist W w s =
      LOOB "solver.eigenvectors().rightCols(target_dimension)" d (length lm).
  Proof.
    intros Hf Hd. unfold lmds_embed.
    pose proof (proj1 (find_oob_none N lm) Hf) as Ef. rewrite Ef.
    unfold select_largest. apply Nat.leb_gt in Hd. rewrite Hd. reflexivity.
  Qed.

  (* "Landmark MDS embeds the landmarks exactly as MDS would embed that subset":
     (1) the matrix handed to the solver is MDS's matrix for the sub-configuration,
     (2) given the same solver/sqrt answers, row landmarks[i] of the output is row i of MDS's
         output on the subset. *)
  Theorem lmds_landmarks_are_mds_lemma N d keep lm dist W w s ws :
    NoDup lm ->
    lmds_embed N d keep lm dist W w s = LOk ws ->
    let L := length lm in
    let sub : mat F := fun i j => dist (lmk lm i) (lmk lm j) in
    (forall i j, lmds_matrix lm dist i j = mds_matrix_full L sub i j) /\
    exists Y, mds_embed L d W w s = LOk Y /\
              forall i, i < L -> last_write ws (lmk lm i) = Some (mrow Y i).
  Proof.
    intros Hnd H L sub. split; [intros; reflexivity|].
    destruct (lmds_embed_inv _ _ _ _ _ _ _ _ _ H) as [Hf [Hd Ht]].
    exists (scale_by (sel_vecs L d W) s). split.
    - unfold mds_embed, select_largest. fold L in Hd. apply Nat.leb_le in Hd. rewrite Hd. reflexivity.
    - intros i Hi.
      destruct (triangulate_trace _ _ _ _ _ _ _ _ _ Hnd Ht) as [_ [_ [Hl _]]].
      exact (Hl i Hi).
  Qed.

  (* every other row is the distance-based triangulation against the landmark embedding *)
  Theorem lmds_triangulates_lemma N d keep lm dist W w s ws :
    NoDup lm ->
    lmds_embed N d keep lm dist W w s = LOk ws ->
    let L := length lm in
    (forall x, x < N -> count_occ Nat.eq_dec (map fst ws) x = 1) /\
    (forall x, In x (map fst ws) -> x < N) /\
    (forall x, x < N -> ~ In x lm ->
       exists v, last_write ws x = Some v /\
         forall c, c < d ->
           v c = if keep c
                 then tri_spec_row L lm dist (landmark_mu L (landmark_dist_sq lm dist))
                                   (scale_by (sel_vecs L d W) s) (sel_vals L d w) x c
                 else 0%F).
  Proof.
    intros Hnd H L.
    destruct (lmds_embed_inv _ _ _ _ _ _ _ _ _ H) as [Hf [Hd Ht]].
    destruct (triangulate_trace _ _ _ _ _ _ _ _ _ Hnd Ht) as [H1 [H2 [_ H4]]].
    split; [exact H1|]. split; [exact H2|].
    intros x Hx Hnin. eexists. split; [apply H4; assumption|].
    intros c Hc. apply (tri_math_row_spec keep lm dist _ (lmds_E (length lm) d W w s) d x c Hc).
  Qed.

  (* the "Hence" clause: Euclidean data, landmark Gram carried by the d selected eigenpairs,
     landmarks spanning the data  ==>  every pairwise distance is reproduced *)
  Theorem lmds_reproduces_euclidean_lemma N D d keep lm (X dist W : mat F) (w s : vec F) ws :
    NoDup lm ->
    let L := length lm in
    let V := sel_vecs L d W in let lam := sel_vals L d w in
    of_nat L <> 0%F -> @two F Fo <> 0%F ->
    (forall a b, a < N -> b < N -> (dist a b * dist a b)%F = lm_sqdist D X a b) ->
    lmds_embed N d keep lm dist W w s = LOk ws ->
    meq L d (mmul L (lmds_matrix lm dist) V) (mmul d V (mdiag lam)) ->
    lm_rank_d L d (lmds_matrix lm dist) V lam ->
    (forall c, c < d -> (s c * s c)%F = lam c) ->
    (forall c, c < d -> keep c = true -> lam c <> 0%F) ->
    (forall c, c < d -> keep c = false -> s c = 0%F) ->
    landmarks_span N D lm X ->
    lm_dist_reproduced N d (last_write ws) dist.
  Proof.
    intros Hnd L V lam HL H2 Hdist H HBV Hrank Hs Hkeep Hdrop Hspan.
    destruct (lmds_embed_inv _ _ _ _ _ _ _ _ _ H) as [Hf [Hd Ht]].
    destruct (triangulate_trace _ _ _ _ _ _ _ _ _ Hnd Ht) as [_ [_ [H3 H4]]].
    set (y := fun a : nat => match last_write ws a with Some v => v | None => fun _ => 0%F end).
    assert (Hy : forall a, a < N -> last_write ws a = Some (y a)).
    { intros a Ha. unfold y. destruct (in_dec Nat.eq_dec a lm) as [Hin|Hnin].
      - destruct (In_nth lm a 0 Hin) as [i [Hi Hai]]. fold (lmk lm i) in Hai. rewrite <- Hai.
        rewrite (H3 i Hi). reflexivity.
      - rewrite (H4 a Ha Hnin). reflexivity. }
    assert (Hrep : forall a b, a < N -> b < N ->
               sumn d (fun c => ((y a c - y b c) * (y a c - y b c))%F) = (dist a b * dist a b)%F).
    { apply (rows_reproduce N D d lm X dist V lam s keep HL H2 Hf Hdist HBV Hrank Hs Hkeep Hdrop y Hspan).
      - intros i c Hi Hc. unfold y. rewrite (H3 i Hi). reflexivity.
      - intros a c Ha Hnin Hc. unfold y. rewrite (H4 a Ha Hnin).
        apply (tri_math_row_spec keep lm dist _ (lmds_E (length lm) d W w s) d a c Hc). }
    intros a b Ha Hb. exists (y a), (y b). split; [apply Hy; assumption|].
    split; [apply Hy; assumption|]. apply Hrep; assumption.
  Qed.

  (* whole method, selection included: any permutation and any count <= N that leaves at least
     d landmarks gives an embedding in which every row is written exactly once *)
  Theorem lmds_total_lemma N d keep shuffled count dist W w s :
    Permutation shuffled (seq 0 N) -> d <= count -> count <= N ->
    exists ws, lmds N d keep shuffled count dist W w s = LOk ws /\
      (forall x, x < N -> count_occ Nat.eq_dec (map fst ws) x = 1) /\
      (forall x, In x (map fst ws) -> x < N).
  Proof.
    intros HP Hd Hc. unfold lmds.
    destruct (landmarks_prefix_of_perm_lemma shuffled N count HP) as [Hok _].
    destruct (Hok Hc) as [Hsel [Hnd [Hf Hlen]]]. rewrite Hsel.
    destruct (lmds_embed_total N d keep (firstn count shuffled) dist W w s Hf) as [ws Hws]; [lia|].
    exists ws. split; [exact Hws|].
    destruct (lmds_triangulates_lemma _ _ _ _ _ _ _ _ _ Hnd Hws) as [H1 [H2 _]].
    split; assumption.
  Qed.
  (* the CURRENT validate() (fix F21): an accepted request never leaves the eigenvector matrix:
     with the landmark count the code computes, target_dimension <= count <= N *)
  Theorem lmds_validated_no_oob_lemma N d keep ratio count shuffled dist W w s :
    Permutation shuffled (seq 0 N) ->
    lmds_validate N d ratio = true ->
    n_landmarks_nat N ratio = Some count ->
    d <= count /\ count <= N /\
    exists ws, lmds N d keep shuffled count dist W w s = LOk ws /\
      (forall x, x < N -> count_occ Nat.eq_dec (map fst ws) x = 1) /\
      (forall x, In x (map fst ws) -> x < N).
  Proof.
    intros HP Hv Hc. unfold lmds_validate in Hv. apply andb_true_iff in Hv. destruct Hv as [_ Hv].
    unfold n_landmarks_nat in Hc.
    destruct (n_landmarks_fl N ratio) as [z|]; [|discriminate].
    destruct ((0 <=? z)%Z && (z <=? Z.of_nat N)%Z) eqn:E; [|discriminate].
    apply andb_true_iff in E. destruct E as [E1 E2].
    apply Z.leb_le in E1. apply Z.leb_le in E2. apply Z.leb_le in Hv.
    inversion Hc; subst count. clear Hc.
    assert (Hd : d <= Z.to_nat z) by lia. assert (Hn : Z.to_nat z <= N) by lia.
    split; [exact Hd|]. split; [exact Hn|].
    apply lmds_total_lemma; assumption.
  Qed.
End Main.
