(* Validate_Proof.v — property C14: lemmas about the model of Validate_Model.v.

   A. predicate semantics over all of Q (in_range l u v <-> l <= v < u, ...)
   B. the ParametersSet model: lookup after add / build / merge; duplicates; explicit_wins and
      defaults_fill at the level of maps
   C. typed maps: after checkTypes + merge every default keyword holds a value of its default type
   D. method bodies: no throw after a kernel/distance evaluation (late_safe), erasure of the
      conversions (summarise_sound), steps = documented clauses
   E. embed(): the run over the documented stage order, and the theorems of Properties_C14.v *)

From Coq Require Import ZArith QArith Qround List Bool Arith Lia.
Import ListNotations.
From TK Require Import Validate_Model Validate_Spec.
Local Open Scope nat_scope.

(* ================================================================== A. predicates *)
Lemma vtype_eqb_eq : forall a b, vtype_eqb a b = true <-> a = b.
Proof.
  intros a b; split.
  - destruct a, b; cbn; intros H; try discriminate; try reflexivity.
    apply Nat.eqb_eq in H. now subst.
  - intros ->. destruct b; cbn; auto. apply Nat.eqb_refl.
Qed.

Lemma vtype_eqb_refl : forall a, vtype_eqb a a = true.
Proof. intros; now apply vtype_eqb_eq. Qed.

Lemma vtype_eqb_sym : forall a b, vtype_eqb a b = vtype_eqb b a.
Proof.
  intros a b. destruct (vtype_eqb a b) eqn:E.
  - apply vtype_eqb_eq in E. subst. now rewrite vtype_eqb_refl.
  - destruct (vtype_eqb b a) eqn:E2; auto. apply vtype_eqb_eq in E2. subst.
    now rewrite vtype_eqb_refl in E.
Qed.

Lemma Qltb_lt : forall x y, Qltb x y = true <-> (x < y)%Q.
Proof.
  intros x y. unfold Qltb. rewrite negb_true_iff. split.
  - intros H. apply Qnot_le_lt. intros L. apply Qle_bool_iff in L. congruence.
  - intros H. destruct (Qle_bool y x) eqn:E; auto.
    apply Qle_bool_iff in E. exfalso. now apply (Qlt_not_le x y).
Qed.

Lemma in_range_spec : forall n ty l u x,
  pred_holds n ty (in_range l u) x = true <-> (bound n ty l <= x /\ x < bound n ty u)%Q.
Proof.
  intros. unfold pred_holds, in_range, bound; cbn.
  now rewrite andb_true_iff, Qle_bool_iff, Qltb_lt.
Qed.

Lemma in_closed_range_spec : forall n ty l u x,
  pred_holds n ty (in_closed_range l u) x = true <-> (bound n ty l <= x /\ x <= bound n ty u)%Q.
Proof.
  intros. unfold pred_holds, in_closed_range, bound; cbn.
  now rewrite andb_true_iff, !Qle_bool_iff.
Qed.

Lemma positive_spec : forall n ty x, pred_holds n ty positive x = true <-> (0 < x)%Q.
Proof.
  intros. unfold pred_holds, positive; cbn. rewrite andb_true_r.
  destruct ty; cbn; apply Qltb_lt.
Qed.

Lemma non_negative_spec : forall n ty x, pred_holds n ty non_negative x = true <-> (0 <= x)%Q.
Proof.
  intros. unfold pred_holds, non_negative; cbn. rewrite andb_true_r.
  destruct ty; cbn; apply Qle_bool_iff.
Qed.

(* the bounds of the statement, as numbers *)
Lemma bound_target_dimension : forall n, (bound n TIndex (BInt 1) == 1 /\ bound n TIndex BN == inject_Z (e_n n))%Q.
Proof. intros; split; reflexivity. Qed.

Lemma bound_num_neighbors : forall n, (bound n TIndex (BInt 3) == 3 /\ bound n TIndex BN == inject_Z (e_n n))%Q.
Proof. intros; split; reflexivity. Qed.

Lemma bound_landmark_ratio : forall n,
  (bound n TScalar (BDiv (BReal 3) BN) == 3 / inject_Z (e_n n) /\ bound n TScalar (BReal 1) == 1)%Q.
Proof. intros; split; reflexivity. Qed.

Lemma bound_perplexity : forall n,
  (bound n TScalar (BReal 0) == 0 /\
   bound n TScalar (BDiv (BSub BN (BInt 1)) (BReal 3)) == (inject_Z (e_n n) - 1) / 3)%Q.
Proof.
  intros; split; try reflexivity.
  unfold bound; cbn. unfold Z.sub. rewrite inject_Z_plus. reflexivity.
Qed.

(* ================================================================== B. maps *)
Lemma pm_lookup_In : forall k v pm, pm_lookup k pm = Some v -> In (k, v) pm.
Proof.
  induction pm as [|[k' v'] t IH]; cbn; [discriminate|].
  destruct (Nat.eqb k k') eqn:E.
  - intros [= ->]. apply Nat.eqb_eq in E. subst. now left.
  - intros H. right. auto.
Qed.

Lemma pm_lookup_none_notin : forall k pm, pm_lookup k pm = None <-> ~ In k (map fst pm).
Proof.
  induction pm as [|[k' v'] t IH]; cbn.
  - tauto.
  - destruct (Nat.eqb k k') eqn:E.
    + apply Nat.eqb_eq in E. subst. split; [discriminate | intros H; exfalso; apply H; now left].
    + apply Nat.eqb_neq in E. rewrite IH. split; intros H.
      * intros [C|C]; [congruence | tauto].
      * intros C. apply H. now right.
Qed.

Lemma pm_mem_lookup : forall k pm, pm_mem k pm = false <-> pm_lookup k pm = None.
Proof. intros. unfold pm_mem. destruct (pm_lookup k pm); split; congruence. Qed.

Lemma pm_lookup_set_same : forall k v pm, pm_lookup k (pm_set k v pm) = Some v.
Proof.
  induction pm as [|[k' v'] t IH]; cbn.
  - now rewrite Nat.eqb_refl.
  - destruct (Nat.eqb k k') eqn:E; cbn.
    + now rewrite Nat.eqb_refl.
    + now rewrite E.
Qed.

Lemma pm_lookup_set_other : forall k k' v pm, k <> k' -> pm_lookup k (pm_set k' v pm) = pm_lookup k pm.
Proof.
  intros k k' v pm N. induction pm as [|[k2 v2] t IH]; cbn.
  - apply Nat.eqb_neq in N. now rewrite N.
  - destruct (Nat.eqb k' k2) eqn:E; cbn.
    + apply Nat.eqb_eq in E. subst k2. apply Nat.eqb_neq in N. now rewrite N.
    + destruct (Nat.eqb k k2); auto.
Qed.

Lemma pm_set_absent : forall k v pm, pm_lookup k pm = None -> pm_set k v pm = pm ++ [(k, v)].
Proof.
  induction pm as [|[k' v'] t IH]; cbn; auto.
  destruct (Nat.eqb k k') eqn:E; [discriminate|]. intros H. now rewrite IH.
Qed.

(* merge(defaults): a name that is present keeps its value, an absent one gets the default *)
Lemma pm_merge_lookup : forall d pm k,
  pm_lookup k (pm_merge pm d) =
  match pm_lookup k pm with Some v => Some v | None => pm_lookup k d end.
Proof.
  unfold pm_merge. induction d as [|[kd vd] d IH]; intros pm k; cbn.
  - destruct (pm_lookup k pm); auto.
  - rewrite IH. unfold pm_mem.
    destruct (pm_lookup kd pm) eqn:Ed.
    + destruct (pm_lookup k pm) eqn:Ek; auto.
      destruct (Nat.eqb k kd) eqn:E; auto. apply Nat.eqb_eq in E. subst. congruence.
    + destruct (Nat.eqb k kd) eqn:E.
      * apply Nat.eqb_eq in E. subst. rewrite pm_lookup_set_same, Ed. reflexivity.
      * apply Nat.eqb_neq in E. rewrite pm_lookup_set_other by auto. reflexivity.
Qed.

(* explicit_wins / defaults_fill at the level of maps *)
Lemma merge_keeps : forall d pm k v, pm_lookup k pm = Some v -> pm_lookup k (pm_merge pm d) = Some v.
Proof. intros. rewrite pm_merge_lookup. now rewrite H. Qed.

Lemma merge_fills : forall d pm k, pm_lookup k pm = None -> pm_lookup k (pm_merge pm d) = pm_lookup k d.
Proof. intros. rewrite pm_merge_lookup. now rewrite H. Qed.

(* the comma expression *)
Lemma existsb_eqb_In : forall k l, existsb (Nat.eqb k) l = true <-> In k l.
Proof.
  intros. rewrite existsb_exists. split.
  - intros [x [H E]]. apply Nat.eqb_eq in E. now subst.
  - intros H. exists k. split; auto. apply Nat.eqb_refl.
Qed.

Lemma nodupb_NoDup : forall l, nodupb l = true <-> NoDup l.
Proof.
  induction l as [|k t IH]; cbn.
  - split; auto. constructor.
  - rewrite andb_true_iff, negb_true_iff, IH. split.
    + intros [H1 H2]. constructor; auto. intros C. apply existsb_eqb_In in C. congruence.
    + intros H. inversion H; subst. split; auto.
      destruct (existsb (Nat.eqb k) t) eqn:E; auto. apply existsb_eqb_In in E. contradiction.
Qed.

Lemma fold_add_nodup : forall kws s,
  NoDup (map fst kws) ->
  (forall k, In k (map fst kws) -> pm_lookup k (ps_map s) = None) ->
  fold_left ps_add kws s = {| ps_map := ps_map s ++ kws; ps_dups := ps_dups s |}.
Proof.
  induction kws as [|[k v] t IH]; intros s ND DJ; cbn.
  - rewrite app_nil_r. now destruct s.
  - inversion ND as [|? ? Hk ND']; subst.
    assert (L : pm_lookup k (ps_map s) = None) by (apply DJ; now left).
    rewrite IH; auto.
    + unfold ps_add at 1 2; cbn. unfold pm_mem. rewrite L. rewrite pm_set_absent by auto.
      now rewrite <- app_assoc.
    + intros k' Hk'. unfold ps_add; cbn. rewrite pm_set_absent by auto.
      assert (k' <> k) by (intros ->; contradiction).
      assert (L' : pm_lookup k' (ps_map s) = None) by (apply DJ; now right).
      apply pm_lookup_none_notin. rewrite map_app. cbn. intros C. apply in_app_or in C.
      destruct C as [C|[C|[]]]; [|congruence].
      apply pm_lookup_none_notin in L'. contradiction.
Qed.

Lemma build_nodup : forall kws, nodupb (map fst kws) = true ->
  ps_build kws = {| ps_map := kws; ps_dups := [] |}.
Proof.
  intros kws H. unfold ps_build. rewrite fold_add_nodup; auto.
  now apply nodupb_NoDup.
Qed.

(* dups only grows, and a repeated name lands in it *)
Lemma fold_add_dups_mono : forall kws s, ps_dups s <> [] -> ps_dups (fold_left ps_add kws s) <> [].
Proof.
  induction kws as [|[k v] t IH]; intros s H; cbn; auto.
  apply IH. unfold ps_add; cbn. destruct (pm_mem k (ps_map s)); auto.
  destruct (ps_dups s); cbn; congruence.
Qed.

Lemma fold_add_keeps_keys : forall kws s k,
  pm_lookup k (ps_map s) <> None -> pm_lookup k (ps_map (fold_left ps_add kws s)) <> None.
Proof.
  induction kws as [|[k' v'] t IH]; intros s k H; cbn; auto.
  apply IH. unfold ps_add; cbn.
  destruct (Nat.eq_dec k k') as [->|N].
  - rewrite pm_lookup_set_same. discriminate.
  - now rewrite pm_lookup_set_other.
Qed.

Lemma fold_add_dup : forall kws s,
  (exists k, In k (map fst kws) /\ pm_lookup k (ps_map s) <> None) \/ ~ NoDup (map fst kws) ->
  ps_dups (fold_left ps_add kws s) <> [].
Proof.
  induction kws as [|[k v] t IH]; intros s H.
  - cbn in H. destruct H as [[k [[] _]]|H]. exfalso. apply H. constructor.
  - cbn [fold_left]. destruct (pm_lookup k (ps_map s)) eqn:L.
    + apply fold_add_dups_mono. unfold ps_add; cbn. unfold pm_mem. rewrite L.
      destruct (ps_dups s); cbn; congruence.
    + apply IH. destruct H as [[k' [[E|I] P]]|H].
      * cbn in E. subst k'. congruence.
      * left. exists k'. split; auto. unfold ps_add; cbn.
        destruct (Nat.eq_dec k' k) as [->|N].
        -- rewrite pm_lookup_set_same. discriminate.
        -- now rewrite pm_lookup_set_other.
      * cbn in H. destruct (in_dec Nat.eq_dec k (map fst t)) as [I|NI].
        -- left. exists k. split; auto. unfold ps_add; cbn. rewrite pm_lookup_set_same. discriminate.
        -- right. intros ND. apply H. constructor; auto.
Qed.

Lemma build_dup : forall kws, nodupb (map fst kws) = false -> ps_dups (ps_build kws) <> [].
Proof.
  intros kws H. unfold ps_build. apply fold_add_dup. right.
  intros ND. apply nodupb_NoDup in ND. congruence.
Qed.
