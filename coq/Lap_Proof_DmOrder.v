(* ====================================================================== *)
(*  Lap_Proof_DmOrder.v — the ORDER part of property C09 for Diffusion     *)
(*  Map, at the ordered field Qc                                           *)
(*                                                                         *)
(*  Section Markov (any positive row-stochastic T):                        *)
(*    markov_mv_le / markov_mv_ge   averages stay between min and max      *)
(*    markov_eig1_const    T phi = phi  ->  phi constant  (max principle)  *)
(*    markov_eig_bound     T phi = l phi, phi <> 0  ->  -1 <= l <= 1       *)
(*  dm_markov_pos          positive kernel -> T = Q^-1 P^-1 K P^-1 positive*)
(*  dm_top_is_trivial      for a positive kernel, ANY answer of the        *)
(*      self-adjoint solver for M = S^-1 K1 S^-1 that meets its contract   *)
(*      (M V = V Lambda, V^T V = I, V V^T = I) in ascending order has      *)
(*      lam_(N-1) = 1 with last column alpha * s (alpha <> 0), every other *)
(*      eigenvalue in [-1, 1) : the pair dropped by embed() is the trivial *)
(*      one and the d kept pairs are the leading non-trivial ones.         *)
(* ====================================================================== *)
Require Import Arith Lia List Bool ZArith QArith Qcanon.
From TK Require Import Mat_Sums Mat_Core Mat_Qc Lap_Model Lap_Spec Lap_Proof_Lap Lap_Proof_Embed
                       Lap_Proof_Dm Lap_Proof_Complete Lap_Proof_Order.
Import ListNotations.
Local Open Scope list_scope.
Local Open Scope nat_scope.

Add Field DmOrderQcField : Qcft.

(* ---------------- a few order facts on Qc ---------------- *)
Lemma Qc_le_sub (p q : Qc) : (p <= q)%Qc <-> (0 <= q - p)%Qc.
Proof.
  rewrite Qcle_minus_iff. assert (E : (q - p = q + - p)%Qc) by ring. rewrite E. tauto.
Qed.

Lemma Qc_sub_nonneg (p q : Qc) : (p <= q)%Qc -> (0 <= q - p)%Qc.
Proof. apply (proj1 (Qc_le_sub p q)). Qed.
Lemma Qc_le_of_sub (p q : Qc) : (0 <= q - p)%Qc -> (p <= q)%Qc.
Proof. apply (proj2 (Qc_le_sub p q)). Qed.

Lemma Qc_mul_pos (x y : Qc) : (0 < x)%Qc -> (0 < y)%Qc -> (0 < x * y)%Qc.
Proof.
  intros Hx Hy. pose proof (Qcmult_lt_compat_r 0 x y Hy Hx) as H.
  rewrite Qcmult_0_l in H. exact H.
Qed.

Lemma Qc_inv_pos (x : Qc) : (0 < x)%Qc -> (0 < / x)%Qc.
Proof.
  intros Hx. destruct (Qclt_le_dec 0 (/ x)) as [H|H]; [exact H|exfalso].
  assert (Hx0 : x <> 0%Qc) by (intros E; rewrite E in Hx; exact (Qclt_not_eq _ _ Hx eq_refl)).
  pose proof (Qcmult_le_compat_r (/ x) 0 x H (Qclt_le_weak _ _ Hx)) as K.
  rewrite Qcmult_0_l, Qcmult_inv_l in K by exact Hx0.
  apply (Qclt_not_le 0 1); [reflexivity|exact K].
Qed.

Lemma sumn_pos n (f : nat -> Qc) :
  0 < n -> (forall i, i < n -> (0 < f i)%Qc) -> (0 < sumn n f)%Qc.
Proof.
  intros Hn H. destruct n as [|n]; [lia|]. cbn [sumn]. rewrite Qc_fadd.
  apply Qcle_lt_trans with (sumn n f + 0)%Qc.
  - rewrite Qcplus_0_r. apply sumn_nonneg. intros i Hi. apply Qclt_le_weak. apply H. lia.
  - assert (E : forall a b c : Qc, (b < c)%Qc -> (a + b < a + c)%Qc).
    { intros a b c Hbc. apply (proj2 (Qclt_minus_iff (a + b) (a + c))).
      assert (E1 : (a + c + - (a + b) = c + - b)%Qc) by ring.
      rewrite E1. apply (proj1 (Qclt_minus_iff b c)). exact Hbc. }
    apply E. apply H. lia.
Qed.

Lemma exists_nonzero n (f : nat -> Qc) :
  sumn n (fun i => (f i * f i)%F) <> 0%Qc -> exists i, i < n /\ f i <> 0%Qc.
Proof.
  induction n as [|n IH]; intros H.
  - exfalso. apply H. reflexivity.
  - destruct (Qc_eq_dec (f n) 0) as [E|E].
    + destruct IH as [i [Hi Hf]].
      * intros Z. apply H. cbn [sumn]. rewrite Z, E. change (@fadd Qc QcOps) with Qcplus.
        change (@fmul Qc QcOps) with Qcmult. ring.
      * exists i. split; [lia|exact Hf].
    + exists n. split; [lia|exact E].
Qed.

Lemma argmax (phi : vec Qc) n :
  0 < n -> exists m, m < n /\ forall j, j < n -> (phi j <= phi m)%Qc.
Proof.
  induction n as [|n IH]; intros Hn; [lia|].
  destruct n as [|n].
  - exists 0. split; [lia|]. intros j Hj. assert (j = 0) by lia. subst. apply Qcle_refl.
  - destruct IH as [m [Hm Hmax]]; [lia|].
    destruct (Qclt_le_dec (phi m) (phi (S n))) as [H|H].
    + exists (S n). split; [lia|]. intros j Hj.
      destruct (Nat.eq_dec j (S n)) as [->|Hne]; [apply Qcle_refl|].
      apply Qcle_trans with (phi m); [apply Hmax; lia|apply Qclt_le_weak; exact H].
    + exists m. split; [lia|]. intros j Hj.
      destruct (Nat.eq_dec j (S n)) as [->|Hne]; [exact H|apply Hmax; lia].
Qed.

Section Markov.
  Variable T : mat Qc.
  Variable n : nat.
  Hypothesis Tpos : forall i j, i < n -> j < n -> (0 < T i j)%Qc.
  Hypothesis Trow : forall i, i < n -> sumn n (fun j => T i j) = 1%Qc.

  Lemma markov_gap (phi : vec Qc) (a : Qc) i :
    i < n -> (a - mv n T phi i)%Qc = sumn n (fun j => (T i j * (a - phi j))%Qc).
  Proof.
    intros Hi. unfold mv.
    rewrite (sumn_ext n (fun j => (T i j * (a - phi j))%Qc)
                        (fun j => (a * T i j - T i j * phi j)%F)).
    2:{ intros j _. change (@fsub Qc QcOps) with Qcminus. change (@fmul Qc QcOps) with Qcmult. ring. }
    rewrite sumn_sub, (sumn_mul_l n a (fun j => T i j)), (Trow i Hi).
    change (@fsub Qc QcOps) with Qcminus. change (@fmul Qc QcOps) with Qcmult. ring.
  Qed.

  Lemma markov_mv_le (phi : vec Qc) (a : Qc) i :
    i < n -> (forall j, j < n -> (phi j <= a)%Qc) -> (mv n T phi i <= a)%Qc.
  Proof.
    intros Hi H. apply Qc_le_of_sub. rewrite (markov_gap phi a i Hi).
    apply sumn_nonneg. intros j Hj. apply Qc_mul_nonneg.
    - apply Qclt_le_weak. apply Tpos; assumption.
    - apply Qc_sub_nonneg. apply H. exact Hj.
  Qed.

  Lemma markov_mv_ge (phi : vec Qc) (b : Qc) i :
    i < n -> (forall j, j < n -> (b <= phi j)%Qc) -> (b <= mv n T phi i)%Qc.
  Proof.
    intros Hi H.
    assert (E : mv n T (fun j => (- phi j)%Qc) i = (- mv n T phi i)%Qc).
    { unfold mv. rewrite (sumn_ext n _ (fun j => (- (T i j * phi j))%F)).
      - rewrite sumn_opp. reflexivity.
      - intros j _. change (@fopp Qc QcOps) with Qcopp. change (@fmul Qc QcOps) with Qcmult. ring. }
    assert (K : (mv n T (fun j => (- phi j)%Qc) i <= - b)%Qc).
    { apply markov_mv_le; [exact Hi|]. intros j Hj. apply Qcopp_le_compat. apply H. exact Hj. }
    rewrite E in K. apply Qcopp_le_compat in K. rewrite !Qcopp_involutive in K. exact K.
  Qed.

  (* maximum principle *)
  Lemma markov_max_principle (phi : vec Qc) m :
    m < n -> (forall j, j < n -> (phi j <= phi m)%Qc) -> mv n T phi m = phi m ->
    forall j, j < n -> phi j = phi m.
  Proof.
    intros Hm Hmax Hfix j Hj.
    pose proof (markov_gap phi (phi m) m Hm) as G. rewrite Hfix in G.
    assert (Z : sumn n (fun j0 => (T m j0 * (phi m - phi j0))%Qc) = 0%Qc) by (rewrite <- G; ring).
    assert (Hnn : forall j0, j0 < n -> (0 <= T m j0 * (phi m - phi j0))%Qc).
    { intros j0 Hj0. apply Qc_mul_nonneg.
      - apply Qclt_le_weak. apply Tpos; assumption.
      - apply Qc_sub_nonneg. apply Hmax. exact Hj0. }
    pose proof (sumn_nonneg_zero n _ Hnn Z j Hj) as E. cbv beta in E.
    apply Qcmult_integral in E. destruct E as [E|E].
    - exfalso. pose proof (Tpos m j Hm Hj) as P. rewrite E in P. exact (Qclt_not_eq _ _ P eq_refl).
    - assert (E2 : (phi j = phi m - (phi m - phi j))%Qc) by ring. rewrite E2, E. ring.
  Qed.

  Theorem markov_eig1_const (phi : vec Qc) :
    0 < n -> eigvec n T 1%Qc phi -> forall i, i < n -> phi i = phi 0.
  Proof.
    intros Hn He i Hi. destruct (argmax phi n Hn) as [m [Hm Hmax]].
    assert (Hfix : mv n T phi m = phi m).
    { rewrite (He m Hm). unfold vscale. change (@fmul Qc QcOps) with Qcmult. ring. }
    rewrite (markov_max_principle phi m Hm Hmax Hfix i Hi).
    symmetry. apply (markov_max_principle phi m Hm Hmax Hfix 0). lia.
  Qed.

  Theorem markov_eig_bound (l : Qc) (phi : vec Qc) :
    eigvec n T l phi -> (exists i, i < n /\ phi i <> 0%Qc) -> (- (1) <= l)%Qc /\ (l <= 1)%Qc.
  Proof.
    intros He [i0 [Hi0 Hnz]].
    assert (Hn : 0 < n) by lia.
    destruct (argmax phi n Hn) as [m [Hm Hmax]].
    destruct (argmax (fun j => (- phi j)%Qc) n Hn) as [m' [Hm' Hmin']].
    assert (Hmin : forall j, j < n -> (phi m' <= phi j)%Qc).
    { intros j Hj. pose proof (Hmin' j Hj) as H. cbv beta in H.
      apply Qcopp_le_compat in H. rewrite !Qcopp_involutive in H. exact H. }
    set (a := phi m). set (b := phi m').
    assert (Eig : forall i, i < n -> mv n T phi i = (l * phi i)%Qc).
    { intros i Hi. rewrite (He i Hi). reflexivity. }
    assert (Ua : (l * a <= a)%Qc) by (unfold a; rewrite <- (Eig m Hm); apply markov_mv_le; assumption).
    assert (La : (b <= l * a)%Qc) by (unfold a; rewrite <- (Eig m Hm); apply markov_mv_ge; assumption).
    assert (Ub : (l * b <= a)%Qc) by (unfold b; rewrite <- (Eig m' Hm'); apply markov_mv_le; assumption).
    assert (Lb : (b <= l * b)%Qc) by (unfold b; rewrite <- (Eig m' Hm'); apply markov_mv_ge; assumption).
    (* case analysis: which of a, -b is the larger absolute value *)
    destruct (Qclt_le_dec 0 a) as [Pa|Na].
    - destruct (Qclt_le_dec b (- a)) as [Bl|Bg].
      + (* b < -a < 0 : use z = -b > 0 *)
        assert (Pz : (0 < - b)%Qc).
        { apply Qclt_trans with a; [exact Pa|].
          apply (proj2 (Qclt_minus_iff a (- b))). apply (proj1 (Qclt_minus_iff b (- a))) in Bl.
          assert (E : (- b + - a = - a + - b)%Qc) by ring. rewrite E. exact Bl. }
        split.
        * apply (Qcmult_lt_0_le_reg_r _ _ (- b)%Qc Pz).
          assert (E1 : (- (1) * - b = b)%Qc) by ring. assert (E2 : (l * - b = - (l * b))%Qc) by ring.
          rewrite E1, E2.
          apply Qcopp_le_compat in Ub. apply Qcle_trans with (- a)%Qc; [apply Qclt_le_weak; exact Bl|exact Ub].
        * apply (Qcmult_lt_0_le_reg_r _ _ (- b)%Qc Pz).
          assert (E1 : (1 * - b = - b)%Qc) by ring. assert (E2 : (l * - b = - (l * b))%Qc) by ring.
          rewrite E1, E2. apply Qcopp_le_compat. exact Lb.
      + (* -a <= b : use z = a > 0 *)
        split.
        * apply (Qcmult_lt_0_le_reg_r _ _ a Pa).
          assert (E1 : (- (1) * a = - a)%Qc) by ring. rewrite E1.
          apply Qcle_trans with b; assumption.
        * apply (Qcmult_lt_0_le_reg_r _ _ a Pa).
          assert (E1 : (1 * a = a)%Qc) by ring. rewrite E1. exact Ua.
    - (* a <= 0: then b < 0 and a <= -b *)
      assert (Nb : (b < 0)%Qc).
      { destruct (Qclt_le_dec b 0) as [H|H]; [exact H|exfalso].
        apply Hnz. apply Qcle_antisym.
        - apply Qcle_trans with a; [apply Hmax; exact Hi0|exact Na].
        - apply Qcle_trans with b; [exact H|apply Hmin; exact Hi0]. }
      assert (Pz : (0 < - b)%Qc).
      { apply (proj1 (Qclt_minus_iff b 0)) in Nb. assert (E : (0 + - b = - b)%Qc) by ring.
        rewrite E in Nb. exact Nb. }
      split.
      * apply (Qcmult_lt_0_le_reg_r _ _ (- b)%Qc Pz).
        assert (E1 : (- (1) * - b = b)%Qc) by ring. assert (E2 : (l * - b = - (l * b))%Qc) by ring.
        rewrite E1, E2.
        apply Qcopp_le_compat in Ub.
        apply Qcle_trans with (- a)%Qc; [|exact Ub].
        apply Qcle_trans with 0%Qc; [apply Qclt_le_weak; exact Nb|].
        apply Qcopp_le_compat in Na. assert (E0 : (- 0 = 0)%Qc) by ring. rewrite E0 in Na. exact Na.
      * apply (Qcmult_lt_0_le_reg_r _ _ (- b)%Qc Pz).
        assert (E1 : (1 * - b = - b)%Qc) by ring. assert (E2 : (l * - b = - (l * b))%Qc) by ring.
        rewrite E1, E2. apply Qcopp_le_compat. exact Lb.
  Qed.
End Markov.

(* ---------------------------------------------------------------------- *)
(*  the diffusion operator of a positive kernel is a positive Markov matrix *)
(* ---------------------------------------------------------------------- *)
Section DmOrder.
  Variable K : mat Qc.
  Variable n : nat.
  Hypothesis Hn : 0 < n.
  Hypothesis Kpos : forall i j, i < n -> j < n -> (0 < K i j)%Qc.

  Lemma dm_P_pos i : i < n -> (0 < dm_P K n i)%Qc.
  Proof. intros Hi. unfold dm_P, rowsum. apply sumn_pos; [exact Hn|]. intros j Hj. apply Kpos; assumption. Qed.

  Lemma dm_K1_pos i j : i < n -> j < n -> (0 < dm_K1 K n i j)%Qc.
  Proof.
    intros Hi Hj. rewrite (dm_K1_entry K n i j Hi Hj).
    change (@fmul Qc QcOps) with Qcmult. change (@finv Qc QcOps) with Qcinv.
    apply Qc_mul_pos; [apply Qc_inv_pos; apply dm_P_pos; exact Hi|].
    apply Qc_mul_pos; [apply Kpos; assumption|apply Qc_inv_pos; apply dm_P_pos; exact Hj].
  Qed.

  Lemma dm_Q_pos i : i < n -> (0 < dm_Q K n i)%Qc.
  Proof. intros Hi. unfold dm_Q, rowsum. apply sumn_pos; [exact Hn|]. intros j Hj. apply dm_K1_pos; assumption. Qed.

  Lemma dm_markov_entry i j : i < n -> dm_markov K n i j = (/ dm_Q K n i * dm_K1 K n i j)%Qc.
  Proof. intros Hi. unfold dm_markov. rewrite mmul_diag_l by exact Hi. reflexivity. Qed.

  Lemma dm_markov_pos i j : i < n -> j < n -> (0 < dm_markov K n i j)%Qc.
  Proof.
    intros Hi Hj. rewrite dm_markov_entry by exact Hi.
    apply Qc_mul_pos; [apply Qc_inv_pos; apply dm_Q_pos; exact Hi|apply dm_K1_pos; assumption].
  Qed.

  Lemma dm_markov_row i : i < n -> sumn n (fun j => dm_markov K n i j) = 1%Qc.
  Proof.
    intros Hi.
    rewrite (sumn_ext n _ (fun j => (/ dm_Q K n i * dm_K1 K n i j)%F)).
    2:{ intros j _. rewrite dm_markov_entry by exact Hi. reflexivity. }
    rewrite (sumn_mul_l n (/ dm_Q K n i)%Qc (fun j => dm_K1 K n i j)).
    assert (E : sumn n (fun j => dm_K1 K n i j) = dm_Q K n i) by reflexivity. rewrite E.
    change (@fmul Qc QcOps) with Qcmult.
    apply Qcmult_inv_l. intros Z. pose proof (dm_Q_pos i Hi) as P. rewrite Z in P.
    exact (Qclt_not_eq _ _ P eq_refl).
  Qed.

  (* ---------------- any contract-meeting ascending answer ---------------- *)
  Hypothesis Ksym : forall i j, i < n -> j < n -> K i j = K j i.
  Variable s : vec Qc.
  Hypothesis Hs2 : forall i, i < n -> (s i * s i)%F = dm_Q K n i.
  Hypothesis Hs0 : forall i, i < n -> s i <> 0%Qc.
  Notation M := (dm_sym K n s).
  Notation T := (dm_markov K n).
  Variable V : mat Qc.
  Variable lam : vec Qc.
  Hypothesis Hc : sym_contract n M V lam.
  Hypothesis Hcomp : meq n n (mmul n V (mtrans V)) mI.
  Hypothesis Hasc : forall a b, a <= b -> b < n -> (lam a <= lam b)%Qc.

  Lemma col_eig c : c < n -> eigvec n M (lam c) (mcol V c).
  Proof.
    intros Hc' i Hi. destruct Hc as [HMV _]. specialize (HMV i c Hi Hc').
    unfold mmul in HMV. unfold mv, vscale, mcol. etransitivity; [exact HMV|].
    pose proof (mmul_diag_r n V lam i c Hc') as E. unfold mmul in E. rewrite E.
    change (@fmul Qc QcOps) with Qcmult. ring.
  Qed.

  Lemma col_gram a b : a < n -> b < n -> sumn n (fun i => (V i a * V i b)%F) = delta a b.
  Proof. intros Ha Hb. destruct Hc as [_ HG]. exact (HG a b Ha Hb). Qed.

  Lemma col_nonzero c : c < n -> exists i, i < n /\ V i c <> 0%Qc.
  Proof.
    intros Hc'. apply (exists_nonzero n (fun i => V i c)).
    rewrite (col_gram c c Hc' Hc'), delta_eq. apply Q_apart_0_1.
  Qed.

  Definition phi (c : nat) : vec Qc := fun i => (V i c / s i)%F.

  Lemma phi_eig c : c < n -> eigvec n T (lam c) (phi c).
  Proof. intros Hc'. apply (dm_conjugate K n s Hs2 Hs0 (lam c) (mcol V c)). apply col_eig. exact Hc'. Qed.

  Lemma phi_nonzero c : c < n -> exists i, i < n /\ phi c i <> 0%Qc.
  Proof.
    intros Hc'. destruct (col_nonzero c Hc') as [i [Hi Hv]]. exists i. split; [exact Hi|].
    intros Z. apply Hv. unfold phi in Z.
    assert (E : V i c = ((V i c / s i)%F * s i)%Qc).
    { change (@fdiv Qc QcOps) with Qcdiv. field. apply Hs0. exact Hi. }
    rewrite E, Z. ring.
  Qed.

  Theorem dm_eigenvalues_bounded c : c < n -> (- (1) <= lam c)%Qc /\ (lam c <= 1)%Qc.
  Proof.
    intros Hc'. apply (markov_eig_bound T n dm_markov_pos dm_markov_row (lam c) (phi c)).
    - apply phi_eig. exact Hc'.
    - apply phi_nonzero. exact Hc'.
  Qed.

  Lemma one_is_eigenvalue : exists c, c < n /\ lam c = 1%Qc.
  Proof.
    destruct (find_lam_eq lam 1%Qc n) as [[c [Hc' E]]|H]; [exists c; split; assumption|exfalso].
    apply (Hs0 0 Hn).
    apply (@spectrum_complete Qc QcOps QcField n M mI V lam) with (mu := 1%Qc).
    - apply (dm_sym_sym K n Ksym s).
    - apply mI_sym.
    - destruct Hc as [HMV HG]. split.
      + intros i j Hi Hj. rewrite (HMV i j Hi Hj). symmetry. apply mmul_I_l. exact Hi.
      + intros i j Hi Hj. rewrite <- (HG i j Hi Hj). apply mmul_ext_r. intros t Ht. apply mmul_I_l. exact Ht.
    - intros i j Hi Hj. rewrite <- (Hcomp i j Hi Hj). apply mmul_ext_r. intros t Ht. apply mmul_I_r. exact Hj.
    - intros i Hi. rewrite (dm_top_eigvec K n s Hs2 Hs0 i Hi). unfold vscale. f_equal.
      unfold mv, mI. symmetry. apply sumn_delta_l. exact Hi.
    - exact H.
    - exact Hn.
  Qed.

  Theorem dm_top_eigenvalue_one : lam (n - 1) = 1%Qc.
  Proof.
    destruct one_is_eigenvalue as [c [Hc' E]].
    apply Qcle_antisym.
    - apply (dm_eigenvalues_bounded (n - 1)). lia.
    - rewrite <- E. apply Hasc; lia.
  Qed.

  Lemma eig1_multiple_of_s c :
    c < n -> lam c = 1%Qc -> exists al, al <> 0%Qc /\ forall i, i < n -> V i c = (al * s i)%Qc.
  Proof.
    intros Hc' E. pose proof (phi_eig c Hc') as He. rewrite E in He.
    pose proof (markov_eig1_const T n dm_markov_pos dm_markov_row (phi c) Hn He) as Hconst.
    exists (phi c 0). split.
    - intros Z. destruct (phi_nonzero c Hc') as [i [Hi Hp]]. apply Hp. rewrite (Hconst i Hi). exact Z.
    - intros i Hi. rewrite <- (Hconst i Hi). unfold phi. change (@fdiv Qc QcOps) with Qcdiv.
      field. apply Hs0. exact Hi.
  Qed.

  Theorem dm_eigenvalue_one_simple c : c < n - 1 -> (lam c < 1)%Qc.
  Proof.
    intros Hc'.
    destruct (Qcle_lt_or_eq _ _ (proj2 (dm_eigenvalues_bounded c ltac:(lia)))) as [P|E]; [exact P|exfalso].
    destruct (eig1_multiple_of_s c ltac:(lia) E) as [be [Hbe Hb]].
    destruct (eig1_multiple_of_s (n - 1) ltac:(lia) dm_top_eigenvalue_one) as [al [Hal Ha]].
    pose proof (col_gram c (n - 1) ltac:(lia) ltac:(lia)) as G.
    rewrite delta_neq in G by lia.
    rewrite (sumn_ext n _ (fun i => ((be * al) * dm_Q K n i)%F)) in G.
    2:{ intros i Hi. rewrite (Hb i Hi), (Ha i Hi), <- (Hs2 i Hi).
        change (@fmul Qc QcOps) with Qcmult. ring. }
    rewrite sumn_mul_l in G. change (@fmul Qc QcOps) with Qcmult in G.
    apply Qcmult_integral in G. destruct G as [G|G].
    - apply Qcmult_integral in G. destruct G; contradiction.
    - assert (P : (0 < sumn n (fun i => dm_Q K n i))%Qc).
      { apply sumn_pos; [exact Hn|]. intros i Hi. apply dm_Q_pos. exact Hi. }
      change (@fzero Qc QcOps) with 0%Qc in G.
      assert (E2 : sumn n (dm_Q K n) = sumn n (fun i => dm_Q K n i)) by reflexivity.
      rewrite E2 in G. rewrite G in P. exact (Qclt_not_eq _ _ P eq_refl).
  Qed.
End DmOrder.

(* the statement used by Properties_C09 *)
Theorem dm_top_is_trivial
        (K : mat Qc) (n : nat) (s : vec Qc) (V : mat Qc) (lam : vec Qc) :
  0 < n ->
  (forall i j, i < n -> j < n -> (0 < K i j)%Qc) ->
  (forall i j, i < n -> j < n -> K i j = K j i) ->
  (forall i, i < n -> (s i * s i)%F = dm_Q K n i) ->
  (forall i, i < n -> s i <> 0%Qc) ->
  sym_contract n (dm_sym K n s) V lam ->
  meq n n (mmul n V (mtrans V)) mI ->
  (forall a b, a <= b -> b < n -> (lam a <= lam b)%Qc) ->
  lam (n - 1) = 1%Qc /\
  (exists al, al <> 0%Qc /\ forall i, i < n -> V i (n - 1) = (al * s i)%Qc) /\
  (forall c, c < n - 1 -> (lam c < 1)%Qc) /\
  (forall c, c < n -> (- (1) <= lam c)%Qc).
Proof.
  intros Hn Kpos Ksym Hs2 Hs0 Hc Hcomp Hasc.
  pose proof (dm_top_eigenvalue_one K n Hn Kpos Ksym s Hs2 Hs0 V lam Hc Hcomp Hasc) as E1.
  split; [exact E1|]. split.
  - apply (eig1_multiple_of_s K n Hn Kpos s Hs2 Hs0 V lam Hc (n - 1)); [lia|exact E1].
  - split.
    + intros c Hc'. apply (dm_eigenvalue_one_simple K n Hn Kpos Ksym s Hs2 Hs0 V lam Hc Hcomp Hasc c Hc').
    + intros c Hc'. apply (dm_eigenvalues_bounded K n Hn Kpos s Hs2 Hs0 V lam Hc c Hc').
Qed.

(* everything together for Diffusion Map at Qc *)
Theorem dm_map_full
        (K : mat Qc) (n d t : nat) (s : vec Qc) (V : mat Qc) (lam : vec Qc) (powo : Qc -> nat -> Qc) :
  d + 1 <= n ->
  (forall i j, i < n -> j < n -> (0 < K i j)%Qc) ->
  (forall i j, i < n -> j < n -> K i j = K j i) ->
  (forall i, i < n -> (s i * s i)%F = dm_Q K n i) ->
  (forall i, i < n -> s i <> 0%Qc) ->
  sym_contract n (dm_sym K n s) V lam ->
  meq n n (mmul n V (mtrans V)) mI ->
  (forall a b, a <= b -> b < n -> (lam a <= lam b)%Qc) ->
  (forall x, powo x t = fpow x t) ->
  lam (n - 1) = 1%Qc /\
  (forall c, c < d -> (lam (n - (d + 1) + c)%nat < 1)%Qc) /\
  (forall c c', c < d -> c' < n - (d + 1) -> (lam c' <= lam (n - (d + 1) + c)%nat)%Qc) /\
  exists Y, dm_embedding n d t V lam powo = Some Y /\
    (forall r c, r < n -> c < d ->
       Y r c = dm_spec d t (fun x c0 => V x (n - (d + 1) + c0))
                       (fun c0 => lam (n - (d + 1) + c0))
                       (fun x => V x (n - 1)) r c) /\
    (forall c, c < d ->
       exists Y', veq n (mcol Y c) Y' /\
                  eigvec n (dm_markov K n) (lam (n - (d + 1) + c)) Y').
Proof.
  intros Hd Kpos Ksym Hs2 Hs0 Hc Hcomp Hasc Hpow.
  assert (Hn : 0 < n) by lia.
  destruct (dm_top_is_trivial K n s V lam Hn Kpos Ksym Hs2 Hs0 Hc Hcomp Hasc)
    as [E1 [[al [Hal Htop]] [Hlt _]]].
  split; [exact E1|]. split; [intros c Hc'; apply Hlt; lia|].
  split; [intros c c' Hc1 Hc2; apply Hasc; lia|].
  apply (@dm_columns Qc QcOps QcField n d t K s V lam powo al Hd Hs2 Hs0).
  - intros c Hc'. apply (col_eig K n s V lam Hc). lia.
  - exact Hpow.
  - exact Hal.
  - intros i Hi. rewrite (Htop i Hi). reflexivity.
Qed.

Lemma markov_spectrum :
  forall (T : mat Qc) (n : nat),
    (forall i j, i < n -> j < n -> (0 < T i j)%Qc) ->
    (forall i, i < n -> sumn n (fun j => T i j) = 1%Qc) ->
    (forall phi : vec Qc, 0 < n -> eigvec n T 1%Qc phi -> forall i, i < n -> phi i = phi 0) /\
    (forall (l : Qc) (phi : vec Qc), eigvec n T l phi -> (exists i, i < n /\ phi i <> 0%Qc) ->
       (- (1) <= l)%Qc /\ (l <= 1)%Qc).
Proof.
  intros T n Tpos Trow. split.
  - intros phi. apply markov_eig1_const; assumption.
  - intros l phi. apply markov_eig_bound; assumption.
Qed.

