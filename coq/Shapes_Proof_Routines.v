(* Shapes_Proof_Routines.v — C01 strand 2: per routine, "sizes in their validated range ->
   every access of the routine is in range", for ALL sizes; and the refutations (with witnesses)
   for the variants of the code that lack a repair. *)
From Coq Require Import ZArith List Bool Lia.
From TK Require Import Shapes_Model Shapes_Spec Shapes_Proof_Base.
Import ListNotations.
Open Scope Z_scope.

(* closed well-formedness goals of the witnesses *)
Ltac wf_tac := repeat first [reflexivity | lia | constructor].
Ltac witness_tac := repeat (split; [solve [wf_tac]|]); vm_compute; reflexivity.

(* ---------------------------------------------------------------- eigensolver front-ends *)
Lemma eig_dense_largest_iff f7 n d skip :
  eig_dense f7 true n d skip = Ok <-> 0 <= d <= n.
Proof. unfold eig_dense. rewrite seq_ok, !blk_ok. lia. Qed.

(* exact characterisation of the smallest-eigenvalue branch, both variants of the segment *)
Lemma eig_dense_smallest_iff f7 n d skip :
  eig_dense f7 false n d skip = Ok <->
  0 <= d /\ 0 <= skip /\ d + skip <= n /\ (f7 = false -> skip + skip + d <= n).
Proof.
  unfold eig_dense. rewrite !seq_ok, !blk_ok. destruct f7; split; intros H.
  - repeat split; try lia; intros; try discriminate.
  - lia.
  - repeat split; try lia.
  - destruct H as (? & ? & ? & H). specialize (H eq_refl). lia.
Qed.

(* F7: the slice segment(skip, skip + d) of HEAD leaves the eigenvalue vector exactly when
   N < d + 2*skip although leftCols/rightCols are fine (d + skip <= N) *)
Lemma eig_segment_head_oob n d skip :
  0 <= d -> 0 < skip -> d + skip <= n -> n < d + skip + skip ->
  eig_dense false false n d skip = OOB 105 (skip + (skip + d)) n.
Proof.
  intros. unfold eig_dense.
  assert (A : blk 103 0 (d + skip) n = Ok) by (apply blk_ok; lia).
  assert (B : blk 104 (d + skip - d) d (d + skip) = Ok) by (apply blk_ok; lia).
  rewrite A, B. cbn [seq]. unfold blk.
  destruct (0 <=? skip) eqn:E1; [|lia]. destruct (0 <=? skip + d) eqn:E2; [|lia].
  destruct (skip + (skip + d) <=? n) eqn:E3; [lia|]. reflexivity.
Qed.

Lemma eig_randomized_ok largest rows d skip :
  0 <= d -> 0 <= skip -> eig_randomized largest rows d skip = Ok.
Proof.
  intros. unfold eig_randomized. destruct largest; repeat ok_step; lia.
Qed.

Lemma scale_cols_ok cols nvals d : d <= cols -> d <= nvals -> scale_cols cols nvals d = Ok.
Proof. intros. unfold scale_cols. repeat ok_step; lia. Qed.

(* ---------------------------------------------------------------- locally_linear.hpp *)
Lemma local_gram_ok N k nb idx : nb_wf N k nb -> 0 <= idx < N -> local_gram nb N idx k = Ok.
Proof.
  intros W Hi. unfold local_gram. repeat ok_step;
    try (eapply nb_get_ok; eauto; try lia; intros; apply chk_ok; lia); lia.
Qed.

Lemma local_triplets_ok N k nb idx : nb_wf N k nb -> 0 <= idx < N -> local_triplets nb N idx k = Ok.
Proof.
  intros W Hi. unfold local_triplets. repeat ok_step;
    try (eapply nb_get_ok; eauto; try lia; intros; apply chk_ok; lia); lia.
Qed.

Theorem linear_weight_matrix_ok N k nb :
  0 < N -> nb_wf N k nb -> linear_weight_matrix nb N = Ok.
Proof.
  intros HN W. unfold linear_weight_matrix. rewrite (nb_wf_k0 N k nb HN W).
  apply seq_ok. split; [eapply nb_wf_front; eauto|].
  apply forZ_ok. intros idx Hi. repeat ok_step; try lia.
  - eapply nb_row_ok; eauto. intros. apply chk_ok. lia.
  - eapply local_gram_ok; eauto.
  - eapply local_triplets_ok; eauto.
Qed.

Theorem tangent_weight_matrix_ok N k d nb :
  0 < N -> nb_wf N k nb -> 0 <= d <= k -> tangent_weight_matrix nb N d = Ok.
Proof.
  intros HN W Hd. unfold tangent_weight_matrix. rewrite (nb_wf_k0 N k nb HN W).
  apply seq_ok. split; [eapply nb_wf_front; eauto|].
  apply seq_ok. split; [apply chk_ok; lia|].
  apply forZ_ok. intros idx Hi. repeat ok_step; try lia.
  - eapply local_gram_ok; eauto.
  - eapply local_triplets_ok; eauto.
Qed.

(* F21 (tangent methods): with d > k the k x k eigenvector matrix is sliced out of range *)
Theorem tangent_weight_matrix_refuted :
  exists N k d nb, 0 < N /\ nb_wf N k nb /\ 1 <= d < N /\ 3 <= k < N /\
                   tangent_weight_matrix nb N d = OOB 223 k k.
Proof.
  exists 6, 3, 4, (repeat [0; 1; 2] 6). witness_tac.
Qed.

(* HLLE column arithmetic *)
Lemma tri_even d : 2 * (d * (d + 1) / 2) = d * (d + 1).
Proof.
  destruct (Z.Even_or_Odd d) as [[m ->]|[m ->]].
  - replace (2 * m * (2 * m + 1)) with (m * (2 * m + 1) * 2) by ring.
    rewrite Z.div_mul by lia. ring.
  - replace ((2 * m + 1) * (2 * m + 1 + 1)) with ((2 * m + 1) * (m + 1) * 2) by ring.
    rewrite Z.div_mul by lia. ring.
Qed.

(* ct_j = j*d - j(j-1)/2, stated without division *)
Lemma hlle_cols_ok d dp : 0 <= d -> 2 * dp = d * (d + 1) ->
  forall n ct j, 0 <= j -> Z.of_nat n = d - j -> 2 * ct = 2 * j * d - j * (j - 1) ->
  hlle_cols true d dp ct j n = Ok.
Proof.
  intros Hd Hdp. induction n as [|n IH]; intros ct j Hj Hn Hct; cbn [hlle_cols]; [reflexivity|].
  apply seq_ok. split.
  - apply forZ_ok. intros p Hp.
    assert (Hq : 0 <= (d - j) * (d - j - 1)) by nia.
    repeat ok_step; nia.
  - apply IH; try lia.
Qed.

Theorem hessian_weight_matrix_ok N k d nb :
  0 < N -> nb_wf N k nb -> 0 <= d <= k -> hessian_weight_matrix true nb N d = Ok.
Proof.
  intros HN W Hd. unfold hessian_weight_matrix. rewrite (nb_wf_k0 N k nb HN W).
  pose proof (tri_even d) as Hdp.
  assert (Hdp0 : 0 <= d * (d + 1) / 2) by (apply Z.div_pos; nia).
  set (dp := d * (d + 1) / 2) in *.
  apply seq_ok. split; [eapply nb_wf_front; eauto|].
  apply forZ_ok. intros idx Hi. repeat ok_step; try lia.
  - eapply local_gram_ok; eauto.
  - apply hlle_cols_ok with (d := d) (dp := dp); try lia.
  - eapply local_triplets_ok; eauto.
Qed.

(* F6 (regression theorem about the old counter `ct += ct + d - j`): column 12 of 10 at d = 3 *)
Theorem hlle_columns_refuted :
  hlle_cols false 3 (3 * (3 + 1) / 2) 0 0 (Z.to_nat 3) = OOB 231 12 10.
Proof. vm_compute. reflexivity. Qed.

Theorem hessian_weight_matrix_f6_refuted :
  exists N k d nb, 0 < N /\ nb_wf N k nb /\ 1 <= d <= k /\
                   hessian_weight_matrix false nb N d = OOB 231 12 10.
Proof.
  exists 5, 4, 3, (repeat [0; 1; 2; 3] 5). witness_tac.
Qed.

(* F21 (HLLE, d > k) *)
Theorem hessian_weight_matrix_refuted :
  exists N k d nb, 0 < N /\ nb_wf N k nb /\ 1 <= d < N /\ 3 <= k < N /\
                   hessian_weight_matrix true nb N d = OOB 236 k k.
Proof.
  exists 6, 3, 4, (repeat [0; 1; 2] 6). witness_tac.
Qed.

(* ---------------------------------------------------------------- Laplacian, geodesics *)
Theorem compute_laplacian_ok N k nb : 0 < N -> nb_wf N k nb -> compute_laplacian nb N = Ok.
Proof.
  intros HN W. unfold compute_laplacian. rewrite (nb_wf_k0 N k nb HN W).
  apply seq_ok. split; [eapply nb_wf_front; eauto|].
  repeat ok_step; try lia.
  eapply nb_row_ok; eauto. intros. apply chk_ok. lia.
Qed.

Lemma dijkstra_rows_ok N k nb : 0 < N -> nb_wf N k nb -> dijkstra_rows nb N = Ok.
Proof.
  intros HN W. unfold dijkstra_rows. rewrite (nb_wf_k0 N k nb HN W).
  apply forZ_ok. intros v Hv. eapply nb_row_ok; eauto. intros. apply chk_ok. lia.
Qed.

Theorem shortest_distances_ok N k nb : 0 < N -> nb_wf N k nb -> shortest_distances nb N = Ok.
Proof.
  intros HN W. unfold shortest_distances.
  apply seq_ok. split; [eapply nb_wf_front; eauto | eapply dijkstra_rows_ok; eauto].
Qed.

Theorem landmark_shortest_distances_ok N k nb lm :
  0 < N -> nb_wf N k nb -> idx_wf N lm -> landmark_shortest_distances nb lm N = Ok.
Proof.
  intros HN W L. unfold landmark_shortest_distances.
  apply seq_ok. split; [eapply nb_wf_front; eauto|].
  apply seq_ok. split; [|eapply dijkstra_rows_ok; eauto].
  apply forZ_ok. intros r Hr.
  destruct (nth_error lm (Z.to_nat r)) as [l|] eqn:E.
  - apply chk_ok. unfold idx_wf in L. rewrite Forall_forall in L. apply L. eapply nth_error_In; eauto.
  - apply nth_error_None in E. lia.
Qed.

(* neighbour lists of UNEQUAL length (what F1 produced: k+1 entries for a query with >= k+1
   coincident samples) break every consumer that indexes each list with neighbors[0].size() *)
Theorem unequal_lists_refuted :
  exists N nb, 0 < N /\ Z.of_nat (length nb) = N /\
               Forall (fun l => Forall (fun w => 0 <= w < N) l) nb /\
               shortest_distances nb N = OOB 251 3 3.
Proof.
  exists 5, [[1; 2; 3; 4]; [0; 2; 3]; [0; 1; 3]; [0; 1; 2]; [0; 1; 2]]. witness_tac.
Qed.

(* ---------------------------------------------------------------- landmarks *)
Theorem select_landmarks_ok N L : 0 <= L <= N -> select_landmarks N L = Ok.
Proof. intros. unfold select_landmarks. apply blk_ok. lia. Qed.

Theorem triangulate_ok N d cols nvals lm :
  idx_wf N lm -> d <= cols -> d <= nvals -> triangulate lm N d cols nvals = Ok.
Proof.
  intros L Hc Hv. unfold triangulate. repeat ok_step; try lia;
    try (eapply lm_get_ok; eauto; try lia; intros; apply chk_ok; lia).
Qed.

Theorem project_ok N D : project N D = Ok.
Proof. unfold project. repeat ok_step. lia. Qed.

(* ---------------------------------------------------------------- SPE *)
Lemma spe_clamp_2 N nupd :
  spe_clamp 2 N nupd = Some (spe_clamp_step N nupd).
Proof.
  cbn [spe_clamp]. unfold spe_clamp_step. destruct (N / 2 <? nupd) eqn:E; [|reflexivity].
  rewrite Z.ltb_irrefl. reflexivity.
Qed.

Theorem spe_iteration_ok global N k nu nb perm rs :
  0 < N -> 0 <= nu -> 2 * nu <= N ->
  (global = false -> nb_wf N k nb /\ idx_wf k rs /\ nu <= Z.of_nat (length rs)) ->
  Z.of_nat (length perm) = N -> idx_wf N perm ->
  spe_iteration global nb perm rs N nu = Ok.
Proof.
  intros HN Hnu H2 Hloc Hlen Hperm. unfold spe_iteration. rewrite Hlen.
  apply seq_ok. split.
  - destruct global; [reflexivity|]. destruct (Hloc eq_refl) as (W & Hrs & Hrl).
    rewrite (nb_wf_k0 N k nb HN W).
    assert (Hk : 0 <= k).
    { destruct W as [Hl W']. destruct nb as [|l nb']; [cbn in Hl; lia|].
      inversion W' as [|? ? [Hk _] _]; subst; lia. }
    repeat ok_step; try lia.
    + eapply lm_get_ok; eauto; try lia. intros a Ha. apply forZ_ok. intros kk Hkk.
      eapply nb_get_ok; eauto. intros. apply chk_ok. nia.
    + eapply lm_get_ok; eauto; try lia. intros r Hr. apply chk_ok. nia.
  - repeat ok_step; try lia.
    eapply lm_get_ok; eauto; try lia. intros. apply chk_ok. lia.
Qed.

(* ---------------------------------------------------------------- t-SNE *)
Theorem tsne_map_ok exact N d :
  0 <= N -> 1 <= d -> (exact = false -> d = 2) -> tsne_map true exact N d = Ok.
Proof.
  intros HN Hd H2. unfold tsne_map. destruct exact.
  - repeat ok_step. nia.
  - rewrite (H2 eq_refl). repeat ok_step; lia.
Qed.

(* F12: before the repair the map (N x 1) is read as N x 2 in both modes *)
Theorem tsne_map_refuted :
  (exists N d, 1 <= d < N /\ tsne_map false true N d = OOB 321 N N) /\
  (exists N d, 1 <= d < N /\ tsne_map false false N d = OOB 322 N N).
Proof.
  split; exists 4, 1; (split; [lia|]); vm_compute; reflexivity.
Qed.

(* ... and d >= 2 is in range (d = 3 with Barnes-Hut silently uses two of the three coordinates) *)
Theorem tsne_map_old_ok exact N d :
  0 <= N -> 2 <= d -> tsne_map false exact N d = Ok.
Proof.
  intros HN Hd. unfold tsne_map. destruct exact; repeat ok_step; nia.
Qed.

Theorem tsne_bh_rows_ok N K : 0 <= K < N -> tsne_bh_rows N K = Ok.
Proof. intros. unfold tsne_bh_rows. repeat ok_step; try lia. nia. Qed.

(* ---------------------------------------------------------------- ManifoldSculpting *)
Theorem manifold_sculpting_ok N k D d nb :
  0 < N -> nb_wf N k nb -> 0 <= d <= D -> manifold_sculpting nb N D d = Ok.
Proof.
  intros HN W Hd. unfold manifold_sculpting. rewrite (nb_wf_k0 N k nb HN W).
  apply seq_ok. split; [eapply nb_wf_front; eauto|].
  repeat ok_step; try lia.
  eapply nb_row_ok; eauto. intros ? w ? Hw. apply forZ_ok. intros l Hl.
  eapply nb_get_ok; eauto. intros. apply chk_ok. lia.
Qed.

(* F21 (ManifoldSculpting, d > D): bottomRows(D - d) with a negative count *)
Theorem manifold_sculpting_refuted :
  exists N k D d nb, 0 < N /\ nb_wf N k nb /\ 1 <= d < N /\
                     manifold_sculpting nb N D d = OOB 345 2 2.
Proof.
  exists 5, 3, 2, 3, (repeat [0; 1; 2] 5). witness_tac.
Qed.

(* ---------------------------------------------------------------- find_neighbors *)
Theorem find_neighbors_model_ok brute N k : 0 <= k -> find_neighbors_model brute N k = Ok.
Proof.
  intros Hk. unfold find_neighbors_model, brute_force_query, tree_query.
  apply forZ_ok. intros i Hi.
  destruct (N - 1 <? k) eqn:E; [apply Z.ltb_lt in E|apply Z.ltb_ge in E];
    destruct brute; repeat ok_step; lia.
Qed.

(* ================================================================ wave 2: the remaining routines *)
Lemma eqchk_ok s a : eqchk s a a = Ok.
Proof. unfold eqchk. rewrite Z.eqb_refl. reflexivity. Qed.

Lemma eqchk_iff s a b : eqchk s a b = Ok <-> a = b.
Proof. unfold eqchk. destruct (Z.eqb_spec a b); split; intros; congruence. Qed.

Lemma sym_fill_ok s n : sym_fill s n = Ok.
Proof. unfold sym_fill. repeat ok_step; lia. Qed.

Lemma full_fill_ok s r c : full_fill s r c = Ok.
Proof. unfold full_fill. repeat ok_step; lia. Qed.

(* centerMatrix is only ever applied to square matrices; on an r x c one with r <> c it is refuted *)
Theorem center_matrix_iff r c : center_matrix r c = Ok <-> r = c.
Proof. unfold center_matrix. rewrite eqchk_iff. lia. Qed.

Theorem diffusion_matrix_ok N : diffusion_matrix N = Ok.
Proof. unfold diffusion_matrix. rewrite sym_fill_ok, !full_fill_ok. reflexivity. Qed.

Theorem distance_matrix_ok N : distance_matrix N = Ok.
Proof. unfold distance_matrix, center_matrix. rewrite sym_fill_ok, eqchk_ok. reflexivity. Qed.

Theorem centered_kernel_matrix_ok N : centered_kernel_matrix N = Ok.
Proof. unfold centered_kernel_matrix, center_matrix. rewrite sym_fill_ok, eqchk_ok. reflexivity. Qed.

Theorem landmark_distance_matrix_ok N lm : idx_wf N lm -> landmark_distance_matrix lm N = Ok.
Proof.
  intros W. unfold landmark_distance_matrix, center_matrix. rewrite eqchk_ok.
  apply seq_ok. split; [|reflexivity].
  repeat ok_step; try lia;
    try (eapply lm_get_ok; eauto; try lia; intros; apply chk_ok; lia).
Qed.

(* a landmark that is not a sample index is refuted (what F4-style edits of the selection would do) *)
Theorem landmark_distance_matrix_refuted :
  landmark_distance_matrix [0; 5] 5 = OOB 615 5 5.
Proof. vm_compute. reflexivity. Qed.

Theorem project_full_iff N D prow mlen :
  project_full N D prow mlen = Ok <-> mlen = D /\ prow = D.
Proof.
  unfold project_full. rewrite !seq_ok, !eqchk_iff. split.
  - intros (A & B & _). auto.
  - intros (A & B). repeat split; auto. repeat ok_step. lia.
Qed.

Theorem project_full_ok N D : project_full N D D D = Ok.
Proof. apply project_full_iff. auto. Qed.

Theorem gaussian_projection_matrix_ok a b : gaussian_projection_matrix a b = Ok.
Proof. apply full_fill_ok. Qed.

(* RandomProjection with the arguments of gaussian_projection_matrix in the order of their NAMES
   (target_dimension, current_dimension) would hand a d x D matrix to project: refuted unless d = D *)
Theorem random_projection_unswapped_refuted N D d :
  d <> D -> gaussian_projection_matrix d D ;; project_full N D d D <> Ok.
Proof.
  intros H E. apply seq_ok in E. destruct E as [_ E]. apply project_full_iff in E. lia.
Qed.

Theorem factor_analysis_ok N D d : factor_analysis N D d D = Ok.
Proof. unfold factor_analysis. rewrite !eqchk_ok. repeat ok_step; try lia. Qed.

(* ---------------------------------------------------------------- t-SNE buffers, quadtree nodes *)
Theorem tsne_buffers_ok exact N D nd K :
  0 <= N -> 0 <= D -> 0 <= nd -> (exact = false -> 0 <= K < N) -> tsne_buffers exact N D nd K = Ok.
Proof.
  intros HN HD Hnd HK. unfold tsne_buffers. destruct exact.
  - repeat ok_step; nia.
  - specialize (HK eq_refl). repeat ok_step; nia.
Qed.

(* with K = N (perplexity bound relaxed, or the factor 3 of K = (int)(3 * perplexity) raised) cur_P is
   one entry short *)
Theorem tsne_buffers_refuted : tsne_buffers false 4 2 2 4 = OOB 655 3 3.
Proof. vm_compute. reflexivity. Qed.

Theorem quadtree_node_insert_ok size : 0 <= size <= qt_capacity -> quadtree_node_insert size = Ok.
Proof.
  unfold qt_capacity. intros H. unfold quadtree_node_insert, qt_capacity, qt_dims.
  apply seq_ok. split; [repeat ok_step; lia|].
  apply seq_ok. split.
  - destruct (size <? 1) eqn:E; [apply Z.ltb_lt in E; apply chk_ok; lia|reflexivity].
  - repeat ok_step. lia.
Qed.

(* the invariant size <= QT_NODE_CAPACITY is kept: an entry is stored only while size < capacity *)
Theorem quadtree_size_invariant size :
  0 <= size <= qt_capacity -> 0 <= (if size <? qt_capacity then size + 1 else size) <= qt_capacity.
Proof. unfold qt_capacity. intros H. destruct (size <? 1) eqn:E; [apply Z.ltb_lt in E|]; lia. Qed.

(* ---------------------------------------------------------------- VP-tree construction *)
(* draw returns (int)(u * (upper - lower - 1)) with u in [0, 1) *)
Definition draw_wf (draw : Z -> Z -> Z) : Prop :=
  forall lower upper, 1 < upper - lower -> 0 <= draw lower upper < upper - lower - 1.

Theorem vp_build_ok n draw : draw_wf draw ->
  forall fuel lower upper, 0 <= lower <= upper -> upper <= n -> (Z.to_nat (upper - lower) < fuel)%nat ->
  vp_build fuel n lower upper draw = Ok.
Proof.
  intros Hd. induction fuel as [|fuel IH]; intros lower upper Hl Hu Hf; [lia|].
  cbn [vp_build]. destruct (Z.eqb_spec upper lower) as [E|E]; [reflexivity|].
  apply seq_ok. split; [apply chk_ok; lia|].
  destruct (1 <? upper - lower) eqn:E1; [apply Z.ltb_lt in E1|reflexivity].
  specialize (Hd lower upper E1).
  assert (Hm : lower + 1 <= (upper + lower) / 2 < upper).
  { split; [apply Z.div_le_lower_bound; lia | apply Z.div_lt_upper_bound; lia]. }
  repeat ok_step; try lia.
  - apply IH; lia.
  - apply IH; lia.
Qed.

(* without the `upper - lower > 1` test (or with a draw outside its range) the swap leaves the array *)
Theorem vp_build_refuted :
  vp_build 3 2 0 2 (fun _ _ => 2) = OOB 722 2 2.
Proof. vm_compute. reflexivity. Qed.

(* ---------------------------------------------------------------- cover tree *)
Lemma fold_max_ge l : forall s, In s l -> s <= fold_right Z.max 0 l.
Proof. induction l as [|a l IH]; intros s H; cbn in *; [contradiction|]. destruct H as [->|H]; [lia|specialize (IH s H); lia]. Qed.

Lemma fold_chk_ok site ncs l : (forall s, In s l -> 0 <= s < ncs) ->
  fold_right (fun s r => chk site s ncs ;; r) Ok l = Ok.
Proof.
  induction l as [|a l IH]; intros H; cbn [fold_right]; [reflexivity|].
  apply seq_ok. split; [apply chk_ok; apply H; left; reflexivity|apply IH; intros; apply H; right; assumption].
Qed.

(* after F28: every scale of the tree indexes inside cover_sets, however deep the tree *)
Theorem cover_sets_access_ok scales :
  Forall (fun s => 0 <= s) scales -> cover_sets_access true scales = Ok.
Proof.
  intros H. unfold cover_sets_access. rewrite Forall_forall in H.
  apply seq_ok. split; [apply chk_ok; lia|].
  apply fold_chk_ok. intros s Hs. pose proof (fold_max_ge scales s Hs). specialize (H s Hs). lia.
Qed.

(* before F28 (regression): a node at scale 120 of a tree with a wide distance range *)
Theorem cover_sets_access_refuted : cover_sets_access false [3; 120] = OOB 702 120 101.
Proof. vm_compute. reflexivity. Qed.

(* the scales batch_insert assigns along a chain of self-children are non-negative (top_scale -
   max_scale with max_scale <= top_scale decreasing), so they are valid cover-set indices *)
Theorem bi_chain_scales_nonneg g : forall fuel top max l,
  max <= top -> bi_chain fuel top max g = Some l -> Forall (fun s => 0 <= s) l.
Proof.
  induction fuel as [|fuel IH]; intros top max l Hm E; cbn [bi_chain] in E; [discriminate|].
  destruct (g max) as [s|].
  - destruct (bi_chain fuel top (Z.min (max - 1) s) g) as [l'|] eqn:E'; [|discriminate].
    inversion E; subst. constructor; [lia|]. eapply IH; [|exact E']. lia.
  - inversion E; subst. constructor; [lia|constructor].
Qed.
