(* ====================================================================== *)
(*  Mds_Exec_Wave2.v — more closed (Qc) instances that are EXTRACTED and   *)
(*  run by checks/c05.py (wave 2).  Definitions only.                      *)
(*   c05_factor_w : factor specification with a tolerance per entry        *)
(*   c05_rgs      : the randomized front-end's basis, step by step: the    *)
(*                  test matrix applied through the upper triangle, then   *)
(*                  the Gram-Schmidt loop WITH its threshold branch        *)
(*                  (c06's gram_schmidt_thr), norms = oracle answers       *)
(*   c05_rsmall   : Y^T (A Y), the small matrix of the randomized solver   *)
(* ====================================================================== *)
Require Import Arith List Bool ZArith QArith Qcanon.
From TK Require Import Mat_Sums Mat_Core Mat_Qc Mds_Model Mds_Spec Mds_Spec_Wtol Spectral_Randomized
                       Mds_Model_Randomized.
Import ListNotations.

Definition c05_factor_w (n d : nat) (T1 : list (list Qc)) (T2 : list Qc)
           (B Y : list (list Qc)) (lam : list Qc) : option bool :=
  factor_spec_wtol_b n d T1 T2 B Y lam.

(* `norm < thr` *)
Definition qltb (x y : Qc) : bool := negb (qleb y x).

Definition c05_rgs (n k : nat) (thr : Qc) (A O : list (list Qc)) (s : list Qc) : list (list Qc) :=
  mtab n k (rand_basis (fun x => qltb x thr) n k (mof A) (mof O) (vof s)).

Definition c05_rsmall (n k : nat) (A Y : list (list Qc)) : list (list Qc) :=
  mtab k k (mmul n (mtrans (mof Y)) (mof (mtab n k (rand_B1 n (mof A) (mof Y))))).
