(* ====================================================================== *)
(*  Spe_Des_Model.v — C19 models as functions of the RANGE handed to       *)
(*  tapkee::embed (definitions only, NO proofs).                            *)
(*                                                                          *)
(*  tapkee's methods never see "sample i": they see a random-access range   *)
(*  [begin, end) of sample ids and three callbacks indexed by sample id.    *)
(*  Position i of the range designates sample  begin[i] = at_pos range i.   *)
(*  The models below mirror the loops of                                    *)
(*    routines/pca.hpp   compute_mean  (mean += vector( *iter ); /= n)       *)
(*                       project       (row(iter-begin) = P^T (vector( *iter ) - mean)) *)
(*    routines/fa.hpp    project       (X.col(iter-begin) = vector( *iter ) - mean)     *)
(*    routines/spe.hpp   callback.distance( *(begin + *ind1), *(begin + *ind2) ) and    *)
(*                       the max-distance double loop over ( *i_iter, *j_iter )         *)
(*  with the feature callback `feat : id -> vec F` and the distance callback *)
(*  `dist : id -> id -> F` as FUNCTIONS OF THE SAMPLE ID; `range` is an      *)
(*  arbitrary list of ids (sub-range of the data, permuted, offset / sparse  *)
(*  ids, repeated ids).  Spe_Proof_Des.v proves that they are the models of  *)
(*  Spe_Model.v applied to the designated sample list.                       *)
(*                                                                          *)
(*  Also here: the variant of project() that fetches vector(i) for the LOOP  *)
(*  COUNTER i instead of vector(begin[i]) (regression model, refuted), the   *)
(*  EM loop of fa.hpp split into rounds (so that the convergence test can be *)
(*  factored out as an oracle on the never-stopping trajectory), and the     *)
(*  shipped polar method of defines/random.hpp gaussian_random().            *)
(* ====================================================================== *)
Require Import List Arith Bool ZArith QArith.
From TK Require Import Mat_Sums Mat_Core Spe_Model Spe_Spec Spe_Run_Model.
Import ListNotations.
Local Open Scope nat_scope.

(* the arguments of callback.distance in the main loop, iteration by iteration *)
Definition spe_distance_calls (range : list nat) (outs : list iter_out) : list (list (nat * nat)) :=
  map (fun o => map (des_pair range) (o_pairs o)) outs.

(* the max-distance loop:  for i_iter in range: for j_iter = i_iter + 1 ..: distance( *i_iter, *j_iter ) *)
Fixpoint max_loop_calls (range : list nat) : list (nat * nat) :=
  match range with
  | [] => []
  | a :: t => map (fun b => (a, b)) t ++ max_loop_calls t
  end.

Section FieldDes.
  Context {F : Type} {Fo : FieldOps F} {Ff : IsField F}.
  Local Open Scope F_scope.

  (* ---- routines/pca.hpp -------------------------------------------------- *)
  Definition mean_des (feat : nat -> vec F) (range : list nat) : vec F :=
    fun t => fold_left (fun acc id => acc + feat id t) range 0 / of_nat (length range).

  Definition project_des (D d : nat) (P : mat F) (m : vec F) (feat : nat -> vec F) (range : list nat)
    : list (list F) :=
    map (fun id => tab d (fun c => sumn D (fun t => P t c * (feat id t - m t)))) range.

  (* RandomProjection::embed on a range *)
  Definition rp_embed_des (s : F) (D d : nat) (g : list F) (feat : nat -> vec F) (range : list nat)
    : res (list (list F)) :=
    bind (rp_fill s D d g) (fun Pg =>
    Ok (project_des D d (mof (fst Pg)) (mean_des feat range) feat range)).

  (* REGRESSION MODEL (seeded change C19_2): project() rewritten as an index loop that asks the
     callback for vector(index) with the loop counter, while compute_mean still walks the range *)
  Definition project_pos (D d : nat) (P : mat F) (m : vec F) (feat : nat -> vec F) (n : nat)
    : list (list F) :=
    map (fun i => tab d (fun c => sumn D (fun t => P t c * (feat i t - m t)))) (seq 0 n).
  Definition rp_embed_pos (s : F) (D d : nat) (g : list F) (feat : nat -> vec F) (range : list nat)
    : res (list (list F)) :=
    bind (rp_fill s D d g) (fun Pg =>
    Ok (project_pos D d (mof (fst Pg)) (mean_des feat range) feat (length range))).

  (* ---- routines/fa.hpp on a range ---------------------------------------- *)
  (* X.col(iter - begin) = vector( *iter ) - mean_vector : row t of the D x n data matrix *)
  Definition fa_data_des (D : nat) (feat : nat -> vec F) (range : list nat) : list (list F) :=
    let m := mean_des feat range in
    tab D (fun t => map (fun id => feat id t - m t) range).

  Section FADes.
    Variable inv : nat -> mat F -> mat F.
    Variable logdet : nat -> mat F -> F.
    Variable stop : F -> F -> bool.

    Definition fa_embed_des (max_iter D d : nat) (eps : F) (A0 : mat F) (feat : nat -> vec F)
               (range : list nat) : list (list F) :=
      fa_core inv logdet stop max_iter (length range) D d eps A0 (fa_data_des D feat range).

    (* ---- one EM round, component by component (same expressions as Spe_Model.fa_em) ---- *)
    Definition fa_invC (D d : nat) (A sig : mat F) : mat F :=
      memo D D (inv D (madd (mmul d A (mtrans A)) sig)).
    Definition fa_M (n D d : nat) (X A sig : mat F) : mat F :=
      memo d n (mmul D (memo d D (mmul D (mtrans A) (fa_invC D d A sig))) X).
    Definition fa_SC (n D d : nat) (X A sig : mat F) : mat F :=
      memo d d (madd (mscale (of_nat n)
                        (msub mI (mmul D (memo d D (mmul D (mtrans A) (fa_invC D d A sig))) A)))
                     (mmul n (fa_M n D d X A sig) (mtrans (fa_M n D d X A sig)))).
    Definition fa_next_A (n D d : nat) (X A sig : mat F) : mat F :=
      memo D d (mmul d (mmul n X (mtrans (fa_M n D d X A sig))) (inv d (fa_SC n D d X A sig))).
    Definition fa_next_sig (n D d : nat) (eps : F) (X A sig : mat F) : mat F :=
      let A' := fa_next_A n D d X A sig in
      let XXt := mmul n X (mtrans X) in
      let AMXt := mmul n (mmul d A' (fa_M n D d X A sig)) (mtrans X) in
      memo D D (fun i j => (if Nat.eqb i j then (XXt i i - AMXt i i) / of_nat n else 0) + eps).
    (* (invC * X).cwiseProduct(X).sum() / n *)
    Definition fa_quad (n D d : nat) (X A sig : mat F) : F :=
      sumn D (fun t => sumn n (fun i => mmul D (fa_invC D d A sig) X t i * X t i)) / of_nat n.
    Definition fa_newll (n D d : nat) (X A sig : mat F) : F :=
      (1 / two) * (logdet D (fa_invC D d A sig) - fa_quad n D d X A sig).

    (* the trajectory of the loop when the convergence test never fires: (A_t, ll_t), t = 1 .. fuel *)
    Fixpoint fa_rounds (fuel n D d : nat) (eps : F) (X A sig : mat F) : list (mat F * F) :=
      match fuel with
      | O => []
      | S fuel' =>
        (fa_next_A n D d X A sig, fa_newll n D d X A sig)
          :: fa_rounds fuel' n D d eps X (fa_next_A n D d X A sig) (fa_next_sig n D d eps X A sig)
      end.

    (* `if ((iter > 1) && (fabs(newll - ll) < epsilon)) break; ll = newll;` read off a trajectory:
       iter = rounds completed before this list starts, ll = log-likelihood of the previous round *)
    Fixpoint stop_round (iter : nat) (ll : F) (tr : list (mat F * F)) (A : mat F) : mat F :=
      match tr with
      | [] => A
      | (A', nll) :: rest =>
        if (1 <? S iter)%nat && stop nll ll then A' else stop_round (S iter) nll rest A'
      end.

    (* what the replay observes of every round of the never-stopping trajectory:
       the embedding X^T A_t, the matrix whose log det enters ll_t, and the quadratic term of ll_t *)
    Fixpoint fa_observe (fuel n D d : nat) (eps : F) (X A sig : mat F)
      : list (list (list F) * list (list F) * F) :=
      match fuel with
      | O => []
      | S fuel' =>
        (* the same expressions as fa_invC / fa_M / fa_SC / fa_next_A / fa_next_sig / fa_quad, shared by
           `let` exactly as in Spe_Model.fa_em (the extracted code evaluates every matrix once per round) *)
        let invC := memo D D (inv D (madd (mmul d A (mtrans A)) sig)) in
        let AtinvC := memo d D (mmul D (mtrans A) invC) in
        let M := memo d n (mmul D AtinvC X) in
        let SC := memo d d (madd (mscale (of_nat n) (msub mI (mmul D AtinvC A)))
                                 (mmul n M (mtrans M))) in
        let A' := memo D d (mmul d (mmul n X (mtrans M)) (inv d SC)) in
        let XXt := mmul n X (mtrans X) in
        let AMXt := mmul n (mmul d A' M) (mtrans X) in
        let sig' := memo D D (fun i j => (if Nat.eqb i j then (XXt i i - AMXt i i) / of_nat n
                                          else 0) + eps) in
        let q := sumn D (fun t => sumn n (fun i => mmul D invC X t i * X t i)) / of_nat n in
        (mtab n d (fun i c => sumn D (fun t => X t i * A' t c)), mtab D D invC, q)
          :: fa_observe fuel' n D d eps X A' sig'
      end.
  End FADes.

  (* ---- routines/spe.hpp on a range ---------------------------------------- *)
  (* Rt[j] *= callback.distance( *(begin + *ind1++), *(begin + *ind2++) ) *)
  Definition spe_embedding_run_des (old global : bool) (nbrs : list (list nat)) (nupd : nat)
             (range : list nat) (its : list iter_in) (norms : list (list F)) (tol alpha : F)
             (dist : nat -> nat -> F) (Y0 : pts) : res pts :=
    spe_embedding_run old global nbrs nupd (length range) its norms tol alpha
                      (fun a b => dist (at_pos range a) (at_pos range b)) Y0.
End FieldDes.

(* ====================================================================== *)
(*  defines/random.hpp gaussian_random(), shipped variant (polar method):   *)
(*    do { x = 2 * (rand() / (RAND_MAX + 1.0)) - 1;  y = likewise;           *)
(*         radius = x*x + y*y; } while (radius >= 1.0 || radius == 0.0);     *)
(*    return x * sqrt(-2 * log(radius) / radius);                            *)
(*  The std::rand answers are the oracle stream (integers in [0, M),         *)
(*  M = RAND_MAX + 1); the model returns the accepted (x, radius) as exact   *)
(*  rationals; sqrt/log are applied by the caller (value oracles).           *)
(* ====================================================================== *)
Definition polar_coord (M : positive) (r : Z) : Q := (2 * (r # M) - 1)%Q.
Definition polar_rejected (s : Q) : bool := Qle_bool 1 s || Qeq_bool s 0.

Fixpoint polar_loop (fuel : nat) (M : positive) (rs : list Z) : res (Q * Q * list Z) :=
  match fuel with
  | O => OutOfFuel
  | S fuel' =>
    match rs with
    | r1 :: r2 :: rest =>
      let x := polar_coord M r1 in
      let y := polar_coord M r2 in
      let s := (x * x + y * y)%Q in
      if polar_rejected s then polar_loop fuel' M rest else Ok (x, s, rest)
    | _ => NoStream 3
    end
  end.

(* gaussian_projection_matrix with the shipped generator: `count` entries in row-major order *)
Fixpoint polar_fill (fuel : nat) (M : positive) (count : nat) (rs : list Z)
  : res (list (Q * Q) * list Z) :=
  match count with
  | O => Ok ([], rs)
  | S c => bind (polar_loop fuel M rs) (fun xsr =>
           bind (polar_fill fuel M c (snd xsr)) (fun lr =>
           Ok (fst xsr :: fst lr, snd lr)))
  end.

(* defines/random.hpp uniform_random(), shipped variant:  std::rand() / ((double)RAND_MAX + 1)  with M = RAND_MAX + 1 *)
Definition uniform_of_rand (M : positive) (r : Z) : Q := r # M.
