(* ====================================================================== *)
(*  Equiv_Spec.v — property C12: what "equivariant" means.                 *)
(*                                                                         *)
(*  Sample permutations.  `is_bij n p q`: p and q are mutually inverse     *)
(*  bijections of [0,n).  The permuted data set has old sample s at        *)
(*  position p s (perm_rows q X), sample-by-sample tables become           *)
(*  pact q M = fun i j => M (q i) (q j), neighbour lists pnbrs p q nb.     *)
(*  `perm_list_b` is the boolean check of a permutation given as a list.   *)
(*                                                                         *)
(*  Rigid motions.  `orthogonal D R`: R^T R = I on the D x D box (so       *)
(*  rotations AND reflections).  Translations and scales are plain.        *)
(*                                                                         *)
(*  The eigen ORACLE.  `eig_answer n d G V lam`: the columns of V (n x d)  *)
(*  are orthonormal eigenvectors of G with eigenvalues lam.  Equivariance  *)
(*  of the solver is NOT assumed: theorems state that the SET of valid     *)
(*  answers is transported by the transformation (which is all that can    *)
(*  hold: signs / rotations inside eigenspaces are free).                  *)
(*  `geig_answer D d A B P lam`: generalised problem A P = B P diag(lam),  *)
(*  P^T B P = I (Eigen's ABx_lx normalisation).                            *)
(*                                                                         *)
(*  What is compared.  `emb_sq_dist d Y i j`: squared distance between     *)
(*  rows i and j of an embedding Y (n x d).                                *)
(*                                                                         *)
(*  Call history.  `static_entry`, `allowed_statics`: the hand-written     *)
(*  allow-list of objects whose lifetime exceeds one embed call; the       *)
(*  generated inventory coq/gen/Statics.v must be equal to it              *)
(*  (Properties_C12.v, by computation).                                    *)
(* ====================================================================== *)
Require Import Arith List Bool.
From TK Require Import Mat_Sums Mat_Core Equiv_Model.
Import ListNotations.

(* ---------------------------------------------------------------------- *)
(* permutations of [0,n)                                                   *)
(* ---------------------------------------------------------------------- *)
Definition is_bij (n : nat) (p q : nat -> nat) : Prop :=
  (forall i, i < n -> p i < n) /\ (forall i, i < n -> q i < n) /\
  (forall i, i < n -> q (p i) = i) /\ (forall i, i < n -> p (q i) = i).

(* a permutation given as the list [p 0; ...; p (n-1)] *)
Definition perm_fun (l : list nat) : nat -> nat := fun i => nth i l i.
Fixpoint index_of (x : nat) (l : list nat) : nat :=
  match l with
  | [] => 0
  | y :: r => if Nat.eqb x y then 0 else S (index_of x r)
  end.
Definition perm_inv_fun (l : list nat) : nat -> nat := fun i => index_of i l.
Definition perm_list_b (n : nat) (l : list nat) : bool :=
  Nat.eqb (List.length l) n &&
  forallb (fun i => Nat.ltb (nth i l n) n && Nat.eqb (index_of (nth i l n) l) i) (seq 0 n).

Section EquivSpec.
  Context {F : Type} {Fo : FieldOps F}.
  Local Open Scope F_scope.

  (* ---------------------------------------------------------------------- *)
  (* rigid motions                                                           *)
  (* ---------------------------------------------------------------------- *)
  Definition orthogonal (D : nat) (R : mat F) : Prop :=
    meq D D (mmul D (mtrans R) R) mI.

  (* ---------------------------------------------------------------------- *)
  (* the eigen oracle's contract                                             *)
  (* ---------------------------------------------------------------------- *)
  Definition eig_answer (n d : nat) (G V : mat F) (lam : vec F) : Prop :=
    (forall i c, i < n -> c < d -> mmul n G V i c = V i c * lam c) /\
    meq d d (mmul n (mtrans V) V) mI.

  Definition geig_answer (D d : nat) (A B P : mat F) (lam : vec F) : Prop :=
    (forall a c, a < D -> c < d -> mmul D A P a c = mmul D B P a c * lam c) /\
    meq d d (mmul D (mtrans P) (mmul D B P)) mI.

  (* ---------------------------------------------------------------------- *)
  (* what the property compares                                              *)
  (* ---------------------------------------------------------------------- *)
  Definition emb_sq_dist (d : nat) (Y : mat F) (i j : nat) : F :=
    sumn d (fun c => (Y i c - Y j c) * (Y i c - Y j c)).

  (* rows permuted: row (p s) of Y' is row s of Y *)
  Definition rows_permuted (n d : nat) (q : nat -> nat) (Y Y' : mat F) : Prop :=
    forall i c, i < n -> c < d -> Y' i c = Y (q i) c.

  Definition same_distances (n d : nat) (Y Y' : mat F) : Prop :=
    forall i j, i < n -> j < n -> emb_sq_dist d Y' i j = emb_sq_dist d Y i j.

  Definition scaled_by (n d : nat) (c : F) (Y Y' : mat F) : Prop :=
    forall i k, i < n -> k < d -> Y' i k = c * Y i k.

  (* neighbour lists all of the same length k (what a correct k-NN search returns) *)
  Definition uniform_rows (n k : nat) (nb : nat -> list nat) : Prop :=
    forall a, a < n -> List.length (nb a) = k.
  Definition rows_in_range (n : nat) (nb : nat -> list nat) : Prop :=
    forall a b, a < n -> In b (nb a) -> b < n.

  (* W 1 = 0 and 1^T W = 0 : alignment matrices of the locally linear family
     (weights sum to one) and graph Laplacians *)
  Definition zero_row_col_sums (n : nat) (W : mat F) : Prop :=
    (forall r, r < n -> sumn n (fun c => W r c) = 0) /\
    (forall c, c < n -> sumn n (fun r => W r c) = 0).

End EquivSpec.

(* ---------------------------------------------------------------------- *)
(* call history: the allow-list of long-lived mutable / static objects     *)
(* ---------------------------------------------------------------------- *)
(* (file relative to the repository root, kind, name).  Kinds:
     "static-local"      function-local `static` object
     "static-member"     static data member
     "global-mutable"    namespace-scope object that is not const
     "global-const-obj"  namespace-scope const object of class type (runs a
                         constructor; immutable afterwards, cannot carry history)
     "rand"              a call of std::rand / srand / random_device / an engine
     "mutable-member"    `mutable` data member                                  *)
Require Import String.
Definition static_entry : Type := (string * string * string)%type.

Definition entry_eqb (a b : static_entry) : bool :=
  match a, b with
  | (f1, k1, n1), (f2, k2, n2) => String.eqb f1 f2 && String.eqb k1 k2 && String.eqb n1 n2
  end.

Fixpoint entries_eqb (l l' : list static_entry) : bool :=
  match l, l' with
  | [], [] => true
  | a :: r, a' :: r' => entry_eqb a a' && entries_eqb r r'
  | _, _ => false
  end.

(* entries whose kind can carry information from one call to the next *)
Definition carries_state (e : static_entry) : bool :=
  match e with
  | (_, k, _) => negb (String.eqb k "global-const-obj")
  end.
