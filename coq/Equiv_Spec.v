(* ====================================================================== *)
(*  Equiv_Spec.v — property C12: what "equivariant" means.                 *)
(*                                                                         *)
(*  Sample permutations.  `is_bij n p q`: p and q are mutually inverse     *)
(*  bijections of [0,n).  The permuted data set has old sample s at        *)
(*  position p s (perm_rows q X), sample-by-sample tables become           *)
(*  pact q M = fun i j => M (q i) (q j), neighbour lists pnbrs p q nb.     *)
(*  `perm_list_b` is the boolean check of a permutation given as a list.   *)
(*                                                                         *)
(*  Rigid motions.  `orthogonal D R`: R^T R = I on the D x D box (so       *)
(*  rotations AND reflections).  Translations and scales are plain.        *)
(*                                                                         *)
(*  The eigen ORACLE.  `eig_answer n d G V lam`: the columns of V (n x d)  *)
(*  are orthonormal eigenvectors of G with eigenvalues lam.  Equivariance  *)
(*  of the solver is NOT assumed: theorems state that the SET of valid     *)
(*  answers is transported by the transformation (which is all that can    *)
(*  hold: signs / rotations inside eigenspaces are free).                  *)
(*  `geig_answer D d A B P lam`: generalised problem A P = B P diag(lam),  *)
(*  P^T B P = I (Eigen's ABx_lx normalisation).                            *)
(*                                                                         *)
(*  What is compared.  `emb_sq_dist d Y i j`: squared distance between     *)
(*  rows i and j of an embedding Y (n x d).                                *)
(*                                                                         *)
(*  Call history.  `static_entry`, `allowed_statics`: the hand-written     *)
(*  allow-list of objects whose lifetime exceeds one embed call; the       *)
(*  generated inventory coq/gen/Statics.v must be equal to it              *)
(*  (Properties_C12.v, by computation).                                    *)
(* ====================================================================== *)
Require Import Arith List Bool.
From TK Require Import Mat_Sums Mat_Core Equiv_Model.
Import ListNotations.

(* ---------------------------------------------------------------------- *)
(* permutations of [0,n)                                                   *)
(* ---------------------------------------------------------------------- *)
Definition is_bij (n : nat) (p q : nat -> nat) : Prop :=
  (forall i, i < n -> p i < n) /\ (forall i, i < n -> q i < n) /\
  (forall i, i < n -> q (p i) = i) /\ (forall i, i < n -> p (q i) = i).

(* a permutation given as the list [p 0; ...; p (n-1)] *)
Definition perm_fun (l : list nat) : nat -> nat := fun i => nth i l i.
Fixpoint index_of (x : nat) (l : list nat) : nat :=
  match l with
  | [] => 0
  | y :: r => if Nat.eqb x y then 0 else S (index_of x r)
  end.
Definition perm_inv_fun (l : list nat) : nat -> nat := fun i => index_of i l.
Definition perm_list_b (n : nat) (l : list nat) : bool :=
  Nat.eqb (List.length l) n &&
  forallb (fun i => Nat.ltb (nth i l n) n && Nat.eqb (index_of (nth i l n) l) i) (seq 0 n).

Section EquivSpec.
  Context {F : Type} {Fo : FieldOps F}.
  Local Open Scope F_scope.

  (* ---------------------------------------------------------------------- *)
  (* rigid motions                                                           *)
  (* ---------------------------------------------------------------------- *)
  Definition orthogonal (D : nat) (R : mat F) : Prop :=
    meq D D (mmul D (mtrans R) R) mI.

  (* ---------------------------------------------------------------------- *)
  (* the eigen oracle's contract                                             *)
  (* ---------------------------------------------------------------------- *)
  Definition eig_answer (n d : nat) (G V : mat F) (lam : vec F) : Prop :=
    (forall i c, i < n -> c < d -> mmul n G V i c = V i c * lam c) /\
    meq d d (mmul n (mtrans V) V) mI.

  Definition geig_answer (D d : nat) (A B P : mat F) (lam : vec F) : Prop :=
    (forall a c, a < D -> c < d -> mmul D A P a c = mmul D B P a c * lam c) /\
    meq d d (mmul D (mtrans P) (mmul D B P)) mI.

  (* ---------------------------------------------------------------------- *)
  (* what the property compares                                              *)
  (* ---------------------------------------------------------------------- *)
  Definition emb_sq_dist (d : nat) (Y : mat F) (i j : nat) : F :=
    sumn d (fun c => (Y i c - Y j c) * (Y i c - Y j c)).

  (* rows permuted: row (p s) of Y' is row s of Y *)
  Definition rows_permuted (n d : nat) (q : nat -> nat) (Y Y' : mat F) : Prop :=
    forall i c, i < n -> c < d -> Y' i c = Y (q i) c.

  Definition same_distances (n d : nat) (Y Y' : mat F) : Prop :=
    forall i j, i < n -> j < n -> emb_sq_dist d Y' i j = emb_sq_dist d Y i j.

  Definition scaled_by (n d : nat) (c : F) (Y Y' : mat F) : Prop :=
    forall i k, i < n -> k < d -> Y' i k = c * Y i k.

  (* neighbour lists all of the same length k (what a correct k-NN search returns) *)
  Definition uniform_rows (n k : nat) (nb : nat -> list nat) : Prop :=
    forall a, a < n -> List.length (nb a) = k.
  Definition rows_in_range (n : nat) (nb : nat -> list nat) : Prop :=
    forall a b, a < n -> In b (nb a) -> b < n.

  (* W 1 = 0 and 1^T W = 0 : alignment matrices of the locally linear family
     (weights sum to one) and graph Laplacians *)
  Definition zero_row_col_sums (n : nat) (W : mat F) : Prop :=
    (forall r, r < n -> sumn n (fun c => W r c) = 0) /\
    (forall c, c < n -> sumn n (fun r => W r c) = 0).

End EquivSpec.

(* ---------------------------------------------------------------------- *)
(* call history: the allow-list of long-lived mutable / static objects     *)
(* ---------------------------------------------------------------------- *)
(* Entries (file relative to include/, kind, name) as generated by translate/t_static.py
   into coq/gen/Statics.v.  Kinds:
     "static-local"  / "static-local-const"    function-local `static` object
     "static-member" / "static-member-const"   static data member
     "global-mutable" / "global-const"         namespace-scope object
     "rand"          calls of rand/srand/... in that file, name = "<function>#<count>"
     "rng-object"    a std::random_device / standard engine object
     "mutable-member" a `mutable` data member
     "write"         a textual assignment to / increment of a global-mutable object
     "rand-user"     calls of the wrappers uniform_random / gaussian_random / uniform_random_index /
                     random_shuffle of defines/random.hpp in that file, name = "<wrapper>#<count>"
     "logger-read"   a use of Logging::instance() that is not a `message_<level>(..)` call (level
                     getters, sink getter / setter, level switches, the singleton bound to a name)
   The "-const" kinds cannot carry information from one call to the next and are not
   constrained (adding a new method constant is harmless); every other entry must be
   in the hand-written allow-list below. *)
Require Import String.
Definition static_entry : Type := (string * string * string)%type.

Definition entry_eqb (a b : static_entry) : bool :=
  match a, b with
  | (f1, k1, n1), (f2, k2, n2) => String.eqb f1 f2 && String.eqb k1 k2 && String.eqb n1 n2
  end.

Fixpoint entries_eqb (l l' : list static_entry) : bool :=
  match l, l' with
  | [], [] => true
  | a :: r, a' :: r' => entry_eqb a a' && entries_eqb r r'
  | _, _ => false
  end.

Definition kind_of (e : static_entry) : string := match e with (_, k, _) => k end.

Definition const_kinds : list string :=
  ["static-local-const"; "static-member-const"; "global-const"]%string.
Definition state_kinds : list string :=
  ["static-local"; "static-member"; "global-mutable"; "rand"; "rng-object"; "mutable-member";
   "write"; "rand-user"; "logger-read"]%string.

Definition str_mem (s : string) (l : list string) : bool := existsb (String.eqb s) l.

(* entries whose kind can carry information from one call to the next *)
Definition carries_state (e : static_entry) : bool := str_mem (kind_of e) state_kinds.
(* every entry has a kind this file knows about *)
Definition known_kind (e : static_entry) : bool :=
  str_mem (kind_of e) state_kinds || str_mem (kind_of e) const_kinds.

(* THE ALLOW-LIST (sorted as the translator sorts).  Why each entry cannot make the numbers
   returned by embed() depend on earlier calls:
   - stichwort/policy.hpp `policy`: function-local static PointerTypePolicyImpl<T>, a class
     without data members (a vtable of type operations);  `s`, `x`: static reference members
     of a SFINAE probe, declared, only used inside sizeof, never defined.
   - defines/methods.hpp default_*: namespace-scope objects of internal linkage, initialised
     once, read by the keyword definitions; no "write" entry exists, i.e. nothing under
     include/ assigns to them.
   - defines/random.hpp: the consumers of std::rand (uniform_random_index, uniform_random,
     gaussian_random: 4 calls), the std::random_device / std::mt19937 locals of
     random_shuffle, and hook H1's function-local static `hook` (exists only under
     TAPKEE_VERIF; with no seed and no observer installed random_shuffle ignores it).
     These make the RANDOMISED methods (landmarks, SPE, random projection, FA, t-SNE,
     manifold sculpting) depend on the process-wide rand() stream: the property's last
     sentence is therefore stated, proved and tested for the DETERMINISTIC methods.
   - routines/manifold_sculpting.hpp: one more std::rand consumer (randomised method).
   - routines/matrix_operations.hpp `foo`: function-local static std::string constants
     ("SM"/"LA") returned by const reference.
   - utils/logging.hpp `s`: the Logging singleton (level flags + sink pointer): it decides
     what is PRINTED, never what is computed: NO "logger-read" entry is allowed, i.e. outside
     logging.hpp the library uses the singleton only through message_<level>(..), which return
     void (Equiv_Effects.v: a program whose logger operations have no answer computes the same
     value for every logger state).
   - "rand-user": the files that call the random wrappers.  tsne.hpp, barnes_hut_sne/vptree.hpp,
     landmarks.hpp (select_landmarks_random), random_projection.hpp, spe.hpp belong to randomised
     methods; routines/eigendecomposition.hpp draws in eigendecomposition_impl_randomized only
     (eigen_method = Randomized; the property is stated for the dense solver); neighbors/vptree.hpp
     draws the pivots of the VP tree: the set of k nearest neighbours does not depend on the pivots
     (property C02's theorem about the VP-tree search for an arbitrary pivot choice), and the
     history stream compares such calls bitwise under different states of the random stream.
     Every other deterministic call is OBSERVED to draw nothing (the embed driver counts the draws
     of std::rand and the hooked random_shuffle calls of every call: Equiv_Effects.v turns "no
     draw on the executed path" into "same result for every state of the stream"). *)
Definition allowed_stateful : list static_entry :=
  [ ("stichwort/policy.hpp", "static-local", "policy");
    ("stichwort/policy.hpp", "static-member", "s");
    ("stichwort/policy.hpp", "static-member", "x");
    ("tapkee/defines/methods.hpp", "global-mutable", "default_computation_strategy");
    ("tapkee/defines/methods.hpp", "global-mutable", "default_eigen_method");
    ("tapkee/defines/methods.hpp", "global-mutable", "default_neighbors_method");
    ("tapkee/defines/random.hpp", "rand", "rand#4");
    ("tapkee/defines/random.hpp", "rng-object", "rng");
    ("tapkee/defines/random.hpp", "rng-object", "urng");
    ("tapkee/defines/random.hpp", "rng-object", "urng_copy");
    ("tapkee/defines/random.hpp", "static-local", "hook");
    ("tapkee/external/barnes_hut_sne/tsne.hpp", "rand-user", "gaussian_random#1");
    ("tapkee/external/barnes_hut_sne/vptree.hpp", "rand-user", "uniform_random#1");
    ("tapkee/neighbors/vptree.hpp", "rand-user", "uniform_random#1");
    ("tapkee/routines/eigendecomposition.hpp", "rand-user", "gaussian_random#1");
    ("tapkee/routines/landmarks.hpp", "rand-user", "random_shuffle#1");
    ("tapkee/routines/manifold_sculpting.hpp", "rand", "rand#1");
    ("tapkee/routines/matrix_operations.hpp", "static-local", "foo");
    ("tapkee/routines/random_projection.hpp", "rand-user", "gaussian_random#1");
    ("tapkee/routines/spe.hpp", "rand-user", "random_shuffle#1");
    ("tapkee/routines/spe.hpp", "rand-user", "uniform_random#1");
    ("tapkee/utils/logging.hpp", "static-local", "s") ]%string.

Definition inventory_ok (inv : list static_entry) : bool :=
  forallb known_kind inv && entries_eqb (filter carries_state inv) allowed_stateful.
