(* Chain_Model.v — executable model of tapkee's call-chain interface and of the way the
   callbacks supplied by a caller reach the code of a dimension-reduction method (property C13).

   NO PROOFS HERE.  Everything is a small, total, computable function over finite tables.

   The C++ this mirrors (include/tapkee/):
     chain_interface.hpp   tapkee::with(params) and the eight "...InitializedState" classes; every
                           with<K>/embedRange/embedUsing member returns a constructor call, a call
                           of tapkee::embed, or a chain of member calls on ( *this )
     embed.hpp             tapkee::embed(begin, end, k, d, f, params) -> tapkee_internal::initialize(...)
     methods.hpp           initialize(...) -> DynamicImplementation<...>(...) (inherits the constructor of
                           ImplementationBase); DynamicImplementation::embedUsing: the three
                           "needs_X && is_dummy<XCallback>" guards, then X##Implementation(self)
     methods/base.hpp      ImplementationBase: constructor-initialiser list, copy constructor, and the
                           slots (kernel, distance, features, plain_distance, kernel_distance, begin, end,
                           parameters) the embed() body of every method refers to
     defines/methods.hpp   the DimensionReductionTraits constants and the method -> trait table
     methods/*.hpp         which slots the validate()/embed() body of each method refers to

   The tables themselves are NOT written here: translate/t_chain.py and translate/t_use.py regenerate
   coq/gen/Chain.v and coq/gen/Uses.v from the working tree on every run, as values of the record
   types [chain_tables] and [uses_tables] below.  This file gives those tables their meaning: an
   interpreter for the C++ subset the tables are written in.

   Vocabulary that is fixed by NAME (the public API names are the anchor, there is nothing deeper to
   tie them to): withKernel/withDistance/withFeatures, dummy_<k>_callback, eigen_<k>_callback,
   needs_<k>, and the member functions .kernel / .distance / .vector / .dimension. *)
From Coq Require Import List String Bool Arith.
Import ListNotations.
Local Open Scope string_scope.

(* ------------------------------------------------------------------ kinds and values *)
Inductive kind := Kern | Dist | Feat.

Definition kind_eqb (a b : kind) : bool :=
  match a, b with Kern, Kern | Dist, Dist | Feat, Feat => true | _, _ => false end.

Definition all_kinds : list kind := [Kern; Dist; Feat].

Fixpoint kmem (k : kind) (l : list kind) : bool :=
  match l with [] => false | x :: r => kind_eqb k x || kmem k r end.

(* What can be stored in a slot / passed as an argument.  The model is symbolic: the only thing that
   matters for C13 is WHICH object sits in which slot. *)
Inductive value :=
| VParams                          (* the ParametersSet handed to tapkee::with *)
| VUser (k : kind)                 (* the object the caller handed to with<k>(...) *)
| VDummy (k : kind)                (* dummy_<k>_callback<value_type>() *)
| VEigen (k : kind)                (* eigen_<k>_callback(matrix) *)
| VBegin | VEnd                    (* the data range *)
| VSeq                             (* a container whose begin()/end() is the data range *)
| VMatrix                          (* the feature matrix given to embedUsing(matrix) *)
| VWrap (w : string) (v : value)   (* W<...>(v): PlainDistance / KernelDistance *)
| VOther (s : string).             (* anything that is not a callback or the range (context, ...) *)

Fixpoint value_eqb (a b : value) : bool :=
  match a, b with
  | VParams, VParams | VBegin, VBegin | VEnd, VEnd | VSeq, VSeq | VMatrix, VMatrix => true
  | VUser x, VUser y | VDummy x, VDummy y | VEigen x, VEigen y => kind_eqb x y
  | VWrap w v, VWrap w' v' => String.eqb w w' && value_eqb v v'
  | VOther s, VOther s' => String.eqb s s'
  | _, _ => false
  end.

(* the callback kind a slot value stands for, through wrappers *)
Fixpoint value_kind (v : value) : option kind :=
  match v with
  | VUser k | VDummy k | VEigen k => Some k
  | VWrap _ v' => value_kind v'
  | _ => None
  end.

(* is_dummy<T>::value for the type of the object, through wrappers (a wrapper around a dummy throws
   exactly when the dummy does) *)
Fixpoint value_is_dummy (v : value) : bool :=
  match v with
  | VDummy _ => true
  | VWrap _ v' => value_is_dummy v'
  | _ => false
  end.

(* ------------------------------------------------------------------ the table language *)
Inductive expr :=
| EId (x : string)                 (* a constructor/member parameter, a local, or a field *)
| EDummyCb (k : kind)              (* dummy_<k>_callback<...>() *)
| EEigenCb (k : kind) (m : expr)   (* eigen_<k>_callback(m) *)
| EIndexSeq (m : expr)             (* std::vector<IndexType> filled with 0 .. m.cols()-1 *)
| EBeginOf (x : string)            (* x.begin() *)
| EEndOf (x : string)              (* x.end() *)
| EWrap (w : string) (e : expr)    (* W<...>(e) *)
| EOpaque (s : string).            (* an expression that involves no callback and no range *)

Inductive body :=
| BConstruct (cls : string) (args : list expr)          (* return Cls<...>(args); *)
| BEmbed (args : list expr)                             (* return tapkee::embed(args); *)
| BSelfChain (calls : list (string * list expr))        (* return ( *this ).m1(a1).m2(a2)...; *)
| BDelegate (m : string) (args : list expr).            (* return m(args);   (implicit this) *)

Record member_decl := {
  m_name : string;
  m_params : list string;
  m_locals : list (string * expr);        (* local objects declared before the return statement *)
  m_body : body }.

Record class_decl := {
  c_name : string;
  c_fields : list string;                 (* in DECLARATION order (= C++ initialisation order) *)
  c_ctor_params : list string;
  c_inits : list (string * expr);         (* constructor-initialiser list: field := expression *)
  c_members : list member_decl }.

(* a free function that forwards its arguments: tapkee::with, tapkee::embed, initialize *)
Record fun_decl := {
  f_name : string;
  f_params : list string;
  f_locals : list string;                 (* locals that may be forwarded (context) *)
  f_body : body }.

Record chain_tables := {
  t_classes : list class_decl;            (* the chain states, then the implementation base class *)
  t_with : fun_decl;                      (* tapkee::with *)
  t_embed : fun_decl;                     (* tapkee::embed: BDelegate "initialize" args *)
  t_initialize : fun_decl;                (* initialize: BConstruct impl-class args *)
  t_impl_class : string;                  (* the class whose constructor DynamicImplementation inherits *)
  t_copy_inits : list (string * string);  (* its copy constructor: field := other.field' *)
  t_copies : nat }.                       (* copies between initialize() and the method's embed():
                                             static_cast<Base>( *this ) and X##Implementation(self) *)

(* ------------------------------------------------------------------ interpreter *)
Definition env := list (string * value).

Fixpoint lookup {A} (x : string) (e : list (string * A)) : option A :=
  match e with
  | [] => None
  | (y, v) :: r => if String.eqb x y then Some v else lookup x r
  end.

Inductive result :=
| RObj (cls : string) (fields : env)     (* a chain state / implementation object *)
| REmbed (args : list value)             (* the call tapkee::embed(args) *)
| RErr (why : string)                    (* the table describes something that would not compile /
                                            reads an uninitialised field *)
| ROutOfFuel.

Fixpoint eval (e : env) (x : expr) : option value :=
  match x with
  | EId n => lookup n e
  | EDummyCb k => Some (VDummy k)
  | EEigenCb k m => match eval e m with Some VMatrix => Some (VEigen k) | _ => None end
  | EIndexSeq m => match eval e m with Some VMatrix => Some VSeq | _ => None end
  | EBeginOf n => match lookup n e with Some VSeq => Some VBegin | _ => None end
  | EEndOf n => match lookup n e with Some VSeq => Some VEnd | _ => None end
  | EWrap w a => match eval e a with Some v => Some (VWrap w v) | None => None end
  | EOpaque s => Some (VOther s)
  end.

Fixpoint eval_list (e : env) (xs : list expr) : option (list value) :=
  match xs with
  | [] => Some []
  | x :: r =>
    match eval e x, eval_list e r with
    | Some v, Some vs => Some (v :: vs)
    | _, _ => None
    end
  end.

Fixpoint zip_env (ns : list string) (vs : list value) : option env :=
  match ns, vs with
  | [], [] => Some []
  | n :: nr, v :: vr => match zip_env nr vr with Some e => Some ((n, v) :: e) | None => None end
  | _, _ => None
  end.

Fixpoint find_class (cs : list class_decl) (n : string) : option class_decl :=
  match cs with
  | [] => None
  | c :: r => if String.eqb (c_name c) n then Some c else find_class r n
  end.

Fixpoint find_member (ms : list member_decl) (n : string) : option member_decl :=
  match ms with
  | [] => None
  | m :: r => if String.eqb (m_name m) n then Some m else find_member r n
  end.

(* fields are initialised in declaration order; an initialiser sees the constructor parameters and the
   fields initialised so far (a constructor parameter shadows a field of the same name) *)
Fixpoint init_fields (fields : list string) (inits : list (string * expr)) (params : env) (done : env)
  : option env :=
  match fields with
  | [] => Some done
  | f :: r =>
    match lookup f inits with
    | None => None                                     (* field left uninitialised *)
    | Some x =>
      match eval (params ++ done)%list x with
      | None => None
      | Some v => init_fields r inits params (done ++ [(f, v)])%list
      end
    end
  end.

Definition construct (t : chain_tables) (cls : string) (args : list value) : result :=
  match find_class (t_classes t) cls with
  | None => RErr ("no class " ++ cls)
  | Some c =>
    match zip_env (c_ctor_params c) args with
    | None => RErr ("constructor arity of " ++ cls)
    | Some ps =>
      match init_fields (c_fields c) (c_inits c) ps [] with
      | None => RErr ("initialiser list of " ++ cls)
      | Some fs => RObj cls fs
      end
    end
  end.

Fixpoint bind_locals (ls : list (string * expr)) (e : env) : option env :=
  match ls with
  | [] => Some e
  | (n, x) :: r => match eval e x with Some v => bind_locals r ((n, v) :: e) | None => None end
  end.

(* the member call  obj.m(args) *)
Fixpoint call (fuel : nat) (t : chain_tables) (cls : string) (fields : env) (m : string)
         (args : list value) {struct fuel} : result :=
  match fuel with
  | O => ROutOfFuel
  | S fuel' =>
    match find_class (t_classes t) cls with
    | None => RErr ("no class " ++ cls)
    | Some c =>
      match find_member (c_members c) m with
      | None => RErr ("no member " ++ m ++ " in " ++ cls)
      | Some md =>
        match zip_env (m_params md) args with
        | None => RErr ("arity of " ++ cls ++ "::" ++ m)
        | Some ps =>
          match bind_locals (m_locals md) (ps ++ fields)%list with
          | None => RErr ("locals of " ++ cls ++ "::" ++ m)
          | Some e =>
            match m_body md with
            | BConstruct k xs =>
              match eval_list e xs with
              | Some vs => construct t k vs
              | None => RErr ("arguments in " ++ cls ++ "::" ++ m)
              end
            | BEmbed xs =>
              match eval_list e xs with
              | Some vs => REmbed vs
              | None => RErr ("arguments in " ++ cls ++ "::" ++ m)
              end
            | BDelegate m' xs =>
              match eval_list e xs with
              | Some vs => call fuel' t cls fields m' vs
              | None => RErr ("arguments in " ++ cls ++ "::" ++ m)
              end
            | BSelfChain calls =>
              (fix chain (cs : list (string * list expr)) (cur : result) {struct cs} : result :=
                 match cs with
                 | [] => cur
                 | (m', xs) :: r =>
                   match cur with
                   | RObj k fs =>
                     match eval_list e xs with
                     | Some vs => chain r (call fuel' t k fs m' vs)
                     | None => RErr ("arguments in " ++ cls ++ "::" ++ m)
                     end
                   | other => other
                   end
                 end) calls (RObj cls fields)
            end
          end
        end
      end
    end
  end.

Definition chain_fuel : nat := 16.

(* ------------------------------------------------------------------ what a caller can write *)
Inductive entry :=
| ByRange            (* .embedRange(begin, end) *)
| ByContainer        (* .embedUsing(container) *)
| ByMatrix.          (* .embedUsing(matrix)  -- only on the state returned by tapkee::with *)

Definition with_member (k : kind) : string :=
  match k with Kern => "withKernel" | Dist => "withDistance" | Feat => "withFeatures" end.

Definition run_free (t : chain_tables) (f : fun_decl) (args : list value) : result :=
  match zip_env (f_params f) args with
  | None => RErr ("arity of " ++ f_name f)
  | Some ps =>
    let e := (ps ++ map (fun n => (n, VOther n)) (f_locals f))%list in
    match f_body f with
    | BConstruct k xs =>
      match eval_list e xs with Some vs => construct t k vs | None => RErr ("arguments in " ++ f_name f) end
    | BDelegate _ xs =>
      match eval_list e xs with Some vs => REmbed vs | None => RErr ("arguments in " ++ f_name f) end
    | _ => RErr ("shape of " ++ f_name f)
    end
  end.

(* tapkee::with(params).with<k1>(cb1)....<entry>  up to the call of tapkee::embed *)
Fixpoint attach (t : chain_tables) (order : list kind) (cur : result) : result :=
  match order with
  | [] => cur
  | k :: r =>
    match cur with
    | RObj cls fs => attach t r (call chain_fuel t cls fs (with_member k) [VUser k])
    | other => other
    end
  end.

Definition user_chain (t : chain_tables) (order : list kind) (en : entry) : result :=
  match attach t order (run_free t (t_with t) [VParams]) with
  | RObj cls fs =>
    match en with
    | ByRange => call chain_fuel t cls fs "embedRange" [VBegin; VEnd]
    | ByContainer => call chain_fuel t cls fs "embedUsing" [VSeq]
    | ByMatrix => call chain_fuel t cls fs "embedUsing" [VMatrix]
    end
  | other => other
  end.

Fixpoint copy_once (ci : list (string * string)) (fs : env) : option env :=
  match ci with
  | [] => Some []
  | (f, g) :: r =>
    match lookup g fs, copy_once r fs with
    | Some v, Some e => Some ((f, v) :: e)
    | _, _ => None
    end
  end.

Fixpoint copy_n (n : nat) (ci : list (string * string)) (fs : env) : option env :=
  match n with
  | O => Some fs
  | S n' => match copy_once ci fs with Some fs' => copy_n n' ci fs' | None => None end
  end.

(* from the arguments of tapkee::embed to the slots the embed() body of a method sees *)
Definition downstream (t : chain_tables) (embed_args : list value) : result :=
  match run_free t (t_embed t) embed_args with
  | REmbed init_args =>
    match run_free t (t_initialize t) init_args with
    | RObj cls fs =>
      if String.eqb cls (t_impl_class t) then
        match copy_n (t_copies t) (t_copy_inits t) fs with
        | Some fs' => RObj cls fs'
        | None => RErr "copy constructor reads a missing field"
        end
      else RErr "initialize constructs an unexpected class"
    | other => other
    end
  | other => other
  end.

(* the slots of the method implementation object for a given user chain *)
Definition reach (t : chain_tables) (order : list kind) (en : entry) : result :=
  match user_chain t order en with
  | REmbed args => downstream t args
  | RObj _ _ => RErr "chain ends in a state, not in tapkee::embed"
  | other => other
  end.

(* ------------------------------------------------------------------ methods: needs and uses *)
Record method_decl := {
  md_name : string;                 (* the identifier, e.g. "Isomap" *)
  md_trait : string;                (* the DimensionReductionTraits constant it is built from *)
  md_refs : list string;            (* slots its validate()/embed() bodies refer to (over-approximation
                                       of the slots it can touch), in order of first appearance *)
  md_invoked : list (string * list string) }.
                                    (* per referred slot: the callback member functions reached through the
                                       routines it is passed to ("?" = could not be followed).  Evidence
                                       only (over-declaration report); no theorem depends on it. *)

Record uses_tables := {
  u_trait_fields : list string;               (* DimensionReductionTraits, declaration order *)
  u_traits : list (string * list bool);       (* RequiresKernel := {true,false,false} ... *)
  u_method_inits : list (string * string);    (* DimensionReductionMethod: field := traits.field' *)
  u_guards : list (string * string * string); (* embedUsing: method.<field> && is_dummy<slot type> -> msg;
                                                 the second component is already resolved to the SLOT
                                                 (field of the implementation base) of that type *)
  u_base_refs : list string;                  (* slots the base-class constructor itself calls into when
                                                 they are not dummies (features.dimension()) *)
  u_base_unguarded : list string;             (* slots the base-class constructor calls into WITHOUT an
                                                 is_dummy guard (none in the shipped code) *)
  u_methods : list method_decl;
  u_dispatched : list string;                 (* names handled by tapkee_method_handle(...) *)
  u_callback_classes : list (string * bool * list (string * bool));
                                              (* callbacks/*.hpp: class, has `typedef int dummy` (what is_dummy<T>
                                                 detects), member functions with "its body is a throw statement" *)
  u_wrappers : list (string * list (string * list string));
                                              (* PlainDistance / KernelDistance: per member function, the member
                                                 functions it calls on the wrapped callback *)
  u_deref_files : list string;                (* files scanned for dereferences of a RandomAccessIterator *)
  u_derefs : list (string * string * bool) }. (* every dereference site ( *it, it[i], *(it + n), it-> ): file, source
                                                 snippet, "is an argument of a .kernel/.distance/.vector call" *)

Definition needs_field (k : kind) : string :=
  match k with Kern => "needs_kernel" | Dist => "needs_distance" | Feat => "needs_features" end.

Fixpoint zip_bools (ns : list string) (bs : list bool) : option (list (string * bool)) :=
  match ns, bs with
  | [], [] => Some []
  | n :: nr, b :: br => match zip_bools nr br with Some e => Some ((n, b) :: e) | None => None end
  | _, _ => None
  end.

(* the value of the public field  <Method>.<fld>  (fld = needs_kernel ...) *)
Definition method_field (u : uses_tables) (m : method_decl) (fld : string) : option bool :=
  match lookup (md_trait m) (u_traits u) with
  | None => None
  | Some bs =>
    match zip_bools (u_trait_fields u) bs with
    | None => None
    | Some tf =>
      match lookup fld (u_method_inits u) with
      | None => None
      | Some tfld => lookup tfld tf
      end
    end
  end.

(* what the method DECLARES to need: the kinds k whose public field needs_<k> is true *)
Definition declared (u : uses_tables) (m : method_decl) : list kind :=
  filter (fun k => match method_field u m (needs_field k) with Some true => true | _ => false end)
         all_kinds.

Inductive outcome :=
| Ok                                  (* embed() runs and no slot it refers to holds a dummy *)
| Missed (msg : string)               (* DynamicImplementation::embedUsing throws unsupported_method_error msg *)
| TouchesDummy (slot : string) (k : kind)
                                      (* the method body refers to a slot that holds a dummy callback: calling it
                                         throws "Dummy <k> callback is set" *)
| NotDispatched                       (* no tapkee_method_handle line: embedUsing falls through and returns an
                                         empty TapkeeOutput *)
| Broken (why : string).              (* tables inconsistent / chain does not reach a method *)

Fixpoint first_guard (u : uses_tables) (m : method_decl) (slots : env)
         (gs : list (string * string * string)) : option outcome :=
  match gs with
  | [] => None
  | (fld, slot, msg) :: r =>
    match method_field u m fld, lookup slot slots with
    | Some b, Some v =>
      if b && value_is_dummy v then Some (Missed msg) else first_guard u m slots r
    | _, _ => Some (Broken ("guard " ++ fld))
    end
  end.

Fixpoint first_dummy_ref (slots : env) (refs : list string) : option outcome :=
  match refs with
  | [] => None
  | s :: r =>
    match lookup s slots with
    | None => Some (Broken ("method refers to unknown slot " ++ s))
    | Some v =>
      if value_is_dummy v then
        match value_kind v with
        | Some k => Some (TouchesDummy s k)
        | None => Some (Broken s)
        end
      else first_dummy_ref slots r
    end
  end.

(* C++ order of events: initialize() runs the base-class constructor (unguarded calls on callbacks happen
   there), then embedUsing tests the three guards, then dispatches on the method, then the method's
   validate()/embed() run. *)
Definition run_method_on (u : uses_tables) (m : method_decl) (slots : env) : outcome :=
  match first_dummy_ref slots (u_base_unguarded u) with
  | Some o => o
  | None =>
    match first_guard u m slots (u_guards u) with
    | Some o => o
    | None =>
      if negb (existsb (String.eqb (md_name m)) (u_dispatched u)) then NotDispatched else
      match first_dummy_ref slots (md_refs m) with
      | Some o => o
      | None => Ok
      end
    end
  end.

(* end to end: the caller's chain, then the method *)
Definition run_method (t : chain_tables) (u : uses_tables) (m : method_decl) (order : list kind)
           (en : entry) : outcome :=
  match reach t order en with
  | RObj _ slots => run_method_on u m slots
  | RErr why => Broken why
  | _ => Broken "chain"
  end.

(* the callback kinds a method can touch: kinds of the slots it refers to, read off the slots of a fully
   supplied chain (so that plain_distance counts as the distance callback it wraps) *)
Definition uses (t : chain_tables) (u : uses_tables) (m : method_decl) : list kind :=
  match reach t all_kinds ByRange with
  | RObj _ slots =>
    filter (fun k => existsb (fun s => match lookup s slots with
                                       | Some v => match value_kind v with Some k' => kind_eqb k k' | None => false end
                                       | None => true      (* unknown slot: assume the worst *)
                                       end) (md_refs m)) all_kinds
  | _ => all_kinds
  end.
