(* Dijkstra_FibC_Model.v — compute_shortest_distances_matrix in the TAPKEE_USE_FIBONACCI_HEAP
   configuration with the heap NOT abstracted: the queue is the executable pointer-order model
   of tapkee_internal::fibonacci_heap of property C16 (FibHeap_Model.v: insert, decrease_key,
   extract_min with consolidate and its scratch array A[Dn], cascading cuts), constructed as the
   code constructs it, `fibonacci_heap heap(N)` with Dn from the current constructor
   (FibHeap_Dn.dn_fixed).  Same statements, same order as Dijkstra_Model.relax_fib / step_fib;
   only the three heap calls and `heap.empty()` (num_nodes == 0) differ.  No proofs here.

   Dijkstra_Proof_FibC.v proves that this model too returns the shortest-path row, using
   property C16's refinement theorem (FibHeap_Proof_Main.step_spec) for every heap call: the
   abstract indexed map of Dijkstra_Model.v is thereby justified inside Coq, and the
   tie-breaking among equal keys is the real one (the heap's pointer order). *)
From Coq Require Import List ZArith Bool Arith.
From TK Require Import Dijkstra_Model FibHeap_Model FibHeap_Dn.
Import ListNotations.
Local Open Scope Z_scope.

Record cstate : Type := mkC {
  c_dist : list (option Z);
  c_s : list bool;
  c_f : list bool;
  c_heap : heap }.

Definition site_heap_A := 9%nat.      (* consolidate touched A[d] with d >= Dn *)
Definition site_heap_index := 10%nat. (* extract_min returned a negative index on a non-empty heap *)

Section RunC.
  Variable nbrs : list (list nat).
  Variable w : nat -> nat -> Z.
  Variable N : nat.
  Variable K : nat.

  Fixpoint relax_fibc (u : nat) (ws : list nat) (st : cstate) : dres cstate :=
    match ws with
    | [] => DOk st
    | v :: ws' =>
      match nth_error (c_s st) v with
      | None => DOOB site_w v
      | Some true => relax_fibc u ws' st
      | Some false =>
        match nth_error (c_dist st) u, nth_error (c_dist st) v, nth_error (c_f st) v with
        | Some (Some du), Some dv, Some fv =>
          let nd := du + w u v in
          if lt_inf nd dv
          then if fv
               then relax_fibc u ws'
                      (mkC (upd (c_dist st) v (Some nd)) (c_s st) (c_f st)
                           (decrease_key (Z.of_nat v) nd (c_heap st)))
               else relax_fibc u ws'
                      (mkC (upd (c_dist st) v (Some nd)) (c_s st)
                           (upd (c_f st) v true) (insert (Z.of_nat v) nd (c_heap st)))
          else relax_fibc u ws' st
        | Some None, Some _, Some _ => relax_fibc u ws' st
        | None, _, _ => DOOB site_min_item u
        | _, _, _ => DOOB site_w v
        end
      end
    end.

  Definition step_fibc (st : cstate) : option (dres cstate) :=
    if Z.eqb (h_num_nodes (c_heap st)) 0 then None                (* while (!heap.empty()) *)
    else Some
      match extract_min (c_heap st) with                          (* int min_item = heap.extract_min(tmp) *)
      | Ok (h', Some (i, _)) =>
        if Z.ltb i 0 then DOOB site_heap_index 0
        else
          let u := Z.to_nat i in
          match nth_error (c_s st) u with
          | None => DOOB site_min_item u
          | Some _ =>
            match nbr_row nbrs K u with
            | DOk ws => relax_fibc u ws (mkC (c_dist st) (upd (c_s st) u true) (upd (c_f st) u false) h')
            | DOOB a b => DOOB a b
            | DOutOfFuel => DOutOfFuel
            end
          end
      | Ok (_, None) => DOOB site_heap_index 0
      | OOB d _ => DOOB site_heap_A d
      | OutOfFuel => DOutOfFuel
      end.

  Fixpoint loop_c (fuel : nat) (st : cstate) : dres cstate :=
    match fuel with
    | O => DOutOfFuel
    | S fuel' =>
      match step_fibc st with
      | None => DOk st
      | Some (DOk st') => loop_c fuel' st'
      | Some (DOOB a b) => DOOB a b
      | Some DOutOfFuel => DOutOfFuel
      end
    end.

  (* fibonacci_heap heap(N); ...; heap.insert(src, 0.0); f[fidx] = true; *)
  Definition init_c (src fidx : nat) : dres cstate :=
    if Nat.ltb src N then
      if Nat.ltb fidx N then
        let cap := Z.of_nat N in
        DOk (mkC (upd (repeat None N) src (Some 0)) (repeat false N)
                 (upd (repeat false N) fidx true)
                 (insert (Z.of_nat src) 0 (empty_heap cap (dn_fixed cap))))
      else DOOB site_fidx fidx
    else DOOB site_src src.

  Definition row_fibc (src fidx : nat) : dres (list (option Z)) :=
    match init_c src fidx with
    | DOk st0 =>
      match loop_c (fuel_of N K) st0 with
      | DOk st => DOk (c_dist st)
      | DOOB a b => DOOB a b
      | DOutOfFuel => DOutOfFuel
      end
    | DOOB a b => DOOB a b
    | DOutOfFuel => DOutOfFuel
    end.
End RunC.

Definition full_matrix_fibc (nbrs : list (list nat)) (w : nat -> nat -> Z) (N : nat)
  : dres (list (list (option Z))) :=
  match nbrs with
  | [] => DOOB site_n_neighbors 0
  | r0 :: _ => sequence (map (fun k => row_fibc nbrs w N (length r0) k k) (seq 0 N))
  end.

Definition landmark_matrix_fibc (nbrs : list (list nat)) (w : nat -> nat -> Z) (N : nat) (lm : list nat)
  : dres (list (list (option Z))) :=
  match nbrs with
  | [] => DOOB site_n_neighbors 0
  | r0 :: _ =>
    sequence (map (fun k => match nth_error lm k with
                            | None => DOOB site_landmark k
                            | Some src => row_fibc nbrs w N (length r0) src src
                            end) (seq 0 (length lm)))
  end.

(* ---------- instrumented copies: the calls of the distance callback, in order ----------
   `callback.distance(begin[min_item], begin[w])` is evaluated exactly when `s[w] == false`, after
   `s[min_item] = true`; the inner loop does not change s[].  Because the heap is the concrete
   pointer-order model, the extraction order among equal keys is the real one, so with one thread
   (rows in increasing k) the whole call sequence of the Fibonacci build is determined. *)
Section TraceC.
  Variable nbrs : list (list nat).
  Variable w : nat -> nat -> Z.
  Variable N : nat.
  Variable K : nat.

  Definition trace_step (st : cstate) : list (nat * nat) :=
    match extract_min (c_heap st) with
    | Ok (_, Some (i, _)) =>
      let u := Z.to_nat i in
      match nbr_row nbrs K u with
      | DOk ws => map (fun v => (u, v))
                      (filter (fun v => negb (nth v (upd (c_s st) u true) true)) ws)
      | _ => []
      end
    | _ => []
    end.

  Fixpoint loop_c_tr (fuel : nat) (st : cstate) : dres cstate * list (nat * nat) :=
    match fuel with
    | O => (DOutOfFuel, [])
    | S fuel' =>
      match step_fibc nbrs w K st with
      | None => (DOk st, [])
      | Some (DOk st') => let r := loop_c_tr fuel' st' in (fst r, trace_step st ++ snd r)
      | Some (DOOB a b) => (DOOB a b, trace_step st)
      | Some DOutOfFuel => (DOutOfFuel, trace_step st)
      end
    end.

  Definition row_fibc_tr (src fidx : nat) : dres (list (option Z)) * list (nat * nat) :=
    match init_c N src fidx with
    | DOk st0 =>
      let r := loop_c_tr (fuel_of N K) st0 in
      (match fst r with
       | DOk st => DOk (c_dist st)
       | DOOB a b => DOOB a b
       | DOutOfFuel => DOutOfFuel
       end, snd r)
    | DOOB a b => (DOOB a b, [])
    | DOutOfFuel => (DOutOfFuel, [])
    end.
End TraceC.

(* one thread: rows in increasing order; the traces are concatenated *)
Definition full_trace_fibc (nbrs : list (list nat)) (w : nat -> nat -> Z) (N : nat) : list (nat * nat) :=
  match nbrs with
  | [] => []
  | r0 :: _ => flat_map (fun k => snd (row_fibc_tr nbrs w N (length r0) k k)) (seq 0 N)
  end.

Definition landmark_trace_fibc (nbrs : list (list nat)) (w : nat -> nat -> Z) (N : nat) (lm : list nat)
  : list (nat * nat) :=
  match nbrs with
  | [] => []
  | r0 :: _ => flat_map (fun src => snd (row_fibc_tr nbrs w N (length r0) src src)) lm
  end.

(* ---------- heap situations met by decrease_key (search guidance and coverage statistics only) ----------
   class of a call decrease_key(i, nk) on heap h, by where node i sits:
     1 the minimum root        2 another root, nk below the minimum (must become min_root)
     3 another root, not below the minimum        4 a child, cut, below the minimum
     5 a child, cut, not below the minimum        6 a child that keeps its place (nk >= parent's key)
     0 not stored *)
Fixpoint pk_tree (i : Z) (t : tree) : option Z :=
  match t with
  | Node _ k _ cs =>
    (fix go (l : list tree) : option Z :=
       match l with
       | [] => None
       | c :: l' => if Z.eqb (t_idx c) i then Some k
                    else match pk_tree i c with Some r => Some r | None => go l' end
       end) cs
  end.

Fixpoint pk_forest (i : Z) (f : list tree) : option Z :=
  match f with
  | [] => None
  | t :: f' => match pk_tree i t with Some r => Some r | None => pk_forest i f' end
  end.

Definition dk_class (i nk : Z) (h : heap) : nat :=
  match h_roots h with
  | [] => 0%nat
  | m :: rest =>
    if Z.eqb (t_idx m) i then 1%nat
    else if existsb (fun t => Z.eqb (t_idx t) i) rest
         then (if Z.ltb nk (t_key m) then 2%nat else 3%nat)
         else match pk_forest i (h_roots h) with
              | Some pk => if Z.ltb nk pk then (if Z.ltb nk (t_key m) then 4%nat else 5%nat) else 6%nat
              | None => 0%nat
              end
  end.

Section EventsC.
  Variable nbrs : list (list nat).
  Variable w : nat -> nat -> Z.
  Variable N : nat.
  Variable K : nat.

  (* the decrease_key calls of one inner loop, classified on the heap they meet *)
  Fixpoint relax_events (u : nat) (ws : list nat) (st : cstate) : list nat :=
    match ws with
    | [] => []
    | v :: ws' =>
      match nth_error (c_s st) v with
      | Some false =>
        match nth_error (c_dist st) u, nth_error (c_dist st) v, nth_error (c_f st) v with
        | Some (Some du), Some dv, Some fv =>
          let nd := du + w u v in
          if lt_inf nd dv
          then if fv
               then dk_class (Z.of_nat v) nd (c_heap st) ::
                    relax_events u ws'
                      (mkC (upd (c_dist st) v (Some nd)) (c_s st) (c_f st)
                           (decrease_key (Z.of_nat v) nd (c_heap st)))
               else relax_events u ws'
                      (mkC (upd (c_dist st) v (Some nd)) (c_s st)
                           (upd (c_f st) v true) (insert (Z.of_nat v) nd (c_heap st)))
          else relax_events u ws' st
        | _, _, _ => relax_events u ws' st
        end
      | _ => relax_events u ws' st
      end
    end.

  Definition step_events (st : cstate) : list nat :=
    match extract_min (c_heap st) with
    | Ok (h', Some (i, _)) =>
      let u := Z.to_nat i in
      match nbr_row nbrs K u with
      | DOk ws => relax_events u ws (mkC (c_dist st) (upd (c_s st) u true) (upd (c_f st) u false) h')
      | _ => []
      end
    | _ => []
    end.

  Fixpoint loop_events (fuel : nat) (st : cstate) : list nat :=
    match fuel with
    | O => []
    | S fuel' =>
      match step_fibc nbrs w K st with
      | Some (DOk st') => step_events st ++ loop_events fuel' st'
      | _ => []
      end
    end.

  Definition row_events (src : nat) : list nat :=
    match init_c N src src with
    | DOk st0 => loop_events (fuel_of N K) st0
    | _ => []
    end.
End EventsC.

Definition full_events_fibc (nbrs : list (list nat)) (w : nat -> nat -> Z) (N : nat) : list nat :=
  match nbrs with
  | [] => []
  | r0 :: _ => flat_map (fun k => row_events nbrs w N (length r0) k) (seq 0 N)
  end.
