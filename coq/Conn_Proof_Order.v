(* Conn_Proof_Order.v — neither the decision nor the result of
   find_neighbors(..., check_connectivity = true) depends on the order of the samples or
   on which exact search produced the lists, when no sample sees two others at the same
   distance (tie-free data; with ties the exact k-NN lists themselves are not unique and
   the statement is about a fixed tie-breaking: cc_result_perm).

   Two searches: knn1 on the samples in their original order (metric dist), knn2 on the
   same samples supplied in the order p (new position v holds old sample nth v p, metric
   dist (nth v p) (nth u p)).  Both only assumed to return exact k-NN lists (property
   C02's conclusion) — they may be different algorithms, rows in any internal order.
   Then: same number of neighbours, and the same neighbour sets up to the renaming. *)
From Coq Require Import List Arith Bool ZArith Lia Permutation.
From TK Require Import Conn_Model Conn_Spec Conn_Proof_Graph Conn_Proof_Dfs
     Conn_Proof_Strong Conn_Proof_Warshall Conn_Proof Conn_Proof_Main.
Import ListNotations.

Lemma tie_free_b_sound : forall dist N, tie_free_b dist N = true -> tie_free dist N.
Proof.
  unfold tie_free_b, tie_free. intros dist N H i a b Hi Ha Hb Hai Hbi Hab.
  rewrite forallb_forall in H. specialize (H i). rewrite forallb_forall in H.
  assert (Hia : In i (seq 0 N)) by (apply in_seq; lia).
  specialize (H Hia a). rewrite forallb_forall in H.
  assert (Haa : In a (seq 0 N)) by (apply in_seq; lia).
  assert (Hbb : In b (seq 0 N)) by (apply in_seq; lia).
  specialize (H Haa b Hbb).
  destruct (a =? i) eqn:E1; [apply Nat.eqb_eq in E1; contradiction|].
  destruct (b =? i) eqn:E2; [apply Nat.eqb_eq in E2; contradiction|].
  destruct (a =? b) eqn:E3; [apply Nat.eqb_eq in E3; contradiction|].
  cbn in H. apply negb_true_iff in H. apply Z.eqb_neq in H. exact H.
Qed.

(* ------------------------------------------------------------ a row of an exact search
   is determined as a set when the metric is tie-free *)
Lemma not_incl_witness : forall (l1 l2 : list nat),
  ~ incl l1 l2 -> exists x, In x l1 /\ ~ In x l2.
Proof.
  induction l1 as [|h t IH]; intros l2 H.
  - exfalso. apply H. intros x [].
  - destruct (in_dec Nat.eq_dec h l2) as [Hin|Hnin].
    + destruct (IH l2) as [x [Hx Hn]].
      { intros Hi. apply H. intros x [->|Hx]; auto. }
      exists x. split; [right|]; auto.
    + exists h. split; [left|]; auto.
Qed.

Lemma knn_row_unique : forall dist N k i r1 r2,
  tie_free dist N -> i < N ->
  is_knn_row dist N k i r1 -> is_knn_row dist N k i r2 ->
  forall j, In j r1 -> In j r2.
Proof.
  intros dist N k i r1 r2 Htf Hi [L1 [ND1 [R1 M1]]] [L2 [ND2 [R2 M2]]] j Hj.
  destruct (in_dec Nat.eq_dec j r2) as [Hin|Hnin]; auto. exfalso.
  assert (Hni : ~ incl r2 r1).
  { intros Hincl.
    assert (Hrev : incl r1 r2) by (apply NoDup_length_incl; auto; lia).
    apply Hnin. apply Hrev. exact Hj. }
  destruct (not_incl_witness _ _ Hni) as [m [Hm2 Hm1]].
  destruct (R1 j Hj) as [HjN Hji]. destruct (R2 m Hm2) as [HmN Hmi].
  assert (A : (dist i j <= dist i m)%Z) by (apply M1; auto).
  assert (B : (dist i m <= dist i j)%Z) by (apply M2; auto).
  assert (Hjm : j <> m) by (intros ->; contradiction).
  apply (Htf i j m Hi HjN HmN Hji Hmi Hjm). lia.
Qed.

(* ------------------------------------------------------------ reachability only looks at
   the edge sets; transport along a renaming *)
Section Transport.
Variable N : nat.
Variable p : list nat.
Hypothesis Hp : is_perm N p.
Let gp (v : nat) : nat := nth v p 0.       (* new index -> old index *)
Let fp (x : nat) : nat := pos p x.         (* old index -> new index *)

Variables g1 g2 : graph.                    (* g1 over old indices, g2 over new ones *)
Hypothesis Hwf1 : wf_graph N g1.
Hypothesis Hwf2 : wf_graph N g2.
Hypothesis Hedges : forall v u, v < N -> u < N -> (edge g2 v u <-> edge g1 (gp v) (gp u)).

Lemma tr_gp_lt : forall v, v < N -> gp v < N.
Proof. intros v Hv. unfold gp. apply (rl_g_lt N p Hp); auto. Qed.
Lemma tr_fp_lt : forall x, x < N -> fp x < N.
Proof. intros x Hx. unfold fp. apply (rl_f_lt N p Hp); auto. Qed.
Lemma tr_fg : forall v, v < N -> fp (gp v) = v.
Proof. intros v Hv. unfold fp, gp. apply (rl_fg N p Hp); auto. Qed.
Lemma tr_gf : forall x, x < N -> gp (fp x) = x.
Proof. intros x Hx. unfold fp, gp. apply (rl_gf N p Hp); auto. Qed.

Lemma tr_reach_new_old : forall v u, reach g2 v u -> v < N -> reach g1 (gp v) (gp u).
Proof.
  intros v u H. induction H as [|v m u He Hr IH]; intros Hv.
  - apply reach_refl.
  - destruct (wf_edge N g2 v m Hwf2 He) as [_ Hm].
    eapply reach_step; [|apply IH; auto]. apply Hedges; auto.
Qed.

Lemma tr_reach_old_new : forall a b, reach g1 a b -> a < N -> reach g2 (fp a) (fp b).
Proof.
  intros a b H. induction H as [|a c b He Hr IH]; intros Ha.
  - apply reach_refl.
  - destruct (wf_edge N g1 a c Hwf1 He) as [_ Hc].
    eapply reach_step; [|apply IH; auto].
    apply Hedges; [apply tr_fp_lt; auto|apply tr_fp_lt; auto|].
    rewrite !tr_gf by auto. exact He.
Qed.

Lemma tr_strong : strongly_connected N g2 <-> strongly_connected N g1.
Proof.
  split; intros H i j Hi Hj.
  - rewrite <- (tr_gf i), <- (tr_gf j) by auto.
    apply tr_reach_new_old; [|apply tr_fp_lt; auto]. apply H; apply tr_fp_lt; auto.
  - rewrite <- (tr_fg i), <- (tr_fg j) by auto.
    apply tr_reach_old_new; [|apply tr_gp_lt; auto]. apply H; apply tr_gp_lt; auto.
Qed.
End Transport.

(* ------------------------------------------------------------ the exact lists of the
   reordered samples are the renamed exact lists of the original samples *)
Section Order.
Variable dist : nat -> nat -> Z.
Variable N : nat.
Variable p : list nat.
Hypothesis Htf : tie_free dist N.
Hypothesis Hp : is_perm N p.
Hypothesis HN : 1 <= N.
Let gp (v : nat) : nat := nth v p 0.
Let dist' (v u : nat) : Z := dist (gp v) (gp u).

Lemma ord_gp_inj : forall a b, a < N -> b < N -> gp a = gp b -> a = b.
Proof.
  intros a b Ha Hb E. rewrite <- (rl_fg N p Hp a Ha), <- (rl_fg N p Hp b Hb).
  unfold gp in E. rewrite E. reflexivity.
Qed.

Lemma map_gp_knn_row : forall k v row, v < N ->
  is_knn_row dist' N k v row -> is_knn_row dist N k (gp v) (map gp row).
Proof.
  intros k v row Hv [L [ND [R M]]]. split; [|split; [|split]].
  - rewrite map_length. exact L.
  - assert (Hlt : forall j, In j row -> j < N) by (intros j Hj; apply R; auto).
    clear L M R. induction row as [|h t IH]; cbn; [constructor|].
    inversion ND as [|? ? Hnin ND']; subst. constructor.
    + intros Hin. apply in_map_iff in Hin. destruct Hin as [y [Ey Hy]].
      apply ord_gp_inj in Ey; [|apply Hlt; right; auto|apply Hlt; left; auto].
      subst. contradiction.
    + apply IH; auto. intros j Hj. apply Hlt. right; auto.
  - intros j Hj. apply in_map_iff in Hj. destruct Hj as [y [<- Hy]].
    destruct (R y Hy) as [HyN Hyv]. split.
    + apply (rl_g_lt N p Hp); auto.
    + intros E. apply Hyv. apply ord_gp_inj; auto.
  - intros j m Hj Hm Hmi Hnin. apply in_map_iff in Hj. destruct Hj as [y [<- Hy]].
    set (m' := pos p m).
    assert (Hm' : m' < N) by (apply (rl_f_lt N p Hp); auto).
    assert (Egm : gp m' = m) by (apply (rl_gf N p Hp); auto).
    rewrite <- Egm.
    apply (M y m' Hy Hm').
    + intros E. apply Hmi. rewrite <- Egm, E. reflexivity.
    + intros Hin. apply Hnin. rewrite <- Egm. apply in_map. exact Hin.
Qed.

Variables g1 g2 : graph.
Variable k : nat.
Hypothesis H1 : is_knn_graph dist N k g1.
Hypothesis H2 : is_knn_graph dist' N k g2.

Lemma ord_edges : forall v u, v < N -> u < N -> (edge g2 v u <-> edge g1 (gp v) (gp u)).
Proof.
  intros v u Hv Hu. unfold edge.
  destruct H1 as [_ R1]. destruct H2 as [_ R2].
  assert (Hgv : gp v < N) by (apply (rl_g_lt N p Hp); auto).
  pose proof (map_gp_knn_row k v _ Hv (R2 v Hv)) as A.
  pose proof (R1 (gp v) Hgv) as B.
  split; intros H.
  - apply (knn_row_unique dist N k (gp v) _ _ Htf Hgv A B). apply in_map. exact H.
  - apply (knn_row_unique dist N k (gp v) _ _ Htf Hgv B A) in H.
    apply in_map_iff in H. destruct H as [y [Ey Hy]].
    assert (HyN : y < N) by (destruct (R2 v Hv) as [_ [_ [R _]]]; apply R; auto).
    apply ord_gp_inj in Ey; auto. subst; auto.
Qed.

Lemma ord_strong : strongly_connected N g2 <-> strongly_connected N g1.
Proof.
  apply (tr_strong N p Hp g1 g2).
  - eapply knn_graph_wf; eauto.
  - eapply knn_graph_wf; eauto.
  - exact ord_edges.
Qed.
End Order.

(* ------------------------------------------------------------ the statement *)
Lemma main_cc_order_independent : forall dist N knn1 knn2 p,
  tie_free dist N -> is_perm N p -> 1 <= N ->
  (forall k, k <= N - 1 -> is_knn_graph dist N k (knn1 k)) ->
  (forall k, k <= N - 1 ->
     is_knn_graph (fun v u => dist (nth v p 0) (nth u p 0)) N k (knn2 k)) ->
  forall k, 1 <= k ->
  exists k' g1 g2,
    find_neighbors is_connected_fixed knn1 N N k true = COk (k', g1) /\
    find_neighbors is_connected_fixed knn2 N N k true = COk (k', g2) /\
    forall v u, v < N -> u < N ->
      (In u (nth v g2 []) <-> In (nth u p 0) (nth (nth v p 0) g1 [])).
Proof.
  intros dist N knn1 knn2 p Htf Hp HN K1 K2 k Hk.
  destruct (main_cc_minimal dist knn1 N K1 HN k Hk) as [j1 [E1 [S1 M1]]].
  destruct (main_cc_minimal _ knn2 N K2 HN k Hk) as [j2 [E2 [S2 M2]]].
  assert (Heq : forall j, strongly_connected N (knn2 (kseq N k j)) <->
                          strongly_connected N (knn1 (kseq N k j))).
  { intros j. apply (ord_strong dist N p Htf Hp _ _ (kseq N k j)).
    - apply K1. apply kseq_le.
    - apply K2. apply kseq_le. }
  assert (Ej : j1 = j2).
  { destruct (Nat.lt_trichotomy j1 j2) as [Hlt|[He|Hgt]]; auto; exfalso.
    - apply (M2 j1 Hlt). apply Heq. exact S1.
    - apply (M1 j2 Hgt). apply Heq. exact S2. }
  subst j2.
  exists (kseq N k j1), (knn1 (kseq N k j1)), (knn2 (kseq N k j1)).
  split; auto. split; auto.
  intros v u Hv Hu.
  apply (ord_edges dist N p Htf Hp _ _ (kseq N k j1)); auto.
  - apply K1. apply kseq_le.
  - apply K2. apply kseq_le.
Qed.

(* p = identity: two different exact searches on the same samples (brute force, VP-tree,
   cover tree) end with the same number of neighbours and the same neighbour sets *)
Lemma nth_seq0 : forall N v, v < N -> nth v (seq 0 N) 0 = v.
Proof. intros N v Hv. rewrite seq_nth by auto. reflexivity. Qed.

Lemma main_cc_method_independent : forall dist N knn1 knn2,
  tie_free dist N -> 1 <= N ->
  (forall k, k <= N - 1 -> is_knn_graph dist N k (knn1 k)) ->
  (forall k, k <= N - 1 -> is_knn_graph dist N k (knn2 k)) ->
  forall k, 1 <= k ->
  exists k' g1 g2,
    find_neighbors is_connected_fixed knn1 N N k true = COk (k', g1) /\
    find_neighbors is_connected_fixed knn2 N N k true = COk (k', g2) /\
    forall v u, v < N -> u < N -> (In u (nth v g2 []) <-> In u (nth v g1 [])).
Proof.
  intros dist N knn1 knn2 Htf HN K1 K2 k Hk.
  destruct (main_cc_minimal dist knn1 N K1 HN k Hk) as [j1 [E1 [S1 M1]]].
  destruct (main_cc_minimal dist knn2 N K2 HN k Hk) as [j2 [E2 [S2 M2]]].
  assert (Hrows : forall kk v u, kk <= N - 1 -> v < N ->
            (In u (nth v (knn2 kk) []) <-> In u (nth v (knn1 kk) []))).
  { intros kk v u Hkk Hv. destruct (K1 kk Hkk) as [_ R1]. destruct (K2 kk Hkk) as [_ R2].
    split; apply (knn_row_unique dist N kk v _ _ Htf Hv); auto. }
  assert (Hreach : forall kk, kk <= N - 1 -> forall a b,
            reach (knn2 kk) a b <-> reach (knn1 kk) a b).
  { intros kk Hkk a b. split; intros H; induction H as [|a c b He Hr IH];
      try apply reach_refl; eapply reach_step; eauto.
    - destruct (wf_edge N (knn2 kk) a c (knn_graph_wf _ _ _ _ (K2 kk Hkk)) He) as [Ha' _].
      apply Hrows; auto.
    - destruct (wf_edge N (knn1 kk) a c (knn_graph_wf _ _ _ _ (K1 kk Hkk)) He) as [Ha' _].
      apply Hrows; auto. }
  assert (Heq : forall j, strongly_connected N (knn2 (kseq N k j)) <->
                          strongly_connected N (knn1 (kseq N k j))).
  { intros j. split; intros H a b Ha Hb; apply Hreach; auto; apply kseq_le. }
  assert (Ej : j1 = j2).
  { destruct (Nat.lt_trichotomy j1 j2) as [Hlt|[He|Hgt]]; auto; exfalso.
    - apply (M2 j1 Hlt). apply Heq. exact S1.
    - apply (M1 j2 Hgt). apply Heq. exact S2. }
  subst j2.
  exists (kseq N k j1), (knn1 (kseq N k j1)), (knn2 (kseq N k j1)).
  split; auto. split; auto.
  intros v u Hv Hu. apply Hrows; auto. apply kseq_le.
Qed.

(* ------------------------------------------------------------ non-vacuity: eight tie-free
   samples on a line (sparse chain into a dense cluster), supplied forwards and backwards,
   the reference search on each *)
Definition t8_pts : list (Z * Z) :=
  [(0, 0); (100, 0); (210, 0); (330, 0); (331, 0); (333, 0); (337, 0); (345, 0)]%Z.

Lemma nv_order :
  tie_free (pdist t8_pts) 8 /\ is_perm 8 w8_rev /\ 1 <= 8 /\
  (forall k, k <= 8 - 1 -> is_knn_graph (pdist t8_pts) 8 k (knn_brute t8_pts k)) /\
  (forall k, k <= 8 - 1 ->
     is_knn_graph (fun v u => pdist t8_pts (nth v w8_rev 0) (nth u w8_rev 0)) 8 k
                  (knn_brute (rev t8_pts) k)) /\
  find_neighbors is_connected_fixed (knn_brute t8_pts) 8 8 3 true = COk (6, knn_brute t8_pts 6) /\
  find_neighbors is_connected_fixed (knn_brute (rev t8_pts)) 8 8 3 true
  = COk (6, knn_brute (rev t8_pts) 6).
Proof.
  split; [apply tie_free_b_sound; vm_compute; reflexivity|].
  split.
  { unfold is_perm, w8_rev. apply Permutation_sym.
    change [7; 6; 5; 4; 3; 2; 1; 0] with (rev (seq 0 8)). apply Permutation_rev. }
  split; [lia|].
  split; [intros k Hk; apply knn_all_b_sound; [vm_compute; reflexivity|auto|lia]|].
  split; [intros k Hk; apply knn_all_b_sound; [vm_compute; reflexivity|auto|lia]|].
  split; vm_compute; reflexivity.
Qed.

(* ------------------------------------------------------------ tie_free is necessary.
   Five DISTINCT samples on a line at 0,1,2,3,6 (sample 1 sees 0 and 2 at the same
   distance, ...), requested k = 3 (the smallest the library accepts).  Both searches below
   return exact 3-NN lists; they differ only in which of two equidistant samples they keep
   (the reference search keeps the one supplied first).  Supplied forwards the 3-graph is not
   strongly connected and 4 neighbours are returned; supplied backwards it is, and 3 are
   returned.  So with ties the decision depends on how the search breaks them, hence on the
   order of the samples: no statement of order independence can hold for "any exact search"
   on tied data. *)
Definition tied5_pts : list (Z * Z) := [(0, 0); (1, 0); (2, 0); (3, 0); (6, 0)]%Z.
Definition tied5_rev : list nat := [4; 3; 2; 1; 0].

Lemma main_cc_ties_order_refuted :
  exists pts p k,
    let N := length pts in
    NoDup pts /\ is_perm N p /\ 3 <= k /\ k <= N - 1 /\
    (forall k', k' <= N - 1 -> is_knn_graph (pdist pts) N k' (knn_brute pts k')) /\
    (forall k', k' <= N - 1 ->
       is_knn_graph (fun v u => pdist pts (nth v p 0) (nth u p 0)) N k' (knn_brute (rev pts) k')) /\
    exists k1 k2 g1 g2, k1 <> k2 /\
      find_neighbors is_connected_fixed (knn_brute pts) N N k true = COk (k1, g1) /\
      find_neighbors is_connected_fixed (knn_brute (rev pts)) N N k true = COk (k2, g2).
Proof.
  exists tied5_pts, tied5_rev, 3. cbv zeta. change (length tied5_pts) with 5.
  split.
  { unfold tied5_pts. repeat constructor; cbn; intuition congruence. }
  split.
  { unfold is_perm, tied5_rev. apply Permutation_sym.
    change [4; 3; 2; 1; 0] with (rev (seq 0 5)). apply Permutation_rev. }
  split; [lia|]. split; [lia|].
  split; [intros k Hk; apply knn_all_b_sound; [vm_compute; reflexivity|auto|lia]|].
  split; [intros k Hk; apply knn_all_b_sound; [vm_compute; reflexivity|auto|lia]|].
  exists 4, 3, (knn_brute tied5_pts 4), (knn_brute (rev tied5_pts) 3).
  split; [lia|]. split; vm_compute; reflexivity.
Qed.
