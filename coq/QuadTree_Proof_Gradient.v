(* QuadTree_Proof_Gradient.v — the loop of tsne.hpp (computeGradient, evaluateError) over one tree with a
   shared normalisation sum: at theta = 0 without coincident points every row of neg_f is the exact
   all-pairs force on that point and the final sum_Q is the sum over ALL ordered pairs i <> j of q_ij;
   for 8 theta^2 <= 1 the total stays within (9 theta + 8 theta^2) of it. *)
From Coq Require Import List Arith Bool ZArith QArith Permutation Lia Lqa.
From TK Require Import QuadTree_Model QuadTree_Spec QuadTree_SpecExec QuadTree_Proof_Base
                       QuadTree_Proof_Insert QuadTree_Proof_Main QuadTree_Proof_Forces QuadTree_Proof_Bound.
Import ListNotations.
Local Open Scope Q_scope.

(* sum over the rows ns of the exact normalisation sums *)
Fixpoint total_sq (data : list pt) (order : list nat) (ns : list nat) : Q :=
  match ns with
  | [] => 0
  | n :: r => snd (exact_sums data (pt_at data n) n order) + total_sq data order r
  end.

(* rows of exact forces *)
Fixpoint rows_ok (data : list pt) (order : list nat) (ns : list nat) (l : list (Q * Q)) : Prop :=
  match ns, l with
  | [], [] => True
  | n :: r, (f0, f1) :: l' =>
    f0 == fst (fst (exact_sums data (pt_at data n) n order)) /\
    f1 == snd (fst (exact_sums data (pt_at data n) n order)) /\ rows_ok data order r l'
  | _, _ => False
  end.

Theorem nonedge_loop_theta0_gen : forall fx fuel data order root ok t,
  (forall i, In i order -> inside data root i) ->
  NoCo data order ->
  fill_order fx fuel data order (init root) = Done ok t ->
  forall ns sq, (forall n, In n ns -> (n < length data)%nat) ->
    exists l s, nonedge_loop data 0 t ns sq = Some (l, s) /\
                rows_ok data order ns l /\ s == sq + total_sq data order ns.
Proof.
  intros fx fuel data order root ok t Hin HN E ns.
  induction ns as [|n r IH]; intros sq Hv.
  - exists [], sq. cbn. repeat split; try reflexivity. lra.
  - assert (Hn : (n < length data)%nat) by (apply Hv; left; reflexivity).
    destruct (nth_error data n) as [p|] eqn:Hp; [|apply nth_error_None in Hp; lia].
    destruct (forces_theta0_gen fx fuel data order root ok t Hin HN E n p (0, 0, sq) Hp) as (res & Er & Fe).
    cbn [nonedge_loop]. rewrite Er. destruct res as [[f0 f1] sq'].
    destruct (IH sq') as (l & s & El & Rl & Es); [intros k Hk; apply Hv; right; exact Hk|].
    rewrite El. exists ((f0, f1) :: l), s. split; [reflexivity|].
    destruct Fe as (A & B & C). unfold fadd in A, B, C. cbn [fst snd] in A, B, C.
    split.
    + cbn [rows_ok]. rewrite (pt_at_nth_error _ _ _ Hp). repeat split; [rewrite A; ring | rewrite B; ring | exact Rl].
    + cbn [total_sq]. rewrite (pt_at_nth_error _ _ _ Hp). rewrite Es, C. ring.
Qed.

Theorem nonedge_loop_bound_gen : forall fx fuel data order root ok t,
  (forall i, In i order -> inside data root i) ->
  NoCo data order ->
  fill_order fx fuel data order (init root) = Done ok t ->
  forall theta, 0 <= theta -> 8 * (theta * theta) <= 1 ->
  forall ns sq, (forall n, In n ns -> (n < length data)%nat) ->
    exists l s, nonedge_loop data theta t ns sq = Some (l, s) /\ length l = length ns /\
                -(epsf theta * total_sq data order ns) <= s - (sq + total_sq data order ns) /\
                s - (sq + total_sq data order ns) <= epsf theta * total_sq data order ns.
Proof.
  intros fx fuel data order root ok t Hin HN E theta Ht Ht8 ns.
  induction ns as [|n r IH]; intros sq Hv.
  - exists [], sq. cbn. repeat split; try reflexivity; lra.
  - assert (Hn : (n < length data)%nat) by (apply Hv; left; reflexivity).
    destruct (nth_error data n) as [p|] eqn:Hp; [|apply nth_error_None in Hp; lia].
    destruct (forces_error_bound_gen fx fuel data order root ok t Hin HN E theta Ht Ht8 n p (0, 0, sq) Hp)
      as (res & r0 & Er & Fe & Hb).
    cbn [nonedge_loop]. rewrite Er. destruct res as [[f0 f1] sq'].
    destruct (IH sq') as (l & s & El & Ll & B1 & B2); [intros k Hk; apply Hv; right; exact Hk|].
    rewrite El. exists ((f0, f1) :: l), s. split; [reflexivity|]. split; [cbn [length]; congruence|].
    destruct Fe as (_ & _ & C). destruct r0 as [[g0 g1] gs]. unfold fadd in C. cbn [fst snd] in C.
    destruct Hb as ((S1 & S2) & _). cbn [fst snd] in S1, S2.
    cbn [total_sq]. rewrite (pt_at_nth_error _ _ _ Hp).
    set (es := snd (exact_sums data p n order)) in *. set (T := total_sq data order r) in *.
    assert (D1 : epsf theta * (es + T) == epsf theta * es + epsf theta * T) by ring.
    split; lra.
Qed.
