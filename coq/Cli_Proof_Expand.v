(* ====================================================================== *)
(*  Cli_Proof_Expand.v — why "--precompute changes nothing but speed"      *)
(*  needs the table to hold the CALLBACK's values and not an algebraically *)
(*  equal expression:                                                      *)
(*   * over exact arithmetic (Z = dyadic doubles scaled) the Gram-identity *)
(*     table |a|^2 + |b|^2 - 2<a,b> (clamped at 0, zero diagonal) IS the   *)
(*     direct table, for all data: no exact-arithmetic model, and no data  *)
(*     on which binary64 is exact, can tell the two apart;                 *)
(*   * in binary64 it is not: two samples at distance 1 near 2^27 (and     *)
(*     near 1e8 in three dimensions) get the tabulated distance 0, and a   *)
(*     cloud a few units across at (3e7,3e7,3e7) gets distances that are   *)
(*     off in the third digit (the seeded change C20_3).                   *)
(* ====================================================================== *)
From Coq Require Import List Arith Bool Lia ZArith Floats.
From TK Require Import Cli_Model Cli_Proof_Pre Cli_Float_Model.
Import ListNotations.

Local Open Scope Z_scope.

Definition expandedZ (u v : list Z) : Z := Z.max 0 ((-2 * dotZ u v + dotZ u u) + dotZ v v).

Definition expanded_tableZ (S : Type) (sqrt_oracle : Z -> S) (zero : S) (X : nat -> list Z) (a b : nat) : S :=
  if Nat.eqb a b then zero else sqrt_oracle (expandedZ (X a) (X b)).

Lemma sqdistZ_nonneg : forall u v, 0 <= sqdistZ u v.
Proof.
  induction u as [|x u IH]; destruct v as [|y v]; cbn [sqdistZ]; try lia.
  specialize (IH v). pose proof (Z.square_nonneg (x - y)) as Hsq. lia.
Qed.

Lemma sqdistZ_diag : forall u, sqdistZ u u = 0.
Proof.
  induction u as [|x u IH]; cbn [sqdistZ]; [reflexivity|]. rewrite IH. ring.
Qed.

Lemma gram_identity : forall u v, length u = length v ->
  (-2 * dotZ u v + dotZ u u) + dotZ v v = sqdistZ u v.
Proof.
  induction u as [|x u IH]; destruct v as [|y v]; intro Hlen; cbn [dotZ sqdistZ]; try reflexivity;
    try discriminate Hlen.
  injection Hlen as Hlen. specialize (IH v Hlen). lia.
Qed.

Lemma expandedZ_sqdist : forall u v, length u = length v -> expandedZ u v = sqdistZ u v.
Proof.
  intros u v Hlen. unfold expandedZ. rewrite gram_identity by exact Hlen.
  apply Z.max_r. apply sqdistZ_nonneg.
Qed.

(* exact arithmetic: the expanded table holds the direct callback's values, diagonal included *)
Theorem expanded_table_exact_same :
  forall (S : Type) (sqrt_oracle : Z -> S) (zero : S) (X : nat -> list Z),
  sqrt_oracle 0 = zero ->
  (forall i j, length (X i) = length (X j)) ->
  forall a b, expanded_tableZ S sqrt_oracle zero X a b = sqrt_oracle (sqdistZ (X a) (X b)).
Proof.
  intros S sqrt_oracle zero X Hzero Hlen a b. unfold expanded_tableZ.
  destruct (Nat.eqb a b) eqn:E.
  - apply Nat.eqb_eq in E. subst b. rewrite sqdistZ_diag. symmetry. exact Hzero.
  - f_equal. apply expandedZ_sqdist. apply Hlen.
Qed.

(* hence also what matrix_from_callback tabulates from the direct callback *)
Theorem expanded_table_exact_precomputed :
  forall (S : Type) (sqrt_oracle : Z -> S) (zero : S) (X : nat -> list Z) (N a b : nat),
  sqrt_oracle 0 = zero ->
  (forall i j, length (X i) = length (X j)) ->
  (a < N)%nat -> (b < N)%nat ->
  precomputed S (fun a b => sqrt_oracle (sqdistZ (X a) (X b))) true N a b
  = Some (expanded_tableZ S sqrt_oracle zero X a b).
Proof.
  intros S sqrt_oracle zero X N a b Hzero Hlen Ha Hb.
  rewrite precompute_distance_same by assumption.
  f_equal. symmetry. apply expanded_table_exact_same; assumption.
Qed.

Example expanded_table_exact_same_nonvacuous :
  Z.sqrt 0 = 0 /\ (forall i j : nat, length ((fun _ => [3; 4]) i) = length ((fun _ => [3; 4]) j)).
Proof. split; reflexivity. Qed.

Example expanded_table_exact_precomputed_nonvacuous :
  Z.sqrt 0 = 0 /\ (forall i j : nat, length ((fun _ => [3; 4]) i) = length ((fun _ => [3; 4]) j)) /\
  (0 < 2)%nat /\ (1 < 2)%nat.
Proof. repeat split; auto. Qed.

(* ---- binary64 ---- *)
Local Open Scope float_scope.

Definition w1 (i : nat) : list float := match i with O => [134217729] | _ => [134217728] end.   (* 2^27+1, 2^27 *)
Definition w3 (i : nat) : list float :=
  match i with O => [100000001; 100000000; 100000000] | _ => [100000000; 100000000; 100000000] end.
Definition w7 (i : nat) : list float :=
  match i with O => [30000003; 30000000; 30000002.5] | _ => [30000000; 30000004; 30000000] end.

(* distinct samples at distance exactly 1: the direct table says 1 (both orders), the expanded table says 0 *)
Theorem expanded_table_binary64_refuted_witness :
  direct_table w1 0 1 = 1 /\ direct_table w1 1 0 = 1 /\ expanded_table w1 0 1 = 0 /\
  direct_table w3 0 1 = 1 /\ expanded_table w3 0 1 = 0 /\
  direct_table w7 0 1 = 0x1.65c55827df1d2p+2 /\ expanded_table w7 0 1 = 0x1.645640568c1c3p+2.
Proof. repeat split; vm_compute; reflexivity. Qed.
