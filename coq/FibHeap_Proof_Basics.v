(* FibHeap_Proof_Basics.v — induction principle for rose trees, unfolding lemmas
   for the nested fixpoints of FibHeap_Model.v, association-list facts, the
   invariant Inv and the abstraction abs. *)
From Coq Require Import List ZArith Bool Lia Permutation Arith.
From TK Require Import FibHeap_Model.
Import ListNotations.
Local Open Scope Z_scope.

(* ---------- induction over rose trees ---------- *)
Section TreeInd.
  Variable P : tree -> Prop.
  Hypothesis HNode : forall i k m cs, Forall P cs -> P (Node i k m cs).
  Fixpoint tree_ind' (t : tree) : P t :=
    match t with
    | Node i k m cs =>
      HNode i k m cs
        ((fix go (l : list tree) : Forall P l :=
            match l with
            | [] => Forall_nil P
            | c :: l' => Forall_cons c (tree_ind' c) (go l')
            end) cs)
    end.
End TreeInd.

(* ---------- unfolding lemmas ---------- *)
Lemma tree_size_eq : forall i k m cs, tree_size (Node i k m cs) = S (forest_size cs).
Proof.
  intros i k m cs. reflexivity.
Qed.

Lemma tree_items_eq : forall i k m cs, tree_items (Node i k m cs) = (i, k) :: forest_items cs.
Proof.
  intros i k m cs. reflexivity.
Qed.

Lemma tree_find_eq : forall i j k m cs,
  tree_find i (Node j k m cs) = if Z.eqb i j then Some (Node j k m cs) else forest_find i cs.
Proof.
  intros i j k m cs. cbn [tree_find]. destruct (Z.eqb i j); [reflexivity|].
  induction cs as [|c cs IH]; [reflexivity|].
  cbn [forest_find]. rewrite <- IH. reflexivity.
Qed.

Lemma tree_eta : forall t, t = Node (t_idx t) (t_key t) (t_marked t) (t_children t).
Proof. destruct t; reflexivity. Qed.

Lemma forest_items_app : forall f g, forest_items (f ++ g) = forest_items f ++ forest_items g.
Proof.
  induction f as [|t f IH]; intros g; cbn [forest_items app]; [reflexivity|].
  rewrite IH, app_assoc. reflexivity.
Qed.

Lemma forest_size_app : forall f g, forest_size (f ++ g) = (forest_size f + forest_size g)%nat.
Proof.
  induction f as [|t f IH]; intros g; cbn [forest_size app]; [reflexivity|].
  rewrite IH. lia.
Qed.

Lemma tree_size_items : forall t, tree_size t = length (tree_items t).
Proof.
  induction t as [i k m cs IH] using tree_ind'.
  rewrite tree_size_eq, tree_items_eq. cbn [length]. f_equal.
  induction IH as [|c cs Hc _ IHcs]; [reflexivity|].
  cbn [forest_size forest_items]. rewrite app_length. congruence.
Qed.

Lemma forest_size_items : forall f, forest_size f = length (forest_items f).
Proof.
  induction f as [|t f IH]; [reflexivity|].
  cbn [forest_size forest_items]. rewrite app_length, tree_size_items. congruence.
Qed.

Lemma forest_items_perm : forall f g, Permutation f g -> Permutation (forest_items f) (forest_items g).
Proof.
  intros f g H. induction H as [|t f g H IH|t u f|f g h H1 IH1 H2 IH2].
  - constructor.
  - cbn [forest_items]. apply Permutation_app_head. exact IH.
  - cbn [forest_items]. rewrite !app_assoc. apply Permutation_app_tail. apply Permutation_app_comm.
  - eapply Permutation_trans; eassumption.
Qed.

Lemma forest_size_perm : forall f g, Permutation f g -> forest_size f = forest_size g.
Proof.
  intros f g H. rewrite !forest_size_items. apply Permutation_length. apply forest_items_perm. exact H.
Qed.

Lemma Forall_perm : forall (A : Type) (P : A -> Prop) (l l' : list A),
  Permutation l l' -> Forall P l -> Forall P l'.
Proof.
  intros A P l l' H HF. rewrite Forall_forall in *. intros x Hx. apply HF.
  eapply Permutation_in; [apply Permutation_sym; exact H|exact Hx].
Qed.

Lemma tree_items_head : forall t, exists l, tree_items t = (t_idx t, t_key t) :: l.
Proof. destruct t as [i k m cs]. rewrite tree_items_eq. eexists. reflexivity. Qed.

(* ---------- indices ---------- *)
Definition tree_idxs (t : tree) : list Z := map fst (tree_items t).
Definition forest_idxs (f : list tree) : list Z := map fst (forest_items f).

Lemma forest_idxs_cons : forall t f, forest_idxs (t :: f) = tree_idxs t ++ forest_idxs f.
Proof. intros. unfold forest_idxs, tree_idxs. cbn [forest_items]. apply map_app. Qed.

Lemma forest_idxs_app : forall f g, forest_idxs (f ++ g) = forest_idxs f ++ forest_idxs g.
Proof. intros. unfold forest_idxs. rewrite forest_items_app. apply map_app. Qed.

Lemma tree_idxs_eq : forall i k m cs, tree_idxs (Node i k m cs) = i :: forest_idxs cs.
Proof. intros. unfold tree_idxs, forest_idxs. rewrite tree_items_eq. reflexivity. Qed.

Lemma forest_idxs_perm : forall f g, Permutation f g -> Permutation (forest_idxs f) (forest_idxs g).
Proof. intros. unfold forest_idxs. apply Permutation_map. apply forest_items_perm. assumption. Qed.

Lemma root_idx_in : forall t f, In t f -> In (t_idx t) (forest_idxs f).
Proof.
  intros t f H. induction f as [|u f IH]; [contradiction|].
  rewrite forest_idxs_cons. apply in_or_app. destruct H as [->|H].
  - left. destruct t as [i k m cs]. rewrite tree_idxs_eq. left. reflexivity.
  - right. auto.
Qed.

Lemma root_item_in : forall t f, In t f -> In (t_idx t, t_key t) (forest_items f).
Proof.
  intros t f H. induction f as [|u f IH]; [contradiction|].
  cbn [forest_items]. apply in_or_app. destruct H as [->|H].
  - left. destruct t as [i k m cs]. rewrite tree_items_eq. left. reflexivity.
  - right. auto.
Qed.

(* ---------- find ---------- *)
Lemma find_none : forall i,
  (forall t, tree_find i t = None -> ~ In i (tree_idxs t)).
Proof.
  intros i t. induction t as [j k m cs IH] using tree_ind'.
  rewrite tree_find_eq, tree_idxs_eq. destruct (Z.eqb_spec i j) as [E|E]; [discriminate|].
  intros H [Hin|Hin]; [congruence|]. revert H Hin.
  induction IH as [|c cs Hc _ IHcs]; [intros _ []|].
  cbn [forest_find]. rewrite forest_idxs_cons. destruct (tree_find i c) eqn:Ec; [discriminate|].
  intros H Hin. apply in_app_or in Hin. destruct Hin as [Hin|Hin]; [exact (Hc eq_refl Hin)|exact (IHcs H Hin)].
Qed.

Lemma forest_find_none : forall i f, forest_find i f = None -> ~ In i (forest_idxs f).
Proof.
  intros i f. induction f as [|t f IH]; [intros _ []|].
  cbn [forest_find]. rewrite forest_idxs_cons. destruct (tree_find i t) eqn:Et; [discriminate|].
  intros H Hin. apply in_app_or in Hin. destruct Hin as [Hin|Hin]; [exact (find_none i t Et Hin)|exact (IH H Hin)].
Qed.

Lemma find_some : forall i t n, tree_find i t = Some n -> t_idx n = i /\ In (i, t_key n) (tree_items t).
Proof.
  intros i t. induction t as [j k m cs IH] using tree_ind'. intros n.
  rewrite tree_find_eq, tree_items_eq. destruct (Z.eqb_spec i j) as [E|E].
  - intros H. inversion H; subst. cbn. auto.
  - intros H. cut (t_idx n = i /\ In (i, t_key n) (forest_items cs)).
    { intros [H1 H2]; split; [exact H1|right; exact H2]. }
    revert H. induction IH as [|c cs Hc _ IHcs]; [discriminate|].
    cbn [forest_find forest_items]. destruct (tree_find i c) eqn:Ec.
    + intros H; inversion H; subst. destruct (Hc _ eq_refl) as [H1 H2].
      split; [exact H1|apply in_or_app; left; exact H2].
    + intros H. destruct (IHcs H) as [H1 H2]. split; [exact H1|apply in_or_app; right; exact H2].
Qed.

Lemma forest_find_some : forall i f n, forest_find i f = Some n ->
  t_idx n = i /\ In (i, t_key n) (forest_items f).
Proof.
  intros i f. induction f as [|t f IH]; intros n; [discriminate|].
  cbn [forest_find forest_items]. destruct (tree_find i t) eqn:Et.
  - intros H; inversion H; subst. destruct (find_some _ _ _ Et) as [H1 H2].
    split; [exact H1|apply in_or_app; left; exact H2].
  - intros H. destruct (IH _ H) as [H1 H2]. split; [exact H1|apply in_or_app; right; exact H2].
Qed.

(* ---------- association lists ---------- *)
Definition agree (m1 m2 : amap) : Prop := forall j, a_get j m1 = a_get j m2.

Lemma a_get_none : forall m i, a_get i m = None <-> ~ In i (map fst m).
Proof.
  induction m as [|[j k] m IH]; intros i; cbn [a_get map fst In].
  - tauto.
  - destruct (Z.eqb_spec i j) as [E|E].
    + split; [discriminate|]. intros H; exfalso; apply H; left; congruence.
    + rewrite IH. split; [intros H [H1|H1]; [congruence|auto]|intros H H1; apply H; right; exact H1].
Qed.

Lemma a_get_some_in : forall m i k, a_get i m = Some k -> In (i, k) m.
Proof.
  induction m as [|[j kj] m IH]; intros i k; cbn [a_get In]; [discriminate|].
  destruct (Z.eqb_spec i j) as [E|E].
  - intros H; inversion H; subst. left; reflexivity.
  - intros H. right. auto.
Qed.

Lemma in_fst : forall (m : amap) i k, In (i, k) m -> In i (map fst m).
Proof. intros m i k H. change i with (fst (i, k)). apply in_map. exact H. Qed.

Lemma a_get_in : forall m i k, NoDup (map fst m) -> In (i, k) m -> a_get i m = Some k.
Proof.
  induction m as [|[j kj] m IH]; intros i k Hnd Hin; [contradiction|].
  cbn [a_get]. cbn [map fst] in Hnd. inversion Hnd as [|? ? Hnot Hnd']; subst.
  destruct Hin as [Hin|Hin].
  - inversion Hin; subst. rewrite Z.eqb_refl. reflexivity.
  - destruct (Z.eqb_spec i j) as [E|E].
    + subst. exfalso. apply Hnot. eapply in_fst; eassumption.
    + auto.
Qed.

Lemma a_get_perm : forall m m', NoDup (map fst m) -> Permutation m m' -> agree m m'.
Proof.
  intros m m' Hnd Hp j.
  assert (Hnd' : NoDup (map fst m')).
  { eapply Permutation_NoDup; [apply Permutation_map; exact Hp|exact Hnd]. }
  destruct (a_get j m) as [k|] eqn:E.
  - symmetry. apply a_get_in; [exact Hnd'|]. eapply Permutation_in; [exact Hp|].
    apply a_get_some_in; exact E.
  - symmetry. apply a_get_none. apply a_get_none in E. intros H. apply E.
    eapply Permutation_in; [apply Permutation_sym; apply Permutation_map; exact Hp|exact H].
Qed.

Lemma a_get_remove : forall m i j, a_get j (a_remove i m) = if Z.eqb j i then None else a_get j m.
Proof.
  induction m as [|[a k] m IH]; intros i j; cbn [a_get a_remove].
  - destruct (Z.eqb j i); reflexivity.
  - destruct (Z.eqb_spec i a) as [E|E].
    + rewrite IH. destruct (Z.eqb_spec j i) as [E1|E1]; [reflexivity|].
      destruct (Z.eqb_spec j a) as [E2|E2]; [congruence|reflexivity].
    + cbn [a_get]. rewrite IH. destruct (Z.eqb_spec j a) as [E2|E2]; [|reflexivity].
      destruct (Z.eqb_spec j i) as [E1|E1]; [congruence|reflexivity].
Qed.

Lemma a_get_set : forall m i k j, a_get j (a_set i k m) = if Z.eqb j i then Some k else a_get j m.
Proof.
  intros. unfold a_set. cbn [a_get]. rewrite a_get_remove. destruct (Z.eqb j i); reflexivity.
Qed.

Lemma a_remove_fst_in : forall m i j, In j (map fst (a_remove i m)) -> In j (map fst m) /\ j <> i.
Proof.
  induction m as [|[a k] m IH]; intros i j; cbn [a_remove map fst]; [intros []|].
  destruct (Z.eqb_spec i a) as [E|E].
  - intros H. destruct (IH _ _ H). split; [right; assumption|assumption].
  - cbn [map fst In]. intros [H|H]; [subst; split; [left; reflexivity|congruence]|].
    destruct (IH _ _ H). split; [right; assumption|assumption].
Qed.

Lemma a_remove_nodup : forall m i, NoDup (map fst m) -> NoDup (map fst (a_remove i m)).
Proof.
  induction m as [|[a k] m IH]; intros i H; cbn [a_remove map fst]; [constructor|].
  cbn [map fst] in H. inversion H as [|? ? Hn Hd]; subst.
  destruct (Z.eqb i a); [auto|]. cbn [map fst]. constructor; [|auto].
  intros Hin. apply a_remove_fst_in in Hin. tauto.
Qed.

(* two duplicate-free association lists that agree as maps are permutations *)
Lemma agree_incl : forall m m', NoDup (map fst m) -> NoDup (map fst m') -> agree m m' -> incl m m'.
Proof.
  intros m m' H1 H2 Ha [i k] Hin. apply a_get_some_in. rewrite <- Ha. apply a_get_in; assumption.
Qed.

Lemma NoDup_fst_NoDup : forall (m : amap), NoDup (map fst m) -> NoDup m.
Proof.
  induction m as [|[a k] m IH]; intros H; [constructor|].
  cbn [map fst] in H. inversion H as [|? ? Hn Hd]; subst. constructor; [|auto].
  intros Hin. apply Hn. eapply in_fst; eassumption.
Qed.

Lemma agree_length : forall m m', NoDup (map fst m) -> NoDup (map fst m') -> agree m m' ->
  length m = length m'.
Proof.
  intros m m' H1 H2 Ha. apply Nat.le_antisymm.
  - apply NoDup_incl_length; [apply NoDup_fst_NoDup; exact H1|apply agree_incl; assumption].
  - apply NoDup_incl_length; [apply NoDup_fst_NoDup; exact H2|].
    apply agree_incl; try assumption. intros j; symmetry; apply Ha.
Qed.

(* ---------- the degree measure ---------- *)
Definition eff (c : tree) : nat := (t_rank c + (if t_marked c then 1 else 0))%nat.

Fixpoint cnt (n : nat) (l : list tree) : nat :=
  match l with
  | [] => O
  | c :: l' => ((if Nat.ltb (eff c) n then 1 else 0) + cnt n l')%nat
  end.

Definition deg_ok (l : list tree) : Prop := forall n, (cnt n l <= n)%nat.

Lemma cnt_app : forall n l1 l2, cnt n (l1 ++ l2) = (cnt n l1 + cnt n l2)%nat.
Proof. induction l1 as [|c l1 IH]; intros l2; cbn [cnt app]; [reflexivity|]. rewrite IH. lia. Qed.

Lemma cnt_perm : forall n l l', Permutation l l' -> cnt n l = cnt n l'.
Proof.
  intros n l l' H. induction H; cbn [cnt]; lia.
Qed.

Lemma cnt_le_length : forall n l, (cnt n l <= length l)%nat.
Proof. induction l as [|c l IH]; cbn [cnt length]; [lia|]. destruct (Nat.ltb (eff c) n); lia. Qed.

Lemma deg_ok_perm : forall l l', Permutation l l' -> deg_ok l -> deg_ok l'.
Proof. intros l l' H Hd n. rewrite <- (cnt_perm n _ _ H). apply Hd. Qed.

Lemma deg_ok_nil : deg_ok [].
Proof. intros n. cbn. lia. Qed.

(* removing a child *)
Lemma deg_ok_remove : forall l1 c l2, deg_ok (l1 ++ c :: l2) -> deg_ok (l1 ++ l2).
Proof.
  intros l1 c l2 H n. specialize (H n). rewrite cnt_app in *. cbn [cnt] in H. lia.
Qed.

(* replacing a child by one that is at least as "big" *)
Lemma deg_ok_replace : forall l1 c c' l2, (eff c <= eff c')%nat ->
  deg_ok (l1 ++ c :: l2) -> deg_ok (l1 ++ c' :: l2).
Proof.
  intros l1 c c' l2 Hle H n. specialize (H n). rewrite cnt_app in *. cbn [cnt] in *.
  destruct (Nat.ltb_spec (eff c') n) as [E'|E']; destruct (Nat.ltb_spec (eff c) n) as [E|E]; lia.
Qed.

(* ---------- well-formed trees: heap order + degree invariant, hereditarily ---------- *)
Definition node_ok (t : tree) : Prop :=
  Forall (fun c => t_key t <= t_key c) (t_children t) /\ deg_ok (t_children t).

Inductive wf : tree -> Prop :=
| WF : forall i k m cs, node_ok (Node i k m cs) -> Forall wf cs -> wf (Node i k m cs).

Lemma wf_inv : forall t, wf t -> node_ok t /\ Forall wf (t_children t).
Proof. intros t H. inversion H; subst. cbn [t_children]. auto. Qed.

Lemma wf_intro : forall t, node_ok t -> Forall wf (t_children t) -> wf t.
Proof. intros [i k m cs] H1 H2. constructor; assumption. Qed.

Lemma wf_set_marked : forall b t, wf t -> wf (set_marked b t).
Proof. intros b [i k m cs] H. inversion H; subst. constructor; assumption. Qed.

Lemma wf_leaf : forall i k m, wf (Node i k m []).
Proof. intros. constructor; [split; [constructor|apply deg_ok_nil]|constructor]. Qed.

Lemma eff_set_key : forall k t, eff (set_key k t) = eff t.
Proof. intros k [i k0 m cs]. reflexivity. Qed.

Lemma t_idx_set_key : forall k t, t_idx (set_key k t) = t_idx t.
Proof. intros k [i k0 m cs]. reflexivity. Qed.
Lemma t_key_set_key : forall k t, t_key (set_key k t) = k.
Proof. intros k [i k0 m cs]. reflexivity. Qed.
Lemma t_idx_set_marked : forall b t, t_idx (set_marked b t) = t_idx t.
Proof. intros b [i k0 m cs]. reflexivity. Qed.
Lemma t_key_set_marked : forall b t, t_key (set_marked b t) = t_key t.
Proof. intros b [i k0 m cs]. reflexivity. Qed.
Lemma t_rank_set_marked : forall b t, t_rank (set_marked b t) = t_rank t.
Proof. intros b [i k0 m cs]. reflexivity. Qed.
Lemma t_children_set_marked : forall b t, t_children (set_marked b t) = t_children t.
Proof. intros b [i k0 m cs]. reflexivity. Qed.
Lemma t_marked_set_marked : forall b t, t_marked (set_marked b t) = b.
Proof. intros b [i k0 m cs]. reflexivity. Qed.
Lemma tree_items_set_marked : forall b t, tree_items (set_marked b t) = tree_items t.
Proof. intros b [i k0 m cs]. cbn [set_marked]. rewrite !tree_items_eq. reflexivity. Qed.
Lemma tree_size_set_marked : forall b t, tree_size (set_marked b t) = tree_size t.
Proof. intros b [i k0 m cs]. cbn [set_marked]. rewrite !tree_size_eq. reflexivity. Qed.

(* every key in a well-formed tree is at least the root's key *)
Lemma wf_root_min : forall t, wf t -> forall j kj, In (j, kj) (tree_items t) -> t_key t <= kj.
Proof.
  induction t as [i k m cs IH] using tree_ind'. intros Hwf j kj.
  apply wf_inv in Hwf. destruct Hwf as [[Hk _] Hc]. cbn [t_children t_key] in *.
  rewrite tree_items_eq. intros [H|H]; [inversion H; lia|].
  revert Hk Hc H. induction IH as [|c cs Hc0 _ IHcs]; [intros _ _ []|].
  intros Hk Hc. inversion Hk; subst. inversion Hc; subst. cbn [forest_items]. intros Hin.
  apply in_app_or in Hin. destruct Hin as [Hin|Hin].
  - specialize (Hc0 H3 _ _ Hin). lia.
  - auto.
Qed.

(* ---------- root lists ---------- *)
Definition head_min (rs : list tree) : Prop :=
  match rs with [] => True | m :: rest => Forall (fun r => t_key m <= t_key r) rest end.

Lemma add_root_perm : forall u rs, Permutation (add_root_list u rs) (u :: rs).
Proof.
  intros u [|m rest]; cbn [add_root_list]; [reflexivity|].
  destruct (Z.ltb (t_key u) (t_key m)).
  - constructor. apply Permutation_sym. apply Permutation_cons_append.
  - apply perm_swap.
Qed.

Lemma add_root_head_min : forall u rs, head_min rs -> head_min (add_root_list u rs).
Proof.
  intros u [|m rest] H; cbn [add_root_list]; [constructor|].
  cbn [head_min] in H. destruct (Z.ltb_spec (t_key u) (t_key m)) as [E|E]; cbn [head_min].
  - apply Forall_app. split.
    + eapply Forall_impl; [|exact H]. cbn. intros; lia.
    + constructor; [lia|constructor].
  - constructor; [exact E|exact H].
Qed.

Lemma fold_add_perm : forall cs rs,
  Permutation (fold_left (fun rs c => add_root_list c rs) cs rs) (cs ++ rs).
Proof.
  induction cs as [|c cs IH]; intros rs; cbn [fold_left app]; [reflexivity|].
  eapply Permutation_trans; [apply IH|].
  eapply Permutation_trans; [apply Permutation_app_head; apply add_root_perm|].
  apply Permutation_sym. apply Permutation_middle.
Qed.

Lemma fold_add_head_min : forall cs rs, head_min rs ->
  head_min (fold_left (fun rs c => add_root_list c rs) cs rs).
Proof.
  induction cs as [|c cs IH]; intros rs H; cbn [fold_left]; [exact H|].
  apply IH. apply add_root_head_min. exact H.
Qed.

(* ---------- the abstraction and the invariant ---------- *)
Definition abs (h : heap) : amap := forest_items (h_roots h).

Record Inv (h : heap) : Prop := mkInv {
  inv_nodup : NoDup (forest_idxs (h_roots h));
  inv_range : Forall (fun i => 0 <= i < h_cap h) (forest_idxs (h_roots h));
  inv_wf : Forall wf (h_roots h);
  inv_min : head_min (h_roots h);
  inv_nn : h_num_nodes h = Z.of_nat (forest_size (h_roots h));
  inv_nt : h_num_trees h = Z.of_nat (length (h_roots h)) }.

Lemma Inv_empty : forall cap dn, Inv (empty_heap cap dn).
Proof.
  intros. constructor; cbn; try constructor; reflexivity.
Qed.

(* all keys are at least the key of the head of the root list *)
Lemma inv_head_min_all : forall m rest, Forall wf (m :: rest) -> head_min (m :: rest) ->
  forall j kj, In (j, kj) (forest_items (m :: rest)) -> t_key m <= kj.
Proof.
  intros m rest Hwf Hmin j kj Hin. cbn [forest_items] in Hin. cbn [head_min] in Hmin.
  inversion Hwf as [|? ? Hm Hrest]; subst.
  apply in_app_or in Hin. destruct Hin as [Hin|Hin].
  - eapply wf_root_min; eassumption.
  - revert Hrest Hmin Hin. clear. induction rest as [|r rest IH]; [intros _ _ []|].
    intros Hwf Hmin. inversion Hwf; subst. inversion Hmin; subst. cbn [forest_items].
    intros Hin. apply in_app_or in Hin. destruct Hin as [Hin|Hin].
    + pose proof (wf_root_min _ H1 _ _ Hin). lia.
    + auto.
Qed.

(* pigeonhole: distinct indices in [0,cap) *)
Lemma range_nodup_length : forall (l : list Z) cap, 0 <= cap -> NoDup l ->
  Forall (fun i => 0 <= i < cap) l -> Z.of_nat (length l) <= cap.
Proof.
  intros l cap Hc Hnd Hr.
  assert (H : (length l <= length (map Z.of_nat (seq 0 (Z.to_nat cap))))%nat).
  { apply NoDup_incl_length; [exact Hnd|]. intros i Hi. rewrite Forall_forall in Hr.
    specialize (Hr _ Hi). apply in_map_iff. exists (Z.to_nat i). split; [lia|].
    apply in_seq. lia. }
  rewrite map_length, seq_length in H. lia.
Qed.

Lemma Inv_size_le_cap : forall h, 0 <= h_cap h -> Inv h -> Z.of_nat (forest_size (h_roots h)) <= h_cap h.
Proof.
  intros h Hc HI. rewrite forest_size_items.
  replace (length (forest_items (h_roots h))) with (length (forest_idxs (h_roots h)))
    by (unfold forest_idxs; apply map_length).
  apply range_nodup_length; [exact Hc|apply HI|apply HI].
Qed.
