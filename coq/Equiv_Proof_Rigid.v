(* ====================================================================== *)
(*  Equiv_Proof_Rigid.v — C12: orthogonal maps, translations and scales    *)
(*  acting on the feature vectors, followed through the callback tables    *)
(*  and the assemble stages of Equiv_Model.v.                              *)
(* ====================================================================== *)
Require Import Field Ring Arith Lia List Bool.
From TK Require Import Mat_Sums Mat_Core Equiv_Model Equiv_Spec Equiv_Proof_Perm.
Import ListNotations.

Section Rigid.
  Context {F : Type} {Fo : FieldOps F} {Ff : IsField F}.
  Add Field EquivRigidField : (@Fth F Fo Ff).
  Local Open Scope F_scope.

  (* ================================================================== *)
  (* orthogonal maps                                                     *)
  (* ================================================================== *)
  Definition rot_vec (D : nat) (R : mat F) (x : vec F) : vec F :=
    fun a => sumn D (fun b => R a b * x b).

  Lemma rotate_row D R X i : rotate D R X i = rot_vec D R (X i).
  Proof. reflexivity. Qed.

  Lemma rot_vec_sub D R x y a :
    rot_vec D R (fun b => x b - y b) a = rot_vec D R x a - rot_vec D R y a.
  Proof.
    unfold rot_vec. rewrite <- sumn_sub. apply sumn_ext. intros; ring.
  Qed.

  (* <Rx, Ry> = <x, y> : the sum-of-products algebra *)
  Lemma dot_rot_vec D R x y :
    orthogonal D R -> dot D (rot_vec D R x) (rot_vec D R y) = dot D x y.
  Proof.
    intros Ho. unfold dot, rot_vec.
    rewrite (sumn_ext D _ (fun a => sumn D (fun b => sumn D (fun c => (R a b * x b) * (R a c * y c)))))
      by (intros a _; apply sumn_mul_sumn).
    rewrite sumn_swap. apply sumn_ext. intros b Hb.
    rewrite sumn_swap.
    rewrite (sumn_ext D _ (fun c => delta b c * (x b * y c))).
    - rewrite sumn_delta_l by assumption. reflexivity.
    - intros c Hc.
      rewrite (sumn_ext D _ (fun a => (x b * y c) * (mtrans R b a * R a c)))
        by (intros a _; unfold mtrans; ring).
      rewrite sumn_mul_l.
      pose proof (Ho b c Hb Hc) as E. unfold mmul in E. rewrite E. unfold mI. ring.
  Qed.

  Theorem lin_kernel_orthogonal D R X i j :
    orthogonal D R -> lin_kernel D (rotate D R X) i j = lin_kernel D X i j.
  Proof.
    intros Ho. unfold lin_kernel.
    change (dot D (rot_vec D R (X i)) (rot_vec D R (X j)) = dot D (X i) (X j)).
    apply dot_rot_vec. exact Ho.
  Qed.

  Lemma sq_dist_dot D X i j :
    sq_dist D X i j = dot D (fun t => X i t - X j t) (fun t => X i t - X j t).
  Proof. reflexivity. Qed.

  Theorem sq_dist_orthogonal D R X i j :
    orthogonal D R -> sq_dist D (rotate D R X) i j = sq_dist D X i j.
  Proof.
    intros Ho. rewrite !sq_dist_dot.
    rewrite <- (dot_rot_vec D R (fun t => X i t - X j t) (fun t => X i t - X j t) Ho).
    apply dot_ext; intros a _; rewrite rot_vec_sub; reflexivity.
  Qed.

  (* the distance callback's answers are unchanged too (sqrt is a function) *)
  Corollary euclid_dist_orthogonal fsqrt D R X i j :
    orthogonal D R -> euclid_dist fsqrt D (rotate D R X) i j = euclid_dist fsqrt D X i j.
  Proof. intros Ho. unfold euclid_dist. rewrite sq_dist_orthogonal by assumption. reflexivity. Qed.

  (* ================================================================== *)
  (* translations                                                        *)
  (* ================================================================== *)
  Theorem sq_dist_translate D t X i j :
    sq_dist D (translate t X) i j = sq_dist D X i j.
  Proof. unfold sq_dist, translate. apply sumn_ext. intros; ring. Qed.

  Corollary euclid_dist_translate fsqrt D t X i j :
    euclid_dist fsqrt D (translate t X) i j = euclid_dist fsqrt D X i j.
  Proof. unfold euclid_dist. rewrite sq_dist_translate. reflexivity. Qed.

  (* K' = K + a 1^T + 1 a^T + c 1 1^T  with  a_i = <x_i,t>, c = <t,t> *)
  Definition shifted (K : mat F) (a : vec F) (c : F) : mat F :=
    fun i j => K i j + a i + a j + c.

  Theorem lin_kernel_translate D t X i j :
    lin_kernel D (translate t X) i j =
    shifted (lin_kernel D X) (fun s => dot D (X s) t) (dot D t t) i j.
  Proof.
    unfold lin_kernel, shifted, dot, translate.
    rewrite <- !sumn_add. apply sumn_ext. intros; ring.
  Qed.

  Lemma colsum_shifted n K a c j :
    colsum n (shifted K a c) j = colsum n K j + sumn n a + of_nat n * a j + of_nat n * c.
  Proof.
    unfold colsum, shifted. rewrite !sumn_add, !sumn_const. reflexivity.
  Qed.

  Lemma totsum_shifted n K a c :
    totsum n n (shifted K a c) =
    totsum n n K + of_nat n * sumn n a + of_nat n * sumn n a + of_nat n * (of_nat n * c).
  Proof.
    rewrite !totsum_swap.
    rewrite (sumn_ext n _ (fun j => colsum n K j + sumn n a + of_nat n * a j + of_nat n * c))
      by (intros; apply colsum_shifted).
    rewrite !sumn_add, !sumn_const, sumn_mul_l. reflexivity.
  Qed.

  (* centerMatrix kills  a 1^T + 1 a^T + c 1 1^T  (for EVERY matrix K) *)
  Theorem center_matrix_shifted n K a c i j :
    of_nat n <> 0 ->
    center_matrix n (shifted K a c) i j = center_matrix n K i j.
  Proof.
    intros Hn. unfold center_matrix, grandmean, colmean.
    rewrite totsum_shifted, !colsum_shifted, of_nat_mul. unfold shifted. field. exact Hn.
  Qed.

  Lemma lin_kernel_sym D X n : msym n (lin_kernel D X).
  Proof. intros i j _ _. unfold lin_kernel. apply dot_comm. Qed.

  (* linear KPCA: J K' J = J K J *)
  Theorem kpca_matrix_translate n D t X :
    of_nat n <> 0 ->
    meq n n (kpca_matrix n (lin_kernel D (translate t X))) (kpca_matrix n (lin_kernel D X)).
  Proof.
    intros Hn. unfold kpca_matrix.
    eapply meq_trans.
    { apply center_matrix_meq. intros i j Hi Hj.
      rewrite (kernel_matrix_of_sym n) by (try assumption; apply lin_kernel_sym).
      apply lin_kernel_translate. }
    eapply meq_trans.
    { intros i j Hi Hj. apply center_matrix_shifted. exact Hn. }
    apply center_matrix_meq. intros i j Hi Hj.
    rewrite (kernel_matrix_of_sym n) by (try assumption; apply lin_kernel_sym). reflexivity.
  Qed.

  (* in the doubly-centred form of the property text *)
  Corollary double_center_translate n D t X :
    of_nat n <> 0 ->
    meq n n (double_center n (lin_kernel D (translate t X))) (double_center n (lin_kernel D X)).
  Proof.
    intros Hn.
    eapply meq_trans; [apply meq_sym, center_matrix_sym; [exact Hn|apply lin_kernel_sym]|].
    eapply meq_trans; [|apply center_matrix_sym; [exact Hn|apply lin_kernel_sym]].
    eapply meq_trans.
    { apply center_matrix_meq. intros i j _ _. apply lin_kernel_translate. }
    intros i j _ _. apply center_matrix_shifted. exact Hn.
  Qed.

  (* the local LLE Gram  k(x,x) - k(x,n_i) - k(x,n_j) + k(n_i,n_j) *)
  Theorem lle_gram_shifted K a c x nb i j :
    lle_gram (shifted K a c) x nb i j = lle_gram K x nb i j.
  Proof. unfold lle_gram, shifted. ring. Qed.

  (* the kernel-induced squared distance *)
  Theorem kernel_sq_dist_shifted K a c l r :
    kernel_sq_dist (shifted K a c) l r = kernel_sq_dist K l r.
  Proof. unfold kernel_sq_dist, shifted, two. ring. Qed.

  (* the centred local Grams of LTSA / HLLE *)
  Lemma local_gram_shifted K a c nb i j :
    local_gram (shifted K a c) nb i j =
    shifted (local_gram K nb) (fun t => a (nb t)) c i j.
  Proof. unfold local_gram, shifted. destruct (Nat.leb i j); ring. Qed.

  Theorem local_centered_gram_shifted k K a c nb :
    of_nat k <> 0 ->
    meq k k (local_centered_gram k (shifted K a c) nb) (local_centered_gram k K nb).
  Proof.
    intros Hk. unfold local_centered_gram.
    eapply meq_trans.
    { apply center_matrix_meq. intros i j _ _. apply local_gram_shifted. }
    intros i j _ _. apply center_matrix_shifted. exact Hk.
  Qed.

  (* so for the linear kernel all of them are translation invariant *)
  Corollary lle_gram_translate D t X x nb i j :
    lle_gram (lin_kernel D (translate t X)) x nb i j = lle_gram (lin_kernel D X) x nb i j.
  Proof.
    unfold lle_gram. rewrite !lin_kernel_translate.
    exact (lle_gram_shifted (lin_kernel D X) _ _ x nb i j).
  Qed.

  Corollary kernel_sq_dist_translate D t X l r :
    kernel_sq_dist (lin_kernel D (translate t X)) l r = kernel_sq_dist (lin_kernel D X) l r.
  Proof.
    unfold kernel_sq_dist. rewrite !lin_kernel_translate.
    exact (kernel_sq_dist_shifted (lin_kernel D X) _ _ l r).
  Qed.

  Corollary local_centered_gram_translate k D t X nb :
    of_nat k <> 0 ->
    meq k k (local_centered_gram k (lin_kernel D (translate t X)) nb)
            (local_centered_gram k (lin_kernel D X) nb).
  Proof.
    intros Hk. eapply meq_trans; [|apply local_centered_gram_shifted; exact Hk].
    unfold local_centered_gram. apply center_matrix_meq. intros i j _ _.
    unfold local_gram. destruct (Nat.leb i j); apply lin_kernel_translate.
  Qed.

  (* PCA: mean moves with the data, covariance does not move *)
  Theorem mean_vec_translate n t X a :
    of_nat n <> 0 -> mean_vec n (translate t X) a = mean_vec n X a + t a.
  Proof.
    intros Hn. unfold mean_vec, translate. rewrite sumn_add, sumn_const. field. exact Hn.
  Qed.

  Lemma sum_prod_translate n t X a b :
    sumn n (fun i => translate t X i a * translate t X i b) =
    sumn n (fun i => X i a * X i b) + t b * sumn n (fun i => X i a)
      + t a * sumn n (fun i => X i b) + of_nat n * (t a * t b).
  Proof.
    unfold translate.
    rewrite (sumn_ext n _ (fun i => X i a * X i b + t b * X i a + t a * X i b + t a * t b))
      by (intros; ring).
    rewrite !sumn_add, sumn_const, !sumn_mul_l. reflexivity.
  Qed.

  Theorem cov_full_translate n t X a b :
    of_nat n <> 0 -> cov_full n (translate t X) a b = cov_full n X a b.
  Proof.
    intros Hn. unfold cov_full. rewrite !mean_vec_translate by assumption.
    rewrite sum_prod_translate. unfold mean_vec. field. exact Hn.
  Qed.

  Theorem cov_upper_translate n t X a b :
    of_nat n <> 0 -> cov_upper n (translate t X) a b = cov_upper n X a b.
  Proof.
    intros Hn. rewrite !cov_upper_entry. destruct (Nat.leb a b); [|reflexivity].
    rewrite !mean_vec_translate by assumption.
    rewrite (sumn_ext n (fun i => 1 * (translate t X i a * translate t X i b))
                        (fun i => translate t X i a * translate t X i b)) by (intros; ring).
    rewrite (sumn_ext n (fun i => 1 * (X i a * X i b)) (fun i => X i a * X i b)) by (intros; ring).
    rewrite sum_prod_translate. unfold mean_vec. field. exact Hn.
  Qed.

  Corollary pca_matrix_shipped_translate n t X a b :
    of_nat n <> 0 -> pca_matrix_shipped n (translate t X) a b = pca_matrix_shipped n X a b.
  Proof.
    intros Hn. unfold pca_matrix_shipped, sym_avg. rewrite !cov_upper_translate by assumption.
    reflexivity.
  Qed.

  Corollary pca_matrix_fixed_translate n t X a b :
    of_nat n <> 0 -> pca_matrix_fixed n (translate t X) a b = pca_matrix_fixed n X a b.
  Proof.
    intros Hn. unfold pca_matrix_fixed, sym_avg, sym_from_upper, read_upper.
    rewrite !cov_upper_translate by assumption. reflexivity.
  Qed.

  (* project(): the projected CENTRED samples do not move (same P: the solver is
     given the same matrix) *)
  Theorem project_translate n D P t X i c :
    of_nat n <> 0 ->
    project D P (mean_vec n (translate t X)) (translate t X) i c =
    project D P (mean_vec n X) X i c.
  Proof.
    intros Hn. unfold project. apply sumn_ext. intros a _.
    rewrite mean_vec_translate by assumption. unfold translate. ring.
  Qed.

  (* LLTSA's right-hand side is centred, hence invariant ... *)
  Lemma feat_sum_translate n t X a :
    feat_sum n (translate t X) a = feat_sum n X a + of_nat n * t a.
  Proof. unfold feat_sum, translate. rewrite sumn_add, sumn_const. reflexivity. Qed.

  Theorem lltsa_rhs_translate n t X a b :
    of_nat n <> 0 -> lltsa_rhs n (translate t X) a b = lltsa_rhs n X a b.
  Proof.
    intros Hn. unfold lltsa_rhs, npe_rhs. rewrite sum_prod_translate, !feat_sum_translate.
    unfold feat_sum. field. exact Hn.
  Qed.

  (* ... and so is  X W X^T  whenever W 1 = 0 = 1^T W (alignment matrices, Laplacians) *)
  Theorem pencil_lhs_translate n W t X a b :
    zero_row_col_sums n W ->
    pencil_lhs n W (translate t X) a b = pencil_lhs n W X a b.
  Proof.
    intros (Hr & Hc). unfold pencil_lhs, translate.
    rewrite (sumn_ext n _ (fun r =>
       sumn n (fun c => W r c * (X r a * X c b + X c a * X r b))
       + (t b * X r a + t a * X r b + two * (t a * t b)) * sumn n (fun c => W r c)
       + sumn n (fun c => W r c * (t a * X c b + t b * X c a)))).
    2:{ intros r _. rewrite <- sumn_mul_l, <- !sumn_add. apply sumn_ext. intros c _.
        unfold two. ring. }
    rewrite !sumn_add.
    assert (E1 : sumn n (fun r => (t b * X r a + t a * X r b + two * (t a * t b))
                                  * sumn n (fun c => W r c)) = 0).
    { apply sumn_zero'. intros r Hr'. rewrite Hr by assumption. ring. }
    assert (E2 : sumn n (fun r => sumn n (fun c => W r c * (t a * X c b + t b * X c a))) = 0).
    { rewrite sumn_swap. apply sumn_zero'. intros c Hc'. rewrite sumn_mul_r.
      rewrite Hc by assumption. ring. }
    rewrite E1, E2. ring.
  Qed.

  (* ================================================================== *)
  (* scales                                                              *)
  (* ================================================================== *)
  Theorem sq_dist_scale D c X i j :
    sq_dist D (scale c X) i j = c * c * sq_dist D X i j.
  Proof.
    unfold sq_dist, scale. rewrite <- sumn_mul_l. apply sumn_ext. intros; ring.
  Qed.

  Theorem lin_kernel_scale D c X i j :
    lin_kernel D (scale c X) i j = c * c * lin_kernel D X i j.
  Proof.
    unfold lin_kernel, dot, scale. rewrite <- sumn_mul_l. apply sumn_ext. intros; ring.
  Qed.

  Lemma dist_sq_matrix_scale c dist i j :
    dist_sq_matrix (mscale c dist) i j = mscale (c * c) (dist_sq_matrix dist) i j.
  Proof. unfold dist_sq_matrix, mscale. destruct (Nat.leb i j); ring. Qed.

  Lemma kernel_matrix_scale c kern i j :
    kernel_matrix (mscale c kern) i j = mscale c (kernel_matrix kern) i j.
  Proof. unfold kernel_matrix, mscale. destruct (Nat.leb i j); ring. Qed.

  (* centerMatrix is linear *)
  Theorem center_matrix_scale n c M i j :
    of_nat n <> 0 ->
    center_matrix n (mscale c M) i j = mscale c (center_matrix n M) i j.
  Proof.
    intros Hn. unfold center_matrix, grandmean, colmean, totsum, colsum, mscale.
    rewrite (sumn_ext n (fun i0 => sumn n (fun j0 => c * M i0 j0))
                        (fun i0 => c * sumn n (fun j0 => M i0 j0)))
      by (intros; apply sumn_mul_l).
    rewrite !sumn_mul_l, of_nat_mul. field. exact Hn.
  Qed.

  (* distances scale by c  ->  the matrix MDS hands to the solver scales by c^2 *)
  Theorem mds_matrix_scale n c dist :
    of_nat n <> 0 ->
    meq n n (mds_matrix n (mscale c dist)) (mscale (c * c) (mds_matrix n dist)).
  Proof.
    intros Hn i j Hi Hj. unfold mds_matrix.
    rewrite (center_matrix_meq n _ (mscale (c * c) (dist_sq_matrix dist))
               (fun a b _ _ => dist_sq_matrix_scale c dist a b) i j Hi Hj).
    rewrite center_matrix_scale by assumption. unfold mscale. ring.
  Qed.

  (* linear kernel scales by c^2 -> so does the centred kernel matrix *)
  Theorem kpca_matrix_scale n c kern :
    of_nat n <> 0 ->
    meq n n (kpca_matrix n (mscale c kern)) (mscale c (kpca_matrix n kern)).
  Proof.
    intros Hn i j Hi Hj. unfold kpca_matrix.
    rewrite (center_matrix_meq n _ (mscale c (kernel_matrix kern))
               (fun a b _ _ => kernel_matrix_scale c kern a b) i j Hi Hj).
    apply center_matrix_scale. exact Hn.
  Qed.

  Theorem mean_vec_scale n c X a :
    of_nat n <> 0 -> mean_vec n (scale c X) a = c * mean_vec n X a.
  Proof.
    intros Hn. unfold mean_vec, scale. rewrite sumn_mul_l. field. exact Hn.
  Qed.

  Theorem cov_full_scale n c X a b :
    of_nat n <> 0 -> cov_full n (scale c X) a b = c * c * cov_full n X a b.
  Proof.
    intros Hn. unfold cov_full. rewrite !mean_vec_scale by assumption. unfold scale.
    rewrite (sumn_ext n _ (fun i => (c * c) * (X i a * X i b))) by (intros; ring).
    rewrite sumn_mul_l. field. exact Hn.
  Qed.

  Theorem cov_upper_scale n c X a b :
    of_nat n <> 0 -> cov_upper n (scale c X) a b = c * c * cov_upper n X a b.
  Proof.
    intros Hn. rewrite !cov_upper_entry. destruct (Nat.leb a b).
    - rewrite !mean_vec_scale by assumption. unfold scale.
      rewrite (sumn_ext n _ (fun i => (c * c) * (1 * (X i a * X i b)))) by (intros; ring).
      rewrite sumn_mul_l. field. exact Hn.
    - field. exact Hn.
  Qed.

  Corollary pca_matrix_shipped_scale n c X a b :
    of_nat n <> 0 -> two <> 0 ->
    pca_matrix_shipped n (scale c X) a b = c * c * pca_matrix_shipped n X a b.
  Proof.
    intros Hn H2. unfold pca_matrix_shipped, sym_avg. rewrite !cov_upper_scale by assumption.
    field. exact H2.
  Qed.

  Corollary pca_matrix_fixed_scale n c X a b :
    of_nat n <> 0 -> two <> 0 ->
    pca_matrix_fixed n (scale c X) a b = c * c * pca_matrix_fixed n X a b.
  Proof.
    intros Hn H2. unfold pca_matrix_fixed, sym_avg, sym_from_upper, read_upper.
    destruct (Nat.leb a b), (Nat.leb b a); rewrite !cov_upper_scale by assumption;
      field; exact H2.
  Qed.

  (* project(): same P, scaled data and mean -> scaled embedding *)
  Theorem project_scale n D P c X i k :
    of_nat n <> 0 ->
    project D P (mean_vec n (scale c X)) (scale c X) i k = c * project D P (mean_vec n X) X i k.
  Proof.
    intros Hn. unfold project. rewrite <- sumn_mul_l. apply sumn_ext. intros a _.
    rewrite mean_vec_scale by assumption. unfold scale. ring.
  Qed.

End Rigid.
