(* ====================================================================== *)
(*  Cli_Spec.v — what the tapkee command line tool is DOCUMENTED to do     *)
(*  (property C20).  Hand-written from the help texts of src/cli/main.cpp, *)
(*  the keyword descriptions of include/tapkee/defines/keywords.hpp and    *)
(*  the README; never regenerated.  No proofs here.                        *)
(*                                                                         *)
(*  1. doc_tables : the documented option table / name maps / early exits  *)
(*     / option -> library-parameter wiring / file roles, in the canonical *)
(*     order the translator uses (options by first spelling, kwargs items  *)
(*     by keyword, map entries by key; exits in source order).             *)
(*  2. spec_decide : the same, written as a direct function               *)
(*        args -> Exit code | Run parameters io                            *)
(*     that a reader can check against the help text line by line.         *)
(*  3. boolean decision procedures applied to what the real executable    *)
(*     did (exit status, --debug echo, output files).                      *)
(*  4. the matrix a data file denotes, and the text a matrix is written as.*)
(* ====================================================================== *)
From Coq Require Import String Ascii List ZArith QArith Bool Arith.
From TK Require Import Cli_Model.
Import ListNotations.
Local Close Scope Q_scope.
Local Open Scope nat_scope.
Local Open Scope string_scope.

(* ---------------------------------------------------------------------- *)
(*  1. documented tables                                                   *)
(* ---------------------------------------------------------------------- *)
Definition doc_options : list odecl := [
  {| o_names := ["benchmark"]; o_default := DFlag |};
  {| o_names := ["cs"; "computation-strategy"]; o_default := DStr "cpu" |};
  {| o_names := ["d"; "delimiter"]; o_default := DStr "," |};
  {| o_names := ["debug"]; o_default := DFlag |};
  {| o_names := ["eigenshift"]; o_default := DDbl (1 # 1000000000)%Q |};
  {| o_names := ["em"; "eigen-method"]; o_default := DStr "dense" |};
  {| o_names := ["fa-epsilon"]; o_default := DDbl (1 # 100000)%Q |};
  {| o_names := ["gw"; "gaussian-width"]; o_default := DDbl (1 # 1)%Q |};
  {| o_names := ["h"; "help"]; o_default := DFlag |};
  {| o_names := ["i"; "input-file"]; o_default := DStr "/dev/stdin" |};
  {| o_names := ["k"; "num-neighbors"]; o_default := DInt (10)%Z |};
  {| o_names := ["landmark-ratio"]; o_default := DDbl (1 # 5)%Q |};
  {| o_names := ["m"; "method"]; o_default := DStr "locally_linear_embedding" |};
  {| o_names := ["max-iters"]; o_default := DInt (1000)%Z |};
  {| o_names := ["nm"; "neighbors-method"]; o_default := DStr "covertree" |};
  {| o_names := ["o"; "output-file"]; o_default := DStr "/dev/stdout" |};
  {| o_names := ["opmat"; "output-projection-matrix-file"]; o_default := DStr "/dev/null" |};
  {| o_names := ["opmean"; "output-projection-mean-file"]; o_default := DStr "/dev/null" |};
  {| o_names := ["precompute"]; o_default := DFlag |};
  {| o_names := ["sne-perplexity"]; o_default := DDbl (30 # 1)%Q |};
  {| o_names := ["sne-theta"]; o_default := DDbl (1 # 2)%Q |};
  {| o_names := ["spe-local"]; o_default := DFlag |};
  {| o_names := ["spe-num-updates"]; o_default := DInt (100)%Z |};
  {| o_names := ["spe-tolerance"]; o_default := DDbl (1 # 100000)%Q |};
  {| o_names := ["squishing-rate"]; o_default := DDbl (99 # 100)%Q |};
  {| o_names := ["td"; "target-dimension"]; o_default := DInt (2)%Z |};
  {| o_names := ["timesteps"]; o_default := DInt (1)%Z |};
  {| o_names := ["transpose-input"]; o_default := DFlag |};
  {| o_names := ["transpose-output"]; o_default := DFlag |};
  {| o_names := ["verbose"]; o_default := DFlag |}
].

Definition doc_maps : list (string * list (string * string)) := [
  ("DIMENSION_REDUCTION_METHODS", [("diffusion_map", "DiffusionMap");
     ("dm", "DiffusionMap");
     ("fa", "FactorAnalysis");
     ("factor_analysis", "FactorAnalysis");
     ("hessian_locally_linear_embedding", "HessianLocallyLinearEmbedding");
     ("hlle", "HessianLocallyLinearEmbedding");
     ("isomap", "Isomap");
     ("kernel_pca", "KernelPrincipalComponentAnalysis");
     ("kpca", "KernelPrincipalComponentAnalysis");
     ("l-isomap", "LandmarkIsomap");
     ("l-mds", "LandmarkMultidimensionalScaling");
     ("la", "LaplacianEigenmaps");
     ("landmark_isomap", "LandmarkIsomap");
     ("landmark_multidimensional_scaling", "LandmarkMultidimensionalScaling");
     ("laplacian_eigenmaps", "LaplacianEigenmaps");
     ("linear_local_tangent_space_alignment", "LinearLocalTangentSpaceAlignment");
     ("lle", "KernelLocallyLinearEmbedding");
     ("lltsa", "LinearLocalTangentSpaceAlignment");
     ("local_tangent_space_alignment", "KernelLocalTangentSpaceAlignment");
     ("locality_preserving_projections", "LocalityPreservingProjections");
     ("locally_linear_embedding", "KernelLocallyLinearEmbedding");
     ("lpp", "LocalityPreservingProjections");
     ("ltsa", "KernelLocalTangentSpaceAlignment");
     ("manifold_sculpting", "ManifoldSculpting");
     ("mds", "MultidimensionalScaling");
     ("multidimensional_scaling", "MultidimensionalScaling");
     ("neighborhood_preserving_embedding", "NeighborhoodPreservingEmbedding");
     ("npe", "NeighborhoodPreservingEmbedding");
     ("passthru", "PassThru");
     ("pca", "PrincipalComponentAnalysis");
     ("ra", "RandomProjection");
     ("random_projection", "RandomProjection");
     ("spe", "StochasticProximityEmbedding");
     ("stochastic_proximity_embedding", "StochasticProximityEmbedding");
     ("t-sne", "tDistributedStochasticNeighborEmbedding");
     ("t-stochastic_proximity_embedding", "tDistributedStochasticNeighborEmbedding")]);
  ("NEIGHBORS_METHODS", [("brute", "Brute");
     ("covertree", "CoverTree");
     ("vptree", "VpTree")]);
  ("EIGEN_METHODS", [("dense", "Dense");
     ("randomized", "Randomized")]);
  ("COMPUTATION_STRATEGIES", [("cpu", "HomogeneousCPUStrategy")])
].

Definition doc_exits : list xexit := [
  {| x_test := XIf (WCount "help"); x_code := (1)%Z |};
  {| x_test := XUnknown "DIMENSION_REDUCTION_METHODS" (WAs "method" TStr); x_code := (1)%Z |};
  {| x_test := XUnknown "NEIGHBORS_METHODS" (WAs "neighbors-method" TStr); x_code := (1)%Z |};
  {| x_test := XUnknown "EIGEN_METHODS" (WAs "eigen-method" TStr); x_code := (1)%Z |};
  {| x_test := XUnknown "COMPUTATION_STRATEGIES" (WAs "computation-strategy" TStr); x_code := (1)%Z |};
  {| x_test := XCmpZ (WAs "target-dimension" TInt) CLe (0)%Z; x_code := (1)%Z |};
  {| x_test := XCmpZ (WAs "num-neighbors" TInt) CLt (3)%Z; x_code := (1)%Z |};
  {| x_test := XCmpQ (WAs "gaussian-width" TDbl) CLt (0 # 1)%Q; x_code := (1)%Z |};
  {| x_test := XCmpZ (WAs "timesteps" TInt) CLt (0)%Z; x_code := (1)%Z |}
].

Definition doc_wiring : list (string * wexpr) := [
  ("check_connectivity", WLit "true");
  ("computation_strategy", WName "COMPUTATION_STRATEGIES" (WAs "computation-strategy" TStr));
  ("diffusion_map_timesteps", WAs "timesteps" TInt);
  ("eigen_method", WName "EIGEN_METHODS" (WAs "eigen-method" TStr));
  ("fa_epsilon", WAs "fa-epsilon" TDbl);
  ("gaussian_kernel_width", WAs "gaussian-width" TDbl);
  ("landmark_ratio", WAs "landmark-ratio" TDbl);
  ("max_iteration", WAs "max-iters" TInt);
  ("method", WName "DIMENSION_REDUCTION_METHODS" (WAs "method" TStr));
  ("neighbors_method", WName "NEIGHBORS_METHODS" (WAs "neighbors-method" TStr));
  ("nullspace_shift", WAs "eigenshift" TDbl);
  ("num_neighbors", WAs "num-neighbors" TInt);
  ("sne_perplexity", WAs "sne-perplexity" TDbl);
  ("sne_theta", WAs "sne-theta" TDbl);
  ("spe_global_strategy", WNot (WCount "spe-local"));
  ("spe_num_updates", WAs "spe-num-updates" TInt);
  ("spe_tolerance", WAs "spe-tolerance" TDbl);
  ("squishing_rate", WAs "squishing-rate" TDbl);
  ("target_dimension", WAs "target-dimension" TInt)
].

Definition doc_io : list (string * wexpr) := [
  ("delimiter_projection", WIndex0 (WAs "delimiter" TStr));
  ("delimiter_read", WIndex0 (WAs "delimiter" TStr));
  ("delimiter_write", WIndex0 (WAs "delimiter" TStr));
  ("input_file", WAs "input-file" TStr);
  ("output_file", WAs "output-file" TStr);
  ("precompute_when", WCount "precompute");
  ("projection_matrix_file", WAs "output-projection-matrix-file" TStr);
  ("projection_mean_file", WAs "output-projection-mean-file" TStr);
  ("transpose_input_when", WNot (WCount "transpose-input"));
  ("transpose_output_when", WCount "transpose-output");
  ("write_projection_when", WAnd (WCount "output-projection-matrix-file") (WCount "output-projection-mean-file"))
].

Definition doc_precompute : list (string * (string * (string * string))) := [
  ("kernel", ("precomputed_kernel_callback", ("eigen_kernel_callback", "needs_kernel")));
  ("distance", ("precomputed_distance_callback", ("eigen_distance_callback", "needs_distance")));
  ("features", ("eigen_features_callback", ("input_data", "")))
].

(* a numeric default is the literal written in the source (1e-9 stays 1e-9) *)
Definition doc_numfmt : dfmt := FmtShortest.

(* both handlers of main() report failure *)
Definition doc_catch : list Z := [1%Z; 1%Z].

(* every line of the file is one row, whether or not the last line ends in a newline *)
Definition doc_read_loop : read_loop := LoopGetline.

Definition doc_tables : tables :=
  {| t_options := doc_options; t_numfmt := doc_numfmt; t_maps := doc_maps; t_exits := doc_exits;
     t_wiring := doc_wiring; t_io := doc_io; t_catch := doc_catch |}.

(* the tables as shipped before fix F15 (--spe-local bound to the GLOBAL strategy) ... *)
Definition old_spe_line : string * wexpr := ("spe_global_strategy", WCount "spe-local").

Definition tables_before_F15 : tables :=
  {| t_options := doc_options; t_numfmt := doc_numfmt; t_maps := doc_maps; t_exits := doc_exits;
     t_wiring := map (fun kv => if String.eqb (fst kv) "spe_global_strategy" then old_spe_line else kv)
                     doc_wiring;
     t_io := doc_io; t_catch := doc_catch |}.

(* ... and before fix F40 (numeric defaults through std::to_string: six decimals) *)
Definition tables_before_F40 : tables :=
  {| t_options := doc_options; t_numfmt := FmtToString; t_maps := doc_maps; t_exits := doc_exits;
     t_wiring := doc_wiring; t_io := doc_io; t_catch := doc_catch |}.

(* ---------------------------------------------------------------------- *)
(*  2. the documented behaviour as a direct function                       *)
(* ---------------------------------------------------------------------- *)
(* flag / str_of / int_of / dbl_of (Cli_Model.v): is the option given; its last value or the default;
   None = the given text is not of that type (cxxopts throws, main() returns 1) *)

Definition first_char (s : string) : value :=
  match s with EmptyString => VChar None | String c _ => VChar (Some c) end.

Definition doc_map (name : string) : list (string * string) :=
  match assoc name doc_maps with Some t => t | None => [] end.

Notation "'let?' x ':=' e 'in' f" := (match e with Some x => f | None => Exit 1%Z end)
  (at level 200, x name, e at level 100, f at level 200, right associativity).

Definition spec_view (ok : bool) (g : view) : outcome :=
  if negb ok then Exit 1%Z                                    (* unknown option / value of the wrong type *)
  else if flag g ["h"; "help"] then Exit 1%Z
  else
  let? ms := str_of g ["m"; "method"] "locally_linear_embedding" in
  let? m := lookup_name ms (doc_map "DIMENSION_REDUCTION_METHODS") in       (* unknown method -> 1 *)
  let? ns := str_of g ["nm"; "neighbors-method"] "covertree" in
  let? nm := lookup_name ns (doc_map "NEIGHBORS_METHODS") in                (* unknown neighbours method -> 1 *)
  let? es := str_of g ["em"; "eigen-method"] "dense" in
  let? em := lookup_name es (doc_map "EIGEN_METHODS") in                    (* unknown eigensolver -> 1 *)
  let? cs := str_of g ["cs"; "computation-strategy"] "cpu" in
  let? cst := lookup_name cs (doc_map "COMPUTATION_STRATEGIES") in
  let? td := int_of g ["td"; "target-dimension"] 2 in
  if cmpZ CLe td 0 then Exit 1%Z else                                        (* non-positive target dimension *)
  let? k := int_of g ["k"; "num-neighbors"] 10 in
  if cmpZ CLt k 3 then Exit 1%Z else                                         (* fewer than 3 neighbours *)
  let? gw := dbl_of g ["gw"; "gaussian-width"] (1 # 1) in
  if cmpQ CLt gw (0 # 1) then Exit 1%Z else                                  (* negative width *)
  let? ts := int_of g ["timesteps"] 1 in
  if cmpZ CLt ts 0 then Exit 1%Z else                                        (* negative timestep count *)
  let? fe := dbl_of g ["fa-epsilon"] (1 # 100000) in
  let? lr := dbl_of g ["landmark-ratio"] (1 # 5) in
  let? mi := int_of g ["max-iters"] 1000 in
  let? sh := dbl_of g ["eigenshift"] (1 # 1000000000) in
  let? pe := dbl_of g ["sne-perplexity"] (30 # 1) in
  let? th := dbl_of g ["sne-theta"] (1 # 2) in
  let? nu := int_of g ["spe-num-updates"] 100 in
  let? tol := dbl_of g ["spe-tolerance"] (1 # 100000) in
  let? sq := dbl_of g ["squishing-rate"] (99 # 100) in
  let? dl := str_of g ["d"; "delimiter"] "," in
  let? fi := str_of g ["i"; "input-file"] "/dev/stdin" in
  let? fo := str_of g ["o"; "output-file"] "/dev/stdout" in
  let? fpm := str_of g ["opmat"; "output-projection-matrix-file"] "/dev/null" in
  let? fpv := str_of g ["opmean"; "output-projection-mean-file"] "/dev/null" in
  Run [ ("check_connectivity", VBool true);
        ("computation_strategy", VEnum cst);
        ("diffusion_map_timesteps", VInt ts);
        ("eigen_method", VEnum em);
        ("fa_epsilon", VDbl fe);
        ("gaussian_kernel_width", VDbl gw);
        ("landmark_ratio", VDbl lr);
        ("max_iteration", VInt mi);
        ("method", VEnum m);
        ("neighbors_method", VEnum nm);
        ("nullspace_shift", VDbl sh);
        ("num_neighbors", VInt k);
        ("sne_perplexity", VDbl pe);
        ("sne_theta", VDbl th);
        ("spe_global_strategy", VBool (negb (flag g ["spe-local"])));      (* --spe-local = local strategy *)
        ("spe_num_updates", VInt nu);
        ("spe_tolerance", VDbl tol);
        ("squishing_rate", VDbl sq);
        ("target_dimension", VInt td) ]
      [ ("delimiter_projection", first_char dl);
        ("delimiter_read", first_char dl);
        ("delimiter_write", first_char dl);
        ("input_file", VStr fi);
        ("output_file", VStr fo);
        ("precompute_when", VBool (flag g ["precompute"]));
        ("projection_matrix_file", VStr fpm);
        ("projection_mean_file", VStr fpv);
        ("transpose_input_when", VBool (negb (flag g ["transpose-input"])));   (* a line is a sample unless ... *)
        ("transpose_output_when", VBool (flag g ["transpose-output"]));
        ("write_projection_when", VBool (flag g ["opmat"; "output-projection-matrix-file"]
                                         && flag g ["opmean"; "output-projection-mean-file"])) ].

(* the invalid inputs the property lists (rows of unequal length: see section 4) *)
Definition bad_input (g : view) : Prop :=
  (exists s, str_of g ["m"; "method"] "locally_linear_embedding" = Some s /\
             lookup_name s (doc_map "DIMENSION_REDUCTION_METHODS") = None)
  \/ (exists s, str_of g ["nm"; "neighbors-method"] "covertree" = Some s /\
                lookup_name s (doc_map "NEIGHBORS_METHODS") = None)
  \/ (exists s, str_of g ["em"; "eigen-method"] "dense" = Some s /\
                lookup_name s (doc_map "EIGEN_METHODS") = None)
  \/ (exists z, int_of g ["td"; "target-dimension"] 2 = Some z /\ (z <= 0)%Z)
  \/ (exists z, int_of g ["k"; "num-neighbors"] 10 = Some z /\ (z < 3)%Z)
  \/ (exists q, dbl_of g ["gw"; "gaussian-width"] (1 # 1) = Some q /\ (q < 0)%Q)
  \/ (exists z, int_of g ["timesteps"] 1 = Some z /\ (z < 0)%Z).

Definition spec_decide (a : args) : outcome := spec_view (args_ok doc_options a) (view_of a).

(* ---------------------------------------------------------------------- *)
(*  3. decision procedures on what the executable did                      *)
(* ---------------------------------------------------------------------- *)
Definition value_eqb (x y : value) : bool :=
  match x, y with
  | VBool a, VBool b => Bool.eqb a b
  | VInt a, VInt b => (a =? b)%Z
  | VDbl a, VDbl b => Qeq_bool a b
  | VStr a, VStr b => String.eqb a b
  | VEnum a, VEnum b => String.eqb a b
  | VChar None, VChar None => true
  | VChar (Some a), VChar (Some b) => Ascii.eqb a b
  | _, _ => false
  end.

(* an observation: the exit status and the parameters the library reported receiving
   (--debug echo, keyed by the library keyword) *)
Definition obs_ok (a : args) (code : Z) (echo : list (string * value)) : bool :=
  match spec_decide a with
  | Exit c => negb (code =? 0)%Z && (c =? 1)%Z          (* must fail (documented: non-zero) *)
  | Run ps _ =>
    forallb (fun kv => match assoc (fst kv) ps with
                       | Some v => value_eqb v (snd kv)
                       | None => true                    (* a parameter the CLI does not set *)
                       end) echo
  | Stuck => false
  end.

(* ---------------------------------------------------------------------- *)
(*  4. files                                                               *)
(* ---------------------------------------------------------------------- *)
Section FileSpec.
  Variable V : Type.

  (* a rectangular matrix with at least one column, as a list of rows *)
  Definition rect (c : nat) (m : list (list V)) : Prop := Forall (fun r => length r = c) m.

  Definition rectb (c : nat) (m : list (list V)) : bool := forallb (fun r => Nat.eqb (length r) c) m.

  (* mathematical transpose of an r x c matrix given by rows *)
  Definition entry (m : list (list V)) (i j : nat) : option V :=
    match nth_error m i with Some r => nth_error r j | None => None end.
End FileSpec.

Fixpoint has_char (c : ascii) (s : string) : bool :=
  match s with EmptyString => false | String x r => Ascii.eqb x c || has_char c r end.

(* a token a number prints as: not empty, free of the delimiter and of the newline *)
Definition clean (d : ascii) (s : string) : bool :=
  negb (is_empty s) && negb (has_char d s) && negb (has_char nl s).
