(* Shapes_Proof_Tie.v — C01: the hand-written model of Shapes_Model.v agrees, for ALL sizes, with the
   tables regenerated from the C++ working tree on every run of the check:
     gen/ShapesSrc.v      (t_shapes: sizing / index expressions of SPE, find_neighbors, LTSA/HLLE, t-SNE)
     gen/Validate_C01.v   (t_val: the target_dimension / num_neighbors clauses of validate() and embed())
     gen/EigSelect_C01.v  (t_eig: the block selectors of the eigensolver front-ends)
   An edit of one of those expressions changes a table and one of these proofs stops checking.  The
   comparisons are SEMANTIC (values for all sizes, by lia), so re-writing a statement without changing
   what it computes (while -> if -> std::min, a + b -> b + a, [1, D] -> [1, D + 1)) keeps them. *)
From Coq Require Import ZArith List Bool Lia String QArith Lqa.
From TK Require Import Shapes_Model Shapes_Spec Shapes_Proof_Base Shapes_Proof_Routines.
From TK Require Import Validate_Model Mat_EigSelect Shapes_Src ShapesSrc Validate_C01 EigSelect_C01 Shapes_SrcTie.
Import ListNotations.
Open Scope Z_scope.

(* lia with truncating and flooring division *)
Ltac Zify.zify_post_hook ::= Z.to_euclidean_division_equations.

(* ---------------------------------------------------------------- sizing / index expressions *)
Ltac facts_tac :=
  unfold facts_agree; split;
  [ intros [N D d k K nu j kk dp] (HN & HD & Hd & Hk & HK & Hnu & Hj & Hkk & Hdp);
    cbn [s_N s_D s_d s_k s_K s_nu s_j s_kk s_dp] in *;
    cbn [sx_eval s_get s_N s_D s_d s_k s_K s_nu s_j s_kk s_dp
         f_spe_clamp f_spe_ind2 f_spe_sel f_spe_nbsize f_spe_nbwrite f_spe_rscale f_spe_roff f_spe_bufs
         f_spe_indices f_nb_clamp f_ltsa_cols f_hlle_dp f_hlle_cols f_hlle_ct f_tsne_rowp f_tsne_colp
         f_tsne_curp];
    unfold spe_clamp_step;
    destruct (N / 2 <? nu) eqn:E1; [apply Z.ltb_lt in E1|apply Z.ltb_ge in E1];
    (destruct (N - 1 <? k) eqn:E2; [apply Z.ltb_lt in E2|apply Z.ltb_ge in E2]);
    repeat split; try lia; try nia
  | repeat split; reflexivity ].

Theorem ref_facts_agree : facts_agree ref_facts.
Proof. unfold ref_facts. facts_tac. Qed.

(* the expressions of the CURRENT source denote what the model uses *)
Theorem src_facts_tied : facts_agree gen_facts.
Proof. unfold gen_facts. facts_tac. Qed.

Corollary src_facts_never_differ : forall E, nonneg E -> facts_differ_at gen_facts ref_facts E = false.
Proof.
  intros E HE. destruct src_facts_tied as (A & B & C & T1 & T2 & T4 & T3 & T5 & T6).
  destruct ref_facts_agree as (A' & B' & C' & T1' & T2' & T4' & T3' & T5' & T6').
  specialize (A E HE). specialize (A' E HE).
  destruct A as (a1 & a2 & a3 & a4 & a5 & a6 & a7 & a8 & a9 & a10 & a11 & a12 & a13 & a14 & a15 & a16 & a17).
  destruct A' as (b1 & b2 & b3 & b4 & b5 & b6 & b7 & b8 & b9 & b10 & b11 & b12 & b13 & b14 & b15 & b16 & b17).
  unfold facts_differ_at.
  rewrite a1, a2, a3, a4, a5, a6, a7, a8, a9, a10, a11, a12, a13, a14, a15, a16, a17.
  rewrite b1, b2, b3, b4, b5, b6, b7, b8, b9, b10, b11, b12, b13, b14, b15, b16, b17.
  rewrite B, B', C, C', T1, T1', T2, T2', T4, T4', T3, T3', T5, T5', T6, T6'. rewrite !Z.eqb_refl. reflexivity.
Qed.

(* ---------------------------------------------------------------- wave 3: exception safety / calling context / annealing *)
(* no throw statement lexically inside an OpenMP region: whatever fails, no region of tapkee ends in std::terminate *)
Theorem omp_regions_never_terminate : forall F, facts_agree F ->
  forall fails, region_run (f_omp_throws F) fails = RegionDone.
Proof. intros F (_ & _ & _ & T1 & _) fails. rewrite T1. reflexivity. Qed.

Corollary src_omp_regions_never_terminate : forall fails, region_run (f_omp_throws gen_facts) fails = RegionDone.
Proof. exact (omp_regions_never_terminate gen_facts src_facts_tied). Qed.

Theorem omp_throw_in_region_refuted : forall site rest fails,
  fails site = true -> region_run (site :: rest) fails = RegionTerminate.
Proof. intros site rest fails H. unfold region_run. cbn [existsb]. rewrite H. reflexivity. Qed.

(* no orphaned work-sharing construct: every work-sharing loop of tapkee completes all of its iterations before the
   calling thread continues, whatever the size T of the team the application calls from *)
Definition site_eqb (a b : string * Z) : bool := String.eqb (fst a) (fst b) && (snd a =? snd b).

Theorem omp_worksharing_complete : forall F, facts_agree F ->
  forall site T n, ws_done (existsb (site_eqb site) (f_omp_orphans F)) T n = n.
Proof. intros F (_ & _ & _ & _ & T2 & _) site T n. rewrite T2. reflexivity. Qed.

Corollary src_omp_worksharing_complete : forall site T n,
  ws_done (existsb (site_eqb site) (f_omp_orphans gen_facts)) T n = n.
Proof. exact (omp_worksharing_complete gen_facts src_facts_tied). Qed.

Theorem omp_orphan_refuted : forall T n, 1 < T -> T < n -> ws_done true T n < n.
Proof.
  intros T n HT Hn. unfold ws_done. cbn [andb]. destruct (1 <? T) eqn:E; [|apply Z.ltb_ge in E; lia].
  apply Z.div_lt_upper_bound; nia.
Qed.

(* every self-recursive function of the source is one of those whose depth is accounted for (Shapes_Src.rec_allowed) *)
Lemma pair_eqb_eq : forall a b, pair_eqb a b = true -> a = b.
Proof.
  intros [a1 a2] [b1 b2] H. unfold pair_eqb in H. cbn [fst snd] in H. apply andb_true_iff in H. destruct H as (H1 & H2).
  apply String.eqb_eq in H1. apply String.eqb_eq in H2. subst. reflexivity.
Qed.

Theorem recursion_allowlisted : forall F, facts_agree F -> forall x, In x (f_recursive F) -> In x rec_allowed.
Proof.
  intros F (_ & _ & _ & _ & _ & T4 & _) x Hx. unfold rec_ok in T4. rewrite forallb_forall in T4.
  specialize (T4 x Hx). apply existsb_exists in T4. destruct T4 as (y & Hy & E). apply pair_eqb_eq in E. subst. exact Hy.
Qed.

Corollary src_recursion_allowlisted : forall x, In x (f_recursive gen_facts) -> In x rec_allowed.
Proof. exact (recursion_allowlisted gen_facts src_facts_tied). Qed.

Theorem recursion_new_function_refuted :
  rec_ok [("neighbors/connected.hpp"%string, "visit_reachable"%string)] = false.
Proof. vm_compute. reflexivity. Qed.

(* SPE annealing: dividing by the bound of the loop the statement sits in is always a division by >= 1, and the
   learning rate stays in [0, 1] (finite) after any number of iterations *)
Lemma anneal_step_ok : forall M lam, 1 <= M -> (0 <= lam)%Q -> (lam <= 1)%Q ->
  exists l, anneal_step M lam = Some l /\ (0 <= l)%Q /\ (l <= 1)%Q.
Proof.
  intros M lam HM H0 H1. unfold anneal_step. destruct (M =? 0) eqn:E; [apply Z.eqb_eq in E; lia|].
  eexists; split; [reflexivity|].
  assert (HQ : (1 <= inject_Z M)%Q) by (change (inject_Z 1 <= inject_Z M)%Q; rewrite <- Zle_Qle; exact HM).
  assert (Hne : ~ (inject_Z M == 0)%Q) by (intro Hc; rewrite Hc in HQ; apply (Qle_not_lt _ _ HQ); reflexivity).
  assert (Hpos : (0 < inject_Z M)%Q) by (eapply Qlt_le_trans; [|exact HQ]; reflexivity).
  set (x := (lam / inject_Z M)%Q).
  assert (Hx : (x * inject_Z M == lam)%Q) by (unfold x; field; exact Hne).
  assert (Hx0 : (0 <= x)%Q).
  { unfold x. apply Qle_shift_div_l; [exact Hpos|]. rewrite Qmult_0_l. exact H0. }
  generalize dependent x. generalize dependent (inject_Z M). intros m HQ Hne Hpos x Hx Hx0.
  assert (Hxl : (x <= lam)%Q) by nra.
  split; lra.
Qed.

Lemma spe_anneal_ok : forall iters M lam, 1 <= M -> (0 <= lam)%Q -> (lam <= 1)%Q ->
  exists l, spe_anneal iters M lam = Some l /\ (0 <= l)%Q /\ (l <= 1)%Q.
Proof.
  induction iters as [|n IH]; intros M lam HM H0 H1; cbn [spe_anneal].
  - exists lam. auto.
  - destruct (anneal_step_ok M lam HM H0 H1) as (l & E & A & B). rewrite E. apply IH; assumption.
Qed.

Theorem spe_lambda_finite : forall bound,
  exists l, spe_lambda_final bound bound = Some l /\ (0 <= l)%Q /\ (l <= 1)%Q.
Proof.
  intros bound. unfold spe_lambda_final. destruct (Z_lt_le_dec bound 1) as [Hs|Hb].
  - replace (Z.to_nat bound) with O by lia. cbn [spe_anneal]. exists 1%Q. repeat split; unfold Qle; cbn; lia.
  - apply spe_anneal_ok; [exact Hb|unfold Qle; cbn; lia|unfold Qle; cbn; lia].
Qed.

(* as the source has it *)
Corollary src_spe_lambda_finite : forall bound other,
  exists l, spe_lambda_src gen_facts bound other = Some l /\ (0 <= l)%Q /\ (l <= 1)%Q.
Proof.
  intros bound other. unfold spe_lambda_src. destruct src_facts_tied as (_ & _ & _ & _ & _ & _ & T3 & _). rewrite T3.
  apply spe_lambda_finite.
Qed.

(* a divisor that is NOT the loop bound: max_iteration = 0 ("automatic") with a loop that runs >= 1 times *)
Theorem spe_lambda_other_divisor_refuted : forall bound, 1 <= bound -> spe_lambda_final bound 0 = None.
Proof.
  intros bound Hb. unfold spe_lambda_final. destruct (Z.to_nat bound) as [|n] eqn:E; [lia|]. reflexivity.
Qed.

(* the SPE clamp as the source writes it: at most half of the points form the first index set *)
Corollary src_spe_clamp_halves : forall N nu,
  0 <= N -> 0 <= nu ->
  let E := {| s_N := N; s_D := 0; s_d := 0; s_k := 0; s_K := 0; s_nu := nu; s_j := 0; s_kk := 0; s_dp := 0 |} in
  2 * Z.min nu (sx_eval E (f_spe_clamp gen_facts)) <= N.
Proof.
  intros N nu HN Hnu E. destruct src_facts_tied as (A & _).
  assert (HE : nonneg E) by (unfold nonneg, E; cbn; lia).
  destruct (A E HE) as (a1 & _). unfold E in *. cbn [s_N s_nu] in a1. rewrite a1. unfold spe_clamp_step.
  destruct (N / 2 <? nu) eqn:E1; [apply Z.ltb_lt in E1|apply Z.ltb_ge in E1]; lia.
Qed.

(* ---------------------------------------------------------------- validate() *)
Ltac cmp_tac :=
  repeat match goal with
  | |- context [?a <=? ?b] => destruct (Z.leb_spec a b)
  | |- context [?a <? ?b] => destruct (Z.ltb_spec a b)
  | |- context [?a =? ?b] => destruct (Z.eqb_spec a b)
  end; cbn [andb orb negb Bool.eqb]; try reflexivity; try (exfalso; lia).

Ltac table_tac f :=
  match goal with
  | |- context [f ?T ?m] => let y := fresh "y" in set (y := f T m); vm_compute in y; subst y
  end.

Ltac eval_tac :=
  repeat (progress (
    cbn [option_map forallb existsb zx_eval zc_guards zc_lo zc_hi
         c_m c_N c_D c_d c_k c_dense c_scalars_ok c_L c_exact c_K c_global c_nupd];
    unfold zclauses_eval, zclause_eval, zclause_active, zlo_eval, zhi_eval, zg_eval));
  cbn [andb orb negb Bool.eqb].

(* target_dimension against the clauses of the selected method's validate(), as generated from the
   source, is what Shapes_Model.validate computes (head variant; scalar predicates apart) *)
Theorem validate_tied : forall c,
  td_gen gen_tables c = Some (validate head (with_scalars_ok c)).
Proof.
  intros [m N D d k dn sc L ex K gl nu]. unfold td_gen, validate, with_scalars_ok.
  cbn [c_m c_N c_D c_d c_k c_dense c_scalars_ok c_L c_exact c_K c_global c_nupd v_f21 v_f12 head].
  destruct m; table_tac td_clauses; eval_tac; f_equal;
    destruct ex; cbn [andb orb negb Bool.eqb]; cmp_tac.
Qed.

(* the base constructor's range check *)
Theorem base_td_tied : forall c,
  base_td_gen gen_tables c = Some ((1 <=? c_d c) && (c_d c <? c_N c)).
Proof.
  intros [m N D d k dn sc L ex K gl nu]. unfold base_td_gen.
  match goal with |- context [base_clauses ?T] => set (y := base_clauses T); vm_compute in y; subst y end.
  eval_tac. f_equal. cmp_tac.
Qed.

(* num_neighbors: checked (in [3, N)) exactly by the methods the model sends through neighbors_stage *)
Theorem nn_tied : forall c, nn_gen gen_tables c = Some (nn_model c).
Proof.
  intros [m N D d k dn sc L ex K gl nu]. unfold nn_gen, nn_model, uses_neighbors.
  cbn [c_m c_N c_D c_d c_k c_dense c_scalars_ok c_L c_exact c_K c_global c_nupd].
  destruct m; table_tac nn_clauses; eval_tac; try reflexivity;
    try (destruct gl; cbn [andb orb negb Bool.eqb]; try reflexivity); f_equal; f_equal; cmp_tac.
Qed.

Corollary validate_never_differs : forall c, validate_differs_cfg gen_tables c = false.
Proof.
  intros c. unfold validate_differs_cfg. rewrite validate_tied, base_td_tied, nn_tied.
  cbn [opt_bool_eqb]. rewrite !eqb_reflx. destruct (nn_model c); cbn; [rewrite eqb_reflx|]; reflexivity.
Qed.

(* ---------------------------------------------------------------- eigen slices *)
Lemma res_ok_iff r : res_ok r = true <-> r = Ok.
Proof. destruct r; cbn; split; intros; congruence. Qed.

Lemma res_ok_eq a b : (a = Ok <-> b = Ok) -> Bool.eqb (res_ok a) (res_ok b) = true.
Proof.
  intros H. destruct (res_ok a) eqn:A, (res_ok b) eqn:B; cbn; try reflexivity.
  - apply res_ok_iff in A. apply H in A. apply res_ok_iff in A. congruence.
  - apply res_ok_iff in B. apply H in B. apply res_ok_iff in B. congruence.
Qed.

Ltac branch_tac :=
  match goal with
  | |- context [find_branch ?T ?f ?g ?l] =>
      let y := fresh "y" in set (y := find_branch T f g l); vm_compute in y; subst y
  end.

Ltac eig_side :=
  unfold eig_of_table; branch_tac; cbv iota beta;
  cbn [ops_z op_z ixz base_z b_base b_cols b_vals Z.of_nat];
  apply negb_false_iff; apply res_ok_eq;
  unfold eig_dense; rewrite ?seq_ok, ?blk_ok;
  split; intros HH; repeat split; try reflexivity; lia.

(* every generated slice accepts exactly the (n, d, skip) the model's eig_dense / eig_randomized accept
   (head: the eigenvalue slice is segment(skip, skip + d), known finding F7) *)
Theorem eig_tied : forall n d skip, 0 <= n -> 0 <= d -> 0 <= skip ->
  eig_differs_at eig_table n d skip = false.
Proof.
  intros n d skip Hn Hd Hs. unfold eig_differs_at. cbv zeta.
  repeat (apply orb_false_iff; split).
  - eig_side.
  - eig_side.
  - eig_side.
  - eig_side.
  - eig_side.
  - eig_side.
Qed.

(* the skip values of the three strategies *)
Theorem skip_tied :
  skip_of skip_table "LargestEigenvalues" = Some 0%nat /\
  skip_of skip_table "SquaredLargestEigenvalues" = Some 0%nat /\
  skip_of skip_table "SmallestEigenvalues" = Some 1%nat.
Proof. repeat split; vm_compute; reflexivity. Qed.

(* ---------------------------------------------------------------- the detector of the search phase *)
Theorem src_never_differs : forall c keff,
  0 <= c_N c -> 0 <= c_D c -> 0 <= c_d c -> 0 <= keff -> 0 <= c_K c -> 0 <= c_nupd c -> 0 <= c_L c ->
  src_differs c keff = false.
Proof.
  intros c keff HN HD Hd Hk HK Hnu HL. unfold src_differs.
  rewrite validate_never_differs, orb_false_r.
  apply orb_false_iff. split.
  - unfold facts_differ_cfg, envs_of. cbn [existsb].
    assert (Hdp : 0 <= c_d c * (c_d c + 1) / 2) by (apply Z.div_pos; nia).
    rewrite !src_facts_never_differ; [reflexivity| | |]; unfold nonneg; cbn [s_N s_D s_d s_k s_K s_nu s_j s_kk s_dp];
      repeat split; try lia.
  - unfold eig_differs_cfg, eig_points.
    destruct (c_m c); cbn [existsb]; rewrite ?eig_tied; try reflexivity; lia.
Qed.
