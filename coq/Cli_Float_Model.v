(* ====================================================================== *)
(*  Cli_Float_Model.v — binary64 (Coq primitive floats) model of the two   *)
(*  ways of tabulating Euclidean distances for --precompute.  NO proofs.   *)
(*                                                                         *)
(*  direct   : tapkee::eigen_distance_callback (callbacks/eigen_callbacks) *)
(*             distance(a,b) = (x_a - x_b).norm() = sqrt(sum (x_ai-x_bi)^2)*)
(*             — what src/cli/main.cpp tabulates through                   *)
(*             matrix_from_callback(N, eigen_distance_callback(input)).    *)
(*  expanded : the "one matrix product" variant (seeded change C20_3,      *)
(*             helper euclidean_distance_matrix):                          *)
(*               sn     = features.colwise().squaredNorm()                 *)
(*               result = -2.0 * (features^T * features)                   *)
(*               result.colwise() += sn;  result.rowwise() += sn^T         *)
(*               result = result.cwiseMax(0.0).cwiseSqrt(); diagonal = 0   *)
(*             i.e. entry (a,b) = sqrt(max(0, ((-2<x_a,x_b>) + |x_a|^2)    *)
(*                                          + |x_b|^2)),  0 on the diagonal*)
(*  Sums are accumulated left to right (for vectors of at most 3           *)
(*  coordinates that is also the order of Eigen's SSE2 reduction: one      *)
(*  packet of two products, then the scalar tail); no fused multiply-add   *)
(*  (the build has no -march flag).  The witnesses of Cli_Proof_Expand.v   *)
(*  have 1 and 3 coordinates.                                              *)
(* ====================================================================== *)
From Coq Require Import List Floats.
Import ListNotations.
Local Open Scope float_scope.

Fixpoint fdot_acc (acc : float) (u v : list float) : float :=
  match u, v with
  | x :: u', y :: v' => fdot_acc (acc + x * y) u' v'
  | _, _ => acc
  end.

Definition fdot (u v : list float) : float :=
  match u, v with
  | x :: u', y :: v' => fdot_acc (x * y) u' v'
  | _, _ => 0
  end.

Definition fsub (u v : list float) : list float :=
  map (fun p => fst p - snd p) (combine u v).

(* (x_a - x_b).norm() *)
Definition direct_distance (u v : list float) : float :=
  let d := fsub u v in sqrt (fdot d d).

(* scalar_max_op: (a < b) ? b : a with b = 0.0 *)
Definition fmax0 (x : float) : float := if x <? 0 then 0 else x.

Definition expanded_entry (u v : list float) : float :=
  sqrt (fmax0 ((((-2) * fdot u v) + fdot u u) + fdot v v)).

Definition direct_table (X : nat -> list float) (a b : nat) : float :=
  direct_distance (X (Nat.min a b)) (X (Nat.max a b)).

Definition expanded_table (X : nat -> list float) (a b : nat) : float :=
  if Nat.eqb a b then 0 else expanded_entry (X a) (X b).
