(* ====================================================================== *)
(*  Lap_Proof_AbsEps.v — the "smallest NON-ZERO eigenvalues" clause of     *)
(*  property C09 against an ABSOLUTE null-space threshold (regression for  *)
(*  the seeded change C09_3).                                              *)
(*                                                                         *)
(*  skip_while_small_stays      the extra skipping loop does nothing when  *)
(*      the eigenvalue at the initial offset is not below eps              *)
(*  le_abs_eps_agrees           hence the variant returns exactly the      *)
(*      shipped selection whenever ~ (lam_1 < eps): the two differ ONLY on *)
(*      pencils with a non-zero eigenvalue below eps (all N, d, V, lam)    *)
(*  le_abs_eps_refuted          a weakly coupled 4-cycle (bridging weights *)
(*      10^-12, all hypotheses of le_smallest_nonzero hold: connected,     *)
(*      positive weights, contract, ascending): lam = (0, 10^-12,          *)
(*      2 - 10^-12, 2); with eps = 10^-9 and d = 1 the variant returns the *)
(*      column of lam_2 although 0 < lam_1 < lam_2: a genuine non-zero     *)
(*      eigenvalue is discarded, the clause fails; the shipped selection   *)
(*      returns the column of lam_1 on the same answer.                    *)
(* ====================================================================== *)
Require Import Arith Lia List Bool ZArith QArith Qcanon.
From TK Require Import Mat_Sums Mat_Core Mat_Qc Mat_EigSelect EigSelect Lap_Model Lap_Spec Lap_Proof_Lap
                       Lap_Proof_Embed Lap_Proof_Order.
Import ListNotations.
Local Open Scope list_scope.
Local Open Scope nat_scope.

Section Generic.
  Context {F : Type}.
  Variable ltb : F -> F -> bool.

  Lemma skip_while_small_stays (lam : vec F) (eps : F) (N d fuel skip : nat) :
    ltb (lam skip) eps = false -> skip_while_small ltb lam eps N d fuel skip = skip.
  Proof.
    intros H. destruct fuel as [|f]; [reflexivity|].
    cbn [skip_while_small]. rewrite H. rewrite !andb_false_r. reflexivity.
  Qed.

  Lemma le_abs_eps_agrees (N d : nat) (V : mat F) (lam : vec F) (eps : F) :
    d + 1 <= N -> ltb (lam 1) eps = false ->
    exists Y Y', le_embedding_abs_eps ltb N d V lam eps = Some Y /\ le_embedding N d V = Some Y' /\
                 forall r c, Y r c = Y' r c.
  Proof.
    intros Hd Hl. unfold le_embedding_abs_eps, le_embedding.
    rewrite (le_select_ok N d Hd). cbn [fst].
    rewrite (skip_while_small_stays lam eps N d N 1 Hl).
    assert (E : Nat.leb (1 + d) N = true) by (apply Nat.leb_le; lia).
    rewrite E. eexists. eexists. split; [reflexivity|]. split; [reflexivity|]. intros r c. reflexivity.
  Qed.
End Generic.

(* ---------------- the comparison of the scalar type at Qc ---------------- *)
Definition qc_ltb (x y : Qc) : bool := negb (Qle_bool (this y) (this x)).

Lemma qc_ltb_lt (x y : Qc) : qc_ltb x y = true <-> (x < y)%Qc.
Proof.
  unfold qc_ltb. rewrite negb_true_iff. split.
  - intros H. destruct (Qlt_le_dec (this x) (this y)) as [L|L]; [exact L|].
    apply Qle_bool_iff in L. rewrite L in H. discriminate.
  - intros L. destruct (Qle_bool (this y) (this x)) eqn:E; [|reflexivity].
    apply Qle_bool_iff in E. exfalso. exact (Qlt_not_le _ _ L E).
Qed.

(* ---------------- the witness: a weakly coupled weighted 4-cycle ---------------- *)
(* nodes 0-1 and 2-3 joined by weight a = 2 - b, the bridges 1-2 and 3-0 by weight b = 10^-12; every node lists
   both cycle neighbours, so W = 2 * (weighted adjacency), D = 2 (a + b) I = 4 I; generalised eigenvalues
   0, b, a, 2 with the Hadamard vectors / 4. *)
Definition wk_b : Qc := qfrac 1 1000000000000.
Definition wk_a : Qc := (qz 2 - wk_b)%Qc.
Definition wk_eps : Qc := qfrac 1 1000000000.
Definition wk_nbrs : list (list nat) := [[1; 3]; [0; 2]; [1; 3]; [0; 2]].
Definition wk_bridge (i j : nat) : bool :=
  (Nat.eqb i 1 && Nat.eqb j 2) || (Nat.eqb i 2 && Nat.eqb j 1) || (Nat.eqb i 0 && Nat.eqb j 3)
  || (Nat.eqb i 3 && Nat.eqb j 0).
Definition wk_heat : nat -> nat -> Qc := fun i j => if wk_bridge i j then wk_b else wk_a.
Definition wk_q : Qc := qfrac 1 4.
Definition wk_V : mat Qc :=
  mof [[wk_q; wk_q; wk_q; wk_q]; [wk_q; wk_q; (-wk_q)%Qc; (-wk_q)%Qc];
       [wk_q; (-wk_q)%Qc; (-wk_q)%Qc; wk_q]; [wk_q; (-wk_q)%Qc; wk_q; (-wk_q)%Qc]].
Definition wk_lam : vec Qc := vof [qz 0; wk_b; wk_a; qz 2].
Definition wk_D : mat Qc := mdiag (degD wk_heat 2 wk_nbrs 4).

Lemma wk_hypotheses :
  (forall i q, i < 4 -> q < 2 -> nb_at wk_nbrs i q < 4) /\
  (forall i q, i < 4 -> q < 2 -> (0 < wk_heat i (nb_at wk_nbrs i q))%Qc) /\
  lconnected 4 wk_nbrs 2 /\
  msym 4 wk_D /\
  gen_contract 4 (matL wk_heat 2 wk_nbrs 4) wk_D wk_V wk_lam /\
  (forall a b, a <= b -> b < 4 -> (wk_lam a <= wk_lam b)%Qc).
Proof.
  split.
  { intros i q Hi Hq. destruct i as [|[|[|[|i]]]]; destruct q as [|[|q]]; cbn; lia. }
  split.
  { intros i q Hi Hq. destruct i as [|[|[|[|i]]]]; destruct q as [|[|q]]; try lia; reflexivity. }
  split.
  { intros i Hi. destruct i as [|[|[|[|i]]]]; try lia.
    - apply lr_refl.
    - apply (lr_fwd 4 wk_nbrs 2 0 0 0); [apply lr_refl|lia|lia].
    - apply (lr_fwd 4 wk_nbrs 2 0 1 1); [|lia|lia].
      apply (lr_fwd 4 wk_nbrs 2 0 0 0); [apply lr_refl|lia|lia].
    - apply (lr_fwd 4 wk_nbrs 2 0 0 1); [apply lr_refl|lia|lia]. }
  split; [apply mdiag_sym|].
  split.
  { split; apply meq_by_compute; vm_compute; reflexivity. }
  intros a b Hab Hb.
  destruct a as [|[|[|[|a]]]]; destruct b as [|[|[|[|b]]]]; try lia; vm_compute; discriminate.
Qed.

(* the variant discards the genuine non-zero eigenvalue lam_1 = 10^-12; the shipped selection keeps it *)
Lemma le_abs_eps_refuted :
  exists (heat : nat -> nat -> Qc) (n : nat) (nbrs : list (list nat)) (k d : nat) (Dm V : mat Qc) (lam : vec Qc)
         (eps : Qc) (Y Y' : mat Qc),
    d + 1 <= n /\
    (forall i q, i < n -> q < k -> nb_at nbrs i q < n) /\
    (forall i q, i < n -> q < k -> (0 < heat i (nb_at nbrs i q))%Qc) /\
    lconnected n nbrs k /\
    msym n Dm /\
    gen_contract n (matL heat k nbrs n) Dm V lam /\
    (forall a b, a <= b -> b < n -> (lam a <= lam b)%Qc) /\
    (0 < eps)%Qc /\
    le_embedding_abs_eps qc_ltb n d V lam eps = Some Y /\
    le_embedding n d V = Some Y' /\
    (forall r, Y r 0 = V r 2) /\ (forall r, Y' r 0 = V r 1) /\
    (0 < lam 1%nat)%Qc /\ (lam 1%nat < lam 2%nat)%Qc /\
    ~ le_spec n d (matL heat k nbrs n) Dm Y (fun c => lam (1 + c)).
Proof.
  destruct wk_hypotheses as (H1 & H2 & H3 & H4 & H5 & H6).
  exists wk_heat, 4, wk_nbrs, 2, 1, wk_D, wk_V, wk_lam, wk_eps.
  exists (fun r c => wk_V r (2 + c)), (fun r c => wk_V r (1 + c)).
  split; [lia|]. split; [exact H1|]. split; [exact H2|]. split; [exact H3|]. split; [exact H4|].
  split; [exact H5|]. split; [exact H6|].
  split; [vm_compute; reflexivity|].
  split; [vm_compute; reflexivity|].
  split; [vm_compute; reflexivity|].
  split; [intros r; reflexivity|].
  split; [intros r; reflexivity|].
  split; [vm_compute; reflexivity|].
  split; [vm_compute; reflexivity|].
  intros S.
  (* le_spec says L y_0 = lam_1 Dm y_0 for the returned column y_0 = V(:,2); entry 0 computes to a contradiction *)
  destruct S as (E & _).
  specialize (E 0 (Nat.lt_0_succ 0)).
  unfold gen_eigvec in E.
  specialize (E 0 ltac:(lia)).
  revert E. vm_compute. discriminate.
Qed.
