(* Dijkstra_Proof_Iso.v — second clause of C04: the matrix Isomap decomposes is (after
   the repair) / is not (as shipped, defect F23) the classical-MDS matrix of the
   geodesics. *)
From Coq Require Import Field Ring List ZArith Arith Lia Qcanon.
From TK Require Import Mat_Sums Mat_Core Mat_Qc Dijkstra_IsoModel.
Import ListNotations.

Section IsoProof.
  Context {F : Type} {Fo : FieldOps F} {Ff : IsField F}.
  Add Field IsoField : (@Fth F Fo Ff).
  Local Open Scope F_scope.

  Lemma mul_neq0 : forall a b : F, a <> 0 -> b <> 0 -> a * b <> 0.
  Proof.
    intros a b Ha Hb H. apply Hb.
    transitivity (/ a * (a * b)); [field; assumption | rewrite H; ring].
  Qed.

  (* the repaired code: exactly -1/2 J S J *)
  Theorem iso_fixed_is_mds : forall n (G : mat F), of_nat n <> 0 ->
      meq n n (iso_fixed n G) (mds_ref n G).
  Proof.
    intros n G Hn i j Hi Hj. unfold iso_fixed, mds_ref, mscale.
    rewrite (center_matrix_sym n (sym_avg (sq_mat G)) Hn (sym_avg_sym n _) i j Hi Hj).
    reflexivity.
  Qed.

  Lemma center_matrix_meq : forall n (M M' : mat F), meq n n M M' ->
      meq n n (center_matrix n M) (center_matrix n M').
  Proof.
    intros n M M' H i j Hi Hj. unfold center_matrix, grandmean, colmean, totsum, colsum.
    rewrite (H i j Hi Hj).
    rewrite (sumn_ext n (fun i0 => sumn n (fun j0 => M i0 j0)) (fun i0 => sumn n (fun j0 => M' i0 j0)))
      by (intros a Ha; apply sumn_ext; intros b Hb; apply H; assumption).
    rewrite (sumn_ext n (fun i0 => M i0 j) (fun i0 => M' i0 j)) by (intros a Ha; apply H; assumption).
    rewrite (sumn_ext n (fun i0 => M i0 i) (fun i0 => M' i0 i)) by (intros a Ha; apply H; assumption).
    reflexivity.
  Qed.

  (* the shipped code is right whenever the geodesic matrix is symmetric
     (symmetric neighbourhood relation) *)
  Theorem iso_shipped_ok_if_symmetric : forall n (G : mat F), of_nat n <> 0 -> two <> 0 ->
      msym n G -> meq n n (iso_shipped n G) (mds_ref n G).
  Proof.
    intros n G Hn H2 HG i j Hi Hj.
    rewrite <- (iso_fixed_is_mds n G Hn i j Hi Hj).
    unfold iso_shipped, iso_fixed, mscale. f_equal.
    assert (Hs : msym n (sq_mat G)).
    { intros a b Ha Hb. unfold sq_mat. rewrite (HG a b Ha Hb). reflexivity. }
    apply center_matrix_meq; [|assumption|assumption].
    apply meq_sym. apply sym_avg_of_sym; assumption.
  Qed.

  (* ---- what the dense solver sees of the shipped matrix, in general ---- *)
  Lemma rowsum_sym_avg : forall n (M : mat F) i, two <> 0 ->
      rowsum n (sym_avg M) i = (rowsum n M i + colsum n M i) / two.
  Proof.
    intros n M i H2. unfold rowsum, colsum, sym_avg.
    rewrite (sumn_ext n _ (fun j => / two * (M i j + M j i))) by (intros; field; assumption).
    assert (E : sumn n (fun j => / two * (M i j + M j i)) =
                / two * (sumn n (fun j => M i j) + sumn n (fun i0 => M i0 i))).
    { rewrite sumn_mul_l, sumn_add. reflexivity. }
    rewrite E. field. assumption.
  Qed.

  Lemma colsum_sym_avg : forall n (M : mat F) j, two <> 0 ->
      colsum n (sym_avg M) j = (rowsum n M j + colsum n M j) / two.
  Proof.
    intros n M j H2. unfold rowsum, colsum, sym_avg.
    rewrite (sumn_ext n _ (fun i => / two * (M i j + M j i))) by (intros; field; assumption).
    assert (E : sumn n (fun i => / two * (M i j + M j i)) =
                / two * (sumn n (fun i => M i j) + sumn n (fun j0 => M j j0))).
    { rewrite sumn_mul_l, sumn_add. reflexivity. }
    rewrite E. field. assumption.
  Qed.

  Lemma totsum_sym_avg : forall n (M : mat F), two <> 0 ->
      totsum n n (sym_avg M) = totsum n n M.
  Proof.
    intros n M H2. unfold totsum at 1.
    rewrite (sumn_ext n _ (fun i => / two * (rowsum n M i + colsum n M i))).
    2:{ intros i Hi. change (sumn n (fun j => sym_avg M i j)) with (rowsum n (sym_avg M) i).
        rewrite rowsum_sym_avg by assumption. field. assumption. }
    assert (E : sumn n (fun i => / two * (rowsum n M i + colsum n M i)) =
                / two * (totsum n n M + sumn n (fun j => colsum n M j))).
    { rewrite sumn_mul_l, sumn_add. reflexivity. }
    rewrite E, <- totsum_swap. unfold two in *. field. assumption.
  Qed.

  (* delta i = (row mean - column mean) of the squared geodesics at index i *)
  Definition asym_delta (n : nat) (G : mat F) (i : nat) : F :=
    rowmean n (sq_mat G) i - colmean n (sq_mat G) i.

  Theorem iso_shipped_seen : forall n (G : mat F) i j, of_nat n <> 0 -> two <> 0 ->
      (i < n)%nat -> (j < n)%nat ->
      seen_by_dense (iso_shipped n G) i j =
      mds_ref n G i j - (asym_delta n G i + asym_delta n G j) / (two * two).
  Proof.
    intros n G i j Hn H2 Hi Hj.
    unfold seen_by_dense, iso_shipped, mds_ref, mscale, asym_delta.
    rewrite double_center_entry by assumption.
    unfold sym_avg at 1. unfold center_matrix.
    unfold rowmean, colmean, grandmean.
    rewrite rowsum_sym_avg, colsum_sym_avg, totsum_sym_avg by assumption.
    unfold sym_avg, neg_half. set (M := sq_mat G).
    rewrite !of_nat_mul.
    unfold two in *. field.
    split; [exact Hn | split; [apply mul_neq0; exact H2 | exact H2]].
  Qed.
End IsoProof.

(* ---------- closed instances over Qc and the F23 witness ---------- *)
From TK Require Import Dijkstra_Model Dijkstra_Spec Dijkstra_Proof.

(* a geodesic table (None = unreachable, read as 0: Isomap requires a connected graph) *)
Definition geo_qc (m : list (list (option Z))) : mat Qc :=
  fun i j => match entry_of m i j with Some d => qz d | None => qz 0 end.

(* the geodesics of the directed 3-cycle 0 -> 1 -> 2 -> 0 with |i-j| as distance:
   [[0;1;2];[3;0;1];[2;3;0]] — asymmetric, as for any non-mutual k-NN relation *)
Definition f23_G : mat Qc := geo_qc (sp_matrix f4_nbrs f4_w 3).

Theorem iso_fixed_is_mds_Qc : forall n (G : mat Qc), n <> 0%nat ->
    meq n n (iso_fixed n G) (mds_ref n G).
Proof.
  intros n G Hn. apply iso_fixed_is_mds. apply Qc_of_nat_neq0. assumption.
Qed.

Theorem iso_shipped_seen_Qc : forall n (G : mat Qc) i j, n <> 0%nat -> (i < n)%nat -> (j < n)%nat ->
    seen_by_dense (iso_shipped n G) i j =
    (mds_ref n G i j - (asym_delta n G i + asym_delta n G j) / (two * two))%F.
Proof.
  intros n G i j Hn Hi Hj. apply iso_shipped_seen; try assumption.
  - apply Qc_of_nat_neq0. assumption.
  - apply Qc_two_neq0.
Qed.

Theorem iso_shipped_ok_if_symmetric_Qc : forall n (G : mat Qc), n <> 0%nat ->
    msym n G -> meq n n (iso_shipped n G) (mds_ref n G).
Proof.
  intros n G Hn HG. apply iso_shipped_ok_if_symmetric; try assumption.
  - apply Qc_of_nat_neq0. assumption.
  - apply Qc_two_neq0.
Qed.

(* the shipped matrix, even after the dense solver's own (M+M^T)/2, is not -1/2 J S J *)
Theorem iso_shipped_not_mds :
    seen_by_dense (iso_shipped 3 f23_G) 0%nat 0%nat <> mds_ref 3 f23_G 0%nat 0%nat /\
    iso_shipped 3 f23_G 0%nat 0%nat <> mds_ref 3 f23_G 0%nat 0%nat.
Proof.
  split; intros H; apply (f_equal this) in H; vm_compute in H; discriminate.
Qed.
