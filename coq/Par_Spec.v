(* Par_Spec.v — property C15: what "race-free and schedule-independent" means for Par_Model.

   footprints  R i, W i : K -> Prop   over-approximate the SHARED keys iteration i may read / write
               outside critical sections, along every path of its body (`within`);
   reinit P p  every private key p reads was written earlier by p itself or lies in P
               (P = fun _ => False: the body does not depend on the private state it starts with);
   race        two different threads are both about to access the same shared key, one of them
               writing (private keys of different threads are different memory by construction, a
               critical section is atomic);
   valid_asg   every iteration 0..n-1 is given to exactly one thread, once. *)
From Coq Require Import List Arith Bool.
Import ListNotations.
From TK Require Import Par_Model.

Section ParSpec.
  Variable K : Type.
  Variable V : Type.
  Variable C : Type.
  Notation prog := (prog K V C).
  Notation queues := (queues K V C).

  Fixpoint within (R W : K -> Prop) (p : prog) : Prop :=
    match p with
    | Ret => True
    | Rd l k =>
        match l with
        | Sh x => (R x \/ W x) /\ forall v, within R W (k v)
        | Pr _ => forall v, within R W (k v)
        end
    | Wr l _ k =>
        match l with
        | Sh x => W x /\ within R W k
        | Pr _ => within R W k
        end
    | Crit _ k => within R W k
    end.

  Fixpoint reinit (P : K -> Prop) (p : prog) : Prop :=
    match p with
    | Ret => True
    | Rd l k =>
        match l with
        | Pr x => P x /\ forall v, reinit P (k v)
        | Sh _ => forall v, reinit P (k v)
        end
    | Wr l _ k =>
        match l with
        | Pr x => reinit (fun y => y = x \/ P y) k
        | Sh _ => reinit P k
        end
    | Crit _ k => reinit P k
    end.

  (* Bernstein's condition on the shared footprints of distinct iterations *)
  Definition fp_disjoint (n : nat) (R W : nat -> K -> Prop) : Prop :=
    forall i j x, i < n -> j < n -> i <> j -> W i x -> ~ (R j x \/ W j x).

  Definition valid_asg (n : nat) (asg : nat -> list nat) : Prop :=
    (forall t, NoDup (asg t)) /\
    (forall t u i, In i (asg t) -> In i (asg u) -> t = u) /\
    (forall t i, In i (asg t) -> i < n) /\
    (forall i, i < n -> exists t, In i (asg t)).

  (* wave 3: the team that RUNS the region may execute only part of the iteration space (a hand-made schedule
     with the wrong stride, an orphaned worksharing construct bound to the caller's team): every iteration at
     most once, but not necessarily all of them *)
  Definition partial_asg (n : nat) (asg : nat -> list nat) : Prop :=
    (forall t, NoDup (asg t)) /\
    (forall t u i, In i (asg t) -> In i (asg u) -> t = u) /\
    (forall t i, In i (asg t) -> i < n).
  Definition covered (asg : nat -> list nat) (i : nat) : Prop := exists t, In i (asg t).

  Definition done (qs : queues) : Prop := forall t, qs t = [].

  Definition race (qs : queues) : Prop :=
    exists t u i p r j q s x wt wu,
      t <> u /\ qs t = (i, p) :: r /\ qs u = (j, q) :: s /\
      next_acc p = Some (wt, Sh x) /\ next_acc q = Some (wu, Sh x) /\
      (wt = true \/ wu = true).
End ParSpec.

Arguments within {K V C} R W p.
Arguments reinit {K V C} P p.
Arguments fp_disjoint {K} n R W.
Arguments done {K V C} qs.
Arguments partial_asg n asg : clear implicits.
Arguments covered asg i : clear implicits.
Arguments race {K V C} qs.
