(* ====================================================================== *)
(*  Lle_Proof_GsQc.v — deciding the side conditions of the Gram-Schmidt    *)
(*  theorems at Qc by computation (used by the non-vacuity examples and by *)
(*  anybody who wants to discharge them on concrete data)                  *)
(* ====================================================================== *)
Require Import Arith Lia List Bool ZArith QArith Qcanon.
From TK Require Import Mat_Sums Mat_Core Mat_Qc Lle_Model Lle_Proof_Gs.
Import ListNotations.
Close Scope Qc_scope.
Close Scope Q_scope.
Close Scope Z_scope.

Lemma qeqb_false x y : qeqb x y = false -> x <> y.
Proof. intros H K. apply qeqb_ok in K. rewrite K in H. discriminate. Qed.

Lemma gs_nondegenerate_by_compute (U : list (vec Qc * Qc)) :
  forallb (fun un => negb (qeqb (snd un) 0%F)) U = true -> gs_nondegenerate U.
Proof.
  intros H un Hin. rewrite forallb_forall in H. specialize (H un Hin).
  apply negb_true_iff in H. apply qeqb_false. assumption.
Qed.

Lemma sqrt_ok_by_compute (sqrtf : Qc -> Qc) (U : list (vec Qc * Qc)) :
  forallb (fun un => qeqb (sqrtf (snd un) * sqrtf (snd un))%F (snd un) && negb (qeqb (snd un) 0%F)) U = true ->
  sqrt_ok sqrtf U.
Proof.
  intros H un Hin. rewrite forallb_forall in H. specialize (H un Hin).
  apply andb_true_iff in H. destruct H as [H1 H2]. split.
  - apply qeqb_ok. assumption.
  - apply negb_true_iff in H2. apply qeqb_false. assumption.
Qed.
