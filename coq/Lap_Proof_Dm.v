(* ====================================================================== *)
(*  Lap_Proof_Dm.v — proofs about the Diffusion Map model (property C09)   *)
(*                                                                         *)
(*  compute_diffusion_matrix_ok  the staged list program (what is run) is  *)
(*      the table of the entrywise function dm_matrix                      *)
(*  dm_kernel_sym                the kernel written by the (i, j>=i) loop  *)
(*      is symmetric whatever the distance callback returns                *)
(*  dm_matrix_is_spec            dm_matrix = S^-1 (P^-1 K P^-1) S^-1 with  *)
(*      p = K 1 and s_j = sqrt oracle applied to q_j = (P^-1 K P^-1 1)_j : *)
(*      exactly the two normalisation passes of the property               *)
(*  dm_top_eigvec                s_i^2 = q_i  ->  M s = s                  *)
(*  dm_markov_stochastic         T = Q^-1 K1 has unit row sums             *)
(*  dm_conjugate                 M psi = l psi -> T (psi/s) = l (psi/s)    *)
(*  dm_embedding_ok              the columns returned by embed()           *)
(*  dm_columns                   ... are lam_c^t psi_c / psi_top, and are  *)
(*      right eigenvectors of T when psi_top is a multiple of s            *)
(* ====================================================================== *)
Require Import Arith Lia List Bool Field Ring.
From TK Require Import Mat_Sums Mat_Core Mat_EigSelect EigSelect Mat_EigSelect_Tie
                       Lap_Model Lap_Spec Lap_Proof_Lap Lap_Proof_Embed.
Import ListNotations.
Local Open Scope list_scope.
Local Open Scope nat_scope.

Section DmSpectral.
  Context {F : Type} {Fo : FieldOps F} {Ff : IsField F}.
  Add Field DmSpectralField : (@Fth F Fo Ff).
  Local Open Scope F_scope.

  Variable K : mat F.
  Variable n : nat.
  Hypothesis HKsym : forall i j, (i < n)%nat -> (j < n)%nat -> K i j = K j i.
  Notation P := (dm_P K n).
  Notation K1 := (dm_K1 K n).
  Notation Q := (dm_Q K n).

  Lemma dm_K1_entry i j :
    (i < n)%nat -> (j < n)%nat -> K1 i j = / P i * (K i j * / P j).
  Proof.
    intros Hi Hj. unfold dm_K1.
    rewrite mmul_diag_l by exact Hi. rewrite mmul_diag_r by exact Hj. reflexivity.
  Qed.

  Lemma dm_K1_sym i j : (i < n)%nat -> (j < n)%nat -> K1 i j = K1 j i.
  Proof.
    intros Hi Hj. rewrite !dm_K1_entry by assumption. rewrite (HKsym i j) by assumption. ring.
  Qed.

  (* ---------------- spectral facts about the normalised kernel ---------------- *)
  Variable s : vec F.
  Hypothesis Hs2 : forall i, (i < n)%nat -> s i * s i = Q i.
  Hypothesis Hs0 : forall i, (i < n)%nat -> s i <> 0.
  Notation M := (dm_sym K n s).
  Notation T := (dm_markov K n).

  Lemma dm_sym_entry i j :
    (i < n)%nat -> (j < n)%nat -> M i j = / s i * (K1 i j * / s j).
  Proof.
    intros Hi Hj. unfold dm_sym.
    rewrite mmul_diag_l by exact Hi. rewrite mmul_diag_r by exact Hj. reflexivity.
  Qed.

  Lemma dm_sym_sym : msym n M.
  Proof.
    intros i j Hi Hj. rewrite !dm_sym_entry by assumption.
    rewrite (dm_K1_sym i j) by assumption. ring.
  Qed.

  Lemma Q_nonzero i : (i < n)%nat -> Q i <> 0.
  Proof.
    intros Hi H. rewrite <- Hs2 in H by exact Hi.
    apply (Hs0 i Hi). apply (field_cancel (s i)); [apply Hs0; exact Hi|exact H].
  Qed.

  (* the top eigenvector: M s = s (eigenvalue 1) *)
  Theorem dm_top_eigvec : eigvec n M 1 s.
  Proof.
    intros i Hi. unfold mv, vscale.
    rewrite (sumn_ext n _ (fun j => / s i * K1 i j)).
    2:{ intros j Hj. rewrite dm_sym_entry by assumption. field; repeat split; apply Hs0; assumption. }
    rewrite sumn_mul_l.
    assert (EQ : sumn n (K1 i) = Q i) by reflexivity.
    rewrite EQ, <- Hs2 by exact Hi.
    field; repeat split; apply Hs0; assumption.
  Qed.

  (* T = Q^-1 K1 is row-stochastic: the diffusion operator *)
  Theorem dm_markov_stochastic i : (i < n)%nat -> rowsum n T i = 1.
  Proof.
    intros Hi. unfold rowsum, dm_markov.
    rewrite (sumn_ext n _ (fun j => / Q i * K1 i j)).
    2:{ intros j Hj. rewrite mmul_diag_l by exact Hi. reflexivity. }
    rewrite sumn_mul_l. assert (EQ : sumn n (K1 i) = Q i) by reflexivity. rewrite EQ.
    field. apply Q_nonzero. exact Hi.
  Qed.

  (* M = S T S^-1: eigenvectors of M divided by s are right eigenvectors of T *)
  Theorem dm_conjugate (l : F) (psi : vec F) :
    eigvec n M l psi -> eigvec n T l (fun i => psi i / s i).
  Proof.
    intros H i Hi. specialize (H i Hi). unfold mv, vscale in *.
    assert (E : sumn n (fun j => K1 i j * (psi j / s j)) = s i * (l * psi i)).
    { rewrite <- H. rewrite <- sumn_mul_l. apply sumn_ext. intros j Hj.
      rewrite dm_sym_entry by assumption. field; repeat split; apply Hs0; assumption. }
    rewrite (sumn_ext n _ (fun j => / Q i * (K1 i j * (psi j / s j)))).
    2:{ intros j Hj. unfold dm_markov. rewrite mmul_diag_l by exact Hi. unfold vinv. ring. }
    rewrite sumn_mul_l, E. rewrite <- Hs2 by exact Hi. field; repeat split; apply Hs0; assumption.
  Qed.

  Lemma eigvec_scale (A : mat F) (l c : F) (y : vec F) :
    eigvec n A l y -> eigvec n A l (fun i => c * y i).
  Proof.
    intros H i Hi. specialize (H i Hi). unfold mv, vscale in *.
    rewrite (sumn_ext n _ (fun j => c * (A i j * y j))) by (intros; ring).
    rewrite sumn_mul_l, H. ring.
  Qed.
End DmSpectral.

Section DmProof.
  Context {F : Type} {Fo : FieldOps F} {Ff : IsField F}.
  Add Field DmProofField : (@Fth F Fo Ff).
  Local Open Scope F_scope.

  Variable dist : nat -> nat -> F.
  Variable width : F.
  Variable expo : F -> F.
  Variable sqrto : F -> F.

  Notation K := (dm_kernel dist width expo).

  Lemma dm_kernel_sym i j : K i j = K j i.
  Proof.
    unfold dm_kernel.
    destruct (Nat.leb i j) eqn:E1; destruct (Nat.leb j i) eqn:E2; try reflexivity.
    - apply Nat.leb_le in E1. apply Nat.leb_le in E2.
      assert (i = j) by lia. subst. reflexivity.
    - apply Nat.leb_gt in E1. apply Nat.leb_gt in E2. lia.
  Qed.

  Lemma colsum_meq n (M M' : mat F) j :
    (forall i, (i < n)%nat -> M i j = M' i j) -> colsum n M j = colsum n M' j.
  Proof. intros H. unfold colsum. apply sumn_ext. exact H. Qed.

  (* ---------------- the staged program is the entrywise function ---------------- *)
  Theorem compute_diffusion_matrix_ok n :
    compute_diffusion_matrix dist width expo sqrto n =
    mtab n n (dm_matrix dist width expo sqrto n).
  Proof.
    unfold compute_diffusion_matrix, dm_matrix.
    assert (Hp : forall j, (j < n)%nat ->
              vof (vtab n (colsum n (mof (mtab n n K)))) j = dm_p1 dist width expo n j).
    { intros j Hj. rewrite vof_vtab by exact Hj. unfold dm_p1.
      apply colsum_meq. intros i Hi. apply mof_mtab; assumption. }
    assert (Hk1 : forall i j, (i < n)%nat -> (j < n)%nat ->
              mof (mtab n n (dm_div (mof (mtab n n K))
                                    (vof (vtab n (colsum n (mof (mtab n n K))))))) i j
              = dm_k1 dist width expo n i j).
    { intros i j Hi Hj. rewrite mof_mtab by assumption. unfold dm_k1, dm_div.
      rewrite mof_mtab, !Hp by assumption. reflexivity. }
    set (K1l := mtab n n (dm_div (mof (mtab n n K))
                                 (vof (vtab n (colsum n (mof (mtab n n K))))))) in *.
    assert (Hs : forall j, (j < n)%nat ->
              vof (vtab n (fun j0 => sqrto (colsum n (mof K1l) j0))) j
              = dm_p2 dist width expo sqrto n j).
    { intros j0 Hj0. rewrite vof_vtab by exact Hj0. unfold dm_p2. f_equal.
      apply colsum_meq. intros t Ht. apply Hk1; assumption. }
    apply mtab_ext. intros i j Hi Hj. unfold dm_div at 1.
    rewrite Hk1, !Hs by assumption. reflexivity.
  Qed.

  Theorem dm_sqrt_args_ok n :
    dm_sqrt_args dist width expo n = vtab n (colsum n (dm_k1 dist width expo n)).
  Proof.
    unfold dm_sqrt_args.
    assert (Hp : forall j, (j < n)%nat ->
              vof (vtab n (colsum n (mof (mtab n n K)))) j = dm_p1 dist width expo n j).
    { intros j Hj. rewrite vof_vtab by exact Hj. unfold dm_p1.
      apply colsum_meq. intros i Hi. apply mof_mtab; assumption. }
    apply vtab_ext. intros j Hj. apply colsum_meq. intros i Hi.
    rewrite mof_mtab by assumption. unfold dm_k1, dm_div.
    rewrite mof_mtab, !Hp by assumption. reflexivity.
  Qed.

  (* ---------------- the matrix is the one the property names ---------------- *)
  Variable n : nat.
  Notation P := (dm_P K n).
  Notation K1 := (dm_K1 K n).
  Notation Q := (dm_Q K n).

  Lemma dm_p1_is_P j : (j < n)%nat -> dm_p1 dist width expo n j = P j.
  Proof.
    intros Hj. unfold dm_p1, dm_P, colsum, rowsum. apply sumn_ext. intros i _.
    apply dm_kernel_sym.
  Qed.

  Lemma dm_k1_is_K1 i j :
    (i < n)%nat -> (j < n)%nat -> P i <> 0 -> P j <> 0 ->
    dm_k1 dist width expo n i j = K1 i j.
  Proof.
    intros Hi Hj Pi Pj. rewrite dm_K1_entry by assumption. unfold dm_k1, dm_div.
    rewrite !dm_p1_is_P by assumption. field. split; assumption.
  Qed.

  (* the argument handed to sqrt for column j is q_j = (K1 1)_j *)
  Lemma dm_sqrt_arg_is_Q j :
    (j < n)%nat -> (forall i, (i < n)%nat -> P i <> 0) ->
    colsum n (dm_k1 dist width expo n) j = Q j.
  Proof.
    intros Hj HP. unfold colsum, dm_Q, rowsum. apply sumn_ext. intros i Hi.
    rewrite dm_k1_is_K1 by (try assumption; apply HP; assumption).
    apply dm_K1_sym; try assumption. intros; apply dm_kernel_sym.
  Qed.

  Theorem dm_matrix_is_spec :
    (forall i, (i < n)%nat -> P i <> 0) ->
    let s := dm_p2 dist width expo sqrto n in
    (forall i, (i < n)%nat -> s i <> 0) ->
    (forall j, (j < n)%nat -> s j = sqrto (Q j)) /\
    meq n n (dm_matrix dist width expo sqrto n) (dm_sym K n s).
  Proof.
    intros HP s Hs. split.
    - intros j Hj. unfold s, dm_p2. rewrite dm_sqrt_arg_is_Q by assumption. reflexivity.
    - intros i j Hi Hj. unfold dm_sym.
      rewrite mmul_diag_l by exact Hi. rewrite mmul_diag_r by exact Hj.
      unfold dm_matrix, dm_div. fold s.
      rewrite dm_k1_is_K1 by (try assumption; apply HP; assumption).
      unfold vinv. field. split; apply Hs; assumption.
  Qed.
End DmProof.

Section DmEmbedProof.
  Context {F : Type} {Fo : FieldOps F} {Ff : IsField F}.
  Add Field DmEmbedField : (@Fth F Fo Ff).
  Local Open Scope F_scope.

  (* the columns returned by embed() from a dense answer (V, lam), any pow oracle *)
  Theorem dm_embedding_ok (N d t : nat) (V : mat F) (lam : vec F) (powo : F -> nat -> F) :
    (d + 1 <= N)%nat ->
    dm_embedding N d t V lam powo =
      Some (fun r c => (V r (N - (d + 1) + c)%nat * powo (lam (N - (d + 1) + c)%nat) t)
                       / V r (N - (d + 1) + d)%nat).
  Proof.
    intros H. unfold dm_embedding. rewrite (dm_select_ok N (d + 1) H). cbn [fst snd].
    assert (E1 : Nat.leb d (d + 1) = true) by (apply Nat.leb_le; lia).
    assert (E2 : Nat.ltb d (d + 1) = true) by (apply Nat.ltb_lt; lia).
    rewrite E1, E2. reflexivity.
  Qed.

  (* ... they are the coordinates the property names, and diffusion coordinates:
     right eigenvectors of the diffusion operator T scaled by lam^t *)
  Theorem dm_columns (N d t : nat) (Kern : mat F) (s : vec F) (V : mat F) (lam : vec F)
          (powo : F -> nat -> F) (alpha : F) :
    (d + 1 <= N)%nat ->
    (forall i, (i < N)%nat -> s i * s i = dm_Q Kern N i) ->
    (forall i, (i < N)%nat -> s i <> 0) ->
    (* oracle answers *)
    (forall c, (c < d)%nat ->
       eigvec N (dm_sym Kern N s) (lam (N - (d + 1) + c)%nat) (mcol V (N - (d + 1) + c)%nat)) ->
    (forall x, powo x t = fpow x t) ->
    (* the top eigenvector is a multiple of s (the eigenvalue 1 is simple) *)
    alpha <> 0 -> (forall i, (i < N)%nat -> V i (N - 1)%nat = alpha * s i) ->
    exists Y, dm_embedding N d t V lam powo = Some Y /\
      (forall r c, (r < N)%nat -> (c < d)%nat ->
         Y r c = dm_spec d t (fun x c0 => V x (N - (d + 1) + c0)%nat)
                         (fun c0 => lam (N - (d + 1) + c0)%nat)
                         (fun x => V x (N - 1)%nat) r c) /\
      (forall c, (c < d)%nat ->
         exists Y', veq N (mcol Y c) Y' /\
                    eigvec N (dm_markov Kern N) (lam (N - (d + 1) + c)%nat) Y').
  Proof.
    intros Hd Hs2 Hs0 Heig Hpow Ha Htop.
    rewrite (dm_embedding_ok N d t V lam powo Hd). eexists. split; [reflexivity|].
    assert (EN : (N - (d + 1) + d = N - 1)%nat) by lia.
    split.
    - intros r c Hr Hc. unfold dm_spec. rewrite EN, Hpow, Htop by exact Hr. field.
      split; [apply Hs0; exact Hr|exact Ha].
    - intros c Hc.
      set (j := (N - (d + 1) + c)%nat).
      exists (fun i => (fpow (lam j) t / alpha) * (V i j / s i)). split.
      + intros i Hi. unfold mcol. rewrite EN, Hpow, Htop by exact Hi. fold j. field.
        split; [apply Hs0; exact Hi|exact Ha].
      + apply eigvec_scale.
        apply (dm_conjugate Kern N s Hs2 Hs0 (lam j) (mcol V j)). apply Heig. exact Hc.
  Qed.
End DmEmbedProof.

(* ---------------- packaged statements used by Properties_C09 ---------------- *)
Lemma dm_exec_model_ok_both :
  forall (F : Type) (Fo : FieldOps F) (Ff : IsField F)
         (dist : nat -> nat -> F) (width : F) (expo sqrto : F -> F) (n : nat),
    compute_diffusion_matrix dist width expo sqrto n = mtab n n (dm_matrix dist width expo sqrto n) /\
    dm_sqrt_args dist width expo n = vtab n (colsum n (dm_k1 dist width expo n)).
Proof. intros. split; [apply compute_diffusion_matrix_ok|apply dm_sqrt_args_ok]. Qed.

Lemma dm_diffusion_matrix_full :
  forall (F : Type) (Fo : FieldOps F) (Ff : IsField F)
         (dist : nat -> nat -> F) (width : F) (expo sqrto : F -> F) (n : nat),
    let K := dm_kernel dist width expo in
    (forall i j, K i j = K j i) /\
    ((forall i, (i < n)%nat -> dm_P K n i <> 0%F) ->
     let s := dm_p2 dist width expo sqrto n in
     (forall i, (i < n)%nat -> s i <> 0%F) ->
     (forall j, (j < n)%nat -> s j = sqrto (dm_Q K n j)) /\
     meq n n (dm_matrix dist width expo sqrto n) (dm_sym K n s)).
Proof.
  intros F Fo Ff dist width expo sqrto n K. split.
  - apply dm_kernel_sym.
  - apply dm_matrix_is_spec.
Qed.

Lemma dm_operator_facts :
  forall (F : Type) (Fo : FieldOps F) (Ff : IsField F) (K : mat F) (n : nat) (s : vec F),
    (forall i, (i < n)%nat -> (s i * s i)%F = dm_Q K n i) ->
    (forall i, (i < n)%nat -> s i <> 0%F) ->
    eigvec n (dm_sym K n s) 1%F s /\
    (forall i, (i < n)%nat -> rowsum n (dm_markov K n) i = 1%F) /\
    (forall l psi, eigvec n (dm_sym K n s) l psi ->
                   eigvec n (dm_markov K n) l (fun i => (psi i / s i)%F)).
Proof.
  intros F Fo Ff K n s H2 H0. split; [|split].
  - apply dm_top_eigvec; assumption.
  - intros i Hi. apply (dm_markov_stochastic K n s H2 H0 i Hi).
  - intros l psi. apply dm_conjugate; assumption.
Qed.

