(* Properties_C03.v — C03: check_connectivity guarantees a graph on which all geodesics
   are finite.  Statements only; proofs are in Conn_Proof*.v.

   Model: Conn_Model.v  (is_connected = shipped connected.hpp; is_connected_fixed = the same
   file after fixes/F03_strong_connectivity.patch; find_neighbors = the doubling recursion of
   neighbors.hpp over an abstract search `knn`).
   Spec:  Conn_Spec.v   (edge i j := j occurs in list i; reach = its reflexive-transitive
   closure; wf_graph = one list per sample, entries < N; is_knn_graph = exact k-NN lists,
   the conclusion of property C02, assumed of the abstract search).
   A result `COk b` means: no out-of-range access, fuel not exhausted, answer b. *)
From Coq Require Import List Arith Bool ZArith Permutation.
From TK Require Import Conn_Model Conn_Spec Conn_Proof Conn_Proof_Main.
Import ListNotations.

(* ---- what the shipped test decides: reachability from sample 0 along out-edges ---- *)
Theorem dfs_sound_complete : forall N nb, 0 < N -> wf_graph N nb -> uniform nb ->
  (exists b, is_connected N nb = COk b) /\
  (is_connected N nb = COk true <-> forall j, j < N -> reach nb 0 j).
Proof. exact main_dfs_sound_complete. Qed.
Print Assumptions dfs_sound_complete.

(* ---- which is not what the property needs: the exact 1-NN graph of the three distinct
        samples 0, 2, 3 passes the shipped test although sample 0 is unreachable from 1 ---- *)
Theorem cc_strong_refuted :
  exists N k pts nb i j,
    NoDup pts /\ is_knn_graph (pdist pts) N k nb /\ wf_graph N nb /\ uniform nb /\
    i < N /\ j < N /\ is_connected N nb = COk true /\ ~ reach nb i j.
Proof. exact main_cc_strong_refuted. Qed.
Print Assumptions cc_strong_refuted.

(* ---- and the shipped decision depends on the order of the samples ---- *)
Theorem cc_order_refuted :
  exists N nb p, wf_graph N nb /\ uniform nb /\ is_perm N p /\
    is_connected N nb = COk true /\ is_connected N (relabel p nb) = COk false.
Proof. exact main_cc_order_refuted. Qed.
Print Assumptions cc_order_refuted.

(* ---- end to end on the shipped recursion: 8 distinct samples on a line (sparse chain, then
        a dense cluster), requested k = 3, exact k-NN search: the lists come back with k = 3,
        sample 0 is unreachable from sample 3, every correct geodesic 3 -> 0 is infinite; the
        same samples in reversed order get 6 neighbours ---- *)
Theorem fn_shipped_refuted :
  exists pts k,
    let N := length pts in
    let knn := knn_brute pts in
    NoDup pts /\ 3 <= k /\
    (forall k', k' <= N - 1 -> is_knn_graph (pdist pts) N k' (knn k')) /\
    exists g i j, find_neighbors is_connected knn N N k true = COk (k, g) /\
      i < N /\ j < N /\ ~ reach g i j /\
      (forall w d, is_geodesic g w i j d -> d = None) /\
      exists p, is_perm N p /\
        find_neighbors is_connected (fun k' => relabel p (knn k')) N N k true
        = COk (2 * k, relabel p (knn (2 * k))).
Proof. exact main_fn_shipped_refuted. Qed.
Print Assumptions fn_shipped_refuted.

(* ---- what the shipped recursion does compute (least doubling whose graph is reachable
        from sample 0) ---- *)
Theorem fn_shipped_minimal : forall dist knn N,
  (forall k, k <= N - 1 -> is_knn_graph dist N k (knn k)) -> 1 <= N ->
  forall k, 1 <= k ->
  exists j, find_neighbors is_connected knn N N k true = COk (kseq N k j, knn (kseq N k j)) /\
    all_from_first N (knn (kseq N k j)) /\
    forall j', j' < j -> ~ all_from_first N (knn (kseq N k j')).
Proof. exact main_fn_shipped_minimal. Qed.
Print Assumptions fn_shipped_minimal.

(* ==== the repaired test (second search over the reversed lists) ==== *)
Theorem cc_strong : forall N nb, 0 < N -> wf_graph N nb ->
  (exists b, is_connected_fixed N nb = COk b) /\
  (is_connected_fixed N nb = COk true <-> forall i j, i < N -> j < N -> reach nb i j).
Proof. exact main_cc_strong. Qed.
Print Assumptions cc_strong.

Theorem cc_perm : forall N nb p, 0 < N -> wf_graph N nb -> is_perm N p ->
  is_connected_fixed N (relabel p nb) = is_connected_fixed N nb.
Proof. exact main_cc_perm. Qed.
Print Assumptions cc_perm.

(* the k finally used is min(k*2^j, N-1) for the least j whose graph is strongly connected *)
Theorem cc_minimal : forall dist knn N,
  (forall k, k <= N - 1 -> is_knn_graph dist N k (knn k)) -> 1 <= N ->
  forall k, 1 <= k ->
  exists j, find_neighbors is_connected_fixed knn N N k true
            = COk (kseq N k j, knn (kseq N k j)) /\
    strongly_connected N (knn (kseq N k j)) /\
    forall j', j' < j -> ~ strongly_connected N (knn (kseq N k j')).
Proof. exact main_cc_minimal. Qed.
Print Assumptions cc_minimal.

(* in particular the requested k is kept iff the k-graph is strongly connected *)
Theorem cc_keeps_k_iff : forall dist knn N,
  (forall k, k <= N - 1 -> is_knn_graph dist N k (knn k)) -> 1 <= N ->
  forall k k' g, 1 <= k -> k <= N - 1 ->
  find_neighbors is_connected_fixed knn N N k true = COk (k', g) ->
  (k' = k <-> strongly_connected N (knn k)).
Proof. exact main_cc_keeps_k_iff. Qed.
Print Assumptions cc_keeps_k_iff.

(* the recursion ends within fuel N (never CFuel, never an out-of-range access) *)
Theorem cc_terminates : forall dist knn N,
  (forall k, k <= N - 1 -> is_knn_graph dist N k (knn k)) -> 1 <= N ->
  forall k, 1 <= k ->
  exists k' g, find_neighbors is_connected_fixed knn N N k true = COk (k', g).
Proof. exact main_cc_terminates. Qed.
Print Assumptions cc_terminates.

(* every geodesic of the returned graph is finite, whatever the edge weights *)
Theorem cc_finite : forall dist knn N,
  (forall k, k <= N - 1 -> is_knn_graph dist N k (knn k)) -> 1 <= N ->
  forall k k' g, 1 <= k ->
  find_neighbors is_connected_fixed knn N N k true = COk (k', g) ->
  forall w i j d, i < N -> j < N -> is_geodesic g w i j d -> exists z, d = Some z.
Proof. exact main_cc_finite. Qed.
Print Assumptions cc_finite.

(* supplying the samples in another order relabels the result and changes nothing else *)
Theorem cc_result_perm : forall dist knn N,
  (forall k, k <= N - 1 -> is_knn_graph dist N k (knn k)) -> 1 <= N ->
  forall p, is_perm N p ->
  forall k k' g, 1 <= k ->
  find_neighbors is_connected_fixed knn N N k true = COk (k', g) ->
  find_neighbors is_connected_fixed (fun k' => relabel p (knn k')) N N k true
  = COk (k', relabel p g).
Proof. exact main_cc_result_perm. Qed.
Print Assumptions cc_result_perm.

(* the boolean oracles the harness applies to the implementation's own output *)
Theorem spec_oracles : forall N nb, 0 < N -> wf_b N nb = true ->
  (strong_b N nb = true <-> strongly_connected N nb) /\
  (from_first_b N nb = true <-> all_from_first N nb).
Proof. exact main_spec_oracles. Qed.
Print Assumptions spec_oracles.

(* ---- non-vacuity: the hypotheses above are satisfiable ---- *)
Example hyps_graph_satisfiable :
  0 < 8 /\ wf_graph 8 (knn_brute w8_pts 3) /\ uniform (knn_brute w8_pts 3) /\ is_perm 8 w8_rev.
Proof. exact nv_graph. Qed.

Example hyps_search_satisfiable :
  (forall k, k <= 8 - 1 -> is_knn_graph (pdist w8_pts) 8 k (knn_brute w8_pts k)) /\ 1 <= 8 /\
  find_neighbors is_connected_fixed (knn_brute w8_pts) 8 8 3 true = COk (6, knn_brute w8_pts 6) /\
  find_neighbors is_connected_fixed (knn_brute w8_pts) 8 8 6 true = COk (6, knn_brute w8_pts 6).
Proof. exact nv_search. Qed.
