(* Properties_C03.v — C03: check_connectivity guarantees a graph on which all geodesics
   are finite.  Statements only; proofs are in Conn_Proof*.v.

   Model: Conn_Model.v  (is_connected = shipped connected.hpp; is_connected_fixed = the same
   file after fixes/F03_strong_connectivity.patch; find_neighbors = the doubling recursion of
   neighbors.hpp over an abstract search `knn`).
   Spec:  Conn_Spec.v   (edge i j := j occurs in list i; reach = its reflexive-transitive
   closure; wf_graph = one list per sample, entries < N; is_knn_graph = exact k-NN lists,
   the conclusion of property C02, assumed of the abstract search).
   A result `COk b` means: no out-of-range access, fuel not exhausted, answer b.

   NOTE (2026-10-01): fix F3 is committed in /repo (78644c2); `is_connected_fixed` IS the
   model of the current connected.hpp, `is_connected` the model of the old one.  The
   `_refuted` / `fn_shipped_*` theorems are kept as regression theorems about the old code.
   Link to property C04: Dijkstra_Model.full_matrix is the model of tapkee's
   compute_shortest_distances_matrix (both heap configurations, any admissible queue). *)
From Coq Require Import List Arith Bool ZArith Permutation.
From TK Require Import Conn_Model Conn_Spec Conn_Proof Conn_Proof_Main Conn_Proof_Order
     Conn_Proof_Dijkstra Conn_Proof_Knn Conn_Proof_Sym Conn_Proof_Consumer Conn_Proof_Methods
     Conn_Proof_Ties Conn_Proof_Stack Conn_Model_Rec Conn_Proof_StackRec.
From TK Require Dijkstra_Model Dijkstra_Spec Dijkstra_Proof_Base Knn_Spec Knn_Brute_Model Knn_VpTree_Model
     Knn_VpTree_Proof Knn_CoverSel_Model.
Import ListNotations.

(* ---- what the shipped test decides: reachability from sample 0 along out-edges ---- *)
Theorem dfs_sound_complete : forall N nb, 0 < N -> wf_graph N nb -> uniform nb ->
  (exists b, is_connected N nb = COk b) /\
  (is_connected N nb = COk true <-> forall j, j < N -> reach nb 0 j).
Proof. exact main_dfs_sound_complete. Qed.
Print Assumptions dfs_sound_complete.

(* ---- which is not what the property needs: the exact 1-NN graph of the three distinct
        samples 0, 2, 3 passes the shipped test although sample 0 is unreachable from 1 ---- *)
Theorem cc_strong_refuted :
  exists N k pts nb i j,
    NoDup pts /\ is_knn_graph (pdist pts) N k nb /\ wf_graph N nb /\ uniform nb /\
    i < N /\ j < N /\ is_connected N nb = COk true /\ ~ reach nb i j.
Proof. exact main_cc_strong_refuted. Qed.
Print Assumptions cc_strong_refuted.

(* ---- and the shipped decision depends on the order of the samples ---- *)
Theorem cc_order_refuted :
  exists N nb p, wf_graph N nb /\ uniform nb /\ is_perm N p /\
    is_connected N nb = COk true /\ is_connected N (relabel p nb) = COk false.
Proof. exact main_cc_order_refuted. Qed.
Print Assumptions cc_order_refuted.

(* ---- end to end on the shipped recursion: 8 distinct samples on a line (sparse chain, then
        a dense cluster), requested k = 3, exact k-NN search: the lists come back with k = 3,
        sample 0 is unreachable from sample 3, every correct geodesic 3 -> 0 is infinite; the
        same samples in reversed order get 6 neighbours ---- *)
Theorem fn_shipped_refuted :
  exists pts k,
    let N := length pts in
    let knn := knn_brute pts in
    NoDup pts /\ 3 <= k /\
    (forall k', k' <= N - 1 -> is_knn_graph (pdist pts) N k' (knn k')) /\
    exists g i j, find_neighbors is_connected knn N N k true = COk (k, g) /\
      i < N /\ j < N /\ ~ reach g i j /\
      (forall w d, is_geodesic g w i j d -> d = None) /\
      exists p, is_perm N p /\
        find_neighbors is_connected (fun k' => relabel p (knn k')) N N k true
        = COk (2 * k, relabel p (knn (2 * k))).
Proof. exact main_fn_shipped_refuted. Qed.
Print Assumptions fn_shipped_refuted.

(* ---- what the shipped recursion does compute (least doubling whose graph is reachable
        from sample 0) ---- *)
Theorem fn_shipped_minimal : forall dist knn N,
  (forall k, k <= N - 1 -> is_knn_graph dist N k (knn k)) -> 1 <= N ->
  forall k, 1 <= k ->
  exists j, find_neighbors is_connected knn N N k true = COk (kseq N k j, knn (kseq N k j)) /\
    all_from_first N (knn (kseq N k j)) /\
    forall j', j' < j -> ~ all_from_first N (knn (kseq N k j')).
Proof. exact main_fn_shipped_minimal. Qed.
Print Assumptions fn_shipped_minimal.

(* ==== the repaired test (second search over the reversed lists) ==== *)
Theorem cc_strong : forall N nb, 0 < N -> wf_graph N nb ->
  (exists b, is_connected_fixed N nb = COk b) /\
  (is_connected_fixed N nb = COk true <-> forall i j, i < N -> j < N -> reach nb i j).
Proof. exact main_cc_strong. Qed.
Print Assumptions cc_strong.

Theorem cc_perm : forall N nb p, 0 < N -> wf_graph N nb -> is_perm N p ->
  is_connected_fixed N (relabel p nb) = is_connected_fixed N nb.
Proof. exact main_cc_perm. Qed.
Print Assumptions cc_perm.

(* the k finally used is min(k*2^j, N-1) for the least j whose graph is strongly connected *)
Theorem cc_minimal : forall dist knn N,
  (forall k, k <= N - 1 -> is_knn_graph dist N k (knn k)) -> 1 <= N ->
  forall k, 1 <= k ->
  exists j, find_neighbors is_connected_fixed knn N N k true
            = COk (kseq N k j, knn (kseq N k j)) /\
    strongly_connected N (knn (kseq N k j)) /\
    forall j', j' < j -> ~ strongly_connected N (knn (kseq N k j')).
Proof. exact main_cc_minimal. Qed.
Print Assumptions cc_minimal.

(* in particular the requested k is kept iff the k-graph is strongly connected *)
Theorem cc_keeps_k_iff : forall dist knn N,
  (forall k, k <= N - 1 -> is_knn_graph dist N k (knn k)) -> 1 <= N ->
  forall k k' g, 1 <= k -> k <= N - 1 ->
  find_neighbors is_connected_fixed knn N N k true = COk (k', g) ->
  (k' = k <-> strongly_connected N (knn k)).
Proof. exact main_cc_keeps_k_iff. Qed.
Print Assumptions cc_keeps_k_iff.

(* the recursion ends within fuel N (never CFuel, never an out-of-range access) *)
Theorem cc_terminates : forall dist knn N,
  (forall k, k <= N - 1 -> is_knn_graph dist N k (knn k)) -> 1 <= N ->
  forall k, 1 <= k ->
  exists k' g, find_neighbors is_connected_fixed knn N N k true = COk (k', g).
Proof. exact main_cc_terminates. Qed.
Print Assumptions cc_terminates.

(* every geodesic of the returned graph is finite, whatever the edge weights *)
Theorem cc_finite : forall dist knn N,
  (forall k, k <= N - 1 -> is_knn_graph dist N k (knn k)) -> 1 <= N ->
  forall k k' g, 1 <= k ->
  find_neighbors is_connected_fixed knn N N k true = COk (k', g) ->
  forall w i j d, i < N -> j < N -> is_geodesic g w i j d -> exists z, d = Some z.
Proof. exact main_cc_finite. Qed.
Print Assumptions cc_finite.

(* supplying the samples in another order relabels the result and changes nothing else *)
Theorem cc_result_perm : forall dist knn N,
  (forall k, k <= N - 1 -> is_knn_graph dist N k (knn k)) -> 1 <= N ->
  forall p, is_perm N p ->
  forall k k' g, 1 <= k ->
  find_neighbors is_connected_fixed knn N N k true = COk (k', g) ->
  find_neighbors is_connected_fixed (fun k' => relabel p (knn k')) N N k true
  = COk (k', relabel p g).
Proof. exact main_cc_result_perm. Qed.
Print Assumptions cc_result_perm.

(* ---- neither the number of neighbours nor the neighbour sets depend on the order of the
        samples or on which exact search produced the lists, on tie-free data: knn1 any exact
        search on the samples, knn2 any exact search on the same samples supplied in the order p
        (new position v holds old sample nth v p) ---- *)
Theorem cc_order_independent : forall dist N knn1 knn2 p,
  tie_free dist N -> is_perm N p -> 1 <= N ->
  (forall k, k <= N - 1 -> is_knn_graph dist N k (knn1 k)) ->
  (forall k, k <= N - 1 ->
     is_knn_graph (fun v u => dist (nth v p 0) (nth u p 0)) N k (knn2 k)) ->
  forall k, 1 <= k ->
  exists k' g1 g2,
    find_neighbors is_connected_fixed knn1 N N k true = COk (k', g1) /\
    find_neighbors is_connected_fixed knn2 N N k true = COk (k', g2) /\
    forall v u, v < N -> u < N ->
      (In u (nth v g2 []) <-> In (nth u p 0) (nth (nth v p 0) g1 [])).
Proof. exact main_cc_order_independent. Qed.
Print Assumptions cc_order_independent.

(* tie_free is necessary: five DISTINCT samples 0,1,2,3,6 on a line, k = 3, two exact searches that differ only
   in which of two equidistant samples they keep (the same reference search on the samples supplied forwards and
   backwards): 4 neighbours one way, 3 the other.  With tied distances the literal claim "the decision does not
   depend on the order of the samples" fails for any search that returns exactly k neighbours and breaks ties by
   position (which the three tapkee searches do: reproduced on the real library, see c03_notes.md) *)
Theorem cc_order_ties_refuted :
  exists pts p k,
    let N := length pts in
    NoDup pts /\ is_perm N p /\ 3 <= k /\ k <= N - 1 /\
    (forall k', k' <= N - 1 -> is_knn_graph (pdist pts) N k' (knn_brute pts k')) /\
    (forall k', k' <= N - 1 ->
       is_knn_graph (fun v u => pdist pts (nth v p 0) (nth u p 0)) N k' (knn_brute (rev pts) k')) /\
    exists k1 k2 g1 g2, k1 <> k2 /\
      find_neighbors is_connected_fixed (knn_brute pts) N N k true = COk (k1, g1) /\
      find_neighbors is_connected_fixed (knn_brute (rev pts)) N N k true = COk (k2, g2).
Proof. exact main_cc_ties_order_refuted. Qed.
Print Assumptions cc_order_ties_refuted.

(* ---- exactly which ties matter.  boundary_free_b dist N k: no sample has a tie at the boundary of its k-NN
        list (sorted distances ds of the sample: ds[k-1] <> ds[k]; the test the check applies).  Then the exact
        list of every sample is unique as a set ---- *)
Theorem boundary_free_unique : forall dist N k,
  boundary_free_b dist N k = true -> rows_unique dist N k.
Proof. exact boundary_free_rows_unique. Qed.
Print Assumptions boundary_free_unique.

(* order independence needs only unique rows at the k_j the recursion goes through *)
Theorem cc_order_independent_unique : forall dist N knn1 knn2 p,
  is_perm N p -> 1 <= N ->
  (forall k, k <= N - 1 -> is_knn_graph dist N k (knn1 k)) ->
  (forall k, k <= N - 1 ->
     is_knn_graph (fun v u => dist (nth v p 0) (nth u p 0)) N k (knn2 k)) ->
  forall k, 1 <= k ->
  (forall j, rows_unique dist N (kseq N k j)) ->
  exists k' g1 g2,
    find_neighbors is_connected_fixed knn1 N N k true = COk (k', g1) /\
    find_neighbors is_connected_fixed knn2 N N k true = COk (k', g2) /\
    forall v u, v < N -> u < N ->
      (In u (nth v g2 []) <-> In (nth u p 0) (nth (nth v p 0) g1 [])).
Proof. exact main_cc_order_independent_unique. Qed.
Print Assumptions cc_order_independent_unique.

(* the rule by which the check separates the known finding from a violation: two exact searches (any order of
   the samples) that end with DIFFERENT numbers of neighbours prove that the exact lists are not unique at some
   k_j not above the smaller result *)
Theorem cc_different_k_needs_tie : forall dist N knn1 knn2 p,
  is_perm N p -> 1 <= N ->
  (forall k, k <= N - 1 -> is_knn_graph dist N k (knn1 k)) ->
  (forall k, k <= N - 1 ->
     is_knn_graph (fun v u => dist (nth v p 0) (nth u p 0)) N k (knn2 k)) ->
  forall k k1 k2 g1 g2, 1 <= k ->
  find_neighbors is_connected_fixed knn1 N N k true = COk (k1, g1) ->
  find_neighbors is_connected_fixed knn2 N N k true = COk (k2, g2) ->
  k1 <> k2 ->
  exists j, kseq N k j <= Nat.min k1 k2 /\ ~ rows_unique dist N (kseq N k j).
Proof. exact main_cc_different_k_needs_tie. Qed.
Print Assumptions cc_different_k_needs_tie.

(* same samples, two different exact searches (brute force / VP-tree / cover tree) *)
Theorem cc_method_independent : forall dist N knn1 knn2,
  tie_free dist N -> 1 <= N ->
  (forall k, k <= N - 1 -> is_knn_graph dist N k (knn1 k)) ->
  (forall k, k <= N - 1 -> is_knn_graph dist N k (knn2 k)) ->
  forall k, 1 <= k ->
  exists k' g1 g2,
    find_neighbors is_connected_fixed knn1 N N k true = COk (k', g1) /\
    find_neighbors is_connected_fixed knn2 N N k true = COk (k', g2) /\
    forall v u, v < N -> u < N -> (In u (nth v g2 []) <-> In u (nth v g1 [])).
Proof. exact main_cc_method_independent. Qed.
Print Assumptions cc_method_independent.

(* ---- link to C04: on the returned graph the model of tapkee's own
        compute_shortest_distances_matrix (priority-queue or Fibonacci-heap build, any admissible
        choice among equal keys) runs to completion and every entry is finite ---- *)
Theorem cc_dijkstra_finite : forall dist knn N,
  (forall k, k <= N - 1 -> is_knn_graph dist N k (knn k)) -> 1 <= N ->
  forall k k' g, 1 <= k ->
  find_neighbors is_connected_fixed knn N N k true = COk (k', g) ->
  forall fl w pick, Dijkstra_Spec.nonneg_w g w -> Dijkstra_Proof_Base.pick_ok pick ->
  exists m, Dijkstra_Model.full_matrix fl g w pick N = Dijkstra_Model.DOk m /\
    forall i j, i < N -> j < N -> exists z, Dijkstra_Spec.entry_of m i j = Some z.
Proof. exact main_cc_dijkstra_finite. Qed.
Print Assumptions cc_dijkstra_finite.

(* the landmark overload (Landmark Isomap, after fix F4): every entry of every landmark row finite *)
Theorem cc_landmark_finite : forall dist knn N,
  (forall k, k <= N - 1 -> is_knn_graph dist N k (knn k)) -> 1 <= N ->
  forall k k' g, 1 <= k ->
  find_neighbors is_connected_fixed knn N N k true = COk (k', g) ->
  forall fl w pick lm, Dijkstra_Spec.nonneg_w g w -> Dijkstra_Proof_Base.pick_ok pick ->
  Forall (fun v => v < N) lm ->
  exists m, Dijkstra_Model.landmark_matrix_fixed fl g w pick N lm = Dijkstra_Model.DOk m /\
    forall r j, r < length lm -> j < N -> exists z, Dijkstra_Spec.entry_of m r j = Some z.
Proof. exact main_cc_landmark_finite. Qed.
Print Assumptions cc_landmark_finite.

(* the old recursion on the 8-point witness: the same routine leaves an entry infinite *)
Theorem fn_shipped_dijkstra_refuted :
  exists pts k,
    let N := length pts in
    let knn := knn_brute pts in
    NoDup pts /\ 3 <= k /\
    (forall k', k' <= N - 1 -> is_knn_graph (pdist pts) N k' (knn k')) /\
    exists g, find_neighbors is_connected knn N N k true = COk (k, g) /\
      forall fl pick, Dijkstra_Proof_Base.pick_ok pick ->
      exists m i j, i < N /\ j < N /\
        Dijkstra_Model.full_matrix fl g (pdist pts) pick N = Dijkstra_Model.DOk m /\
        Dijkstra_Spec.entry_of m i j = None.
Proof. exact main_fn_shipped_dijkstra_refuted. Qed.
Print Assumptions fn_shipped_dijkstra_refuted.

(* ---- the consumer-side obligation.  compute_shortest_distances_matrix walks the first n_neighbors
        entries of every list.  A consumer that walks K entries of lists at least K long gets a finite
        entry (i,j) exactly when j is reachable from i in the TRUNCATED graph ---- *)
Theorem consumer_finite_iff : forall fl g w pick N K,
  0 < N -> wf_graph N g -> long_enough K g -> Dijkstra_Spec.nonneg_w g w ->
  Dijkstra_Proof_Base.pick_ok pick ->
  exists m, geodesics_K fl g w pick N K = Dijkstra_Model.DOk m /\
    forall i j, i < N -> j < N ->
      (Dijkstra_Spec.entry_of m i j <> None <-> reach (truncate K g) i j).
Proof. exact main_consumer_finite_iff. Qed.
Print Assumptions consumer_finite_iff.

(* the pipeline of methods/isomap.hpp as committed (n_neighbors = neighbors[0].size(), i.e. the full
   lists that were checked): never an infinite geodesic *)
Theorem isomap_pipeline_finite : forall dist knn N,
  (forall k, k <= N - 1 -> is_knn_graph dist N k (knn k)) -> 1 <= N ->
  forall k fl w pick, 1 <= k ->
  (forall u v, (0 <= w u v)%Z) -> Dijkstra_Proof_Base.pick_ok pick ->
  exists m, isomap_geodesics fl knn w pick N k = COk (Dijkstra_Model.DOk m) /\
    forall i j, i < N -> j < N -> exists z, Dijkstra_Spec.entry_of m i j = Some z.
Proof. exact main_isomap_pipeline_finite. Qed.
Print Assumptions isomap_pipeline_finite.

(* a consumer that is handed the REQUESTED k (walks only the first k entries of the longer lists
   check_connectivity returned) walks a graph nobody checked: 8 distinct samples, k = 3, the lists come
   back with 6 entries, entry (3,0) of the geodesic matrix is infinite — both heaps, every queue *)
Theorem isomap_requested_k_refuted :
  exists pts k,
    let N := length pts in
    let knn := knn_brute pts in
    NoDup pts /\ 3 <= k /\ k <= N - 1 /\
    (forall k', k' <= N - 1 -> is_knn_graph (pdist pts) N k' (knn k')) /\
    forall fl pick, Dijkstra_Proof_Base.pick_ok pick ->
    exists m i j, i < N /\ j < N /\
      isomap_geodesics_requested_k fl knn (pdist pts) pick N k = COk (Dijkstra_Model.DOk m) /\
      Dijkstra_Spec.entry_of m i j = None.
Proof. exact main_isomap_requested_k_refuted. Qed.
Print Assumptions isomap_requested_k_refuted.

(* ---- link to C02: the hypothesis on the search is literally C02's conclusion
        (Knn_Spec.is_knn for every row, indices in Z) ---- *)
Theorem cc_from_c02 : forall d N (search : nat -> list (list Z)),
  1 <= N ->
  (forall k, k <= N - 1 -> length (search k) = N /\
     forall i, i < N -> Knn_Spec.is_knn d N (Z.of_nat i) k (nth i (search k) [])) ->
  forall k, 1 <= k ->
  exists j, find_neighbors is_connected_fixed (fun k => graph_of_Z (search k)) N N k true
            = COk (kseq N k j, graph_of_Z (search (kseq N k j))) /\
    strongly_connected N (graph_of_Z (search (kseq N k j))) /\
    forall j', j' < j -> ~ strongly_connected N (graph_of_Z (search (kseq N k j'))).
Proof. exact main_cc_from_c02. Qed.
Print Assumptions cc_from_c02.

(* ---- why the unit tests never saw the old defect: on a symmetric neighbourhood graph the old
        test (reachability from sample 0) and the current one agree ---- *)
Theorem old_new_agree_if_symmetric : forall N nb,
  0 < N -> wf_graph N nb -> uniform nb -> symmetric_graph nb ->
  is_connected N nb = is_connected_fixed N nb.
Proof. exact main_old_new_agree_if_symmetric. Qed.
Print Assumptions old_new_agree_if_symmetric.

(* ---- check_connectivity = false: the (clamped) k-lists are returned untouched ---- *)
Theorem cc_off_keeps_k : forall (knn : nat -> graph) N fuel k,
  find_neighbors is_connected_fixed knn N (S fuel) k false
  = COk (Nat.min k (N - 1), knn (Nat.min k (N - 1))).
Proof. exact main_cc_off. Qed.
Print Assumptions cc_off_keeps_k.

(* ---- end to end for two of the three methods, composing with C02's models: the brute-force rows are
        brute_row_fixed of whatever std::nth_element left (oracle, contract nth_ok), the VP-tree rows come from
        a tree built afresh for every k with any pivot draw / nth_element meeting their contracts ---- *)
Theorem cc_brute_end_to_end : forall (d : Knn_Spec.dist) N oracle,
  1 <= N ->
  (forall k q, k <= N - 1 -> q < N ->
     Knn_Brute_Model.nth_ok k (Knn_Brute_Model.brute_dists_fixed d N (Z.of_nat q)) (oracle k q)) ->
  forall k, 1 <= k ->
  exists j, find_neighbors is_connected_fixed (fun k => graph_of_Z (brute_search N oracle k)) N N k true
            = COk (kseq N k j, graph_of_Z (brute_search N oracle (kseq N k j))) /\
    strongly_connected N (graph_of_Z (brute_search N oracle (kseq N k j))) /\
    forall j', j' < j -> ~ strongly_connected N (graph_of_Z (brute_search N oracle (kseq N k j'))).
Proof. exact main_cc_brute. Qed.
Print Assumptions cc_brute_end_to_end.

Theorem cc_vptree_end_to_end : forall (d : Knn_Spec.dist) N piv nth,
  1 <= N -> Knn_Spec.metric_on (Knn_Spec.in_range N) d ->
  (forall k, Knn_VpTree_Proof.piv_ok (piv k)) -> (forall k, Knn_VpTree_Proof.nth_oracle_ok d (nth k)) ->
  forall k, 1 <= k ->
  exists j, find_neighbors is_connected_fixed (fun k => graph_of_Z (vptree_search d N piv nth k)) N N k true
            = COk (kseq N k j, graph_of_Z (vptree_search d N piv nth (kseq N k j))) /\
    strongly_connected N (graph_of_Z (vptree_search d N piv nth (kseq N k j))) /\
    forall j', j' < j ->
      ~ strongly_connected N (graph_of_Z (vptree_search d N piv nth (kseq N k j'))).
Proof. exact main_cc_vptree. Qed.
Print Assumptions cc_vptree_end_to_end.

(* PARTIAL (named so): the cover-tree method through its selection wrapper only; the candidate list returned
   by CoverTreeWrapper::k_nearest_neighbor is an oracle with contract cand_complete (validated at run time by
   C02's check on every observed query), the batch query of covertree.hpp is not modelled (as in C02) *)
Theorem cc_covertree_end_to_end_partial : forall (d : Knn_Spec.dist) N cands,
  1 <= N ->
  (forall k q, k <= N - 1 -> q < N ->
     Knn_CoverSel_Model.cand_complete d N (Z.of_nat q) k (cands k q)) ->
  forall k, 1 <= k ->
  exists j, find_neighbors is_connected_fixed (fun k => graph_of_Z (covertree_search d N cands k)) N N k true
            = COk (kseq N k j, graph_of_Z (covertree_search d N cands (kseq N k j))) /\
    strongly_connected N (graph_of_Z (covertree_search d N cands (kseq N k j))) /\
    forall j', j' < j ->
      ~ strongly_connected N (graph_of_Z (covertree_search d N cands (kseq N k j'))).
Proof. exact main_cc_covertree_partial. Qed.
Print Assumptions cc_covertree_end_to_end_partial.

(* ---- the stack-depth obligation of connected.hpp.  is_connected_fixed_hw is is_connected_fixed with a
        high-water mark of the explicit DFS stack (nothing else changed: first component = the model, for ALL
        inputs); the explicit stack never holds more than one entry per list entry plus one, for ANY lists (also
        on runs that end out of range).  The model's loop is tail-iterative, so this heap-allocated stack is the
        only memory that grows with the input: no call-stack depth is needed.  That connected.hpp is written
        that way (no function calling itself) is tied by the check's 10^6-sample path/cycle run under an 8 MiB
        stack limit and its source scan, not proved ---- *)
Theorem dfs_stack_bounded : forall N nb,
  fst (is_connected_fixed_hw N nb) = is_connected_fixed N nb /\
  snd (is_connected_fixed_hw N nb) <= total_len nb + 1.
Proof. exact main_stack_bounded. Qed.
Print Assumptions dfs_stack_bounded.

(* N lists of k entries (what every neighbour search returns): at most N*k + 1 <= N*(k+1) + 1 entries *)
Theorem dfs_stack_bounded_uniform : forall N k nb,
  wf_graph N nb -> (forall row, In row nb -> length row = k) ->
  snd (is_connected_fixed_hw N nb) <= N * k + 1 /\ N * k + 1 <= N * (k + 1) + 1.
Proof. exact main_stack_bounded_uniform. Qed.
Print Assumptions dfs_stack_bounded_uniform.

(* the same for the search loop in any state and any row selection that does not lengthen a row (old code
   included): stack + lists of the unvisited samples is a potential that never grows *)
Theorem dfs_loop_stack_potential : forall sel N adj, sel_short sel ->
  forall fuel stack visited nv hw B,
  hw <= B -> length stack + Conn_Proof_Dfs.pot visited adj <= B ->
  snd (dfs_loop_hw sel N adj fuel stack visited nv hw) <= B.
Proof. exact dfs_loop_hw_bound. Qed.
Print Assumptions dfs_loop_stack_potential.

(* regression theorem for a REJECTED variant (seeded change C01_1_r2; model Conn_Model_Rec.v): the search of
   connected.hpp rewritten as plain recursion takes the same decisions but keeps its pending work in nested
   activations: on the path 0 -> 1 -> .. -> N-1 it nests exactly N activations (second component), for every N;
   the shipped search decides the same and its explicit stack stays within N + 1 heap entries.  Call-stack use
   proportional to the number of samples = SIGSEGV under an 8 MiB stack for a few 10^5 samples *)
Theorem recursive_search_depth_refuted : forall N, 2 <= N ->
  wf_graph N (path1 N) /\ (forall row, In row (path1 N) -> length row = 1) /\
  all_reachable_from_first_rec N (path1 N) = COk (true, N) /\
  all_reachable_from_first N (path1 N) = COk true /\
  snd (all_reachable_from_first_hw N (path1 N)) <= N + 1.
Proof. exact main_recursive_depth. Qed.
Print Assumptions recursive_search_depth_refuted.

(* the boolean oracles the harness applies to the implementation's own output *)
Theorem spec_oracles : forall N nb, 0 < N -> wf_b N nb = true ->
  (strong_b N nb = true <-> strongly_connected N nb) /\
  (from_first_b N nb = true <-> all_from_first N nb).
Proof. exact main_spec_oracles. Qed.
Print Assumptions spec_oracles.

(* ---- non-vacuity: the hypotheses above are satisfiable ---- *)
Example hyps_graph_satisfiable :
  0 < 8 /\ wf_graph 8 (knn_brute w8_pts 3) /\ uniform (knn_brute w8_pts 3) /\ is_perm 8 w8_rev.
Proof. exact nv_graph. Qed.

Example hyps_search_satisfiable :
  (forall k, k <= 8 - 1 -> is_knn_graph (pdist w8_pts) 8 k (knn_brute w8_pts k)) /\ 1 <= 8 /\
  find_neighbors is_connected_fixed (knn_brute w8_pts) 8 8 3 true = COk (6, knn_brute w8_pts 6) /\
  find_neighbors is_connected_fixed (knn_brute w8_pts) 8 8 6 true = COk (6, knn_brute w8_pts 6).
Proof. exact nv_search. Qed.

Example hyps_order_satisfiable :
  tie_free (pdist t8_pts) 8 /\ is_perm 8 w8_rev /\ 1 <= 8 /\
  (forall k, k <= 8 - 1 -> is_knn_graph (pdist t8_pts) 8 k (knn_brute t8_pts k)) /\
  (forall k, k <= 8 - 1 ->
     is_knn_graph (fun v u => pdist t8_pts (nth v w8_rev 0) (nth u w8_rev 0)) 8 k
                  (knn_brute (rev t8_pts) k)) /\
  find_neighbors is_connected_fixed (knn_brute t8_pts) 8 8 3 true = COk (6, knn_brute t8_pts 6) /\
  find_neighbors is_connected_fixed (knn_brute (rev t8_pts)) 8 8 3 true
  = COk (6, knn_brute (rev t8_pts) 6).
Proof. exact nv_order. Qed.

Example hyps_dijkstra_satisfiable :
  Dijkstra_Spec.nonneg_w (knn_brute w8_pts 6) (pdist w8_pts) /\
  Dijkstra_Proof_Base.pick_ok Dijkstra_Model.pick_first_min /\
  find_neighbors is_connected_fixed (knn_brute w8_pts) 8 8 3 true = COk (6, knn_brute w8_pts 6).
Proof. exact nv_dijkstra. Qed.

Example hyps_c02_satisfiable : 1 <= 3 /\
  (forall k, k <= 3 - 1 -> length (c02_search k) = 3 /\
     forall i, i < 3 -> Knn_Spec.is_knn c02_d 3 (Z.of_nat i) k (nth i (c02_search k) [])).
Proof. exact nv_c02. Qed.

Example hyps_symmetric_satisfiable :
  0 < 4 /\ wf_graph 4 sym4 /\ uniform sym4 /\ symmetric_graph sym4.
Proof. exact nv_sym. Qed.

Example hyps_consumer_satisfiable :
  0 < 8 /\ wf_graph 8 (knn_brute w8_pts 6) /\ long_enough 3 (knn_brute w8_pts 6) /\
  Dijkstra_Spec.nonneg_w (knn_brute w8_pts 6) (pdist w8_pts) /\
  Dijkstra_Proof_Base.pick_ok Dijkstra_Model.pick_first_min.
Proof. exact nv_consumer. Qed.

Example hyps_methods_satisfiable :
  1 <= 5 /\ Knn_Spec.metric_on (Knn_Spec.in_range 5) m_line_d /\
  (forall k q, k <= 5 - 1 -> q < 5 ->
     Knn_Brute_Model.nth_ok k (Knn_Brute_Model.brute_dists_fixed m_line_d 5 (Z.of_nat q))
        (Knn_Brute_Model.nth_element_ref (Knn_Brute_Model.brute_dists_fixed m_line_d 5 (Z.of_nat q)))) /\
  (forall k : nat, Knn_VpTree_Proof.piv_ok Knn_VpTree_Model.piv_first) /\
  (forall k : nat, Knn_VpTree_Proof.nth_oracle_ok m_line_d (Knn_VpTree_Model.nth_sort m_line_d)).
Proof. exact nv_methods. Qed.

Example hyps_covertree_satisfiable :
  forall k q, k <= 5 - 1 -> q < 5 ->
    Knn_CoverSel_Model.cand_complete m_line_d 5 (Z.of_nat q) k (Knn_Spec.others 5 (Z.of_nat q)).
Proof. exact nv_covertree. Qed.

Example hyps_ties_satisfiable :
  tie_free_b (pdist tied5_pts) 5 = false /\
  boundary_free_b (pdist tied5_pts) 5 4 = true /\
  boundary_free_b (pdist tied5_pts) 5 3 = false /\
  (forall j, rows_unique (pdist tied5_pts) 5 (kseq 5 4 j)).
Proof. exact nv_ties. Qed.

(* path 0 -> 1 -> .. -> 63 (a recursive search would nest 64 activations): the explicit stack holds 1 entry;
   the two-way chain: 2 entries; and the hypotheses of dfs_stack_bounded_uniform / dfs_loop_stack_potential hold *)
Example hyps_stack_satisfiable :
  is_connected_fixed_hw 64 (path_graph 64) = (COk false, 1) /\
  is_connected_fixed_hw 64 (chain_graph 64) = (COk true, 2) /\
  wf_graph 64 (chain_graph 64) /\ (forall row, In row (chain_graph 64) -> length row = 2) /\
  sel_short sel_all.
Proof. exact nv_stack. Qed.

Example hyps_recursive_satisfiable : 2 <= 50 /\ all_reachable_from_first_rec 50 (path1 50) = COk (true, 50) /\
  all_reachable_from_first_hw 50 (path1 50) = (COk true, 1).
Proof. exact nv_recursive. Qed.
