(* Chain_Adapt_Model.v — executable model of the callback ADAPTERS tapkee ships (property C13, wave 2):
     include/tapkee/callbacks/precomputed_callbacks.hpp   precomputed_kernel_callback, precomputed_distance_callback
     include/tapkee/callbacks/eigen_callbacks.hpp         eigen_kernel_callback, eigen_distance_callback,
                                                          eigen_features_callback
   and of the places where tapkee's routines hand data objects to callbacks.

   NO PROOFS HERE.  The tables (a value of [adapt_tables]) are NOT written here: translate/t_adapt.py regenerates
   coq/gen/ChainAdapters.v from the working tree on every run.  This file gives the table language its meaning.

   An adapter is a struct that stores a reference to ONE matrix (field [ac_field]) and answers
   kernel(a, b) / distance(a, b) / vector(i, out) / dimension() by an expression over its parameters and that matrix.
   C13 says the embedding is the same "with precomputed kernel / distance matrices" as with hand-written callbacks:
   that is true only if the adapter answers, for the pair (a, b) IN THE ORDER IT IS CALLED WITH, the entry (a, b) of
   the matrix the caller supplied -- for every matrix, symmetric or not.  The member bodies are therefore modelled
   symbolically: the value of an expression is a term over the free constructors "entry (r, c) of field f",
   "column c of field f", "dot product of two columns", ... (the initial model; whatever holds here holds for every
   matrix).  An expression outside the small fragment evaluates to the distinguished value [XBad], never to a default.

   Indices are [Z]; the only arithmetic on indices the fragment has is comparison of two parameters in the condition
   of a conditional expression (that is what the seeded "read the upper triangle only" edit uses). *)
From Coq Require Import List String Bool ZArith.
Import ListNotations.
Local Open Scope string_scope.

(* ------------------------------------------------------------------ the expression language of a member body *)
Inductive cmp := CLe | CLt | CGe | CGt | CEq | CNe.

Inductive aexpr :=
| APar (i : nat)                               (* the i-th index parameter of the member function *)
| AEntry (f : string) (r c : aexpr)            (* f(r, c): entry of the matrix held in field f *)
| ACol (f : string) (c : aexpr)                (* f.col(c) *)
| ADot (u v : aexpr)                           (* u.dot(v) *)
| ANormDiff (u v : aexpr)                      (* (u - v).norm() *)
| ARows (f : string)                           (* f.rows()  (possibly inside static_cast<IndexType>) *)
| ACond (op : cmp) (i j : nat) (t e : aexpr)   (* (p_i op p_j) ? t : e *)
| AForward (m : string)                        (* m(p_0, p_1): another member of the same object, called with this
                                                  member's own parameters in the same order *)
| AOpaque (s : string).                        (* anything else (source text kept for the report) *)

Record amember := {
  am_name : string;          (* "kernel", "distance", "vector", "dimension", "operator()" *)
  am_arity : nat;            (* number of index parameters *)
  am_out : bool;             (* true: the value is ASSIGNED to the trailing DenseVector& parameter (vector(i, v)) *)
  am_body : aexpr }.         (* the returned / assigned expression *)

Record aclass := {
  ac_name : string;
  ac_field : string;         (* the one data member: const DenseMatrix& bound by the constructor to its argument *)
  ac_members : list amember }.

(* ------------------------------------------------------------------ values *)
Inductive aval :=
| XIdx (z : Z)
| XEntry (f : string) (r c : Z)
| XCol (f : string) (c : Z)
| XDot (u v : aval)
| XNormDiff (u v : aval)
| XRows (f : string)
| XBad.

(* p op q, by the three-way comparison *)
Definition cmp_of (op : cmp) (r : comparison) : bool :=
  match op, r with
  | CLe, Gt => false | CLe, _ => true
  | CLt, Lt => true  | CLt, _ => false
  | CGe, Lt => false | CGe, _ => true
  | CGt, Gt => true  | CGt, _ => false
  | CEq, Eq => true  | CEq, _ => false
  | CNe, Eq => false | CNe, _ => true
  end.

Definition cmp_holds (op : cmp) (x y : Z) : bool := cmp_of op (x ?= y)%Z.

Definition is_col (v : aval) : bool := match v with XCol _ _ => true | _ => false end.

Fixpoint aeval (self : string -> list Z -> aval) (ps : list Z) (e : aexpr) : aval :=
  match e with
  | APar i => match nth_error ps i with Some z => XIdx z | None => XBad end
  | AEntry f r c =>
    match aeval self ps r, aeval self ps c with
    | XIdx x, XIdx y => XEntry f x y
    | _, _ => XBad
    end
  | ACol f c => match aeval self ps c with XIdx x => XCol f x | _ => XBad end
  | ADot u v =>
    let x := aeval self ps u in let y := aeval self ps v in
    if is_col x && is_col y then XDot x y else XBad
  | ANormDiff u v =>
    let x := aeval self ps u in let y := aeval self ps v in
    if is_col x && is_col y then XNormDiff x y else XBad
  | ARows f => XRows f
  | ACond op i j t e' =>
    match nth_error ps i, nth_error ps j with
    | Some x, Some y => if cmp_holds op x y then aeval self ps t else aeval self ps e'
    | _, _ => XBad
    end
  | AForward m => self m ps
  | AOpaque _ => XBad
  end.

Definition no_self : string -> list Z -> aval := fun _ _ => XBad.

Fixpoint find_amember (ms : list amember) (n : string) : option amember :=
  match ms with
  | [] => None
  | m :: r => if String.eqb (am_name m) n then Some m else find_amember r n
  end.

(* a forwarded call m(p_0, p_1): m must be a value-returning member of two index parameters; its own body is
   evaluated without further forwarding (one level, as in the shipped operator() -> kernel / distance) *)
Definition self_of (ms : list amember) (m : string) (ps : list Z) : aval :=
  match find_amember ms m with
  | Some mb =>
    if Nat.eqb (am_arity mb) 2 && negb (am_out mb) && Nat.eqb (List.length ps) 2
    then aeval no_self ps (am_body mb) else XBad
  | None => XBad
  end.

(* the value member [mb] of an object of class [c] returns (or stores into its output parameter) when called with
   the index arguments [ps] *)
Definition run_member (c : aclass) (mb : amember) (ps : list Z) : aval :=
  if Nat.eqb (List.length ps) (am_arity mb) then aeval (self_of (ac_members c)) ps (am_body mb) else XBad.

(* ------------------------------------------------------------------ the generated tables *)
Record adapt_tables := {
  ad_classes : list aclass;
  ad_callsite_files : list string;             (* files scanned for callback call sites *)
  ad_callsites : list (string * string * bool) (* every  X.kernel(..) / X.distance(..) / X.vector(..)  call in
                                                  routines/, utils/features.hpp, methods/ and in the bodies of the
                                                  PlainDistance / KernelDistance wrappers: file, source snippet,
                                                  "every DATA argument is a dereference of a data iterator
                                                  ( *it, it[i], *(it + n) )" *)
}.
