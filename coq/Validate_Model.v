(* Validate_Model.v — property C14
   "Invalid requests raise the documented exception before any computation".

   Executable model of the request-validation path of tapkee, mirroring, in this order,
     stichwort/parameter.hpp   ParametersSet::add / check / merge / operator[] ,
                               Parameter::operator T (conversion), checked().satisfies().orThrow()
     stichwort/value_keeper.hpp getValue<T> (missed / wrong type), isTypeCorrect, isInitialized
     tapkee/predicates.hpp      Positivity, NonNegativity, InRange, InClosedRange
     tapkee/embed.hpp           embed(): check, merge(defaults), the three conversions,
                               the catch / rethrow table
     tapkee/methods/base.hpp    ImplementationBase constructor, find_neighbors_with,
                               eigendecomposition_via
     tapkee/parameters/context.hpp is_cancelled
     tapkee/methods.hpp         embedUsing: cancel, three dummy-callback tests, handler chain
     tapkee/methods/*.hpp       validate() and embed() of every method, statement by statement.

   The model is a WALKER over tables; the tables themselves (which keyword is checked with which
   predicate and bounds by which method, defaults, traits, order of the stages of embed(), the
   catch table) are NOT written here: coq/gen/Validate.v is regenerated from the C++ working tree
   by translate/t_val.py on every run, Validate_Spec.v holds the hand-written documented table.

   Numbers.  IndexType values are Z.  ScalarType values are exact rationals Q: a double IS a dyadic
   rational and the harness passes its exact value.  The only arithmetic the validation path does
   on doubles is the computation of two bounds, 3.0 / n_vectors and (n_vectors - 1) / 3.0; the
   model computes them exactly, the C++ rounds them to nearest.  The two can disagree only for a
   value strictly between the exact bound and its rounding (distance < 1 ulp of the bound); the
   property exempts those boundary values and the harness never generates them (it uses N for
   which the bound is dyadic, or values at least 2^-20 away from the bound).
   Division: Coq's x / 0 = 0.  Every bound expression is evaluated after the no-data test of the
   base constructor, so n_vectors >= 1 there; constant divisors are non-zero literals (Validate_Spec
   wf_tables checks it), so the case never arises on a well-formed table.

   No proofs in this file. *)

From Coq Require Import ZArith QArith Qround List Bool Arith.
Import ListNotations.
Local Open Scope Z_scope.

(* ------------------------------------------------------------------ identifiers *)
Definition kwid := nat.          (* keyword: fixed numbering, see translate/t_val.py KW_IDS *)
Definition methid := nat.        (* dimension reduction method: fixed numbering, METHOD_IDS *)

(* the C++ type held by a ValueKeeper (one TypePolicy object per type) *)
Inductive vtype :=
| TIndex        (* tapkee::IndexType  = int    *)
| TScalar       (* tapkee::ScalarType = double *)
| TBool
| TMethod       (* DimensionReductionMethod *)
| TNeighbors    (* NeighborsMethod *)
| TEigen        (* EigenMethod *)
| TStrategy     (* ComputationStrategy *)
| TProgress     (* void ( * )(double) *)
| TCancel       (* bool ( * )() *)
| TOther (tag : nat).   (* any other C++ type handed to stichwort's create(name, value) *)

Definition vtype_eqb (a b : vtype) : bool :=
  match a, b with
  | TIndex, TIndex | TScalar, TScalar | TBool, TBool | TMethod, TMethod
  | TNeighbors, TNeighbors | TEigen, TEigen | TStrategy, TStrategy
  | TProgress, TProgress | TCancel, TCancel => true
  | TOther x, TOther y => Nat.eqb x y
  | _, _ => false
  end.

Inductive value :=
| VIndex (z : Z)
| VScalar (q : Q)
| VBool (b : bool)
| VMethod (m : methid)
| VNeighbors (n : nat)
| VEigen (n : nat)
| VStrategy (n : nat)
| VProgress (nonnull : bool)
| VCancel (c : option bool)      (* None: NULL pointer; Some b: a function that returns b *)
| VOther (tag : nat).

Definition type_of (v : value) : vtype :=
  match v with
  | VIndex _ => TIndex | VScalar _ => TScalar | VBool _ => TBool | VMethod _ => TMethod
  | VNeighbors _ => TNeighbors | VEigen _ => TEigen | VStrategy _ => TStrategy
  | VProgress _ => TProgress | VCancel _ => TCancel | VOther t => TOther t
  end.

(* stichwort's is<T>(v): isTypeCorrect<T>() && v == stored value *)
Definition value_is (stored v : value) : bool :=
  match stored, v with
  | VIndex a, VIndex b => Z.eqb a b
  | VScalar a, VScalar b => Qeq_bool a b
  | VBool a, VBool b => Bool.eqb a b
  | VMethod a, VMethod b => Nat.eqb a b
  | VNeighbors a, VNeighbors b => Nat.eqb a b
  | VEigen a, VEigen b => Nat.eqb a b
  | VStrategy a, VStrategy b => Nat.eqb a b
  | _, _ => false
  end.

(* ------------------------------------------------------------------ exceptions *)
Inductive sw_exc :=              (* stichwort/exceptions.hpp *)
| SwMissed | SwWrongValue | SwWrongType | SwMultiple.

Inductive exc :=                 (* tapkee/exceptions.hpp *)
| NoData | Unsupported | NotEnoughMemory | Cancelled | EigenFail
| Missed | WrongValue | WrongType | Multiple
| Escaped (s : sw_exc).          (* a stichwort exception no catch clause of embed() translates *)

Definition sw_eqb (a b : sw_exc) : bool :=
  match a, b with
  | SwMissed, SwMissed | SwWrongValue, SwWrongValue
  | SwWrongType, SwWrongType | SwMultiple, SwMultiple => true
  | _, _ => false
  end.

(* ------------------------------------------------------------------ callbacks and events *)
Inductive callback := CbKernel | CbDistance | CbFeatures.

Inductive event :=
| EvCall (cb : callback)   (* at least one kernel(), distance() or vector() call of a REAL callback *)
| EvFeatDim                (* features.dimension() in the base constructor *)
| EvCancelFn.              (* the user's cancel function is called *)

Definition trace := list event.

(* ------------------------------------------------------------------ predicates.hpp *)
(* bound expressions as written in the source: literals keep their C++ type *)
Inductive bexpr :=
| BInt (z : Z)             (* integer literal *)
| BReal (q : Q)            (* floating literal *)
| BN                       (* n_vectors (IndexType) *)
| BDim                     (* current_dimension (IndexType): features.dimension(), 0 without features *)
| BParam (k : nat) (t : vtype)   (* static_cast<t>(parameters[k]); the translator also emits the
                                    conversion as a BConv step in front of the statement *)
| BTrunc (a : bexpr)       (* static_cast<IndexType>(a): truncation toward zero *)
| BAdd (a b : bexpr) | BSub (a b : bexpr) | BMul (a b : bexpr) | BDiv (a b : bexpr).

Inductive num := NI (z : Z) | NR (q : Q).

Definition num_Q (x : num) : Q := match x with NI z => inject_Z z | NR q => q end.

Definition num_arith (fz : Z -> Z -> Z) (fq : Q -> Q -> Q) (x y : num) : num :=
  match x, y with
  | NI a, NI b => NI (fz a b)
  | _, _ => NR (fq (num_Q x) (num_Q y))
  end.

Definition Qtrunc (q : Q) : Z := if Qle_bool 0 q then Qfloor q else Qceiling q.

(* what a bound expression may refer to: n_vectors, current_dimension, the (merged) parameters *)
Record env := { e_n : Z; e_dim : Z; e_get : nat -> option value }.

Definition param_num (t : vtype) (v : option value) : num :=
  match t, v with
  | TIndex, Some (VIndex z) => NI z
  | TScalar, Some (VScalar q) => NR q
  | _, _ => NI 0                    (* the conversion throws: see the BConv step in front *)
  end.

Fixpoint eval_bexpr (E : env) (b : bexpr) : num :=
  match b with
  | BInt z => NI z
  | BReal q => NR q
  | BN => NI (e_n E)
  | BDim => NI (e_dim E)
  | BParam k t => param_num t (e_get E k)
  | BTrunc a => match eval_bexpr E a with NI z => NI z | NR q => NI (Qtrunc q) end
  | BAdd a c => num_arith Z.add Qplus (eval_bexpr E a) (eval_bexpr E c)
  | BSub a c => num_arith Z.sub Qminus (eval_bexpr E a) (eval_bexpr E c)
  | BMul a c => num_arith Z.mul Qmult (eval_bexpr E a) (eval_bexpr E c)
  | BDiv a c => num_arith Z.quot Qdiv (eval_bexpr E a) (eval_bexpr E c)   (* int / int truncates *)
  end.

(* the constructor InRange<T>(l, u) converts its arguments to T *)
Definition coerce (ty : vtype) (x : num) : Q :=
  match ty, x with
  | TIndex, NR q => inject_Z (Qtrunc q)
  | _, _ => num_Q x
  end.

Definition Qltb (x y : Q) : bool := negb (Qle_bool y x).

(* a predicate object of predicates.hpp, read off its operator():
     Positivity      v > 0                       lo = (strict, 0)        hi = none
     NonNegativity   v >= 0                      lo = (weak, 0)          hi = none
     InRange         (v >= lower) && (v < upper)   lo = (weak, l)        hi = (strict, u)
     InClosedRange   (v >= lower) && (v <= upper)  lo = (weak, l)        hi = (weak, u)
   the translator reads the comparison operators from the struct, the bounds from the use *)
Record pred := {
  p_lo : option (bool * bexpr);     (* (strict?, bound): v > bound  or  v >= bound *)
  p_hi : option (bool * bexpr)      (* (strict?, bound): v < bound  or  v <= bound *)
}.

Definition lo_holds (n : env) (ty : vtype) (lo : option (bool * bexpr)) (x : Q) : bool :=
  match lo with
  | None => true
  | Some (strict, b) =>
      if strict then Qltb (coerce ty (eval_bexpr n b)) x else Qle_bool (coerce ty (eval_bexpr n b)) x
  end.

Definition hi_holds (n : env) (ty : vtype) (hi : option (bool * bexpr)) (x : Q) : bool :=
  match hi with
  | None => true
  | Some (strict, b) =>
      if strict then Qltb x (coerce ty (eval_bexpr n b)) else Qle_bool x (coerce ty (eval_bexpr n b))
  end.

Definition pred_holds (n : env) (ty : vtype) (p : pred) (x : Q) : bool :=
  lo_holds n ty (p_lo p) x && hi_holds n ty (p_hi p) x.

(* parameters[kw].checked().satisfies(Pred<ty>(...)).orThrow() *)
Record check := { c_kw : kwid; c_ty : vtype; c_pred : pred }.

Definition value_Q (v : value) : option Q :=
  match v with
  | VIndex z => Some (inject_Z z)
  | VScalar q => Some q
  | _ => None
  end.

(* ------------------------------------------------------------------ tables *)
(* a guard of an enclosing if / else:
     GIs k v pos    parameters[k].is(v) == pos
     GGt k t q pos  (static_cast<t>(parameters[k]) > q) == pos   (the conversion is a BConv step in front) *)
Inductive guard :=
| GIs (k : kwid) (v : value) (pos : bool)
| GGt (k : kwid) (t : vtype) (q : Q) (pos : bool).

Definition g_kw (g : guard) : kwid := match g with GIs k _ _ => k | GGt k _ _ _ => k end.

Inductive bstep :=
| BConv (k : kwid) (t : vtype)   (* parameters[k] converted to t (argument, initialiser, cast) *)
| BCheck (c : check)
| BEval (cb : callback).         (* a statement that calls the callback cb *)

Definition step := (list guard * bstep)%type.

Record method_info := {
  m_id : methid;
  m_needs_kernel : bool; m_needs_distance : bool; m_needs_features : bool;   (* traits *)
  m_handled : bool;              (* embedUsing has a handler for it *)
  m_validate : list step;        (* body of validate() *)
  m_embed : list step            (* body of embed(), helpers of base.hpp inlined *)
}.

Inductive stage :=
| SCheckDups                     (* parameters.check()                            *)
| SCheckTypes                    (* parameters.checkTypes(defaults)  (repaired tree only) *)
| SMerge                         (* parameters.merge(defaults)                    *)
| SConv (k : kwid) (t : vtype)   (* T x = parameters[k];                          *)
| SNoData                        (* if (n_vectors == 0) throw no_data_error()     *)
| SCheck (c : check)
| SFeatDim                       (* if (!is_dummy<Features>) features.dimension() *)
| SCancel (k : kwid)             (* if (context.is_cancelled()) throw cancelled_exception() *)
| SNeed (k : kwid) (tr cb : callback)  (* method.needs_tr && is_dummy<cb> -> unsupported_method_error *)
| SDispatch (k : kwid).          (* handler chain: validate(); embed() of the selected method *)

Definition pmap := list (kwid * value).

Record tables := {
  t_kwtypes : list (kwid * vtype);     (* declared type of every keyword (keywords.hpp) *)
  t_defaults : pmap;                   (* parameters/defaults.hpp, in order, with default values *)
  t_stages : list stage;
  t_methods : list method_info;
  t_rethrow : list (sw_exc * exc)      (* catch (const stichwort::X&) { throw tapkee::Y } *)
}.

(* ------------------------------------------------------------------ ParametersSet *)
Fixpoint pm_lookup (k : kwid) (pm : pmap) : option value :=
  match pm with
  | [] => None
  | (k', v) :: t => if Nat.eqb k k' then Some v else pm_lookup k t
  end.

Definition pm_mem (k : kwid) (pm : pmap) : bool :=
  match pm_lookup k pm with Some _ => true | None => false end.

(* pmap[name] = p : replace or insert *)
Fixpoint pm_set (k : kwid) (v : value) (pm : pmap) : pmap :=
  match pm with
  | [] => [(k, v)]
  | (k', v') :: t => if Nat.eqb k k' then (k, v) :: t else (k', v') :: pm_set k v t
  end.

Record pset := { ps_map : pmap; ps_dups : list kwid }.

Definition ps_empty : pset := {| ps_map := []; ps_dups := [] |}.

(* void add(const Parameter& p) *)
Definition ps_add (s : pset) (p : kwid * value) : pset :=
  {| ps_map := pm_set (fst p) (snd p) (ps_map s);
     ps_dups := if pm_mem (fst p) (ps_map s) then ps_dups s ++ [fst p] else ps_dups s |}.

(* the comma expression (a, b, c, ...): add(a); add(b); add(c); ... *)
Definition ps_build (kws : list (kwid * value)) : pset := fold_left ps_add kws ps_empty.

(* void merge(const ParametersSet& pg): only names that are absent are copied *)
Definition pm_merge (pm : pmap) (d : pmap) : pmap :=
  fold_left (fun acc p => if pm_mem (fst p) acc then acc else pm_set (fst p) (snd p) acc) d pm.

(* ------------------------------------------------------------------ requests *)
Record request := {
  rq_kws : list (kwid * value);   (* the comma expression, in order, with multiplicity *)
  rq_n : Z;                       (* end - begin *)
  rq_dim : Z;                     (* what features.dimension() returns *)
  rq_kernel : bool;               (* a real (non-dummy) kernel callback is supplied *)
  rq_distance : bool;
  rq_features : bool
}.

Definition has_cb (r : request) (cb : callback) : bool :=
  match cb with
  | CbKernel => rq_kernel r | CbDistance => rq_distance r | CbFeatures => rq_features r
  end.

(* ------------------------------------------------------------------ elementary actions *)
(* T x = parameters[k]  : operator[] (missed) then operator T (getValue<T>: wrong type) *)
Definition do_conv (pm : pmap) (k : kwid) (t : vtype) : option sw_exc :=
  match pm_lookup k pm with
  | None => Some SwMissed
  | Some v => if vtype_eqb (type_of v) t then None else Some SwWrongType
  end.

(* parameters[k].checked().satisfies(P<ty>(..)).orThrow():
   operator[] (missed); isCondition -> getValue<ty> (wrong type); predicate; orThrow (wrong value) *)
Definition do_check (pm : pmap) (n : env) (c : check) : option sw_exc :=
  match pm_lookup (c_kw c) pm with
  | None => Some SwMissed
  | Some v =>
      if vtype_eqb (type_of v) (c_ty c) then
        match value_Q v with
        | Some x => if pred_holds n (c_ty c) (c_pred c) x then None else Some SwWrongValue
        | None => Some SwWrongValue      (* a range predicate over a non-numeric type: never generated *)
        end
      else Some SwWrongType
  end.

Definition guard_on (get : nat -> option value) (g : guard) : bool :=
  match g with
  | GIs k gv pos =>
      match get k with
      | Some v => Bool.eqb (value_is v gv) pos
      | None => false                    (* operator[] would throw; wf tables only guard on defaults *)
      end
  | GGt k t q pos =>
      match get k with
      | Some v => match value_Q v with
                  | Some x => Bool.eqb (Qltb q x) pos
                  | None => false
                  end
      | None => false
      end
  end.

Definition guard_holds (pm : pmap) (g : guard) : bool := guard_on (fun k => pm_lookup k pm) g.

(* current_dimension of the base class: features.dimension() or 0 *)
Definition cur_dim (r : request) : Z := if rq_features r then rq_dim r else 0.

Definition mk_env (r : request) (pm : pmap) : env :=
  {| e_n := rq_n r; e_dim := cur_dim r; e_get := fun k => pm_lookup k pm |}.

Definition translate (T : tables) (s : sw_exc) : exc :=
  match find (fun p => sw_eqb (fst p) s) (t_rethrow T) with
  | Some p => snd p
  | None => Escaped s
  end.

(* ------------------------------------------------------------------ validate() / embed() *)
Fixpoint exec_steps (T : tables) (r : request) (pm : pmap) (steps : list step)
  : trace * option exc :=
  match steps with
  | [] => ([], None)
  | (gs, b) :: rest =>
      if forallb (guard_holds pm) gs then
        match b with
        | BConv k t =>
            match do_conv pm k t with
            | Some e => ([], Some (translate T e))
            | None => exec_steps T r pm rest
            end
        | BCheck c =>
            match do_check pm (mk_env r pm) c with
            | Some e => ([], Some (translate T e))
            | None => exec_steps T r pm rest
            end
        | BEval cb =>
            if has_cb r cb then
              let (tr, res) := exec_steps T r pm rest in (EvCall cb :: tr, res)
            else ([], Some Unsupported)   (* the dummy callback throws when first called *)
        end
      else exec_steps T r pm rest
  end.

Definition find_method (T : tables) (m : methid) : option method_info :=
  find (fun mi => Nat.eqb (m_id mi) m) (t_methods T).

Definition selected (T : tables) (pm : pmap) (k : kwid) : option method_info :=
  match pm_lookup k pm with
  | Some (VMethod m) => find_method T m
  | _ => None
  end.

Definition needs (mi : method_info) (cb : callback) : bool :=
  match cb with
  | CbKernel => m_needs_kernel mi | CbDistance => m_needs_distance mi
  | CbFeatures => m_needs_features mi
  end.

(* ------------------------------------------------------------------ embed() *)
Inductive sres := Stop (tr : trace) (e : exc) | Go (tr : trace) (s : pset).

Definition wrong_type_vs (d : pmap) (p : kwid * value) : bool :=
  match pm_lookup (fst p) d with
  | Some dv => negb (vtype_eqb (type_of (snd p)) (type_of dv))
  | None => false
  end.

Definition do_stage (T : tables) (r : request) (s : pset) (st : stage) : sres :=
  match st with
  | SCheckDups =>
      match ps_dups s with [] => Go [] s | _ :: _ => Stop [] (translate T SwMultiple) end
  | SCheckTypes =>
      if existsb (wrong_type_vs (t_defaults T)) (ps_map s)
      then Stop [] (translate T SwWrongType) else Go [] s
  | SMerge => Go [] {| ps_map := pm_merge (ps_map s) (t_defaults T); ps_dups := ps_dups s |}
  | SConv k t =>
      match do_conv (ps_map s) k t with
      | Some e => Stop [] (translate T e) | None => Go [] s
      end
  | SNoData => if Z.eqb (rq_n r) 0 then Stop [] NoData else Go [] s
  | SCheck c =>
      match do_check (ps_map s) (mk_env r (ps_map s)) c with
      | Some e => Stop [] (translate T e) | None => Go [] s
      end
  | SFeatDim => Go (if rq_features r then [EvFeatDim] else []) s
  | SCancel k =>
      match pm_lookup k (ps_map s) with
      | Some (VCancel (Some true)) => Stop [EvCancelFn] Cancelled
      | Some (VCancel (Some false)) => Go [EvCancelFn] s
      | _ => Go [] s
      end
  | SNeed k tr cb =>
      match selected T (ps_map s) k with
      | Some mi => if needs mi tr && negb (has_cb r cb) then Stop [] Unsupported else Go [] s
      | None => Go [] s
      end
  | SDispatch k =>
      match selected T (ps_map s) k with
      | Some mi =>
          if m_handled mi then
            match exec_steps T r (ps_map s) (m_validate mi ++ m_embed mi) with
            | (tr, Some e) => Stop tr e
            | (tr, None) => Go tr s
            end
          else Go [] s                   (* no handler: return TapkeeOutput() *)
      | None => Go [] s
      end
  end.

Inductive result := RThrow (e : exc) | RDone (pm : pmap).

Fixpoint exec_stages (T : tables) (r : request) (s : pset) (stages : list stage)
  : trace * result :=
  match stages with
  | [] => ([], RDone (ps_map s))
  | st :: rest =>
      match do_stage T r s st with
      | Stop tr e => (tr, RThrow e)
      | Go tr s' => let (tr', res) := exec_stages T r s' rest in (tr ++ tr', res)
      end
  end.

Definition exec (T : tables) (r : request) : trace * result :=
  exec_stages T r (ps_build (rq_kws r)) (t_stages T).

(* outcome = Throws e | Proceeds effective_parameters *)
Definition decide (T : tables) (r : request) : result := snd (exec T r).

Definition is_kd (e : event) : bool :=
  match e with EvCall CbKernel | EvCall CbDistance => true | _ => false end.

(* true iff a kernel or distance evaluation happens in the run *)
Definition evaluates (T : tables) (r : request) : bool := existsb is_kd (fst (exec T r)).
