(* Validate_Model.v — property C14
   "Invalid requests raise the documented exception before any computation".

   Executable model of the request-validation path of tapkee, mirroring, in this order,
     stichwort/parameter.hpp   ParametersSet::add / check / merge / operator[] ,
                               Parameter::operator T (conversion), checked().satisfies().orThrow()
     stichwort/value_keeper.hpp getValue<T> (missed / wrong type), isTypeCorrect, isInitialized
     tapkee/predicates.hpp      Positivity, NonNegativity, InRange, InClosedRange
     tapkee/embed.hpp           embed(): check, merge(defaults), the three conversions,
                               the catch / rethrow table
     tapkee/methods/base.hpp    ImplementationBase constructor, find_neighbors_with,
                               eigendecomposition_via
     tapkee/parameters/context.hpp is_cancelled
     tapkee/methods.hpp         embedUsing: cancel, three dummy-callback tests, handler chain
     tapkee/methods/*.hpp       validate() and embed() of every method, statement by statement.

   The model is a WALKER over tables; the tables themselves (which keyword is checked with which
   predicate and bounds by which method, defaults, traits, order of the stages of embed(), the
   catch table) are NOT written here: coq/gen/Validate.v is regenerated from the C++ working tree
   by translate/t_val.py on every run, Validate_Spec.v holds the hand-written documented table.

   Numbers.  IndexType values are Z.  ScalarType values are exact rationals Q: a double IS a dyadic
   rational and the harness passes its exact value.  The only arithmetic the validation path does
   on doubles is the computation of two bounds, 3.0 / n_vectors and (n_vectors - 1) / 3.0; the
   model computes them exactly, the C++ rounds them to nearest.  The two can disagree only for a
   value strictly between the exact bound and its rounding (distance < 1 ulp of the bound); the
   property exempts those boundary values and the harness never generates them (it uses N for
   which the bound is dyadic, or values at least 2^-20 away from the bound).
   Division: Coq's x / 0 = 0.  Every bound expression is evaluated after the no-data test of the
   base constructor, so n_vectors >= 1 there; constant divisors are non-zero literals (Validate_Spec
   wf_tables checks it), so the case never arises on a well-formed table.

   No proofs in this file. *)

From Coq Require Import ZArith QArith Qround List Bool Arith.
Import ListNotations.
Local Open Scope Z_scope.

(* ------------------------------------------------------------------ identifiers *)
Definition kwid := nat.          (* keyword: fixed numbering, see translate/t_val.py KW_IDS *)
Definition methid := nat.        (* dimension reduction method: fixed numbering, METHOD_IDS *)

(* the C++ type held by a ValueKeeper (one TypePolicy object per type) *)
Inductive vtype :=
| TIndex        (* tapkee::IndexType  = int    *)
| TScalar       (* tapkee::ScalarType = double *)
| TBool
| TMethod       (* DimensionReductionMethod *)
| TNeighbors    (* NeighborsMethod *)
| TEigen        (* EigenMethod *)
| TStrategy     (* ComputationStrategy *)
| TProgress     (* void ( * )(double) *)
| TCancel       (* bool ( * )() *)
| TOther (tag : nat).   (* any other C++ type handed to stichwort's create(name, value) *)

Definition vtype_eqb (a b : vtype) : bool :=
  match a, b with
  | TIndex, TIndex | TScalar, TScalar | TBool, TBool | TMethod, TMethod
  | TNeighbors, TNeighbors | TEigen, TEigen | TStrategy, TStrategy
  | TProgress, TProgress | TCancel, TCancel => true
  | TOther x, TOther y => Nat.eqb x y
  | _, _ => false
  end.

Inductive value :=
| VIndex (z : Z)
| VScalar (q : Q)
| VBool (b : bool)
| VMethod (m : methid)
| VNeighbors (n : nat)
| VEigen (n : nat)
| VStrategy (n : nat)
| VProgress (nonnull : bool)
| VCancel (c : option bool)      (* None: NULL pointer; Some b: a function that returns b *)
| VOther (tag : nat).

Definition type_of (v : value) : vtype :=
  match v with
  | VIndex _ => TIndex | VScalar _ => TScalar | VBool _ => TBool | VMethod _ => TMethod
  | VNeighbors _ => TNeighbors | VEigen _ => TEigen | VStrategy _ => TStrategy
  | VProgress _ => TProgress | VCancel _ => TCancel | VOther t => TOther t
  end.

(* stichwort's is<T>(v): isTypeCorrect<T>() && v == stored value *)
Definition value_is (stored v : value) : bool :=
  match stored, v with
  | VIndex a, VIndex b => Z.eqb a b
  | VScalar a, VScalar b => Qeq_bool a b
  | VBool a, VBool b => Bool.eqb a b
  | VMethod a, VMethod b => Nat.eqb a b
  | VNeighbors a, VNeighbors b => Nat.eqb a b
  | VEigen a, VEigen b => Nat.eqb a b
  | VStrategy a, VStrategy b => Nat.eqb a b
  | _, _ => false
  end.

(* ------------------------------------------------------------------ exceptions *)
Inductive sw_exc :=              (* stichwort/exceptions.hpp *)
| SwMissed | SwWrongValue | SwWrongType | SwMultiple.

Inductive exc :=                 (* tapkee/exceptions.hpp *)
| NoData | Unsupported | NotEnoughMemory | Cancelled | EigenFail
| Missed | WrongValue | WrongType | Multiple
| Escaped (s : sw_exc).          (* a stichwort exception no catch clause of embed() translates *)

Definition sw_eqb (a b : sw_exc) : bool :=
  match a, b with
  | SwMissed, SwMissed | SwWrongValue, SwWrongValue
  | SwWrongType, SwWrongType | SwMultiple, SwMultiple => true
  | _, _ => false
  end.

(* ------------------------------------------------------------------ callbacks and events *)
Inductive callback := CbKernel | CbDistance | CbFeatures.

Inductive event :=
| EvCall (cb : callback)   (* at least one kernel(), distance() or vector() call of a REAL callback *)
| EvFeatDim                (* features.dimension() in the base constructor *)
| EvCancelFn.              (* the user's cancel function is called *)

Definition trace := list event.

(* ------------------------------------------------------------------ predicates.hpp *)
(* bound expressions as written in the source: literals keep their C++ type *)
Inductive bexpr :=
| BInt (z : Z)             (* integer literal *)
| BReal (q : Q)            (* floating literal *)
| BN                       (* n_vectors (IndexType) *)
| BDim                     (* current_dimension (IndexType): features.dimension(), 0 without features *)
| BParam (k : nat) (t : vtype)   (* static_cast<t>(parameters[k]); the translator also emits the
                                    conversion as a BConv step in front of the statement *)
| BTrunc (a : bexpr)       (* static_cast<IndexType>(a): truncation toward zero *)
| BAdd (a b : bexpr) | BSub (a b : bexpr) | BMul (a b : bexpr) | BDiv (a b : bexpr).

Inductive num := NI (z : Z) | NR (q : Q).

Definition num_Q (x : num) : Q := match x with NI z => inject_Z z | NR q => q end.

Definition num_arith (fz : Z -> Z -> Z) (fq : Q -> Q -> Q) (x y : num) : num :=
  match x, y with
  | NI a, NI b => NI (fz a b)
  | _, _ => NR (fq (num_Q x) (num_Q y))
  end.

Definition Qtrunc (q : Q) : Z := if Qle_bool 0 q then Qfloor q else Qceiling q.

(* what a bound expression may refer to: n_vectors, current_dimension, the (merged) parameters *)
Record env := { e_n : Z; e_dim : Z; e_get : nat -> option value }.

Definition param_num (t : vtype) (v : option value) : num :=
  match t, v with
  | TIndex, Some (VIndex z) => NI z
  | TScalar, Some (VScalar q) => NR q
  | _, _ => NI 0                    (* the conversion throws: see the BConv step in front *)
  end.

Fixpoint eval_bexpr (E : env) (b : bexpr) : num :=
  match b with
  | BInt z => NI z
  | BReal q => NR q
  | BN => NI (e_n E)
  | BDim => NI (e_dim E)
  | BParam k t => param_num t (e_get E k)
  | BTrunc a => match eval_bexpr E a with NI z => NI z | NR q => NI (Qtrunc q) end
  | BAdd a c => num_arith Z.add Qplus (eval_bexpr E a) (eval_bexpr E c)
  | BSub a c => num_arith Z.sub Qminus (eval_bexpr E a) (eval_bexpr E c)
  | BMul a c => num_arith Z.mul Qmult (eval_bexpr E a) (eval_bexpr E c)
  | BDiv a c => num_arith Z.quot Qdiv (eval_bexpr E a) (eval_bexpr E c)   (* int / int truncates *)
  end.

(* the constructor InRange<T>(l, u) converts its arguments to T *)
Definition coerce (ty : vtype) (x : num) : Q :=
  match ty, x with
  | TIndex, NR q => inject_Z (Qtrunc q)
  | _, _ => num_Q x
  end.

Definition Qltb (x y : Q) : bool := negb (Qle_bool y x).

(* a predicate object of predicates.hpp, read off its operator():
     Positivity      v > 0                       lo = (strict, 0)        hi = none
     NonNegativity   v >= 0                      lo = (weak, 0)          hi = none
     InRange         (v >= lower) && (v < upper)   lo = (weak, l)        hi = (strict, u)
     InClosedRange   (v >= lower) && (v <= upper)  lo = (weak, l)        hi = (weak, u)
   the translator reads the comparison operators from the struct, the bounds from the use *)
Record pred := {
  p_lo : option (bool * bexpr);     (* (strict?, bound): v > bound  or  v >= bound *)
  p_hi : option (bool * bexpr)      (* (strict?, bound): v < bound  or  v <= bound *)
}.

Definition lo_holds (n : env) (ty : vtype) (lo : option (bool * bexpr)) (x : Q) : bool :=
  match lo with
  | None => true
  | Some (strict, b) =>
      if strict then Qltb (coerce ty (eval_bexpr n b)) x else Qle_bool (coerce ty (eval_bexpr n b)) x
  end.

Definition hi_holds (n : env) (ty : vtype) (hi : option (bool * bexpr)) (x : Q) : bool :=
  match hi with
  | None => true
  | Some (strict, b) =>
      if strict then Qltb x (coerce ty (eval_bexpr n b)) else Qle_bool x (coerce ty (eval_bexpr n b))
  end.

Definition pred_holds (n : env) (ty : vtype) (p : pred) (x : Q) : bool :=
  lo_holds n ty (p_lo p) x && hi_holds n ty (p_hi p) x.

(* parameters[kw].checked().satisfies(Pred<ty>(...)).orThrow() *)
Record check := { c_kw : kwid; c_ty : vtype; c_pred : pred }.

Definition value_Q (v : value) : option Q :=
  match v with
  | VIndex z => Some (inject_Z z)
  | VScalar q => Some q
  | _ => None
  end.

(* ------------------------------------------------------------------ tables *)
(* a guard of an enclosing if / else:
     GIs k v pos    parameters[k].is(v) == pos
     GGt k t q pos  (static_cast<t>(parameters[k]) > q) == pos   (the conversion is a BConv step in front) *)
Inductive guard :=
| GIs (k : kwid) (v : value) (pos : bool)
| GGt (k : kwid) (t : vtype) (q : Q) (pos : bool).

Definition g_kw (g : guard) : kwid := match g with GIs k _ _ => k | GGt k _ _ _ => k end.

Inductive bstep :=
| BConv (k : kwid) (t : vtype)   (* parameters[k] converted to t (argument, initialiser, cast) *)
| BCheck (c : check)
| BEval (cb : callback).         (* a statement that calls the callback cb *)

Definition step := (list guard * bstep)%type.

Record method_info := {
  m_id : methid;
  m_needs_kernel : bool; m_needs_distance : bool; m_needs_features : bool;   (* traits *)
  m_handled : bool;              (* embedUsing has a handler for it *)
  m_validate : list step;        (* body of validate() *)
  m_embed : list step            (* body of embed(), helpers of base.hpp inlined *)
}.

Inductive stage :=
| SCheckDups                     (* parameters.check()                            *)
| SCheckTypes                    (* parameters.checkTypes(defaults)  (repaired tree only) *)
| SMerge                         (* parameters.merge(defaults)                    *)
| SConv (k : kwid) (t : vtype)   (* T x = parameters[k];                          *)
| SNoData                        (* if (n_vectors == 0) throw no_data_error()     *)
| SCheck (c : check)
| SFeatDim                       (* if (!is_dummy<Features>) features.dimension() *)
| SCancel (k : kwid)             (* if (context.is_cancelled()) throw cancelled_exception() *)
| SNeed (k : kwid) (tr cb : callback)  (* method.needs_tr && is_dummy<cb> -> unsupported_method_error *)
| SDispatch (k : kwid).          (* handler chain: validate(); embed() of the selected method *)

Definition pmap := list (kwid * value).

Record tables := {
  t_kwtypes : list (kwid * vtype);     (* declared type of every keyword (keywords.hpp) *)
  t_defaults : pmap;                   (* parameters/defaults.hpp, in order, with default values *)
  t_stages : list stage;
  t_methods : list method_info;
  t_rethrow : list (sw_exc * exc)      (* catch (const stichwort::X&) { throw tapkee::Y } *)
}.

(* ------------------------------------------------------------------ ParametersSet *)
Fixpoint pm_lookup (k : kwid) (pm : pmap) : option value :=
  match pm with
  | [] => None
  | (k', v) :: t => if Nat.eqb k k' then Some v else pm_lookup k t
  end.

Definition pm_mem (k : kwid) (pm : pmap) : bool :=
  match pm_lookup k pm with Some _ => true | None => false end.

(* pmap[name] = p : replace or insert *)
Fixpoint pm_set (k : kwid) (v : value) (pm : pmap) : pmap :=
  match pm with
  | [] => [(k, v)]
  | (k', v') :: t => if Nat.eqb k k' then (k, v) :: t else (k', v') :: pm_set k v t
  end.

Record pset := { ps_map : pmap; ps_dups : list kwid }.

Definition ps_empty : pset := {| ps_map := []; ps_dups := [] |}.

(* void add(const Parameter& p) *)
Definition ps_add (s : pset) (p : kwid * value) : pset :=
  {| ps_map := pm_set (fst p) (snd p) (ps_map s);
     ps_dups := if pm_mem (fst p) (ps_map s) then ps_dups s ++ [fst p] else ps_dups s |}.

(* the comma expression (a, b, c, ...): add(a); add(b); add(c); ... *)
Definition ps_build (kws : list (kwid * value)) : pset := fold_left ps_add kws ps_empty.

(* void merge(const ParametersSet& pg): only names that are absent are copied *)
Definition pm_merge (pm : pmap) (d : pmap) : pmap :=
  fold_left (fun acc p => if pm_mem (fst p) acc then acc else pm_set (fst p) (snd p) acc) d pm.

(* ------------------------------------------------------------------ requests *)
Record request := {
  rq_kws : list (kwid * value);   (* the comma expression, in order, with multiplicity *)
  rq_n : Z;                       (* end - begin *)
  rq_dim : Z;                     (* what features.dimension() returns *)
  rq_kernel : bool;               (* a real (non-dummy) kernel callback is supplied *)
  rq_distance : bool;
  rq_features : bool
}.

Definition has_cb (r : request) (cb : callback) : bool :=
  match cb with
  | CbKernel => rq_kernel r | CbDistance => rq_distance r | CbFeatures => rq_features r
  end.

(* ------------------------------------------------------------------ elementary actions *)
(* T x = parameters[k]  : operator[] (missed) then operator T (getValue<T>: wrong type) *)
Definition do_conv (pm : pmap) (k : kwid) (t : vtype) : option sw_exc :=
  match pm_lookup k pm with
  | None => Some SwMissed
  | Some v => if vtype_eqb (type_of v) t then None else Some SwWrongType
  end.

(* parameters[k].checked().satisfies(P<ty>(..)).orThrow():
   operator[] (missed); isCondition -> getValue<ty> (wrong type); predicate; orThrow (wrong value) *)
Definition do_check (pm : pmap) (n : env) (c : check) : option sw_exc :=
  match pm_lookup (c_kw c) pm with
  | None => Some SwMissed
  | Some v =>
      if vtype_eqb (type_of v) (c_ty c) then
        match value_Q v with
        | Some x => if pred_holds n (c_ty c) (c_pred c) x then None else Some SwWrongValue
        | None => Some SwWrongValue      (* a range predicate over a non-numeric type: never generated *)
        end
      else Some SwWrongType
  end.

Definition guard_on (get : nat -> option value) (g : guard) : bool :=
  match g with
  | GIs k gv pos =>
      match get k with
      | Some v => Bool.eqb (value_is v gv) pos
      | None => false                    (* operator[] would throw; wf tables only guard on defaults *)
      end
  | GGt k t q pos =>
      match get k with
      | Some v => match value_Q v with
                  | Some x => Bool.eqb (Qltb q x) pos
                  | None => false
                  end
      | None => false
      end
  end.

Definition guard_holds (pm : pmap) (g : guard) : bool := guard_on (fun k => pm_lookup k pm) g.

(* current_dimension of the base class: features.dimension() or 0 *)
Definition cur_dim (r : request) : Z := if rq_features r then rq_dim r else 0.

Definition mk_env (r : request) (pm : pmap) : env :=
  {| e_n := rq_n r; e_dim := cur_dim r; e_get := fun k => pm_lookup k pm |}.

Definition translate (T : tables) (s : sw_exc) : exc :=
  match find (fun p => sw_eqb (fst p) s) (t_rethrow T) with
  | Some p => snd p
  | None => Escaped s
  end.

(* ------------------------------------------------------------------ validate() / embed() *)
Fixpoint exec_steps (T : tables) (r : request) (pm : pmap) (steps : list step)
  : trace * option exc :=
  match steps with
  | [] => ([], None)
  | (gs, b) :: rest =>
      if forallb (guard_holds pm) gs then
        match b with
        | BConv k t =>
            match do_conv pm k t with
            | Some e => ([], Some (translate T e))
            | None => exec_steps T r pm rest
            end
        | BCheck c =>
            match do_check pm (mk_env r pm) c with
            | Some e => ([], Some (translate T e))
            | None => exec_steps T r pm rest
            end
        | BEval cb =>
            if has_cb r cb then
              let (tr, res) := exec_steps T r pm rest in (EvCall cb :: tr, res)
            else ([], Some Unsupported)   (* the dummy callback throws when first called *)
        end
      else exec_steps T r pm rest
  end.

Definition find_method (T : tables) (m : methid) : option method_info :=
  find (fun mi => Nat.eqb (m_id mi) m) (t_methods T).

Definition selected (T : tables) (pm : pmap) (k : kwid) : option method_info :=
  match pm_lookup k pm with
  | Some (VMethod m) => find_method T m
  | _ => None
  end.

Definition needs (mi : method_info) (cb : callback) : bool :=
  match cb with
  | CbKernel => m_needs_kernel mi | CbDistance => m_needs_distance mi
  | CbFeatures => m_needs_features mi
  end.

(* ------------------------------------------------------------------ embed() *)
Inductive sres := Stop (tr : trace) (e : exc) | Go (tr : trace) (s : pset).

Definition wrong_type_vs (d : pmap) (p : kwid * value) : bool :=
  match pm_lookup (fst p) d with
  | Some dv => negb (vtype_eqb (type_of (snd p)) (type_of dv))
  | None => false
  end.

Definition do_stage (T : tables) (r : request) (s : pset) (st : stage) : sres :=
  match st with
  | SCheckDups =>
      match ps_dups s with [] => Go [] s | _ :: _ => Stop [] (translate T SwMultiple) end
  | SCheckTypes =>
      if existsb (wrong_type_vs (t_defaults T)) (ps_map s)
      then Stop [] (translate T SwWrongType) else Go [] s
  | SMerge => Go [] {| ps_map := pm_merge (ps_map s) (t_defaults T); ps_dups := ps_dups s |}
  | SConv k t =>
      match do_conv (ps_map s) k t with
      | Some e => Stop [] (translate T e) | None => Go [] s
      end
  | SNoData => if Z.eqb (rq_n r) 0 then Stop [] NoData else Go [] s
  | SCheck c =>
      match do_check (ps_map s) (mk_env r (ps_map s)) c with
      | Some e => Stop [] (translate T e) | None => Go [] s
      end
  | SFeatDim => Go (if rq_features r then [EvFeatDim] else []) s
  | SCancel k =>
      match pm_lookup k (ps_map s) with
      | Some (VCancel (Some true)) => Stop [EvCancelFn] Cancelled
      | Some (VCancel (Some false)) => Go [EvCancelFn] s
      | _ => Go [] s
      end
  | SNeed k tr cb =>
      match selected T (ps_map s) k with
      | Some mi => if needs mi tr && negb (has_cb r cb) then Stop [] Unsupported else Go [] s
      | None => Go [] s
      end
  | SDispatch k =>
      match selected T (ps_map s) k with
      | Some mi =>
          if m_handled mi then
            match exec_steps T r (ps_map s) (m_validate mi ++ m_embed mi) with
            | (tr, Some e) => Stop tr e
            | (tr, None) => Go tr s
            end
          else Go [] s                   (* no handler: return TapkeeOutput() *)
      | None => Go [] s
      end
  end.

Inductive result := RThrow (e : exc) | RDone (pm : pmap).

Fixpoint exec_stages (T : tables) (r : request) (s : pset) (stages : list stage)
  : trace * result :=
  match stages with
  | [] => ([], RDone (ps_map s))
  | st :: rest =>
      match do_stage T r s st with
      | Stop tr e => (tr, RThrow e)
      | Go tr s' => let (tr', res) := exec_stages T r s' rest in (tr ++ tr', res)
      end
  end.

Definition exec (T : tables) (r : request) : trace * result :=
  exec_stages T r (ps_build (rq_kws r)) (t_stages T).

(* outcome = Throws e | Proceeds effective_parameters *)
Definition decide (T : tables) (r : request) : result := snd (exec T r).

Definition is_kd (e : event) : bool :=
  match e with EvCall CbKernel | EvCall CbDistance => true | _ => false end.

(* true iff a kernel or distance evaluation happens in the run *)
Definition evaluates (T : tables) (r : request) : bool := existsb is_kd (fst (exec T r)).

(* ================================================================== bodies read from the source
   Wave 2.  translate/t_val.py also emits, into coq/gen/Validate.v,
     gen_predicates   the body of operator()(T v) of every predicate object of predicates.hpp
                      (comparison operator and operand of every conjunct),
     gen_pred_uses    every use  parameters[k].checked().satisfies(P<T>(args))  in source order,
     gen_container    the bodies of the members of stichwort::ParametersSet / Parameter that build,
                      check, merge and read the parameter set (parameter.hpp).
   The walker above keeps its own hand-written counterparts (pred / pred_holds, ps_add, pm_merge,
   the duplicate test, wrong_type_vs, pm_lookup); Validate_Proof_Bodies.v proves that they agree with
   the interpretation, defined here, of the GENERATED bodies.  No proofs in this file. *)

(* ------------------------------------------------------------------ predicates.hpp
   bool operator()(T v) const { return v OP a && v OP b; }  : a conjunction of comparisons of v *)
Inductive cmpop := OpGt | OpGe | OpLt | OpLe.

Inductive operand :=
| OField (i : nat)        (* a member initialised from the i-th constructor argument (lower, upper) *)
| OInt (z : Z)            (* integer literal *)
| OReal (q : Q)           (* floating literal (its exact binary64 value) *)
| OEpsilon.               (* std::numeric_limits<T>::epsilon(): 2^-52 for double, 0 for an integral T *)

(* fixed numbering (translate/t_val.py PRED_IDS): 0 Positivity, 1 NonNegativity, 2 InRange, 3 InClosedRange *)
Record pbody := { pb_id : nat; pb_nargs : nat; pb_conj : list (cmpop * operand) }.

Definition dbl_epsilon : Q := 1 # 4503599627370496.       (* 2^-52 *)

(* value of an operand for a predicate over type ty whose constructor arguments (already converted
   to T by the constructor) are args.  A literal is compared after the usual arithmetic conversions:
   exact in every case that can be written here. *)
Definition operand_Q (ty : vtype) (args : list Q) (o : operand) : Q :=
  match o with
  | OField i => nth i args 0%Q
  | OInt z => inject_Z z
  | OReal q => q
  | OEpsilon => match ty with TScalar => dbl_epsilon | _ => 0%Q end
  end.

Definition cmp_holds (op : cmpop) (x b : Q) : bool :=
  match op with
  | OpGt => Qltb b x | OpGe => Qle_bool b x | OpLt => Qltb x b | OpLe => Qle_bool x b
  end.

(* the body of operator() applied to the value x *)
Definition body_holds (ty : vtype) (args : list Q) (conj : list (cmpop * operand)) (x : Q) : bool :=
  forallb (fun c => cmp_holds (fst c) x (operand_Q ty args (snd c))) conj.

(* the predicate object P<ty>(args) as the walker's `pred` (one optional bound on each side) *)
Definition operand_bexpr (ty : vtype) (args : list bexpr) (o : operand) : option bexpr :=
  match o with
  | OField i => nth_error args i
  | OInt z => Some (BInt z)
  | OReal q => match ty with TScalar => Some (BReal q) | _ => None end
  | OEpsilon => Some (match ty with TScalar => BReal dbl_epsilon | _ => BInt 0 end)
  end.

Definition strict_of (op : cmpop) : bool := match op with OpGt | OpLt => true | _ => false end.
Definition is_lower (op : cmpop) : bool := match op with OpGt | OpGe => true | _ => false end.

Fixpoint instantiate (ty : vtype) (args : list bexpr) (conj : list (cmpop * operand)) (acc : pred)
  : option pred :=
  match conj with
  | [] => Some acc
  | (op, o) :: rest =>
      match operand_bexpr ty args o with
      | None => None
      | Some b =>
          if is_lower op then
            match p_lo acc with
            | Some _ => None
            | None => instantiate ty args rest {| p_lo := Some (strict_of op, b); p_hi := p_hi acc |}
            end
          else
            match p_hi acc with
            | Some _ => None
            | None => instantiate ty args rest {| p_lo := p_lo acc; p_hi := Some (strict_of op, b) |}
            end
      end
  end.

Definition no_pred : pred := {| p_lo := None; p_hi := None |}.

(* parameters[pu_kw].checked().satisfies(P<pu_ty>(pu_args)) with P = predicate number pu_pred *)
Record pred_use := { pu_pred : nat; pu_kw : kwid; pu_ty : vtype; pu_args : list bexpr }.

Definition find_pbody (ps : list pbody) (id : nat) : option pbody :=
  find (fun p => Nat.eqb (pb_id p) id) ps.

Definition check_of_use (ps : list pbody) (u : pred_use) : option check :=
  match find_pbody ps (pu_pred u) with
  | None => None
  | Some pb =>
      if Nat.eqb (length (pu_args u)) (pb_nargs pb) then
        match instantiate (pu_ty u) (pu_args u) (pb_conj pb) no_pred with
        | Some p => Some {| c_kw := pu_kw u; c_ty := pu_ty u; c_pred := p |}
        | None => None
        end
      else None
  end.

(* every check of a table, in the order the translator meets them: the stages of embed(), then
   validate() and embed() of every method *)
Definition step_checks (l : list step) : list check :=
  flat_map (fun s => match snd s with BCheck c => [c] | _ => [] end) l.
Definition stage_checks (l : list stage) : list check :=
  flat_map (fun s => match s with SCheck c => [c] | _ => [] end) l.
Definition checks_of (T : tables) : list check :=
  stage_checks (t_stages T) ++
  flat_map (fun m => step_checks (m_validate m) ++ step_checks (m_embed m)) (t_methods T).

(* ------------------------------------------------------------------ stichwort/parameter.hpp
   A small statement language for the bodies of ParametersSet::check / checkTypes / add / merge /
   operator[] and the three functions that make a set out of parameters.  std::map<name, Parameter>
   is the association list pmap (pmap[k] = v is pm_set, count / find is pm_mem / pm_lookup); a
   range-for visits the entries in list order (the C++ visits them in the order of the names: no
   body below depends on the order, see Validate_Proof_Bodies.v). *)
Inductive cwho := WThis | WArg.      (* this->pmap  /  the pmap of the argument (pg, reference) *)
Inductive ckey := KParam | KEach.    (* p.name() or name  /  each.first *)

Inductive ccond :=
| CcNot (c : ccond)
| CcAnd (a b : ccond)                (* && : the right operand is evaluated only if the left holds *)
| CcDupsEmpty                        (* dups.empty() *)
| CcHas (w : cwho) (k : ckey)        (* w.pmap.count(k) / w.pmap.find(k) != w.pmap.end() *)
| CcSameType.                        (* each.second.hasSameTypeAs(it->second), it = argument.pmap.find(each.first) *)

Inductive cstmt :=
| CsSkip
| CsSeq (a b : cstmt)
| CsIf (c : ccond) (t e : cstmt)
| CsThrow (e : sw_exc)
| CsPushDup (k : ckey)               (* dups.push_back(k) *)
| CsAssign (k : ckey)                (* pmap[k] = p  /  pmap[each.first] = each.second *)
| CsForEach (w : cwho) (body : cstmt)  (* for (auto each : w.pmap) body *)
| CsReturn                           (* return; *)
| CsReturnFound (k : ckey).          (* return it->second, it = pmap.find(k) *)

Record cenv := {
  ce_key : option kwid;              (* p.name() / name *)
  ce_val : option value;             (* the parameter p itself *)
  ce_argmap : pmap;                  (* pg.pmap / reference.pmap *)
  ce_each : option (kwid * value)    (* the loop variable *)
}.

Inductive cout :=
| CNormal (s : pset)
| CReturned (s : pset) (v : option value)
| CThrown (e : sw_exc)
| CStuck.                            (* the body does something this language gives no meaning to *)

Definition key_of (E : cenv) (k : ckey) : option kwid :=
  match k with KParam => ce_key E | KEach => option_map fst (ce_each E) end.
Definition val_of (E : cenv) (k : ckey) : option value :=
  match k with KParam => ce_val E | KEach => option_map snd (ce_each E) end.
Definition map_of (s : pset) (E : cenv) (w : cwho) : pmap :=
  match w with WThis => ps_map s | WArg => ce_argmap E end.

Fixpoint eval_ccond (s : pset) (E : cenv) (c : ccond) : option bool :=
  match c with
  | CcNot a => option_map negb (eval_ccond s E a)
  | CcAnd a b =>
      match eval_ccond s E a with
      | Some true => eval_ccond s E b
      | Some false => Some false
      | None => None
      end
  | CcDupsEmpty => Some (match ps_dups s with [] => true | _ :: _ => false end)
  | CcHas w k => option_map (fun key => pm_mem key (map_of s E w)) (key_of E k)
  | CcSameType =>
      match ce_each E with
      | Some (k, v) =>
          match pm_lookup k (ce_argmap E) with
          | Some dv => Some (vtype_eqb (type_of v) (type_of dv))
          | None => None               (* it == end(): dereferencing it has no meaning *)
          end
      | None => None
      end
  end.

Definition with_each (E : cenv) (kv : kwid * value) : cenv :=
  {| ce_key := ce_key E; ce_val := ce_val E; ce_argmap := ce_argmap E; ce_each := Some kv |}.

(* for (auto each : l) body *)
Fixpoint foreach_loop (body : pset -> kwid * value -> cout) (l : pmap) (s : pset) : cout :=
  match l with
  | [] => CNormal s
  | kv :: rest =>
      match body s kv with
      | CNormal s' => foreach_loop body rest s'
      | o => o
      end
  end.

Fixpoint run_cstmt (st : cstmt) (s : pset) (E : cenv) : cout :=
  match st with
  | CsSkip => CNormal s
  | CsSeq a b => match run_cstmt a s E with CNormal s' => run_cstmt b s' E | o => o end
  | CsIf c t e =>
      match eval_ccond s E c with
      | Some true => run_cstmt t s E
      | Some false => run_cstmt e s E
      | None => CStuck
      end
  | CsThrow e => CThrown e
  | CsPushDup k =>
      match key_of E k with
      | Some key => CNormal {| ps_map := ps_map s; ps_dups := ps_dups s ++ [key] |}
      | None => CStuck
      end
  | CsAssign k =>
      match key_of E k, val_of E k with
      | Some key, Some v => CNormal {| ps_map := pm_set key v (ps_map s); ps_dups := ps_dups s |}
      | _, _ => CStuck
      end
  | CsForEach w body =>
      foreach_loop (fun s0 kv => run_cstmt body s0 (with_each E kv)) (map_of s E w) s
  | CsReturn => CReturned s None
  | CsReturnFound k =>
      match key_of E k with
      | Some key => match pm_lookup key (ps_map s) with
                    | Some v => CReturned s (Some v)
                    | None => CStuck
                    end
      | None => CStuck
      end
  end.

(* the functions that make a set out of parameters: a sequence of calls on a set *)
Inductive cinit := InitEmpty | InitThis.   (* ParametersSet pg;  /  ParametersSet pg = *this; *)
Inductive carg := AThis | AParam.          (* *this (a Parameter)  /  the argument p *)
Inductive ccall :=
| CallAdd (a : carg)                       (* pg.add(a) *)
| CallMergeSetOf (a : carg).               (* pg.merge(a): a converted to a set first *)

Record container := {
  ct_check : cstmt;                        (* void check() *)
  ct_check_types : cstmt;                  (* void checkTypes(const ParametersSet& reference) const *)
  ct_add : cstmt;                          (* void add(const Parameter& p) *)
  ct_merge : cstmt;                        (* void merge(const ParametersSet& pg) *)
  ct_index : cstmt;                        (* Parameter operator[](const std::string& name) const *)
  ct_comma_set : list ccall;               (* ParametersSet& ParametersSet::operator,(const Parameter& p): on *this *)
  ct_comma_param : cinit * list ccall;     (* ParametersSet Parameter::operator,(const Parameter& p) *)
  ct_to_set : cinit * list ccall           (* Parameter::operator ParametersSet() *)
}.

Definition env_param (p : kwid * value) : cenv :=
  {| ce_key := Some (fst p); ce_val := Some (snd p); ce_argmap := []; ce_each := None |}.
Definition env_set (d : pmap) : cenv :=
  {| ce_key := None; ce_val := None; ce_argmap := d; ce_each := None |}.
Definition env_name (k : kwid) : cenv :=
  {| ce_key := Some k; ce_val := None; ce_argmap := []; ce_each := None |}.

Definition run_check (C : container) (s : pset) : cout := run_cstmt (ct_check C) s (env_set []).
Definition run_check_types (C : container) (s : pset) (d : pmap) : cout := run_cstmt (ct_check_types C) s (env_set d).
Definition run_add (C : container) (s : pset) (p : kwid * value) : cout := run_cstmt (ct_add C) s (env_param p).
Definition run_merge (C : container) (s : pset) (d : pmap) : cout := run_cstmt (ct_merge C) s (env_set d).
Definition run_index (C : container) (s : pset) (k : kwid) : cout := run_cstmt (ct_index C) s (env_name k).

Fixpoint run_calls (C : container) (conv : kwid * value -> option pset) (calls : list ccall)
  (this p : kwid * value) (s : pset) : option pset :=
  match calls with
  | [] => Some s
  | c :: rest =>
      let arg := fun a => match a with AThis => this | AParam => p end in
      match c with
      | CallAdd a =>
          match run_add C s (arg a) with
          | CNormal s' => run_calls C conv rest this p s'
          | _ => None
          end
      | CallMergeSetOf a =>
          match conv (arg a) with
          | Some t =>
              match run_merge C s (ps_map t) with
              | CNormal s' => run_calls C conv rest this p s'
              | _ => None
              end
          | None => None
          end
      end
  end.

(* (ParametersSet) a *)
Definition to_set_of (C : container) (a : kwid * value) : option pset :=
  match ct_to_set C with
  | (InitEmpty, calls) => run_calls C (fun _ => None) calls a a ps_empty
  | (InitThis, _) => None
  end.

(* (a, b) for two parameters *)
Definition comma_param_of (C : container) (a b : kwid * value) : option pset :=
  match (match fst (ct_comma_param C) with InitEmpty => Some ps_empty | InitThis => to_set_of C a end) with
  | Some s0 => run_calls C (to_set_of C) (snd (ct_comma_param C)) a b s0
  | None => None
  end.

(* (s, p) for a set and a parameter *)
Definition comma_set_of (C : container) (s : pset) (p : kwid * value) : option pset :=
  run_calls C (to_set_of C) (ct_comma_set C) p p s.

(* the comma expression (a, b, c, ...) as C++ parses it: ((a, b), c), ... *)
Definition comma_expression (C : container) (kws : list (kwid * value)) : option pset :=
  match kws with
  | [] => Some ps_empty
  | [a] => to_set_of C a
  | a :: b :: rest =>
      fold_left (fun acc p => match acc with Some s => comma_set_of C s p | None => None end)
                rest (comma_param_of C a b)
  end.

(* ------------------------------------------------------------------ wave 4: how a set is copied, and the
   routes a set can take from the comma expression to the by-value parameter of tapkee::embed.
   The state of a ParametersSet is BOTH members (map + duplicate record); the translator reads the copy
   constructor and operator= in the shapes they reasonably take and emits gen_copying:
     cy_ctor    the members the copy constructor initialises from its argument (a member it does not name is
                default-initialised: empty)
     cy_assign  AsFields fs    operator=(const ParametersSet& o) { this->f = o.f; ... return *this; }  for f in fs
                               (a member that is not assigned keeps the value the target had)
                AsCopySwap fs  operator=(ParametersSet o) { f.swap(o.f); ... return *this; }: the argument is made
                               by the copy constructor, the members in fs are exchanged with it, the others stay *)
Inductive cfield := FMap | FDups.
Definition cfield_eqb (a b : cfield) : bool :=
  match a, b with FMap, FMap | FDups, FDups => true | _, _ => false end.
Definition has_field (f : cfield) (fs : list cfield) : bool := existsb (cfield_eqb f) fs.

Inductive cassign := AsFields (fs : list cfield) | AsCopySwap (fs : list cfield).
Record copying := { cy_ctor : list cfield; cy_assign : cassign }.

(* the members in fs come from o, the others from t *)
Definition take_fields (fs : list cfield) (t o : pset) : pset :=
  {| ps_map := if has_field FMap fs then ps_map o else ps_map t;
     ps_dups := if has_field FDups fs then ps_dups o else ps_dups t |}.

(* ParametersSet q(o) *)
Definition copy_construct (C : copying) (o : pset) : pset := take_fields (cy_ctor C) ps_empty o.

(* t = o  (the new value of t) *)
Definition assign (C : copying) (t o : pset) : pset :=
  match cy_assign C with
  | AsFields fs => take_fields fs t o
  | AsCopySwap fs => take_fields fs t (copy_construct C o)
  end.

Inductive route :=
| RtDirect                               (* the set as the expression built it *)
| RtCopy (r : route)                     (* ParametersSet q(p); *)
| RtAssign (old : pset) (r : route)      (* q held `old` (ps_empty: a fresh set);  q = p; *)
| RtSelfAssign (r : route)               (* q = q; *)
| RtKwargs (r : route)                   (* kwargs[p]: by value in, by value out *)
| RtChain (r : route)                    (* with(p).withKernel(k).withDistance(d).withFeatures(f): each state copies *)
| RtMerge (d : pmap) (r : route).        (* q.merge(d) on the routed set (the set is the receiver) *)

Fixpoint route_set (K : container) (C : copying) (r : route) (s : pset) : option pset :=
  match r with
  | RtDirect => Some s
  | RtCopy r' => option_map (copy_construct C) (route_set K C r' s)
  | RtAssign old r' => option_map (assign C old) (route_set K C r' s)
  | RtSelfAssign r' => option_map (fun q => assign C q q) (route_set K C r' s)
  | RtKwargs r' => option_map (fun q => copy_construct C (copy_construct C q)) (route_set K C r' s)
  | RtChain r' =>
      option_map (fun q => copy_construct C (copy_construct C (copy_construct C (copy_construct C q))))
                 (route_set K C r' s)
  | RtMerge d r' =>
      match route_set K C r' s with
      | Some q => match run_merge K q d with CNormal q' => Some q' | _ => None end
      | None => None
      end
  end.

(* embed() takes the set by value: one more copy construction *)
Definition arrives (K : container) (C : copying) (r : route) (s : pset) : option pset :=
  option_map (copy_construct C) (route_set K C r s).

Fixpoint merge_free (r : route) : bool :=
  match r with
  | RtDirect => true
  | RtCopy r' | RtAssign _ r' | RtSelfAssign r' | RtKwargs r' | RtChain r' => merge_free r'
  | RtMerge _ _ => false
  end.

(* embed() run on the set that arrives by route rt from the comma expression of the request *)
Definition exec_via (K : container) (C : copying) (rt : route) (T : tables) (r : request)
  : option (trace * result) :=
  match comma_expression K (rq_kws r) with
  | Some s =>
      match arrives K C rt s with
      | Some q => Some (exec_stages T r q (t_stages T))
      | None => None
      end
  | None => None
  end.

(* the routes harness/c14.cpp drives (same numbering); the previous contents of a re-used variable *)
Definition used_without_duplicate : list (kwid * value) :=
  [(4%nat, VIndex 7); (5%nat, VIndex 1); (7%nat, VScalar (5 # 2)); (1%nat, VMethod 16%nat);
   (8%nat, VIndex 17); (15%nat, VBool false)].
Definition used_with_duplicate : list (kwid * value) :=
  [(5%nat, VIndex 1); (4%nat, VIndex 7); (5%nat, VIndex 2)].

Definition route_of_id (id : nat) (self : list (kwid * value)) : option route :=
  match id with
  | 0%nat => Some RtDirect
  | 1%nat => Some (RtCopy RtDirect)
  | 2%nat => Some (RtAssign ps_empty RtDirect)
  | 3%nat => Some (RtAssign (ps_build used_without_duplicate) RtDirect)
  | 4%nat => Some (RtAssign (ps_build used_with_duplicate) RtDirect)
  | 5%nat => Some (RtSelfAssign (RtAssign ps_empty RtDirect))
  | 6%nat => Some (RtCopy (RtKwargs RtDirect))
  | 7%nat => Some (RtChain RtDirect)
  | 8%nat => Some (RtMerge [] (RtMerge (ps_map (ps_build self)) (RtCopy RtDirect)))
  | 9%nat => Some (RtAssign (ps_build used_with_duplicate) (RtCopy (RtCopy RtDirect)))
  | 10%nat => Some (RtAssign (ps_build used_with_duplicate) (RtCopy RtDirect))
  | _ => None
  end.
