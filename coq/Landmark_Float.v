(* ====================================================================== *)
(*  Landmark_Float.v — the two places of the landmark code whose DECISION  *)
(*  depends on binary64 rounding (DESIGN 1.1, bit-exact regime):           *)
(*    routines/landmarks.hpp   static_cast<IndexType>(landmarks.size() * ratio)  *)
(*    methods/landmark_*.hpp   InClosedRange<ScalarType>(3.0 / n_vectors, 1.0)    *)
(*  Coq primitive floats (binary64, round to nearest even), evaluated by   *)
(*  vm_compute only; never extracted.  The finite sweeps carry their bound *)
(*  in the statement (a finite domain enumerated completely).              *)
(* ====================================================================== *)
From Coq Require Import Floats ZArith Uint63 List Bool Arith Lia.
Import ListNotations.

(* size_t / int -> double; exact below 2^53 (and n < 2^63 for of_Z) *)
Definition fl_of_nat (n : nat) : float := PrimFloat.of_uint63 (Uint63.of_Z (Z.of_nat n)).

(* a double given as  (-1)^neg * m * 2^e  (how the check hands a ratio to Coq) *)
Definition fl_of_me (neg : bool) (m : Z) (e : Z) : float :=
  let f := Z.ldexp (PrimFloat.of_uint63 (Uint63.of_Z m)) e in
  if neg then PrimFloat.opp f else f.

(* C++ double -> int conversion: truncation toward zero; NaN / infinity / outside int: undefined *)
Definition trunc_to_Z (f : float) : option Z :=
  match Prim2SF f with
  | S754_zero _ => Some 0%Z
  | S754_finite s m e =>
      let v := (if (0 <=? e)%Z then Zpos m * 2 ^ e else Z.shiftr (Zpos m) (- e))%Z in
      let r := if s then (- v)%Z else v in
      if ((-2147483648 <=? r) && (r <=? 2147483647))%Z then Some r else None
  | _ => None
  end.

(* static_cast<IndexType>(landmarks.size() * ratio) *)
Definition n_landmarks_fl (N : nat) (ratio : float) : option Z :=
  trunc_to_Z (PrimFloat.mul (fl_of_nat N) ratio).

(* the erase position must lie inside the vector: 0 <= count <= N *)
Definition n_landmarks_nat (N : nat) (ratio : float) : option nat :=
  match n_landmarks_fl N ratio with
  | Some z => if ((0 <=? z) && (z <=? Z.of_nat N))%Z then Some (Z.to_nat z) else None
  | None => None
  end.

(* InClosedRange<ScalarType>(3.0 / n_vectors, 1.0) : lower <= ratio && ratio <= upper *)
Definition ratio_lower (N : nat) : float := PrimFloat.div 3%float (fl_of_nat N).
Definition ratio_valid (N : nat) (ratio : float) : bool :=
  PrimFloat.leb (ratio_lower N) ratio && PrimFloat.leb ratio 1%float.

(* the Ns of a range for which the smallest accepted ratio yields fewer than 3 landmarks *)
Definition short_at_lower (lo len : nat) : list nat :=
  filter (fun N => match n_landmarks_fl N (ratio_lower N) with
                   | Some 3%Z => false | _ => true end) (seq lo len).

Definition all_in_range (lo len : nat) (P : nat -> bool) : bool := forallb P (seq lo len).

Lemma all_in_range_ok lo len P :
  all_in_range lo len P = true -> forall N, lo <= N < lo + len -> P N = true.
Proof.
  unfold all_in_range. rewrite forallb_forall. intros H N HN. apply H. apply in_seq. lia.
Qed.

(* ---------------- validation (methods/base.hpp constructor + methods/landmark_*.hpp validate()) ------
   constructor:  target_dimension InRange(1, n_vectors)            i.e. 1 <= d < N
   validate():   landmark_ratio InClosedRange(3.0 / n_vectors, 1.0)
   since fix F21 (b4b2738) also:
                 n_landmarks = static_cast<IndexType>(n_vectors * landmark_ratio);
                 target_dimension InClosedRange(1, n_landmarks)                                   *)
Definition lmds_validate_old (N d : nat) (ratio : float) : bool :=
  Nat.leb 1 d && Nat.ltb d N && ratio_valid N ratio.

Definition lmds_validate (N d : nat) (ratio : float) : bool :=
  lmds_validate_old N d ratio &&
  match n_landmarks_fl N ratio with
  | Some z => (Z.of_nat d <=? z)%Z
  | None => false
  end.
