(* ====================================================================== *)
(*  Proj_Tie.v — obligations over the GENERATED table gen/Proj.v (T-proj)  *)
(*  and the theorems that follow for every method of the tree being        *)
(*  checked.  The table is finite; `vm_compute` over it is a complete      *)
(*  enumeration.  If the source changes the table changes and these        *)
(*  obligations are re-opened (check: "no longer shown" -> search).        *)
(* ====================================================================== *)
Require Import List String Bool Arith Lia.
From TK Require Import Mat_Sums Mat_Core Proj_Model Proj_Spec Proj_Proof Proj_Table Proj.
Import ListNotations.
Open Scope string_scope.

(* ---- obligations (recomputed against the current source on every run) ---- *)
Lemma proj_table_entries_ok : forallb entry_ok_b proj_table = true.
Proof. vm_compute. reflexivity. Qed.

Lemma proj_table_projecting_set : same_set (projecting_names proj_table) projecting_methods = true.
Proof. vm_compute. reflexivity. Qed.

Lemma proj_table_projecting_count : List.length (projecting_names proj_table) = 5.
Proof. vm_compute. reflexivity. Qed.

Lemma proj_table_dispatch :
  same_set (names_of proj_table) dispatch_table = true /\
  List.length (names_of proj_table) = List.length dispatch_table /\
  NoDup (names_of proj_table) /\ dispatch_shape_ok = true.
Proof.
  split; [vm_compute; reflexivity|]. split; [vm_compute; reflexivity|]. split; [|vm_compute; reflexivity].
  unfold names_of. cbv [proj_table map pe_method].
  repeat (constructor; [cbn [In]; intros H;
          repeat (destruct H as [H|H]; [discriminate H|]); exact H|]).
  constructor.
Qed.

Lemma proj_unimplemented_is_empty :
  unimplemented_returns = "tapkee::ProjectingFunction()" /\ default_ctor_init = "implementation()".
Proof. split; vm_compute; reflexivity. Qed.

(* wave 4: project() of the returned implementation writes no member, no static, no mutable: it is a function *)
Lemma mpi_project_pure_obligation : mpi_pure_b mpi_purity = true.
Proof. vm_compute. reflexivity. Qed.

Theorem mpi_project_writes_nothing :
  mp_nonlocal_writes mpi_purity = [] /\ mp_static_decls mpi_purity = 0 /\ mp_mutable_members mpi_purity = 0 /\
  mp_file_statics mpi_purity = 0 /\ mp_nreturns mpi_purity <> 0 /\ mp_param mpi_purity = "constDenseVector&vec".
Proof.
  pose proof mpi_project_pure_obligation as H. unfold mpi_pure_b in H. rewrite !andb_true_iff in H.
  destruct H as [[[[[Hw Hs] Hm] Hf] Hr] Hp].
  destruct (mp_nonlocal_writes mpi_purity) as [|w ws]; [|discriminate Hw].
  apply Nat.eqb_eq in Hs, Hm, Hf. apply negb_true_iff, Nat.eqb_neq in Hr. apply String.eqb_eq in Hp.
  repeat split; assumption.
Qed.

(* ---- what they mean ---- *)
Lemma entry_ok e : In e proj_table -> entry_ok_b e = true.
Proof. intros H. pose proof proj_table_entries_ok as A. rewrite forallb_forall in A. apply A. exact H. Qed.

(* every method that returns a MatrixProjectionImplementation passes THE SAME matrix and THE SAME
   mean expression to project() (which builds the embedding) and to the returned function, and
   that mean is compute_mean over the training range *)
Theorem projecting_same_arguments :
  forall e, In e proj_table -> pe_kind e = KMatrix ->
  exists A B,
    pe_mpi_args e = [A; B] /\
    pe_project_args e = [A; B; "begin"; "end"; "features"; "current_dimension"] /\
    pe_mean_init e = "compute_mean(begin,end,features,current_dimension)" /\
    pe_emb_is_project e = true /\ pe_nreturns e = 1 /\
    In (pe_method e) projecting_methods.
Proof.
  intros e He Hk. pose proof (entry_ok e He) as H. unfold entry_ok_b in H. rewrite Hk in H.
  apply andb_true_iff in H. destruct H as [Hm H]. apply smem_ok in Hm.
  unfold projecting_ok_b in H. rewrite !andb_true_iff in H.
  destruct H as [[[Hn Hp] Ha] Hi].
  destruct (pe_mpi_args e) as [|A [|B [|? ?]]]; try discriminate.
  exists A, B. apply slist_eqb_ok in Ha. apply String.eqb_eq in Hi. apply Nat.eqb_eq in Hn.
  repeat split; assumption.
Qed.

(* the set of projecting methods is exactly the five the property names *)
Theorem projecting_methods_exact :
  forall name,
    (exists e, In e proj_table /\ pe_method e = name /\ pe_kind e = KMatrix) <->
    In name projecting_methods.
Proof.
  intros name. split.
  - intros [e [He [Hn Hk]]]. subst name.
    destruct (projecting_same_arguments e He Hk) as [A [B [_ [_ [_ [_ [_ H]]]]]]]. exact H.
  - intros H. pose proof proj_table_projecting_set as S. unfold same_set in S.
    apply andb_true_iff in S. destruct S as [_ S]. rewrite forallb_forall in S.
    specialize (S name H). apply smem_ok in S. unfold projecting_names in S.
    apply in_map_iff in S. destruct S as [e [Hn He]]. apply filter_In in He. destruct He as [He Hk].
    exists e. split; [assumption|]. split; [assumption|].
    destruct (pe_kind e); try discriminate. reflexivity.
Qed.

(* every other method returns unimplementedProjectingFunction(), i.e. a null implementation *)
Theorem other_methods_empty :
  forall e, In e proj_table -> ~ In (pe_method e) projecting_methods ->
    pe_kind e = KUnimplemented /\ pe_nreturns e = 1.
Proof.
  intros e He Hn. pose proof (entry_ok e He) as H. unfold entry_ok_b in H.
  destruct (pe_kind e) eqn:Hk.
  - apply andb_true_iff in H. destruct H as [_ H]. apply Nat.eqb_eq in H. split; [reflexivity|assumption].
  - apply andb_true_iff in H. destruct H as [H _]. apply smem_ok in H. contradiction.
  - discriminate.
Qed.

(* every method the dispatcher can reach has an entry, and vice versa *)
Theorem dispatch_covered :
  forall name, In name dispatch_table <-> exists e, In e proj_table /\ pe_method e = name.
Proof.
  intros name. destruct proj_table_dispatch as [S _]. unfold same_set in S.
  apply andb_true_iff in S. destruct S as [S1 S2]. rewrite forallb_forall in S1, S2. split.
  - intros H. specialize (S2 name H). apply smem_ok in S2. unfold names_of in S2.
    apply in_map_iff in S2. destruct S2 as [e [Hn He]]. exists e. split; assumption.
  - intros [e [He Hn]]. subst name. apply smem_ok. apply S1. unfold names_of. apply in_map. assumption.
Qed.

Theorem other_methods_empty_all :
  (forall e, In e proj_table -> ~ In (pe_method e) projecting_methods ->
     pe_kind e = KUnimplemented /\ pe_nreturns e = 1) /\
  unimplemented_returns = "tapkee::ProjectingFunction()" /\
  default_ctor_init = "implementation()" /\
  (forall name, In name dispatch_table <-> exists e, In e proj_table /\ pe_method e = name) /\
  List.length dispatch_table = List.length proj_table /\ dispatch_shape_ok = true.
Proof.
  split; [exact other_methods_empty|]. split; [apply proj_unimplemented_is_empty|].
  split; [apply proj_unimplemented_is_empty|]. split; [exact dispatch_covered|].
  destruct proj_table_dispatch as [_ [H [_ H2]]]. split; [|assumption].
  unfold names_of in H. rewrite map_length in H. symmetry. exact H.
Qed.

(* ---- model of the tail of embed() selected by the generated entry, and C07 for it ---- *)
Section MethodTail.
  Context {F : Type} {Fo : FieldOps F} {Ff : IsField F}.

  (* P: whatever the method computed as projection matrix (only used by projecting methods);
     E: whatever the method computed as embedding (only used by the others) *)
  Definition method_tail (e : proj_entry) (D d : nat) (P E Xs : list (list F))
    : pres (list (list F) * projecting_function F) :=
    match pe_kind e with
    | KMatrix => projecting_embed_tail D d P Xs
    | KUnimplemented => nonprojecting_embed_tail E
    | KOther => PDim 99 0 0
    end.

  Theorem C07_every_method :
    forall e, In e proj_table ->
    forall N D d (P E Xs : list (list F)),
      wf_mat D d P -> wf_mat N D Xs -> of_nat N <> fzero ->
      (In (pe_method e) projecting_methods /\
       exists Y m, method_tail e D d P E Xs = POk (Y, PFMatrix P m) /\
         output_consistent N D d (mof Xs) (mof Y) (mof P) (vof m) /\
         (forall i, i < N -> pf_apply D d (PFMatrix P m) (nth i Xs []) = Some (POk (nth i Y []))) /\
         affine_on D d (mpi_project D (mof P) (vof m)))
      \/
      (~ In (pe_method e) projecting_methods /\
       method_tail e D d P E Xs = POk (E, PFNone)).
  Proof.
    intros e He N D d P E Xs HP HX HN. unfold method_tail.
    destruct (pe_kind e) eqn:Hk.
    - right. split; [|reflexivity]. intros Hin.
      pose proof (entry_ok e He) as H. unfold entry_ok_b in H. rewrite Hk in H.
      apply andb_true_iff in H. destruct H as [H _]. apply negb_true_iff in H.
      apply smem_ok in Hin. congruence.
    - left. destruct (projecting_same_arguments e He Hk) as [A [B [_ [_ [_ [_ [_ Hin]]]]]]].
      split; [assumption|].
      destruct (@projecting_embed_tail_ok F Fo Ff N D d P Xs HP HX) as [Y [m [H1 [_ [_ [H4 H5]]]]]].
      exists Y, m. split; [assumption|]. split; [apply H4; assumption|]. split; [assumption|].
      apply project_affine.
    - pose proof (entry_ok e He) as H. unfold entry_ok_b in H. rewrite Hk in H. discriminate.
  Qed.
End MethodTail.
