(* Dijkstra_IsoPipe_Model.v — Isomap::embed() END TO END up to the eigensolver call (wave 4): the geodesic routine
   (both queues NOT abstracted: Dijkstra_PQC_Model / Dijkstra_FibC_Model) composed with the statements of
   Dijkstra_IsoExec.v.  No proofs here (Dijkstra_Proof_IsoPipe.v).

   include/tapkee/methods/isomap.hpp, embed():
       Neighbors neighbors = find_neighbors_with(plain_distance);                       -> nbrs (input here)
       M = compute_shortest_distances_matrix(begin, end, neighbors, distance);          -> full_matrix_pqc / _fibc
       M = M.array().square(); M = (M + M^T)/2; centerMatrix(M); M.array() *= -0.5;     -> iso_current_exec
       eigendecomposition_via(LargestEigenvalues, M, d)                                 -> Handed M
   The statements after the geodesic call are only meaningful on finite entries (an unreachable pair is DBL_MAX in the
   C++ and its square overflows): `Disconnected`.  Weights: Z (dyadic doubles scaled by a power of two).

   `embed_handed_shortcut` is NOT the shipped code: it is the "complete graph => the geodesics are the direct
   distances" fast path (compute_distance_matrix: d(i,j)^2 evaluated for i <= j and mirrored) that looks harmless and
   is refuted for legal non-metric callbacks (embed_complete_graph_shortcut_refuted). *)
From Coq Require Import List ZArith Arith Qcanon.
From TK Require Import Mat_Sums Mat_Core Mat_Qc Dijkstra_Model Dijkstra_Spec Dijkstra_IsoModel Dijkstra_IsoExec
     Dijkstra_FibC_Model Dijkstra_PQC_Model.
Import ListNotations.
Local Open Scope Z_scope.

Fixpoint all_some {A : Type} (l : list (option A)) : option (list A) :=
  match l with
  | [] => Some []
  | None :: _ => None
  | Some a :: r => match all_some r with Some r' => Some (a :: r') | None => None end
  end.

Definition finite_table (m : list (list (option Z))) : option (list (list Z)) :=
  all_some (map all_some m).

Inductive handed : Type :=
| Handed (B : list (list Qc))      (* the matrix given to the eigensolver *)
| Disconnected                     (* some sample does not reach some other one *)
| GeodesicsFailed.                 (* the geodesic routine's model stopped (OOB / fuel): never for well-formed graphs *)

Definition embed_tail (N : nat) (g : dres (list (list (option Z)))) : handed :=
  match g with
  | DOk m => match finite_table m with
             | Some t => Handed (iso_current_exec N t)
             | None => Disconnected
             end
  | _ => GeodesicsFailed
  end.

Definition embed_handed_pqc (nbrs : list (list nat)) (w : nat -> nat -> Z) (N : nat) : handed :=
  embed_tail N (full_matrix_pqc nbrs w N).
Definition embed_handed_fibc (nbrs : list (list nat)) (w : nat -> nat -> Z) (N : nat) : handed :=
  embed_tail N (full_matrix_fibc nbrs w N).

(* the reference: classical MDS (-1/2 J S J, S = squared lengths of both directions averaged) of the shortest-path
   lengths of the neighbourhood graph (Bellman-Ford specification) *)
Definition mds_of_shortest_paths (nbrs : list (list nat)) (w : nat -> nat -> Z) (N : nat) : handed :=
  match finite_table (sp_matrix nbrs w N) with
  | Some t => Handed (mds_ref_exec N t)
  | None => Disconnected
  end.

(* ---- the fast path that is wrong ---- *)
Definition direct_sq_table (w : nat -> nat -> Z) (N : nat) : list (list Z) :=
  map (fun i => map (fun j => let d := w (Nat.min i j) (Nat.max i j) in d * d) (seq 0 N)) (seq 0 N).

(* the statements after the squaring, applied to a table that is already squared *)
Definition iso_of_squares_exec (n : nat) (t : list (list Z)) : list (list Qc) :=
  center_scale_exec n (mtab n n (sym_avg (geo_of_table t))).

Definition embed_handed_shortcut (nbrs : list (list nat)) (w : nat -> nat -> Z) (N : nat) : handed :=
  match nbrs with
  | r0 :: _ => if Nat.eqb (length r0 + 1) N
               then Handed (iso_of_squares_exec N (direct_sq_table w N))
               else embed_handed_pqc nbrs w N
  | [] => embed_handed_pqc nbrs w N
  end.

(* witness: the points 0, 1, 2 on a line, SQUARED distance (symmetric, zero diagonal, positive, not a metric:
   4 > 1 + 1), complete neighbourhood graph k = N-1 = 2 *)
Definition line3_nbrs : list (list nat) := [[1; 2]; [0; 2]; [1; 0]]%nat.
Definition line3_sq : list (list Z) := [[0; 1; 4]; [1; 0; 1]; [4; 1; 0]].
