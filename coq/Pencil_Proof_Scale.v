(* ====================================================================== *)
(*  Pencil_Proof_Scale.v — property C10 (Wave 2): the routines and the     *)
(*  generalised problem are HOMOGENEOUS.                                   *)
(*                                                                         *)
(*   * npe/lltsa/lpp_scale: multiplying every stored entry of W / L by a,  *)
(*     the degree vector by b and every feature value by s multiplies the  *)
(*     returned FULL tables by s*s*a and s*s*b (s*s for the right-hand     *)
(*     sides of NPE / LLTSA) — for every input, no hypothesis: no stored   *)
(*     entry is ever dropped, however small (an absolute cut-off in the    *)
(*     accumulation loop falsifies exactly this).                          *)
(*   * gen_eig_solution_scale: a solution of (A, B) is, renormalised by r  *)
(*     with r*r*c = 1, a solution of (c A, c B) with the SAME eigenvalues: *)
(*     the magnitude of the entries of L and D carries no meaning for the  *)
(*     property.                                                           *)
(*   * spec_full_b (the decision procedure on the FULL returned tables) is *)
(*     sound and accepts every output of the model of the current code.    *)
(* ====================================================================== *)

Require Import Field Ring Arith Lia List Bool QArith Qcanon.
From TK Require Import Mat_Sums Mat_Core Mat_Qc Mat_EigSelect Pencil_Model Pencil_Spec Pencil_Proof_Sums
     Pencil_Proof Pencil_Proof_Qc.
Import ListNotations.

Section PencilScale.
  Context {F : Type} {Fo : FieldOps F} {Ff : IsField F}.
  Add Field PencilScaleField : (@Fth F Fo Ff).
  Local Open Scope F_scope.

  Lemma lsum_mul_l {A} (l : list A) (c : F) f : lsum l (fun x => c * f x) = c * lsum l f.
  Proof.
    induction l as [|x l IH]; rewrite ?lsum_cons, ?lsum_nil; [ring|]. rewrite IH. ring.
  Qed.

  Lemma lsum_sscale (c : F) (W : sparse F) (g : nat -> nat -> F) :
    lsum (sscale c W) (fun e => match e with (r, k, v) => v * g r k end) =
    c * lsum W (fun e => match e with (r, k, v) => v * g r k end).
  Proof.
    induction W as [|[[r k] v] W IH]; cbn [sscale map]; rewrite ?lsum_cons, ?lsum_nil; [ring|].
    fold (sscale c W). rewrite IH. ring.
  Qed.

  (* ---------------- the two accumulation loops ---------------- *)
  Lemma acc_sparse_scale (X : mat F) (W : sparse F) (a s : F) i j :
    read_upper (acc_sparse (xscale s X) (sscale a W) mzero) i j =
    s * s * a * read_upper (acc_sparse X W mzero) i j.
  Proof.
    rewrite !acc_sparse_upper, !read_upper_mzero.
    rewrite (lsum_sscale a W (fun r k => xscale s X i r * xscale s X j k + xscale s X i k * xscale s X j r)).
    rewrite (lsum_ext W _ (fun e => (s * s) * (match e with (r, k, v) => v * (X i r * X j k + X i k * X j r) end))).
    - rewrite lsum_mul_l. ring.
    - intros [[r k] v] _. unfold xscale. ring.
  Qed.

  Lemma acc_samples_scale (X : mat F) N (w : vec F) (b s : F) i j :
    read_upper (acc_samples (xscale s X) N (fun t => b * w t) mzero) i j =
    s * s * b * read_upper (acc_samples X N w mzero) i j.
  Proof.
    rewrite !acc_samples_upper, !read_upper_mzero.
    rewrite (sumn_ext N _ (fun t => (s * s * b) * (w t * (X i t * X j t))))
      by (intros; unfold xscale; ring).
    rewrite sumn_mul_l. ring.
  Qed.

  Lemma acc_samples_scale_plain (X : mat F) N (s : F) i j :
    read_upper (acc_samples (xscale s X) N (fun _ => 1) mzero) i j =
    s * s * read_upper (acc_samples X N (fun _ => 1) mzero) i j.
  Proof.
    rewrite !acc_samples_upper, !read_upper_mzero.
    rewrite (sumn_ext N _ (fun t => (s * s) * (1 * (X i t * X j t))))
      by (intros; unfold xscale; ring).
    rewrite sumn_mul_l. ring.
  Qed.

  (* the mean and the centred features scale with the features *)
  Lemma centred_xscale (X : mat F) N (s : F) f t :
    centred (xscale s X) N f t = xscale s (centred X N) f t.
  Proof.
    unfold centred, xscale. rewrite !compute_mean0_eq.
    cbv beta. rewrite sumn_mul_l. rewrite !(Fdiv_def Fth).
    change (fun s0 : nat => X f s0) with (X f). ring.
  Qed.

  Lemma acc_sparse_ext_X (X X' : mat F) (W : sparse F) i j :
    (forall f t, X f t = X' f t) ->
    read_upper (acc_sparse X W mzero) i j = read_upper (acc_sparse X' W mzero) i j.
  Proof.
    intros H. rewrite !acc_sparse_upper. f_equal. apply lsum_ext. intros [[r k] v] _.
    rewrite !H. reflexivity.
  Qed.

  Lemma acc_samples_ext_X (X X' : mat F) N w i j :
    (forall f t, X f t = X' f t) ->
    read_upper (acc_samples X N w mzero) i j = read_upper (acc_samples X' N w mzero) i j.
  Proof.
    intros H. rewrite !acc_samples_upper. f_equal. apply sumn_ext. intros t _.
    rewrite !H. reflexivity.
  Qed.

  (* ---------------- the three routines (CURRENT code) ---------------- *)
  Theorem npe_scale N (X : mat F) (W : sparse F) (a s : F) :
    peq (npe_repaired (xscale s X) N (sscale a W)) (pscale (s * s * a) (s * s) (npe_repaired X N W)).
  Proof.
    split; intros i j; cbn [p_lhs p_rhs npe_repaired pscale]; unfold sym_from_upper, mscale.
    - apply acc_sparse_scale.
    - apply acc_samples_scale_plain.
  Qed.

  Theorem lltsa_scale N (X : mat F) (W : sparse F) (a s : F) :
    peq (lltsa_centred (xscale s X) N (sscale a W)) (pscale (s * s * a) (s * s) (lltsa_centred X N W)).
  Proof.
    split; intros i j; cbn [p_lhs p_rhs lltsa_centred pscale]; unfold sym_from_upper, mscale.
    - rewrite (acc_sparse_ext_X _ (xscale s (centred X N))) by (intros; apply centred_xscale).
      apply acc_sparse_scale.
    - rewrite (acc_samples_ext_X _ (xscale s (centred X N))) by (intros; apply centred_xscale).
      apply acc_samples_scale_plain.
  Qed.

  Theorem lpp_scale N (X : mat F) (L : sparse F) (dv : vec F) (a b s : F) :
    peq (lpp_repaired (xscale s X) N (sscale a L) (fun t => b * dv t))
        (pscale (s * s * a) (s * s * b) (lpp_repaired X N L dv)).
  Proof.
    split; intros i j; cbn [p_lhs p_rhs lpp_repaired pscale]; unfold sym_from_upper, mscale.
    - apply acc_sparse_scale.
    - apply acc_samples_scale.
  Qed.

  (* ---------------- the generalised problem ---------------- *)
  Theorem gen_eig_solution_scale D d (A B P : mat F) lam (c r : F) :
    r * r * c = 1 ->
    gen_eig_solution D d A B P lam ->
    gen_eig_solution D d (mscale c A) (mscale c B) (mscale r P) lam.
  Proof.
    intros Hr [H1 H2].
    assert (HM : forall M i j, mmul D (mscale c M) (mscale r P) i j = c * r * mmul D M P i j).
    { intros M i j. unfold mmul, mscale. rewrite <- sumn_mul_l. apply sumn_ext. intros; ring. }
    split.
    - intros i j Hi Hj. rewrite HM, (H1 i j Hi Hj).
      rewrite !mmul_diag_r by assumption. rewrite HM. ring.
    - intros i j Hi Hj.
      assert (E : mmul D (mtrans (mscale r P)) (mmul D (mscale c B) (mscale r P)) i j
                  = r * r * c * mmul D (mtrans P) (mmul D B P) i j).
      { transitivity (sumn D (fun t => r * r * c * (mtrans P i t * mmul D B P t j))).
        - unfold mmul at 1. apply sumn_ext. intros t _. rewrite HM. unfold mtrans, mscale. ring.
        - rewrite sumn_mul_l. reflexivity. }
      rewrite E, (H2 i j Hi Hj), Hr. ring.
  Qed.

  (* the eigen-equation alone needs no renormalisation and no hypothesis on c *)
  Theorem eigen_equation_scale D d (A B P : mat F) lam (c : F) :
    meq D d (mmul D A P) (mmul d (mmul D B P) (mdiag lam)) ->
    meq D d (mmul D (mscale c A) P) (mmul d (mmul D (mscale c B) P) (mdiag lam)).
  Proof.
    intros H1 i j Hi Hj.
    assert (HM : forall M a b, mmul D (mscale c M) P a b = c * mmul D M P a b).
    { intros M a b. unfold mmul, mscale. rewrite <- sumn_mul_l. apply sumn_ext. intros; ring. }
    rewrite HM, (H1 i j Hi Hj). rewrite !mmul_diag_r by assumption. rewrite HM. ring.
  Qed.

  (* ---------------- the reference matrices are symmetric ---------------- *)
  Lemma XMXt_sym2_sym N (X M : mat F) a b : XMXt N X (sym2 M) a b = XMXt N X (sym2 M) b a.
  Proof. rewrite !XMXt_sym2. ring. Qed.

  Lemma XMXt_mI_sym N (X : mat F) a b : XMXt N X mI a b = XMXt N X mI b a.
  Proof. rewrite !XMXt_mI. apply sumn_ext. intros; ring. Qed.

  Lemma XMXt_mdiag_sym N (X : mat F) v a b : XMXt N X (mdiag v) a b = XMXt N X (mdiag v) b a.
  Proof. rewrite !XMXt_mdiag. apply sumn_ext. intros; ring. Qed.

  Lemma XMXt_Jn_sym N (X : mat F) a b : XMXt N X (Jn N) a b = XMXt N X (Jn N) b a.
  Proof. rewrite !XMXt_Jn, !XMXt_mconst, (XMXt_mI_sym N X a b). ring. Qed.

End PencilScale.

(* ====================== the decision procedure on the FULL tables (Qc) ====================== *)
Local Open Scope F_scope.

Theorem spec_full_b_sound m N D Xl W dvl lhs rhs :
  spec_full_b m N D Xl W dvl lhs rhs = true ->
  wf_mat D D lhs /\ wf_mat D D rhs /\
  is_pencil D (ref_lhs m N (mof Xl) W) (ref_rhs m N (mof Xl) (vof dvl))
            {| p_lhs := mof lhs; p_rhs := mof rhs |}.
Proof.
  unfold spec_full_b, tables_full_b. rewrite ref_pencil_tables.
  cbn [fst snd]. rewrite !andb_true_iff. intros [[H1 H2] [H3 H4]].
  apply wf_matb_ok in H1. apply wf_matb_ok in H2.
  apply mlist_eqb_ok in H3. apply mlist_eqb_ok in H4.
  split; [assumption|]. split; [assumption|].
  split; cbn [p_lhs p_rhs]; intros i j Hi Hj.
  - rewrite H3. apply mof_mtab; assumption.
  - rewrite H4. apply mof_mtab; assumption.
Qed.

Lemma model_tables_full D (A B : mat Qc) (p : pencil Qc) :
  is_pencil D A B p ->
  tables_full_b (mtab D D A) (mtab D D B) (mtab D D (p_lhs p)) (mtab D D (p_rhs p)) = true.
Proof.
  intros [HA HB]. unfold tables_full_b. rewrite andb_true_iff.
  split; apply mlist_eqb_ok; apply mtab_ext; assumption.
Qed.

Theorem model_meets_spec_full m N D Xl W dvl lhs rhs :
  run_construct VF42 m N D Xl W dvl = Ok (lhs, rhs) ->
  spec_full_b m N D Xl W dvl lhs rhs = true.
Proof.
  unfold run_construct.
  destruct (negb (wf_matb D N Xl)); [discriminate|].
  destruct (bad_index N W) eqn:Eb; [discriminate|].
  apply indices_ok_of_bad_index in Eb.
  unfold spec_full_b. rewrite ref_pencil_tables. cbn [fst snd].
  destruct m.
  - intros H. injection H as <- <-. rewrite !wf_matb_mtab. cbn [andb].
    exact (model_tables_full D (npe_lhs N (mof Xl) W) (npe_rhs N (mof Xl))
             (npe_repaired (mof Xl) N W) (npe_problem_gen D N (mof Xl) W Eb)).
  - destruct (Nat.eqb N 0) eqn:EN; [discriminate|]. apply Nat.eqb_neq in EN.
    intros H. injection H as <- <-. rewrite !wf_matb_mtab. cbn [andb].
    exact (model_tables_full D (lltsa_lhs N (mof Xl) W) (lltsa_rhs N (mof Xl))
             (lltsa_centred (mof Xl) N W)
             (lltsa_problem_gen D N (mof Xl) W (Qc_of_nat_neq0 N EN) Eb)).
  - destruct (negb (Nat.eqb (length dvl) N)); [discriminate|].
    intros H. injection H as <- <-. rewrite !wf_matb_mtab. cbn [andb].
    exact (model_tables_full D (lpp_lhs N (mof Xl) W) (lpp_rhs N (mof Xl) (vof dvl))
             (lpp_repaired (mof Xl) N W (vof dvl)) (lpp_problem_gen D N (mof Xl) W (vof dvl) Eb)).
Qed.

(* the tree before F9 fails the FULL-table procedure on the same witness as the seen one *)
Theorem full_tables_refuted_before_f9 :
  exists lhs rhs, run_construct VShipped LPP 2 2 [[qz 1; qz 1]; [qz 0; qz 1]] wW [qz 1; qz 1] = Ok (lhs, rhs) /\
                  spec_full_b LPP 2 2 [[qz 1; qz 1]; [qz 0; qz 1]] wW [qz 1; qz 1] lhs rhs = false.
Proof. eexists. eexists. split; vm_compute; reflexivity. Qed.

(* non-vacuity: r*r*c = 1 is satisfiable with c <> 1, and the scaled routine is run *)
Lemma e_scale_factor : (qfrac 1 2 * qfrac 1 2 * qz 4 = 1 :> Qc).
Proof. apply qeqb_ok. vm_compute. reflexivity. Qed.

Lemma e_run_full :
  exists lhs rhs, run_construct VF42 LPP 2 2 [[qz 1; qz 1]; [qz 0; qz 1]] wW [qz 1; qz 1] = Ok (lhs, rhs) /\
                  spec_full_b LPP 2 2 [[qz 1; qz 1]; [qz 0; qz 1]] wW [qz 1; qz 1] lhs rhs = true.
Proof. eexists. eexists. split; vm_compute; reflexivity. Qed.

(* ---------------- the two decision procedures are coherent: full tables right -> the reader's view right ---------------- *)
Lemma ref_lhs_sym m N (X : mat Qc) (W : sparse Qc) a b : ref_lhs m N X W a b = ref_lhs m N X W b a.
Proof. destruct m; cbn [ref_lhs]; apply XMXt_sym2_sym. Qed.

Lemma ref_rhs_sym m N (X : mat Qc) (dv : vec Qc) a b : ref_rhs m N X dv a b = ref_rhs m N X dv b a.
Proof.
  destruct m; cbn [ref_rhs]; [apply XMXt_mI_sym|apply XMXt_Jn_sym|apply XMXt_mdiag_sym].
Qed.

Theorem spec_full_implies_seen m N D Xl W dvl lhs rhs :
  spec_full_b m N D Xl W dvl lhs rhs = true -> spec_construct_b m N D Xl W dvl lhs rhs = true.
Proof.
  unfold spec_full_b, spec_construct_b, tables_full_b, tables_seen_b, seen_tables.
  rewrite ref_pencil_tables. cbn [fst snd]. rewrite !andb_true_iff. intros [[H1 H2] [H3 H4]].
  apply mlist_eqb_ok in H3. apply mlist_eqb_ok in H4. subst lhs rhs.
  split; [split; assumption|]. split; apply mlist_eqb_ok; apply mtab_ext.
  - eapply meq_trans; [apply read_lower_mof_mtab|]. intros i j _ _.
    apply read_lower_of_msym_all. intros a b. apply ref_lhs_sym.
  - eapply meq_trans; [apply read_lower_mof_mtab|]. intros i j _ _.
    apply read_lower_of_msym_all. intros a b. apply ref_rhs_sym.
Qed.
