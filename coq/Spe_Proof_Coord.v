(* Spe_Proof_Coord.v — the coordinate update of SPE, random projection and factor analysis over an
   abstract field: pair update law, centroid invariant, batched = independent under disjointness,
   one oracle draw per projection-matrix entry, translation invariance of RP and FA. *)
Require Import Field Ring List Arith Lia Bool.
From TK Require Import Mat_Sums Mat_Core Spe_Model Spe_Spec Spe_Proof_Lists.
Import ListNotations.

Lemma skipn_add {A} (l : list A) m n : skipn n (skipn m l) = skipn (m + n) l.
Proof.
  revert l. induction m as [|m IH]; intros l; [reflexivity|].
  destruct l as [|x l]; cbn [skipn Nat.add]; [destruct n; reflexivity|]. apply IH.
Qed.

Section Coord.
  Context {F : Type} {Fo : FieldOps F} {Ff : IsField F}.
  Add Field SpeCoordField : (@Fth F Fo Ff).
  Local Open Scope F_scope.

  (* ---------------- single point updates ---------------- *)
  Lemma upd_add_same (Y : pts) a v : upd_add Y a v a = vadd (Y a) v.
  Proof. unfold upd_add. rewrite Nat.eqb_refl. reflexivity. Qed.
  Lemma upd_add_other (Y : pts) a v p : p <> a -> upd_add Y a v p = Y p.
  Proof. intros H. unfold upd_add. apply Nat.eqb_neq in H. rewrite H. reflexivity. Qed.
  Lemma upd_sub_same (Y : pts) a v : upd_sub Y a v a = vsub (Y a) v.
  Proof. unfold upd_sub. rewrite Nat.eqb_refl. reflexivity. Qed.
  Lemma upd_sub_other (Y : pts) a v p : p <> a -> upd_sub Y a v p = Y p.
  Proof. intros H. unfold upd_sub. apply Nat.eqb_neq in H. rewrite H. reflexivity. Qed.

  Lemma sum_upd_add N (Y : pts) a v t :
    a < N -> sumn N (fun i => upd_add Y a v i t) = sumn N (fun i => Y i t) + v t.
  Proof.
    intros Ha.
    rewrite (sumn_ext N _ (fun i => Y i t + (if Nat.eqb i a then v t else 0))).
    - rewrite sumn_add. f_equal.
      rewrite (sumn_single N a) by (try assumption; intros j _ Hj; apply Nat.eqb_neq in Hj; rewrite Hj; reflexivity).
      rewrite Nat.eqb_refl. reflexivity.
    - intros i _. unfold upd_add, vadd. destruct (Nat.eqb i a); ring.
  Qed.

  Lemma sum_upd_sub N (Y : pts) a v t :
    a < N -> sumn N (fun i => upd_sub Y a v i t) = sumn N (fun i => Y i t) - v t.
  Proof.
    intros Ha.
    rewrite (sumn_ext N _ (fun i => Y i t + (if Nat.eqb i a then - v t else 0))).
    - rewrite sumn_add.
      rewrite (sumn_single N a (fun i => if Nat.eqb i a then - v t else 0))
        by (try assumption; intros j _ Hj; apply Nat.eqb_neq in Hj; rewrite Hj; reflexivity).
      rewrite Nat.eqb_refl. ring.
    - intros i _. unfold upd_sub, vsub. destruct (Nat.eqb i a); ring.
  Qed.

  (* ---------------- centroid invariant: any pair list (overlaps allowed), both strategies ------- *)
  Lemma apply_updates_centroid N lam t : forall ps sc Yd (Y : pts),
    Forall (fun p => fst p < N /\ snd p < N) ps ->
    sumn N (fun i => apply_updates lam ps sc Yd Y i t) = sumn N (fun i => Y i t).
  Proof.
    induction ps as [|[a b] ps IH]; intros sc Yd Y Hr; [reflexivity|].
    inversion Hr as [|? ? [Ha Hb] Hr']; subst. cbn [fst snd] in Ha, Hb.
    destruct sc as [|s sc]; [reflexivity|]. destruct Yd as [|yd Yd]; [reflexivity|].
    cbn [apply_updates]. rewrite IH by exact Hr'.
    rewrite sum_upd_sub by exact Hb. rewrite sum_upd_add by exact Ha. ring.
  Qed.

  (* `spe_centroid_invariant`: one iteration never moves the centroid of the configuration *)
  Theorem spe_centroid_invariant_proof N lam tol ps Rt Dn (Y : pts) t :
    Forall (fun p => fst p < N /\ snd p < N) ps ->
    sumn N (fun i => spe_step lam tol ps Rt Dn Y i t) = sumn N (fun i => Y i t).
  Proof. intros H. unfold spe_step. apply apply_updates_centroid. exact H. Qed.

  (* ---------------- untouched points ---------------- *)
  Lemma apply_updates_untouched lam : forall ps sc Yd (Y : pts) p,
    ~ In p (map fst ps ++ map snd ps) -> apply_updates lam ps sc Yd Y p = Y p.
  Proof.
    induction ps as [|[a b] ps IH]; intros sc Yd Y p Hp; [reflexivity|].
    destruct sc as [|s sc]; [reflexivity|]. destruct Yd as [|yd Yd]; [reflexivity|].
    cbn [apply_updates]. cbn [map fst snd app] in Hp.
    assert (Hpa : p <> a) by (intro; subst; apply Hp; left; reflexivity).
    assert (Hpb : p <> b) by (intro; subst; apply Hp; right; apply in_or_app; right; left; reflexivity).
    rewrite IH.
    - rewrite upd_sub_other by exact Hpb. apply upd_add_other. exact Hpa.
    - intro Hin. apply Hp. right. apply in_app_or in Hin. apply in_or_app.
      destruct Hin as [Hin|Hin]; [left; exact Hin|right; right; exact Hin].
  Qed.

  (* ---------------- batched update = independent pair updates when the pairs are disjoint ------ *)
  Lemma apply_updates_disjoint lam : forall ps sc Yd (Y : pts) j,
    pairs_disjoint ps -> length sc = length ps -> length Yd = length ps -> j < length ps ->
    let a := fst (nth j ps (0, 0)%nat) in
    let b := snd (nth j ps (0, 0)%nat) in
    let c := lam / two * nth j sc 0 in
    let yd := nth j Yd (fun _ => 0) in
    forall t, apply_updates lam ps sc Yd Y a t = Y a t + c * yd t /\
              apply_updates lam ps sc Yd Y b t = Y b t - c * yd t.
  Proof.
    unfold pairs_disjoint.
    induction ps as [|[a0 b0] ps IH]; intros sc Yd Y j Hd Hsc Hyd Hj; cbn [length] in Hj; [lia|].
    destruct sc as [|s sc]; [cbn [length] in Hsc; lia|].
    destruct Yd as [|yd0 Yd]; [cbn [length] in Hyd; lia|].
    cbn [map fst snd app] in Hd.
    inversion Hd as [|? ? Ha0 Hd1]; subst.
    pose proof (NoDup_remove_1 _ _ _ Hd1) as Hd2. pose proof (NoDup_remove_2 _ _ _ Hd1) as Hb0.
    assert (Hab : a0 <> b0) by (intro; subst; apply Ha0; apply in_or_app; right; left; reflexivity).
    assert (Ha0' : ~ In a0 (map fst ps ++ map snd ps)).
    { intro Hin. apply Ha0. apply in_app_or in Hin. apply in_or_app.
      destruct Hin as [Hin|Hin]; [left; exact Hin|right; right; exact Hin]. }
    cbn [apply_updates]. destruct j as [|j].
    - cbn [nth fst snd]. intros t.
      rewrite !apply_updates_untouched by assumption.
      rewrite upd_sub_other by exact Hab. rewrite upd_add_same. rewrite upd_sub_same.
      rewrite upd_add_other by (intro; apply Hab; symmetry; assumption).
      unfold vadd, vsub, vscale. split; ring.
    - cbn [nth]. cbn [length] in Hsc, Hyd. intros t.
      specialize (IH sc Yd (upd_sub (upd_add Y a0 (vscale (lam / two * s) yd0)) b0
                                    (vscale (lam / two * s) yd0)) j Hd2
                     ltac:(lia) ltac:(lia) ltac:(lia) t).
      cbv zeta in IH. destruct IH as [IHa IHb].
      set (a := fst (nth j ps (0, 0)%nat)) in *. set (b := snd (nth j ps (0, 0)%nat)) in *.
      assert (Hina : In a (map fst ps ++ map snd ps)).
      { apply in_or_app. left. apply in_map. apply nth_In. lia. }
      assert (Hinb : In b (map fst ps ++ map snd ps)).
      { apply in_or_app. right. apply in_map. apply nth_In. lia. }
      assert (Haa : a <> a0) by (intro; subst a0; contradiction).
      assert (Hba : b <> a0) by (intro; subst a0; contradiction).
      assert (Hab0 : a <> b0) by (intro E; rewrite <- E in Hb0; contradiction).
      assert (Hbb0 : b <> b0) by (intro E; rewrite <- E in Hb0; contradiction).
      rewrite IHa, IHb.
      rewrite !upd_sub_other by assumption. rewrite !upd_add_other by assumption.
      split; reflexivity.
  Qed.

  (* ---------------- the pair update law ---------------- *)
  (* `pair_update`: one update of the pair (a, b), a <> b, multiplies the difference vector
     Y_a - Y_b by 1 + lambda (r - d - tol)/(d + tol), where d is the value used for |Y_a - Y_b| *)
  Theorem pair_update_proof lam tol r dn (Y : pts) a b t :
    a <> b -> two <> 0 -> dn + tol <> 0 ->
    let Y' := spe_step lam tol [(a, b)] [r] [dn] Y in
    Y' a t - Y' b t = (1 + lam * (r - dn - tol) / (dn + tol)) * (Y a t - Y b t).
  Proof.
    intros Hab H2 Hd. cbv zeta. unfold spe_step. cbn [map map2 apply_updates fst snd].
    rewrite upd_sub_other by exact Hab. rewrite upd_add_same, upd_sub_same.
    rewrite upd_add_other by (intro; apply Hab; symmetry; assumption).
    unfold vadd, vsub, vscale, scale_of, two in *. field. split; assumption.
  Qed.

  (* the same law for every pair of a batched iteration with pairwise disjoint pairs *)
  Theorem batch_update_proof lam tol ps Rt Dn (Y : pts) j t :
    pairs_disjoint ps -> length Rt = length ps -> length Dn = length ps -> j < length ps ->
    two <> 0 -> nth j Dn 0 + tol <> 0 ->
    let a := fst (nth j ps (0, 0)%nat) in
    let b := snd (nth j ps (0, 0)%nat) in
    let Y' := spe_step lam tol ps Rt Dn Y in
    Y' a t - Y' b t =
    (1 + lam * (nth j Rt 0 - nth j Dn 0 - tol) / (nth j Dn 0 + tol)) * (Y a t - Y b t).
  Proof.
    intros Hd HR HD Hj H2 Hden. cbv zeta. unfold spe_step.
    assert (Hm2 : forall (l : list F) l', length l = length l' ->
                  length (map2 (scale_of tol) l l') = length l).
    { induction l as [|x l IH]; intros [|y l'] H; cbn [length map2] in *; try lia.
      rewrite IH by lia. reflexivity. }
    assert (Hn2 : forall (l : list F) l' i, length l = length l' -> i < length l ->
                  nth i (map2 (scale_of tol) l l') 0 = scale_of tol (nth i l 0) (nth i l' 0)).
    { induction l as [|x l IH]; intros [|y l'] i H Hi; cbn [length map2] in *; try lia.
      destruct i as [|i]; cbn [nth]; [reflexivity|]. apply IH; lia. }
    pose proof (apply_updates_disjoint lam ps (map2 (scale_of tol) Rt Dn)
                  (map (fun p => vsub (Y (fst p)) (Y (snd p))) ps) Y j Hd
                  ltac:(rewrite Hm2; lia) ltac:(apply map_length) Hj t) as H.
    cbv zeta in H. destruct H as [Ha Hb]. rewrite Ha, Hb.
    rewrite Hn2 by lia.
    rewrite (nth_indep _ (fun _ => 0) ((fun p => vsub (Y (fst p)) (Y (snd p))) (0, 0)%nat))
      by (rewrite map_length; exact Hj).
    rewrite (map_nth (fun p => vsub (Y (fst p)) (Y (snd p)))).
    unfold vsub, scale_of, two in *. field. split; assumption.
  Qed.

  (* new squared distance; with d*d = old squared distance the new distance is d * factor *)
  Definition sqdist (d : nat) (x y : vec F) : F := sumn d (fun t => (x t - y t) * (x t - y t)).

  Theorem pair_update_distance_proof d lam tol r dn (Y : pts) a b :
    a <> b -> two <> 0 -> dn + tol <> 0 -> dn * dn = sqdist d (Y a) (Y b) ->
    let Y' := spe_step lam tol [(a, b)] [r] [dn] Y in
    let dn' := dn * (1 + lam * (r - dn - tol) / (dn + tol)) in
    dn' * dn' = sqdist d (Y' a) (Y' b).
  Proof.
    intros Hab H2 Hd Hn. cbv zeta. unfold sqdist.
    rewrite (sumn_ext d _ (fun t => (1 + lam * (r - dn - tol) / (dn + tol)) *
                                    (1 + lam * (r - dn - tol) / (dn + tol)) *
                                    ((Y a t - Y b t) * (Y a t - Y b t)))).
    - rewrite sumn_mul_l. unfold sqdist in Hn. rewrite <- Hn. ring.
    - intros t _. rewrite (pair_update_proof lam tol r dn Y a b t Hab H2 Hd). ring.
  Qed.

  (* at lambda = 1, tol = 0 the pair lands exactly on its target distance r *)
  Theorem pair_update_exact_proof d r dn (Y : pts) a b :
    a <> b -> two <> 0 -> dn <> 0 -> dn * dn = sqdist d (Y a) (Y b) ->
    let Y' := spe_step 1 0 [(a, b)] [r] [dn] Y in
    r * r = sqdist d (Y' a) (Y' b).
  Proof.
    intros Hab H2 Hd Hn. cbv zeta.
    assert (Hd0 : dn + 0 <> 0) by (intro E; apply Hd; rewrite <- E; ring).
    rewrite <- (pair_update_distance_proof d 1 0 r dn Y a b Hab H2 Hd0 Hn).
    field. exact Hd.
  Qed.

  (* ---------------- random projection ---------------- *)
  Lemma rp_row_ok s : forall c g,
    c <= length g -> rp_row s c g = Ok (map (fun x => x / s) (firstn c g), skipn c g).
  Proof.
    induction c as [|c IH]; intros g Hc; [reflexivity|].
    destruct g as [|x g]; cbn [length] in Hc; [lia|].
    cbn [rp_row]. rewrite IH by lia. reflexivity.
  Qed.

  (* `rp_entries_one_draw`: the D x d matrix consumes exactly D*d answers of the Gaussian oracle, in
     row-major order, and entry (i, j) is answer number i*d + j divided by s: every entry is its own
     draw, all scaled by the same constant *)
  Theorem rp_fill_ok_proof s cols : forall rows g,
    rows * cols <= length g ->
    exists P, rp_fill s rows cols g = Ok (P, skipn (rows * cols) g) /\
              length P = rows /\
              forall i j, i < rows -> j < cols -> mof P i j = nth (i * cols + j) g 0 / s.
  Proof.
    induction rows as [|rows IH]; intros g Hg.
    - exists []. cbn [rp_fill Nat.mul skipn length]. repeat split. intros i j Hi. lia.
    - cbn [rp_fill]. rewrite rp_row_ok by nia. cbn [bind fst snd].
      destruct (IH (skipn cols g)) as [P [E [L HP]]]; [rewrite skipn_length; nia|].
      rewrite E. cbn [bind fst snd].
      exists (map (fun x => x / s) (firstn cols g) :: P). split; [|split].
      + f_equal. f_equal. rewrite skipn_add. reflexivity.
      + cbn [length]. lia.
      + intros [|i] j Hi Hj.
        * unfold mof. cbn [nth Nat.mul Nat.add].
          rewrite (nth_indep _ 0 ((fun x => x / s) 0)) by (rewrite map_length, firstn_length; nia).
          rewrite (map_nth (fun x => x / s)). rewrite nth_firstn_lt by exact Hj. reflexivity.
        * change (mof (map (fun x => x / s) (firstn cols g) :: P) (S i) j) with (mof P i j).
          rewrite HP by lia. rewrite nth_skipn_add. f_equal. f_equal. lia.
  Qed.

  Lemma rp_index_inj d i j i' j' : j < d -> j' < d -> (i * d + j = i' * d + j')%nat -> i = i' /\ j = j'.
  Proof.
    intros Hj Hj' E.
    assert (Hi : i = ((i * d + j) / d)%nat) by (apply (Nat.div_unique _ d i j); lia).
    assert (Hi' : i' = ((i * d + j) / d)%nat) by (apply (Nat.div_unique _ d i' j'); lia).
    assert (Hii : i = i') by congruence. split; [exact Hii|]. rewrite <- Hii in E. lia.
  Qed.

  Lemma mean_vec_translate n t X a :
    of_nat n <> 0 -> mean_vec n (translate t X) a = mean_vec n X a + t a.
  Proof.
    intros Hn. unfold mean_vec, translate. rewrite sumn_add, sumn_const. field. exact Hn.
  Qed.

  (* `rp_translation_invariant`: same oracle answers, translated data => literally the same embedding *)
  Theorem rp_translation_invariant_proof s n D d g t X :
    of_nat n <> 0 -> rp_embed s n D d g (translate t X) = rp_embed s n D d g X.
  Proof.
    intros Hn. unfold rp_embed. destruct (rp_fill s D d g) as [Pg| | |]; cbn [bind]; try reflexivity.
    f_equal. apply mtab_ext. intros i c _ _. unfold rp_project. apply sumn_ext. intros a _.
    rewrite mean_vec_translate by exact Hn. unfold translate. ring.
  Qed.

  (* ---------------- factor analysis ---------------- *)
  (* `fa_translation_invariant`: the output is a function of the centred samples, the initial loading
     and the parameters only — whatever the inverse / log det / comparison oracles answer *)
  Theorem fa_translation_invariant_proof inv logdet stop max_iter n D d eps A0 t S :
    of_nat n <> 0 ->
    fa_embed inv logdet stop max_iter n D d eps A0 (translate t S) =
    fa_embed inv logdet stop max_iter n D d eps A0 S.
  Proof.
    intros Hn. unfold fa_embed. f_equal. apply mtab_ext. intros a i _ _.
    rewrite mean_vec_translate by exact Hn. unfold translate. ring.
  Qed.

  (* the centred samples sum to zero, hence so do the rows of the output X_c^T A: column means of
     the FA embedding vanish (used as a check on the implementation's output) *)
  Lemma centred_sum_zero n S a :
    of_nat n <> 0 -> sumn n (fun i => S i a - mean_vec n S a) = 0.
  Proof.
    intros Hn. rewrite sumn_sub, sumn_const. unfold mean_vec. field. exact Hn.
  Qed.

  Theorem fa_output_centred_proof inv logdet stop max_iter n D d eps A0 S c :
    of_nat n <> 0 -> c < d ->
    sumn n (fun i => mof (fa_embed inv logdet stop max_iter n D d eps A0 S) i c) = 0.
  Proof.
    intros Hn Hc. unfold fa_embed, fa_core. cbv zeta.
    set (A := fa_em inv logdet stop max_iter 0 n D d eps _ _ mI 0).
    rewrite (sumn_ext n _ (fun i => sumn D (fun a => (S i a - mean_vec n S a) * A a c))).
    - rewrite sumn_swap.
      rewrite (sumn_ext D _ (fun a => sumn n (fun i => S i a - mean_vec n S a) * A a c))
        by (intros a _; rewrite sumn_mul_r; reflexivity).
      apply sumn_zero'. intros a _. rewrite centred_sum_zero by exact Hn. ring.
    - intros i Hi. rewrite mof_mtab by assumption. apply sumn_ext. intros a Ha.
      rewrite mof_mtab by assumption. reflexivity.
  Qed.

  (* the same for random projection *)
  Theorem rp_output_centred_proof s n D d g X P c :
    of_nat n <> 0 -> c < d -> rp_embed s n D d g X = Ok P ->
    sumn n (fun i => mof P i c) = 0.
  Proof.
    intros Hn Hc. unfold rp_embed. destruct (rp_fill s D d g) as [Pg| | |]; cbn [bind]; try discriminate.
    intros E. inversion E; subst P. clear E.
    rewrite (sumn_ext n _ (fun i => sumn D (fun a => mof (fst Pg) a c * (X i a - mean_vec n X a)))).
    - rewrite sumn_swap.
      rewrite (sumn_ext D _ (fun a => mof (fst Pg) a c * sumn n (fun i => X i a - mean_vec n X a)))
        by (intros a _; rewrite sumn_mul_l; reflexivity).
      apply sumn_zero'. intros a _. rewrite centred_sum_zero by exact Hn. ring.
    - intros i Hi. rewrite mof_mtab by assumption. reflexivity.
  Qed.
End Coord.
