(* ====================================================================== *)
(*  Landmark_Proof_Float.v — finite sweeps (bound in the statement) over   *)
(*  the binary64 decisions of the landmark code, by vm_compute on Coq's    *)
(*  primitive floats.                                                      *)
(* ====================================================================== *)
From Coq Require Import Floats ZArith Uint63 List Bool Arith Lia.
From TK Require Import Landmark_Float.
Import ListNotations.

(* the N in [3, 4097) (bound extended in wave 2; 170 values) for which the smallest ratio accepted by validate(), fl(3.0/N), gives
   trunc(fl(N * fl(3.0/N))) = 2 landmarks instead of 3 *)
Definition short_list : list Z := [47; 94; 147; 173; 188; 294; 307; 309; 321; 346; 355; 365; 367; 376; 383; 535; 559; 588; 591; 607; 613; 614; 618; 625; 637; 642; 667; 692; 710; 711; 717; 727; 730; 734; 737; 747; 752; 761; 763; 766; 1070; 1118; 1121; 1159; 1176; 1181; 1182; 1214; 1226; 1228; 1236; 1250; 1261; 1274; 1275; 1284; 1291; 1301; 1329; 1334; 1384; 1415; 1420; 1422; 1423; 1434; 1437; 1454; 1460; 1468; 1473; 1474; 1493; 1494; 1495; 1497; 1503; 1504; 1505; 1509; 1522; 1523; 1526; 1532; 2073; 2140; 2175; 2211; 2236; 2242; 2318; 2352; 2362; 2364; 2369; 2425; 2427; 2428; 2451; 2452; 2456; 2469; 2471; 2472; 2500; 2509; 2519; 2522; 2523; 2547; 2548; 2550; 2568; 2571; 2582; 2591; 2602; 2621; 2645; 2658; 2668; 2685; 2687; 2689; 2693; 2705; 2749; 2761; 2768; 2781; 2783; 2785; 2787; 2795; 2830; 2839; 2840; 2841; 2844; 2846; 2868; 2874; 2875; 2905; 2907; 2908; 2911; 2920; 2936; 2939; 2946; 2948; 2965; 2981; 2986; 2988; 2990; 2994; 3006; 3008; 3009; 3010; 3018; 3044; 3045; 3046; 3052; 3055; 3061; 3064]%Z.

(* membership is tested on binary integers (Z.of_nat N is computed once per N): the sweep is linear *)
Definition lower_bound_check (N : nat) : bool :=
  let z := Z.of_nat N in
  ratio_valid N (ratio_lower N) &&
  match n_landmarks_fl N (ratio_lower N) with
  | Some 3%Z => negb (existsb (Z.eqb z) short_list)
  | Some 2%Z => existsb (Z.eqb z) short_list
  | _ => false
  end.

Lemma lower_bound_sweep : all_in_range 3 4094 lower_bound_check = true.
Proof. vm_compute. reflexivity. Qed.

Theorem ratio_bound_gives_three_partial_lemma :
  forall N, 3 <= N < 4097 ->
    ratio_valid N (ratio_lower N) = true /\
    ((~ In (Z.of_nat N) short_list /\ n_landmarks_fl N (ratio_lower N) = Some 3%Z) \/
     (In (Z.of_nat N) short_list /\ n_landmarks_fl N (ratio_lower N) = Some 2%Z)).
Proof.
  intros N HN. pose proof (all_in_range_ok 3 4094 _ lower_bound_sweep N) as H.
  assert (HN' : 3 <= N < 3 + 4094) by lia. specialize (H HN'). unfold lower_bound_check in H.
  cbv zeta in H. apply andb_true_iff in H. destruct H as [Hv H]. split; [exact Hv|].
  destruct (n_landmarks_fl N (ratio_lower N)) as [z|]; [|discriminate].
  destruct z as [|p|p]; try discriminate.
  destruct p as [p|p|]; try discriminate; destruct p as [p|p|]; try discriminate.
  - (* 3 *) left. split; [|reflexivity]. apply negb_true_iff in H. intros Hin.
    assert (E : existsb (Z.eqb (Z.of_nat N)) short_list = true).
    { apply existsb_exists. exists (Z.of_nat N). split; [assumption|apply Z.eqb_refl]. }
    rewrite E in H. discriminate.
  - (* 2 *) right. split; [|reflexivity]. apply existsb_exists in H.
    destruct H as [y [Hy E]]. apply Z.eqb_eq in E. rewrite E. assumption.
Qed.

(* landmark_ratio = 1: every sample is a landmark (N * 1.0 is exact) *)
Lemma ratio_one_sweep :
  all_in_range 1 4096 (fun N => match n_landmarks_nat N 1%float with
                                | Some c => Nat.eqb c N | None => false end) = true.
Proof. vm_compute. reflexivity. Qed.

Theorem ratio_one_all_landmarks_lemma :
  forall N, 1 <= N < 4097 -> n_landmarks_nat N 1%float = Some N.
Proof.
  intros N HN. pose proof (all_in_range_ok 1 4096 _ ratio_one_sweep N) as H.
  assert (HN' : 1 <= N < 1 + 4096) by lia. specialize (H HN'). cbv beta in H.
  destruct (n_landmarks_nat N 1%float) as [c|]; [|discriminate].
  apply Nat.eqb_eq in H. subst. reflexivity.
Qed.

(* F21 witness at the level of the float decisions: N = 10, ratio = 0.3 passes validate()
   and yields 3 landmarks; target_dimension = 5 passes InRange(1, N) *)
Lemma f21_float_witness :
  ratio_valid 10 0x1.3333333333333p-2%float = true /\ n_landmarks_nat 10 0x1.3333333333333p-2%float = Some 3.
Proof. vm_compute. split; reflexivity. Qed.

(* the same request under the old and the current validate(): accepted before fix F21, rejected now *)
Lemma f21_validate_witness :
  lmds_validate_old 10 5 0x1.3333333333333p-2%float = true /\
  lmds_validate 10 5 0x1.3333333333333p-2%float = false /\
  lmds_validate 10 3 0x1.3333333333333p-2%float = true.
Proof. vm_compute. repeat split; reflexivity. Qed.
