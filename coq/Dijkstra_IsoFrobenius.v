(* Dijkstra_IsoFrobenius.v — Eckart-Young (Frobenius-norm) optimality of what Isomap's embed() returns.

   Composition of
     * this slice: embed() hands -1/2 J S J to the dense front-end (isomap_is_mds, seen_is_mds), selects
       rightCols(d)/tail(d) and scales by sqrt(max(lambda, 0)) (Dijkstra_IsoSelect.v), and
     * property C05's Eckart-Young bridge for eigenvalues of ANY sign (geodesic distances are in general not
       Euclidean, so -1/2 J S J may have negative eigenvalues): Mds_Proof_OptimalClamped.v,
       mds_factor_optimal_clamped_Qc (ordered-field proof closed at Qc).

   Statement.  Under the oracle contract of a FULL orthonormal ascending eigendecomposition of what the dense
   front-end decomposes, and of sqrt(max(x, 0)): for EVERY n x d frame Q with orthonormal columns and EVERY
   d x d matrix C such that Q C Q^T is positive semi-definite (over the reals: every positive semi-definite
   matrix of rank <= d, i.e. every Gram matrix X X^T of a d-dimensional configuration X),

        | -1/2 J S J  -  Y Y^T |_F^2   <=   | -1/2 J S J  -  Q C Q^T |_F^2

   for the embedding Y that embed() returns: Isomap's output is the classical-MDS solution in the sense of
   the strain criterion.  What stays hypotheses: the two oracles (validated on every observed call). *)
From Coq Require Import Field Ring List ZArith Arith Lia Qcanon.
From TK Require Import Mat_Sums Mat_Core Mat_Qc Spectral_KyFan Mds_Model Mds_Spec Mds_Proof_Qc Mds_Proof_Optimal
     Mds_Proof_OptimalClamped.
From TK Require Import Dijkstra_IsoModel Dijkstra_Proof_Iso Dijkstra_IsoEmbed Dijkstra_IsoSelect.
From TK Require Dijkstra_IsoOptimal.
Import ListNotations.

Add Field IsoFrobeniusQc : (@Fth Qc QcOps QcField).

Section Frobenius.
  Variables n d : nat.
  Variable G : mat Qc.
  Variable Vf : mat Qc.
  Variable Lf s : vec Qc.
  Variables Q C : mat Qc.
  Hypothesis Hn : n <> 0%nat.
  Hypothesis Hd : (d <= n)%nat.
  Local Open Scope F_scope.

  Hypothesis Heig : forall i j, (i < n)%nat -> (j < n)%nat ->
      sumn n (fun t => seen_by_dense (iso_fixed n G) i t * Vf t j) = Lf j * Vf i j.
  Hypothesis Horth : forall a b, (a < n)%nat -> (b < n)%nat ->
      sumn n (fun t => Vf t a * Vf t b) = delta a b.
  Hypothesis Hrows : forall a b, (a < n)%nat -> (b < n)%nat ->
      sumn n (fun m => Vf a m * Vf b m) = delta a b.
  Hypothesis Hasc : forall a b, (a <= b)%nat -> (b < n)%nat -> (Lf a <= Lf b)%Qc.
  Hypothesis Hsqrt_pos : forall j, (j < d)%nat -> (0 <= sel_vals n d Lf j)%Qc ->
      s j * s j = sel_vals n d Lf j.
  Hypothesis Hsqrt_neg : forall j, (j < d)%nat -> (sel_vals n d Lf j < 0)%Qc -> s j = 0.
  Hypothesis HQ : forall a b, (a < d)%nat -> (b < d)%nat ->
      sumn n (fun t => Q t a * Q t b) = delta a b.
  Hypothesis Hpsd : forall x : vec Qc, (0 <= qf n (lowrank d Q C) x)%Qc.

  Lemma s_sq_is_clamp : forall c, (c < d)%nat -> (s c * s c)%Qc = qmax0 (Lf (n - d + c)%nat).
  Proof.
    intros c Hc. change (Lf (n - d + c)%nat) with (sel_vals n d Lf c).
    destruct (Qclt_le_dec (sel_vals n d Lf c) 0) as [Hneg|Hpos].
    - rewrite (Hsqrt_neg c Hc Hneg).
      rewrite qmax0_neg; [apply Qc_is_canon; reflexivity|].
      intros K. apply (Qclt_not_le _ _ Hneg). exact K.
    - rewrite (qmax0_nonneg _ Hpos). apply (Hsqrt_pos c Hc Hpos).
  Qed.

  Theorem isomap_frobenius_optimal_clamped :
      let Y := Dijkstra_IsoEmbed.scale_cols (sel_cols n d Vf) s in
      (fro2 n n (msub (mds_ref n G) (mmul d Y (mtrans Y))) <=
       fro2 n n (msub (mds_ref n G) (lowrank d Q C)))%Qc.
  Proof.
    intros Y.
    change Y with (Mds_Model.scale_cols (select_cols n Vf ((n - d)%nat, d)) s).
    apply (mds_factor_optimal_clamped_Qc n d (mds_ref n G) Vf Q C Lf s Hd).
    - intros a b Ha Hb. unfold mmul, mtrans, mI. apply Horth; assumption.
    - intros a b Ha Hb. unfold mmul, mtrans, mI. apply Hrows; assumption.
    - intros i j Hi Hj. rewrite mmul_diag_r by assumption. unfold mmul.
      rewrite (sumn_ext n _ (fun t => seen_by_dense (iso_fixed n G) i t * Vf t j)).
      + rewrite Heig by assumption. ring.
      + intros t Ht. rewrite (seen_is_mds n G Hn i t Hi Ht). reflexivity.
    - intros a b Hab Hb. apply Hasc; assumption.
    - exact s_sq_is_clamp.
    - intros a b Ha Hb. unfold mmul, mtrans, mI. apply HQ; assumption.
    - exact Hpsd.
  Qed.
End Frobenius.

(* non-vacuity: the four-sample instance of Dijkstra_IsoSelect.v (spectrum 0,0,0,4; d = 1; s = 2); competitor
   = the Gram matrix of the constant configuration (Q = the constant unit column, C = (1)): positive
   semi-definite (x^T Q C Q^T x = ((x0+x1+x2+x3)/2)^2), and strictly worse: 17 > 0 *)
Example isomap_frobenius_contract_satisfiable :
    let n := 4%nat in let d := 1%nat in let s : vec Qc := fun _ => qz 2 in
    let Q : mat Qc := fun _ _ => qfrac 1 2 in let C : mat Qc := fun _ _ => fone in
    n <> 0%nat /\ (d <= n)%nat /\
    (forall i j, (i < n)%nat -> (j < n)%nat ->
        sumn n (fun t => seen_by_dense (iso_fixed n emb_G) i t * emb_Vf t j) = emb_Lf j * emb_Vf i j)%F /\
    (forall a b, (a < n)%nat -> (b < n)%nat -> sumn n (fun t => emb_Vf t a * emb_Vf t b) = delta a b)%F /\
    (forall a b, (a < n)%nat -> (b < n)%nat -> sumn n (fun m => emb_Vf a m * emb_Vf b m) = delta a b)%F /\
    (forall a b, (a <= b)%nat -> (b < n)%nat -> (emb_Lf a <= emb_Lf b)%Qc) /\
    (forall j, (j < d)%nat -> (0 <= sel_vals n d emb_Lf j)%Qc -> s j * s j = sel_vals n d emb_Lf j)%F /\
    (forall j, (j < d)%nat -> (sel_vals n d emb_Lf j < 0)%Qc -> s j = 0)%F /\
    (forall a b, (a < d)%nat -> (b < d)%nat -> sumn n (fun t => Q t a * Q t b) = delta a b)%F /\
    (forall x : vec Qc, (0 <= qf n (lowrank d Q C) x)%Qc) /\
    (let Y := Dijkstra_IsoEmbed.scale_cols (sel_cols n d emb_Vf) s in
     fro2 n n (msub (mds_ref n emb_G) (mmul d Y (mtrans Y))) = qz 0) /\
    fro2 n n (msub (mds_ref n emb_G) (lowrank d Q C)) = qz 17.
Proof.
  cbv zeta.
  destruct Dijkstra_IsoOptimal.isomap_optimal_contract_satisfiable as (H1 & H2 & H3 & H4 & H5 & H6 & H7 & _).
  destruct isomap_select_contract_satisfiable as (_ & _ & _ & _ & _ & H8 & H9 & _).
  split; [exact H1|]. split; [exact H2|]. split; [exact H3|]. split; [exact H4|]. split; [exact H5|].
  split; [exact H6|]. split; [exact H8|]. split; [exact H9|]. split; [exact H7|].
  split; [|split].
  - intros x. unfold qf, lowrank. cbn [sumn].
    match goal with |- (0 <= ?e)%Qc =>
      replace e with (((x 0%nat + x 1%nat + x 2%nat + x 3%nat) * qfrac 1 2) *
                      ((x 0%nat + x 1%nat + x 2%nat + x 3%nat) * qfrac 1 2))%F by ring end.
    apply Qc_sq_nonneg.
  - apply Qc_is_canon. vm_compute. reflexivity.
  - apply Qc_is_canon. vm_compute. reflexivity.
Qed.
