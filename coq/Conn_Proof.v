(* Conn_Proof.v — the doubling recursion of find_neighbors over an abstract exact k-NN
   search; consequences of the k-NN hypothesis; the witnesses. *)
From Coq Require Import List Arith Bool ZArith Lia Permutation.
From TK Require Import Conn_Model Conn_Spec Conn_Proof_Graph Conn_Proof_Dfs
     Conn_Proof_Strong Conn_Proof_Warshall.
Import ListNotations.

(* ------------------------------------------------------------ arithmetic of the k sequence *)
Lemma clamp_min : forall N k, (if N - 1 <? k then N - 1 else k) = Nat.min k (N - 1).
Proof.
  intros N k. destruct (N - 1 <? k) eqn:E.
  - apply Nat.ltb_lt in E. lia.
  - apply Nat.ltb_ge in E. lia.
Qed.

Lemma kseq_0 : forall N k, kseq N k 0 = Nat.min k (N - 1).
Proof. intros. unfold kseq. cbn. rewrite Nat.mul_1_r. reflexivity. Qed.

Lemma kseq_S : forall N k j, kseq N k (S j) = kseq N (2 * k) j.
Proof.
  intros. unfold kseq. rewrite Nat.pow_succ_r'. f_equal. lia.
Qed.

Lemma kseq_le : forall N k j, kseq N k j <= N - 1.
Proof. intros. unfold kseq. lia. Qed.

Lemma lt_pow2 : forall f, f < 2 ^ f.
Proof. intros. apply Nat.pow_gt_lin_r. lia. Qed.

(* ------------------------------------------------------------ the recursion, for any test
   `check` that decides a predicate P which the (N-1)-graph satisfies *)
Section FindNeighbors.
Variable check : nat -> graph -> cres bool.
Variable knn : nat -> graph.
Variable N : nat.
Variable P : graph -> Prop.
Hypothesis Hcheck : forall k, k <= N - 1 ->
  exists b, check N (knn k) = COk b /\ (b = true <-> P (knn k)).
Hypothesis Hcomplete : P (knn (N - 1)).

Lemma fn_spec : forall f k, 1 <= k -> N - 1 <= k * 2 ^ f ->
  exists j, j <= f /\
    find_neighbors check knn N (S f) k true = COk (kseq N k j, knn (kseq N k j)) /\
    P (knn (kseq N k j)) /\
    forall j', j' < j -> ~ P (knn (kseq N k j')).
Proof.
  induction f as [|f IH]; intros k Hk Hf; cbn [find_neighbors]; rewrite clamp_min;
    rewrite <- kseq_0;
    destruct (Hcheck (kseq N k 0) (kseq_le N k 0)) as [b [E Hb]]; rewrite E; destruct b.
  - exists 0. repeat split; auto. + apply Hb; auto. + intros; lia.
  - exfalso. assert (HP : ~ P (knn (kseq N k 0))) by (intros HP; apply Hb in HP; discriminate).
    apply HP. rewrite kseq_0. cbn in Hf. replace (Nat.min k (N - 1)) with (N - 1) by lia.
    exact Hcomplete.
  - exists 0. repeat split; auto. + lia. + apply Hb; auto. + intros; lia.
  - assert (HP : ~ P (knn (kseq N k 0))) by (intros HP; apply Hb in HP; discriminate).
    assert (Hlt : k < N - 1).
    { destruct (Nat.lt_ge_cases k (N - 1)) as [H|H]; auto. exfalso. apply HP.
      rewrite kseq_0. replace (Nat.min k (N - 1)) with (N - 1) by lia. exact Hcomplete. }
    assert (Ek : kseq N k 0 = k) by (rewrite kseq_0; lia).
    rewrite Ek.
    destruct (IH (2 * k)) as [j [Hj [Efn [HPj Hmin]]]]; [lia| |].
    { rewrite Nat.pow_succ_r' in Hf. lia. }
    exists (S j). split; [lia|]. rewrite kseq_S. split; [exact Efn|]. split; auto.
    intros j' Hj'. destruct j' as [|j'].
    + exact HP.
    + rewrite kseq_S. apply Hmin. lia.
Qed.

(* fuel N is enough *)
Lemma fn_terminates : forall k, 1 <= k -> 1 <= N ->
  exists j, find_neighbors check knn N N k true = COk (kseq N k j, knn (kseq N k j)) /\
    P (knn (kseq N k j)) /\ forall j', j' < j -> ~ P (knn (kseq N k j')).
Proof.
  intros k Hk HN.
  destruct (fn_spec (N - 1) k Hk) as [j [_ H]].
  - pose proof (lt_pow2 (N - 1)). nia.
  - replace (S (N - 1)) with N in H by lia. exists j. exact H.
Qed.

Lemma fn_keeps_k_iff : forall k k' g, 1 <= k -> k <= N - 1 ->
  find_neighbors check knn N N k true = COk (k', g) ->
  (k' = k <-> P (knn k)).
Proof.
  intros k k' g Hk HkN Hfn.
  assert (HN : 1 <= N) by lia.
  destruct (fn_terminates k Hk HN) as [j [E [HP Hmin]]].
  rewrite E in Hfn. inversion Hfn; subst k' g. clear Hfn.
  assert (E0 : kseq N k 0 = k) by (rewrite kseq_0; lia).
  split.
  - intros Ej. rewrite <- Ej. exact HP.
  - intros HPk. destruct j as [|j]; auto.
    exfalso. apply (Hmin 0); [lia|]. rewrite E0. exact HPk.
Qed.

Lemma fn_no_check : forall f k,
  find_neighbors check knn N (S f) k false = COk (Nat.min k (N - 1), knn (Nat.min k (N - 1))).
Proof. intros. cbn [find_neighbors]. rewrite clamp_min. reflexivity. Qed.

End FindNeighbors.

(* ------------------------------------------------------------ consequences of exact k-NN *)
Lemma knn_graph_wf : forall dist N k g, is_knn_graph dist N k g -> wf_graph N g.
Proof.
  intros dist N k g [Hl Hr]. split; auto.
  intros row Hrow j Hj. apply In_nth with (d := []) in Hrow. destruct Hrow as [i [Hi <-]].
  rewrite Hl in Hi. destruct (Hr i Hi) as [_ [_ [H _]]]. apply H; auto.
Qed.

Lemma knn_graph_rows : forall dist N k g, is_knn_graph dist N k g ->
  forall row, In row g -> length row = k.
Proof.
  intros dist N k g [Hl Hr] row Hrow.
  apply In_nth with (d := []) in Hrow. destruct Hrow as [i [Hi <-]].
  rewrite Hl in Hi. destruct (Hr i Hi) as [H _]. exact H.
Qed.

Lemma knn_graph_uniform : forall dist N k g, 0 < N -> is_knn_graph dist N k g -> uniform g.
Proof.
  intros dist N k g HN H row Hrow.
  rewrite (knn_graph_rows dist N k g H row Hrow). symmetry.
  apply (knn_graph_rows dist N k g H). apply nth_In. destruct H as [Hl _]. lia.
Qed.

Lemma knn_complete_edges : forall dist N g, is_knn_graph dist N (N - 1) g ->
  forall i j, i < N -> j < N -> i <> j -> edge g i j.
Proof.
  intros dist N g [Hl Hr] i j Hi Hj Hij. unfold edge.
  destruct (Hr i Hi) as [Hlen [Hnd [Hrange _]]].
  destruct (in_dec Nat.eq_dec j (nth i g [])) as [H|Hnot]; auto. exfalso.
  assert (Hnd' : NoDup (i :: j :: nth i g [])).
  { constructor.
    - intros [H|H]; [congruence|]. apply Hrange in H. lia.
    - constructor; auto. }
  assert (Hincl : incl (i :: j :: nth i g []) (seq 0 N)).
  { intros x [<-|[<-|Hx]]; apply in_seq; try lia. apply Hrange in Hx. lia. }
  pose proof (NoDup_incl_length Hnd' Hincl) as Hle.
  cbn [length] in Hle. rewrite seq_length in Hle. lia.
Qed.

Lemma knn_complete_strong : forall dist N g, is_knn_graph dist N (N - 1) g ->
  strongly_connected N g.
Proof.
  intros dist N g H i j Hi Hj. destruct (Nat.eq_dec i j) as [->|Hne].
  - apply reach_refl.
  - apply reach_edge. eapply knn_complete_edges; eauto.
Qed.

(* ------------------------------------------------------------ boolean k-NN spec is sound *)
Lemma nodup_b_sound : forall l, nodup_b l = true -> NoDup l.
Proof.
  induction l as [|h t IH]; intros H; [constructor|].
  cbn in H. apply andb_true_iff in H. destruct H as [H1 H2].
  constructor; auto. intros Hin. apply mem_spec in Hin. rewrite Hin in H1. discriminate.
Qed.

Lemma is_knn_row_b_sound : forall dist N k i row,
  is_knn_row_b dist N k i row = true -> is_knn_row dist N k i row.
Proof.
  intros dist N k i row H. unfold is_knn_row_b in H.
  apply andb_true_iff in H. destruct H as [H H4].
  apply andb_true_iff in H. destruct H as [H H3].
  apply andb_true_iff in H. destruct H as [H1 H2].
  rewrite forallb_forall in H3, H4.
  split; [apply Nat.eqb_eq; auto|]. split; [apply nodup_b_sound; auto|]. split.
  - intros j Hj. specialize (H3 j Hj). apply andb_true_iff in H3. destruct H3 as [Ha Hb].
    apply Nat.ltb_lt in Ha. apply negb_true_iff in Hb. apply Nat.eqb_neq in Hb. auto.
  - intros j m Hj Hm Hmi Hnot. specialize (H4 j Hj). rewrite forallb_forall in H4.
    assert (Hin : In m (seq 0 N)) by (apply in_seq; lia).
    specialize (H4 m Hin).
    apply orb_true_iff in H4. destruct H4 as [H4|H4]; [|apply Z.leb_le; auto].
    apply orb_true_iff in H4. destruct H4 as [H4|H4].
    + apply Nat.eqb_eq in H4. congruence.
    + apply mem_spec in H4. contradiction.
Qed.

Lemma is_knn_graph_b_sound : forall dist N k g,
  is_knn_graph_b dist N k g = true -> is_knn_graph dist N k g.
Proof.
  intros dist N k g H. unfold is_knn_graph_b in H. apply andb_true_iff in H.
  destruct H as [H1 H2]. rewrite forallb_forall in H2. split; [apply Nat.eqb_eq; auto|].
  intros i Hi. apply is_knn_row_b_sound. apply H2. apply in_seq. lia.
Qed.

Lemma knn_all_b_sound : forall dist N (knn : nat -> graph),
  forallb (fun k => is_knn_graph_b dist N k (knn k)) (seq 0 N) = true ->
  forall k, k <= N - 1 -> 0 < N -> is_knn_graph dist N k (knn k).
Proof.
  intros dist N knn H k Hk HN. rewrite forallb_forall in H.
  apply is_knn_graph_b_sound. apply H. apply in_seq. lia.
Qed.

(* ------------------------------------------------------------ witnesses *)
(* three samples on a line at 0, 2, 3 with k = 1: 0 -> 1, 1 -> 2, 2 -> 1 *)
Definition w3_pts : list (Z * Z) := [(0, 0); (2, 0); (3, 0)]%Z.
Definition w3 : graph := [[1]; [2]; [1]].

(* eight samples on a line: a sparse chain 0,100,200 followed by a dense cluster;
   k = 3 (the smallest k the library accepts).  Every 3-NN list of the cluster stays
   inside the cluster. *)
Definition w8_pts : list (Z * Z) :=
  [(0, 0); (100, 0); (200, 0); (300, 0); (301, 0); (303, 0); (306, 0); (310, 0)]%Z.
Definition w8_rev : list nat := [7; 6; 5; 4; 3; 2; 1; 0].

Lemma w3_is_knn : w3 = knn_brute w3_pts 1.
Proof. vm_compute. reflexivity. Qed.

Lemma w3_knn_exact : forall k, k <= 3 - 1 -> is_knn_graph (pdist w3_pts) 3 k (knn_brute w3_pts k).
Proof.
  intros k Hk. apply knn_all_b_sound; [vm_compute; reflexivity|auto|lia].
Qed.

Lemma w8_knn_exact : forall k, k <= 8 - 1 -> is_knn_graph (pdist w8_pts) 8 k (knn_brute w8_pts k).
Proof.
  intros k Hk. apply knn_all_b_sound; [vm_compute; reflexivity|auto|lia].
Qed.

Lemma not_strong_by_b : forall N nb, wf_b N nb = true -> strong_b N nb = false ->
  ~ strongly_connected N nb.
Proof.
  intros N nb Hw Hs H. apply wf_b_spec in Hw. apply (strong_b_spec N nb Hw) in H. congruence.
Qed.

Lemma w3_refutes : is_connected 3 w3 = COk true /\ wf_graph 3 w3 /\ uniform w3 /\
  ~ reach w3 1 0.
Proof.
  split; [vm_compute; reflexivity|]. split; [apply wf_b_spec; vm_compute; reflexivity|].
  split; [apply uniform_b_spec; vm_compute; reflexivity|].
  intros H.
  assert (Hw : wf_graph 3 w3) by (apply wf_b_spec; vm_compute; reflexivity).
  apply (closure_spec 3 w3 1 0 Hw) in H; [|lia|lia]. vm_compute in H. discriminate.
Qed.

Lemma w3_order : is_perm 3 [2; 1; 0] /\
  is_connected 3 w3 = COk true /\ is_connected 3 (relabel [2; 1; 0] w3) = COk false.
Proof.
  split; [|split; vm_compute; reflexivity].
  unfold is_perm. cbn. apply Permutation_sym.
  change [2; 1; 0] with (rev [0; 1; 2]). apply Permutation_rev.
Qed.

Lemma w8_shipped :
  find_neighbors is_connected (knn_brute w8_pts) 8 8 3 true = COk (3, knn_brute w8_pts 3) /\
  ~ strongly_connected 8 (knn_brute w8_pts 3) /\
  ~ reach (knn_brute w8_pts 3) 3 0.
Proof.
  split; [vm_compute; reflexivity|]. split.
  - apply not_strong_by_b; vm_compute; reflexivity.
  - intros H.
    assert (Hw : wf_graph 8 (knn_brute w8_pts 3)) by (apply wf_b_spec; vm_compute; reflexivity).
    apply (closure_spec 8 _ 3 0 Hw) in H; [|lia|lia]. vm_compute in H. discriminate.
Qed.

Lemma w8_shipped_order :
  find_neighbors is_connected (fun k => relabel w8_rev (knn_brute w8_pts k)) 8 8 3 true
  = COk (6, relabel w8_rev (knn_brute w8_pts 6)).
Proof. vm_compute. reflexivity. Qed.

Lemma w8_fixed :
  find_neighbors is_connected_fixed (knn_brute w8_pts) 8 8 3 true = COk (6, knn_brute w8_pts 6) /\
  find_neighbors is_connected_fixed (fun k => relabel w8_rev (knn_brute w8_pts k)) 8 8 3 true
  = COk (6, relabel w8_rev (knn_brute w8_pts 6)).
Proof. split; vm_compute; reflexivity. Qed.
