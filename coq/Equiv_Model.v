(* ====================================================================== *)
(*  Equiv_Model.v — property C12 (equivariance to sample order, rigid      *)
(*  motion, scale, call history): executable models of the ASSEMBLE        *)
(*  stages of the deterministic methods, i.e. everything between the       *)
(*  user's callbacks and the eigen-solver / between the solver's answer    *)
(*  and the returned embedding.  Mirrors, step by step,                    *)
(*    routines/multidimensional_scaling.hpp  compute_distance_matrix       *)
(*    utils/matrix.hpp                       centerMatrix (Mat_Core)       *)
(*    routines/pca.hpp    compute_mean, compute_covariance_matrix,         *)
(*                        compute_centered_kernel_matrix, project          *)
(*    routines/eigendecomposition.hpp  eigendecomposition_impl_dense:      *)
(*                        (M + M^T)/2 before the solver                    *)
(*    methods/{multidimensional_scaling,kernel_pca,pca}.hpp  embed()       *)
(*    neighbors/neighbors.hpp KernelDistance::distance (kernel-induced d)  *)
(*    routines/locally_linear.hpp linear_weight_matrix (local LLE Gram),   *)
(*                        tangent/hessian_weight_matrix (centred local     *)
(*                        Gram), construct_neighborhood_preserving_        *)
(*                        eigenproblem / construct_lltsa_eigenproblem      *)
(*    routines/laplacian_eigenmaps.hpp compute_laplacian (with the         *)
(*                        `k = neighbors[0].size()` consumer),             *)
(*                        construct_locality_preserving_eigenproblem       *)
(*    routines/diffusion_maps.hpp compute_diffusion_matrix                 *)
(*  Algebra regime: abstract field operations (FieldOps), run at Qc.       *)
(*  sqrt / exp and the eigen-solvers are ORACLES: exp and sqrt are         *)
(*  arbitrary FUNCTIONS F -> F handed to the model (all that equivariance  *)
(*  needs is that equal arguments give equal answers), the solver's        *)
(*  answer is an input characterised in Equiv_Spec.v.                      *)
(*  Samples: `X : mat F`, X i = feature vector of sample i (D features).   *)
(*  NO proofs in this file.                                                *)
(* ====================================================================== *)
Require Import Arith List Bool.
From TK Require Import Mat_Sums Mat_Core.
Import ListNotations.

Inductive result (A : Type) : Type :=
| Ok : A -> result A
| OOB : result A.      (* a neighbour row shorter than row 0 is indexed past its end *)
Arguments Ok {A} _.
Arguments OOB {A}.

Section EquivModel.
  Context {F : Type} {Fo : FieldOps F}.
  Local Open Scope F_scope.

  (* ---------------------------------------------------------------- *)
  (* the transformations of the property statement                     *)
  (* ---------------------------------------------------------------- *)
  (* p·X : sample i of the new data set is sample (q i) of the old one,
     q = p^-1 (so old sample s sits at position p s) *)
  Definition perm_rows (q : nat -> nat) (X : mat F) : mat F := fun i t => X (q i) t.
  (* p·M for a sample-by-sample table *)
  Definition pact (q : nat -> nat) (M : mat F) : mat F := fun i j => M (q i) (q j).
  (* p·v for a per-sample vector *)
  Definition pvec (q : nat -> nat) (v : vec F) : vec F := fun i => v (q i).
  (* p·nbrs : neighbour lists of the permuted data set *)
  Definition pnbrs (p q : nat -> nat) (nb : nat -> list nat) : nat -> list nat :=
    fun i => map p (nb (q i)).
  (* x -> R x  (R : D x D) *)
  Definition rotate (D : nat) (R : mat F) (X : mat F) : mat F :=
    fun i a => sumn D (fun b => R a b * X i b).
  (* x -> x + t *)
  Definition translate (t : vec F) (X : mat F) : mat F := fun i a => X i a + t a.
  (* x -> c x *)
  Definition scale (c : F) (X : mat F) : mat F := fun i a => c * X i a.

  (* ---------------------------------------------------------------- *)
  (* what the stock callbacks compute from the features                *)
  (* ---------------------------------------------------------------- *)
  (* callbacks/eigen_callbacks.hpp kernel: x_i . x_j *)
  Definition lin_kernel (D : nat) (X : mat F) : mat F := fun i j => dot D (X i) (X j).
  (* squared euclidean distance; the distance callback returns fsqrt of it *)
  Definition sq_dist (D : nat) (X : mat F) : mat F :=
    fun i j => sumn D (fun t => (X i t - X j t) * (X i t - X j t)).
  Definition euclid_dist (fsqrt : F -> F) (D : nat) (X : mat F) : mat F :=
    fun i j => fsqrt (sq_dist D X i j).

  (* neighbors.hpp KernelDistance::distance, before the sqrt:
       kernel(l,l) - 2*kernel(l,r) + kernel(r,r) *)
  Definition kernel_sq_dist (K : mat F) : mat F :=
    fun l r => K l l - two * K l r + K r r.
  Definition kernel_dist (fsqrt : F -> F) (K : mat F) : mat F :=
    fun l r => fsqrt (kernel_sq_dist K l r).

  (* ---------------------------------------------------------------- *)
  (* MDS / KPCA assemble                                               *)
  (* ---------------------------------------------------------------- *)
  Definition neg_half : F := - (1 / two).

  (* compute_distance_matrix: for i, for j in i..n-1: d = distance(i,j); d *= d;
     M(i,j) = M(j,i) = d.  The callback is only asked for i <= j. *)
  Definition dist_sq_matrix (dist : mat F) : mat F :=
    fun i j => if Nat.leb i j then dist i j * dist i j else dist j i * dist j i.

  (* compute_centered_kernel_matrix before centring: asked for i <= j only *)
  Definition kernel_matrix (kern : mat F) : mat F :=
    fun i j => if Nat.leb i j then kern i j else kern j i.

  (* methods/multidimensional_scaling.hpp: centerMatrix; array() *= -0.5 *)
  Definition mds_matrix (n : nat) (dist : mat F) : mat F :=
    fun i j => center_matrix n (dist_sq_matrix dist) i j * neg_half.

  (* methods/kernel_pca.hpp *)
  Definition kpca_matrix (n : nat) (kern : mat F) : mat F :=
    center_matrix n (kernel_matrix kern).

  (* NOT the shipped code: a centerMatrix with an early-out "skip the passes when every column mean
     passes the test `small`" (regression model for a class of edits: with an exact-zero test the
     early-out is harmless, with an ABSOLUTE threshold - Eigen's isZero() compares against 1e-12 - it
     breaks scale equivariance; Equiv_Proof_Scale.v) *)
  Definition center_matrix_skip (small : F -> bool) (n : nat) (M : mat F) : mat F :=
    if forallb (fun j => small (colmean n M j)) (seq 0 n) then M else center_matrix n M.

  (* methods/isomap.hpp embed() after the shortest-path stage (tree as of F23):
       S = G.array().square();  S = (S + S^T)/2;  centerMatrix(S);  S *= -0.5
     G = table of geodesic distances (C04's subject; not necessarily symmetric) *)
  Definition geo_sq (G : mat F) : mat F := fun i j => G i j * G i j.
  Definition isomap_matrix (n : nat) (G : mat F) : mat F :=
    fun i j => center_matrix n (sym_avg (geo_sq G)) i j * neg_half.
  (* ... and before F23 (no symmetrisation; kept as a regression model) *)
  Definition isomap_matrix_pre_f23 (n : nat) (G : mat F) : mat F :=
    fun i j => center_matrix n (geo_sq G) i j * neg_half.

  (* embed(): embedding.first.col(c) *= sqrt(embedding.second(c));
     s c = the sqrt oracle's answer for the c-th selected eigenvalue *)
  Definition scale_cols (V : mat F) (s : vec F) : mat F := fun i c => V i c * s c.

  (* ---------------------------------------------------------------- *)
  (* PCA assemble                                                      *)
  (* ---------------------------------------------------------------- *)
  (* compute_mean: mean += x_i for all i; mean.array() /= n *)
  Definition mean_vec (n : nat) (X : mat F) : vec F :=
    fun t => sumn n (fun i => X i t) / of_nat n.

  (* compute_covariance_matrix, loop: C.selfadjointView<Upper>().rankUpdate(x_i, 1.0) *)
  Fixpoint cov_accum (n : nat) (X : mat F) : mat F :=
    match n with
    | O => mconst 0
    | S k => rank_update_upper 1 (X k) (cov_accum k X)
    end.

  (* ... C /= n; C.selfadjointView<Upper>().rankUpdate(mean, -1.0): the strictly
     lower triangle of the returned matrix is zero *)
  Definition cov_upper (n : nat) (X : mat F) : mat F :=
    rank_update_upper (- (1)) (mean_vec n X)
                      (fun i j => cov_accum n X i j / of_nat n).

  (* what the dense solver was given BEFORE the repair of F8 (off-diagonals halved;
     "shipped" = the pinned tree of round 1; kept as a regression model) *)
  Definition pca_matrix_shipped (n : nat) (X : mat F) : mat F := sym_avg (cov_upper n X).
  (* ... and on the CURRENT tree (F8 repaired: compute_covariance_matrix returns
     DenseSymmetricMatrix(C.selfadjointView<Upper>()), both triangles materialised) *)
  Definition pca_matrix_fixed (n : nat) (X : mat F) : mat F :=
    sym_avg (sym_from_upper (cov_upper n X)).
  (* the covariance matrix of the text books *)
  Definition cov_full (n : nat) (X : mat F) : mat F :=
    fun a b => sumn n (fun i => X i a * X i b) / of_nat n - mean_vec n X a * mean_vec n X b.

  (* project(): embedding.row(i) = P^T (x_i - mean)   (P : D x d) *)
  Definition project (D : nat) (P : mat F) (mean : vec F) (X : mat F) : mat F :=
    fun i c => sumn D (fun t => P t c * (X i t - mean t)).

  (* ---------------------------------------------------------------- *)
  (* sums over neighbour lists                                         *)
  (* ---------------------------------------------------------------- *)
  Fixpoint lsum {A : Type} (l : list A) (f : A -> F) : F :=
    match l with [] => 0 | x :: r => f x + lsum r f end.

  (* ---------------------------------------------------------------- *)
  (* local Grams of the locally-linear family                          *)
  (* ---------------------------------------------------------------- *)
  (* linear_weight_matrix: G(i,j) = k(x,x) - k(x,n_i) - k(x,n_j) + k(n_i,n_j) *)
  Definition lle_gram (K : mat F) (x : nat) (nb : nat -> nat) : mat F :=
    fun i j => K x x - K x (nb i) - K x (nb j) + K (nb i) (nb j).

  (* tangent_weight_matrix / hessian_weight_matrix: G(i,j) = k(n_i,n_j) (asked for
     i <= j), then centerMatrix *)
  Definition local_gram (K : mat F) (nb : nat -> nat) : mat F :=
    fun i j => if Nat.leb i j then K (nb i) (nb j) else K (nb j) (nb i).
  Definition local_centered_gram (k : nat) (K : mat F) (nb : nat -> nat) : mat F :=
    center_matrix k (local_gram K nb).

  (* ---------------------------------------------------------------- *)
  (* global alignment matrices of the locally linear family             *)
  (* (sparse_matrix_from_triplets sums the values of equal (row, col))  *)
  (* ---------------------------------------------------------------- *)
  (* a-th entry of the neighbour list of sample x (positions 0..k-1 are read, k =
     neighbors[0].size(); lists of one length k are a hypothesis of the theorems) *)
  Definition nbr (nb : nat -> list nat) (x a : nat) : nat := nth a (nb x) x.

  (* linear_weight_matrix (KLLE, NPE): per sample x with weights w x a (the normalised
     solution of the local system, an ORACLE value: any function of x and the position):
       (x,x,1+shift); (n_a,x,-w_a); (x,n_a,-w_a); (n_a,n_b,w_a*w_b)                    *)
  Definition klle_M (n k : nat) (nb : nat -> list nat) (w : nat -> nat -> F) (shift : F) : mat F :=
    fun i j => sumn n (fun x =>
      delta x i * delta x j * (1 + shift)
      + sumn k (fun a => (delta (nbr nb x a) i * delta x j + delta x i * delta (nbr nb x a) j) * - (w x a))
      + sumn k (fun a => sumn k (fun b =>
          delta (nbr nb x a) i * delta (nbr nb x b) j * (w x a * w x b)))).

  (* tangent_weight_matrix (KLTSA, LLTSA): per sample x with the local projector
     Gx x = G G^T (G = [1/sqrt k | top eigenvectors of the centred local Gram], an ORACLE value):
       (x,x,shift); (n_a,n_a,1); (n_a,n_b,-Gx_ab)                                       *)
  Definition kltsa_M (n k : nat) (nb : nat -> list nat) (Gx : nat -> mat F) (shift : F) : mat F :=
    fun i j => sumn n (fun x =>
      delta x i * delta x j * shift
      + sumn k (fun a => delta (nbr nb x a) i * delta (nbr nb x a) j * 1)
      + sumn k (fun a => sumn k (fun b =>
          delta (nbr nb x a) i * delta (nbr nb x b) j * - (Gx x a b)))).

  (* hessian_weight_matrix (HLLE): per sample x the k x k matrix Hx x = Yi_r Yi_r^T (null-space
     estimator built from the local eigenvectors, an ORACLE value): triplets (n_a, n_b, Hx_ab) *)
  Definition hlle_M (n k : nat) (nb : nat -> list nat) (Hx : nat -> mat F) : mat F :=
    fun i j => sumn n (fun x => sumn k (fun a => sumn k (fun b =>
          delta (nbr nb x a) i * delta (nbr nb x b) j * Hx x a b))).

  (* ---------------------------------------------------------------- *)
  (* Laplacian Eigenmaps / LPP: compute_laplacian                      *)
  (* ---------------------------------------------------------------- *)
  (* heat(a,b) = exp(-d(a,b)^2 / width) *)
  Definition heat (fexp : F -> F) (width : F) (dist : mat F) (a b : nat) : F :=
    fexp (- (dist a b * dist a b) / width).

  (* `const IndexType k = neighbors[0].size();` then `current_neighbors[i]`, i < k,
     for EVERY row: rows longer than row 0 are truncated, a shorter row is read
     out of range *)
  Definition first_row_k (nb : nat -> list nat) : nat := length (nb 0%nat).
  Definition rows_in_bounds (n : nat) (nb : nat -> list nat) : bool :=
    forallb (fun a => Nat.leb (first_row_k nb) (length (nb a))) (seq 0 n).
  Definition used_nbrs (nb : nat -> list nat) (a : nat) : list nat :=
    firstn (first_row_k nb) (nb a).

  (* the triplets (b,a,-h) (a,b,-h) summed by setFromTriplets, and D(a) += h, D(b) += h *)
  Definition lap_W (n : nat) (nb : nat -> list nat) (h : nat -> nat -> F) : mat F :=
    fun i j => sumn n (fun a => lsum (used_nbrs nb a)
                 (fun b => (delta b i * delta a j + delta a i * delta b j) * h a b)).
  Definition lap_D (n : nat) (nb : nat -> list nat) (h : nat -> nat -> F) : vec F :=
    fun i => sumn n (fun a => lsum (used_nbrs nb a)
                 (fun b => (delta a i + delta b i) * h a b)).
  (* Laplacian(weight_matrix, D):  L = diag(D) - W *)
  Definition lap_L (n : nat) (nb : nat -> list nat) (h : nat -> nat -> F) : mat F :=
    fun i j => (if Nat.eqb i j then lap_D n nb h i else 0) - lap_W n nb h i j.

  Definition laplacian (n : nat) (nb : nat -> list nat) (h : nat -> nat -> F)
    : result (mat F * vec F) :=
    if rows_in_bounds n nb then Ok (lap_L n nb h, lap_D n nb h) else OOB.

  (* list form for execution: n x n table of L and the vector D *)
  Definition laplacian_exec (n : nat) (nbl : list (list nat)) (hl : list (list F))
    : result (list (list F) * list F) :=
    let nb := fun a => nth a nbl [] in
    match laplacian n nb (mof hl) with
    | Ok (L, Dg) => Ok (mtab n n L, vtab n Dg)
    | OOB => OOB
    end.

  (* ---------------------------------------------------------------- *)
  (* Diffusion map: compute_diffusion_matrix                           *)
  (* ---------------------------------------------------------------- *)
  Definition diff_K0 (fexp : F -> F) (width : F) (dist : mat F) : mat F :=
    fun i j => if Nat.leb i j then heat fexp width dist i j else heat fexp width dist j i.
  Definition diff_K1 (n : nat) (K0 : mat F) : mat F :=
    fun i j => K0 i j / (colsum n K0 i * colsum n K0 j).
  Definition diff_K2 (fsqrt : F -> F) (n : nat) (K1 : mat F) : mat F :=
    fun i j => K1 i j / (fsqrt (colsum n K1 i) * fsqrt (colsum n K1 j)).
  Definition diffusion_matrix (fexp fsqrt : F -> F) (width : F) (n : nat) (dist : mat F) : mat F :=
    diff_K2 fsqrt n (diff_K1 n (diff_K0 fexp width dist)).

  (* the same with the oracle VALUES as tables (execution): K0 = the heat values the code
     computed, s i = its sqrt of the i-th column sum of K1 *)
  Definition diffusion_from_values (n : nat) (K0 : mat F) (s : vec F) : mat F :=
    fun i j => diff_K1 n K0 i j / (s i * s j).
  Definition diffusion_K1_exec (n : nat) (LK0 : list (list F)) : list (list F) :=
    mtab n n (diff_K1 n (mof LK0)).
  Definition diffusion_exec (n : nat) (LK0 : list (list F)) (Ls : list F) : list (list F) :=
    mtab n n (diffusion_from_values n (mof LK0) (vof Ls)).

  (* ---------------------------------------------------------------- *)
  (* feature-space pencils (NPE, LPP, LLTSA); W, Dg are sample-space   *)
  (* objects; a, b range over features.  FULL symmetric tables (the    *)
  (* triangle bookkeeping of the shipped code is C10's subject, F9).   *)
  (* ---------------------------------------------------------------- *)
  (* sum over the stored entries (r,c,w) of W of w (x_r x_c^T + x_c x_r^T) *)
  Definition pencil_lhs (n : nat) (W : mat F) (X : mat F) : mat F :=
    fun a b => sumn n (fun r => sumn n (fun c =>
                 W r c * (X r a * X c b + X c a * X r b))).
  (* NPE: rhs = sum_i x_i x_i^T *)
  Definition npe_rhs (n : nat) (X : mat F) : mat F :=
    fun a b => sumn n (fun i => X i a * X i b).
  (* LPP: rhs = sum_i D(i) x_i x_i^T *)
  Definition lpp_rhs (n : nat) (Dg : vec F) (X : mat F) : mat F :=
    fun a b => sumn n (fun i => Dg i * (X i a * X i b)).
  (* LLTSA: rhs = sum_i x_i x_i^T - (1/n) s s^T,  s = sum_i x_i *)
  Definition feat_sum (n : nat) (X : mat F) : vec F := fun a => sumn n (fun i => X i a).
  Definition lltsa_rhs (n : nat) (X : mat F) : mat F :=
    fun a b => npe_rhs n X a b - feat_sum n X a * feat_sum n X b / of_nat n.
  (* LLTSA before F25lltsa: lhs = (as NPE) then rankUpdate(sum, -1/n) as well *)
  Definition lltsa_lhs_shipped (n : nat) (W : mat F) (X : mat F) : mat F :=
    fun a b => pencil_lhs n W X a b - feat_sum n X a * feat_sum n X b / of_nat n.
  (* LLTSA at 51d934e (after F25lltsa): lhs = pencil_lhs n W' X where W' is the alignment
     matrix PLUS the nullspace shift eps on its diagonal (tangent_weight_matrix), i.e. the
     rows of W' sum to eps, not to 0 *)
  Definition shift_diag (eps : F) (W : mat F) : mat F :=
    fun r c => W r c + (if Nat.eqb r c then eps else 0).
  Definition lltsa_lhs_f25 (n : nat) (eps : F) (W : mat F) (X : mat F) : mat F :=
    pencil_lhs n (shift_diag eps W) X.
  (* proposed repair F42: both sides from the centred features x_i - mean *)
  Definition center_rows (n : nat) (X : mat F) : mat F := fun i a => X i a - mean_vec n X a.
  Definition lltsa_lhs_f42 (n : nat) (W' : mat F) (X : mat F) : mat F :=
    pencil_lhs n W' (center_rows n X).
  Definition lltsa_rhs_f42 (n : nat) (X : mat F) : mat F := npe_rhs n (center_rows n X).

  (* ---------------------------------------------------------------- *)
  (* list-level entry points (extraction, correspondence with the C++) *)
  (* ---------------------------------------------------------------- *)
  Definition mds_matrix_exec (n : nat) (Ld : list (list F)) : list (list F) :=
    let D2 := mtab n n (dist_sq_matrix (mof Ld)) in
    let M := mof D2 in
    let cm := vtab n (colmean n M) in
    let g := grandmean n n M in
    mtab n n (fun i j => (M i j + g - vof cm j - vof cm i) * neg_half).

  Definition center_exec (n : nat) (L : list (list F)) : list (list F) :=
    let M := mof L in
    let cm := vtab n (colmean n M) in
    let g := grandmean n n M in
    mtab n n (fun i j => M i j + g - vof cm j - vof cm i).

  Definition kpca_matrix_exec (n : nat) (Lk : list (list F)) : list (list F) :=
    center_exec n (mtab n n (kernel_matrix (mof Lk))).

  Definition mean_exec (n D : nat) (LX : list (list F)) : list F :=
    vtab D (mean_vec n (mof LX)).

  Definition cov_upper_exec (n D : nat) (LX : list (list F)) : list (list F) :=
    let X := mof LX in
    let m := vof (vtab D (mean_vec n X)) in
    mtab D D (fun a b =>
      if Nat.leb a b then sumn n (fun i => 1 * (X i a * X i b)) / of_nat n + - (1) * (m a * m b)
      else 0).

  Definition project_exec (n D d : nat) (LP : list (list F)) (Lm : list F) (LX : list (list F))
    : list (list F) :=
    mtab n d (project D (mof LP) (vof Lm) (mof LX)).

  Definition lin_kernel_exec (n D : nat) (LX : list (list F)) : list (list F) :=
    mtab n n (lin_kernel D (mof LX)).
  Definition sq_dist_exec (n D : nat) (LX : list (list F)) : list (list F) :=
    mtab n n (sq_dist D (mof LX)).

  (* what compute_covariance_matrix returns on the current tree, as a table *)
  Definition cov_exec (n D : nat) (LX : list (list F)) : list (list F) :=
    mtab D D (sym_from_upper (mof (cov_upper_exec n D LX))).

  (* the transformations, on tables (used by the extracted relation checkers) *)
  Definition perm_rows_exec (n D : nat) (ql : list nat) (LX : list (list F)) : list (list F) :=
    mtab n D (perm_rows (fun i => nth i ql i) (mof LX)).
  Definition pact_exec (n : nat) (ql : list nat) (LM : list (list F)) : list (list F) :=
    mtab n n (pact (fun i => nth i ql i) (mof LM)).
  Definition rotate_exec (n D : nat) (LR LX : list (list F)) : list (list F) :=
    mtab n D (rotate D (mof LR) (mof LX)).
  Definition translate_exec (n D : nat) (Lt : list F) (LX : list (list F)) : list (list F) :=
    mtab n D (translate (vof Lt) (mof LX)).
  Definition scale_exec (n D : nat) (c : F) (LX : list (list F)) : list (list F) :=
    mtab n D (scale c (mof LX)).
  Definition mscale_exec (n m : nat) (c : F) (LM : list (list F)) : list (list F) :=
    mtab n m (mscale c (mof LM)).
  (* R C R^T *)
  Definition conj_exec (D : nat) (LR LC : list (list F)) : list (list F) :=
    mtab D D (mmul D (mof LR) (mmul D (mof LC) (mtrans (mof LR)))).
  (* R^T R, to be compared with the identity table *)
  Definition gram_exec (D : nat) (LR : list (list F)) : list (list F) :=
    mtab D D (mmul D (mtrans (mof LR)) (mof LR)).
  Definition ident_exec (D : nat) : list (list F) := mtab D D mI.
  Definition rot_vec_exec (D : nat) (LR : list (list F)) (Lv : list F) : list F :=
    vtab D (fun a => sumn D (fun b => mof LR a b * vof Lv b)).
  Definition isomap_matrix_exec (n : nat) (LG : list (list F)) : list (list F) :=
    let S := mtab n n (sym_avg (geo_sq (mof LG))) in
    let M := mof S in
    let cm := vtab n (colmean n M) in
    let g := grandmean n n M in
    mtab n n (fun i j => (M i j + g - vof cm j - vof cm i) * neg_half).
  Definition isomap_matrix_pre_f23_exec (n : nat) (LG : list (list F)) : list (list F) :=
    let S := mtab n n (geo_sq (mof LG)) in
    let M := mof S in
    let cm := vtab n (colmean n M) in
    let g := grandmean n n M in
    mtab n n (fun i j => (M i j + g - vof cm j - vof cm i) * neg_half).
  (* squared distances between the rows of an embedding *)
  Definition emb_sq_dist_exec (n d : nat) (LY : list (list F)) : list (list F) :=
    mtab n n (fun i j => sumn d (fun c => (mof LY i c - mof LY j c) * (mof LY i c - mof LY j c))).

End EquivModel.
