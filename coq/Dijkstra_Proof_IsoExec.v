(* Dijkstra_Proof_IsoExec.v — the memoised executables of Dijkstra_IsoExec.v ARE the tables of the
   functions the theorems of Dijkstra_Proof_Iso.v speak about; consequences for the extracted
   decision procedure check_mds. *)
From Coq Require Import Field Ring List ZArith Arith Lia Qcanon.
From TK Require Import Mat_Sums Mat_Core Mat_Qc Dijkstra_IsoModel Dijkstra_IsoExec Dijkstra_Proof_Iso.
Import ListNotations.

Local Open Scope F_scope.

Lemma colmean_meq : forall n (M M' : mat Qc) j, meq n n M M' -> (j < n)%nat ->
    colmean n M j = colmean n M' j.
Proof.
  intros n M M' j H Hj. unfold colmean, colsum. f_equal.
  apply sumn_ext. intros i Hi. apply H; assumption.
Qed.

Lemma grandmean_meq : forall n (M M' : mat Qc), meq n n M M' ->
    grandmean n n M = grandmean n n M'.
Proof.
  intros n M M' H. unfold grandmean, totsum. f_equal.
  apply sumn_ext. intros i Hi. apply sumn_ext. intros j Hj. apply H; assumption.
Qed.

Lemma center_scale_exec_ok : forall n (M : mat Qc),
    center_scale_exec n (mtab n n M) = mtab n n (mscale neg_half (center_matrix n M)).
Proof.
  intros n M. unfold center_scale_exec. apply mtab_ext. intros i j Hi Hj.
  unfold mscale, center_matrix.
  rewrite !vof_vtab by assumption.
  rewrite mof_mtab by assumption.
  rewrite (grandmean_meq n (mof (mtab n n M)) M (mof_mtab_meq n n M)).
  rewrite (colmean_meq n (mof (mtab n n M)) M j (mof_mtab_meq n n M) Hj).
  rewrite (colmean_meq n (mof (mtab n n M)) M i (mof_mtab_meq n n M) Hi).
  reflexivity.
Qed.

Theorem iso_current_exec_ok : forall n t,
    iso_current_exec n t = mtab n n (iso_fixed n (geo_of_table t)).
Proof. intros n t. unfold iso_current_exec, iso_fixed. apply center_scale_exec_ok. Qed.

Theorem iso_old_exec_ok : forall n t,
    iso_old_exec n t = mtab n n (iso_shipped n (geo_of_table t)).
Proof. intros n t. unfold iso_old_exec, iso_shipped. apply center_scale_exec_ok. Qed.

Theorem mds_ref_exec_ok : forall n t,
    mds_ref_exec n t = mtab n n (mds_ref n (geo_of_table t)).
Proof.
  intros n t. unfold mds_ref_exec, mds_ref, double_center. apply mtab_ext. intros i j Hi Hj.
  unfold mscale. f_equal.
  apply mmul_ext_r. intros s Hs.
  rewrite mof_mtab by assumption.
  apply mmul_ext_l. intros u Hu. apply mof_mtab; assumption.
Qed.

(* what the current embed() hands to the solver, as executed, is the classical-MDS table *)
Theorem iso_current_exec_is_mds : forall n t, n <> 0%nat ->
    iso_current_exec n t = mds_ref_exec n t.
Proof.
  intros n t Hn. rewrite iso_current_exec_ok, mds_ref_exec_ok.
  apply mtab_ext. apply iso_fixed_is_mds_Qc. assumption.
Qed.

(* soundness and completeness of the extracted decision procedure *)
Theorem check_mds_iff : forall n t obs,
    check_mds n t obs = true <-> obs_of obs = mtab n n (mds_ref n (geo_of_table t)).
Proof.
  intros n t obs. unfold check_mds. rewrite mlist_eqb_ok, mds_ref_exec_ok. reflexivity.
Qed.

(* the old code on the F23 witness, as executed *)
Definition f23_table : list (list Z) := [[0; 1; 2]; [3; 0; 1]; [2; 3; 0]]%Z.

Theorem iso_old_exec_refuted : iso_old_exec 3 f23_table <> mds_ref_exec 3 f23_table.
Proof.
  intros H. apply mlist_eqb_ok in H. vm_compute in H. discriminate.
Qed.
