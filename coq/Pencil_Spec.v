(* ====================================================================== *)
(*  Pencil_Spec.v — property C10: the mathematical objects the property    *)
(*  names and the decision procedures that are extracted and run on the    *)
(*  implementation's own output.                                           *)
(*                                                                         *)
(*  Objects (X : D x N feature matrix, samples as columns)                 *)
(*    dense_of W            the N x N matrix a list of stored entries      *)
(*                          denotes (duplicates add up)                    *)
(*    XMXt N X M            X M X^T   (D x D)                              *)
(*    sym2 M                M + M^T  ( = 2 M for symmetric M: Eigen's      *)
(*                          rankUpdate(u,v,a) adds a (u v^T + v u^T) )     *)
(*    npe_lhs / npe_rhs     X (W + W^T) X^T           ,  X X^T             *)
(*    lltsa_lhs / lltsa_rhs Xc (W + W^T) Xc^T, Xc = X J ,  X J X^T         *)
(*    lltsa_lhs_f25         X (W + W^T) X^T           (tree before F42)    *)
(*    lltsa_lhs_f9          X (W + W^T - 11^T/N) X^T  (tree before F25)    *)
(*    lpp_lhs / lpp_rhs     X (L + L^T) X^T           ,  X diag(dv) X^T    *)
(*  Predicates                                                             *)
(*    is_pencil D A B p     both FULL tables of p are (A, B)               *)
(*    solver_sees D A B p   the lower-triangle reader sees (A, B)          *)
(*    gen_eig_solution D d A B P lam   A P = B P diag(lam), P^T B P = I    *)
(*  Decision procedures (Qc, lists; extracted)                             *)
(*    ref_pencil m N D Xl W dvl   the reference pair (A, B) as tables      *)
(*    tables_seen_b D A B lhs rhs   `solver_sees` on list tables           *)
(*    spec_construct_b            reference + tables_seen_b in one call    *)
(*    spec_full_b                 the FULL returned tables are (A, B)      *)
(*  Change of units: sscale / xscale / pscale / peq                        *)
(* ====================================================================== *)

Require Import Arith List Bool QArith Qcanon.
From TK Require Import Mat_Sums Mat_Core Mat_Qc Pencil_Model.
Import ListNotations.

Section PencilSpec.
  Context {F : Type} {Fo : FieldOps F}.
  Local Open Scope F_scope.

  Definition dense_of (W : sparse F) : mat F :=
    fun r c => fold_right (fun e acc => match e with
                                        | (r', c', v) => delta r r' * delta c c' * v + acc
                                        end) 0 W.

  Definition XMXt (N : nat) (X M : mat F) : mat F := mmul N (mmul N X M) (mtrans X).

  Definition sym2 (M : mat F) : mat F := madd M (mtrans M).

  Definition indices_ok (N : nat) (W : sparse F) : Prop :=
    Forall (fun e => match e with (r, c, _) => (r < N)%nat /\ (c < N)%nat end) W.

  Definition npe_lhs (N : nat) (X : mat F) (W : sparse F) : mat F := XMXt N X (sym2 (dense_of W)).
  Definition npe_rhs (N : nat) (X : mat F) : mat F := XMXt N X mI.

  (* the property: X M X^T with M the alignment matrix (rankUpdate(u,v,a) doubles it), on the
     CENTRED features Xc = X - mean 1^T = X J.  For every M whose rows and columns sum to zero
     (what the alignment matrix does) this IS X M X^T (Pencil_Proof_Rot.lltsa_lhs_is_XMXt); the
     nullspace shift on diag(M) thereby enters as shift * X J X^T (fix F42). *)
  Definition lltsa_lhs (N : nat) (X : mat F) (W : sparse F) : mat F :=
    XMXt N (centred X N) (sym2 (dense_of W)).
  (* what the tree computed between F25 and F42: uncentred X (W + W^T) X^T *)
  Definition lltsa_lhs_f25 (N : nat) (X : mat F) (W : sparse F) : mat F := XMXt N X (sym2 (dense_of W)).
  (* what the tree computed between F9 and F25: an additional  - (X 1)(X 1)^T / N *)
  Definition lltsa_lhs_f9 (N : nat) (X : mat F) (W : sparse F) : mat F :=
    XMXt N X (msub (sym2 (dense_of W)) (mconst (/ of_nat N))).
  Definition lltsa_rhs (N : nat) (X : mat F) : mat F := XMXt N X (Jn N).

  Definition lpp_lhs (N : nat) (X : mat F) (L : sparse F) : mat F := XMXt N X (sym2 (dense_of L)).
  Definition lpp_rhs (N : nat) (X : mat F) (dv : vec F) : mat F := XMXt N X (mdiag dv).

  Definition is_pencil (D : nat) (A B : mat F) (p : pencil F) : Prop :=
    meq D D (p_lhs p) A /\ meq D D (p_rhs p) B.

  Definition solver_sees (D : nat) (A B : mat F) (p : pencil F) : Prop :=
    is_pencil D A B (seen p).

  (* columns of P (D x d) solve the generalised problem with eigenvalues lam and are
     B-orthonormal: the part of the oracle contract that survives column selection *)
  Definition gen_eig_solution (D d : nat) (A B P : mat F) (lam : vec F) : Prop :=
    meq D d (mmul D A P) (mmul d (mmul D B P) (mdiag lam)) /\
    meq d d (mmul D (mtrans P) (mmul D B P)) mI.

  (* change of units (Wave 2).  The generalised problem is homogeneous: a common factor on the
     two sides, or on the features, changes no eigenvector direction and no eigenvalue, so the
     absolute magnitude of the stored entries of W / L / D carries no meaning.
       sscale c W   every stored entry multiplied by c
       xscale s X   every feature value multiplied by s
       pscale a b p the two tables of p multiplied by a and b *)
  Definition sscale (c : F) (W : sparse F) : sparse F :=
    map (fun e => match e with (r, k, v) => (r, k, c * v) end) W.
  Definition xscale (s : F) (X : mat F) : mat F := fun f t => s * X f t.
  Definition pscale (a b : F) (p : pencil F) : pencil F :=
    {| p_lhs := mscale a (p_lhs p); p_rhs := mscale b (p_rhs p) |}.
  Definition peq (p q : pencil F) : Prop :=
    (forall i j, p_lhs p i j = p_lhs q i j) /\ (forall i j, p_rhs p i j = p_rhs q i j).

  (* rotation of the feature space *)
  Definition orthogonal (D : nat) (R : mat F) : Prop := meq D D (mmul D (mtrans R) R) mI.
  Definition conj_by (D : nat) (R A : mat F) : mat F := mmul D (mmul D R A) (mtrans R).

End PencilSpec.

(* ------------------------- executable, Qc ------------------------- *)
Definition ref_pencil (m : method) (N D : nat) (Xl : list (list Qc)) (W : sparse Qc) (dvl : list Qc)
  : list (list Qc) * list (list Qc) :=
  let X := mof Xl in
  let Wl := mtab N N (dense_of W) in           (* memoise the dense image of the sparse matrix *)
  let Wd := mof Wl in
  match m with
  | NPE => (mtab D D (XMXt N X (sym2 Wd)), mtab D D (XMXt N X mI))
  | LLTSA => let Xc := mof (mtab D N (centred X N)) in
             (mtab D D (XMXt N Xc (sym2 Wd)), mtab D D (XMXt N X (Jn N)))
  | LPP => (mtab D D (XMXt N X (sym2 Wd)), mtab D D (XMXt N X (mdiag (vof dvl))))
  end.

Definition tables_seen_b (D : nat) (A B lhs rhs : list (list Qc)) : bool :=
  let s := seen_tables D lhs rhs in
  mlist_eqb (fst s) A && mlist_eqb (snd s) B.

(* the FULL tables (Wave 2): the routines are specified (fix F9, DenseSymmetricMatrixPair) to return
   both triangles of the symmetric matrices, whichever triangle a consumer reads *)
Definition tables_full_b (A B lhs rhs : list (list Qc)) : bool :=
  mlist_eqb lhs A && mlist_eqb rhs B.

Definition spec_full_b (m : method) (N D : nat) (Xl : list (list Qc)) (W : sparse Qc)
           (dvl : list Qc) (lhs rhs : list (list Qc)) : bool :=
  let r := ref_pencil m N D Xl W dvl in
  wf_matb D D lhs && wf_matb D D rhs && tables_full_b (fst r) (snd r) lhs rhs.

(* the specification run on the implementation's own output: do the tables the routine
   returned denote, for a lower-triangle reader, the pencil the property names? *)
Definition spec_construct_b (m : method) (N D : nat) (Xl : list (list Qc)) (W : sparse Qc)
           (dvl : list Qc) (lhs rhs : list (list Qc)) : bool :=
  let r := ref_pencil m N D Xl W dvl in
  wf_matb D D lhs && wf_matb D D rhs && tables_seen_b D (fst r) (snd r) lhs rhs.
