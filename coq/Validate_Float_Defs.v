(* Validate_Float_Defs.v — property C14: binary64 evaluation (Coq primitive floats) of the bound expressions of
   Validate_Model, and the complete-sweep combinator.  Definitions shared by Validate_Float.v and
   Validate_Float_Points.v (split off in wave 3 so that the two sweeps compile in parallel).  See Validate_Float.v. *)

From Coq Require Import ZArith QArith Qabs Floats List Bool Lia.
Import ListNotations.
From TK Require Import Validate_Model.
Local Open Scope Z_scope.

Inductive fnum := FI (z : Z) | FR (f : float).

Definition Z2F (z : Z) : float :=
  if z <? 0 then PrimFloat.opp (PrimFloat.of_uint63 (Uint63.of_Z (- z)))
  else PrimFloat.of_uint63 (Uint63.of_Z z).

Definition fnum_F (x : fnum) : float := match x with FI z => Z2F z | FR f => f end.

Definition fnum_arith (fz : Z -> Z -> Z) (ff : float -> float -> float) (x y : fnum) : fnum :=
  match x, y with
  | FI a, FI b => FI (fz a b)
  | _, _ => FR (ff (fnum_F x) (fnum_F y))
  end.

(* a floating literal of the source is a double already: BReal carries its exact value; it is
   converted back by one correctly rounded division numerator / denominator (exact here: the
   literals are dyadic with small numerators) *)
Definition Q2F (q : Q) : float := PrimFloat.div (Z2F (Qnum q)) (Z2F (Zpos (Qden q))).

Definition SF2Q (f : spec_float) : option Q :=
  match f with
  | S754_zero _ => Some 0%Q
  | S754_finite s m e =>
      let q := (inject_Z (Zpos m) * Qpower 2 e)%Q in Some (if s then Qopp q else q)
  | _ => None
  end.

Definition F2Q (f : float) : option Q := SF2Q (Prim2SF f).

Definition F2Z (f : float) : Z := match F2Q f with Some q => Qtrunc q | None => 0 end.

Fixpoint feval (E : env) (b : bexpr) : fnum :=
  match b with
  | BInt z => FI z
  | BReal q => FR (Q2F q)
  | BN => FI (e_n E)
  | BDim => FI (e_dim E)
  | BParam k t => match param_num t (e_get E k) with NI z => FI z | NR q => FR (Q2F q) end
  | BTrunc a => match feval E a with FI z => FI z | FR f => FI (F2Z f) end
  | BAdd a c => fnum_arith Z.add PrimFloat.add (feval E a) (feval E c)
  | BSub a c => fnum_arith Z.sub PrimFloat.sub (feval E a) (feval E c)
  | BMul a c => fnum_arith Z.mul PrimFloat.mul (feval E a) (feval E c)
  | BDiv a c => fnum_arith Z.quot PrimFloat.div (feval E a) (feval E c)
  end.

(* q is (the exact value of) a normal binary64 number with a small exponent *)
Definition is_double (q : Q) : bool :=
  let r := Qred q in
  let d := Zpos (Qden r) in
  (2 ^ Z.log2 d =? d) && (Z.abs (Qnum r) <? 2 ^ 53) && (Z.log2 d <? 1000).

Definition env_N (n : Z) : env := {| e_n := n; e_dim := 0; e_get := fun _ => None |}.

Definition float_bound_ok (b : bexpr) (n : Z) : bool :=
  let exact := num_Q (eval_bexpr (env_N n) b) in
  match F2Q (fnum_F (feval (env_N n) b)) with
  | None => false
  | Some f =>
      Qle_bool (Qabs (f - exact) * inject_Z (2 ^ 53)) (Qabs exact) &&
      (if is_double exact then Qeq_bool f exact else true)
  end.

(* a complete sweep of an integer interval, by evaluation *)
Fixpoint forall_from (f : Z -> bool) (start : Z) (len : nat) : bool :=
  match len with
  | O => true
  | S l => f start && forall_from f (start + 1) l
  end.

Lemma forall_from_spec : forall f len start,
  forall_from f start len = true -> forall n, start <= n < start + Z.of_nat len -> f n = true.
Proof.
  intros f. induction len as [|l IH]; intros start H n R.
  - cbn in R. lia.
  - cbn [forall_from] in H. apply andb_true_iff in H. destruct H as [H0 H1].
    destruct (Z.eq_dec n start) as [->|N]; auto.
    apply (IH (start + 1) H1). lia.
Qed.

