(* FibHeap_Proof_Consolidate.v — link, cons_place, cons_walk, cons_collect,
   consolidate_roots: preservation of well-formedness, of the stored items, and
   the exact circumstances of an OOB (a tree of rank d >= dn exists, hence
   fib (d+2) <= number of nodes). *)
From Coq Require Import List ZArith Bool Lia Permutation Arith.
From TK Require Import FibHeap_Model FibHeap_Dn FibHeap_Proof_Basics FibHeap_Proof_Degree.
Import ListNotations.
Local Open Scope Z_scope.

(* ---------- link ---------- *)
Lemma link_children_perm : forall y x,
  Permutation (t_children (link y x)) (set_marked false y :: t_children x).
Proof.
  intros y [i k m cs]. cbn [link t_children]. destruct cs as [|c rest]; [reflexivity|apply perm_swap].
Qed.

Lemma link_key : forall y x, t_key (link y x) = t_key x.
Proof. intros y [i k m cs]. reflexivity. Qed.
Lemma link_idx : forall y x, t_idx (link y x) = t_idx x.
Proof. intros y [i k m cs]. reflexivity. Qed.

Lemma link_rank : forall y x, t_rank (link y x) = S (t_rank x).
Proof.
  intros y x. unfold t_rank. rewrite (Permutation_length (link_children_perm y x)). reflexivity.
Qed.

Lemma link_items : forall y x, Permutation (tree_items (link y x)) (tree_items x ++ tree_items y).
Proof.
  intros y [i k m cs]. cbn [link]. rewrite !tree_items_eq. cbn [app]. constructor.
  destruct cs as [|c rest]; cbn [forest_items app].
  - rewrite tree_items_set_marked, app_nil_r. reflexivity.
  - rewrite tree_items_set_marked, <- app_assoc. apply Permutation_app_head. apply Permutation_app_comm.
Qed.

Lemma link_size : forall y x, tree_size (link y x) = (tree_size x + tree_size y)%nat.
Proof.
  intros. rewrite !tree_size_items, (Permutation_length (link_items y x)). apply app_length.
Qed.

Lemma link_wf : forall y x, wf x -> wf y -> t_key x <= t_key y -> t_rank x = t_rank y ->
  wf (link y x).
Proof.
  intros y x Hx Hy Hk Hr.
  apply wf_inv in Hx. destruct Hx as [[Hxk Hxd] Hxc].
  pose proof (link_children_perm y x) as Hp. apply Permutation_sym in Hp.
  apply wf_intro.
  - split.
    + eapply Forall_perm; [exact Hp|]. rewrite link_key. constructor.
      * rewrite t_key_set_marked. exact Hk.
      * exact Hxk.
    + eapply deg_ok_perm; [exact Hp|]. intros n. cbn [cnt].
      unfold eff at 1. rewrite t_rank_set_marked, t_marked_set_marked.
      specialize (Hxd n). pose proof (cnt_le_length n (t_children x)) as Hl.
      unfold t_rank in Hr.
      destruct (Nat.ltb_spec (t_rank y + 0) n) as [E|E]; unfold t_rank in E; lia.
  - eapply Forall_perm; [exact Hp|]. constructor; [apply wf_set_marked; exact Hy|exact Hxc].
Qed.

(* ---------- the scratch array ---------- *)
Fixpoint somes (A : list (option tree)) : list tree :=
  match A with
  | [] => []
  | None :: A' => somes A'
  | Some t :: A' => t :: somes A'
  end.

Definition slots_ok (A : list (option tree)) : Prop :=
  forall j y, nth_error A j = Some (Some y) -> t_rank y = j.

Lemma somes_length_le : forall A, (length (somes A) <= length A)%nat.
Proof. induction A as [|[t|] A IH]; cbn [somes length]; lia. Qed.

Lemma set_nth_length : forall (T : Type) n (v : T) l, length (set_nth n v l) = length l.
Proof.
  intros T n v l. revert n. induction l as [|a l IH]; intros [|n]; cbn [set_nth length]; auto.
Qed.

Lemma set_nth_nth : forall (T : Type) n (v : T) l j w,
  nth_error (set_nth n v l) j = Some w ->
  (j = n /\ w = v) \/ (j <> n /\ nth_error l j = Some w).
Proof.
  intros T n v l. revert n. induction l as [|a l IH]; intros [|n] j w; cbn [set_nth].
  - destruct j; discriminate.
  - destruct j; discriminate.
  - destruct j as [|j]; cbn [nth_error].
    + intros H; inversion H; auto.
    + intros H. right. split; [lia|exact H].
  - destruct j as [|j]; cbn [nth_error].
    + intros H. right. split; [lia|exact H].
    + intros H. destruct (IH _ _ _ H) as [[-> ->]|[Hne Hn]]; [left; auto|right; split; [lia|exact Hn]].
Qed.

Lemma somes_set_none : forall A d y, nth_error A d = Some (Some y) ->
  Permutation (somes A) (y :: somes (set_nth d None A)).
Proof.
  induction A as [|a A IH]; intros [|d] y; cbn [nth_error set_nth]; try discriminate.
  - intros H; inversion H; subst. cbn [somes]. reflexivity.
  - intros H. specialize (IH _ _ H). destruct a as [t|]; cbn [somes].
    + eapply Permutation_trans; [apply perm_skip; exact IH|apply perm_swap].
    + exact IH.
Qed.

Lemma somes_set_some : forall A d x, nth_error A d = Some None ->
  Permutation (somes (set_nth d (Some x) A)) (x :: somes A).
Proof.
  induction A as [|a A IH]; intros [|d] x; cbn [nth_error set_nth]; try discriminate.
  - intros H; inversion H; subst. cbn [somes]. reflexivity.
  - intros H. specialize (IH d x H). destruct a as [t|]; cbn [somes].
    + eapply Permutation_trans; [apply perm_skip; exact IH|apply perm_swap].
    + exact IH.
Qed.

Lemma slots_ok_set_none : forall A d, slots_ok A -> slots_ok (set_nth d None A).
Proof.
  intros A d H j y Hn. apply set_nth_nth in Hn. destruct Hn as [[_ Hn]|[_ Hn]]; [discriminate|].
  apply H. exact Hn.
Qed.

Lemma slots_ok_set_some : forall A d x, slots_ok A -> t_rank x = d -> slots_ok (set_nth d (Some x) A).
Proof.
  intros A d x H Hr j y Hn. apply set_nth_nth in Hn. destruct Hn as [[-> Hn]|[_ Hn]].
  - inversion Hn; subst. reflexivity.
  - apply H. exact Hn.
Qed.

Lemma slots_ok_repeat : forall n, slots_ok (repeat None n).
Proof.
  intros n j y H. exfalso. apply nth_error_In in H. apply repeat_spec in H. discriminate.
Qed.

Lemma somes_repeat : forall n, somes (repeat None n) = [].
Proof. induction n as [|n IH]; cbn [repeat somes]; auto. Qed.

(* ---------- cons_place ---------- *)
Lemma cons_place_spec : forall fuel x d A,
  wf x -> t_rank x = d -> Forall wf (somes A) -> slots_ok A -> (length (somes A) < fuel)%nat ->
  match cons_place fuel x d A with
  | Ok A' => length A' = length A /\ Forall wf (somes A') /\ slots_ok A' /\
             Permutation (forest_items (somes A')) (tree_items x ++ forest_items (somes A))
  | OOB d' s => s = length A /\ (length A <= d')%nat /\
                (fib (d' + 2) <= tree_size x + forest_size (somes A))%nat
  | OutOfFuel => False
  end.
Proof.
  induction fuel as [|fuel IH]; intros x d A Hx Hr HA Hs Hf; [lia|].
  cbn [cons_place]. destruct (nth_error A d) as [[y|]|] eqn:En.
  - (* occupied slot: link and move up *)
    pose proof (somes_set_none _ _ _ En) as Hp.
    assert (Hy : wf y).
    { rewrite Forall_forall in HA. apply HA. eapply Permutation_in; [apply Permutation_sym; exact Hp|left; reflexivity]. }
    assert (Hry : t_rank y = d) by (apply Hs; exact En).
    assert (HA2 : Forall wf (somes (set_nth d None A))).
    { pose proof (Forall_perm _ _ _ _ Hp HA) as H. inversion H; assumption. }
    assert (Hlen2 : (length (somes (set_nth d None A)) < fuel)%nat).
    { pose proof (Permutation_length Hp) as H. cbn [length] in H. lia. }
    assert (Hstep : forall x1 y1, wf x1 -> wf y1 -> t_rank x1 = d -> t_rank y1 = d ->
              t_key x1 <= t_key y1 ->
              Permutation (tree_items x1 ++ tree_items y1) (tree_items x ++ tree_items y) ->
              match cons_place fuel (link y1 x1) (S d) (set_nth d None A) with
              | Ok A' => length A' = length A /\ Forall wf (somes A') /\ slots_ok A' /\
                         Permutation (forest_items (somes A')) (tree_items x ++ forest_items (somes A))
              | OOB d' s => s = length A /\ (length A <= d')%nat /\
                            (fib (d' + 2) <= tree_size x + forest_size (somes A))%nat
              | OutOfFuel => False
              end).
    { intros x1 y1 Hx1 Hy1 Hr1 Hr2 Hk Hpi.
      assert (Hwl : wf (link y1 x1)) by (apply link_wf; try assumption; congruence).
      assert (Hrl : t_rank (link y1 x1) = S d) by (rewrite link_rank; congruence).
      specialize (IH (link y1 x1) (S d) (set_nth d None A) Hwl Hrl HA2 (slots_ok_set_none _ _ Hs) Hlen2).
      assert (Hitems : Permutation (tree_items (link y1 x1) ++ forest_items (somes (set_nth d None A)))
                                   (tree_items x ++ forest_items (somes A))).
      { eapply Permutation_trans; [apply Permutation_app_tail; apply link_items|].
        eapply Permutation_trans; [apply Permutation_app_tail; exact Hpi|].
        rewrite <- app_assoc. apply Permutation_app_head.
        apply Permutation_sym. apply (forest_items_perm _ _ Hp). }
      destruct (cons_place fuel (link y1 x1) (S d) (set_nth d None A)) as [A'|d' s|].
      - destruct IH as (H1 & H2 & H3 & H4). rewrite set_nth_length in H1.
        repeat split; try assumption. eapply Permutation_trans; eassumption.
      - destruct IH as (H1 & H2 & H3). rewrite set_nth_length in H1, H2.
        repeat split; try assumption.
        pose proof (Permutation_length Hitems) as HL. rewrite !app_length in HL.
        rewrite <- !tree_size_items, <- !forest_size_items in HL. lia.
      - exact IH. }
    destruct (Z.ltb_spec (t_key y) (t_key x)) as [E|E].
    + apply Hstep; try assumption; [lia|apply Permutation_app_comm].
    + apply Hstep; try assumption. reflexivity.
  - (* free slot *)
    rewrite set_nth_length. pose proof (somes_set_some _ _ x En) as Hp.
    split; [reflexivity|]. split; [|split].
    + eapply Forall_perm; [apply Permutation_sym; exact Hp|]. constructor; assumption.
    + apply slots_ok_set_some; assumption.
    + apply (forest_items_perm _ _ Hp).
  - (* A[d] with d >= Dn *)
    apply nth_error_None in En. split; [reflexivity|]. split; [exact En|].
    pose proof (size_fib x Hx). rewrite Hr in H. lia.
Qed.

(* ---------- cons_walk ---------- *)
Lemma cons_walk_spec : forall ws A,
  Forall wf ws -> Forall wf (somes A) -> slots_ok A ->
  match cons_walk ws A with
  | Ok A' => length A' = length A /\ Forall wf (somes A') /\ slots_ok A' /\
             Permutation (forest_items (somes A')) (forest_items ws ++ forest_items (somes A))
  | OOB d s => s = length A /\ (length A <= d)%nat /\
               (fib (d + 2) <= forest_size ws + forest_size (somes A))%nat
  | OutOfFuel => False
  end.
Proof.
  induction ws as [|w ws IH]; intros A Hws HA Hs; cbn [cons_walk].
  - cbn [forest_items app]. repeat split; try assumption. reflexivity.
  - inversion Hws as [|? ? Hw Hws']; subst.
    pose proof (cons_place_spec (S (length A)) w (t_rank w) A Hw eq_refl HA Hs) as Hp.
    assert (Hfuel : (length (somes A) < S (length A))%nat) by (pose proof (somes_length_le A); lia).
    specialize (Hp Hfuel).
    destruct (cons_place (S (length A)) w (t_rank w) A) as [A1|d s|].
    + destruct Hp as (H1 & H2 & H3 & H4). specialize (IH A1 Hws' H2 H3).
      destruct (cons_walk ws A1) as [A2|d s|].
      * destruct IH as (I1 & I2 & I3 & I4). repeat split; try assumption; [congruence|].
        eapply Permutation_trans; [exact I4|]. cbn [forest_items].
        eapply Permutation_trans; [apply Permutation_app_head; exact H4|].
        rewrite !app_assoc. apply Permutation_app_tail. apply Permutation_app_comm.
      * destruct IH as (I1 & I2 & I3). rewrite H1 in I1, I2. repeat split; try assumption.
        pose proof (Permutation_length H4) as HL. rewrite app_length in HL.
        rewrite <- tree_size_items, <- !forest_size_items in HL. cbn [forest_size]. lia.
      * exact IH.
    + destruct Hp as (H1 & H2 & H3). repeat split; try assumption. cbn [forest_size]. lia.
    + exact Hp.
Qed.

(* ---------- cons_collect ---------- *)
Lemma cons_collect_perm : forall A rs,
  Permutation (cons_collect A rs) (map (set_marked false) (somes A) ++ rs).
Proof.
  induction A as [|[t|] A IH]; intros rs; cbn [cons_collect somes map app]; [reflexivity| |apply IH].
  eapply Permutation_trans; [apply IH|].
  eapply Permutation_trans; [apply Permutation_app_head; apply add_root_perm|].
  apply Permutation_sym. apply Permutation_middle.
Qed.

Lemma cons_collect_head_min : forall A rs, head_min rs -> head_min (cons_collect A rs).
Proof.
  induction A as [|[t|] A IH]; intros rs H; cbn [cons_collect]; [exact H| |apply IH; exact H].
  apply IH. apply add_root_head_min. exact H.
Qed.

Lemma forest_items_unmark : forall l, forest_items (map (set_marked false) l) = forest_items l.
Proof.
  induction l as [|t l IH]; cbn [map forest_items]; [reflexivity|].
  rewrite tree_items_set_marked, IH. reflexivity.
Qed.

Lemma Forall_wf_unmark : forall l, Forall wf l -> Forall wf (map (set_marked false) l).
Proof.
  intros l H. induction H; cbn [map]; constructor; [apply wf_set_marked|]; assumption.
Qed.

(* ---------- consolidate ---------- *)
Lemma consolidate_spec : forall dn ws, Forall wf ws ->
  match consolidate_roots dn ws with
  | Ok rs => Forall wf rs /\ head_min rs /\ Permutation (forest_items rs) (forest_items ws)
  | OOB d s => s = dn /\ (dn <= d)%nat /\ (fib (d + 2) <= forest_size ws)%nat
  | OutOfFuel => False
  end.
Proof.
  intros dn ws Hws. unfold consolidate_roots.
  pose proof (cons_walk_spec ws (repeat None dn) Hws) as H.
  rewrite somes_repeat, repeat_length in H. specialize (H (Forall_nil _) (slots_ok_repeat dn)).
  destruct (cons_walk ws (repeat None dn)) as [A|d s|].
  - destruct H as (H1 & H2 & H3 & H4). cbn [forest_items] in H4. rewrite app_nil_r in H4.
    pose proof (cons_collect_perm A []) as Hp. rewrite app_nil_r in Hp.
    split; [|split].
    + eapply Forall_perm; [apply Permutation_sym; exact Hp|]. apply Forall_wf_unmark. exact H2.
    + apply cons_collect_head_min. exact I.
    + eapply Permutation_trans; [apply (forest_items_perm _ _ Hp)|].
      rewrite forest_items_unmark. exact H4.
  - cbn [forest_size] in H. destruct H as (H1 & H2 & H3). repeat split; try assumption. lia.
  - exact H.
Qed.
