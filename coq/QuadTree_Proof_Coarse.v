(* QuadTree_Proof_Coarse.v — what computeNonEdgeForces computes for EVERY theta (0 <= theta <= 2 and beyond):
   the all-pairs sums of a COARSENED point set.  The inserted indices are partitioned into groups; each group g
   is replaced by |g| copies of its arithmetic mean (one add_summary with cum = |g|, com = mean g); the group
   {i} of the query point itself is dropped when its own leaf is reached.  theta only decides how coarse the
   partition is (theta = 0: all groups are singletons, forces_theta0).  No coincident points assumed, as in the
   property statement.  Stated for any tree that satisfies `spec` (so also for the dump of the real tree). *)
From Coq Require Import List Arith Bool ZArith QArith Permutation Lia Lqa.
From TK Require Import QuadTree_Model QuadTree_Spec QuadTree_SpecExec QuadTree_Proof_Base
                       QuadTree_Proof_Insert QuadTree_Proof_Main QuadTree_Proof_Forces
                       QuadTree_Proof_Spec QuadTree_Proof_Exec QuadTree_Proof_Bound QuadTree_Proof_Dump.
Import ListNotations.
Local Open Scope Q_scope.

(* a group of indices with the centre of mass used for it, or (None) the query's own group, dropped *)
Definition item : Type := (list nat * option pt)%type.

Definition add_item (p : pt) (a : facc) (it : item) : facc :=
  match snd it with
  | Some com => add_summary p (length (fst it)) com a
  | None => a
  end.

Definition item_ok (data : list pt) (i : nat) (it : item) : Prop :=
  match snd it with
  | Some com => fst it <> [] /\ agg_ok data (fst it) (length (fst it)) com
  | None => fst it = [i]
  end.

Lemma coarse_Routed : forall data l t,
  Routed data l t ->
  forall L, NoCo data L -> incl l L -> incl (all_indices t) L -> NoCo data l ->
  forall p i theta,
    exists items : list item,
      concat (map fst items) = concat (map fst items) /\
      Permutation (concat (map fst items)) l /\
      Forall (item_ok data i) items /\
      forall a, forces_at p i theta t a = fold_left (add_item p) items a.
Proof.
  intros data l t H.
  induction H as [c com | c j cnt cum com l Hne Hco Hin Hagg
                 | c cum com nw ne sw se l l1 l2 l3 l4 HP R1 IH1 R2 IH2 R3 IH3 R4 IH4 Hins Hagg];
    intros L HL Hl Hidx HN p i theta.
  - exists []. cbn. repeat split; auto.
  - assert (Hj : In j L) by (apply Hidx; left; reflexivity).
    pose proof (leaf_singleton data L l j HL Hl Hj HN Hne Hco) as El. subst l.
    destruct Hagg as (Hc & Hx & Hy). cbn [length] in Hc. subst cum.
    destruct (Nat.eqb_spec j i) as [E|E].
    + subst j. exists [([i], None)]. cbn [map fst concat app]. split; [reflexivity|].
      split; [apply Permutation_refl|]. split; [constructor; [reflexivity | constructor]|].
      intro a. cbn [forces_at Nat.eqb fold_left add_item snd]. rewrite Nat.eqb_refl. reflexivity.
    + exists [([j], Some com)]. cbn [map fst concat app]. split; [reflexivity|].
      split; [apply Permutation_refl|]. split.
      * constructor; [|constructor]. unfold item_ok. cbn [fst snd length]. split; [discriminate|].
        repeat split; assumption.
      * intro a. cbn [forces_at Nat.eqb fold_left add_item snd fst length].
        destruct (Nat.eqb_spec j i) as [E'|_]; [contradiction | reflexivity].
  - destruct (NoCo_split4 data l l1 l2 l3 l4 HP HN) as (N1 & N2 & N3 & N4).
    destruct (incl_app4 l l1 l2 l3 l4 L HP Hl) as (S1 & S2 & S3 & S4).
    cbn [all_indices] in Hidx. destruct (incl_idx4 _ _ _ _ L Hidx) as (X1 & X2 & X3 & X4).
    destruct (cum =? 0)%nat eqn:Ecum.
    { apply Nat.eqb_eq in Ecum. destruct Hagg as (Hc & _). rewrite Ecum in Hc.
      destruct l; [|discriminate]. exists []. cbn [map concat]. split; [reflexivity|].
      split; [apply perm_nil|]. split; [constructor|].
      intro a. cbn [forces_at fold_left]. rewrite Ecum. apply Nat.eqb_eq in Ecum. reflexivity. }
    destruct (summary_ok c theta (sqdist p com)) eqn:Esum.
    + exists [(l, Some com)]. cbn [map fst concat]. rewrite app_nil_r. split; [reflexivity|].
      split; [apply Permutation_refl|]. split.
      * constructor; [|constructor]. unfold item_ok. cbn [fst snd].
        destruct Hagg as (Hc & Hx & Hy). split.
        -- intro E. subst l. cbn in Hc. subst cum. discriminate.
        -- rewrite <- Hc. repeat split; assumption.
      * intro a. cbn [forces_at fold_left add_item snd fst]. rewrite Ecum, Esum.
        destruct Hagg as (Hc & _). rewrite <- Hc. reflexivity.
    + destruct (IH1 L HL S1 X1 N1 p i theta) as (it1 & _ & P1 & O1 & F1).
      destruct (IH2 L HL S2 X2 N2 p i theta) as (it2 & _ & P2 & O2 & F2).
      destruct (IH3 L HL S3 X3 N3 p i theta) as (it3 & _ & P3 & O3 & F3).
      destruct (IH4 L HL S4 X4 N4 p i theta) as (it4 & _ & P4 & O4 & F4).
      exists (it1 ++ it2 ++ it3 ++ it4). split; [reflexivity|]. split; [|split].
      * rewrite !map_app, !concat_app.
        apply (Permutation_trans (l' := l1 ++ l2 ++ l3 ++ l4)); [|apply Permutation_sym; exact HP].
        apply Permutation_app; [exact P1|]. apply Permutation_app; [exact P2|].
        apply Permutation_app; [exact P3 | exact P4].
      * apply Forall_app. split; [exact O1|]. apply Forall_app. split; [exact O2|].
        apply Forall_app. split; [exact O3 | exact O4].
      * intro a. cbn [forces_at]. rewrite Ecum, Esum. rewrite !fold_left_app.
        rewrite <- F1, <- F2, <- F3, <- F4. reflexivity.
Qed.

Theorem forces_coarsened_gen : forall data ins t,
  spec data ins t -> NoCo data ins ->
  forall p i theta,
    exists items : list item,
      Permutation (concat (map fst items)) ins /\
      Forall (item_ok data i) items /\
      forall a, forces_at p i theta t a = fold_left (add_item p) items a.
Proof.
  intros data ins t ((l & HP & HR) & Hidx & _) HN p i theta.
  assert (HNl : NoCo data l) by (apply (NoCo_perm _ _ _ HP HN)).
  assert (Hl : incl l ins) by (intros x Hx; apply (Permutation_in _ (Permutation_sym HP) Hx)).
  destruct (coarse_Routed data l t HR ins HN Hl Hidx HNl p i theta) as (items & _ & P & O & F).
  exists items. split; [|split; assumption].
  apply (Permutation_trans P). apply Permutation_sym. exact HP.
Qed.
