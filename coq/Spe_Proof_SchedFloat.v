(* Spe_Proof_SchedFloat.v — validation of the Z-level binary64 model of `floor(0.04 * N * N)`
   (Spe_Sched_Model.sched_q: explicit round-to-nearest-even on mantissa/exponent pairs) against Coq's
   primitive binary64 floats (kernel type `float`, IEEE 754 operations of the host): the two agree for
   every N <= 2048 (complete enumeration by vm_compute).  No axiom of FloatAxioms is used: the floats are
   only COMPUTED with, their result is read back through Prim2SF. *)
Require Import List Arith Lia Bool ZArith Floats.
From TK Require Import Spe_Sched_Model.
Import ListNotations.

(* floor of a non-negative finite float, through its (mantissa, exponent) decomposition *)
Definition float_floor_nonneg (f : float) : option Z :=
  match Prim2SF f with
  | S754_zero _ => Some 0%Z
  | S754_finite false m e => Some (b64_floor (Z.pos m, e))
  | _ => None
  end.

(* the C++ expression  floor(0.04 * N * N)  with N converted to double *)
Definition float_sched_q (N : nat) : option Z :=
  let n := of_uint63 (Uint63.of_Z (Z.of_nat N)) in
  float_floor_nonneg (0x1.47ae147ae147bp-5 * n * n)%float.

Definition sched_q_agrees_b (N : nat) : bool :=
  match float_sched_q N with
  | Some z => Z.eqb z (Z.of_nat (sched_q N))
  | None => false
  end.

Theorem sched_q_matches_primitive_floats_proof (N : nat) :
  N <= 2048 -> float_sched_q N = Some (Z.of_nat (sched_q N)).
Proof.
  intros H.
  assert (A : forallb sched_q_agrees_b (seq 0 2049) = true) by (vm_compute; reflexivity).
  rewrite forallb_forall in A. specialize (A N). unfold sched_q_agrees_b in A.
  destruct (float_sched_q N) as [z|]; [|discriminate A; apply in_seq; lia].
  f_equal. apply Z.eqb_eq. apply A. apply in_seq. lia.
Qed.

(* the literal 0.04 of the model is the binary64 nearest to 4/100 that Coq's parser produces *)
Theorem c004_is_the_literal_proof : Prim2SF 0x1.47ae147ae147bp-5%float = S754_finite false (Z.to_pos (fst c004)) (snd c004).
Proof. vm_compute. reflexivity. Qed.
