(* QuadTree_Proof_Final.v — the C18 theorems in the form Properties_C18.v states them
   (current code = fx true, i.e. with the per-slot count[] of fix F24; the code as shipped before
   the fix = fx false), and the non-vacuity witnesses of their hypotheses. *)
From Coq Require Import List Arith Bool ZArith QArith Permutation Lia Lqa.
From TK Require Import QuadTree_Model QuadTree_Spec QuadTree_SpecExec QuadTree_Proof_Base
                       QuadTree_Proof_Insert QuadTree_Proof_Main QuadTree_Proof_Forces
                       QuadTree_Proof_Fuel QuadTree_Proof_Spec QuadTree_Proof_Exec
                       QuadTree_Proof_Observers QuadTree_Proof_Order QuadTree_Proof_Order2
                       QuadTree_Proof_Bound QuadTree_Proof_Gradient QuadTree_Proof_Dump
                       QuadTree_Proof_Coarse QuadTree_Proof_Counts QuadTree_Proof_Terminates.
Import ListNotations.
Local Open Scope Q_scope.

Definition in_root (data : list pt) (root : cell) (order : list nat) : Prop :=
  forall i, In i order -> inside data root i.

(* ---------- children_cover ---------- *)

(* geometric half + operational half: insert() of a point inside the cell's box never takes the
   "this should never happen" exit (it returns true or runs out of fuel) *)
Lemma children_cover_final :
  (forall c p, contains c p = true ->
     contains (nwc c) p = true \/ contains (nec c) p = true \/
     contains (swc c) p = true \/ contains (sec c) p = true) /\
  (forall fuel data order root ok t,
     in_root data root order ->
     fill_order true fuel data order (init root) = Done ok t -> ok = true).
Proof.
  split; [exact children_cover_base|].
  intros fuel data order root ok t Hin E.
  apply (routed_once_gen true fuel data order root ok t Hin (or_introl eq_refl) E).
Qed.

(* ---------- routed_once ---------- *)

Lemma routed_once_final : forall fuel data order root ok t,
  in_root data root order ->
  fill_order true fuel data order (init root) = Done ok t ->
  ok = true /\ spec data order t /\ geom_ok t /\ qcell t = root.
Proof.
  intros fuel data order root ok t Hin E.
  apply (routed_once_gen true fuel data order root ok t Hin (or_introl eq_refl) E).
Qed.

Lemma routed_once_shipped_nocoinc_final : forall fuel data order root ok t,
  in_root data root order -> NoCo data order ->
  fill_order false fuel data order (init root) = Done ok t ->
  ok = true /\ spec data order t /\ geom_ok t /\ qcell t = root.
Proof.
  intros fuel data order root ok t Hin HN E.
  apply (routed_once_gen false fuel data order root ok t Hin (or_intror HN) E).
Qed.

Lemma Routed_agg : forall data l t, Routed data l t -> agg_ok data l (qcum t) (qcom t).
Proof.
  intros data l t H. destruct H; cbn [qcum qcom]; try assumption. apply agg_ok_nil.
Qed.

(* ---------- com_is_mean ---------- *)

Lemma com_is_mean_final : forall fx fuel data order root ok t,
  in_root data root order ->
  fill_order fx fuel data order (init root) = Done ok t ->
  qcum t = length order /\
  Qn (qcum t) * fst (qcom t) == sumx data order /\
  Qn (qcum t) * snd (qcom t) == sumy data order /\
  (order <> [] -> fst (qcom t) == sumx data order / Qn (length order) /\
                  snd (qcom t) == sumy data order / Qn (length order)).
Proof.
  intros fx fuel data order root ok t Hin E.
  pose proof (com_is_mean_gen fx fuel data order root ok t Hin E) as A.
  destruct A as (A1 & A2 & A3). repeat split; try assumption.
  - apply (agg_ok_mean data order (qcum t) (qcom t)); [repeat split; assumption | assumption].
  - apply (agg_ok_mean data order (qcum t) (qcom t)); [repeat split; assumption | assumption].
Qed.

(* ---------- order independence ---------- *)

Lemma order_independent_final : forall fx fuel1 fuel2 data order1 order2 root ok1 ok2 t1 t2,
  Permutation order1 order2 ->
  in_root data root order1 ->
  fill_order fx fuel1 data order1 (init root) = Done ok1 t1 ->
  fill_order fx fuel2 data order2 (init root) = Done ok2 t2 ->
  qcum t1 = qcum t2 /\ pt_eq (qcom t1) (qcom t2).
Proof. exact order_independent_root. Qed.

(* ---------- forces ---------- *)

Lemma forces_theta0_final : forall fx fuel data order root ok t,
  in_root data root order -> NoCo data order ->
  fill_order fx fuel data order (init root) = Done ok t ->
  forall i p a, nth_error data i = Some p ->
    exists r, forces data i 0 t a = FDone r /\ feq r (fadd a (exact_sums data p i order)).
Proof. exact forces_theta0_gen. Qed.

Lemma forces_eventually_exact_final : forall fuel data order root ok t,
  in_root data root order ->
  fill_order true fuel data order (init root) = Done ok t ->
  exists theta0, 0 < theta0 /\
    forall theta, 0 <= theta -> theta < theta0 ->
      forall i a, forces data i theta t a = forces data i 0 t a.
Proof.
  intros fuel data order root ok t Hin E.
  apply (forces_eventually_exact_gen true fuel data order root ok t Hin (or_introl eq_refl) E).
Qed.

(* the two together: below theta0 the tree code returns the exact all-pairs sums *)
Lemma forces_small_theta_exact_final : forall fuel data order root ok t,
  in_root data root order -> NoCo data order ->
  fill_order true fuel data order (init root) = Done ok t ->
  exists theta0, 0 < theta0 /\
    forall theta, 0 <= theta -> theta < theta0 ->
      forall i p a, nth_error data i = Some p ->
        exists r, forces data i theta t a = FDone r /\ feq r (fadd a (exact_sums data p i order)).
Proof.
  intros fuel data order root ok t Hin HN E.
  destruct (forces_eventually_exact_final fuel data order root ok t Hin E) as (th & T & S).
  exists th. split; [exact T|]. intros theta H0 Hth i p a Hi.
  rewrite (S theta H0 Hth i a).
  apply (forces_theta0_gen true fuel data order root ok t Hin HN E i p a Hi).
Qed.

(* ---------- fuel ---------- *)

Lemma insert_fuel_final : forall fuel data order root g d,
  0 < g ->
  in_root data root order ->
  (forall i p, In i order -> nth_error data i = Some p -> on_grid g p) ->
  chw root <= pow2 d * g -> chh root <= pow2 d * g ->
  (d + 3 <= fuel)%nat ->
  exists t, fill_order true fuel data order (init root) = Done true t.
Proof.
  intros fuel data order root g d Hg Hin Hgrid Hw Hh Hf.
  apply (insert_fuel_gen true fuel data order root g d Hg Hin Hgrid Hw Hh (or_introl eq_refl) Hf).
Qed.

(* ---------- non-vacuity witnesses ---------- *)

Definition ex_root : cell := mkCell 0 0 1 1.
(* two coincident points, one on the centre cross of the root (edge of all four children),
   one generic *)
Definition ex_data : list pt :=
  [(-(1#2), -(1#2)); (-(1#2), -(1#2)); (1#2, 1#2); (0, 1#4); (1#4, 1#4)].
Definition ex_order : list nat := [0; 1; 2; 3; 4]%nat.
Definition ex_order' : list nat := [4; 2; 0; 3; 1]%nat.
(* no coincident points *)
Definition ex_data2 : list pt := [(-(1#2), -(1#2)); (1#2, 1#2); (0, 1#4); (1#4, 1#4)].
Definition ex_order2 : list nat := [0; 1; 2; 3]%nat.

Lemma ex_in_root : in_root ex_data ex_root ex_order.
Proof.
  intros i [<-|[<-|[<-|[<-|[<-|[]]]]]]; eexists; (split; [reflexivity | vm_compute; reflexivity]).
Qed.

Lemma ex_in_root' : in_root ex_data ex_root ex_order'.
Proof.
  intros i Hi. apply ex_in_root. cbn in Hi |- *. intuition.
Qed.

Lemma ex_in_root2 : in_root ex_data2 ex_root ex_order2.
Proof.
  intros i [<-|[<-|[<-|[<-|[]]]]]; eexists; (split; [reflexivity | vm_compute; reflexivity]).
Qed.

Lemma coinc_dec_false : forall data i j, coincb data i j = false -> ~ coinc data i j.
Proof. intros data i j H C. apply coincb_iff in C. congruence. Qed.

Lemma ex_noco2 : NoCo ex_data2 ex_order2.
Proof.
  split.
  - repeat constructor; cbn; intuition lia.
  - intros a b Ha Hb C.
    cbn in Ha, Hb.
    destruct Ha as [<-|[<-|[<-|[<-|[]]]]]; destruct Hb as [<-|[<-|[<-|[<-|[]]]]]; try reflexivity;
      exfalso; revert C; apply coinc_dec_false; vm_compute; reflexivity.
Qed.

Lemma ex_builds : exists t, fill_order true 6 ex_data ex_order (init ex_root) = Done true t
                            /\ spec_okb ex_data ex_order t = true /\ struct_okb ex_data ex_order t = true.
Proof. eexists. split; [vm_compute; reflexivity|]. split; vm_compute; reflexivity. Qed.

Lemma ex_builds' : exists t, fill_order true 6 ex_data ex_order' (init ex_root) = Done true t.
Proof. eexists. vm_compute. reflexivity. Qed.

Lemma ex_builds2 : exists t, fill_order true 6 ex_data2 ex_order2 (init ex_root) = Done true t.
Proof. eexists. vm_compute. reflexivity. Qed.

Lemma ex_builds2_shipped : exists t, fill_order false 6 ex_data2 ex_order2 (init ex_root) = Done true t.
Proof. eexists. vm_compute. reflexivity. Qed.

Lemma ex_perm : Permutation ex_order ex_order'.
Proof.
  unfold ex_order, ex_order'. apply Permutation_sym.
  apply (Permutation_cons_app [0; 1; 2; 3]%nat [] 4%nat). cbn [app].
  apply (Permutation_cons_app [0; 1]%nat [3]%nat 2%nat). cbn [app].
  apply perm_skip. apply perm_swap.
Qed.

Lemma ex_grid : forall i p, In i ex_order -> nth_error ex_data i = Some p -> on_grid (1#4) p.
Proof.
  intros i p Hi Hp. cbn in Hi.
  destruct Hi as [<-|[<-|[<-|[<-|[<-|[]]]]]]; cbn in Hp; injection Hp as <-.
  - exists (-2)%Z, (-2)%Z. split; reflexivity.
  - exists (-2)%Z, (-2)%Z. split; reflexivity.
  - exists 2%Z, 2%Z. split; reflexivity.
  - exists 0%Z, 1%Z. split; reflexivity.
  - exists 1%Z, 1%Z. split; reflexivity.
Qed.

Lemma ex_fuel_hyps :
  0 < (1#4) /\ in_root ex_data ex_root ex_order /\
  (forall i p, In i ex_order -> nth_error ex_data i = Some p -> on_grid (1#4) p) /\
  chw ex_root <= pow2 2 * (1#4) /\ chh ex_root <= pow2 2 * (1#4) /\ (2 + 3 <= 5)%nat.
Proof.
  split; [reflexivity|]. split; [exact ex_in_root|]. split; [exact ex_grid|].
  split; [vm_compute; discriminate|]. split; [vm_compute; discriminate | lia].
Qed.

(* the duplicate-mass witness again, on the repaired code: same input, specification holds *)
Lemma f24_repaired : exists t, fill_order true 3 f24_data f24_order (init f24_root) = Done true t /\
                               spec_okb f24_data f24_order t = true.
Proof. eexists. split; vm_compute; reflexivity. Qed.

Lemma ex_builds0 : exists t, fill_order true 6 ex_data ex_order (init ex_root) = Done true t.
Proof. eexists. vm_compute. reflexivity. Qed.

Lemma struct_okb_sound_final : forall data ins t,
  struct_okb data ins t = true -> spec data ins (recom data ins t) /\ cum_consistent t = true.
Proof.
  intros data ins t H. split; [apply struct_okb_sound_gen | apply (struct_okb_cum_consistent data ins)]; exact H.
Qed.

(* ---------- public observers, mean-centred root, order independence of the whole tree ---------- *)

Lemma observers_final : forall fuel data order root ok t,
  in_root data root order ->
  fill_order true fuel data order (init root) = Done ok t ->
  is_correct data t = true /\
  NoDup (all_indices t) /\ incl (all_indices t) order /\
  (forall i, In i order -> exists j, In j (all_indices t) /\ coinc data i j) /\
  (forall i j j', In i order -> In j (all_indices t) -> In j' (all_indices t) ->
                  coinc data i j -> coinc data i j' -> j = j').
Proof.
  intros fuel data order root ok t Hin E.
  apply (observers_gen true fuel data order root ok t Hin (or_introl eq_refl) E).
Qed.

Lemma order_independent_tree_final : forall fuel1 fuel2 data order1 order2 root ok1 ok2 t1 t2,
  Permutation order1 order2 ->
  in_root data root order1 ->
  fill_order true fuel1 data order1 (init root) = Done ok1 t1 ->
  fill_order true fuel2 data order2 (init root) = Done ok2 t2 ->
  teq data t1 t2.
Proof.
  intros fuel1 fuel2 data order1 order2 root ok1 ok2 t1 t2 HP Hin E1 E2.
  apply (order_independent_tree_gen true fuel1 fuel2 data order1 order2 root ok1 ok2 t1 t2 HP Hin
           (or_introl eq_refl) E1 E2).
Qed.

(* the root box of QuadTree(Y, N) contains the N points, so `in_root` holds for the tree tsne.hpp builds *)
Lemma auto_root_in_root : forall slack data N c,
  0 <= slack -> (N <= length data)%nat ->
  auto_root slack data N = Some c -> in_root data c (seq 0 N).
Proof.
  intros slack data N c Hs HN E i Hi. apply in_seq in Hi.
  destruct (nth_error data i) as [p|] eqn:Hp.
  - exists p. split; [exact Hp|]. apply (auto_root_contains slack data N c Hs E i); [lia | exact Hp].
  - apply nth_error_None in Hp. lia.
Qed.

Lemma ex_auto_root : exists c, auto_root (1 # 100000) ex_data 5 = Some c /\ (5 <= length ex_data)%nat.
Proof. eexists. split; [vm_compute; reflexivity | cbn; lia]. Qed.

(* ---------- forces: order independence for every theta, quantitative error bound, leaf multiplicities ---------- *)

Lemma forces_order_independent_final : forall fx fuel1 fuel2 data order1 order2 root ok1 ok2 t1 t2,
  Permutation order1 order2 ->
  in_root data root order1 -> NoCo data order1 ->
  fill_order fx fuel1 data order1 (init root) = Done ok1 t1 ->
  fill_order fx fuel2 data order2 (init root) = Done ok2 t2 ->
  forall p i theta a, feq (forces_at p i theta t1 a) (forces_at p i theta t2 a).
Proof. exact forces_order_independent_gen. Qed.

Lemma forces_error_bound_final : forall fx fuel data order root ok t,
  in_root data root order -> NoCo data order ->
  fill_order fx fuel data order (init root) = Done ok t ->
  forall theta, 0 <= theta -> 8 * (theta * theta) <= 1 ->
  forall i p a, nth_error data i = Some p ->
    exists r r0, forces data i theta t a = FDone r /\ feq r (fadd a r0) /\
                 bound theta r0 (exact_sums data p i order).
Proof. exact forces_error_bound_gen. Qed.

Lemma count_ok_final : forall fuel data order root ok t,
  in_root data root order ->
  fill_order true fuel data order (init root) = Done ok t -> count_ok t.
Proof.
  intros fuel data order root ok t Hin E.
  apply (count_ok_gen true fuel data order root ok t Hin (or_introl eq_refl) E).
Qed.

Lemma ex_theta : 0 <= (1 # 8) /\ 8 * ((1 # 8) * (1 # 8)) <= 1.
Proof. split; vm_compute; discriminate. Qed.

(* ---------- the loop of tsne.hpp over one tree with a shared sum_Q ---------- *)

Lemma nonedge_loop_theta0_final : forall fx fuel data order root ok t,
  in_root data root order -> NoCo data order ->
  fill_order fx fuel data order (init root) = Done ok t ->
  forall ns sq, (forall n, In n ns -> (n < length data)%nat) ->
    exists l s, nonedge_loop data 0 t ns sq = Some (l, s) /\
                rows_ok data order ns l /\ s == sq + total_sq data order ns.
Proof. exact nonedge_loop_theta0_gen. Qed.

Lemma nonedge_loop_bound_final : forall fx fuel data order root ok t,
  in_root data root order -> NoCo data order ->
  fill_order fx fuel data order (init root) = Done ok t ->
  forall theta, 0 <= theta -> 8 * (theta * theta) <= 1 ->
  forall ns sq, (forall n, In n ns -> (n < length data)%nat) ->
    exists l s, nonedge_loop data theta t ns sq = Some (l, s) /\ length l = length ns /\
                -(epsf theta * total_sq data order ns) <= s - (sq + total_sq data order ns) /\
                s - (sq + total_sq data order ns) <= epsf theta * total_sq data order ns.
Proof. exact nonedge_loop_bound_gen. Qed.

(* ---------- the force clauses from the specification alone (any tree, e.g. the dump of the real one) ---------- *)

Lemma spec_forces_final : forall data ins t,
  spec data ins t -> NoCo data ins ->
  forall i p, nth_error data i = Some p ->
    (forall a, feq (forces_at p i 0 t a) (fadd a (exact_sums data p i ins))) /\
    (forall theta, 0 <= theta -> 8 * (theta * theta) <= 1 ->
       bound theta (forces_at p i theta t (0, 0, 0)) (exact_sums data p i ins)).
Proof. exact spec_forces_gen. Qed.

Lemma dump_forces_final : forall data ins t,
  struct_okb data ins t = true -> NoCo data ins ->
  forall i p, nth_error data i = Some p ->
    (forall a, feq (forces_at p i 0 (recom data ins t) a) (fadd a (exact_sums data p i ins))) /\
    (forall theta, 0 <= theta -> 8 * (theta * theta) <= 1 ->
       bound theta (forces_at p i theta (recom data ins t) (0, 0, 0)) (exact_sums data p i ins)).
Proof. exact dump_forces_gen. Qed.

Lemma ex_dump : exists t, struct_okb ex_data2 ex_order2 t = true /\ NoCo ex_data2 ex_order2.
Proof.
  destruct ex_builds2 as (t & E). exists t. split; [|exact ex_noco2].
  vm_compute in E. injection E as <-. vm_compute. reflexivity.
Qed.

(* ---------- end to end: the tree tsne.hpp builds, `new QuadTree(Y, N)` ---------- *)


Lemma tsne_tree_final : forall slack fuel data N ok t,
  0 <= slack -> (N <= length data)%nat ->
  tsne_tree slack fuel data N = Some (Done ok t) ->
  ok = true /\ spec data (seq 0 N) t /\ geom_ok t /\ count_ok t /\ is_correct data t = true /\
  NoDup (all_indices t) /\
  (NoCo data (seq 0 N) ->
     forall i p, nth_error data i = Some p ->
       (forall a, feq (forces_at p i 0 t a) (fadd a (exact_sums data p i (seq 0 N)))) /\
       (forall theta, 0 <= theta -> 8 * (theta * theta) <= 1 ->
          bound theta (forces_at p i theta t (0, 0, 0)) (exact_sums data p i (seq 0 N)))).
Proof.
  intros slack fuel data N ok t Hs HN E. unfold tsne_tree in E.
  destruct (auto_root slack data N) as [c|] eqn:Ea; [|discriminate]. injection E as E.
  pose proof (auto_root_in_root slack data N c Hs HN Ea) as Hin. unfold fill in E.
  destruct (routed_once_final fuel data (seq 0 N) c ok t Hin E) as (Hok & Hsp & Hg & _).
  destruct (observers_final fuel data (seq 0 N) c ok t Hin E) as (Hc & Hnd & _).
  split; [exact Hok|]. split; [exact Hsp|]. split; [exact Hg|].
  split; [apply (count_ok_final fuel data (seq 0 N) c ok t Hin E)|]. split; [exact Hc|]. split; [exact Hnd|].
  intros HNo i p Hp. apply (spec_forces_final data (seq 0 N) t Hsp HNo i p Hp).
Qed.

Lemma ex_tsne_tree : exists ok t, tsne_tree (1 # 100000) 12 ex_data 5 = Some (Done ok t) /\ (5 <= length ex_data)%nat.
Proof. eexists. eexists. split; [vm_compute; reflexivity | cbn; lia]. Qed.

(* ---------- further non-vacuity witnesses ---------- *)

Definition ex_order2' : list nat := [3; 1; 0; 2]%nat.

Lemma ex_perm2 : Permutation ex_order2 ex_order2'.
Proof.
  unfold ex_order2, ex_order2'. apply Permutation_sym.
  apply (Permutation_cons_app [0; 1; 2]%nat [] 3%nat). cbn [app].
  apply (Permutation_cons_app [0]%nat [2]%nat 1%nat). cbn [app].
  apply Permutation_refl.
Qed.

Lemma ex_builds2' : exists t, fill_order true 6 ex_data2 ex_order2' (init ex_root) = Done true t.
Proof. eexists. vm_compute. reflexivity. Qed.

Lemma ex_hyps_basic : in_root ex_data ex_root ex_order /\
  exists t, fill_order true 6 ex_data ex_order (init ex_root) = Done true t.
Proof. exact (conj ex_in_root ex_builds0). Qed.

Lemma ex_hyps_noco : in_root ex_data2 ex_root ex_order2 /\ NoCo ex_data2 ex_order2 /\
  exists t, fill_order true 6 ex_data2 ex_order2 (init ex_root) = Done true t.
Proof. exact (conj ex_in_root2 (conj ex_noco2 ex_builds2)). Qed.

Lemma ex_hyps_order2 : Permutation ex_order2 ex_order2' /\ in_root ex_data2 ex_root ex_order2 /\
  NoCo ex_data2 ex_order2 /\
  (exists t, fill_order true 6 ex_data2 ex_order2 (init ex_root) = Done true t) /\
  (exists t, fill_order true 6 ex_data2 ex_order2' (init ex_root) = Done true t).
Proof. exact (conj ex_perm2 (conj ex_in_root2 (conj ex_noco2 (conj ex_builds2 ex_builds2')))). Qed.

Lemma ex_hyps_order : Permutation ex_order ex_order' /\ in_root ex_data ex_root ex_order /\
  (exists t, fill_order true 6 ex_data ex_order (init ex_root) = Done true t) /\
  (exists t, fill_order true 6 ex_data ex_order' (init ex_root) = Done true t).
Proof. exact (conj ex_perm (conj ex_in_root (conj ex_builds0 ex_builds'))). Qed.

Lemma ex_rows_valid : forall n, In n (seq 0 4) -> (n < length ex_data2)%nat.
Proof. intros n Hn. apply in_seq in Hn. cbn. lia. Qed.

Lemma ex_hyps_loop : (in_root ex_data2 ex_root ex_order2 /\ NoCo ex_data2 ex_order2 /\
  exists t, fill_order true 6 ex_data2 ex_order2 (init ex_root) = Done true t) /\
  (forall n, In n (seq 0 4) -> (n < length ex_data2)%nat) /\ 0 <= (1 # 8) /\ 8 * ((1 # 8) * (1 # 8)) <= 1.
Proof. exact (conj ex_hyps_noco (conj ex_rows_valid ex_theta)). Qed.

Lemma ex_spec_okb : exists t, spec_okb ex_data ex_order t = true /\ struct_okb ex_data ex_order t = true.
Proof. destruct ex_builds as (t & _ & A & B). exists t. auto. Qed.

Lemma ex_spec_noco : exists t, spec ex_data2 ex_order2 t /\ NoCo ex_data2 ex_order2.
Proof.
  destruct ex_builds2 as (t & E). exists t. split; [|exact ex_noco2].
  apply (routed_once_final 6 ex_data2 ex_order2 ex_root true t ex_in_root2 E).
Qed.

(* ---------- every theta: the sums are the all-pairs sums of a coarsened point set ---------- *)

Lemma forces_coarsened_final : forall data ins t,
  spec data ins t -> NoCo data ins ->
  forall p i theta,
    exists items : list item,
      Permutation (concat (map fst items)) ins /\
      Forall (item_ok data i) items /\
      forall a, forces_at p i theta t a = fold_left (add_item p) items a.
Proof. exact forces_coarsened_gen. Qed.

(* ---------- the literal count of the points inside a cell's box ---------- *)

Lemma cell_counts_final : forall fuel data order root ok t,
  in_root data root order -> NoDup order ->
  fill_order true fuel data order (init root) = Done ok t ->
  all_cells (cell_counts_ok data order) t.
Proof.
  intros fuel data order root ok t Hin Hnd E.
  apply (cell_counts_gen true fuel data order root ok t Hin (or_introl eq_refl) Hnd E).
Qed.

Lemma ex_nodup : NoDup ex_order.
Proof. repeat constructor; cbn; intuition lia. Qed.

Lemma ex_hyps_counts : in_root ex_data ex_root ex_order /\ NoDup ex_order /\
  exists t, fill_order true 6 ex_data ex_order (init ex_root) = Done true t.
Proof. exact (conj ex_in_root (conj ex_nodup ex_builds0)). Qed.

(* ---------- every run ends ---------- *)

Lemma insert_terminates_final : forall data order root,
  in_root data root order ->
  exists fuel t, fill_order true fuel data order (init root) = Done true t /\
                 spec data order t /\ geom_ok t /\ qcell t = root.
Proof.
  intros data order root Hin.
  destruct (insert_terminates_gen true data order root Hin (or_introl eq_refl)) as (fuel & t & E).
  exists fuel, t. split; [exact E|].
  destruct (routed_once_final fuel data order root true t Hin E) as (_ & H). exact H.
Qed.
