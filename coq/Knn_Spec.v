(* Knn_Spec.v — property C02: what "the k nearest other samples" means.

   Samples are the indices 0 .. N-1 (type Z, as in the C++ `IndexType`; binary so
   that the extracted decision procedure is usable at N = 2000).  Distances are a
   table `d : Z -> Z -> Z`: the neighbour searches only compare, add and subtract
   distances, so any finite set of dyadic doubles scales to integers and the
   harness serves integer-valued distance matrices through the callback.

   `knn_of d q U k l`  : l is a set of k elements of the universe U that are
                          nearest to q (ties free).
   `is_knn d N q k l`  : the property's statement for one row: k distinct OTHER
                          samples, none farther than a sample left out.
   `is_knn_b`          : boolean decision procedure (extracted; it is the oracle
                          run on the implementation's own output), with the
                          reflection lemma `is_knn_b_spec`.
   `knn_sorted_dists`  : the formulation of the property text: the sorted
                          distances equal the k smallest of the sorted distances
                          to all the others. *)
From Coq Require Import List ZArith Bool Lia Permutation Sorted.
Import ListNotations.
Local Open Scope Z_scope.

Definition dist := Z -> Z -> Z.

Fixpoint zseq (s : Z) (len : nat) : list Z :=
  match len with O => [] | S n => s :: zseq (s + 1) n end.

Definition samples (N : nat) : list Z := zseq 0 N.

Definition zmem (x : Z) (l : list Z) : bool := existsb (Z.eqb x) l.

Definition others (N : nat) (q : Z) : list Z :=
  filter (fun j => negb (j =? q)) (samples N).

(* ---------- the specification ---------- *)

Definition knn_of (d : dist) (q : Z) (U : list Z) (k : nat) (l : list Z) : Prop :=
  NoDup l /\ length l = k /\ incl l U /\
  forall i j, In i l -> In j U -> ~ In j l -> d q i <= d q j.

Definition is_knn (d : dist) (N : nat) (q : Z) (k : nat) (l : list Z) : Prop :=
  NoDup l /\ length l = k /\ ~ In q l /\
  (forall i, In i l -> 0 <= i < Z.of_nat N) /\
  forall i j, In i l -> ~ In j l -> j <> q -> 0 <= j < Z.of_nat N -> d q i <= d q j.

(* A metric on a domain (only symmetry and the triangle inequality are ever used). *)
Definition metric_on (dom : Z -> Prop) (d : dist) : Prop :=
  (forall x y, dom x -> dom y -> d x y = d y x) /\
  (forall x y z, dom x -> dom y -> dom z -> d x z <= d x y + d y z).

(* ---------- sorting (for the "sorted distances" formulation and the repaired
   cover-tree selection) ---------- *)

Fixpoint insert_by {A} (key : A -> Z) (x : A) (l : list A) : list A :=
  match l with
  | [] => [x]
  | y :: r => if key x <=? key y then x :: y :: r else y :: insert_by key x r
  end.

Fixpoint isort_by {A} (key : A -> Z) (l : list A) : list A :=
  match l with [] => [] | x :: r => insert_by key x (isort_by key r) end.

Definition isort (l : list Z) : list Z := isort_by (fun x => x) l.

(* ---------- boolean decision procedure ---------- *)

Fixpoint nodup_b (l : list Z) : bool :=
  match l with [] => true | x :: r => negb (zmem x r) && nodup_b r end.

Definition maxdist (d : dist) (q : Z) (i0 : Z) (l : list Z) : Z :=
  fold_right (fun i m => Z.max (d q i) m) (d q i0) l.

Definition is_knn_b (d : dist) (N : nat) (q : Z) (k : nat) (l : list Z) : bool :=
  nodup_b l && Nat.eqb (length l) k && negb (zmem q l) &&
  forallb (fun i => (0 <=? i) && (i <? Z.of_nat N)) l &&
  match l with
  | [] => true
  | i0 :: _ =>
      let m := maxdist d q i0 l in
      forallb (fun j => (m <=? d q j) || (j =? q) || zmem j l) (samples N)
  end.

(* Sorted distances from q to the members of l (what the harness compares between
   methods and with the models). *)
Definition dists_sorted (d : dist) (q : Z) (l : list Z) : list Z := isort (map (d q) l).

(* ====================================================================== *)
(* Lemmas                                                                  *)
(* ====================================================================== *)

Lemma zseq_In : forall len s x, In x (zseq s len) <-> s <= x < s + Z.of_nat len.
Proof.
  induction len as [|n IH]; intros s x; cbn [zseq In].
  - lia.
  - rewrite IH. lia.
Qed.

Lemma zseq_NoDup : forall len s, NoDup (zseq s len).
Proof.
  induction len as [|n IH]; intros s; cbn [zseq]; constructor.
  - rewrite zseq_In. lia.
  - apply IH.
Qed.

Lemma zseq_length : forall len s, length (zseq s len) = len.
Proof. induction len as [|n IH]; intros s; cbn [zseq length]; [reflexivity | now rewrite IH]. Qed.

Lemma samples_In : forall N x, In x (samples N) <-> 0 <= x < Z.of_nat N.
Proof. intros N x. unfold samples. rewrite zseq_In. lia. Qed.

Lemma samples_NoDup : forall N, NoDup (samples N).
Proof. intros N. apply zseq_NoDup. Qed.

Lemma others_In : forall N q x, In x (others N q) <-> 0 <= x < Z.of_nat N /\ x <> q.
Proof.
  intros N q x. unfold others. rewrite filter_In, samples_In, negb_true_iff, Z.eqb_neq. tauto.
Qed.

Lemma others_NoDup : forall N q, NoDup (others N q).
Proof. intros N q. apply NoDup_filter, samples_NoDup. Qed.

Lemma zmem_In : forall x l, zmem x l = true <-> In x l.
Proof.
  intros x l. unfold zmem. rewrite existsb_exists. split.
  - intros [y [Hy He]]. apply Z.eqb_eq in He. now subst.
  - intros H. exists x. split; [assumption | apply Z.eqb_refl].
Qed.

Lemma zmem_false : forall x l, zmem x l = false <-> ~ In x l.
Proof.
  intros x l. rewrite <- zmem_In. destruct (zmem x l); split; intros H; congruence.
Qed.

Lemma nodup_b_spec : forall l, nodup_b l = true <-> NoDup l.
Proof.
  induction l as [|x r IH]; cbn [nodup_b].
  - split; [constructor | reflexivity].
  - rewrite andb_true_iff, negb_true_iff, zmem_false, IH. split.
    + intros [H1 H2]. now constructor.
    + intros H. inversion H; subst. now split.
Qed.

Lemma is_knn_knn_of : forall d N q k l,
  is_knn d N q k l <-> knn_of d q (others N q) k l.
Proof.
  intros d N q k l. unfold is_knn, knn_of. split.
  - intros (Hnd & Hlen & Hq & Hrng & Hle). repeat split; try assumption.
    + intros i Hi. apply others_In. split; [now apply Hrng|]. intros ->. now apply Hq.
    + intros i j Hi Hj Hnj. apply others_In in Hj. destruct Hj as [Hj1 Hj2]. now apply Hle.
  - intros (Hnd & Hlen & Hincl & Hle). repeat split; try assumption.
    + intros Hq. apply Hincl, others_In in Hq. now destruct Hq.
    + apply Hincl, others_In in H. lia.
    + apply Hincl, others_In in H. lia.
    + intros i j Hi Hnj Hjq Hj. apply Hle; try assumption. apply others_In. now split.
Qed.

(* ---------- maxdist ---------- *)

Lemma maxdist_ge : forall d q i0 l i, In i l -> d q i <= maxdist d q i0 l.
Proof.
  intros d q i0 l. unfold maxdist. induction l as [|x r IH]; intros i Hi; [destruct Hi|].
  cbn [fold_right]. destruct Hi as [->|Hi]; [lia|]. specialize (IH i Hi). lia.
Qed.

Lemma maxdist_attained : forall d q i0 l,
  maxdist d q i0 l = d q i0 \/ exists i, In i l /\ maxdist d q i0 l = d q i.
Proof.
  intros d q i0 l. unfold maxdist. induction l as [|x r IH]; cbn [fold_right]; [now left|].
  destruct (Z.max_spec (d q x) (fold_right (fun i m => Z.max (d q i) m) (d q i0) r)) as [[_ E]|[_ E]];
    rewrite E.
  - destruct IH as [IH|[i [Hi IH]]]; [now left | right; exists i; split; [now right | assumption]].
  - right. exists x. split; [now left | reflexivity].
Qed.

(* ---------- reflection ---------- *)

Lemma is_knn_b_spec : forall d N q k l, is_knn_b d N q k l = true <-> is_knn d N q k l.
Proof.
  intros d N q k l. unfold is_knn_b, is_knn.
  rewrite !andb_true_iff, nodup_b_spec, Nat.eqb_eq, negb_true_iff, zmem_false, forallb_forall.
  split.
  - intros [[[[Hnd Hlen] Hq] Hrng] Hfar]. repeat split; try assumption.
    + specialize (Hrng i H). apply andb_true_iff in Hrng. destruct Hrng as [H1 _]. lia.
    + specialize (Hrng i H). apply andb_true_iff in Hrng. destruct Hrng as [_ H2]. lia.
    + intros i j Hi Hnj Hjq Hj. destruct l as [|i0 r]; [destruct Hi|].
      rewrite forallb_forall in Hfar. specialize (Hfar j). rewrite samples_In in Hfar.
      specialize (Hfar Hj). rewrite !orb_true_iff in Hfar.
      destruct Hfar as [[Hm|He]|Hm].
      * apply Z.leb_le in Hm. pose proof (maxdist_ge d q i0 (i0 :: r) i Hi). lia.
      * apply Z.eqb_eq in He. contradiction.
      * apply zmem_In in Hm. contradiction.
  - intros (Hnd & Hlen & Hq & Hrng & Hle). repeat split; try assumption.
    + intros i Hi. specialize (Hrng i Hi). apply andb_true_iff. split; lia.
    + destruct l as [|i0 r]; [reflexivity|]. apply forallb_forall. intros j Hj.
      apply samples_In in Hj. rewrite !orb_true_iff.
      destruct (zmem j (i0 :: r)) eqn:Hm; [now right|]. apply zmem_false in Hm.
      destruct (Z.eqb_spec j q) as [Hjq|Hjq]; [left; now right|]. left; left. apply Z.leb_le.
      destruct (maxdist_attained d q i0 (i0 :: r)) as [E|[i [Hi E]]]; rewrite E.
      * apply Hle; try assumption. now left.
      * now apply Hle.
Qed.

(* ---------- insertion sort facts ---------- *)

Lemma insert_by_perm : forall {A} (key : A -> Z) x l, Permutation (x :: l) (insert_by key x l).
Proof.
  intros A key x l. induction l as [|y r IH]; cbn [insert_by]; [reflexivity|].
  destruct (key x <=? key y); [reflexivity|].
  rewrite perm_swap. now constructor.
Qed.

Lemma isort_by_perm : forall {A} (key : A -> Z) l, Permutation l (isort_by key l).
Proof.
  intros A key l. induction l as [|x r IH]; cbn [isort_by]; [constructor|].
  rewrite <- insert_by_perm. now constructor.
Qed.

Definition key_le {A} (key : A -> Z) (a b : A) : Prop := key a <= key b.

Lemma insert_by_sorted : forall {A} (key : A -> Z) x l,
  StronglySorted (key_le key) l -> StronglySorted (key_le key) (insert_by key x l).
Proof.
  intros A key x l Hs. induction Hs as [|y r Hs IH Hall]; cbn [insert_by].
  - constructor; constructor.
  - destruct (Z.leb_spec (key x) (key y)) as [Hlt|Hge].
    + constructor; [now constructor|]. constructor; [unfold key_le; lia|].
      rewrite Forall_forall in *. intros z Hz. specialize (Hall z Hz). unfold key_le in *. lia.
    + constructor; [assumption|]. rewrite Forall_forall in *. intros z Hz.
      apply (Permutation_in _ (Permutation_sym (insert_by_perm key x r))) in Hz.
      destruct Hz as [<-|Hz]; [unfold key_le; lia | now apply Hall].
Qed.

Lemma isort_by_sorted : forall {A} (key : A -> Z) l, StronglySorted (key_le key) (isort_by key l).
Proof.
  intros A key l. induction l as [|x r IH]; cbn [isort_by]; [constructor|].
  now apply insert_by_sorted.
Qed.

Lemma isort_perm : forall l, Permutation l (isort l).
Proof. intros l. apply isort_by_perm. Qed.

Lemma isort_sorted : forall l, StronglySorted Z.le (isort l).
Proof. intros l. apply (isort_by_sorted (fun x : Z => x)). Qed.

(* A sorted list of integers is determined by its multiset. *)
Lemma sorted_perm_unique : forall l1 l2 : list Z,
  StronglySorted Z.le l1 -> StronglySorted Z.le l2 -> Permutation l1 l2 -> l1 = l2.
Proof.
  induction l1 as [|a r1 IH]; intros l2 Hs1 Hs2 Hp.
  - apply Permutation_nil in Hp. now subst.
  - destruct l2 as [|b r2]; [apply Permutation_sym, Permutation_nil in Hp; discriminate|].
    inversion Hs1 as [|? ? Hs1' Hall1]; subst. inversion Hs2 as [|? ? Hs2' Hall2]; subst.
    rewrite Forall_forall in Hall1, Hall2.
    assert (Hab : a = b).
    { assert (Ha : In a (b :: r2)) by (apply (Permutation_in _ Hp); now left).
      assert (Hb : In b (a :: r1)) by (apply (Permutation_in _ (Permutation_sym Hp)); now left).
      destruct Ha as [->|Ha]; [reflexivity|]. destruct Hb as [->|Hb]; [reflexivity|].
      specialize (Hall1 b Hb). specialize (Hall2 a Ha). lia. }
    subst b. f_equal. apply IH; try assumption. now apply Permutation_cons_inv in Hp.
Qed.

Lemma sorted_app : forall l1 l2 : list Z,
  StronglySorted Z.le l1 -> StronglySorted Z.le l2 ->
  (forall x y, In x l1 -> In y l2 -> x <= y) -> StronglySorted Z.le (l1 ++ l2).
Proof.
  induction l1 as [|a r IH]; intros l2 H1 H2 Hle; cbn [app]; [assumption|].
  inversion H1 as [|? ? H1' Hall]; subst. constructor.
  - apply IH; try assumption. intros x y Hx Hy. apply Hle; [now right | assumption].
  - rewrite Forall_forall in *. intros z Hz. apply in_app_or in Hz. destruct Hz as [Hz|Hz].
    + now apply Hall.
    + apply Hle; [now left | assumption].
Qed.

(* ---------- the property's own wording ---------- *)

Lemma NoDup_app_intro : forall (l1 l2 : list Z),
  NoDup l1 -> NoDup l2 -> (forall x, In x l1 -> ~ In x l2) -> NoDup (l1 ++ l2).
Proof.
  induction l1 as [|a r IH]; intros l2 H1 H2 Hd; cbn [app]; [assumption|].
  inversion H1; subst. constructor.
  - rewrite in_app_iff. intros [Ha|Ha]; [contradiction|]. apply (Hd a); [now left | assumption].
  - apply IH; try assumption. intros x Hx. apply Hd. now right.
Qed.

Lemma knn_of_split : forall d q U k l,
  NoDup U -> knn_of d q U k l ->
  Permutation U (l ++ filter (fun x => negb (zmem x l)) U).
Proof.
  intros d q U k l HU (Hnd & _ & Hincl & _).
  apply NoDup_Permutation; [assumption | |].
  - apply NoDup_app_intro; [assumption | now apply NoDup_filter |].
    intros x Hx Hf. apply filter_In in Hf. destruct Hf as [_ Hf].
    apply negb_true_iff, zmem_false in Hf. contradiction.
  - intros x. rewrite in_app_iff, filter_In, negb_true_iff, zmem_false. split.
    + intros Hx. destruct (zmem x l) eqn:Hm.
      * left. now apply zmem_In.
      * right. split; [assumption | now apply zmem_false].
    + intros [Hx|[Hx _]]; [now apply Hincl | assumption].
Qed.

(* The sorted distances to a k-nearest set are the first k of the sorted distances
   to the whole universe. *)
Lemma knn_sorted_dists : forall d q U k l,
  NoDup U -> knn_of d q U k l ->
  dists_sorted d q l = firstn k (dists_sorted d q U).
Proof.
  intros d q U k l HU Hk. pose proof (knn_of_split d q U k l HU Hk) as Hp.
  destruct Hk as (Hnd & Hlen & Hincl & Hle). unfold dists_sorted.
  set (rest := filter (fun x => negb (zmem x l)) U) in *.
  assert (E : isort (map (d q) U) = isort (map (d q) l) ++ isort (map (d q) rest)).
  { apply sorted_perm_unique.
    - apply isort_sorted.
    - apply sorted_app; try apply isort_sorted.
      intros x y Hx Hy.
      apply (Permutation_in _ (Permutation_sym (isort_perm _))) in Hx.
      apply (Permutation_in _ (Permutation_sym (isort_perm _))) in Hy.
      apply in_map_iff in Hx. destruct Hx as [i [<- Hi]].
      apply in_map_iff in Hy. destruct Hy as [j [<- Hj]].
      unfold rest in Hj. apply filter_In in Hj. destruct Hj as [Hj Hnj].
      apply negb_true_iff, zmem_false in Hnj. now apply Hle.
    - rewrite <- (isort_perm (map (d q) U)), <- (isort_perm (map (d q) l)),
        <- (isort_perm (map (d q) rest)), <- map_app. now apply Permutation_map. }
  rewrite E.
  assert (Hl : length (isort (map (d q) l)) = k).
  { rewrite <- (Permutation_length (isort_perm _)), map_length. assumption. }
  rewrite firstn_app, Hl, Nat.sub_diag. cbn [firstn]. rewrite app_nil_r.
  rewrite <- Hl at 1. now rewrite firstn_all.
Qed.

(* The property's statement for one row, in its own words. *)
Lemma is_knn_sorted_dists : forall d N q k l,
  is_knn d N q k l ->
  dists_sorted d q l = firstn k (dists_sorted d q (others N q)).
Proof.
  intros d N q k l H. apply knn_sorted_dists; [apply others_NoDup | now apply is_knn_knn_of].
Qed.

(* Two k-nearest sets of the same row have the same distance multiset: the three
   methods "agree on every neighbour-distance multiset". *)
Lemma is_knn_agree : forall d N q k l1 l2,
  is_knn d N q k l1 -> is_knn d N q k l2 -> dists_sorted d q l1 = dists_sorted d q l2.
Proof.
  intros d N q k l1 l2 H1 H2.
  rewrite (is_knn_sorted_dists _ _ _ _ _ H1), (is_knn_sorted_dists _ _ _ _ _ H2). reflexivity.
Qed.

(* ---------- from "k+1 nearest of everybody, query among them" to "k nearest others" ----- *)

Lemma remove_length_NoDup : forall (l : list Z) x,
  NoDup l -> In x l -> S (length (remove Z.eq_dec x l)) = length l.
Proof.
  induction l as [|a r IH]; intros x Hnd Hin; [destruct Hin|].
  inversion Hnd; subst. cbn [remove]. destruct (Z.eq_dec x a) as [->|Hne].
  - rewrite notin_remove; [reflexivity | assumption].
  - cbn [length]. f_equal. apply IH; [assumption|]. destruct Hin as [->|Hin]; [contradiction | assumption].
Qed.

Lemma NoDup_remove_Z : forall (l : list Z) x, NoDup l -> NoDup (remove Z.eq_dec x l).
Proof.
  induction l as [|a r IH]; intros x Hnd; cbn [remove]; [constructor|].
  inversion Hnd; subst. destruct (Z.eq_dec x a); [now apply IH|].
  constructor; [|now apply IH]. intros Hin. apply in_remove in Hin. now destruct Hin.
Qed.

Lemma knn_of_remove : forall d q U k l x,
  knn_of d q U (S k) l -> In x l ->
  knn_of d q (remove Z.eq_dec x U) k (remove Z.eq_dec x l).
Proof.
  intros d q U k l x (Hnd & Hlen & Hincl & Hle) Hx. repeat split.
  - now apply NoDup_remove_Z.
  - pose proof (remove_length_NoDup l x Hnd Hx). lia.
  - intros i Hi. apply in_remove in Hi. destruct Hi as [Hi Hne]. apply in_in_remove; [assumption|].
    now apply Hincl.
  - intros i j Hi Hj Hnj. apply in_remove in Hi. destruct Hi as [Hi _].
    apply in_remove in Hj. destruct Hj as [Hj Hjx]. apply Hle; try assumption.
    intros Hjl. apply Hnj. now apply in_in_remove.
Qed.

Lemma remove_filter_neq : forall (l : list Z) x,
  remove Z.eq_dec x l = filter (fun j => negb (j =? x)) l.
Proof.
  induction l as [|a r IH]; intros x; cbn [remove filter]; [reflexivity|].
  destruct (Z.eq_dec x a) as [->|Hne].
  - rewrite Z.eqb_refl. cbn [negb]. apply IH.
  - destruct (Z.eqb_spec a x) as [->|_]; [contradiction|]. cbn [negb]. f_equal. apply IH.
Qed.

Lemma others_remove : forall N q, others N q = remove Z.eq_dec q (samples N).
Proof. intros N q. unfold others. now rewrite remove_filter_neq. Qed.

(* If q is not among a (k+1)-nearest set of ALL samples then at least k+1 others
   are at least as close to q as q itself (coincident samples). *)
Lemma knn_of_self_in : forall d N q k l,
  0 <= q < Z.of_nat N ->
  knn_of d q (samples N) (S k) l ->
  (length (filter (fun j => (d q j <=? d q q)%Z) (others N q)) <= k)%nat ->
  In q l.
Proof.
  intros d N q k l Hq (Hnd & Hlen & Hincl & Hle) Hcnt.
  destruct (in_dec Z.eq_dec q l) as [Hin|Hnin]; [assumption|exfalso].
  assert (Hsub : incl l (filter (fun j => d q j <=? d q q) (others N q))).
  { intros i Hi. apply filter_In. split.
    - apply others_In. split; [now apply samples_In, Hincl|]. intros ->. contradiction.
    - apply Z.leb_le. apply Hle; try assumption. now apply samples_In. }
  pose proof (NoDup_incl_length Hnd Hsub). lia.
Qed.

(* ---------- more facts about sorted lists ---------- *)

Lemma sorted_firstn_skipn_le : forall {A} (key : A -> Z) (l : list A) n x y,
  StronglySorted (key_le key) l -> In x (firstn n l) -> In y (skipn n l) -> key x <= key y.
Proof.
  intros A key. induction l as [|a r IH]; intros n x y Hs Hx Hy.
  - rewrite firstn_nil in Hx. destruct Hx.
  - destruct n as [|n]; [destruct Hx|]. cbn [firstn skipn] in *.
    inversion Hs as [|? ? Hs' Hall]; subst. destruct Hx as [<-|Hx].
    + rewrite Forall_forall in Hall. apply (Hall y).
      rewrite <- (firstn_skipn n r). apply in_or_app. now right.
    + now apply (IH n).
Qed.

Lemma NoDup_firstn_Z : forall (l : list Z) n, NoDup l -> NoDup (firstn n l).
Proof.
  induction l as [|a r IH]; intros n H; [rewrite firstn_nil; constructor|].
  destruct n as [|n]; cbn [firstn]; [constructor|]. inversion H; subst. constructor; [|now apply IH].
  intros Hin. apply H2. rewrite <- (firstn_skipn n r). apply in_or_app. now left.
Qed.

(* ---------- a decision procedure for "d is a metric on the samples" (used by the
   examples and, for small N, by the extracted driver on the harness's matrices) ------- *)

Definition in_range (N : nat) (x : Z) : Prop := 0 <= x < Z.of_nat N.

Definition metric_b (d : dist) (N : nat) : bool :=
  forallb (fun x => forallb (fun y =>
     (d x y =? d y x) &&
     forallb (fun z => d x z <=? d x y + d y z) (samples N)) (samples N)) (samples N).

Lemma metric_b_sound : forall d N, metric_b d N = true -> metric_on (in_range N) d.
Proof.
  intros d N H. unfold metric_b in H. rewrite forallb_forall in H. split.
  - intros x y Hx Hy. apply samples_In in Hx. apply samples_In in Hy.
    specialize (H x Hx). rewrite forallb_forall in H. specialize (H y Hy).
    apply andb_true_iff in H. destruct H as [H _]. now apply Z.eqb_eq.
  - intros x y z Hx Hy Hz. apply samples_In in Hx. apply samples_In in Hy. apply samples_In in Hz.
    specialize (H x Hx). rewrite forallb_forall in H. specialize (H y Hy).
    apply andb_true_iff in H. destruct H as [_ H]. rewrite forallb_forall in H.
    specialize (H z Hz). now apply Z.leb_le.
Qed.
