(* ====================================================================== *)
(*  Cli_Model.v — executable model of the tapkee command line tool         *)
(*  (src/cli/main.cpp, src/cli/util.hpp).  NO proofs here.                 *)
(*                                                                         *)
(*  Part A  option table / expressions over parsed options / early exits / *)
(*          kwargs wiring: the TYPES of the tables that translate/t_cli.py *)
(*          regenerates into coq/gen/Cli.v from the current tree, and      *)
(*          their semantics  cli_decide : tables -> args -> outcome        *)
(*          (what run() + main() do up to the library call).               *)
(*  Part B  read_data / write_matrix / write_vector / transposeInPlace as  *)
(*          functions on strings (the file content).  Number parsing       *)
(*          (`istream >> double`) and printing (`ostream << double`) are   *)
(*          oracles: Section variables `parse` / `print`.                  *)
(*  Part C  matrix_from_callback (the --precompute tables).                *)
(*  Part D  with_default(): the default a numeric option really gets       *)
(*          (std::to_string keeps 6 decimals).                             *)
(*                                                                         *)
(*  Numbers.  Option values are decimal literals; they are modelled as     *)
(*  exact rationals (Q).  The CLI only compares them with 0 / 3 and hands  *)
(*  them through unchanged, so the double rounding of a literal is         *)
(*  irrelevant to everything stated here.                                  *)
(* ====================================================================== *)
From Coq Require Import String Ascii List ZArith QArith Bool Arith.
Import ListNotations.
Local Close Scope Q_scope.
Local Open Scope nat_scope.
Local Open Scope string_scope.

(* ---------------------------------------------------------------------- *)
(*  Part A.  tables                                                       *)
(* ---------------------------------------------------------------------- *)

Inductive oty := TStr | TInt | TDbl.

(* expression over the parsed command line (cxxopts::ParseResult opt) *)
Inductive wexpr :=
| WAs (opt : string) (t : oty)        (* opt["o"].as<T>()                         *)
| WCount (opt : string)               (* opt.count("o")   (used as a bool)        *)
| WNot (e : wexpr)                    (* !e                                       *)
| WAnd (a b : wexpr)                  (* a && b                                   *)
| WLit (s : string)                   (* C++ literal: true / false / integer      *)
| WName (map : string) (e : wexpr)    (* parse_multiple(MAP, e)                   *)
| WIndex0 (e : wexpr)                 (* e[0]                                     *)
| WOther (text : string).             (* something the translator cannot read     *)

(* what with_default(x) was given in the source; flags have no value *)
Inductive odefault :=
| DFlag
| DStr (s : string)
| DInt (z : Z)
| DDbl (q : Q).

Record odecl := { o_names : list string;      (* every spelling, first = as written first *)
                  o_default : odefault }.

Inductive cmp := CLe | CLt | CGe | CGt | CEq | CNe.

Inductive xtest :=
| XIf (e : wexpr)                             (* if (e) return c;                        *)
| XUnknown (map : string) (e : wexpr)         (* try { parse_multiple(MAP,e) } catch -> return c *)
| XCmpZ (e : wexpr) (c : cmp) (k : Z)         (* if (e <c> k) return c   (int)           *)
| XCmpQ (e : wexpr) (c : cmp) (k : Q)         (* if (e <c> k) return c   (double)        *)
| XOther (text : string).

Record xexit := { x_test : xtest; x_code : Z }.

(* how with_default turns a numeric default into the string cxxopts parses *)
Inductive dfmt :=
| FmtToString        (* std::to_string(defs): "%f", six decimals *)
| FmtShortest        (* fmt::format("{}", defs): shortest round-trip representation *)
| FmtOther (s : string).

Record tables := {
  t_options : list odecl;
  t_numfmt  : dfmt;
  t_maps    : list (string * list (string * string));   (* MAP name -> (spelling -> C++ enumerator) *)
  t_exits   : list xexit;                                (* in source order *)
  t_wiring  : list (string * wexpr);                     (* tapkee::<keyword> = <expr> *)
  t_io      : list (string * wexpr);                     (* role -> expr (files, delimiter, transposition) *)
  t_catch   : list Z                                     (* return codes of main()'s catch handlers *)
}.

(* ---------------- values and the abstract command line ---------------- *)

Inductive value :=
| VBool (b : bool) | VInt (z : Z) | VDbl (q : Q) | VStr (s : string)
| VEnum (id : string) | VChar (c : option ascii).

(* one given option: the spelling used on the command line (without dashes) and what follows.
   The two numeric readings of the token are ORACLES (cxxopts' integer_parser and
   `stringstream >> double`): None = that parser throws incorrect_argument_type.
   Flags are given without `=value` (a `--flag=text` form is outside this abstraction). *)
Inductive aval :=
| AFlag                                                (* no value *)
| AVal (raw : string) (zi : option Z) (qd : option Q). (* the token, its int reading, its double reading *)

Definition args := list (string * aval).

Inductive ev := EV (v : value) | EExc | EStuck.

Inductive outcome :=
| Exit (code : Z)
| Run (params : list (string * value)) (io : list (string * value))
| Stuck.                (* the tables contain something the model cannot interpret *)

(* ---------------- lookups ---------------- *)

Fixpoint assoc {A} (k : string) (l : list (string * A)) : option A :=
  match l with
  | [] => None
  | (k', v) :: r => if String.eqb k k' then Some v else assoc k r
  end.

(* the std::map<string, enumerator>::find of parse_multiple (its own name so that proofs can keep it folded) *)
Definition lookup_name (s : string) (tbl : list (string * string)) : option string := assoc s tbl.

Fixpoint mem (k : string) (l : list string) : bool :=
  match l with [] => false | x :: r => String.eqb k x || mem k r end.

Fixpoint find_decl (name : string) (ds : list odecl) : option odecl :=
  match ds with
  | [] => None
  | d :: r => if mem name (o_names d) then Some d else find_decl name r
  end.

(* the LAST occurrence of any spelling of the option wins (cxxopts re-parses the value) *)
Fixpoint given (names : list string) (a : args) : option aval :=
  match a with
  | [] => None
  | (n, v) :: r => match given names r with
                   | Some w => Some w
                   | None => if mem n names then Some v else None
                   end
  end.

(* ---------------- Part D: numeric defaults ---------------- *)

(* round to nearest multiple of 10^-6, ties away from zero irrelevant for the literals used *)
Definition round6 (q : Q) : Q :=
  let scaled := (q * (1000000 # 1))%Q in
  let n := Qnum scaled in
  let d := Zpos (Qden scaled) in
  (((2 * n + d) / (2 * d))%Z # 1000000)%Q.

Definition num_default (f : dfmt) (q : Q) : option Q :=
  match f with
  | FmtToString => Some (round6 q)
  | FmtShortest => Some q
  | FmtOther _ => None
  end.

(* ---------------- typing of a given value against the declaration ---------------- *)

(* options.parse(argc, argv): throws on an unknown option and on a value that does not parse *)
Definition arg_ok (ds : list odecl) (na : string * aval) : bool :=
  match find_decl (fst na) ds with
  | None => false
  | Some d =>
    match o_default d, snd na with
    | DFlag, AFlag => true
    | DStr _, AVal _ _ _ => true
    | DInt _, AVal _ (Some _) _ => true
    | DDbl _, AVal _ _ (Some _) => true
    | _, _ => false
    end
  end.

Definition args_ok (ds : list odecl) (a : args) : bool := forallb (arg_ok ds) a.

(* everything below sees the command line only through this view *)
Definition view := list string -> option aval.

(* what the parsed command line says about one option (all spellings `names`):
   the last value given, else the default; None = the given text is not of that type
   (cxxopts throws incorrect_argument_type / as<T>() throws) *)
Definition flag (g : view) (names : list string) : bool :=
  match g names with Some _ => true | None => false end.

Definition str_of (g : view) (names : list string) (dflt : string) : option string :=
  match g names with None => Some dflt | Some (AVal s _ _) => Some s | Some AFlag => None end.

Definition int_of (g : view) (names : list string) (dflt : Z) : option Z :=
  match g names with None => Some dflt | Some (AVal _ (Some z) _) => Some z | Some _ => None end.

Definition dbl_of (g : view) (names : list string) (dflt : Q) : option Q :=
  match g names with None => Some dflt | Some (AVal _ _ (Some q)) => Some q | Some _ => None end.

Definition opt_value (T : tables) (g : view) (o : string) (t : oty) : ev :=
  match find_decl o (t_options T) with
  | None => EExc                              (* cxxopts: option not present -> throws *)
  | Some d =>
    match o_default d, t with
    | DStr s, TStr => match str_of g (o_names d) s with Some x => EV (VStr x) | None => EExc end
    | DInt z, TInt => match int_of g (o_names d) z with Some x => EV (VInt x) | None => EExc end
    | DDbl q, TDbl => match num_default (t_numfmt T) q with
                      | Some q' => match dbl_of g (o_names d) q' with Some x => EV (VDbl x) | None => EExc end
                      | None => EStuck
                      end
    | _, _ => EExc                            (* as<T>() with the wrong T: std::bad_cast *)
    end
  end.

Definition opt_count (T : tables) (g : view) (o : string) : ev :=
  match find_decl o (t_options T) with
  | None => EV (VBool false)
  | Some d => EV (VBool (flag g (o_names d)))
  end.

Definition is_digit (c : ascii) : bool :=
  let n := nat_of_ascii c in Nat.leb 48 n && Nat.leb n 57.

Fixpoint all_digits (s : string) : bool :=
  match s with EmptyString => true | String c r => is_digit c && all_digits r end.

Fixpoint digits_val (s : string) (acc : Z) : Z :=
  match s with
  | EmptyString => acc
  | String c r => digits_val r (10 * acc + Z.of_nat (nat_of_ascii c - 48))%Z
  end.

Definition lit_value (s : string) : ev :=
  if String.eqb s "true" then EV (VBool true)
  else if String.eqb s "false" then EV (VBool false)
  else match s with
       | EmptyString => EStuck
       | _ => if all_digits s then EV (VInt (digits_val s 0%Z)) else EStuck
       end.

Fixpoint eval (T : tables) (g : view) (e : wexpr) : ev :=
  match e with
  | WAs o t => opt_value T g o t
  | WCount o => opt_count T g o
  | WNot x => match eval T g x with EV (VBool b) => EV (VBool (negb b)) | EV _ => EStuck | r => r end
  | WAnd x y => match eval T g x, eval T g y with
                | EV (VBool b), EV (VBool c) => EV (VBool (b && c))
                | EExc, _ => EExc
                | EV (VBool _), EExc => EExc
                | _, _ => EStuck
                end
  | WLit s => lit_value s
  | WName m x => match eval T g x with
                 | EV (VStr s) => match assoc m (t_maps T) with
                                  | None => EStuck
                                  | Some tbl => match lookup_name s tbl with
                                                | Some id => EV (VEnum id)
                                                | None => EExc           (* parse_multiple throws *)
                                                end
                                  end
                 | EV _ => EStuck
                 | r => r
                 end
  | WIndex0 x => match eval T g x with
                 | EV (VStr EmptyString) => EV (VChar None)              (* s[0] of "" is NUL *)
                 | EV (VStr (String c _)) => EV (VChar (Some c))
                 | EV _ => EStuck
                 | r => r
                 end
  | WOther _ => EStuck
  end.

Definition cmpZ (c : cmp) (x k : Z) : bool :=
  match c with
  | CLe => (x <=? k)%Z | CLt => (x <? k)%Z | CGe => (k <=? x)%Z | CGt => (k <? x)%Z
  | CEq => (x =? k)%Z | CNe => negb (x =? k)%Z
  end.

Definition Qltb (x y : Q) : bool := negb (Qle_bool y x).

Definition cmpQ (c : cmp) (x k : Q) : bool :=
  match c with
  | CLe => Qle_bool x k | CLt => Qltb x k | CGe => Qle_bool k x | CGt => Qltb k x
  | CEq => Qeq_bool x k | CNe => negb (Qeq_bool x k)
  end.

(* does this early-exit test fire?  Some true / Some false / None = stuck ;
   an exception inside a test leaves run() through main()'s handler: modelled as firing *)
Inductive fire := Fires | Passes | Throws | FStuck.

Definition test_fires (T : tables) (g : view) (t : xtest) : fire :=
  match t with
  | XIf e => match eval T g e with
             | EV (VBool true) => Fires | EV (VBool false) => Passes
             | EExc => Throws | _ => FStuck end
  | XUnknown m e => match eval T g (WName m e) with
                    | EV _ => Passes | EExc => Fires | EStuck => FStuck end
  | XCmpZ e c k => match eval T g e with
                   | EV (VInt z) => if cmpZ c z k then Fires else Passes
                   | EExc => Throws | _ => FStuck end
  | XCmpQ e c k => match eval T g e with
                   | EV (VDbl q) => if cmpQ c q k then Fires else Passes
                   | EExc => Throws | _ => FStuck end
  | XOther _ => FStuck
  end.

Definition catch_code (T : tables) : Z := match t_catch T with c :: _ => c | [] => 0%Z end.

Fixpoint first_exit (T : tables) (g : view) (xs : list xexit) : option outcome :=
  match xs with
  | [] => None
  | x :: r => match test_fires T g (x_test x) with
              | Fires => Some (Exit (x_code x))
              | Throws => Some (Exit (catch_code T))
              | FStuck => Some Stuck
              | Passes => first_exit T g r
              end
  end.

Fixpoint eval_all (T : tables) (g : view) (l : list (string * wexpr))
  : option (option (list (string * value))) :=     (* None = stuck, Some None = exception *)
  match l with
  | [] => Some (Some [])
  | (k, e) :: r =>
    match eval T g e with
    | EStuck => None
    | EExc => Some None
    | EV v => match eval_all T g r with
              | Some (Some vs) => Some (Some ((k, v) :: vs))
              | o => o
              end
    end
  end.

(* run() up to the library call, wrapped in main()'s try/catch.
   `ok` = options.parse() did not throw; `g names` = the last value given under any of the spellings *)
Definition decide_view (T : tables) (ok : bool) (g : view) : outcome :=
  if negb ok then Exit (catch_code T)
  else match first_exit T g (t_exits T) with
       | Some o => o
       | None =>
         match eval_all T g (t_wiring T), eval_all T g (t_io T) with
         | Some (Some ps), Some (Some io) => Run ps io
         | None, _ | _, None => Stuck
         | _, _ => Exit (catch_code T)
         end
       end.

Definition view_of (a : args) : view := fun names => given names a.

Definition cli_decide (T : tables) (a : args) : outcome :=
  decide_view T (args_ok (t_options T) a) (view_of a).

(* ---------------------------------------------------------------------- *)
(*  Part B.  files                                                        *)
(* ---------------------------------------------------------------------- *)

Definition nl : ascii := ascii_of_nat 10.

(* pieces between occurrences of d, the piece after the last d included *)
Fixpoint split (d : ascii) (s : string) : list string :=
  match s with
  | EmptyString => [EmptyString]
  | String c r =>
    if Ascii.eqb c d then EmptyString :: split d r
    else match split d r with
         | t :: ts => String c t :: ts
         | [] => [String c EmptyString]
         end
  end.

Definition is_empty (s : string) : bool := match s with EmptyString => true | _ => false end.

Fixpoint drop_last_empty (l : list string) : list string :=
  match l with
  | [] => []
  | [x] => if is_empty x then [] else [x]
  | x :: r => x :: drop_last_empty r
  end.

(* `while (ss) { if (!getline(ss, tok, d)) break; ... }` : a final empty piece is never produced *)
Definition tokens (d : ascii) (line : string) : list string := drop_last_empty (split d line).

Fixpoint last_str (l : list string) : string :=
  match l with [] => EmptyString | [x] => x | _ :: r => last_str r end.

(* SHIPPED line loop:  while (ifs) { getline(ifs, str); ... }
   after the last piece was read up to EOF without a newline the stream is still good, the next
   getline fails in its sentry and leaves `str` untouched: the last line is processed twice *)
Definition lines_shipped (content : string) : list string :=
  let ps := split nl content in
  if is_empty (last_str ps) then ps else ps ++ [last_str ps].

(* REPAIRED line loop:  while (getline(ifs, str)) { ... } *)
Definition lines_fixed (content : string) : list string := drop_last_empty (split nl content).

Fixpoint filter_map {A B} (f : A -> option B) (l : list A) : list B :=
  match l with
  | [] => []
  | x :: r => match f x with Some y => y :: filter_map f r | None => filter_map f r end
  end.

Fixpoint join (d : ascii) (l : list string) : string :=
  match l with
  | [] => EmptyString
  | [x] => x
  | x :: r => x ++ String d (join d r)
  end.

Section IO.
  Variable V : Type.
  Variable parse : string -> option V.     (* istringstream(tok) >> value  succeeded with this value *)
  Variable print : V -> string.            (* ostream << value *)

  Inductive rres :=
  | RMat (rows : list (list V))            (* DenseMatrix(rows, cols) filled row by row; [] = 0x0 *)
  | RWrong (line : nat).                   (* throw runtime_error("Wrong data at line i") *)

  Definition parse_row (d : ascii) (line : string) : list V := filter_map parse (tokens d line).

  Definition parse_rows (d : ascii) (ls : list string) : list (list V) :=
    map (parse_row d) (filter (fun l => negb (is_empty l)) ls).

  Fixpoint first_bad (c : nat) (i : nat) (rows : list (list V)) : option nat :=
    match rows with
    | [] => None
    | r :: rest => if Nat.eqb (length r) c then first_bad c (S i) rest else Some i
    end.

  Definition to_matrix (rows : list (list V)) : rres :=
    match rows with
    | [] => RMat []
    | r0 :: _ => match first_bad (length r0) 0 rows with
                 | Some i => RWrong i
                 | None => RMat rows
                 end
    end.

  (* VARIANT (not the shipped code; kept as a regression model): the values of all lines in one flat
     row-major buffer, the column count taken from the first line, ONE test `#values = #lines * columns`
     and the buffer cut into rows of `columns` values (Eigen::Map<RowMajor>(data, rows, cols)) *)
  Fixpoint chunks (c n : nat) (l : list V) : list (list V) :=
    match n with
    | 0 => []
    | S n' => firstn c l :: chunks c n' (skipn c l)
    end.

  Definition to_matrix_total (rows : list (list V)) : rres :=
    match rows with
    | [] => RMat []
    | r0 :: _ =>
      let flat := concat rows in
      if Nat.eqb (length flat) (length rows * length r0)
      then RMat (chunks (length r0) (length rows) flat)
      else RWrong (length rows)
    end.

  Definition read_data_shipped (d : ascii) (content : string) : rres :=
    to_matrix (parse_rows d (lines_shipped content)).

  Definition read_data_fixed (d : ascii) (content : string) : rres :=
    to_matrix (parse_rows d (lines_fixed content)).

  Definition write_row (d : ascii) (r : list V) : string := join d (map print r) ++ String nl EmptyString.

  Definition write_matrix (d : ascii) (m : list (list V)) : string := String.concat "" (map (write_row d) m).

  Definition write_vector (v : list V) : string :=
    String.concat "" (map (fun x => print x ++ String nl EmptyString) v).

  (* Eigen transposeInPlace on a rows x c matrix kept as a list of rows *)
  Definition col (j : nat) (m : list (list V)) : list V := filter_map (fun r => nth_error r j) m.

  Definition width (m : list (list V)) : nat := match m with [] => 0 | r :: _ => length r end.

  Definition transpose (m : list (list V)) : list (list V) := map (fun j => col j m) (seq 0 (width m)).

  (* the feature matrix handed to the library has one COLUMN per sample:
     main.cpp transposes unless --transpose-input *)
  Definition cli_features (transpose_input : bool) (file : list (list V)) : list (list V) :=
    if transpose_input then file else transpose file.

  (* sample i as the library sees it *)
  Definition sample (i : nat) (features : list (list V)) : list V := col i features.

  (* embedding = N x d (one row per sample); transposed with --transpose-output *)
  Definition cli_output (d : ascii) (transpose_output : bool) (embedding : list (list V)) : string :=
    write_matrix d (if transpose_output then transpose embedding else embedding).
End IO.

Arguments RMat {V}. Arguments RWrong {V}.

(* ---------------------------------------------------------------------- *)
(*  Part B'.  main(): decide, read, transpose, call the library, write     *)
(* ---------------------------------------------------------------------- *)
Inductive read_loop := LoopGetline | LoopStreamThenGetline | LoopOther.

(* the rest of read_data's shape (translate/t_cli.py compares the canonical text of the function):
   CheckEveryRow   = one vector per non-empty line holding the tokens that parse, then a
                     rows x row0.size() matrix filled row by row, `if (row_i.size() != cols) throw`
                     for every i                                        (to_matrix)
   CheckTotalCount = flat buffer + one aggregate test                  (to_matrix_total)
   CheckOther      = anything else *)
Inductive read_check := CheckEveryRow | CheckTotalCount | CheckOther (text : string).

Section Main.
  Variable V : Type.
  Variable parse : string -> option V.
  Variable print : V -> string.
  (* the library: parameters, "tables are precomputed", feature matrix (one column per sample)
     -> None (an exception leaves run()) | embedding (one row per sample) and, for the linear
     methods, projection matrix and mean *)
  (* The feature matrix is kept as its list of rows (one row per dimension); a matrix with NO rows still has
     a number of columns in Eigen (a file whose lines hold no number at all is N samples of dimension 0), so
     the number of samples is handed over separately. *)
  Variable lib : list (string * value) -> bool -> nat -> list (list V)
                 -> option (list (list V) * option (list (list V) * list V)).

  Record files := { f_embedding : string; f_matrix : option string; f_mean : option string }.

  Inductive result :=
  | Done (code : Z) (out : files)
  | Fail (code : Z)
  | MStuck.

  Definition io_bool (io : list (string * value)) (k : string) : option bool :=
    match assoc k io with Some (VBool b) => Some b | _ => None end.

  Definition io_char (io : list (string * value)) (k : string) : option ascii :=
    match assoc k io with
    | Some (VChar (Some c)) => Some c
    | Some (VChar None) => Some zero               (* delimiter[0] of "" is the terminating NUL *)
    | _ => None
    end.

  Definition lines_with (l : read_loop) (content : string) : option (list string) :=
    match l with
    | LoopGetline => Some (lines_fixed content)
    | LoopStreamThenGetline => Some (lines_shipped content)
    | LoopOther => None
    end.

  Definition to_matrix_with (c : read_check) (rows : list (list V)) : option (rres V) :=
    match c with
    | CheckEveryRow => Some (to_matrix V rows)
    | CheckTotalCount => Some (to_matrix_total V rows)
    | CheckOther _ => None
    end.

  Definition read_with (l : read_loop) (c : read_check) (d : ascii) (content : string) : option (rres V) :=
    match lines_with l content with
    | Some ls => to_matrix_with c (parse_rows V parse d ls)
    | None => None
    end.

  Definition cli_main (T : tables) (l : read_loop) (c : read_check) (a : args) (content : string) : result :=
    match cli_decide T a with
    | Exit c => Fail c
    | Stuck => MStuck
    | Run ps io =>
      match io_char io "delimiter_read", io_char io "delimiter_write", io_char io "delimiter_projection",
            io_bool io "transpose_input_when", io_bool io "transpose_output_when",
            io_bool io "precompute_when", io_bool io "write_projection_when" with
      | Some dr, Some dw, Some dp, Some tin, Some tout, Some pre, Some wproj =>
        match read_with l c dr content with
        | None => MStuck
        | Some (RWrong _) => Fail (catch_code T)            (* runtime_error -> main()'s handler *)
        | Some (RMat file) =>
          let features := if tin then transpose V file else file in
          let nsamples := if tin then length file else width V file in
          match lib ps pre nsamples features with
          | None => Fail (catch_code T)
          | Some (E, proj) =>
            let out := write_matrix V print dw (if tout then transpose V E else E) in
            match (if wproj then proj else None) with
            | Some (pm, mean) =>
              Done 0%Z {| f_embedding := out; f_matrix := Some (write_matrix V print dp pm);
                          f_mean := Some (write_vector V print mean) |}
            | None => Done 0%Z {| f_embedding := out; f_matrix := None; f_mean := None |}
            end
          end
        end
      | _, _, _, _, _, _, _ => MStuck
      end
    end.
End Main.

(* ---------------------------------------------------------------------- *)
(*  Part C.  matrix_from_callback (util.hpp) and the precomputed callbacks *)
(* ---------------------------------------------------------------------- *)
(* shape of matrix_from_callback as translate/t_cli.py reads it *)
Inductive mfc_init := InitUninit | InitZero.
Inductive mfc_shape := MfcLoops (init : mfc_init) (off : nat) | MfcOther (text : string).

Section Precompute.
  Variable S : Type.                                   (* ScalarType *)
  Variable cb : nat -> nat -> S.                       (* the direct callback (distance or kernel) *)

  (* the assignments, in loop order:  for i in 0..N-1, for j in i..N-1:
        result(i,j) = res; result(j,i) = res;   with res = callback(i,j) *)
  Definition writes (N : nat) : list ((nat * nat) * S) :=
    flat_map (fun i => flat_map (fun j => [((i, j), cb i j); ((j, i), cb i j)]) (seq i (N - i)))
             (seq 0 N).

  Definition table := nat -> nat -> option S.          (* None = never written *)

  Definition upd (t : table) (w : (nat * nat) * S) : table :=
    fun a b => if Nat.eqb a (fst (fst w)) && Nat.eqb b (snd (fst w)) then Some (snd w) else t a b.

  Definition matrix_from_callback (N : nat) : table := fold_left upd (writes N) (fun _ _ => None).

  (* the same loops with the two things an edit of the function can change: the initial content of
     `result` and the first column visited in row i (`for (j = i + off; ...)`) *)
  Definition writes_from (off N : nat) : list ((nat * nat) * S) :=
    flat_map (fun i => flat_map (fun j => [((i, j), cb i j); ((j, i), cb i j)]) (seq (i + off) (N - (i + off))))
             (seq 0 N).

  Definition mfc_with (init : table) (off N : nat) : table := fold_left upd (writes_from off N) init.

  Definition mfc_of_shape (zero : S) (sh : mfc_shape) (N : nat) : option table :=
    match sh with
    | MfcLoops InitUninit off => Some (mfc_with (fun _ _ => None) off N)
    | MfcLoops InitZero off =>
      Some (mfc_with (fun a b => if Nat.ltb a N && Nat.ltb b N then Some zero else None) off N)
    | MfcOther _ => None
    end.

  (* precomputed_*_callback: table(a, b); the table is only built when the method's trait asks for it *)
  Definition precomputed (needed : bool) (N : nat) : table :=
    if needed then matrix_from_callback N else (fun _ _ => None).
End Precompute.
