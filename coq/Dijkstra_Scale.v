(* Dijkstra_Scale.v — scale equivariance of property C04.

   Why.  The correspondence run feeds weight tables multiplied by powers of two (2^-70 .. 2^70; exact in
   binary64) to the real code and runs the models on the INTEGER table: that is legitimate only because
   the specification and the (correct) algorithm commute with a change of the unit of length.  This
   file proves it, and thereby states the theorem that an ABSOLUTE tolerance anywhere in the
   relax / pop / stale-entry comparisons falsifies (seeded change C04_1_r2: `cur - dist > 1e-12`
   instead of `dist < cur`): for every c > 0

       shortest paths of (c * w)            =  c * shortest paths of w              (sp_row_scale)
       compute_shortest_distances_matrix,
         both overloads, both heap builds,
         abstract queue and concrete heap,
         on c * w                           =  c * (its result on w)                (full_matrix_scale, ...)
       what embed() hands to the solver,
         from geodesics c * G               =  c^2 * (what it hands from G)         (iso_fixed_scale)
       oracle contract for (B, V, lam, s)   -> contract for (c^2 B, V, c^2 lam, c s),
         and the returned embedding is c * Y                                        (embed_contract_scale)

   The first part is over Z (the model's numbers; c a positive integer = a finer unit), the second over
   the abstract field of Mat_Core (closed at Qc in Properties_C04.v).  No axioms. *)
From Coq Require Import List ZArith Bool Arith Lia Field Ring.
From TK Require Import Mat_Sums Mat_Core.
From TK Require Import Dijkstra_Model Dijkstra_Spec Dijkstra_IsoModel Dijkstra_IsoEmbed Dijkstra_FibC_Model
     Dijkstra_Proof_Base Dijkstra_Proof Dijkstra_Proof_FibC.
Import ListNotations.

(* ------------------------------------------------------------------------------------------ *)
(* Part A: shortest paths                                                                      *)
(* ------------------------------------------------------------------------------------------ *)
Local Open Scope Z_scope.

Definition scale_w (c : Z) (w : nat -> nat -> Z) : nat -> nat -> Z := fun u v => c * w u v.
Definition scale_o (c : Z) (o : option Z) : option Z := option_map (Z.mul c) o.
Definition scale_row (c : Z) (r : list (option Z)) : list (option Z) := map (scale_o c) r.
Definition scale_mat (c : Z) (m : list (list (option Z))) : list (list (option Z)) := map (scale_row c) m.

Lemma nth_scale_row : forall c l i, nth i (scale_row c l) None = scale_o c (nth i l None).
Proof.
  intros c l i. unfold scale_row. change None with (scale_o c None) at 1. apply map_nth.
Qed.

Lemma set_nth_scale_row : forall c l i x,
    set_nth (scale_row c l) i (scale_o c x) = scale_row c (set_nth l i x).
Proof.
  intros c l. induction l as [|h t IH]; intros i x; [reflexivity|].
  destruct i as [|j]; cbn [set_nth scale_row map]; [reflexivity|].
  f_equal. apply IH.
Qed.

Lemma relax_edge_scale : forall c w u row v, 0 < c ->
    relax_edge (scale_w c w) u (scale_row c row) v = scale_row c (relax_edge w u row v).
Proof.
  intros c w u row v Hc. unfold relax_edge. rewrite !nth_scale_row.
  destruct (nth u row None) as [du|]; cbn [scale_o option_map]; [|reflexivity].
  assert (E : c * du + scale_w c w u v = c * (du + w u v)) by (unfold scale_w; ring).
  destruct (nth v row None) as [dv|]; cbn [scale_o option_map].
  - rewrite E.
    assert (L : Z.ltb (c * (du + w u v)) (c * dv) = Z.ltb (du + w u v) dv).
    { destruct (Z.ltb_spec (du + w u v) dv) as [H|H].
      - apply Z.ltb_lt. apply Z.mul_lt_mono_pos_l; assumption.
      - apply Z.ltb_ge. apply Z.mul_le_mono_nonneg_l; lia. }
    rewrite L. destruct (Z.ltb (du + w u v) dv); [|reflexivity].
    apply (set_nth_scale_row c row v (Some (du + w u v))).
  - rewrite E. apply (set_nth_scale_row c row v (Some (du + w u v))).
Qed.

Lemma bf_fold_scale : forall c w es row, 0 < c ->
    fold_left (fun r e => relax_edge (scale_w c w) (fst e) r (snd e)) es (scale_row c row) =
    scale_row c (fold_left (fun r e => relax_edge w (fst e) r (snd e)) es row).
Proof.
  intros c w es. induction es as [|e es IH]; intros row Hc; [reflexivity|].
  cbn [fold_left]. rewrite relax_edge_scale by assumption. apply IH. assumption.
Qed.

Lemma bf_iter_scale : forall c nbrs w N rounds row, 0 < c ->
    bf_iter nbrs (scale_w c w) N rounds (scale_row c row) = scale_row c (bf_iter nbrs w N rounds row).
Proof.
  intros c nbrs w N rounds. induction rounds as [|r IH]; intros row Hc; [reflexivity|].
  cbn [bf_iter]. unfold bf_round. rewrite bf_fold_scale by assumption. apply IH. assumption.
Qed.

(* the specification is homogeneous of degree one in the weights *)
Theorem sp_row_scale : forall c nbrs w N k, 0 < c ->
    sp_row nbrs (scale_w c w) N k = scale_row c (sp_row nbrs w N k).
Proof.
  intros c nbrs w N k Hc. unfold sp_row.
  rewrite <- bf_iter_scale by assumption. f_equal.
  rewrite <- set_nth_scale_row. cbn [scale_o option_map]. rewrite Z.mul_0_r. f_equal.
  clear. induction N as [|n IH]; [reflexivity|]. cbn [repeat scale_row map scale_o option_map].
  f_equal. exact IH.
Qed.

Corollary sp_scale : forall c nbrs w N k v, 0 < c ->
    sp nbrs (scale_w c w) N k v = scale_o c (sp nbrs w N k v).
Proof.
  intros c nbrs w N k v Hc. unfold sp. rewrite sp_row_scale by assumption. apply nth_scale_row.
Qed.

Lemma sp_matrix_scale : forall c nbrs w N, 0 < c ->
    sp_matrix nbrs (scale_w c w) N = scale_mat c (sp_matrix nbrs w N).
Proof.
  intros c nbrs w N Hc. unfold sp_matrix, scale_mat. rewrite map_map.
  apply map_ext. intros k. apply sp_row_scale. assumption.
Qed.

Lemma sp_landmarks_scale : forall c nbrs w N lm, 0 < c ->
    sp_landmarks nbrs (scale_w c w) N lm = scale_mat c (sp_landmarks nbrs w N lm).
Proof.
  intros c nbrs w N lm Hc. unfold sp_landmarks, scale_mat. rewrite map_map.
  apply map_ext. intros k. apply sp_row_scale. assumption.
Qed.

Lemma nonneg_scale : forall c nbrs w, 0 < c -> nonneg_w nbrs w -> nonneg_w nbrs (scale_w c w).
Proof.
  intros c nbrs w Hc H u v He. unfold scale_w. specialize (H u v He). apply Z.mul_nonneg_nonneg; lia.
Qed.

(* both overloads, both heap configurations (abstract queue: every admissible tie-breaking, which may even
   differ between the two runs), and the concrete Fibonacci heap: the result on c * w is c times the result on w *)
Theorem full_matrix_scale : forall fl1 fl2 nbrs w N K pick1 pick2 c,
    wf_graph nbrs N K -> nonneg_w nbrs w -> pick_ok pick1 -> pick_ok pick2 -> (0 < N)%nat -> 0 < c ->
    exists m, full_matrix fl2 nbrs w pick2 N = DOk m /\
              full_matrix fl1 nbrs (scale_w c w) pick1 N = DOk (scale_mat c m).
Proof.
  intros fl1 fl2 nbrs w N K pick1 pick2 c Hwf Hnn Hp1 Hp2 HN Hc.
  exists (sp_matrix nbrs w N). split.
  - apply (full_matrix_correct nbrs w N K Hwf Hnn fl2 pick2 Hp2 HN).
  - rewrite (full_matrix_correct nbrs (scale_w c w) N K Hwf (nonneg_scale c nbrs w Hc Hnn) fl1 pick1 Hp1 HN).
    f_equal. apply sp_matrix_scale. assumption.
Qed.

Theorem landmark_matrix_scale : forall fl1 fl2 nbrs w N K pick1 pick2 lm c,
    wf_graph nbrs N K -> nonneg_w nbrs w -> pick_ok pick1 -> pick_ok pick2 -> (0 < N)%nat ->
    Forall (fun v => (v < N)%nat) lm -> 0 < c ->
    exists m, landmark_matrix_fixed fl2 nbrs w pick2 N lm = DOk m /\
              landmark_matrix_fixed fl1 nbrs (scale_w c w) pick1 N lm = DOk (scale_mat c m).
Proof.
  intros fl1 fl2 nbrs w N K pick1 pick2 lm c Hwf Hnn Hp1 Hp2 HN Hlm Hc.
  exists (sp_landmarks nbrs w N lm). split.
  - apply (landmark_matrix_fixed_correct nbrs w N K Hwf Hnn fl2 pick2 lm Hp2 HN Hlm).
  - rewrite (landmark_matrix_fixed_correct nbrs (scale_w c w) N K Hwf (nonneg_scale c nbrs w Hc Hnn)
               fl1 pick1 lm Hp1 HN Hlm).
    f_equal. apply sp_landmarks_scale. assumption.
Qed.

Theorem fibc_scale : forall nbrs w N K lm c,
    wf_graph nbrs N K -> nonneg_w nbrs w -> (0 < N)%nat -> Forall (fun v => (v < N)%nat) lm -> 0 < c ->
    exists m ml, full_matrix_fibc nbrs w N = DOk m /\
                 full_matrix_fibc nbrs (scale_w c w) N = DOk (scale_mat c m) /\
                 landmark_matrix_fibc nbrs w N lm = DOk ml /\
                 landmark_matrix_fibc nbrs (scale_w c w) N lm = DOk (scale_mat c ml).
Proof.
  intros nbrs w N K lm c Hwf Hnn HN Hlm Hc.
  pose proof (nonneg_scale c nbrs w Hc Hnn) as Hnn'.
  exists (sp_matrix nbrs w N), (sp_landmarks nbrs w N lm).
  rewrite (full_matrix_fibc_correct nbrs w N K Hwf Hnn HN).
  rewrite (full_matrix_fibc_correct nbrs (scale_w c w) N K Hwf Hnn' HN).
  rewrite (landmark_matrix_fibc_correct nbrs w N K lm Hwf Hnn HN Hlm).
  rewrite (landmark_matrix_fibc_correct nbrs (scale_w c w) N K lm Hwf Hnn' HN Hlm).
  rewrite sp_matrix_scale, sp_landmarks_scale by assumption. repeat split; reflexivity.
Qed.

(* non-vacuity + a glimpse of what an absolute tolerance does: on the F4 witness graph with the unit 2^70 times
   finer the model returns 2^70 times the geodesics (computed, not deduced) *)
Example scale_example :
    full_matrix FIB f4_nbrs (scale_w (2 ^ 70) f4_w) pick_first_min 3 =
    DOk (scale_mat (2 ^ 70) (sp_matrix f4_nbrs f4_w 3)) /\ 0 < 2 ^ 70.
Proof. split; [vm_compute; reflexivity | reflexivity]. Qed.

(* ------------------------------------------------------------------------------------------ *)
(* Part B: the embedding stage                                                                 *)
(* ------------------------------------------------------------------------------------------ *)
Section ScaleIso.
  Context {F : Type} {Fo : FieldOps F} {Ff : IsField F}.
  Add Field ScaleIsoField : (@Fth F Fo Ff).
  Local Open Scope F_scope.

  (* squared geodesics, symmetrisation, centerMatrix, -1/2: homogeneous of degree two.  Unconditional (also for
     n = 0 and a field of characteristic two: both sides are then the same expression in 1/0). *)
  Theorem iso_fixed_scale : forall n (c : F) (G : mat F) i j,
      iso_fixed n (mscale c G) i j = (c * c) * iso_fixed n G i j.
  Proof.
    intros n c G i j.
    unfold iso_fixed, mscale, center_matrix, grandmean, colmean, totsum, colsum, sym_avg, sq_mat.
    rewrite (sumn_ext n (fun i0 => sumn n (fun j0 => (c * G i0 j0 * (c * G i0 j0) + c * G j0 i0 * (c * G j0 i0)) / two))
                        (fun i0 => (c * c) * sumn n (fun j0 => (G i0 j0 * G i0 j0 + G j0 i0 * G j0 i0) / two))).
    2:{ intros a _. rewrite <- sumn_mul_l. apply sumn_ext. intros b _.
        rewrite !(Fdiv_def (@Fth F Fo Ff)). ring. }
    rewrite sumn_mul_l.
    rewrite (sumn_ext n (fun i0 => (c * G i0 j * (c * G i0 j) + c * G j i0 * (c * G j i0)) / two)
                        (fun i0 => (c * c) * ((G i0 j * G i0 j + G j i0 * G j i0) / two))).
    2:{ intros a _. rewrite !(Fdiv_def (@Fth F Fo Ff)). ring. }
    rewrite sumn_mul_l.
    rewrite (sumn_ext n (fun i0 => (c * G i0 i * (c * G i0 i) + c * G i i0 * (c * G i i0)) / two)
                        (fun i0 => (c * c) * ((G i0 i * G i0 i + G i i0 * G i i0) / two))).
    2:{ intros a _. rewrite !(Fdiv_def (@Fth F Fo Ff)). ring. }
    rewrite sumn_mul_l.
    rewrite !(Fdiv_def (@Fth F Fo Ff)). ring.
  Qed.

  Corollary mds_ref_scale : forall n (c : F) (G : mat F), of_nat n <> 0 ->
      meq n n (mds_ref n (mscale c G)) (mscale (c * c) (mds_ref n G)).
  Proof.
    intros n c G Hn i j Hi Hj. unfold mscale at 2.
    rewrite <- (Dijkstra_Proof_Iso.iso_fixed_is_mds n (mscale c G) Hn i j Hi Hj).
    rewrite <- (Dijkstra_Proof_Iso.iso_fixed_is_mds n G Hn i j Hi Hj).
    apply iso_fixed_scale.
  Qed.

  (* the oracle contract and the returned embedding: eigenvectors unchanged, eigenvalues times c^2, the scaling
     factors (sqrt) times c, the embedding times c *)
  Theorem embed_contract_scale : forall (n d : nat) (c : F) (B V : mat F) (lam s : vec F),
      (forall i j, (i < n)%nat -> (j < d)%nat -> sumn n (fun t => B i t * V t j) = lam j * V i j) ->
      (forall j, (j < d)%nat -> s j * s j = lam j) ->
      (forall i j, (i < n)%nat -> (j < d)%nat ->
          sumn n (fun t => mscale (c * c) B i t * V t j) = ((c * c) * lam j) * V i j) /\
      (forall j, (j < d)%nat -> (c * s j) * (c * s j) = (c * c) * lam j) /\
      (forall i j, scale_cols V (fun j => c * s j) i j = c * scale_cols V s i j).
  Proof.
    intros n d c B V lam s Heig Hs. split; [|split].
    - intros i j Hi Hj. unfold mscale.
      rewrite (sumn_ext n _ (fun t => (c * c) * (B i t * V t j))) by (intros; ring).
      rewrite sumn_mul_l, Heig by assumption. ring.
    - intros j Hj. rewrite <- (Hs j Hj). ring.
    - intros i j. unfold scale_cols. ring.
  Qed.
End ScaleIso.
