(* Dijkstra_IsoExec.v — list-level (memoised) executables of Dijkstra_IsoModel.v over Qc,
   the functions the correspondence run extracts.  No proofs in this file; the equalities
       iso_current_exec n t = mtab n n (iso_fixed   n (geo_of_table t))
       iso_old_exec     n t = mtab n n (iso_shipped n (geo_of_table t))
       mds_ref_exec     n t = mtab n n (mds_ref     n (geo_of_table t))
   are proved in Dijkstra_Proof_IsoExec.v, so what runs is what the theorems are about.

   include/tapkee/methods/isomap.hpp, embed(), statement by statement (CURRENT tree, commit
   1e09b35, after fix F23):
       G = compute_shortest_distances_matrix(...)
       G = G.array().square();                                -> sq_mat
       G = (G + G.transpose()).eval() / 2.0;                  -> sym_avg      (stage S, memoised)
       centerMatrix(G);    col_means, grand_mean, += g, rowwise -= cm^T, colwise -= cm
       G.array() *= -0.5;                                     -> mscale neg_half
   `iso_old_exec` is the same without the (G + G^T)/2 statement (tree before 1e09b35).
   Geodesics enter as an integer table (dyadic doubles scaled by a power of two; the harness
   only feeds connected graphs to this stage: no infinity here). *)
From Coq Require Import List ZArith Arith Qcanon.
From TK Require Import Mat_Sums Mat_Core Mat_Qc Dijkstra_IsoModel.
Import ListNotations.

Definition geo_of_table (t : list (list Z)) : mat Qc :=
  fun i j => qz (nth j (nth i t []) 0%Z).

(* centerMatrix + `*= -0.5` on a memoised stage S: column means and grand mean computed once *)
Definition center_scale_exec (n : nat) (S : list (list Qc)) : list (list Qc) :=
  let cm := vtab n (colmean n (mof S)) in
  let g := grandmean n n (mof S) in
  mtab n n (fun i j => (neg_half * (mof S i j + g - vof cm j - vof cm i))%F).

Definition iso_current_exec (n : nat) (t : list (list Z)) : list (list Qc) :=
  center_scale_exec n (mtab n n (sym_avg (sq_mat (geo_of_table t)))).

Definition iso_old_exec (n : nat) (t : list (list Z)) : list (list Qc) :=
  center_scale_exec n (mtab n n (sq_mat (geo_of_table t))).

(* the reference, literally -1/2 J (S J) with S = (G.^2 + (G.^2)^T)/2, two memoised products *)
Definition mds_ref_exec (n : nat) (t : list (list Z)) : list (list Qc) :=
  let S := mtab n n (sym_avg (sq_mat (geo_of_table t))) in
  let SJ := mtab n n (mmul n (mof S) (Jn n)) in
  mtab n n (mscale neg_half (mmul n (Jn n) (mof SJ))).

(* decision procedure: is an observed matrix (entries a/b) the classical-MDS matrix? *)
Definition obs_of (L : list (list (Z * positive))) : list (list Qc) :=
  map (map (fun ab => qfrac (fst ab) (snd ab))) L.

Definition check_mds (n : nat) (t : list (list Z)) (observed : list (list (Z * positive))) : bool :=
  mlist_eqb (obs_of observed) (mds_ref_exec n t).
